import RxnModel.Model.Align
/-!
Helper lemmas for C02: projections of observation traces, the trace checkers `cutOK` / `alignOK` / `timersOK`,
the state invariant `Inv` and its preservation by every plain step of `Rxn.Align.step`.
-/
namespace Rxn.Align

/-! ## projections of a trace -/

/-- the items the consumer took, in processing order, with their sender -/
def procsOf : List Obs → List (Nat × Item)
  | [] => []
  | .aligned _ _ :: r => procsOf r
  | .busy _ :: r => procsOf r
  | .proc sr it :: r => (sr, it) :: procsOf r
  | .handler _ _ _ :: r => procsOf r
  | .fired _ _ :: r => procsOf r
  | .reg _ _ :: r => procsOf r
  | .reject _ _ _ :: r => procsOf r
  | .snap _ _ _ :: r => procsOf r
  | .ack _ :: r => procsOf r
  | .released _ :: r => procsOf r
  | .ackfail _ :: r => procsOf r
  | .completed _ :: r => procsOf r
  | .stopped :: r => procsOf r
  | .redeployed _ :: r => procsOf r

/-- the entries handed to the user handler, in order -/
def entriesOf : List Obs → List Entry
  | [] => []
  | .aligned _ _ :: r => entriesOf r
  | .busy _ :: r => entriesOf r
  | .proc _ _ :: r => entriesOf r
  | .handler es _ _ :: r => es ++ entriesOf r
  | .fired _ _ :: r => entriesOf r
  | .reg _ _ :: r => entriesOf r
  | .reject _ _ _ :: r => entriesOf r
  | .snap _ _ _ :: r => entriesOf r
  | .ack _ :: r => entriesOf r
  | .released _ :: r => entriesOf r
  | .ackfail _ :: r => entriesOf r
  | .completed _ :: r => entriesOf r
  | .stopped :: r => entriesOf r
  | .redeployed _ :: r => entriesOf r

/-- (sender, id) of the barriers accepted since the last snapshot -/
def gotOf : List (Nat × Nat) → List Obs → List (Nat × Nat)
  | g, [] => g
  | g, .aligned _ _ :: r => gotOf g r
  | g, .busy _ :: r => gotOf g r
  | g, .proc _ _ :: r => gotOf g r
  | g, .handler _ _ _ :: r => gotOf g r
  | g, .fired _ _ :: r => gotOf g r
  | g, .reg sr id :: r => gotOf ((sr, id) :: g) r
  | g, .reject _ _ _ :: r => gotOf g r
  | _, .snap _ _ _ :: r => gotOf [] r
  | g, .ack _ :: r => gotOf g r
  | g, .released _ :: r => gotOf g r
  | g, .ackfail _ :: r => gotOf g r
  | g, .completed _ :: r => gotOf g r
  | g, .stopped :: r => gotOf g r
  | g, .redeployed _ :: r => gotOf g r

/-- the timer store replayed from a trace: the handler's timer requests pass the `SetTimer` guard of the
watermark it was called with, fired timers are removed -/
def timersOf : Timers → List Obs → Timers
  | c, [] => c
  | c, .aligned _ _ :: r => timersOf c r
  | c, .busy _ :: r => timersOf c r
  | c, .proc _ _ :: r => timersOf c r
  | c, .handler es w _ :: r => timersOf (es.foldl (setTimer w) c) r
  | c, .fired key ts :: r => timersOf (c.erase (ts, key)) r
  | c, .reg _ _ :: r => timersOf c r
  | c, .reject _ _ _ :: r => timersOf c r
  | c, .snap _ _ _ :: r => timersOf c r
  | c, .ack _ :: r => timersOf c r
  | c, .released _ :: r => timersOf c r
  | c, .ackfail _ :: r => timersOf c r
  | c, .completed _ :: r => timersOf c r
  | c, .stopped :: r => timersOf c r
  | c, .redeployed _ :: r => timersOf c r

theorem procsOf_append (a b : List Obs) : procsOf (a ++ b) = procsOf a ++ procsOf b := by
  induction a with
  | nil => rfl
  | cons x r ih => cases x <;> simp [procsOf, ih]

theorem entriesOf_append (a b : List Obs) : entriesOf (a ++ b) = entriesOf a ++ entriesOf b := by
  induction a with
  | nil => rfl
  | cons x r ih => cases x <;> simp [entriesOf, ih]

theorem gotOf_append (g : List (Nat × Nat)) (a b : List Obs) : gotOf g (a ++ b) = gotOf (gotOf g a) b := by
  induction a generalizing g with
  | nil => rfl
  | cons x r ih => cases x <;> simp [gotOf, ih]

theorem timersOf_append (c : Timers) (a b : List Obs) : timersOf c (a ++ b) = timersOf (timersOf c a) b := by
  induction a generalizing c with
  | nil => rfl
  | cons x r ih => cases x <;> simp [timersOf, ih]

/-- keyed events among handler entries, with their (ghost) sender -/
def userOf : List Entry → List (Nat × Bytes × Nat × Nat)
  | [] => []
  | .user sr k p t :: r => (sr, k, p, t) :: userOf r
  | .timer _ _ _ :: r => userOf r

/-- keyed events among processed items -/
def userProcs : List (Nat × Item) → List (Nat × Bytes × Nat × Nat)
  | [] => []
  | (sr, .ev k p t) :: r => (sr, k, p, t) :: userProcs r
  | (_, .wm _) :: r => userProcs r
  | (_, .bar _) :: r => userProcs r
  | (_, .done) :: r => userProcs r

theorem userOf_append (a b : List Entry) : userOf (a ++ b) = userOf a ++ userOf b := by
  induction a with
  | nil => rfl
  | cons x r ih => cases x <;> simp [userOf, ih]

theorem userProcs_append (a b : List (Nat × Item)) : userProcs (a ++ b) = userProcs a ++ userProcs b := by
  induction a with
  | nil => rfl
  | cons x r ih =>
    obtain ⟨sr, it⟩ := x
    cases it <;> simp [userProcs, ih]

/-- the last item of sender `sr` the consumer took -/
def lastProc (sr : Nat) (p : List (Nat × Item)) : Option Item :=
  ((p.filter fun x => x.1 = sr).getLast?).map (·.2)

theorem lastProc_concat (sr sr' : Nat) (it : Item) (p : List (Nat × Item)) :
    lastProc sr (p ++ [(sr', it)]) = if sr' = sr then some it else lastProc sr p := by
  unfold lastProc
  by_cases h : sr' = sr
  · simp [List.filter_append, h]
  · simp [List.filter_append, h]

/-- **the cut**: what a snapshot `S` with id `id` must satisfy when, since the deployment started with keyed state
`base` and keyed events `u0` waiting in the batcher, the consumer took `p` and the handler received `a` -/
def Cut (k : Nat) (base : KVf) (u0 : List (Nat × Bytes × Nat × Nat)) (p : List (Nat × Item)) (a : List Entry)
    (id : Nat) (S : KVf) : Prop :=
  S = a.foldl applyRec base ∧ userOf a = u0 ++ userProcs p ∧ ∀ sr, sr < k → lastProc sr p = some (.bar id)

/-- trace checker: every snapshot in the trace is a consistent cut of what precedes it -/
def cutOK (k : Nat) (base : KVf) (u0 : List (Nat × Bytes × Nat × Nat)) :
    List (Nat × Item) → List Entry → List Obs → Prop
  | _, _, [] => True
  | p, a, .aligned _ _ :: r => cutOK k base u0 p a r
  | p, a, .busy _ :: r => cutOK k base u0 p a r
  | p, a, .proc sr it :: r => cutOK k base u0 (p ++ [(sr, it)]) a r
  | p, a, .handler es _ _ :: r => cutOK k base u0 p (a ++ es) r
  | p, a, .fired _ _ :: r => cutOK k base u0 p a r
  | p, a, .reg _ _ :: r => cutOK k base u0 p a r
  | p, a, .reject _ _ _ :: r => cutOK k base u0 p a r
  | p, a, .snap id S _ :: r => Cut k base u0 p a id S ∧ cutOK k base u0 p a r
  | p, a, .ack _ :: r => cutOK k base u0 p a r
  | p, a, .released _ :: r => cutOK k base u0 p a r
  | p, a, .ackfail _ :: r => cutOK k base u0 p a r
  | p, a, .completed _ :: r => cutOK k base u0 p a r
  | p, a, .stopped :: r => cutOK k base u0 p a r
  | p, a, .redeployed _ :: r => cutOK k base u0 p a r

theorem cutOK_append (k : Nat) (base : KVf) (u0) (p : List (Nat × Item)) (a : List Entry) (o1 o2 : List Obs) :
    cutOK k base u0 p a (o1 ++ o2) ↔
      cutOK k base u0 p a o1 ∧ cutOK k base u0 (p ++ procsOf o1) (a ++ entriesOf o1) o2 := by
  induction o1 generalizing p a with
  | nil => simp [cutOK, procsOf, entriesOf]
  | cons x r ih =>
    cases x <;> simp [cutOK, procsOf, entriesOf, ih, and_assoc, List.append_assoc]

theorem cutOK_split {k : Nat} {base : KVf} {u0} {p : List (Nat × Item)} {a : List Entry} {pre post : List Obs}
    {id : Nat} {S : KVf} {T : Timers} (h : cutOK k base u0 p a (pre ++ .snap id S T :: post)) :
    Cut k base u0 (p ++ procsOf pre) (a ++ entriesOf pre) id S := by
  rw [cutOK_append] at h
  exact h.2.1

/-- trace checker for the alignment discipline: a sender whose barrier was accepted is not served again before
the snapshot, and a snapshot `id` is only taken when every sender's barrier `id` was accepted since the previous one -/
def alignOK (k : Nat) : List (Nat × Nat) → List Obs → Prop
  | _, [] => True
  | g, .aligned _ _ :: r => alignOK k g r
  | g, .busy _ :: r => alignOK k g r
  | g, .proc sr _ :: r => (∀ i, (sr, i) ∉ g) ∧ alignOK k g r
  | g, .handler _ _ _ :: r => alignOK k g r
  | g, .fired _ _ :: r => alignOK k g r
  | g, .reg sr id :: r => (∀ i, (sr, i) ∉ g) ∧ alignOK k ((sr, id) :: g) r
  | g, .reject _ _ _ :: r => alignOK k g r
  | g, .snap id _ _ :: r => (∀ sr, sr < k → (sr, id) ∈ g) ∧ alignOK k [] r
  | g, .ack _ :: r => alignOK k g r
  | g, .released _ :: r => alignOK k g r
  | g, .ackfail _ :: r => alignOK k g r
  | g, .completed _ :: r => alignOK k g r
  | g, .stopped :: r => alignOK k g r
  | g, .redeployed _ :: r => alignOK k g r

theorem alignOK_append (k : Nat) (g : List (Nat × Nat)) (o1 o2 : List Obs) :
    alignOK k g (o1 ++ o2) ↔ alignOK k g o1 ∧ alignOK k (gotOf g o1) o2 := by
  induction o1 generalizing g with
  | nil => simp [alignOK, gotOf]
  | cons x r ih => cases x <;> simp [alignOK, gotOf, ih, and_assoc]

/-- trace checker: every snapshot holds exactly the replayed timer store -/
def timersOK : Timers → List Obs → Prop
  | _, [] => True
  | c, .aligned _ _ :: r => timersOK c r
  | c, .busy _ :: r => timersOK c r
  | c, .proc _ _ :: r => timersOK c r
  | c, .handler es w _ :: r => timersOK (es.foldl (setTimer w) c) r
  | c, .fired key ts :: r => timersOK (c.erase (ts, key)) r
  | c, .reg _ _ :: r => timersOK c r
  | c, .reject _ _ _ :: r => timersOK c r
  | c, .snap _ _ T :: r => T = c ∧ timersOK c r
  | c, .ack _ :: r => timersOK c r
  | c, .released _ :: r => timersOK c r
  | c, .ackfail _ :: r => timersOK c r
  | c, .completed _ :: r => timersOK c r
  | c, .stopped :: r => timersOK c r
  | c, .redeployed _ :: r => timersOK c r

theorem timersOK_append (c : Timers) (o1 o2 : List Obs) :
    timersOK c (o1 ++ o2) ↔ timersOK c o1 ∧ timersOK (timersOf c o1) o2 := by
  induction o1 generalizing c with
  | nil => simp [timersOK, timersOf]
  | cons x r ih => cases x <;> simp [timersOK, timersOf, ih, and_assoc]

/-- observation lists that only contain handler calls and (ghost) timer firings -/
def OnlyH (o : List Obs) : Prop := ∀ x ∈ o, (∃ es w g, x = Obs.handler es w g) ∨ (∃ key ts, x = Obs.fired key ts)

theorem OnlyH.nil : OnlyH [] := by intro x hx; cases hx

theorem OnlyH.append {a b : List Obs} (ha : OnlyH a) (hb : OnlyH b) : OnlyH (a ++ b) := by
  intro x hx
  rcases List.mem_append.mp hx with h | h
  · exact ha x h
  · exact hb x h

theorem OnlyH.cons_handler {es w g} {r : List Obs} (h : OnlyH r) : OnlyH (Obs.handler es w g :: r) := by
  intro x hx
  rcases List.mem_cons.mp hx with rfl | hx
  · exact Or.inl ⟨_, _, _, rfl⟩
  · exact h x hx

theorem OnlyH.cons_fired {key ts} {r : List Obs} (h : OnlyH r) : OnlyH (Obs.fired key ts :: r) := by
  intro x hx
  rcases List.mem_cons.mp hx with rfl | hx
  · exact Or.inr ⟨_, _, rfl⟩
  · exact h x hx

theorem OnlyH.tail {x : Obs} {r : List Obs} (h : OnlyH (x :: r)) : OnlyH r :=
  fun y hy => h y (List.mem_cons_of_mem _ hy)

theorem OnlyH.head {x : Obs} {r : List Obs} (h : OnlyH (x :: r)) :
    (∃ es w g, x = Obs.handler es w g) ∨ (∃ key ts, x = Obs.fired key ts) :=
  h x (List.mem_cons_self)

theorem OnlyH.procsOf {o : List Obs} (h : OnlyH o) : procsOf o = [] := by
  induction o with
  | nil => rfl
  | cons x r ih =>
    rcases h.head with ⟨es, w, g, rfl⟩ | ⟨key, ts, rfl⟩
    · simpa [Align.procsOf] using ih h.tail
    · simpa [Align.procsOf] using ih h.tail

theorem OnlyH.gotOf {o : List Obs} (h : OnlyH o) (g : List (Nat × Nat)) : gotOf g o = g := by
  induction o with
  | nil => rfl
  | cons x r ih =>
    rcases h.head with ⟨es, w, g', rfl⟩ | ⟨key, ts, rfl⟩
    · simpa [Align.gotOf] using ih h.tail
    · simpa [Align.gotOf] using ih h.tail

theorem OnlyH.cutOK {o : List Obs} (h : OnlyH o) (k : Nat) (base : KVf) (u0) (p : List (Nat × Item))
    (a : List Entry) : cutOK k base u0 p a o := by
  induction o generalizing a with
  | nil => trivial
  | cons x r ih =>
    rcases h.head with ⟨es, w, g', rfl⟩ | ⟨key, ts, rfl⟩
    · simpa [Align.cutOK] using ih h.tail _
    · simpa [Align.cutOK] using ih h.tail _

theorem OnlyH.alignOK {o : List Obs} (h : OnlyH o) (k : Nat) (g : List (Nat × Nat)) : alignOK k g o := by
  induction o with
  | nil => trivial
  | cons x r ih =>
    rcases h.head with ⟨es, w, g', rfl⟩ | ⟨key, ts, rfl⟩
    · simpa [Align.alignOK] using ih h.tail
    · simpa [Align.alignOK] using ih h.tail

theorem OnlyH.timersOK {o : List Obs} (h : OnlyH o) (c : Timers) : timersOK c o := by
  induction o generalizing c with
  | nil => trivial
  | cons x r ih =>
    rcases h.head with ⟨es, w, g', rfl⟩ | ⟨key, ts, rfl⟩
    · simpa [Align.timersOK] using ih h.tail _
    · simpa [Align.timersOK] using ih h.tail _

/-! ## batching: entries only move from `pending` to the handler, in order -/

/-- `s'` is reached from `s` by adding the entries `es` to the batcher, possibly flushing on the way; `o` holds
the handler calls made (and ghost timer firings) -/
structure Ext (s s' : St) (o : List Obs) (es : List Entry) : Prop where
  k : s'.k = s.k
  z : s'.z = s.z
  maxSize : s'.maxSize = s.maxSize
  slots : s'.slots = s.slots
  ckpt : s'.ckpt = s.ckpt
  af : s'.ackFails = s.ackFails
  onlyH : OnlyH o
  ents : entriesOf o ++ s'.pending = s.pending ++ es
  kv : s'.kv = (entriesOf o).foldl applyRec s.kv

theorem Ext.refl (s : St) : Ext s s [] [] :=
  ⟨rfl, rfl, rfl, rfl, rfl, rfl, OnlyH.nil, by simp [entriesOf], by simp [entriesOf]⟩

theorem Ext.trans {s s1 s2 : St} {o1 o2 : List Obs} {e1 e2 : List Entry}
    (h1 : Ext s s1 o1 e1) (h2 : Ext s1 s2 o2 e2) : Ext s s2 (o1 ++ o2) (e1 ++ e2) := by
  refine ⟨h2.k.trans h1.k, h2.z.trans h1.z, h2.maxSize.trans h1.maxSize, h2.slots.trans h1.slots, h2.ckpt.trans h1.ckpt,
    h2.af.trans h1.af, h1.onlyH.append h2.onlyH, ?_, ?_⟩
  · rw [entriesOf_append, List.append_assoc, h2.ents, ← List.append_assoc, h1.ents, List.append_assoc]
  · rw [entriesOf_append, List.foldl_append, ← h1.kv, h2.kv]

/-- `Ext` only looks at the batching-relevant part of the start state -/
theorem Ext.of_eq {s0 s s' : St} {o : List Obs} {es : List Entry} (h : Ext s0 s' o es)
    (hk : s0.k = s.k) (hz : s0.z = s.z) (hm : s0.maxSize = s.maxSize) (hs : s0.slots = s.slots) (hc : s0.ckpt = s.ckpt)
    (ha : s0.ackFails = s.ackFails)
    (hp : s0.pending = s.pending) (hkv : s0.kv = s.kv) : Ext s s' o es :=
  ⟨h.k.trans hk, h.z.trans hz, h.maxSize.trans hm, h.slots.trans hs, h.ckpt.trans hc, h.af.trans ha, h.onlyH,
   by rw [← hp]; exact h.ents, by rw [← hkv]; exact h.kv⟩

/-- a fired timer is noted (ghost) in front of the handler calls it may cause -/
theorem Ext.cons_fired {s s' : St} {o : List Obs} {es : List Entry} (h : Ext s s' o es) (key : Bytes) (ts : Nat) :
    Ext s s' (.fired key ts :: o) es :=
  ⟨h.k, h.z, h.maxSize, h.slots, h.ckpt, h.af, h.onlyH.cons_fired, by simpa [entriesOf] using h.ents,
   by simpa [entriesOf] using h.kv⟩

theorem flush_ext (s : St) : Ext s (flush s).1 (flush s).2 [] := by
  unfold flush
  split
  · exact Ext.refl s
  · exact ⟨rfl, rfl, rfl, rfl, rfl, rfl, OnlyH.nil.cons_handler, by simp [entriesOf], by simp [entriesOf]⟩

theorem flush_pending (s : St) : (flush s).1.pending = [] := by
  unfold flush
  split
  · rename_i h
    simpa using h
  · rfl

theorem flush_timers (s : St) : (flush s).1.timers = timersOf s.timers (flush s).2 := by
  unfold flush
  split
  · rfl
  · simp [timersOf]

theorem push_ext (s : St) (e : Entry) : Ext s (push s e) [] [e] := by
  unfold push
  split
  · rename_i hp
    have hp' : s.pending = [] := by simpa using hp
    exact ⟨rfl, rfl, rfl, rfl, rfl, rfl, OnlyH.nil, by simp [entriesOf, hp'], by simp [entriesOf]⟩
  · exact ⟨rfl, rfl, rfl, rfl, rfl, rfl, OnlyH.nil, by simp [entriesOf], by simp [entriesOf]⟩

theorem push_timers (s : St) (e : Entry) : (push s e).timers = s.timers := by
  unfold push
  split <;> rfl

theorem maybeFlush_ext (s : St) : Ext s (maybeFlush s).1 (maybeFlush s).2 [] := by
  unfold maybeFlush
  split
  · exact flush_ext s
  · exact Ext.refl s

theorem maybeFlush_timers (s : St) : (maybeFlush s).1.timers = timersOf s.timers (maybeFlush s).2 := by
  unfold maybeFlush
  split
  · exact flush_timers s
  · rfl

theorem addEntry_ext (s : St) (e : Entry) : Ext s (addEntry s e).1 (addEntry s e).2 [e] := by
  have h := (push_ext s e).trans (maybeFlush_ext (push s e))
  simpa [addEntry] using h

theorem addEntry_timers (s : St) (e : Entry) : (addEntry s e).1.timers = timersOf s.timers (addEntry s e).2 := by
  unfold addEntry
  rw [maybeFlush_timers, push_timers]

theorem fireLoop_ext (sr w : Nat) : ∀ (n : Nat) (s : St) (o0 : List Obs),
    ∃ o es, (fireLoop sr w n s o0).2 = o0 ++ o ∧ Ext s (fireLoop sr w n s o0).1 o es ∧ userOf es = [] ∧
      (fireLoop sr w n s o0).1.timers = timersOf s.timers o := by
  intro n
  induction n with
  | zero => intro s o0; exact ⟨[], [], by simp [fireLoop], Ext.refl s, rfl, rfl⟩
  | succ n ih =>
    intro s o0
    unfold fireLoop
    split
    · exact ⟨[], [], by simp, Ext.refl s, rfl, rfl⟩
    · rename_i ts key rest hts
      split
      · exact ⟨[], [], by simp, Ext.refl s, rfl, rfl⟩
      · have h1 := ((addEntry_ext { s with timers := rest } (.timer sr key ts)).of_eq
          (s := s) rfl rfl rfl rfl rfl rfl rfl rfl).cons_fired key ts
        obtain ⟨o, es, ho, hext, hu, htm⟩ := ih (addEntry { s with timers := rest } (.timer sr key ts)).1
          (o0 ++ .fired key ts :: (addEntry { s with timers := rest } (.timer sr key ts)).2)
        refine ⟨.fired key ts :: (addEntry { s with timers := rest } (.timer sr key ts)).2 ++ o,
          [.timer sr key ts] ++ es, ?_, h1.trans hext, ?_, ?_⟩
        · simp only [ho, List.append_assoc, List.cons_append]
        · simp [userOf, hu]
        · rw [htm, addEntry_timers, timersOf_append]
          simp [timersOf, hts]

/-! ## the state invariant -/

/-- `base`/`u0` = keyed state and keyed events waiting in the batcher when the deployment started; `p` = items the
consumer took since, `a` = entries the handler received since, `g` = (sender, id) of the barriers accepted since
the last snapshot -/
structure Inv (base : KVf) (u0 : List (Nat × Bytes × Nat × Nat)) (s : St) (p : List (Nat × Item))
    (a : List Entry) (g : List (Nat × Nat)) : Prop where
  kv_eq : s.kv = a.foldl applyRec base
  users : userOf (a ++ s.pending) = u0 ++ userProcs p
  ck : ∀ id m, s.ckpt = some (id, m) → m ≠ [] ∧ ∀ sr, sr < s.k → sr ∉ m →
        lastProc sr p = some (.bar id) ∧ ∀ it, s.slots sr ≠ some (it, true)
  parked : ∀ sr it, s.slots sr = some (it, false) → ∃ id m, s.ckpt = some (id, m) ∧ sr ∉ m
  got : ∀ sr i, (sr, i) ∈ g ↔ ∃ m, s.ckpt = some (i, m) ∧ sr < s.k ∧ sr ∉ m
  af : s.ackFails = false

/-- a deployment starts here: no checkpoint in progress, nobody parked, the job reachable -/
structure Fresh (s : St) : Prop where
  ckpt : s.ckpt = none
  noParked : ∀ sr it, s.slots sr ≠ some (it, false)
  af : s.ackFails = false
  /-- at least one source runner is deployed -/
  kpos : 0 < s.k

theorem inv_fresh {s : St} (h : Fresh s) : Inv s.kv (userOf s.pending) s [] [] [] :=
  ⟨rfl, by simp [userProcs], (by intro id m hc; rw [h.ckpt] at hc; cases hc),
   (by intro sr it hs; exact absurd hs (h.noParked sr it)),
   (by intro sr i; simp [h.ckpt]), h.af⟩

theorem init_fresh (k b : Nat) (hk : 0 < k) : Fresh (init k b) := ⟨rfl, by intro sr it; simp [init], rfl, hk⟩

variable {base : KVf} {u0 : List (Nat × Bytes × Nat × Nat)}

theorem Inv.congr {s s' : St} {p a g} (h : Inv base u0 s p a g) (hk : s'.k = s.k) (hs : s'.slots = s.slots)
    (hc : s'.ckpt = s.ckpt) (hp : s'.pending = s.pending) (hkv : s'.kv = s.kv)
    (ha : s'.ackFails = s.ackFails) : Inv base u0 s' p a g := by
  refine ⟨by rw [hkv]; exact h.kv_eq, by rw [hp]; exact h.users, ?_, ?_, ?_, by rw [ha]; exact h.af⟩
  · rw [hc, hk, hs]; exact h.ck
  · rw [hc, hs]; exact h.parked
  · rw [hc, hk]; exact h.got

/-- a sender that passed alignment is not among those whose barrier was accepted -/
theorem Inv.passed_missing {s : St} {p a g} (h : Inv base u0 s p a g) {sr : Nat} {it : Item} (hsr : sr < s.k)
    (hslot : s.slots sr = some (it, true)) {id : Nat} {m : List Nat} (hc : s.ckpt = some (id, m)) : sr ∈ m := by
  by_cases hm : sr ∈ m
  · exact hm
  · exact absurd hslot (((h.ck id m hc).2 sr hsr hm).2 it)

theorem Inv.passed_not_got {s : St} {p a g} (h : Inv base u0 s p a g) {sr : Nat} {it : Item}
    (hslot : s.slots sr = some (it, true)) : ∀ i, (sr, i) ∉ g := by
  intro i hg
  obtain ⟨m, hc, hsr, hm⟩ := (h.got sr i).mp hg
  exact hm (h.passed_missing hsr hslot hc)

/-- a sender that stands at the gate is none of the runners whose barrier was accepted -/
theorem Inv.passed_ne {s : St} {p a g} (h : Inv base u0 s p a g) {sr : Nat} {it : Item}
    (hslot : s.slots sr = some (it, true)) {id : Nat} {m : List Nat} (hc : s.ckpt = some (id, m)) {x : Nat}
    (hx : x < s.k) (hxm : x ∉ m) : ¬ sr = x := by
  intro hxs
  subst hxs
  exact ((h.ck id m hc).2 sr hx hxm).2 it hslot

/-- clearing the slot of a sender (its `HandleEvent` returned) -/
theorem Inv.clear {s : St} {p a g} (h : Inv base u0 s p a g) (sr : Nat) :
    Inv base u0 { s with slots := fun i => if i = sr then none else s.slots i } p a g := by
  refine ⟨h.kv_eq, h.users, ?_, ?_, h.got, h.af⟩
  · intro id m hc
    refine ⟨(h.ck id m hc).1, ?_⟩
    intro x hx hxm
    refine ⟨((h.ck id m hc).2 x hx hxm).1, ?_⟩
    intro it
    by_cases hxs : x = sr
    · simp [hxs]
    · simpa [hxs] using ((h.ck id m hc).2 x hx hxm).2 it
  · intro x it hslot
    by_cases hxs : x = sr
    · simp [hxs] at hslot
    · simp only [hxs, if_false] at hslot
      exact h.parked x it hslot

/-- batching steps keep the invariant, given what happened to the processed list -/
theorem Inv.ext {s s' : St} {p p' a g} {o : List Obs} {es : List Entry} (h : Inv base u0 s p a g)
    (hx : Ext s s' o es) (hu : userProcs p' = userProcs p ++ userOf es)
    (hl : ∀ id m sr, s.ckpt = some (id, m) → sr < s.k → sr ∉ m → lastProc sr p' = lastProc sr p) :
    Inv base u0 s' p' (a ++ entriesOf o) g := by
  refine ⟨?_, ?_, ?_, ?_, ?_, by rw [hx.af]; exact h.af⟩
  · rw [hx.kv, List.foldl_append, ← h.kv_eq]
  · rw [List.append_assoc, hx.ents, ← List.append_assoc, userOf_append, h.users, hu, List.append_assoc]
  · intro id m hc
    rw [hx.ckpt] at hc
    refine ⟨(h.ck id m hc).1, ?_⟩
    intro sr hsr hm
    rw [hx.k] at hsr
    rw [hx.slots, hl id m sr hc hsr hm]
    exact (h.ck id m hc).2 sr hsr hm
  · intro sr it hslot
    rw [hx.slots] at hslot
    rw [hx.ckpt]
    exact h.parked sr it hslot
  · intro sr i
    rw [hx.ckpt, hx.k]
    exact h.got sr i

/-! ## the barrier handler -/

theorem barrier_reject {s : St} {sr id : Nat} (h : id ≠ (virtCk s id).1) :
    barrier s sr id = ({ s with ckpt := some (virtCk s id) }, [.reject sr id (virtCk s id).1]) := by
  unfold barrier
  simp only []
  rw [if_pos h]

theorem barrier_reg {s : St} {sr id : Nat} (h : id = (virtCk s id).1)
    (hm : ((virtCk s id).2.filter (· ≠ sr)).isEmpty = false) :
    barrier s sr id =
      ({ s with ckpt := some ((virtCk s id).1, (virtCk s id).2.filter (· ≠ sr)) }, [.reg sr id]) := by
  unfold barrier
  simp only []
  rw [if_neg (by simpa using h), if_neg (by rw [hm]; simp)]

theorem barrier_done {s : St} {sr id : Nat} (h : id = (virtCk s id).1)
    (hm : ((virtCk s id).2.filter (· ≠ sr)).isEmpty = true) (haf : s.ackFails = false) :
    barrier s sr id =
      ({ (flush s).1 with ckpt := none, slots := release (flush s).1.slots },
       [.reg sr id] ++ (flush s).2 ++
         [.snap (virtCk s id).1 (flush s).1.kv (flush s).1.timers, .ack (virtCk s id).1, .released (parkedList s)]) := by
  unfold barrier
  simp only []
  rw [if_neg (by simpa using h), if_pos hm, if_neg (by simp [haf])]

theorem barrier_failed {s : St} {sr id : Nat} (h : id = (virtCk s id).1)
    (hm : ((virtCk s id).2.filter (· ≠ sr)).isEmpty = true) (haf : s.ackFails = true) :
    barrier s sr id =
      ({ (flush s).1 with ckpt := some ((virtCk s id).1, []), slots := release (flush s).1.slots, ackFails := false,
                            dbFails := false },
       [.reg sr id] ++ (flush s).2 ++
         (if s.dbFails then [] else [.snap (virtCk s id).1 (flush s).1.kv (flush s).1.timers]) ++
         [.ackfail (virtCk s id).1, .released (parkedList s)]) := by
  unfold barrier
  simp only []
  rw [if_neg (by simpa using h), if_pos hm, if_pos haf]

/-- facts about the checkpoint the barrier handler works on, uniform in "existing" vs "fresh" -/
theorem virt_facts {s : St} {p a g} (h : Inv base u0 s p a g) {sr id : Nat} (hsr : sr < s.k) {it : Item}
    (hslot : s.slots sr = some (it, true)) :
    (s.ckpt = none ∨ s.ckpt = some (virtCk s id)) ∧
    (s.ckpt = none → (virtCk s id).1 = id) ∧
    (∀ x, x < s.k → x ∉ (virtCk s id).2 →
      lastProc x p = some (.bar (virtCk s id).1) ∧ ∀ it, s.slots x ≠ some (it, true)) ∧
    (∀ x i, (x, i) ∈ g ↔ i = (virtCk s id).1 ∧ x < s.k ∧ x ∉ (virtCk s id).2) ∧
    sr ∈ (virtCk s id).2 ∧
    (∀ x it, s.slots x = some (it, false) → s.ckpt = some (virtCk s id) ∧ x ∉ (virtCk s id).2) := by
  cases hc : s.ckpt with
  | none =>
    have hv : virtCk s id = (id, List.range s.k) := by simp [virtCk, hc]
    rw [hv]
    refine ⟨Or.inl rfl, fun _ => rfl, ?_, ?_, by simpa using hsr, ?_⟩
    · intro x hx hxm
      exact absurd (List.mem_range.mpr hx) hxm
    · intro x i
      constructor
      · intro hg
        obtain ⟨m, hc', _⟩ := (h.got x i).mp hg
        rw [hc] at hc'
        cases hc'
      · intro ⟨_, hx, hxm⟩
        exact absurd (List.mem_range.mpr hx) hxm
    · intro x it' hs
      obtain ⟨i, m, hc', _⟩ := h.parked x it' hs
      rw [hc] at hc'
      cases hc'
  | some c =>
    obtain ⟨i, m⟩ := c
    have hv : virtCk s id = (i, m) := by simp [virtCk, hc]
    rw [hv]
    refine ⟨Or.inr rfl, fun h0 => (by cases h0), ?_, ?_, h.passed_missing hsr hslot hc, ?_⟩
    · intro x hx hxm
      exact (h.ck i m hc).2 x hx hxm
    · intro x i'
      constructor
      · intro hg
        obtain ⟨m', hc', hx, hxm⟩ := (h.got x i').mp hg
        rw [hc] at hc'
        cases hc'
        exact ⟨rfl, hx, hxm⟩
      · intro ⟨hi, hx, hxm⟩
        subst hi
        exact (h.got x _).mpr ⟨m, hc, hx, hxm⟩
    · intro x it' hs
      obtain ⟨i', m', hc', hxm⟩ := h.parked x it' hs
      rw [hc] at hc'
      cases hc'
      exact ⟨rfl, hxm⟩

theorem filter_ne_empty {m : List Nat} {sr : Nat} (hm : (m.filter (· ≠ sr)).isEmpty = true) {x : Nat}
    (hx : x ∈ m) : x = sr := by
  by_cases h : x = sr
  · exact h
  · have : x ∈ m.filter (· ≠ sr) := List.mem_filter.mpr ⟨hx, by simpa using h⟩
    rw [List.isEmpty_iff.mp hm] at this
    cases this

/-- the consumer runs `handleCheckpointBarrier` for a sender that passed alignment -/
theorem barrier_inv {s : St} {p a g} (h : Inv base u0 s p a g) {sr id : Nat} (hsr : sr < s.k)
    (hslot : s.slots sr = some (.bar id, true)) :
    (barrier s sr id).1.k = s.k ∧
    Inv base u0
      { (barrier s sr id).1 with slots := fun i => if i = sr then none else (barrier s sr id).1.slots i }
      (p ++ [(sr, .bar id)] ++ procsOf (barrier s sr id).2) (a ++ entriesOf (barrier s sr id).2)
      (gotOf g (barrier s sr id).2) ∧
    cutOK s.k base u0 (p ++ [(sr, .bar id)]) a (barrier s sr id).2 ∧ alignOK s.k g (barrier s sr id).2 := by
  obtain ⟨hck, hfresh, hcv, hgv, hsrc, hpk⟩ := virt_facts h hsr hslot (id := id)
  by_cases hid : id = (virtCk s id).1
  · by_cases hm : ((virtCk s id).2.filter (· ≠ sr)).isEmpty = true
    · -- last barrier: flush, snapshot, ack, reset, release
      rw [barrier_done hid hm h.af]
      have hf := flush_ext s
      have hfp := flush_pending s
      have hents : entriesOf (flush s).2 = s.pending := by
        have := hf.ents
        rw [hfp] at this
        simpa using this
      have hall : ∀ x, x < s.k → x ≠ sr → x ∉ (virtCk s id).2 := fun x _ hne hx => hne (filter_ne_empty hm hx)
      refine ⟨hf.k, ?_, ?_, ?_⟩
      · refine ⟨?_, ?_, ?_, ?_, ?_, ?_⟩
        · simp only [entriesOf_append, entriesOf, List.append_nil, List.nil_append]
          rw [hf.kv, List.foldl_append, ← h.kv_eq]
        · simp only [entriesOf_append, entriesOf, procsOf_append, procsOf, hf.onlyH.procsOf, List.append_nil,
            List.nil_append, hfp]
          rw [hents, userProcs_append, h.users]
          simp [userProcs]
        · intro i m hc
          cases hc
        · intro x it hs
          by_cases hx : x = sr
          · simp [hx] at hs
          · simp only [hx, if_false, release] at hs
            cases hsx : (flush s).1.slots x with
            | none => simp [hsx] at hs
            | some v => simp [hsx] at hs
        · intro x i
          simp [gotOf_append, gotOf]
        · simpa [hf.af] using h.af
      · simp only [List.cons_append, List.nil_append, cutOK]
        rw [cutOK_append]
        refine ⟨hf.onlyH.cutOK _ _ _ _ _, ?_⟩
        simp only [cutOK, hf.onlyH.procsOf, List.append_nil, and_true]
        refine ⟨?_, ?_, ?_⟩
        · rw [hf.kv, List.foldl_append, ← h.kv_eq]
        · rw [hents, userProcs_append, h.users]
          simp [userProcs]
        · intro x hx
          rw [lastProc_concat]
          by_cases hxs : sr = x
          · simp [hxs, ← hid]
          · simp only [hxs, if_false]
            exact (hcv x hx (hall x hx (Ne.symm hxs))).1
      · simp only [List.cons_append, List.nil_append, alignOK]
        refine ⟨h.passed_not_got hslot, ?_⟩
        rw [alignOK_append]
        refine ⟨hf.onlyH.alignOK _ _, ?_⟩
        simp only [alignOK, hf.onlyH.gotOf, and_true]
        intro x hx
        by_cases hxs : x = sr
        · simp [hxs, ← hid]
        · exact List.mem_cons_of_mem _ ((hgv x _).mpr ⟨rfl, hx, hall x hx hxs⟩)
    · -- barrier accepted, checkpoint still incomplete
      have hm' : ((virtCk s id).2.filter (· ≠ sr)).isEmpty = false := by simpa using hm
      rw [barrier_reg hid hm']
      refine ⟨rfl, ?_, trivial, ?_⟩
      · refine ⟨by simpa [entriesOf] using h.kv_eq, ?_, ?_, ?_, ?_, h.af⟩
        · simp only [entriesOf, procsOf, List.append_nil, userProcs_append]
          rw [h.users]
          simp [userProcs]
        · intro i m hc
          simp only [Option.some.injEq, Prod.mk.injEq] at hc
          obtain ⟨rfl, rfl⟩ := hc
          refine ⟨(by intro he; rw [he] at hm'; simp at hm'), ?_⟩
          intro x hx hxm
          simp only [procsOf, List.append_nil]
          rw [lastProc_concat]
          by_cases hxs : sr = x
          · subst hxs
            simp [← hid]
          · simp only [hxs, if_false]
            have hxm' : x ∉ (virtCk s id).2 := by
              intro hin
              exact hxm (List.mem_filter.mpr ⟨hin, by simpa using (Ne.symm hxs)⟩)
            refine ⟨(hcv x hx hxm').1, ?_⟩
            intro it
            simp only [Ne.symm hxs, if_false]
            exact (hcv x hx hxm').2 it
        · intro x it hs
          by_cases hxs : x = sr
          · simp [hxs] at hs
          · simp only [hxs, if_false] at hs
            refine ⟨_, _, rfl, ?_⟩
            intro hin
            exact (hpk x it hs).2 (List.mem_filter.mp hin).1
        · intro x i
          simp only [gotOf, List.mem_cons]
          constructor
          · intro hx
            rcases hx with hx | hx
            · simp only [Prod.mk.injEq] at hx
              obtain ⟨rfl, rfl⟩ := hx
              exact ⟨_, by rw [← hid], hsr, by simp [List.mem_filter]⟩
            · obtain ⟨hi, hxk, hxm⟩ := (hgv x i).mp hx
              subst hi
              exact ⟨_, rfl, hxk, fun hin => hxm (List.mem_filter.mp hin).1⟩
          · intro ⟨m, hc, hxk, hxm⟩
            simp only [Option.some.injEq, Prod.mk.injEq] at hc
            obtain ⟨rfl, rfl⟩ := hc
            by_cases hxs : x = sr
            · exact Or.inl (by rw [hxs, ← hid])
            · refine Or.inr ((hgv x _).mpr ⟨rfl, hxk, ?_⟩)
              intro hin
              exact hxm (List.mem_filter.mpr ⟨hin, by simpa using hxs⟩)
      · simp only [alignOK, and_true]
        exact h.passed_not_got hslot
  · -- id mismatch: rejected, nothing changes
    rw [barrier_reject hid]
    have hsome : s.ckpt = some (virtCk s id) := by
      rcases hck with hnone | hsome
      · exact absurd (hfresh hnone).symm hid
      · exact hsome
    refine ⟨rfl, ?_, trivial, by simp [alignOK]⟩
    refine ⟨by simpa [entriesOf] using h.kv_eq, ?_, ?_, ?_, ?_, h.af⟩
    · simp only [entriesOf, procsOf, List.append_nil, userProcs_append]
      rw [h.users]
      simp [userProcs]
    · intro i m hc
      simp only [Option.some.injEq] at hc
      rw [hc] at hsrc hcv hsome
      refine ⟨(h.ck i m hsome).1, ?_⟩
      intro x hx hxm
      simp only [procsOf, List.append_nil]
      rw [lastProc_concat]
      have hxs : ¬ sr = x := by
        intro hxs
        subst hxs
        exact hxm hsrc
      simp only [hxs, if_false]
      refine ⟨(hcv x hx hxm).1, ?_⟩
      intro it
      simp only [Ne.symm hxs, if_false]
      exact (hcv x hx hxm).2 it
    · intro x it hs
      by_cases hxs : x = sr
      · simp [hxs] at hs
      · simp only [hxs, if_false] at hs
        exact ⟨_, _, rfl, (hpk x it hs).2⟩
    · intro x i
      simp only [gotOf]
      rw [h.got x i, hsome]

/-! ## every plain step preserves the invariant and emits a well-aligned piece of trace -/


/-- the actions of normal operation (everything but the injected ack failure and the redeploy) -/
def Act.plain : Act → Bool
  | .armFail => false
  | .armDbFail => false
  | .redeploy => false
  | _ => true

/-- what one step must establish -/
def StepOK (base : KVf) (u0 : List (Nat × Bytes × Nat × Nat)) (s : St) (p : List (Nat × Item)) (a : List Entry) (g : List (Nat × Nat))
    (r : St × List Obs) : Prop :=
  r.1.k = s.k ∧ Inv base u0 r.1 (p ++ procsOf r.2) (a ++ entriesOf r.2) (gotOf g r.2) ∧
    cutOK s.k base u0 p a r.2 ∧ alignOK s.k g r.2

theorem stepOK_triv {s : St} {p a g} (h : Inv base u0 s p a g) : StepOK base u0 s p a g (s, []) :=
  ⟨rfl, by simpa [procsOf, entriesOf, gotOf] using h, trivial, trivial⟩

theorem stepOK_ext {s s' : St} {p a g} {o : List Obs} (h : Inv base u0 s p a g) (hx : Ext s s' o []) :
    StepOK base u0 s p a g (s', o) := by
  refine ⟨hx.k, ?_, hx.onlyH.cutOK _ _ _ _ _, hx.onlyH.alignOK _ _⟩
  simp only [hx.onlyH.procsOf, hx.onlyH.gotOf, List.append_nil]
  exact h.ext hx (by simp [userOf]) (fun _ _ _ _ _ _ => rfl)

/-- the consumer took item `it` of sender `sr`; its event function only batched/flushed (`Ext`) and then emitted
`tl`, observations without effect on the projections -/
theorem stepOK_go_ext {s s' s'' : St} {p a g} {o tl : List Obs} {es : List Entry} {sr : Nat} {it : Item}
    (h : Inv base u0 s p a g) (hslot : s.slots sr = some (it, true)) (hx : Ext s s' o es)
    (hu : userProcs [(sr, it)] = userOf es)
    (htl : procsOf tl = [] ∧ entriesOf tl = [] ∧ (∀ g, gotOf g tl = g) ∧ (∀ p a, cutOK s.k base u0 p a tl) ∧
      ∀ g, alignOK s.k g tl)
    (hk : s''.k = s'.k) (hs : s''.slots = fun i => if i = sr then none else s'.slots i) (hc : s''.ckpt = s'.ckpt)
    (hp : s''.pending = s'.pending) (hkv : s''.kv = s'.kv) (ha : s''.ackFails = s'.ackFails) :
    StepOK base u0 s p a g (s'', .proc sr it :: (o ++ tl)) := by
  obtain ⟨t1, t2, t3, t4, t5⟩ := htl
  refine ⟨hk.trans hx.k, ?_, ?_, ?_⟩
  · simp only [procsOf, entriesOf, gotOf, procsOf_append, entriesOf_append, gotOf_append, hx.onlyH.procsOf,
      hx.onlyH.gotOf, t1, t2, t3, List.append_nil]
    have hinv := Inv.clear (h.ext hx (p' := p ++ [(sr, it)]) (by rw [userProcs_append, hu]) (by
      intro id m x hc hx' hxm
      rw [lastProc_concat]
      have : ¬ sr = x := h.passed_ne hslot hc hx' hxm
      simp [this])) sr
    exact hinv.congr hk (by rw [hs]) hc hp hkv ha
  · simp only [cutOK]
    rw [cutOK_append]
    exact ⟨hx.onlyH.cutOK _ _ _ _ _, t4 _ _⟩
  · simp only [alignOK]
    rw [alignOK_append]
    exact ⟨h.passed_not_got hslot, hx.onlyH.alignOK _ _, t5 _⟩

theorem stepOK_go_ext0 {s s' : St} {p a g} {o : List Obs} {es : List Entry} {sr : Nat} {it : Item}
    (h : Inv base u0 s p a g) (hslot : s.slots sr = some (it, true)) (hx : Ext s s' o es)
    (hu : userProcs [(sr, it)] = userOf es) :
    StepOK base u0 s p a g ({ s' with slots := fun i => if i = sr then none else s'.slots i }, .proc sr it :: o) := by
  have := stepOK_go_ext (s'' := { s' with slots := fun i => if i = sr then none else s'.slots i }) (tl := [])
    h hslot hx hu ⟨rfl, rfl, fun _ => rfl, fun _ _ => trivial, fun _ => trivial⟩ rfl rfl rfl rfl rfl rfl
  simpa using this

theorem inert_nil (k : Nat) : procsOf [] = [] ∧ entriesOf [] = [] ∧ (∀ g, gotOf g [] = g) ∧
    (∀ p a, cutOK k base u0 p a []) ∧ ∀ g, alignOK k g [] :=
  ⟨rfl, rfl, fun _ => rfl, fun _ _ => trivial, fun _ => trivial⟩

/-! ## barriers of senders that are not deployed runners -/

theorem barrierU_none {s : St} {sr id : Nat} (hc : s.ckpt = none) (hk : 0 < s.k) :
    barrierU s sr id = ({ s with ckpt := some (id, List.range s.k) }, []) := by
  have hv : virtCk s id = (id, List.range s.k) := by simp [virtCk, hc]
  unfold barrierU
  simp only [hv]
  rw [if_neg (by simp), if_neg (by simp; omega)]

theorem barrierU_reject {s : St} {sr id i : Nat} {m : List Nat} (hc : s.ckpt = some (i, m)) (hne : id ≠ i) :
    barrierU s sr id = ({ s with ckpt := some (i, m) }, [.reject sr id i]) := by
  have hv : virtCk s id = (i, m) := by simp [virtCk, hc]
  unfold barrierU
  simp only [hv]
  rw [if_pos hne]

theorem barrierU_keep {s : St} {sr id i : Nat} {m : List Nat} (hc : s.ckpt = some (i, m)) (heq : id = i)
    (hm : m ≠ []) : barrierU s sr id = ({ s with ckpt := some (i, m) }, []) := by
  have hv : virtCk s id = (i, m) := by simp [virtCk, hc]
  unfold barrierU
  simp only [hv]
  rw [if_neg (by simpa using heq), if_neg (by simpa using hm)]

/-- the consumer took an item without keyed payload from an undeployed sender; the checkpoint record stays or is
started for all deployed runners -/
theorem inv_unknown_proc {s : St} {p a g} (h : Inv base u0 s p a g) {sr : Nat} {it : Item} (hsr : ¬ sr < s.k)
    (c' : Option (Nat × List Nat))
    (hc' : c' = s.ckpt ∨ (s.ckpt = none ∧ 0 < s.k ∧ ∃ id, c' = some (id, List.range s.k)))
    (hit : userProcs [(sr, it)] = []) :
    Inv base u0 { s with ckpt := c', slots := fun i => if i = sr then none else s.slots i } (p ++ [(sr, it)]) a g := by
  refine ⟨h.kv_eq, by rw [userProcs_append, hit, List.append_nil]; exact h.users, ?_, ?_, ?_, h.af⟩
  · intro id m hc
    rcases hc' with hsame | ⟨hnone, hk, id', hnew⟩
    · rw [hsame] at hc
      refine ⟨(h.ck id m hc).1, ?_⟩
      intro x hx hxm
      have hne : ¬ sr = x := fun e => hsr (e ▸ hx)
      rw [lastProc_concat]
      simp only [hne, if_false]
      refine ⟨((h.ck id m hc).2 x hx hxm).1, ?_⟩
      intro it'
      simp only [Ne.symm hne, if_false]
      exact ((h.ck id m hc).2 x hx hxm).2 it'
    · rw [hnew] at hc
      simp only [Option.some.injEq, Prod.mk.injEq] at hc
      obtain ⟨rfl, rfl⟩ := hc
      refine ⟨by simp; omega, ?_⟩
      intro x hx hxm
      exact absurd (List.mem_range.mpr hx) hxm
  · intro x it' hs
    by_cases hxs : x = sr
    · simp [hxs] at hs
    · simp only [hxs, if_false] at hs
      obtain ⟨id, m, hc, hxm⟩ := h.parked x it' hs
      rcases hc' with hsame | ⟨hnone, _, _, _⟩
      · exact ⟨id, m, by rw [hsame]; exact hc, hxm⟩
      · rw [hnone] at hc; cases hc
  · intro x i
    rcases hc' with hsame | ⟨hnone, hk, id', hnew⟩
    · rw [hsame]; exact h.got x i
    · constructor
      · intro hg
        obtain ⟨m, hc, _⟩ := (h.got x i).mp hg
        rw [hnone] at hc; cases hc
      · intro ⟨m, hc, hx, hxm⟩
        rw [hnew] at hc
        simp only [Option.some.injEq, Prod.mk.injEq] at hc
        obtain ⟨rfl, rfl⟩ := hc
        exact absurd (List.mem_range.mpr hx) hxm

theorem barrierU_ok {s : St} {p a g} (h : Inv base u0 s p a g) {sr id : Nat} (hsr : ¬ sr < s.k) (hkpos : 0 < s.k)
    (hslot : s.slots sr = some (.bar id, true)) :
    StepOK base u0 s p a g
      ({ (barrierU s sr id).1 with slots := fun i => if i = sr then none else (barrierU s sr id).1.slots i },
       .proc sr (.bar id) :: (barrierU s sr id).2) := by
  have hng := h.passed_not_got hslot
  cases hc : s.ckpt with
  | none =>
    rw [barrierU_none hc hkpos]
    refine ⟨rfl, ?_, by simp [cutOK], by simp only [alignOK, and_true]; exact hng⟩
    simpa [procsOf, entriesOf, gotOf] using
      inv_unknown_proc h hsr (some (id, List.range s.k)) (Or.inr ⟨hc, hkpos, id, rfl⟩) (by simp [userProcs])
  | some c =>
    obtain ⟨i, m⟩ := c
    by_cases hne : id = i
    · rw [barrierU_keep hc hne (h.ck i m hc).1]
      refine ⟨rfl, ?_, by simp [cutOK], by simp only [alignOK, and_true]; exact hng⟩
      simpa [procsOf, entriesOf, gotOf] using
        inv_unknown_proc h hsr (some (i, m)) (Or.inl hc.symm) (by simp [userProcs])
    · rw [barrierU_reject hc hne]
      refine ⟨rfl, ?_, by simp [cutOK], by simp only [alignOK, and_true]; exact hng⟩
      simpa [procsOf, entriesOf, gotOf] using
        inv_unknown_proc h hsr (some (i, m)) (Or.inl hc.symm) (by simp [userProcs])

theorem barrierU_plain {s : St} (sr id : Nat) (hne : (virtCk s id).2.isEmpty = false ∨ id ≠ (virtCk s id).1) :
    (barrierU s sr id).1 = { s with ckpt := some (virtCk s id) } ∧
    ((barrierU s sr id).2 = [] ∨ (barrierU s sr id).2 = [.reject sr id (virtCk s id).1]) := by
  unfold barrierU
  simp only []
  by_cases h1 : id ≠ (virtCk s id).1
  · rw [if_pos h1]; exact ⟨rfl, Or.inr rfl⟩
  · rw [if_neg h1]
    rcases hne with h2 | h2
    · rw [if_neg (by simp [h2])]; exact ⟨rfl, Or.inl rfl⟩
    · exact absurd h2 h1

theorem timeout_ext (s : St) (t : Option Nat) : Ext s (timeout s t).1 (timeout s t).2 [] := by
  unfold timeout
  split
  · split
    · exact flush_ext s
    · exact Ext.refl s
  · exact Ext.refl s

theorem stepLive_go_run {s : St} {sr : Nat} {it : Item} (hsr : sr < s.k + s.z) (hslot : s.slots sr = some (it, true)) :
    stepLive s (.go sr) =
      ({ (process s sr it).1 with slots := fun i => if i = sr then none else (process s sr it).1.slots i },
       .proc sr it :: (process s sr it).2) := by
  simp [stepLive, hsr, hslot]

theorem stepLive_go_noop {s : St} {sr : Nat} (h : ¬ sr < s.k + s.z ∨ ∀ it, s.slots sr ≠ some (it, true)) :
    stepLive s (.go sr) = (s, []) := by
  rcases h with h | h
  · simp [stepLive, h]
  · cases hs : s.slots sr with
    | none => simp [stepLive, hs]
    | some v =>
      obtain ⟨it, b⟩ := v
      cases b with
      | false => simp [stepLive, hs]
      | true => exact absurd hs (h it)

theorem stepLive_ok {s : St} {p a g} (h : Inv base u0 s p a g) (hkpos : 0 < s.k) (act : Act)
    (hpl : act.plain = true) :
    StepOK base u0 s p a g (stepLive s act) := by
  cases act with
  | align sr it =>
    simp only [stepLive]
    split
    · rename_i hsr
      split
      · exact ⟨rfl, by simpa [procsOf, entriesOf, gotOf] using h, trivial, trivial⟩
      · rename_i hnone
        refine ⟨rfl, ?_, trivial, trivial⟩
        simp only [procsOf, entriesOf, gotOf, List.append_nil]
        refine ⟨h.kv_eq, h.users, ?_, ?_, h.got, h.af⟩
        · intro id m hc
          refine ⟨(h.ck id m hc).1, ?_⟩
          intro x hx hxm
          refine ⟨((h.ck id m hc).2 x hx hxm).1, ?_⟩
          intro it'
          by_cases hxs : x = sr
          · subst hxs
            have hpass : passes s x = false := by
              unfold passes
              rw [hc]
              have hne := (h.ck id m hc).1
              simp [hxm, hne]
            simp [hpass]
          · simp only [hxs, if_false]
            exact ((h.ck id m hc).2 x hx hxm).2 it'
        · intro x it' hs
          by_cases hxs : x = sr
          · subst hxs
            simp only [if_true, Option.some.injEq, Prod.mk.injEq] at hs
            have hpass := hs.2
            cases hc : s.ckpt with
            | none => simp [passes, hc] at hpass
            | some c =>
              obtain ⟨id, m⟩ := c
              refine ⟨id, m, rfl, ?_⟩
              unfold passes at hpass
              rw [hc] at hpass
              simp at hpass
              exact hpass.1
          · simp only [hxs, if_false] at hs
            exact h.parked x it' hs
    · exact stepOK_triv h
  | go sr =>
    by_cases hsr : sr < s.k + s.z
    · cases hs : s.slots sr with
      | none =>
        rw [stepLive_go_noop (Or.inr (by simp [hs]))]
        exact stepOK_triv h
      | some v =>
        obtain ⟨it, b⟩ := v
        cases b with
        | false =>
          rw [stepLive_go_noop (Or.inr (by simp [hs]))]
          exact stepOK_triv h
        | true =>
          rw [stepLive_go_run hsr hs]
          cases it with
          | ev key pl t =>
            exact stepOK_go_ext0 h hs (addEntry_ext s (.user sr key pl t)) (by simp [userProcs, userOf])
          | wm ts =>
            simp only [process]
            obtain ⟨o, es, ho, hext, hu, _⟩ := fireLoop_ext sr
              (wmState s sr ts).watermark s.timers.length (wmState s sr ts) []
            rw [ho]
            simp only [List.nil_append]
            exact stepOK_go_ext0 h hs (hext.of_eq rfl rfl rfl rfl rfl rfl rfl rfl) (by simp [userProcs, hu])
          | bar id =>
            simp only [process]
            by_cases hk0 : sr < s.k
            · rw [if_pos hk0]
              obtain ⟨hk, hinv, hcut, hal⟩ := barrier_inv h hk0 hs
              refine ⟨hk, ?_, ?_, ?_⟩
              · simpa [procsOf, entriesOf, gotOf] using hinv
              · simpa [cutOK] using hcut
              · simp only [alignOK]
                exact ⟨h.passed_not_got hs, hal⟩
            · rw [if_neg hk0]
              exact barrierU_ok h hk0 hkpos hs
          | done =>
            simp only [process]
            refine stepOK_go_ext h hs (flush_ext s) (by simp [userProcs, userOf]) ?_ rfl rfl rfl rfl rfl rfl
            split <;> simp [procsOf, entriesOf, gotOf, cutOK, alignOK]
    · rw [stepLive_go_noop (Or.inl hsr)]
      exact stepOK_triv h
  | tick => exact stepOK_ext h (timeout_ext s s.lastSet)
  | stale => exact stepOK_ext h (timeout_ext s s.prevSet)
  | armFail => simp [Act.plain] at hpl
  | armDbFail => simp [Act.plain] at hpl
  | redeploy => simp [Act.plain] at hpl
  | cancel sr => exact stepOK_triv h

theorem step_ok {s : St} {p a g} (h : Inv base u0 s p a g) (hkpos : 0 < s.k) (act : Act) (hpl : act.plain = true) :
    StepOK base u0 s p a g (step s act) := by
  unfold step
  split
  · exact stepOK_triv h
  · exact stepLive_ok h hkpos act hpl

/-! ## the timer store follows the trace -/

def TimersStep (s : St) (r : St × List Obs) : Prop :=
  r.1.timers = timersOf s.timers r.2 ∧ timersOK s.timers r.2

theorem timersStep_triv (s : St) : TimersStep s (s, []) := ⟨rfl, trivial⟩

theorem barrier_timers (s : St) (sr id : Nat) : TimersStep s (barrier s sr id) := by
  unfold barrier
  simp only []
  split
  · exact ⟨rfl, by simp [timersOK]⟩
  · split
    · have hf := flush_ext s
      split
      · cases hdb : s.dbFails
        · simp only [Bool.false_eq_true, if_false]
          constructor
          · simp [timersOf_append, timersOf, flush_timers]
          · simp only [List.cons_append, List.nil_append, List.append_assoc, timersOK]
            rw [timersOK_append]
            exact ⟨hf.onlyH.timersOK _, by simp [timersOK, flush_timers]⟩
        · simp only [if_true, List.append_nil]
          constructor
          · simp [timersOf_append, timersOf, flush_timers]
          · simp only [List.cons_append, List.nil_append, List.append_assoc, timersOK]
            rw [timersOK_append]
            exact ⟨hf.onlyH.timersOK _, by simp [timersOK]⟩
      · constructor
        · simp [timersOf_append, timersOf, flush_timers]
        · simp only [List.cons_append, List.nil_append, timersOK]
          rw [timersOK_append]
          exact ⟨hf.onlyH.timersOK _, by simp [timersOK, flush_timers]⟩
    · exact ⟨rfl, by simp [timersOK]⟩

theorem process_timers (s : St) (sr : Nat) (it : Item) : TimersStep s (process s sr it) := by
  cases it with
  | ev key pl t =>
    exact ⟨addEntry_timers s _, (addEntry_ext s _).onlyH.timersOK _⟩
  | wm ts =>
    simp only [process]
    obtain ⟨o, es, ho, hext, _, htm⟩ := fireLoop_ext sr
      (wmState s sr ts).watermark s.timers.length (wmState s sr ts) []
    have ht : (wmState s sr ts).timers = s.timers := rfl
    refine ⟨?_, ?_⟩
    · rw [htm, ho, ht]
      simp
    · rw [ho]
      simpa using hext.onlyH.timersOK _
  | bar id =>
    simp only [process]
    split
    · exact barrier_timers s sr id
    · unfold barrierU
      simp only []
      split
      · exact ⟨rfl, by simp [timersOK]⟩
      · split
        · exact barrier_timers s sr id
        · exact ⟨rfl, trivial⟩
  | done =>
    simp only [process]
    have hf := flush_ext s
    constructor
    · simp only [timersOf_append]
      split <;> simp [timersOf, flush_timers]
    · rw [timersOK_append]
      refine ⟨hf.onlyH.timersOK _, ?_⟩
      split <;> simp [timersOK]

theorem timeout_timers (s : St) (t : Option Nat) : TimersStep s (timeout s t) := by
  unfold timeout
  split
  · split
    · exact ⟨flush_timers s, (flush_ext s).onlyH.timersOK _⟩
    · exact timersStep_triv s
  · exact timersStep_triv s

theorem step_timers (s : St) (act : Act) (hpl : act.plain = true) : TimersStep s (step s act) := by
  unfold step
  split
  · exact timersStep_triv s
  · cases act with
    | align sr it =>
      simp only [stepLive]
      split
      · split
        · exact ⟨rfl, by simp [timersOK]⟩
        · exact ⟨rfl, by simp [timersOK]⟩
      · exact timersStep_triv s
    | go sr =>
      by_cases hsr : sr < s.k + s.z
      · cases hs : s.slots sr with
        | none => rw [stepLive_go_noop (Or.inr (by simp [hs]))]; exact timersStep_triv s
        | some v =>
          obtain ⟨it, b⟩ := v
          cases b with
          | false => rw [stepLive_go_noop (Or.inr (by simp [hs]))]; exact timersStep_triv s
          | true =>
            rw [stepLive_go_run hsr hs]
            obtain ⟨h1, h2⟩ := process_timers s sr it
            exact ⟨by simpa [timersOf] using h1, by simpa [timersOK] using h2⟩
      · rw [stepLive_go_noop (Or.inl hsr)]; exact timersStep_triv s
    | tick => exact timeout_timers s s.lastSet
    | stale => exact timeout_timers s s.prevSet
    | armFail => simp [Act.plain] at hpl
    | armDbFail => simp [Act.plain] at hpl
    | redeploy => simp [Act.plain] at hpl
    | cancel sr => exact timersStep_triv s

/-! ## whole runs -/

/-- invariant + trace checkers for a trace prefix of a deployment that started in `s0` -/
def TraceOK (s0 s : St) (obs : List Obs) : Prop :=
  0 < s0.k ∧ s.k = s0.k ∧ Inv s0.kv (userOf s0.pending) s (procsOf obs) (entriesOf obs) (gotOf [] obs) ∧
    cutOK s0.k s0.kv (userOf s0.pending) [] [] obs ∧ alignOK s0.k [] obs ∧
    s.timers = timersOf s0.timers obs ∧ timersOK s0.timers obs

theorem runFrom_ok (s0 : St) : ∀ (as : List Act) (s : St) (acc : List Obs), (∀ a ∈ as, a.plain = true) →
    TraceOK s0 s acc → TraceOK s0 (runFrom s acc as).1 (runFrom s acc as).2 := by
  intro as
  induction as with
  | nil => intro s acc _ h; exact h
  | cons act as ih =>
    intro s acc hpl h
    obtain ⟨hk0, hk, hinv, hcut, hal, htm, htok⟩ := h
    have hp := hpl act List.mem_cons_self
    obtain ⟨hk', hinv', hcut', hal'⟩ := step_ok hinv (by rw [hk]; exact hk0) act hp
    obtain ⟨ht1, ht2⟩ := step_timers s act hp
    simp only [runFrom]
    apply ih _ _ (fun a ha => hpl a (List.mem_cons_of_mem _ ha))
    refine ⟨hk0, hk'.trans hk, ?_, ?_, ?_, ?_, ?_⟩
    · rw [procsOf_append, entriesOf_append, gotOf_append]
      exact hinv'
    · rw [cutOK_append]
      rw [hk] at hcut'
      exact ⟨hcut, by simpa using hcut'⟩
    · rw [alignOK_append]
      rw [hk] at hal'
      exact ⟨hal, hal'⟩
    · rw [timersOf_append, ← htm]
      exact ht1
    · rw [timersOK_append, ← htm]
      exact ⟨htok, ht2⟩

theorem run_ok {s0 : St} (hf : Fresh s0) (as : List Act) (hpl : ∀ a ∈ as, a.plain = true) :
    TraceOK s0 (runFrom s0 [] as).1 (runFrom s0 [] as).2 :=
  runFrom_ok s0 as s0 [] hpl ⟨hf.kpos, rfl, inv_fresh hf, trivial, trivial, rfl, trivial⟩

/-- between an accepted barrier of `sr` and the next item of `sr` the consumer takes there is a snapshot -/
theorem alignOK_blocked {k : Nat} {sr : Nat} {it : Item} : ∀ (mid : List Obs) (g : List (Nat × Nat))
    (post : List Obs), (∃ i, (sr, i) ∈ g) → alignOK k g (mid ++ .proc sr it :: post) →
    ∃ id S T, Obs.snap id S T ∈ mid := by
  intro mid
  induction mid with
  | nil =>
    intro g post hg h
    simp only [List.nil_append, alignOK] at h
    obtain ⟨i, hi⟩ := hg
    exact absurd hi (h.1 i)
  | cons x r ih =>
    intro g post hg h
    cases x with
    | snap id S T => exact ⟨id, S, T, List.mem_cons_self⟩
    | reg x i =>
      simp only [List.cons_append, alignOK] at h
      obtain ⟨i0, hi0⟩ := hg
      obtain ⟨id, S, T, hm⟩ := ih ((x, i) :: g) post ⟨i0, List.mem_cons_of_mem _ hi0⟩ h.2
      exact ⟨id, S, T, List.mem_cons_of_mem _ hm⟩
    | proc x i =>
      simp only [List.cons_append, alignOK] at h
      obtain ⟨id, S, T, hm⟩ := ih g post hg h.2
      exact ⟨id, S, T, List.mem_cons_of_mem _ hm⟩
    | handler _ _ _ | fired _ _ | aligned _ _ | busy _ | reject _ _ _ | ack _ | released _ | ackfail _
    | completed _ | stopped | redeployed _ =>
      simp only [List.cons_append, alignOK] at h
      obtain ⟨id, S, T, hm⟩ := ih g post hg h
      exact ⟨id, S, T, List.mem_cons_of_mem _ hm⟩

/-- a snapshot `id` needs an accepted barrier `id` of every sender since the previous snapshot -/
theorem alignOK_fresh {k : Nat} {id : Nat} {S : KVf} {T : Timers} : ∀ (mid : List Obs) (g : List (Nat × Nat))
    (post : List Obs), alignOK k g (mid ++ .snap id S T :: post) →
    ∀ sr, sr < k → (sr, id) ∈ g ∨ Obs.reg sr id ∈ mid := by
  intro mid
  induction mid with
  | nil =>
    intro g post h sr hsr
    simp only [List.nil_append, alignOK] at h
    exact Or.inl (h.1 sr hsr)
  | cons x r ih =>
    intro g post h sr hsr
    cases x with
    | snap id' S' T' =>
      simp only [List.cons_append, alignOK] at h
      rcases ih [] post h.2 sr hsr with hg | hm
      · cases hg
      · exact Or.inr (List.mem_cons_of_mem _ hm)
    | reg x i =>
      simp only [List.cons_append, alignOK] at h
      rcases ih ((x, i) :: g) post h.2 sr hsr with hg | hm
      · rcases List.mem_cons.mp hg with heq | hg
        · simp only [Prod.mk.injEq] at heq
          obtain ⟨rfl, rfl⟩ := heq
          exact Or.inr List.mem_cons_self
        · exact Or.inl hg
      · exact Or.inr (List.mem_cons_of_mem _ hm)
    | proc x i =>
      simp only [List.cons_append, alignOK] at h
      rcases ih g post h.2 sr hsr with hg | hm
      · exact Or.inl hg
      · exact Or.inr (List.mem_cons_of_mem _ hm)
    | handler _ _ _ | fired _ _ | aligned _ _ | busy _ | reject _ _ _ | ack _ | released _ | ackfail _
    | completed _ | stopped | redeployed _ =>
      simp only [List.cons_append, alignOK] at h
      rcases ih g post h sr hsr with hg | hm
      · exact Or.inl hg
      · exact Or.inr (List.mem_cons_of_mem _ hm)

/-- no sender occurs twice among the accepted barriers -/
def UniqueKeys (g : List (Nat × Nat)) : Prop := ∀ x i j, (x, i) ∈ g → (x, j) ∈ g → i = j

theorem uniqueKeys_nil : UniqueKeys [] := by intro x i j h; cases h

theorem UniqueKeys.cons {g : List (Nat × Nat)} (h : UniqueKeys g) {x i : Nat} (hx : ∀ j, (x, j) ∉ g) :
    UniqueKeys ((x, i) :: g) := by
  intro y a b ha hb
  rcases List.mem_cons.mp ha with ha | ha <;> rcases List.mem_cons.mp hb with hb | hb
  · simp only [Prod.mk.injEq] at ha hb
    rw [ha.2, hb.2]
  · simp only [Prod.mk.injEq] at ha
    exact absurd hb (ha.1 ▸ hx b)
  · simp only [Prod.mk.injEq] at hb
    exact absurd ha (hb.1 ▸ hx a)
  · exact h y a b ha hb

theorem alignOK_uniqueKeys {k : Nat} : ∀ (o : List Obs) (g : List (Nat × Nat)), UniqueKeys g → alignOK k g o →
    UniqueKeys (gotOf g o) := by
  intro o
  induction o with
  | nil => intro g hu _; exact hu
  | cons x r ih =>
    intro g hu h
    cases x with
    | reg x i =>
      simp only [alignOK] at h
      exact ih _ (hu.cons h.1) h.2
    | snap id S T =>
      simp only [alignOK] at h
      exact ih _ uniqueKeys_nil h.2
    | proc x i =>
      simp only [alignOK] at h
      exact ih _ hu h.2
    | handler _ _ _ | fired _ _ | aligned _ _ | busy _ | reject _ _ _ | ack _ | released _ | ackfail _
    | completed _ | stopped | redeployed _ =>
      simp only [alignOK] at h
      exact ih _ hu h

/-- …and the first snapshot after the accepted barrier `id` of `sr` carries that id -/
theorem alignOK_blocked_id {k : Nat} {sr id : Nat} {it : Item} (hsr : sr < k) : ∀ (mid : List Obs)
    (g : List (Nat × Nat)) (post : List Obs), UniqueKeys g → (sr, id) ∈ g →
    alignOK k g (mid ++ .proc sr it :: post) →
    ∃ m1 S T m2, mid = m1 ++ Obs.snap id S T :: m2 ∧ ∀ id' S' T', Obs.snap id' S' T' ∉ m1 := by
  intro mid
  induction mid with
  | nil =>
    intro g post _ hg h
    simp only [List.nil_append, alignOK] at h
    exact absurd hg (h.1 id)
  | cons x r ih =>
    intro g post hu hg h
    have lift : ∀ {y : Obs}, (∀ id' S' T', y ≠ Obs.snap id' S' T') →
        (∃ m1 S T m2, r = m1 ++ Obs.snap id S T :: m2 ∧ ∀ id' S' T', Obs.snap id' S' T' ∉ m1) →
        ∃ m1 S T m2, y :: r = m1 ++ Obs.snap id S T :: m2 ∧ ∀ id' S' T', Obs.snap id' S' T' ∉ m1 := by
      intro y hy ⟨m1, S, T, m2, e, hn⟩
      refine ⟨y :: m1, S, T, m2, by rw [e]; rfl, ?_⟩
      intro id' S' T' hin
      rcases List.mem_cons.mp hin with heq | hin
      · exact hy id' S' T' heq.symm
      · exact hn id' S' T' hin
    cases x with
    | snap id' S T =>
      simp only [List.cons_append, alignOK] at h
      have : id' = id := hu sr id' id (h.1 sr hsr) hg
      subst this
      exact ⟨[], S, T, r, rfl, by intro _ _ _ hin; cases hin⟩
    | reg x i =>
      simp only [List.cons_append, alignOK] at h
      exact lift (by intros; simp) (ih _ post (hu.cons h.1) (List.mem_cons_of_mem _ hg) h.2)
    | proc x i =>
      simp only [List.cons_append, alignOK] at h
      exact lift (by intros; simp) (ih _ post hu hg h.2)
    | handler _ _ _ | fired _ _ | aligned _ _ | busy _ | reject _ _ _ | ack _ | released _ | ackfail _
    | completed _ | stopped | redeployed _ =>
      simp only [List.cons_append, alignOK] at h
      exact lift (by intros; simp) (ih _ post hu hg h)

theorem timersOK_split {c : Timers} {pre post : List Obs} {id : Nat} {S : KVf} {T : Timers}
    (h : timersOK c (pre ++ .snap id S T :: post)) : T = timersOf c pre := by
  rw [timersOK_append] at h
  exact h.2.1

/-! ## where the timers of a snapshot come from -/

theorem mem_insertTimer {x y : Nat × Bytes} {l : Timers} (h : y ∈ insertTimer x l) : y = x ∨ y ∈ l := by
  induction l with
  | nil => simp [insertTimer] at h; exact Or.inl h
  | cons z r ih =>
    unfold insertTimer at h
    split at h
    · exact Or.inr h
    · split at h
      · rcases List.mem_cons.mp h with h | h
        · exact Or.inl h
        · exact Or.inr h
      · rcases List.mem_cons.mp h with h | h
        · exact Or.inr (h ▸ List.mem_cons_self)
        · rcases ih h with h | h
          · exact Or.inl h
          · exact Or.inr (List.mem_cons_of_mem _ h)

theorem mem_setTimer_foldl {w : Nat} {y : Nat × Bytes} : ∀ (es : List Entry) (c : Timers),
    y ∈ es.foldl (setTimer w) c → y ∈ c ∨ ∃ sr p, Entry.user sr y.2 p y.1 ∈ es := by
  intro es
  induction es with
  | nil => intro c h; exact Or.inl h
  | cons e r ih =>
    intro c h
    simp only [List.foldl_cons] at h
    rcases ih _ h with h1 | ⟨sr, p, hm⟩
    · cases e with
      | user sr key p t =>
        simp only [setTimer] at h1
        split at h1
        · rcases mem_insertTimer h1 with rfl | h1
          · exact Or.inr ⟨sr, p, List.mem_cons_self⟩
          · exact Or.inl h1
        · exact Or.inl h1
      | timer sr key ts => exact Or.inl h1
    · exact Or.inr ⟨sr, p, List.mem_cons_of_mem _ hm⟩

theorem mem_timersOf {y : Nat × Bytes} : ∀ (obs : List Obs) (c : Timers),
    y ∈ timersOf c obs → y ∈ c ∨ ∃ sr p, Entry.user sr y.2 p y.1 ∈ entriesOf obs := by
  intro obs
  induction obs with
  | nil => intro c h; exact Or.inl h
  | cons x r ih =>
    intro c h
    cases x with
    | handler es w gv =>
      simp only [timersOf] at h
      rcases ih _ h with h1 | ⟨sr, p, hm⟩
      · rcases mem_setTimer_foldl es c h1 with h2 | ⟨sr, p, hm⟩
        · exact Or.inl h2
        · exact Or.inr ⟨sr, p, by simp [entriesOf, hm]⟩
      · exact Or.inr ⟨sr, p, by simp [entriesOf, hm]⟩
    | fired key ts =>
      simp only [timersOf] at h
      rcases ih _ h with h1 | ⟨sr, p, hm⟩
      · exact Or.inl (List.mem_of_mem_erase h1)
      · exact Or.inr ⟨sr, p, by simpa [entriesOf] using hm⟩
    | proc _ _ | snap _ _ _ | reg _ _ | aligned _ _ | busy _ | reject _ _ _ | ack _ | released _ | ackfail _
    | completed _ | stopped | redeployed _ =>
      simp only [timersOf] at h
      rcases ih _ h with h1 | ⟨sr, p, hm⟩
      · exact Or.inl h1
      · exact Or.inr ⟨sr, p, by simpa [entriesOf] using hm⟩

/-! ## calls abandoned by a redeploy are never served -/

/-- senders turned away by a redeploy that have not started a new `HandleEvent` call since -/
def awayOf : List Nat → List Obs → List Nat
  | c, [] => c
  | c, .aligned sr _ :: r => awayOf (c.filter (· ≠ sr)) r
  | c, .busy _ :: r => awayOf c r
  | c, .proc _ _ :: r => awayOf c r
  | c, .handler _ _ _ :: r => awayOf c r
  | c, .fired _ _ :: r => awayOf c r
  | c, .reg _ _ :: r => awayOf c r
  | c, .reject _ _ _ :: r => awayOf c r
  | c, .snap _ _ _ :: r => awayOf c r
  | c, .ack _ :: r => awayOf c r
  | c, .released _ :: r => awayOf c r
  | c, .ackfail _ :: r => awayOf c r
  | c, .completed _ :: r => awayOf c r
  | c, .stopped :: r => awayOf c r
  | c, .redeployed l :: r => awayOf (l ++ c) r

/-- trace checker: the consumer never takes an item of a sender that was turned away and has not called again -/
def awayOK : List Nat → List Obs → Prop
  | _, [] => True
  | c, .aligned sr _ :: r => awayOK (c.filter (· ≠ sr)) r
  | c, .busy _ :: r => awayOK c r
  | c, .proc sr _ :: r => sr ∉ c ∧ awayOK c r
  | c, .handler _ _ _ :: r => awayOK c r
  | c, .fired _ _ :: r => awayOK c r
  | c, .reg _ _ :: r => awayOK c r
  | c, .reject _ _ _ :: r => awayOK c r
  | c, .snap _ _ _ :: r => awayOK c r
  | c, .ack _ :: r => awayOK c r
  | c, .released _ :: r => awayOK c r
  | c, .ackfail _ :: r => awayOK c r
  | c, .completed _ :: r => awayOK c r
  | c, .stopped :: r => awayOK c r
  | c, .redeployed l :: r => awayOK (l ++ c) r

theorem awayOf_append (c : List Nat) (a b : List Obs) : awayOf c (a ++ b) = awayOf (awayOf c a) b := by
  induction a generalizing c with
  | nil => rfl
  | cons x r ih => cases x <;> simp [awayOf, ih]

theorem awayOK_append (c : List Nat) (o1 o2 : List Obs) :
    awayOK c (o1 ++ o2) ↔ awayOK c o1 ∧ awayOK (awayOf c o1) o2 := by
  induction o1 generalizing c with
  | nil => simp [awayOK, awayOf]
  | cons x r ih => cases x <;> simp [awayOK, awayOf, ih, and_assoc]

/-- observations of the consumer's event functions: no call starts, no item is taken, no redeploy -/
def Quiet (o : List Obs) : Prop :=
  ∀ x ∈ o, (∀ sr b, x ≠ Obs.aligned sr b) ∧ (∀ sr it, x ≠ Obs.proc sr it) ∧ ∀ l, x ≠ Obs.redeployed l

theorem Quiet.nil : Quiet [] := by intro x hx; cases hx

theorem Quiet.append {a b : List Obs} (ha : Quiet a) (hb : Quiet b) : Quiet (a ++ b) := by
  intro x hx
  rcases List.mem_append.mp hx with h | h
  · exact ha x h
  · exact hb x h

theorem Quiet.tail {x : Obs} {r : List Obs} (h : Quiet (x :: r)) : Quiet r :=
  fun y hy => h y (List.mem_cons_of_mem _ hy)

theorem OnlyH.quiet {o : List Obs} (h : OnlyH o) : Quiet o := by
  intro x hx
  rcases h x hx with ⟨_, _, _, rfl⟩ | ⟨_, _, rfl⟩ <;> exact ⟨by intros; simp, by intros; simp, by intros; simp⟩

theorem Quiet.away {o : List Obs} (h : Quiet o) (c : List Nat) : awayOf c o = c ∧ awayOK c o := by
  induction o with
  | nil => exact ⟨rfl, trivial⟩
  | cons x r ih =>
    have hx := h x List.mem_cons_self
    have ⟨i1, i2⟩ := ih h.tail
    cases x with
    | aligned sr b => exact absurd rfl (hx.1 sr b)
    | proc sr it => exact absurd rfl (hx.2.1 sr it)
    | redeployed l => exact absurd rfl (hx.2.2 l)
    | handler _ _ _ | fired _ _ | busy _ | reg _ _ | reject _ _ _ | snap _ _ _ | ack _ | released _ | ackfail _
    | completed _ | stopped => exact ⟨by simpa [awayOf] using i1, by simpa [awayOK] using i2⟩

theorem quiet_of_forall {o : List Obs}
    (h : ∀ x ∈ o, (∀ sr b, x ≠ Obs.aligned sr b) ∧ (∀ sr it, x ≠ Obs.proc sr it) ∧ ∀ l, x ≠ Obs.redeployed l) :
    Quiet o := h

/-- what the consumer's event function does to the slots of other senders, and that it is quiet -/
theorem barrier_slots_quiet (s : St) (sr id : Nat) :
    Quiet (barrier s sr id).2 ∧ ∀ x, s.slots x = none → (barrier s sr id).1.slots x = none := by
  have hf := flush_ext s
  have hrel : ∀ x, s.slots x = none → release (flush s).1.slots x = none := by
    intro x h
    simp [release, hf.slots, h]
  have hqs : ∀ (a b c : Obs), (∀ x ∈ [a, b, c], (∀ sr b, x ≠ Obs.aligned sr b) ∧ (∀ sr it, x ≠ Obs.proc sr it) ∧
      ∀ l, x ≠ Obs.redeployed l) → Quiet ([Obs.reg sr id] ++ (flush s).2 ++ [a, b, c]) := by
    intro a b c h
    refine Quiet.append (Quiet.append ?_ hf.onlyH.quiet) h
    intro x hx
    simp at hx
    subst hx
    simp
  unfold barrier
  simp only []
  split
  · exact ⟨by intro x hx; simp at hx; subst hx; simp, fun x h => h⟩
  · split
    · split
      · refine ⟨?_, hrel⟩
        refine Quiet.append (Quiet.append (Quiet.append ?_ hf.onlyH.quiet) ?_) ?_
        · intro x hx; simp at hx; subst hx; simp
        · intro x hx
          split at hx
          · cases hx
          · simp at hx; subst hx; simp
        · intro x hx; simp at hx; rcases hx with rfl | rfl <;> simp
      · exact ⟨hqs _ _ _ (by intro x hx; simp at hx; rcases hx with rfl | rfl | rfl <;> simp), hrel⟩
    · exact ⟨by intro x hx; simp at hx; subst hx; simp, fun x h => h⟩

theorem process_slots_quiet (s : St) (sr : Nat) (it : Item) :
    Quiet (process s sr it).2 ∧ ∀ x, s.slots x = none → (process s sr it).1.slots x = none := by
  have hq1 : ∀ (x : Obs), x ∈ ([] : List Obs) → False := by intro x hx; cases hx
  cases it with
  | ev key pl t =>
    have hx := addEntry_ext s (.user sr key pl t)
    exact ⟨hx.onlyH.quiet, fun x h => by simp only [process]; rw [hx.slots]; exact h⟩
  | wm ts =>
    simp only [process]
    obtain ⟨o, es, ho, hext, _, _⟩ := fireLoop_ext sr
      (wmState s sr ts).watermark s.timers.length (wmState s sr ts) []
    refine ⟨by rw [ho]; simpa using hext.onlyH.quiet, fun x h => ?_⟩
    rw [hext.slots]
    exact h
  | done =>
    simp only [process]
    have hf := flush_ext s
    refine ⟨?_, fun x h => by rw [hf.slots]; exact h⟩
    refine hf.onlyH.quiet.append ?_
    intro x hx
    split at hx <;> simp at hx <;> (rcases hx with rfl | rfl) <;> simp
  | bar id =>
    simp only [process]
    split
    · exact barrier_slots_quiet s sr id
    · unfold barrierU
      simp only []
      split
      · exact ⟨by intro x hx; simp at hx; subst hx; simp, fun x h => h⟩
      · split
        · exact barrier_slots_quiet s sr id
        · exact ⟨Quiet.nil, fun x h => h⟩

/-- senders in `c` have no call in flight -/
def NoneAt (c : List Nat) (s : St) : Prop := ∀ x ∈ c, s.slots x = none

theorem step_away (s : St) (c : List Nat) (h : NoneAt c s) (act : Act) :
    NoneAt (awayOf c (step s act).2) (step s act).1 ∧ awayOK c (step s act).2 := by
  unfold step
  split
  · exact ⟨h, trivial⟩
  · cases act with
    | align sr it =>
      simp only [stepLive]
      split
      · split
        · exact ⟨by simpa [awayOf] using h, by simp [awayOK]⟩
        · refine ⟨?_, by simp [awayOK]⟩
          intro x hx
          simp only [awayOf, List.mem_filter, decide_eq_true_eq] at hx
          simp only [hx.2, if_false]
          exact h x hx.1
      · exact ⟨h, trivial⟩
    | go sr =>
      by_cases hsr : sr < s.k + s.z
      · cases hs : s.slots sr with
        | none => rw [stepLive_go_noop (Or.inr (by simp [hs]))]; exact ⟨h, trivial⟩
        | some v =>
          obtain ⟨it, b⟩ := v
          cases b with
          | false => rw [stepLive_go_noop (Or.inr (by simp [hs]))]; exact ⟨h, trivial⟩
          | true =>
            rw [stepLive_go_run hsr hs]
            obtain ⟨hq, hsl⟩ := process_slots_quiet s sr it
            obtain ⟨q1, q2⟩ := hq.away c
            refine ⟨?_, ?_⟩
            · simp only [awayOf, q1]
              intro x hx
              by_cases hxs : x = sr
              · simp [hxs]
              · simp only [hxs, if_false]
                exact hsl x (h x hx)
            · simp only [awayOK]
              refine ⟨?_, q2⟩
              intro hin
              rw [h sr hin] at hs
              cases hs
      · rw [stepLive_go_noop (Or.inl hsr)]; exact ⟨h, trivial⟩
    | tick =>
      have hx := timeout_ext s s.lastSet
      obtain ⟨q1, q2⟩ := hx.onlyH.quiet.away c
      exact ⟨by simp only [stepLive, q1]; intro x hxc; rw [hx.slots]; exact h x hxc, q2⟩
    | stale =>
      have hx := timeout_ext s s.prevSet
      obtain ⟨q1, q2⟩ := hx.onlyH.quiet.away c
      exact ⟨by simp only [stepLive, q1]; intro x hxc; rw [hx.slots]; exact h x hxc, q2⟩
    | armFail => exact ⟨fun x hx => h x hx, trivial⟩
    | armDbFail => exact ⟨fun x hx => h x hx, trivial⟩
    | cancel sr => exact ⟨h, trivial⟩
    | redeploy =>
      simp only [stepLive, redeploy, awayOf, awayOK, and_true]
      intro x hx
      rcases List.mem_append.mp hx with hx | hx
      · have hp : isParked s x = true := by
          simp only [parkedList, List.mem_filter] at hx
          exact hx.2
        unfold isParked at hp
        cases hs : s.slots x with
        | none => dsimp only; rw [hs]
        | some v =>
          obtain ⟨it, b⟩ := v
          cases b with
          | false => dsimp only; rw [hs]
          | true => simp [hs] at hp
      · dsimp only; rw [h x hx]

theorem runFrom_away : ∀ (as : List Act) (s : St) (acc : List Obs),
    NoneAt (awayOf [] acc) s → awayOK [] acc →
    NoneAt (awayOf [] (runFrom s acc as).2) (runFrom s acc as).1 ∧ awayOK [] (runFrom s acc as).2 := by
  intro as
  induction as with
  | nil => intro s acc h1 h2; exact ⟨h1, h2⟩
  | cons act as ih =>
    intro s acc h1 h2
    obtain ⟨n1, n2⟩ := step_away s _ h1 act
    simp only [runFrom]
    apply ih
    · rw [awayOf_append]; exact n1
    · rw [awayOK_append]; exact ⟨h2, n2⟩

/-- after a sender was turned away by a redeploy, the consumer takes an item of it only after it started a new call -/
theorem awayOK_new_call {sr : Nat} {it : Item} : ∀ (mid : List Obs) (c : List Nat) (post : List Obs),
    sr ∈ c → awayOK c (mid ++ .proc sr it :: post) → ∃ b, Obs.aligned sr b ∈ mid := by
  intro mid
  induction mid with
  | nil =>
    intro c post hc h
    simp only [List.nil_append, awayOK] at h
    exact absurd hc h.1
  | cons x r ih =>
    intro c post hc h
    cases x with
    | aligned x b =>
      by_cases hxs : x = sr
      · exact ⟨b, by rw [hxs]; exact List.mem_cons_self⟩
      · simp only [List.cons_append, awayOK] at h
        obtain ⟨b', hm⟩ := ih _ post (List.mem_filter.mpr ⟨hc, by simpa using Ne.symm hxs⟩) h
        exact ⟨b', List.mem_cons_of_mem _ hm⟩
    | redeployed l =>
      simp only [List.cons_append, awayOK] at h
      obtain ⟨b', hm⟩ := ih _ post (List.mem_append_right _ hc) h
      exact ⟨b', List.mem_cons_of_mem _ hm⟩
    | proc x i =>
      simp only [List.cons_append, awayOK] at h
      obtain ⟨b', hm⟩ := ih _ post hc h.2
      exact ⟨b', List.mem_cons_of_mem _ hm⟩
    | handler _ _ _ | fired _ _ | busy _ | reg _ _ | reject _ _ _ | snap _ _ _ | ack _ | released _ | ackfail _
    | completed _ | stopped =>
      simp only [List.cons_append, awayOK] at h
      obtain ⟨b', hm⟩ := ih _ post hc h
      exact ⟨b', List.mem_cons_of_mem _ hm⟩

/-! ## holding the consumer inside the last barrier's handler changes nothing -/

theorem runFrom_acc : ∀ (as : List Act) (s : St) (acc : List Obs),
    runFrom s acc as = ((runFrom s [] as).1, acc ++ (runFrom s [] as).2) := by
  intro as
  induction as with
  | nil => intro s acc; simp [runFrom]
  | cons a r ih =>
    intro s acc
    simp only [runFrom]
    rw [ih (step s a).1 (acc ++ (step s a).2), ih (step s a).1 ([] ++ (step s a).2)]
    simp [List.append_assoc]

theorem runFrom_append : ∀ (l1 l2 : List Act) (s : St) (acc : List Obs),
    runFrom s acc (l1 ++ l2) = runFrom (runFrom s acc l1).1 (runFrom s acc l1).2 l2 := by
  intro l1
  induction l1 with
  | nil => intro l2 s acc; rfl
  | cons a r ih => intro l2 s acc; simp only [List.cons_append, runFrom]; exact ih l2 _ _

/-- the actions a held/resumed schedule stands for -/
def HAct.bases : List HAct → List Act
  | [] => []
  | .base a :: r => a :: HAct.bases r
  | _ :: r => HAct.bases r

/-- **simulation**: every schedule with holds produces exactly the state and the trace of a schedule without
holds whose actions are the original ones plus `go`s -/
theorem hrun_sim : ∀ (has : List HAct) (h : HSt) (acc : List Obs),
    ∃ as : List Act, (hrunFrom h acc has).1.s = (runFrom h.s acc as).1 ∧
      (hrunFrom h acc has).2 = (runFrom h.s acc as).2 ∧
      ∀ a ∈ as, a ∈ HAct.bases has ∨ (∃ x, a = Act.go x) ∨ ∃ sr it, a = Act.align sr it := by
  intro has
  induction has with
  | nil => intro h acc; exact ⟨[], rfl, rfl, by intro a ha; cases ha⟩
  | cons ha r ih =>
    intro h acc
    simp only [hrunFrom]
    -- a step that leaves `s` untouched and emits nothing
    have same : ∀ h' : HSt, h'.s = h.s → (∃ as : List Act, (hrunFrom h' (acc ++ []) r).1.s = (runFrom h.s acc as).1 ∧
        (hrunFrom h' (acc ++ []) r).2 = (runFrom h.s acc as).2 ∧
        ∀ a ∈ as, a ∈ HAct.bases (ha :: r) ∨ (∃ x, a = Act.go x) ∨ ∃ sr it, a = Act.align sr it) := by
      intro h' hs
      obtain ⟨as, e1, e2, e3⟩ := ih h' (acc ++ [])
      refine ⟨as, by simpa [hs] using e1, by simpa [hs] using e2, ?_⟩
      intro a hin
      rcases e3 a hin with hb | hg
      · left
        cases ha <;> simp [HAct.bases, hb]
      · exact Or.inr hg
    -- a step that runs the plain actions `l` on `s`
    have runs : ∀ (l : List Act) (h' : HSt), h'.s = (runFrom h.s [] l).1 →
        (∀ a ∈ l, a ∈ HAct.bases (ha :: r) ∨ (∃ x, a = Act.go x) ∨ ∃ sr it, a = Act.align sr it) →
        (∃ as : List Act, (hrunFrom h' (acc ++ (runFrom h.s [] l).2) r).1.s = (runFrom h.s acc as).1 ∧
          (hrunFrom h' (acc ++ (runFrom h.s [] l).2) r).2 = (runFrom h.s acc as).2 ∧
          ∀ a ∈ as, a ∈ HAct.bases (ha :: r) ∨ (∃ x, a = Act.go x) ∨ ∃ sr it, a = Act.align sr it) := by
      intro l h' hs hl
      obtain ⟨as, e1, e2, e3⟩ := ih h' (acc ++ (runFrom h.s [] l).2)
      have hsplit : runFrom h.s acc (l ++ as) = runFrom h'.s (acc ++ (runFrom h.s [] l).2) as := by
        rw [runFrom_append, runFrom_acc l h.s acc, hs]
      refine ⟨l ++ as, by rw [hsplit]; exact e1, by rw [hsplit]; exact e2, ?_⟩
      intro a hin
      rcases List.mem_append.mp hin with h1 | h2
      · exact hl a h1
      · rcases e3 a h2 with hb | hg
        · left
          cases ha <;> simp [HAct.bases, hb]
        · exact Or.inr hg
    cases ha with
    | base a =>
      cases hh : h.held with
      | none =>
        have := runs [a] { h with s := (step h.s a).1 } (by simp [runFrom]) (by
          intro b hb; simp at hb; subst hb; left; simp [HAct.bases])
        simpa [hstep, hh, runFrom] using this
      | some sr0 =>
        cases a with
        | go x =>
          simp only [hstep, hh]
          split
          · exact same _ rfl
          · exact same _ rfl
        | align _ _ =>
          simp only [hstep, hh]
          split
          · exact same _ rfl
          · exact same _ rfl
        | tick | stale | armFail | armDbFail | redeploy | cancel _ =>
          simp only [hstep, hh]
          exact same _ rfl
    | hold sr =>
      cases hh : h.held with
      | none =>
        simp only [hstep, hh]
        split
        · exact same _ rfl
        · have := runs [.go sr] { h with s := (step h.s (.go sr)).1 } (by simp [runFrom]) (by
            intro b hb; simp at hb; subst hb; exact Or.inr (Or.inl ⟨sr, rfl⟩))
          simpa [runFrom, hh] using this
      | some _ =>
        simp only [hstep, hh]
        exact same _ rfl
    | resume =>
      cases hh : h.held with
      | none =>
        simp only [hstep, hh]
        exact same _ rfl
      | some sr0 =>
        simp only [hstep, hh]
        exact runs (.go sr0 :: h.queue.map .go ++ h.blocked.map fun x => .align x.1 x.2)
          { s := (runFrom h.s [] (.go sr0 :: h.queue.map .go ++ h.blocked.map fun x => .align x.1 x.2)).1 } rfl (by
          intro b hb
          right
          rcases List.mem_cons.mp hb with rfl | hb
          · exact Or.inl ⟨sr0, rfl⟩
          · rcases List.mem_append.mp hb with hb | hb
            · obtain ⟨x, _, rfl⟩ := List.mem_map.mp hb
              exact Or.inl ⟨x, rfl⟩
            · obtain ⟨x, _, rfl⟩ := List.mem_map.mp hb
              exact Or.inr ⟨x.1, x.2, rfl⟩)

/-! ## cancellations are invisible -/

def Act.isCancel : Act → Bool
  | .cancel _ => true
  | _ => false

theorem runFrom_filter_cancel : ∀ (as : List Act) (s : St) (acc : List Obs),
    runFrom s acc as = runFrom s acc (as.filter fun a => !a.isCancel) := by
  intro as
  induction as with
  | nil => intro s acc; rfl
  | cons a r ih =>
    intro s acc
    cases a with
    | cancel sr =>
      have hst : step s (.cancel sr) = (s, []) := by unfold step; split <;> rfl
      simp only [runFrom, hst, List.append_nil, List.filter_cons, Act.isCancel]
      exact ih s acc
    | align _ _ | go _ | tick | stale | armFail | armDbFail | redeploy =>
      simp only [runFrom, List.filter_cons, Act.isCancel]
      exact ih _ _

/-! ## after a failed ack (or a failed `db.Checkpoint`) the completed record blocks checkpointing -/

/-- the completed record of checkpoint `id` is in place and no call in flight carries barrier `id` again -/
def StaleInv (id : Nat) (s : St) : Prop :=
  s.ckpt = some (id, []) ∧ ∀ sr it b, s.slots sr = some (it, b) → it ≠ Item.bar id

/-- actions that neither redeploy nor re-send barrier `id` -/
def Act.keepsStale (id : Nat) : Act → Bool
  | .redeploy => false
  | .align _ (.bar j) => j != id
  | _ => true

/-- observations that would mean checkpointing made progress -/
def Obs.isCkptProgress : Obs → Bool
  | .snap _ _ _ => true
  | .ack _ => true
  | .ackfail _ => true
  | .reg _ _ => true
  | _ => false

theorem OnlyH.noProgress {o : List Obs} (h : OnlyH o) : ∀ x ∈ o, x.isCkptProgress = false := by
  intro x hx
  rcases h x hx with ⟨_, _, _, rfl⟩ | ⟨_, _, rfl⟩ <;> rfl

theorem stale_step {id : Nat} {s : St} (h : StaleInv id s) (a : Act) (ha : a.keepsStale id = true) :
    StaleInv id (step s a).1 ∧ ∀ x ∈ (step s a).2, x.isCkptProgress = false := by
  obtain ⟨hc, hsl⟩ := h
  unfold step
  split
  · exact ⟨⟨hc, hsl⟩, by intro x hx; cases hx⟩
  · cases a with
    | align sr it =>
      simp only [stepLive]
      split
      · split
        · exact ⟨⟨hc, hsl⟩, by intro x hx; simp at hx; subst hx; rfl⟩
        · refine ⟨⟨hc, ?_⟩, by intro x hx; simp at hx; subst hx; rfl⟩
          intro x it' b hs
          by_cases hx : x = sr
          · simp only [hx, if_true, Option.some.injEq, Prod.mk.injEq] at hs
            rw [← hs.1]
            intro hbar
            subst hbar
            simp [Act.keepsStale] at ha
          · simp only [hx, if_false] at hs
            exact hsl x it' b hs
      · exact ⟨⟨hc, hsl⟩, by intro x hx; cases hx⟩
    | go sr =>
      by_cases hsr : sr < s.k + s.z
      · cases hs : s.slots sr with
        | none => rw [stepLive_go_noop (Or.inr (by simp [hs]))]; exact ⟨⟨hc, hsl⟩, by intro x hx; cases hx⟩
        | some v =>
          obtain ⟨it, b⟩ := v
          cases b with
          | false => rw [stepLive_go_noop (Or.inr (by simp [hs]))]; exact ⟨⟨hc, hsl⟩, by intro x hx; cases hx⟩
          | true =>
            rw [stepLive_go_run hsr hs]
            have clear : ∀ (s' : St), s'.slots = s.slots → ∀ x it' b,
                (if x = sr then none else s'.slots x) = some (it', b) → it' ≠ Item.bar id := by
              intro s' hs' x it' b hx
              by_cases hxs : x = sr
              · simp [hxs] at hx
              · simp only [hxs, if_false] at hx
                rw [hs'] at hx
                exact hsl x it' b hx
            cases it with
            | ev key pl t =>
              have hx := addEntry_ext s (.user sr key pl t)
              refine ⟨⟨by simp only [process]; rw [hx.ckpt]; exact hc, clear _ hx.slots⟩, ?_⟩
              intro x hxm
              rcases List.mem_cons.mp hxm with rfl | hxm
              · rfl
              · exact hx.onlyH.noProgress x hxm
            | wm ts =>
              simp only [process]
              obtain ⟨o, es, ho, hext, _, _⟩ := fireLoop_ext sr
                (wmState s sr ts).watermark s.timers.length (wmState s sr ts) []
              refine ⟨⟨by rw [hext.ckpt]; exact hc, clear _ hext.slots⟩, ?_⟩
              intro x hxm
              rcases List.mem_cons.mp hxm with rfl | hxm
              · rfl
              · rw [ho] at hxm
                exact hext.onlyH.noProgress x (by simpa using hxm)
            | done =>
              simp only [process]
              have hf := flush_ext s
              refine ⟨⟨by simp only []; rw [hf.ckpt]; exact hc, clear _ hf.slots⟩, ?_⟩
              intro x hxm
              rcases List.mem_cons.mp hxm with rfl | hxm
              · rfl
              · rcases List.mem_append.mp hxm with hxm | hxm
                · exact hf.onlyH.noProgress x hxm
                · rcases List.mem_cons.mp hxm with rfl | hxm
                  · rfl
                  · split at hxm
                    · simp at hxm; subst hxm; rfl
                    · cases hxm
            | bar j =>
              have hne : j ≠ id := fun e => hsl sr (.bar j) true hs (by rw [e])
              have hv : virtCk s j = (id, []) := by simp [virtCk, hc]
              have hbu : barrierU s sr j = ({ s with ckpt := some (id, []) }, [.reject sr j id]) :=
                barrierU_reject hc hne
              simp only [process]
              split
              · rw [barrier_reject (by rw [hv]; exact hne), hv]
                refine ⟨⟨rfl, clear _ rfl⟩, ?_⟩
                intro x hxm
                simp at hxm
                rcases hxm with rfl | rfl <;> rfl
              · rw [hbu]
                refine ⟨⟨rfl, clear _ rfl⟩, ?_⟩
                intro x hxm
                simp at hxm
                rcases hxm with rfl | rfl <;> rfl
      · rw [stepLive_go_noop (Or.inl hsr)]; exact ⟨⟨hc, hsl⟩, by intro x hx; cases hx⟩
    | tick =>
      have hx := timeout_ext s s.lastSet
      exact ⟨⟨by simp only [stepLive]; rw [hx.ckpt]; exact hc, by simp only [stepLive]; rw [hx.slots]; exact hsl⟩,
        hx.onlyH.noProgress⟩
    | stale =>
      have hx := timeout_ext s s.prevSet
      exact ⟨⟨by simp only [stepLive]; rw [hx.ckpt]; exact hc, by simp only [stepLive]; rw [hx.slots]; exact hsl⟩,
        hx.onlyH.noProgress⟩
    | armFail => exact ⟨⟨hc, hsl⟩, by intro x hx; cases hx⟩
    | armDbFail => exact ⟨⟨hc, hsl⟩, by intro x hx; cases hx⟩
    | cancel sr => exact ⟨⟨hc, hsl⟩, by intro x hx; cases hx⟩
    | redeploy => simp [Act.keepsStale] at ha

theorem stale_run {id : Nat} : ∀ (as : List Act) (s : St) (acc : List Obs), StaleInv id s →
    (∀ a ∈ as, a.keepsStale id = true) → (∀ x ∈ acc, x.isCkptProgress = false) →
    StaleInv id (runFrom s acc as).1 ∧ ∀ x ∈ (runFrom s acc as).2, x.isCkptProgress = false := by
  intro as
  induction as with
  | nil => intro s acc h _ hacc; exact ⟨h, hacc⟩
  | cons a r ih =>
    intro s acc h hk hacc
    obtain ⟨h1, h2⟩ := stale_step h a (hk a List.mem_cons_self)
    simp only [runFrom]
    apply ih _ _ h1 (fun b hb => hk b (List.mem_cons_of_mem _ hb))
    intro x hx
    rcases List.mem_append.mp hx with hx | hx
    · exact hacc x hx
    · exact h2 x hx

/-! ## the first cut of a trace, as data (for counterexamples by evaluation) -/

/-- at the first snapshot: the keyed events the handler had received, and the keyed events the consumer had taken -/
def firstCut : List (Nat × Item) → List Entry → List Obs → Option (List (Nat × Bytes × Nat × Nat) × List (Nat × Bytes × Nat × Nat))
  | _, _, [] => none
  | p, a, .snap _ _ _ :: _ => some (userOf a, userProcs p)
  | p, a, .proc sr it :: r => firstCut (p ++ [(sr, it)]) a r
  | p, a, .handler es _ _ :: r => firstCut p (a ++ es) r
  | p, a, .aligned _ _ :: r => firstCut p a r
  | p, a, .busy _ :: r => firstCut p a r
  | p, a, .fired _ _ :: r => firstCut p a r
  | p, a, .reg _ _ :: r => firstCut p a r
  | p, a, .reject _ _ _ :: r => firstCut p a r
  | p, a, .ack _ :: r => firstCut p a r
  | p, a, .released _ :: r => firstCut p a r
  | p, a, .ackfail _ :: r => firstCut p a r
  | p, a, .completed _ :: r => firstCut p a r
  | p, a, .stopped :: r => firstCut p a r
  | p, a, .redeployed _ :: r => firstCut p a r

theorem firstCut_spec : ∀ (obs : List Obs) (p : List (Nat × Item)) (a : List Entry) (u v),
    firstCut p a obs = some (u, v) →
    ∃ pre id S T post, obs = pre ++ Obs.snap id S T :: post ∧ u = userOf (a ++ entriesOf pre) ∧
      v = userProcs (p ++ procsOf pre) := by
  intro obs
  induction obs with
  | nil => intro p a u v h; simp [firstCut] at h
  | cons x r ih =>
    intro p a u v h
    cases x with
    | snap id S T =>
      simp only [firstCut, Option.some.injEq, Prod.mk.injEq] at h
      exact ⟨[], id, S, T, r, rfl, by simp [entriesOf, h.1], by simp [procsOf, h.2]⟩
    | proc sr it =>
      simp only [firstCut] at h
      obtain ⟨pre, id, S, T, post, e, hu, hv⟩ := ih _ _ _ _ h
      exact ⟨.proc sr it :: pre, id, S, T, post, by rw [e]; rfl, by simpa [entriesOf] using hu,
        by simpa [procsOf, List.append_assoc] using hv⟩
    | handler es w g =>
      simp only [firstCut] at h
      obtain ⟨pre, id, S, T, post, e, hu, hv⟩ := ih _ _ _ _ h
      exact ⟨.handler es w g :: pre, id, S, T, post, by rw [e]; rfl, by simpa [entriesOf, List.append_assoc] using hu,
        by simpa [procsOf] using hv⟩
    | aligned _ _ | busy _ | fired _ _ | reg _ _ | reject _ _ _ | ack _ | released _ | ackfail _ | completed _
    | stopped | redeployed _ =>
      simp only [firstCut] at h
      obtain ⟨pre, id, S, T, post, e, hu, hv⟩ := ih _ _ _ _ h
      exact ⟨_ :: pre, id, S, T, post, by rw [e]; rfl, by simpa [entriesOf] using hu, by simpa [procsOf] using hv⟩

/-! ## who delivered what the consumer takes -/

theorem Quiet.procsOf_nil {o : List Obs} (h : Quiet o) : procsOf o = [] := by
  induction o with
  | nil => rfl
  | cons y r ih =>
    have hy := h y List.mem_cons_self
    cases y with
    | proc a b => exact absurd rfl (hy.2.1 a b)
    | aligned _ _ | busy _ | handler _ _ _ | fired _ _ | reg _ _ | reject _ _ _ | snap _ _ _ | ack _
    | released _ | ackfail _ | completed _ | stopped | redeployed _ =>
      simpa [procsOf] using ih h.tail

/-- the consumer takes an item only in a `go` of its sender -/
theorem step_procs (s : St) (a : Act) : ∀ x ∈ procsOf (step s a).2, a = Act.go x.1 := by
  unfold step
  split
  · intro x hx; cases hx
  · cases a with
    | align sr it =>
      simp only [stepLive]
      split
      · split <;> (intro x hx; simp [procsOf] at hx)
      · intro x hx; cases hx
    | go sr =>
      by_cases hsr : sr < s.k + s.z
      · cases hs : s.slots sr with
        | none => rw [stepLive_go_noop (Or.inr (by simp [hs]))]; intro x hx; cases hx
        | some v =>
          obtain ⟨it, b⟩ := v
          cases b with
          | false => rw [stepLive_go_noop (Or.inr (by simp [hs]))]; intro x hx; cases hx
          | true =>
            rw [stepLive_go_run hsr hs]
            intro x hx
            simp only [procsOf, List.mem_cons] at hx
            rcases hx with rfl | hx
            · rfl
            · rw [((process_slots_quiet s sr it).1).procsOf_nil] at hx
              cases hx
      · rw [stepLive_go_noop (Or.inl hsr)]; intro x hx; cases hx
    | tick =>
      have hx := timeout_ext s s.lastSet
      intro x hxm
      simp only [stepLive, hx.onlyH.procsOf] at hxm
      cases hxm
    | stale =>
      have hx := timeout_ext s s.prevSet
      intro x hxm
      simp only [stepLive, hx.onlyH.procsOf] at hxm
      cases hxm
    | armFail => intro x hx; cases hx
    | armDbFail => intro x hx; cases hx
    | cancel sr => intro x hx; cases hx
    | redeploy => intro x hx; simp [stepLive, redeploy, procsOf] at hx

theorem runFrom_procs : ∀ (as : List Act) (s : St) (acc : List Obs),
    ∀ x ∈ procsOf (runFrom s acc as).2, x ∈ procsOf acc ∨ Act.go x.1 ∈ as := by
  intro as
  induction as with
  | nil => intro s acc x hx; exact Or.inl hx
  | cons a r ih =>
    intro s acc x hx
    simp only [runFrom] at hx
    rcases ih _ _ x hx with h | h
    · rw [procsOf_append] at h
      rcases List.mem_append.mp h with h | h
      · exact Or.inl h
      · exact Or.inr (by rw [← step_procs s a x h]; exact List.mem_cons_self)
    · exact Or.inr (List.mem_cons_of_mem _ h)

/-- trace checker (as data): every item the consumer takes was handed in by a call that started in this trace -/
def deliveredHere : List Nat → List Obs → Bool
  | _, [] => true
  | seen, .aligned sr _ :: r => deliveredHere (sr :: seen) r
  | seen, .proc sr _ :: r => seen.contains sr && deliveredHere seen r
  | seen, .busy _ :: r => deliveredHere seen r
  | seen, .handler _ _ _ :: r => deliveredHere seen r
  | seen, .fired _ _ :: r => deliveredHere seen r
  | seen, .reg _ _ :: r => deliveredHere seen r
  | seen, .reject _ _ _ :: r => deliveredHere seen r
  | seen, .snap _ _ _ :: r => deliveredHere seen r
  | seen, .ack _ :: r => deliveredHere seen r
  | seen, .released _ :: r => deliveredHere seen r
  | seen, .ackfail _ :: r => deliveredHere seen r
  | seen, .completed _ :: r => deliveredHere seen r
  | seen, .stopped :: r => deliveredHere seen r
  | seen, .redeployed _ :: r => deliveredHere seen r

theorem deliveredHere_false : ∀ (obs : List Obs) (seen : List Nat), deliveredHere seen obs = false →
    ∃ pre sr it post, obs = pre ++ Obs.proc sr it :: post ∧ sr ∉ seen ∧ ∀ b, Obs.aligned sr b ∉ pre := by
  intro obs
  induction obs with
  | nil => intro seen h; simp [deliveredHere] at h
  | cons x r ih =>
    intro seen h
    have lift : ∀ (seen' : List Nat), (∀ y, y ∈ seen → y ∈ seen') → (∀ sr b, x = Obs.aligned sr b → sr ∈ seen') →
        deliveredHere seen' r = false →
        ∃ pre sr it post, x :: r = pre ++ Obs.proc sr it :: post ∧ sr ∉ seen ∧ ∀ b, Obs.aligned sr b ∉ pre := by
      intro seen' hsub hal hf
      obtain ⟨pre, sr, it, post, e, hn, hna⟩ := ih seen' hf
      refine ⟨x :: pre, sr, it, post, by rw [e]; rfl, fun hin => hn (hsub sr hin), ?_⟩
      intro b hin
      rcases List.mem_cons.mp hin with heq | hin
      · exact hn (hal sr b heq.symm)
      · exact hna b hin
    cases x with
    | aligned sr b =>
      simp only [deliveredHere] at h
      exact lift (sr :: seen) (fun y hy => List.mem_cons_of_mem _ hy)
        (by intro sr' b' e; cases e; exact List.mem_cons_self) h
    | proc sr it =>
      simp only [deliveredHere, Bool.and_eq_false_iff] at h
      rcases h with h | h
      · exact ⟨[], sr, it, r, rfl, by simpa using h, by intro b hin; cases hin⟩
      · exact lift seen (fun y hy => hy) (by intro _ _ e; cases e) h
    | busy _ | handler _ _ _ | fired _ _ | reg _ _ | reject _ _ _ | snap _ _ _ | ack _ | released _ | ackfail _
    | completed _ | stopped | redeployed _ =>
      simp only [deliveredHere] at h
      exact lift seen (fun y hy => hy) (by intro _ _ e; cases e) h

/-! ## only admitted callers are served -/

theorem barrier_kz (s : St) (sr id : Nat) : (barrier s sr id).1.k = s.k ∧ (barrier s sr id).1.z = s.z := by
  have hf := flush_ext s
  unfold barrier
  simp only []
  split
  · exact ⟨rfl, rfl⟩
  · split
    · split <;> exact ⟨hf.k, hf.z⟩
    · exact ⟨rfl, rfl⟩

theorem process_kz (s : St) (sr : Nat) (it : Item) : (process s sr it).1.k = s.k ∧ (process s sr it).1.z = s.z := by
  cases it with
  | ev key pl t =>
    have hx := addEntry_ext s (.user sr key pl t)
    exact ⟨hx.k, hx.z⟩
  | wm ts =>
    simp only [process]
    obtain ⟨o, es, ho, hext, _, _⟩ := fireLoop_ext sr (wmState s sr ts).watermark s.timers.length (wmState s sr ts) []
    exact ⟨hext.k, hext.z⟩
  | bar id =>
    simp only [process]
    split
    · exact barrier_kz s sr id
    · unfold barrierU
      simp only []
      split
      · exact ⟨rfl, rfl⟩
      · split
        · exact barrier_kz s sr id
        · exact ⟨rfl, rfl⟩
  | done =>
    simp only [process]
    have hf := flush_ext s
    exact ⟨hf.k, hf.z⟩

/-- the numbers of deployed runners and of further admitted callers never change -/
theorem step_kz (s : St) (a : Act) : (step s a).1.k = s.k ∧ (step s a).1.z = s.z := by
  unfold step
  split
  · exact ⟨rfl, rfl⟩
  · cases a with
    | align sr it =>
      simp only [stepLive]
      split
      · split <;> exact ⟨rfl, rfl⟩
      · exact ⟨rfl, rfl⟩
    | go sr =>
      by_cases hsr : sr < s.k + s.z
      · cases hs : s.slots sr with
        | none => rw [stepLive_go_noop (Or.inr (by simp [hs]))]; exact ⟨rfl, rfl⟩
        | some v =>
          obtain ⟨it, b⟩ := v
          cases b with
          | false => rw [stepLive_go_noop (Or.inr (by simp [hs]))]; exact ⟨rfl, rfl⟩
          | true => rw [stepLive_go_run hsr hs]; exact process_kz s sr it
      · rw [stepLive_go_noop (Or.inl hsr)]; exact ⟨rfl, rfl⟩
    | tick => have hx := timeout_ext s s.lastSet; exact ⟨hx.k, hx.z⟩
    | stale => have hx := timeout_ext s s.prevSet; exact ⟨hx.k, hx.z⟩
    | armFail => exact ⟨rfl, rfl⟩
    | armDbFail => exact ⟨rfl, rfl⟩
    | cancel sr => exact ⟨rfl, rfl⟩
    | redeploy => exact ⟨rfl, rfl⟩

/-- the consumer takes items only of callers the operator admits: senders below `k + z` -/
theorem step_procs_lt (s : St) (a : Act) : ∀ x ∈ procsOf (step s a).2, x.1 < s.k + s.z := by
  intro x hx
  have hgo := step_procs s a x hx
  subst hgo
  by_cases hsr : x.1 < s.k + s.z
  · exact hsr
  · exfalso
    unfold step at hx
    split at hx
    · cases hx
    · rw [stepLive_go_noop (Or.inl hsr)] at hx
      cases hx

theorem runFrom_procs_lt : ∀ (as : List Act) (s : St) (acc : List Obs),
    ∀ x ∈ procsOf (runFrom s acc as).2, x ∈ procsOf acc ∨ x.1 < s.k + s.z := by
  intro as
  induction as with
  | nil => intro s acc x hx; exact Or.inl hx
  | cons a r ih =>
    intro s acc x hx
    simp only [runFrom] at hx
    rcases ih _ _ x hx with h | h
    · rw [procsOf_append] at h
      rcases List.mem_append.mp h with h | h
      · exact Or.inl h
      · exact Or.inr (step_procs_lt s a x h)
    · rw [(step_kz s a).1, (step_kz s a).2] at h
      exact Or.inr h

/-! ## what a redeploy lets through -/

def isPassed (s : St) (i : Nat) : Bool :=
  match s.slots i with
  | some (_, true) => true
  | _ => false

/-- in the epoch started by a redeploy the consumer takes an item of sender `sr` only after a call of `sr` that
started in this epoch — or `sr`'s call was already past alignment when the redeploy happened -/
theorem epoch_delivered (s : St) (hlive : s.stopped = false) (as : List Act) (pre' post' : List Obs) (sr : Nat)
    (it : Item) (hsr : sr < s.k + s.z)
    (h : (runFrom (step s Act.redeploy).1 [] as).2 = pre' ++ Obs.proc sr it :: post') :
    (∃ b, Obs.aligned sr b ∈ pre') ∨ ∃ it0, s.slots sr = some (it0, true) := by
  by_cases hp : isPassed s sr = true
  · right
    unfold isPassed at hp
    cases hs : s.slots sr with
    | none => simp [hs] at hp
    | some v =>
      obtain ⟨it0, b⟩ := v
      cases b with
      | true => exact ⟨it0, rfl⟩
      | false => simp [hs] at hp
  · left
    have hst : step s Act.redeploy = redeploy s := by
      unfold step
      rw [if_neg (by simp [hlive])]
      rfl
    rw [hst] at h
    let c0 := (List.range (s.k + s.z)).filter fun i => !isPassed s i
    have hnone : NoneAt (awayOf [] [Obs.redeployed c0]) (redeploy s).1 := by
      intro x hx
      simp only [awayOf, List.append_nil, c0, List.mem_filter] at hx
      have hnp := hx.2
      simp only [redeploy]
      unfold isPassed at hnp
      cases hs : s.slots x with
      | none => rfl
      | some v =>
        obtain ⟨it0, b⟩ := v
        cases b with
        | false => rfl
        | true => simp [hs] at hnp
    obtain ⟨_, hok⟩ := runFrom_away as (redeploy s).1 [Obs.redeployed c0] hnone (by simp [awayOK])
    rw [runFrom_acc, h] at hok
    simp only [List.cons_append, List.nil_append, awayOK] at hok
    refine awayOK_new_call pre' _ post' ?_ hok
    simp only [List.append_nil, c0, List.mem_filter, List.mem_range]
    exact ⟨hsr, by simpa using hp⟩

end Rxn.Align
