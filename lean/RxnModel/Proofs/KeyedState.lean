import RxnModel.Proofs.KeyedStateKV
import RxnModel.Proofs.KeyedStateGroup
/-! `GetState` after any history = the per-key map, and the operator's batch rule (helper lemmas for C03). Core-only. -/
namespace Rxn.KeyedState
open Rxn Bytes

/-- the lengths the encoders can represent: subject keys below 2^32 bytes, namespaces at most 255 bytes -/
def LWrite.WF (w : LWrite) : Prop := w.1.length < 4294967296 ∧ w.2.1.length ≤ 255

def Act.WF (a : Act) : Prop := ∀ w ∈ a.lwrites, LWrite.WF w

theorem applyMutations_eq (kgc : Nat) (subj : Bytes) (nss : List NsMuts) : ∀ kv : KV,
    applyMutations kgc kv subj nss = ((nss.flatMap (nsWrites subj)).map (encW kgc)).foldl KV.write kv := by
  induction nss with
  | nil => intro kv; rfl
  | cons nm nss ih =>
    intro kv
    unfold applyMutations at ih ⊢
    simp only [List.foldl_cons, List.flatMap_cons, List.map_append, List.foldl_append]
    rw [ih]
    congr 1
    simp only [nsWrites, List.map_map, List.foldl_map]
    rfl

theorem step_eq (kgc : Nat) (kv : KV) (a : Act) : step kgc kv a = (a.rawWrites kgc).foldl KV.write kv := by
  cases a with
  | apply subj nss => simp only [step, Act.rawWrites, Act.lwrites, applyMutations_eq]
  | timerPut subj t => simp [step, Act.rawWrites, KV.write]
  | timerDel subj t => simp [step, Act.rawWrites, KV.write]

theorem run_eq (kgc : Nat) (acts : List Act) : ∀ kv : KV,
    run kgc kv acts = (acts.flatMap (Act.rawWrites kgc)).foldl KV.write kv := by
  induction acts with
  | nil => intro kv; rfl
  | cons a acts ih =>
    intro kv
    simp only [run, List.foldl_cons, List.flatMap_cons, List.foldl_append] at ih ⊢
    rw [ih, step_eq]

theorem run_append (kgc : Nat) (kv : KV) (a b : List Act) : run kgc kv (a ++ b) = run kgc (run kgc kv a) b := by
  simp [run, List.foldl_append]

theorem run_sorted (kgc : Nat) (acts : List Act) : Sorted (run kgc [] acts) := by
  rw [run_eq]; exact foldl_write_sorted _ List.Pairwise.nil

/-- `specLookup` with an explicit start value -/
def specFold (ws : List LWrite) (subj ns ek : Bytes) (init : Option Bytes) : Option Bytes :=
  ws.foldl (fun cur w => if w.1 = subj ∧ w.2.1 = ns ∧ w.2.2.1 = ek then w.2.2.2 else cur) init

theorem specLookup_eq (ws : List LWrite) (subj ns ek : Bytes) : specLookup ws subj ns ek = specFold ws subj ns ek none := rfl

theorem specFold_append (a b : List LWrite) (subj ns ek : Bytes) (init : Option Bytes) :
    specFold (a ++ b) subj ns ek init = specFold b subj ns ek (specFold a subj ns ek init) := by
  simp [specFold, List.foldl_append]

/-- on well-formed mutations the composite key identifies the triple: raw and logical replay agree -/
theorem lastW_map_encW (kgc : Nat) (k ns ek : Bytes) (hk : k.length < 4294967296) (hn : ns.length ≤ 255) :
    ∀ (ws : List LWrite), (∀ w ∈ ws, LWrite.WF w) → ∀ init,
    lastW (ws.map (encW kgc)) (Keys.dbKey kgc k ns ek) init = specFold ws k ns ek init := by
  intro ws
  induction ws with
  | nil => intro _ init; rfl
  | cons w ws ih =>
    intro hwf init
    have hw := hwf w List.mem_cons_self
    simp only [List.map_cons, lastW, specFold, List.foldl_cons]
    have hcond : ((encW kgc w).1 = Keys.dbKey kgc k ns ek) ↔ (w.1 = k ∧ w.2.1 = ns ∧ w.2.2.1 = ek) := by
      constructor
      · intro h; exact dbKey_inj hw.1 hk hw.2 hn h
      · rintro ⟨h1, h2, h3⟩; simp [encW, h1, h2, h3]
    have := ih (fun w' hw' => hwf w' (List.mem_cons_of_mem _ hw'))
    simp only [lastW, specFold] at this
    by_cases hc : w.1 = k ∧ w.2.1 = ns ∧ w.2.2.1 = ek
    · rw [if_pos (hcond.mpr hc), if_pos hc]; exact this _
    · rw [if_neg (fun h => hc (hcond.mp h)), if_neg hc]; exact this _

theorem lastW_single_ne (w : Bytes × Option Bytes) (k : Bytes) (init : Option Bytes) (h : w.1 ≠ k) :
    lastW [w] k init = init := by
  simp only [lastW, List.foldl_cons, List.foldl_nil]
  rw [if_neg h]

theorem lastW_rawWrites (kgc : Nat) (k ns ek : Bytes) (hk : k.length < 4294967296) (hn : ns.length ≤ 255)
    (a : Act) (ha : a.WF) (init : Option Bytes) :
    lastW (a.rawWrites kgc) (Keys.dbKey kgc k ns ek) init = specFold a.lwrites k ns ek init := by
  cases a with
  | apply subj nss => exact lastW_map_encW kgc k ns ek hk hn _ ha init
  | timerPut subj t => exact lastW_single_ne _ _ init (timerKey_ne_dbKey kgc subj k ns ek t)
  | timerDel subj t => exact lastW_single_ne _ _ init (timerKey_ne_dbKey kgc subj k ns ek t)

theorem lastW_acts (kgc : Nat) (k ns ek : Bytes) (hk : k.length < 4294967296) (hn : ns.length ≤ 255) :
    ∀ (acts : List Act), (∀ a ∈ acts, a.WF) → ∀ init,
    lastW (acts.flatMap (Act.rawWrites kgc)) (Keys.dbKey kgc k ns ek) init =
      specFold (acts.flatMap Act.lwrites) k ns ek init := by
  intro acts
  induction acts with
  | nil => intro _ init; rfl
  | cons a acts ih =>
    intro hwf init
    simp only [List.flatMap_cons]
    rw [lastW_append, specFold_append, lastW_rawWrites kgc k ns ek hk hn a (hwf a List.mem_cons_self)]
    exact ih (fun a' ha' => hwf a' (List.mem_cons_of_mem _ ha')) _

/-- the value stored under a state key is what the per-key map says -/
theorem get_run (kgc : Nat) (acts : List Act) (hwf : ∀ a ∈ acts, a.WF) (k ns ek : Bytes)
    (hk : k.length < 4294967296) (hn : ns.length ≤ 255) :
    KV.get (run kgc [] acts) (Keys.dbKey kgc k ns ek) = specLookup (acts.flatMap Act.lwrites) k ns ek := by
  rw [run_eq, get_foldl_write _ _ List.Pairwise.nil, specLookup_eq]
  exact lastW_acts kgc k ns ek hk hn acts hwf _

/-- every raw write is a timer key or the composite key of a well-formed mutation -/
theorem rawWrites_shape (kgc : Nat) (acts : List Act) (hwf : ∀ a ∈ acts, a.WF)
    (w : Bytes × Option Bytes) (hw : w ∈ acts.flatMap (Act.rawWrites kgc)) :
    (∃ subj t, w.1 = Keys.timerKey kgc subj t) ∨
    (∃ lw : LWrite, lw.WF ∧ w.1 = Keys.dbKey kgc lw.1 lw.2.1 lw.2.2.1) := by
  obtain ⟨a, ha, hwa⟩ := List.mem_flatMap.mp hw
  cases a with
  | apply subj nss =>
    simp only [Act.rawWrites, List.mem_map] at hwa
    obtain ⟨lw, hlw, e⟩ := hwa
    exact Or.inr ⟨lw, hwf _ ha lw hlw, by rw [← e]; rfl⟩
  | timerPut subj t =>
    simp only [Act.rawWrites, List.mem_singleton] at hwa
    exact Or.inl ⟨subj, t, by rw [hwa]⟩
  | timerDel subj t =>
    simp only [Act.rawWrites, List.mem_singleton] at hwa
    exact Or.inl ⟨subj, t, by rw [hwa]⟩

/-- what a prefix scan for subject key `k` can return: only state entries of `k`, with the map's value -/
theorem scan_char (kgc : Nat) (acts : List Act) (hwf : ∀ a ∈ acts, a.WF) (k : Bytes) (hk : k.length < 4294967296)
    (dk v : Bytes) (h : (dk, v) ∈ (run kgc [] acts).scan (Keys.subjectKey kgc k)) :
    ∃ ns ek, ns.length ≤ 255 ∧ dk = Keys.dbKey kgc k ns ek ∧
      specLookup (acts.flatMap Act.lwrites) k ns ek = some v := by
  simp only [KV.scan, List.mem_filter] at h
  obtain ⟨hmem, hpre⟩ := h
  have hget := (KV.mem_iff_get (run_sorted kgc acts) dk v).mp hmem
  have hget' := hget
  rw [run_eq, get_foldl_write _ _ List.Pairwise.nil] at hget'
  rcases lastW_some_mem _ dk v _ hget' with h0 | ⟨w, hw, hwk⟩
  · simp [KV.get] at h0
  · rcases rawWrites_shape kgc acts hwf w hw with ⟨subj, t, e⟩ | ⟨lw, hlw, e⟩
    · rw [← hwk, e, timer_not_state] at hpre
      cases hpre
    · rw [← hwk, e, dbKey_eq] at hpre
      have hkk := (subject_prefix_free' kgc k lw.1 _ hk hlw.1).mp hpre
      have hdk : dk = Keys.dbKey kgc k lw.2.1 lw.2.2.1 := by rw [← hwk, e, hkk]
      refine ⟨lw.2.1, lw.2.2.1, hlw.2, hdk, ?_⟩
      rw [← get_run kgc acts hwf k lw.2.1 lw.2.2.1 hk hlw.2, ← hdk]
      exact hget

theorem specFold_some_mem (k ns ek v : Bytes) : ∀ (ws : List LWrite) (init : Option Bytes),
    specFold ws k ns ek init = some v → init = some v ∨ ∃ w ∈ ws, w.1 = k ∧ w.2.1 = ns := by
  intro ws
  induction ws with
  | nil => intro init h; exact Or.inl h
  | cons w ws ih =>
    intro init h
    simp only [specFold, List.foldl_cons] at h
    by_cases hc : w.1 = k ∧ w.2.1 = ns ∧ w.2.2.1 = ek
    · exact Or.inr ⟨w, List.mem_cons_self, hc.1, hc.2.1⟩
    · rw [if_neg hc] at h
      rcases ih init h with h | ⟨w', hm, hk⟩
      · exact Or.inl h
      · exact Or.inr ⟨w', List.mem_cons_of_mem _ hm, hk⟩

/-- the decoded scan: exactly the live entries of the key's map -/
theorem decoded_mem (kgc : Nat) (acts : List Act) (hwf : ∀ a ∈ acts, a.WF) (k : Bytes) (hk : k.length < 4294967296)
    (ns ek v : Bytes) :
    (ns, ek, v) ∈ decoded kgc (run kgc [] acts) k ↔ specLookup (acts.flatMap Act.lwrites) k ns ek = some v := by
  constructor
  · intro h
    simp only [decoded, decodedOf, List.mem_map] at h
    obtain ⟨⟨dk, v'⟩, hmem, he⟩ := h
    obtain ⟨ns', ek', hn', hdk, hspec⟩ := scan_char kgc acts hwf k hk dk v' hmem
    simp only [hdk, decode_dbKey kgc k ns' ek' hk hn', Prod.mk.injEq] at he
    obtain ⟨e1, e2, e3⟩ := he
    subst e1 e2 e3
    exact hspec
  · intro h
    have hn : ns.length ≤ 255 := by
      rw [specLookup_eq] at h
      rcases specFold_some_mem k ns ek v _ _ h with h0 | ⟨w, hw, _, hwn⟩
      · cases h0
      · obtain ⟨a, ha, hwa⟩ := List.mem_flatMap.mp hw
        rw [← hwn]; exact (hwf a ha w hwa).2
    have hget := get_run kgc acts hwf k ns ek hk hn
    rw [h] at hget
    have hmem := (KV.mem_iff_get (run_sorted kgc acts) _ v).mpr hget
    simp only [decoded, decodedOf, List.mem_map]
    refine ⟨(Keys.dbKey kgc k ns ek, v), ?_, ?_⟩
    · simp only [KV.scan, List.mem_filter]
      exact ⟨hmem, by rw [dbKey_eq]; exact hasPrefix_append _ _⟩
    · simp only [decode_dbKey kgc k ns ek hk hn]

theorem decoded_sorted (kgc : Nat) (acts : List Act) (hwf : ∀ a ∈ acts, a.WF) (k : Bytes) (hk : k.length < 4294967296) :
    (∀ x ∈ decoded kgc (run kgc [] acts) k, x.1.length ≤ 255) ∧
    (decoded kgc (run kgc [] acts) k).Pairwise (fun a b => cmp (entKey a) (entKey b) = .lt) := by
  constructor
  · intro x hx
    simp only [decoded, decodedOf, List.mem_map] at hx
    obtain ⟨⟨dk, v'⟩, hmem, he⟩ := hx
    obtain ⟨ns', ek', hn', hdk, _⟩ := scan_char kgc acts hwf k hk dk v' hmem
    simp only [hdk, decode_dbKey kgc k ns' ek' hk hn'] at he
    rw [← he]; exact hn'
  · simp only [decoded, decodedOf]
    rw [List.pairwise_map]
    have hs : ((run kgc [] acts).scan (Keys.subjectKey kgc k)).Pairwise (fun a b => cmp a.1 b.1 = .lt) :=
      List.Pairwise.filter _ (run_sorted kgc acts)
    refine List.Pairwise.imp_of_mem ?_ hs
    intro a b ha hb hab
    obtain ⟨na, ea, hna, hda, _⟩ := scan_char kgc acts hwf k hk a.1 a.2 ha
    obtain ⟨nb, eb, hnb, hdb, _⟩ := scan_char kgc acts hwf k hk b.1 b.2 hb
    simp only [hda, hdb, decode_dbKey kgc k _ _ hk hna, decode_dbKey kgc k _ _ hk hnb, entKey]
    rw [hda, hdb, dbKey_eq, dbKey_eq, cmp_append_left] at hab
    exact hab

/-- `GetState` after any well-formed history is the key's map, grouped by namespace -/
theorem getState_matches (kgc : Nat) (acts : List Act) (hwf : ∀ a ∈ acts, a.WF) (k : Bytes) (hk : k.length < 4294967296) :
    Matches (getState kgc (run kgc [] acts) k) (specLookup (acts.flatMap Act.lwrites) k) := by
  obtain ⟨hlen, hsorted⟩ := decoded_sorted kgc acts hwf k hk
  obtain ⟨hp, he⟩ := group_ok _ hlen hsorted
  refine ⟨?_, hp, group_nonempty _, he⟩
  intro ns ek v
  rw [← decoded_mem kgc acts hwf k hk ns ek v]
  exact inGroups_group _ ns ek v

/-! ## batches -/

theorem distinctKeys_mem (l : List Bytes) (k : Bytes) : k ∈ distinctKeys l ↔ k ∈ l := by
  induction l with
  | nil => simp [distinctKeys]
  | cons x xs ih =>
    simp only [distinctKeys, List.mem_cons, List.mem_filter, ih, decide_eq_true_eq]
    constructor
    · rintro (h | ⟨h, _⟩)
      · exact Or.inl h
      · exact Or.inr h
    · intro h
      by_cases hx : k = x
      · exact Or.inl hx
      · rcases h with h | h
        · exact absurd h hx
        · exact Or.inr ⟨h, hx⟩

theorem distinctKeys_nodup (l : List Bytes) : (distinctKeys l).Nodup := by
  induction l with
  | nil => simp [distinctKeys]
  | cons x xs ih =>
    simp only [distinctKeys, List.nodup_cons, List.mem_filter, decide_eq_true_eq, ne_eq, not_true_eq_false, and_false,
      not_false_eq_true, true_and]
    exact ih.filter _

/-- everything written to the database before the state fetch of invocation `i` -/
def histBefore (bs : List Batch) (i : Nat) : List Act :=
  (bs.take i).flatMap Batch.acts ++ (bs.getD i default).firedActs

theorem processBatch_fst (kgc : Nat) (kv : KV) (b : Batch) : (processBatch kgc kv b).1 = run kgc kv b.acts := by
  simp [processBatch, Batch.acts, run_append]

theorem runBatches_get (kgc : Nat) : ∀ (bs : List Batch) (pre : List Act) (i : Nat) (b : Batch), bs[i]? = some b →
    (runBatches kgc (run kgc [] pre) bs)[i]? =
      some ((distinctKeys b.events).map (fun k => (k, getState kgc (run kgc [] (pre ++ histBefore bs i)) k))) := by
  intro bs
  induction bs with
  | nil => intro pre i b h; simp at h
  | cons b0 bs ih =>
    intro pre i b h
    cases i with
    | zero =>
      simp only [List.getElem?_cons_zero, Option.some.injEq] at h
      subst h
      simp [runBatches, processBatch, histBefore, run_append]
    | succ i =>
      simp only [List.getElem?_cons_succ] at h
      simp only [runBatches, List.getElem?_cons_succ, processBatch_fst]
      rw [← run_append, ih (pre ++ b0.acts) i b h]
      simp [histBefore, List.append_assoc]

theorem firedActs_lwrites (b : Batch) : b.firedActs.flatMap Act.lwrites = [] := by
  simp only [Batch.firedActs, List.flatMap_map]
  induction b.fired with
  | nil => rfl
  | cons f fs _ => simp [List.flatMap_cons, Act.lwrites]

/-- the state mutations of one key result, in application order -/
def KeyResult.lwrites (kr : KeyResult) : List LWrite := kr.muts.flatMap (nsWrites kr.key)

theorem keyResult_acts_lwrites (kr : KeyResult) : kr.acts.flatMap Act.lwrites = kr.lwrites := by
  simp only [KeyResult.acts, List.flatMap_append, List.flatMap_map, List.flatMap_cons, List.flatMap_nil,
    List.append_nil, Act.lwrites, KeyResult.lwrites]
  have : (kr.timers.flatMap fun t => (Act.timerPut kr.key t).lwrites) = [] := by
    induction kr.timers with
    | nil => rfl
    | cons t ts ih => simp [List.flatMap_cons, Act.lwrites]
  simp only [Act.lwrites] at this
  rw [this, List.nil_append]

theorem batch_acts_lwrites (b : Batch) : b.acts.flatMap Act.lwrites = b.resp.flatMap KeyResult.lwrites := by
  simp only [Batch.acts, List.flatMap_append, firedActs_lwrites, List.nil_append, Batch.respActs]
  induction b.resp with
  | nil => rfl
  | cons kr krs ih => simp only [List.flatMap_cons, List.flatMap_append, keyResult_acts_lwrites, ih]

/-- all state mutations returned by the invocations before `i`, in invocation order and result order -/
def mutsBefore (bs : List Batch) (i : Nat) : List LWrite :=
  (bs.take i).flatMap (fun b => b.resp.flatMap KeyResult.lwrites)

theorem histBefore_lwrites (bs : List Batch) (i : Nat) : (histBefore bs i).flatMap Act.lwrites = mutsBefore bs i := by
  simp only [histBefore, List.flatMap_append, firedActs_lwrites, List.append_nil, mutsBefore]
  induction bs.take i with
  | nil => rfl
  | cons b rest ih => simp only [List.flatMap_cons, List.flatMap_append, batch_acts_lwrites, ih]

def Batch.WF (b : Batch) : Prop :=
  (∀ k ∈ b.events, k.length < 4294967296) ∧ ∀ kr ∈ b.resp, ∀ w ∈ kr.lwrites, LWrite.WF w

theorem batch_acts_wf (b : Batch) (h : b.WF) : ∀ a ∈ b.acts, a.WF := by
  intro a ha
  simp only [Batch.acts, List.mem_append, Batch.firedActs, Batch.respActs, List.mem_map, List.mem_flatMap] at ha
  rcases ha with ⟨f, _, e⟩ | ⟨kr, hkr, hakr⟩
  · subst e; intro w hw; simp [Act.lwrites] at hw
  · simp only [KeyResult.acts, List.mem_append, List.mem_map, List.mem_singleton] at hakr
    rcases hakr with ⟨t, _, e⟩ | e
    · subst e; intro w hw; simp [Act.lwrites] at hw
    · subst e; intro w hw; exact h.2 kr hkr w hw

theorem histBefore_wf (bs : List Batch) (hwf : ∀ b ∈ bs, b.WF) (i : Nat) : ∀ a ∈ histBefore bs i, a.WF := by
  intro a ha
  simp only [histBefore, List.mem_append, List.mem_flatMap] at ha
  rcases ha with ⟨b, hb, hab⟩ | ha
  · exact batch_acts_wf b (hwf b (List.mem_of_mem_take hb)) a hab
  · simp only [Batch.firedActs, List.mem_map] at ha
    obtain ⟨f, _, e⟩ := ha
    subst e; intro w hw; simp [Act.lwrites] at hw

/-! ## checkpoint and restore -/

theorem batches_lwrites (bs : List Batch) :
    (bs.flatMap Batch.acts).flatMap Act.lwrites = bs.flatMap (fun b => b.resp.flatMap KeyResult.lwrites) := by
  induction bs with
  | nil => rfl
  | cons b rest ih => simp only [List.flatMap_cons, List.flatMap_append, batch_acts_lwrites, ih]

/-- the database and every retained checkpoint are the replays of their effective invocations -/
def OpInv (kgc : Nat) (s : OpState) (e : Eff) : Prop :=
  s.kv = run kgc [] (e.1.flatMap Batch.acts) ∧
  s.saved = e.2.map (fun p => (p.1, run kgc [] (p.2.flatMap Batch.acts)))

theorem opInv_init (kgc : Nat) : OpInv kgc {} ([], []) := ⟨rfl, rfl⟩

theorem lookupCkpt_map {α β : Type} (f : α → β) (l : List (Nat × α)) (id : Nat) :
    lookupCkpt (l.map (fun p => (p.1, f p.2))) id = (lookupCkpt l id).map f := by
  induction l with
  | nil => rfl
  | cons x xs ih =>
    simp only [lookupCkpt, List.map_cons, List.find?_cons] at ih ⊢
    by_cases h : (x.1 == id) = true
    · simp [h]
    · simp only [h]; exact ih

theorem keepOnly_map {α β : Type} (f : α → β) (l : List (Nat × α)) (id : Nat) :
    keepOnly (l.map (fun p => (p.1, f p.2))) id = (keepOnly l id).map (fun p => (p.1, f p.2)) := by
  induction l with
  | nil => rfl
  | cons x xs ih =>
    simp only [keepOnly, List.map_cons, List.filter_cons] at ih ⊢
    by_cases h : (x.1 == id) = true
    · simp [h, ih]
    · simp [h, ih]

theorem opInv_step (kgc : Nat) (s : OpState) (e : Eff) (x : OpStep)
    (h : OpInv kgc s e) : OpInv kgc (opStep kgc s x).1 (effStep e x) := by
  obtain ⟨h1, h2⟩ := h
  cases x with
  | batch b =>
    refine ⟨?_, h2⟩
    simp only [opStep, effStep, processBatch_fst, h1, List.flatMap_append, List.flatMap_cons, List.flatMap_nil,
      List.append_nil, run_append]
  | ckpt id => exact ⟨h1, by simp [opStep, effStep, h1, h2]⟩
  | restore id =>
    have hl := lookupCkpt_map (fun bs : List Batch => run kgc [] (bs.flatMap Batch.acts)) e.2 id
    have hk := keepOnly_map (fun bs : List Batch => run kgc [] (bs.flatMap Batch.acts)) e.2 id
    constructor
    · show (lookupCkpt s.saved id).getD [] = _
      rw [h2, hl]
      simp only [effStep]
      cases lookupCkpt e.2 id <;> rfl
    · show keepOnly s.saved id = _
      rw [h2, hk]
      rfl

theorem runOps_get (kgc : Nat) : ∀ (steps : List OpStep) (s : OpState) (e : Eff),
    OpInv kgc s e → ∀ (i : Nat) (b : Batch), steps[i]? = some (.batch b) →
    (runOps kgc s steps)[i]? = some (some ((distinctKeys b.events).map (fun k =>
      (k, getState kgc (run kgc [] (((steps.take i).foldl effStep e).1.flatMap Batch.acts ++ b.firedActs)) k)))) := by
  intro steps
  induction steps with
  | nil => intro s e _ i b h; simp at h
  | cons x xs ih =>
    intro s e hinv i b h
    cases i with
    | zero =>
      simp only [List.getElem?_cons_zero, Option.some.injEq] at h
      subst h
      simp only [runOps, List.getElem?_cons_zero, opStep, processBatch, List.take_zero, List.foldl_nil, hinv.1,
        run_append]
    | succ i =>
      simp only [List.getElem?_cons_succ] at h
      simp only [runOps, List.getElem?_cons_succ, List.take_succ_cons, List.foldl_cons]
      exact ih _ _ (opInv_step kgc s e x hinv) i b h

theorem lookupCkpt_mem {α : Type} {l : List (Nat × α)} {id : Nat} {a : α} (h : lookupCkpt l id = some a) :
    ∃ p ∈ l, p.2 = a := by
  simp only [lookupCkpt, Option.map_eq_some_iff] at h
  obtain ⟨p, hp, e⟩ := h
  exact ⟨p, List.mem_of_find?_eq_some hp, e⟩

/-- a predicate on batches holds for every effective invocation when it holds for every invocation of the history -/
theorem eff_all (P : Batch → Prop) : ∀ (steps : List OpStep) (e : Eff),
    (∀ b ∈ e.1, P b) → (∀ p ∈ e.2, ∀ b ∈ p.2, P b) → (∀ b, OpStep.batch b ∈ steps → P b) →
    ∀ b ∈ (steps.foldl effStep e).1, P b := by
  intro steps
  induction steps with
  | nil => intro e h1 _ _; exact h1
  | cons x xs ih =>
    intro e h1 h2 h3
    simp only [List.foldl_cons]
    apply ih
    · cases x with
      | batch b0 =>
        intro b hb
        simp only [effStep, List.mem_append, List.mem_singleton] at hb
        rcases hb with hb | hb
        · exact h1 b hb
        · subst hb; exact h3 b List.mem_cons_self
      | ckpt id => exact h1
      | restore id =>
        intro b hb
        simp only [effStep] at hb
        cases he : lookupCkpt e.2 id with
        | none => simp [he] at hb
        | some bs =>
          rw [he] at hb
          obtain ⟨p, hp, e2⟩ := lookupCkpt_mem he
          exact h2 p hp b (by rw [e2]; exact hb)
    · cases x with
      | batch b0 => exact h2
      | ckpt id =>
        intro p hp b hb
        simp only [effStep, List.mem_cons] at hp
        rcases hp with hp | hp
        · subst hp; exact h1 b hb
        · exact h2 p hp b hb
      | restore id =>
        intro p hp b hb
        simp only [effStep, keepOnly, List.mem_filter] at hp
        exact h2 p hp.1 b hb
    · intro b hb; exact h3 b (List.mem_cons_of_mem _ hb)

end Rxn.KeyedState
