import RxnModel.Proofs.Files
/-!
One-step facts about the C09 model (`Model/Files.lean`): unfoldings of `decision`, `keeps`, `needsTable`, `step`.
They were property theorems once; the property theorems (`Props/C09.lean`) are the statements about whole histories
that are built from them.
-/
namespace Rxn.Files
open Rxn

/-- a checkpoint is kept exactly if its id is listed or it is newer than every listed id -/
theorem keeps_iff (ids : List Nat) (c : Ckpt) : keeps ids c = true ↔ c.id ∈ ids ∨ ids.foldl max 0 < c.id := by
  simp [keeps]

/-- `Checkpoint.NextWALID` (`c09NextWalIsMax`): the number of the first WAL a restored instance writes is larger than
the number of EVERY WAL handle of the loaded checkpoint, whatever the order of the handles. -/
theorem next_wal_above_all_handles (ws : List Wal) : ∀ w ∈ ws, w.num < nextWalId ws :=
  nextWalId_gt ws

/-- Sealing a WAL at a checkpoint removes no table file and no WAL file with another name. Any number of instances. -/
theorem sealed_wal_overwrites_only_its_name (s s' : State) (i id : Nat) (wal : Wal)
    (h : step s (.ckpt i id wal) = some s') :
    ∀ f ∈ s.files, (∀ v, f = .wal v → wal.same v = false) → f ∈ s'.files := by
  simp only [step] at h
  split at h
  · simp at h
  · split at h
    · injection h with h; subst h
      intro f hf hv
      exact List.mem_cons_of_mem _ (mem_clobber.mpr ⟨hf, hv⟩)
    · simp at h

/-- A cleanup runs only for an unreachable object, can remove only that object's file, and removes it only if the
object was written by the instance itself or the ownership rule said delete. Any number of instances. -/
theorem collect_deletes_only_unreachable (s s' : State) (i : Nat) (u : Path) (answers : List Ans) (x : Inst)
    (hx : s.insts[i]? = some x) (h : step s (.collect i u answers) = some s') :
    x.unreachable u = true ∧ (∀ f ∈ s.files, f ≠ .sst u → f ∈ s'.files) ∧
    (.sst u ∈ s.files → .sst u ∉ s'.files → u ∈ x.created ∨
      ∃ t ∈ x.loaded, t.uri = u ∧ decision x.range t (x.nbrs.zip answers) = .delete) :=
  let ⟨a, b, _, d⟩ := collect_effect hx h
  ⟨a, b, d⟩

/-- For a running instance "unreachable" means: in no level list the instance holds — not the current one, not one
captured by a checkpoint in its list, not a snapshot of a reader or compaction. -/
theorem unreachable_alive (x : Inst) (u : Path) (hl : x.life = .alive) (h : x.unreachable u = true) :
    u ∉ uris x.current ∧ (∀ c ∈ x.ckpts, u ∉ uris c.tables) ∧ ∀ sn ∈ x.snaps, u ∉ uris sn := by
  have hr : x.refs u = false := by simpa [Inst.unreachable, hl] using h
  refine ⟨?_, ?_, ?_⟩
  · intro hu; rw [refs_iff.mpr (Or.inl hu)] at hr; cases hr
  · intro c hc hu; rw [refs_iff.mpr (Or.inr (Or.inl ⟨c, hc, hu⟩))] at hr; cases hr
  · intro sn hsn hu; rw [refs_iff.mpr (Or.inr (Or.inr ⟨sn, hsn, hu⟩))] at hr; cases hr

/-- A table loaded from a checkpoint document whose key-group span is not inside the operator's own range is deleted
only if every neighbour whose range overlaps the table answered a definite "no". -/
theorem shared_table_needs_all_no (own : KGRange) (t : Tbl) (nbrs : List (KGRange × Ans))
    (hnc : Gen.kgContains own t.span = false) (h : decision own t nbrs = .delete) :
    ∀ ra ∈ nbrs, Gen.kgOverlaps ra.1 t.span = true → ra.2 = .no := by
  rcases decision_delete_cases own t nbrs h with hc | hall
  · rw [hc] at hnc; cases hnc
  · exact hall

/-- error ⇒ keep: if a neighbour whose range overlaps a shared table could not be asked (error) or does not answer
(timeout), collecting the table object never deletes the file. (D9, repaired: `c09OwnsErrKeeps`.) -/
theorem error_means_keep_step (s s' : State) (i : Nat) (u : Path) (answers : List Ans) (x : Inst)
    (hx : s.insts[i]? = some x) (h : step s (.collect i u answers) = some s')
    (hload : u ∉ x.created)
    (hbad : ∀ t ∈ x.loaded, t.uri = u → Gen.kgContains x.range t.span = false ∧
      ∃ ra ∈ x.nbrs.zip answers, Gen.kgOverlaps ra.1 t.span = true ∧ (ra.2 = .err ∨ ra.2 = .hang))
    (hin : .sst u ∈ s.files) : .sst u ∈ s'.files := by
  obtain ⟨_, _, _, hd⟩ := collect_effect hx h
  by_cases hout : File.sst u ∈ s'.files
  · exact hout
  · rcases hd hin hout with hc | ⟨t, ht, hu, hdel⟩
    · exact absurd hc hload
    · obtain ⟨hnc, ra, hra, ho, hans⟩ := hbad t ht hu
      have hans' : ra.2 = .err ∨ ra.2 = .hang ∨ ra.2 = .needs := by
        rcases hans with e | e
        · exact Or.inl e
        · exact Or.inr (Or.inl e)
      exact absurd hdel (decision_ne_delete x.range t _ hnc ⟨ra, hra, ho, hans'⟩)

/-- An operator whose redeploy fails (or is still loading) keeps serving the instance it had: nothing it holds
changes, so its `NeedsTable` answers stay what they were (`HandleDeploy` assigns `o.db` only after `dkv.Open`
returned). The correspondence drives a real `operator.Operator` through a failing `HandleDeploy` and asks it through
`HandleNeedsTable` in that window. -/
theorem failed_redeploy_keeps_serving (s s' : State) (i : Nat) (h : step s (.redeployFailed i) = some s') :
    s' = s ∧ ∃ x, s.insts[i]? = some x ∧ x.life = .alive := by
  simp only [step] at h
  split at h
  · simp at h
  · rename_i x hx
    split at h
    · rename_i hl
      injection h with h
      exact ⟨h.symm, x, hx, hl⟩
    · simp at h

/-- the pure rule behind it -/
theorem error_means_keep_rule (own : KGRange) (t : Tbl) (nbrs : List (KGRange × Ans))
    (hnc : Gen.kgContains own t.span = false)
    (h : ∃ ra ∈ nbrs, Gen.kgOverlaps ra.1 t.span = true ∧ (ra.2 = .err ∨ ra.2 = .hang)) :
    decision own t nbrs ≠ .delete := by
  obtain ⟨ra, hra, ho, hans⟩ := h
  refine decision_ne_delete own t nbrs hnc ⟨ra, hra, ho, ?_⟩
  rcases hans with e | e
  · exact Or.inl e
  · exact Or.inr (Or.inl e)

/-- A neighbour's "no" (`DB.NeedsTable = false`) means the table is in none of its retained checkpoints — whether
loaded from a document or taken by the instance itself — and not in its live level list. (D24, repaired:
`c09NeedsChecksLive`, `c09CkptUsesLevels`.) -/
theorem neighbour_no_is_truthful (x : Inst) (u : Path) (h : needsTable x u = false) :
    u ∉ uris x.current ∧ ∀ c ∈ x.ckpts, u ∉ uris c.tables :=
  needsTable_false h

/-- with nothing in between the two reads give the atomic answer -/
theorem needsTable2_same (x : Inst) (u : Path) : needsTable2 x x u = needsTable x u := by
  simp [needsTable2, needsFirst, needsSecond, Facts.c09NeedsLiveFirst, readLive, readCkpts, needsTable, Bool.or_comm]

end Rxn.Files
