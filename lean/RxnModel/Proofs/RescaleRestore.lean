import RxnModel.Proofs.RescaleSeq
import RxnModel.Proofs.RescaleRead
import RxnModel.Proofs.RescaleAssign
/-! Helper lemmas for C06: what a read of an owned key returns after a multi-handle restore. -/
namespace Rxn.Rescale
open Rxn Lsm Rxn.Search

/-! ### the replayed memtable -/

def toDV (w : WalEntry) : Bool × Bytes := (w.del, if w.del then [] else w.val)
def edv (e : Entry) : Bool × Bytes := (e.del, e.val)

theorem edv_wEntry (n : Nat) (k : Bytes) (d : Bool) (v : Bytes) : edv (wEntry n k d v) = (d, if d then [] else v) := by
  cases d <;> rfl

theorem walLast_cons (w : WalEntry) (ws : List WalEntry) (k : Bytes) :
    walLast (w :: ws) k = if w.key = k then some ((walLast ws k).getD w) else walLast ws k := by
  unfold walLast
  by_cases h : w.key = k
  · simp [h, List.getLast?_cons]
  · simp [h]

theorem replay_lookup (own : Bytes → Bool) (k : Bytes) (hown : own k = true) :
    ∀ (wal : List WalEntry) (s : State) (m : Run), s.mems = [m] → s.reading = none →
      ∃ m', (wal.foldl (applyWal own) s).mems = [m'] ∧
        (m'.lookup k).map edv =
          (match walLast wal k with | some w => some (toDV w) | none => (m.lookup k).map edv) := by
  intro wal
  induction wal with
  | nil => intro s m hm _; exact ⟨m, hm, by simp [walLast]⟩
  | cons w ws ih =>
    intro s m hm hr
    simp only [List.foldl_cons]
    by_cases ho : own w.key = true
    · have hs1 : applyWal own s w = { s with seq := s.seq + 1, mems := [Run.insert m (wEntry (s.seq + 1) w.key w.del w.val)] } := by
        unfold applyWal; simp only [ho, if_true]; exact write_single s m hm hr _ _ _
      obtain ⟨m', hm', hl⟩ := ih (applyWal own s w) _ (by rw [hs1]) (by rw [hs1]; exact hr)
      refine ⟨m', hm', ?_⟩
      rw [hl, walLast_cons, lookup_insert, wEntry_key]
      by_cases hk : w.key = k
      · simp only [hk, if_true]
        cases walLast ws k with
        | some w' => simp
        | none => simp [edv_wEntry, toDV]
      · simp only [hk, if_false]
    · have hs1 : applyWal own s w = s := by unfold applyWal; simp [ho]
      have hk : ¬ w.key = k := by intro h; rw [h] at ho; exact ho hown
      obtain ⟨m', hm', hl⟩ := ih s m hm hr
      refine ⟨m', by rw [hs1]; exact hm', ?_⟩
      rw [hl, walLast_cons]; simp [hk]

theorem walLast_append_none (a b : List WalEntry) (k : Bytes) (hb : ∀ w ∈ b, w.key ≠ k) :
    walLast (a ++ b) k = walLast a k := by
  unfold walLast
  have : b.filter (fun w => w.key == k) = [] := by
    rw [List.filter_eq_nil_iff]; intro w hw; simpa using hb w hw
  rw [List.filter_append, this, List.append_nil]

theorem walLast_none_append (a b : List WalEntry) (k : Bytes) (ha : ∀ w ∈ a, w.key ≠ k) :
    walLast (a ++ b) k = walLast b k := by
  unfold walLast
  have : a.filter (fun w => w.key == k) = [] := by
    rw [List.filter_eq_nil_iff]; intro w hw; simpa using ha w hw
  rw [List.filter_append, this, List.nil_append]

/-! ### the composite level list -/

theorem concatLevel_split (x : List Ckpt) (c : Ckpt) (y : List Ckpt) (i : Nat) :
    concatLevel (x ++ c :: y) i = concatLevel x i ++ (c.levels.getD i [] ++ concatLevel y i) := by
  simp [concatLevel]

theorem mem_concatLevel (x : List Ckpt) (i : Nat) (t : Tbl) (h : t ∈ concatLevel x i) :
    ∃ c ∈ x, ∃ l ∈ c.levels, t ∈ l := by
  unfold concatLevel at h
  simp only [List.mem_flatten, List.mem_map] at h
  obtain ⟨l, ⟨c, hc, rfl⟩, ht⟩ := h
  obtain ⟨l1, hl1, ht1⟩ := getD_level_mem c i t ht
  exact ⟨c, hc, l1, hl1, ht1⟩

theorem tblGet_none (t : Tbl) (k : Bytes) (h : t.rangeContainsKey k = false) : t.get k = none := by
  simp [Tbl.get, h]

theorem l0Get_middle (a b c : List Tbl) (k : Bytes) (ha : ∀ t ∈ a, t.get k = none) (hc : ∀ t ∈ c, t.get k = none) :
    l0Get (a ++ (b ++ c)) k = l0Get b k := by
  unfold l0Get
  rw [List.reverse_append, List.reverse_append, List.append_assoc, firstSome_append, firstSome_append]
  rw [firstSome_none _ c.reverse (fun t ht => hc t (List.mem_reverse.mp ht)),
      firstSome_none _ a.reverse (fun t ht => ha t (List.mem_reverse.mp ht))]
  cases firstSome (fun x => x.get k) b.reverse <;> rfl

theorem filter_contains_le_one (l : List Tbl) (k : Bytes) (h : LevelValid l) :
    (l.filter (fun t => t.rangeContainsKey k)).length ≤ 1 := by
  have hp : (l.filter (fun t => t.rangeContainsKey k)).Pairwise (fun _ _ => False) := by
    have := (h.2.filter (fun t => t.rangeContainsKey k))
    refine this.imp_of_mem ?_
    intro t u ht hu hb
    have ct := (contains_iff t k).mp (List.mem_filter.mp ht).2
    have cu := (contains_iff u k).mp (List.mem_filter.mp hu).2
    -- start u ≤ k ≤ end t < start u
    have h1 : Bytes.cmp k u.startKey = .lt := cmp_le_lt_trans (cmp_flip_le ct.2) hb
    exact cu.1 (Bytes.cmp_lt_iff_gt.mp h1)
  generalize l.filter (fun t => t.rangeContainsKey k) = fl at hp
  match fl, hp with
  | [], _ => simp
  | [_], _ => simp
  | a :: b :: _, hp => exact absurd ((List.pairwise_cons.mp hp).1 b (by simp)) id

theorem perm_short_eq {α : Type} : ∀ (a b : List α), a.Perm b → a.length ≤ 1 → a = b
  | [], b, h, _ => h.nil_eq
  | [x], b, h, _ => (List.singleton_perm.mp h)
  | _ :: _ :: _, _, _, hl => by simp at hl

theorem deepGet_sorted_split (x : List Ckpt) (c : Ckpt) (y : List Ckpt) (i : Nat) (k : Bytes)
    (hx : ∀ t ∈ concatLevel x i, t.rangeContainsKey k = false)
    (hy : ∀ t ∈ concatLevel y i, t.rangeContainsKey k = false)
    (hv : LevelValid (sortLevel (concatLevel (x ++ c :: y) i))) (hc : LevelValid (c.levels.getD i [])) :
    deepGetBS (sortLevel (concatLevel (x ++ c :: y) i)) k = deepGet (c.levels.getD i []) k := by
  rw [deepGetBS_eq _ k hv]
  let p := fun (t : Tbl) => t.rangeContainsKey k
  have hperm : ((sortLevel (concatLevel (x ++ c :: y) i)).filter p).Perm ((c.levels.getD i []).filter p) := by
    have h1 := (List.mergeSort_perm (concatLevel (x ++ c :: y) i) tblLe).filter p
    have h2 : (concatLevel (x ++ c :: y) i).filter p = (c.levels.getD i []).filter p := by
      rw [concatLevel_split, List.filter_append, List.filter_append]
      have e1 : (concatLevel x i).filter p = [] := by
        rw [List.filter_eq_nil_iff]; intro t ht; simp [p, hx t ht]
      have e2 : (concatLevel y i).filter p = [] := by
        rw [List.filter_eq_nil_iff]; intro t ht; simp [p, hy t ht]
      rw [e1, e2]; simp
    rw [← h2]; exact h1
  have heq := perm_short_eq _ _ hperm (filter_contains_le_one _ k hv)
  have hfind : (sortLevel (concatLevel (x ++ c :: y) i)).find? p = (c.levels.getD i []).find? p := by
    rw [← List.head?_filter, ← List.head?_filter, heq]
  unfold deepGet
  show (match (sortLevel (concatLevel (x ++ c :: y) i)).find? p with
    | some t => t.run.lookup k | none => none) = _
  rw [hfind]
  rfl

theorem mergeLevels_of_len (cs : List Ckpt) (n : Nat) (hlen : 2 ≤ cs.length) (hn : ∀ c ∈ cs, c.levels.length = n) :
    mergeLevels cs = (List.range n).map (fun i => if i = 0 then concatLevel cs 0 else sortLevel (concatLevel cs i)) := by
  match cs, hlen, hn with
  | a :: b :: t, _, hn => simp [mergeLevels, hn a]

/-! ### composition -/

/-- what is assumed of every old instance `(range, checkpoint)`: its tables and WAL records only carry key groups of
its own range (this is the condition the open finding D37 violates), its deeper levels are valid, `n` levels -/
structure OldOk (n : Nat) (p : KGRange × Ckpt) : Prop where
  ck : CkptOk p.1 p.2
  wal : ∀ w ∈ p.2.wal, p.1.includes (kgOf w.key) = true
  nlev : p.2.levels.length = n

theorem overlaps_comm (a b : KGRange) : a.overlaps b = b.overlaps a := by
  simp only [KGRange.overlaps, Gen.kgOverlaps, gt_iff_lt]
  exact Bool.and_comm _ _

theorem key_ne_of_disjoint (ra rb : KGRange) (w k : Bytes) (hw : ra.includes (kgOf w) = true)
    (hk : rb.includes (kgOf k) = true) (hd : ra.overlaps rb = false) : w ≠ k := by
  intro h; subst h
  rw [overlaps_of_includes ra rb _ hw hk] at hd; cases hd

theorem openDB_ne (own : Bytes → Bool) (cs : List Ckpt) (h : cs ≠ []) :
    openDB own cs = (cs.flatMap (·.wal)).foldl (applyWal own)
      (startState tblEndSeq (mergeLevels cs)) := by
  cases cs with
  | nil => exact absurd rfl h
  | cons c cs => rfl

theorem levelsGetR_single (c : Ckpt) (r : KGRange) (hc : CkptOk r c) (k : Bytes) :
    levelsGetR c.levels k = levelsGet c.levels k := by
  have hd := hc.deeper
  cases hl : c.levels with
  | nil => rfl
  | cons l0 D =>
    simp only [levelsGetR, levelsGet]
    cases l0Get l0 k with
    | some e => rfl
    | none =>
      simp only
      apply firstSome_congr _ _ D D rfl
      intro i a b ha hb
      rw [ha] at hb; cases hb
      exact deepGetBS_eq a k (hd (i + 1) a (by omega) (by rw [hl]; simpa using ha))

theorem restore_levels (n : Nat) (pre post : List (KGRange × Ckpt)) (rj : KGRange) (cj : Ckpt)
    (hok : ∀ p ∈ pre ++ (rj, cj) :: post, OldOk n p)
    (hdis : (pre ++ (rj, cj) :: post).Pairwise (fun a b => a.1.overlaps b.1 = false))
    (hother : ∀ p ∈ pre ++ post, p.1.overlaps rj = false)
    (k : Bytes) (hlen : 2 ≤ k.length) (hk : rj.includes (kgOf k) = true) :
    levelsGetR (mergeLevels ((pre ++ (rj, cj) :: post).map (·.2))) k = levelsGet cj.levels k := by
  have hj := hok (rj, cj) (by simp)
  -- tables of the other instances never contain the key
  have hno : ∀ (x : List (KGRange × Ckpt)), (∀ p ∈ x, p ∈ pre ++ post) → ∀ i, ∀ t ∈ concatLevel (x.map (·.2)) i,
      t.rangeContainsKey k = false := by
    intro x hx i t ht
    obtain ⟨c, hc, l, hl, htl⟩ := mem_concatLevel _ i t ht
    obtain ⟨p, hp, rfl⟩ := List.mem_map.mp hc
    have hp' := hx p hp
    have hpo : p ∈ pre ++ (rj, cj) :: post := by
      rcases List.mem_append.mp hp' with h | h
      · exact List.mem_append.mpr (Or.inl h)
      · exact List.mem_append.mpr (Or.inr (List.mem_cons_of_mem _ h))
    exact notContains_of_disjoint p.1 rj t (((hok p hpo).ck.tables l hl t htl).1) k hk hlen (hother p hp')
  by_cases hsingle : pre = [] ∧ post = []
  · obtain ⟨rfl, rfl⟩ := hsingle
    simp only [List.nil_append, List.map_cons, List.map_nil, mergeLevels]
    exact levelsGetR_single cj rj hj.ck k
  · have hlen2 : 2 ≤ ((pre ++ (rj, cj) :: post).map (·.2)).length := by
      simp only [List.length_map, List.length_append, List.length_cons]
      cases pre with
      | nil => cases post with
        | nil => exact absurd ⟨rfl, rfl⟩ hsingle
        | cons _ _ => simp
      | cons _ _ => simp only [List.length_cons]; omega
    have hnl : ∀ c ∈ (pre ++ (rj, cj) :: post).map (·.2), c.levels.length = n := by
      intro c hc
      obtain ⟨p, hp, rfl⟩ := List.mem_map.mp hc
      exact (hok p hp).nlev
    rw [mergeLevels_of_len _ n hlen2 hnl]
    have hsplit : (pre ++ (rj, cj) :: post).map (·.2) = pre.map (·.2) ++ cj :: post.map (·.2) := by simp
    have hcjl := hj.nlev
    simp only at hcjl
    cases hl : cj.levels with
    | nil =>
      -- no levels at all: both sides are empty
      rw [hl] at hcjl; simp at hcjl; subst hcjl; rfl
    | cons l0 D =>
      rw [hl] at hcjl
      have hn' : n = D.length + 1 := by simpa using hcjl.symm
      subst hn'
      rw [List.range_succ_eq_map, List.map_cons, List.map_map]
      simp only [levelsGetR, levelsGet, if_true]
      have h0 : l0Get (concatLevel ((pre ++ (rj, cj) :: post).map (·.2)) 0) k = l0Get l0 k := by
        rw [hsplit, concatLevel_split]
        have : cj.levels.getD 0 [] = l0 := by rw [hl]; rfl
        rw [this]
        exact l0Get_middle _ _ _ k
          (fun t ht => tblGet_none t k (hno pre (fun p hp => List.mem_append.mpr (Or.inl hp)) 0 t ht))
          (fun t ht => tblGet_none t k (hno post (fun p hp => List.mem_append.mpr (Or.inr hp)) 0 t ht))
      rw [h0]
      cases l0Get l0 k with
      | some e => rfl
      | none =>
        simp only
        apply firstSome_congr
        · simp
        · intro i a b ha hb
          have hi : i < D.length := by
            have := List.getElem?_eq_some_iff.mp hb; exact this.1
          have ha' : a = sortLevel (concatLevel (pre.map (·.2) ++ cj :: post.map (·.2)) (i + 1)) := by
            simp [List.getElem?_map, List.getElem?_range hi] at ha
            exact ha.symm
          subst ha'
          have hb' : cj.levels.getD (i + 1) [] = b := by
            rw [hl, List.getD_eq_getElem?_getD]; simp [hb]
          have hv : LevelValid (sortLevel (concatLevel ((pre ++ (rj, cj) :: post).map (·.2)) (i + 1))) :=
            sortLevel_valid _ (concatLevel_ok _ (fun p hp => (hok p hp).ck) (i + 1))
              (concatLevel_sep _ (fun p hp => (hok p hp).ck) hdis (i + 1) (by omega))
          have hcv : LevelValid (cj.levels.getD (i + 1) []) := by
            rw [hb']; exact hj.ck.deeper (i + 1) b (by omega) (by rw [hl]; simpa using hb)
          rw [← hb']
          rw [hsplit] at hv
          exact deepGet_sorted_split _ cj _ (i + 1) k
            (hno pre (fun p hp => List.mem_append.mpr (Or.inl hp)) (i + 1))
            (hno post (fun p hp => List.mem_append.mpr (Or.inr hp)) (i + 1)) hv hcv

/-- after restoring any list of old checkpoints (any handle order), a read of an owned key returns what the old
owner of the key's group answered at its checkpoint -/
theorem restore_get (own : Bytes → Bool) (n : Nat) (pre post : List (KGRange × Ckpt)) (rj : KGRange) (cj : Ckpt)
    (hok : ∀ p ∈ pre ++ (rj, cj) :: post, OldOk n p)
    (hdis : (pre ++ (rj, cj) :: post).Pairwise (fun a b => a.1.overlaps b.1 = false))
    (k : Bytes) (hlen : 2 ≤ k.length) (hk : rj.includes (kgOf k) = true) (hown : own k = true) :
    answer (getR (openDB own ((pre ++ (rj, cj) :: post).map (·.2))) k) = ckptAnswer cj k := by
  have hother : ∀ p ∈ pre ++ post, p.1.overlaps rj = false := by
    obtain ⟨_, h2, h3⟩ := List.pairwise_append.mp hdis
    intro p hp
    rcases List.mem_append.mp hp with h | h
    · exact h3 p h (rj, cj) (by simp)
    · rw [overlaps_comm]; exact (List.pairwise_cons.mp h2).1 p h
  have hne : (pre ++ (rj, cj) :: post).map (·.2) ≠ [] := by simp
  rw [openDB_ne own _ hne]
  obtain ⟨m', hm', hlook⟩ := replay_lookup own k hown (((pre ++ (rj, cj) :: post).map (·.2)).flatMap (·.wal))
    (startState tblEndSeq (mergeLevels ((pre ++ (rj, cj) :: post).map (·.2)))) [] rfl rfl
  have hinv : ReplayInv own (mergeLevels ((pre ++ (rj, cj) :: post).map (·.2)))
      (latestSeq (mergeLevels ((pre ++ (rj, cj) :: post).map (·.2))))
      (startState tblEndSeq (mergeLevels ((pre ++ (rj, cj) :: post).map (·.2)))) :=
    ⟨⟨[], rfl, by simp⟩, rfl, Nat.le_refl _, rfl⟩
  have hlev := (foldl_applyWal_inv own _ _
    (((pre ++ (rj, cj) :: post).map (·.2)).flatMap (·.wal)) _ hinv).levels
  -- the last record for `k` in the concatenated WALs is the old owner's
  have hwal : walLast (((pre ++ (rj, cj) :: post).map (·.2)).flatMap (·.wal)) k = walLast cj.wal k := by
    have hw : ∀ (x : List (KGRange × Ckpt)), (∀ p ∈ x, p ∈ pre ++ post) → ∀ w ∈ (x.map (·.2)).flatMap (·.wal), w.key ≠ k := by
      intro x hx w hw
      obtain ⟨c, hc, hwc⟩ := List.mem_flatMap.mp hw
      obtain ⟨p, hp, rfl⟩ := List.mem_map.mp hc
      have hp' := hx p hp
      have hpo : p ∈ pre ++ (rj, cj) :: post := by
        rcases List.mem_append.mp hp' with h | h
        · exact List.mem_append.mpr (Or.inl h)
        · exact List.mem_append.mpr (Or.inr (List.mem_cons_of_mem _ h))
      exact key_ne_of_disjoint p.1 rj w.key k ((hok p hpo).wal w hwc) hk (hother p hp')
    simp only [List.map_append, List.map_cons, List.flatMap_append, List.flatMap_cons]
    rw [walLast_none_append _ _ k (hw pre (fun p hp => List.mem_append.mpr (Or.inl hp))),
        walLast_append_none _ _ k (hw post (fun p hp => List.mem_append.mpr (Or.inr hp)))]
  rw [hwal] at hlook
  unfold getR
  rw [hm', hlev]
  simp only [memGet, List.reverse_cons, List.reverse_nil, List.nil_append, firstSome]
  unfold ckptAnswer
  cases hwl : walLast cj.wal k with
  | some w =>
    simp only [hwl] at hlook
    cases hml : m'.lookup k with
    | none => simp [hml] at hlook
    | some e =>
      simp only [hml, Option.map_some, Option.some.injEq] at hlook
      simp only [edv, toDV, Prod.mk.injEq] at hlook
      obtain ⟨h1, h2⟩ := hlook
      simp only [answer, h1]
      cases hd : w.del with
      | true => simp
      | false => simp [hd] at h2; simp [h2]
  | none =>
    simp only [hwl, Run.lookup, Option.map_none] at hlook
    cases hml : m'.lookup k with
    | some e => simp [hml] at hlook
    | none =>
      simp only
      rw [restore_levels n pre post rj cj hok hdis hother k hlen hk]

/-! ### level 0 of the composite keeps every handle's age order -/

/-- level 0 of the composite checkpoint is the handles' level-0 lists appended in handle order, unsorted: the tables
of one handle stay a contiguous block in their stored (oldest-first) order -/
theorem mergeLevels_level0 (cs : List Ckpt) (n : Nat) (hn : 1 ≤ n) (hne : cs ≠ [])
    (hnl : ∀ c ∈ cs, c.levels.length = n) : (mergeLevels cs)[0]? = some (concatLevel cs 0) := by
  match cs, hne, hnl with
  | [c], _, hnl =>
    have hl := hnl c (by simp)
    cases hlv : c.levels with
    | nil => rw [hlv] at hl; simp at hl; omega
    | cons l0 D => simp [mergeLevels, concatLevel, hlv]
  | a :: b :: t, _, hnl =>
    rw [mergeLevels_of_len (a :: b :: t) n (by simp) hnl]
    cases n with
    | zero => omega
    | succ m => simp [List.range_succ_eq_map]

/-- tables of instances whose key-group range does not contain the key's group never contain the key -/
theorem other_tables_miss (n : Nat) (x : List (KGRange × Ckpt)) (rj : KGRange)
    (hok : ∀ p ∈ x, OldOk n p) (hother : ∀ p ∈ x, p.1.overlaps rj = false)
    (k : Bytes) (hlen : 2 ≤ k.length) (hk : rj.includes (kgOf k) = true) (i : Nat) :
    ∀ t ∈ concatLevel (x.map (·.2)) i, t.rangeContainsKey k = false := by
  intro t ht
  obtain ⟨c, hc, l, hl, htl⟩ := mem_concatLevel _ i t ht
  obtain ⟨p, hp, rfl⟩ := List.mem_map.mp hc
  exact notContains_of_disjoint p.1 rj t (((hok p hp).ck.tables l hl t htl).1) k hk hlen (hother p hp)

/-- the newest-first level-0 lookup of the composite answers from the key's old owner: its tables are visited in
their own age order, the other handles' tables (before or after them) cannot hold the key -/
theorem restore_level0 (n : Nat) (pre post : List (KGRange × Ckpt)) (rj : KGRange) (cj : Ckpt)
    (hpre : ∀ p ∈ pre, OldOk n p ∧ p.1.overlaps rj = false) (hpost : ∀ p ∈ post, OldOk n p ∧ p.1.overlaps rj = false)
    (k : Bytes) (hlen : 2 ≤ k.length) (hk : rj.includes (kgOf k) = true) :
    l0Get (concatLevel ((pre ++ (rj, cj) :: post).map (·.2)) 0) k = l0Get (cj.levels.getD 0 []) k := by
  have hsplit : (pre ++ (rj, cj) :: post).map (·.2) = pre.map (·.2) ++ cj :: post.map (·.2) := by simp
  rw [hsplit, concatLevel_split]
  exact l0Get_middle _ _ _ k
    (fun t ht => tblGet_none t k (other_tables_miss n pre rj (fun p hp => (hpre p hp).1) (fun p hp => (hpre p hp).2) k hlen hk 0 t ht))
    (fun t ht => tblGet_none t k (other_tables_miss n post rj (fun p hp => (hpost p hp).1) (fun p hp => (hpost p hp).2) k hlen hk 0 t ht))

end Rxn.Rescale
