import RxnModel.Model.Publish
import RxnModel.Proofs.Store
/-! Helper lemmas for C13 / C12 (`Model/Publish.lean`). Core only. -/
namespace Rxn.Publish
open Rxn

/-! ### base-64 digits and names -/

theorem undigits_digits (k n : Nat) : undigitsLE (digitsLE k n) = n % 64 ^ k := by
  induction k generalizing n with
  | zero => simp [digitsLE, undigitsLE, Nat.mod_one]
  | succ k ih =>
    simp only [digitsLE, undigitsLE, ih]
    rw [Nat.pow_succ, Nat.mul_comm (64 ^ k) 64, Nat.mod_mul]

theorem digits_length (k n : Nat) : (digitsLE k n).length = k := by
  induction k generalizing n with
  | zero => rfl
  | succ k ih => simp [digitsLE, ih]

theorem digits_lt (k n : Nat) : ∀ d ∈ digitsLE k n, d < 64 := by
  induction k generalizing n with
  | zero => intro d h; simp [digitsLE] at h
  | succ k ih =>
    intro d h
    simp only [digitsLE, List.mem_cons] at h
    rcases h with h | h
    · subst h; exact Nat.mod_lt _ (by decide)
    · exact ih _ d h

theorem val_char_fin : ∀ v : Fin 64, b64urlVal (b64urlChar v.val) = some v.val := by decide

theorem val_char {v : Nat} (h : v < 64) : b64urlVal (b64urlChar v) = some v := val_char_fin ⟨v, h⟩

theorem vals_map_char (ds : List Nat) (h : ∀ d ∈ ds, d < 64) : vals (ds.map b64urlChar) = some ds := by
  induction ds with
  | nil => rfl
  | cons d t ih =>
    have h1 := val_char (h d List.mem_cons_self)
    have h2 := ih (fun x hx => h x (List.mem_cons_of_mem _ hx))
    simp only [List.map_cons, vals, h1, h2]

theorem parse_pathSegment {id : Nat} (h : id ≤ complBase) (hb : complBase * 4 < 64 ^ 11) :
    parseSegment (pathSegment id) = some id := by
  have hlen : (pathSegment id).length = 11 := by simp [pathSegment, digits_length]
  have hlt : ∀ d ∈ (digitsLE 11 ((complBase - id) * 4)).reverse, d < 64 := by
    intro d hd; exact digits_lt _ _ d (List.mem_reverse.mp hd)
  have hv := vals_map_char _ hlt
  unfold parseSegment
  rw [if_pos hlen]
  unfold pathSegment
  rw [hv]
  simp only [List.reverse_reverse, undigits_digits]
  have hx : (complBase - id) * 4 < 64 ^ 11 := by
    have : (complBase - id) * 4 ≤ complBase * 4 := Nat.mul_le_mul_right _ (Nat.sub_le _ _)
    omega
  rw [Nat.mod_eq_of_lt hx, Nat.mul_div_cancel _ (by decide : 0 < 4)]
  congr 1
  omega

theorem stripPrefix_append (p r : Bytes) : stripPrefix (p ++ r) p = some r := by
  induction p with
  | nil => cases r <;> rfl
  | cons a t ih => simp [stripPrefix, ih]

theorem decode_snapName {id : Nat} (h : id ≤ complBase) (hb : complBase * 4 < 64 ^ 11) :
    decodeName (snapName id) = some id := by
  unfold decodeName snapName
  rw [List.append_assoc, stripPrefix_append]
  simp only [List.reverse_append, stripPrefix_append, List.reverse_reverse]
  exact parse_pathSegment h hb

/-! ### maxima and the load loop -/

theorem le_maxL {x : Nat} {l : List Nat} (h : x ∈ l) : x ≤ maxL l := by
  induction l with
  | nil => simp at h
  | cons a t ih =>
    simp only [List.mem_cons] at h
    simp only [maxL]
    rcases h with h | h
    · subst h; exact Nat.le_max_left _ _
    · exact Nat.le_trans (ih h) (Nat.le_max_right _ _)

theorem maxL_mem {l : List Nat} (h : l ≠ []) : maxL l ∈ l := by
  induction l with
  | nil => exact absurd rfl h
  | cons a t ih =>
    simp only [maxL]
    by_cases ht : t = []
    · subst ht; simp [maxL]
    · have := ih ht
      by_cases hm : a ≤ maxL t
      · rw [Nat.max_eq_right hm]; exact List.mem_cons_of_mem _ this
      · rw [Nat.max_eq_left (by omega)]; exact List.mem_cons_self

theorem maxL_le {l : List Nat} {b : Nat} (h : ∀ x ∈ l, x ≤ b) : maxL l ≤ b := by
  induction l with
  | nil => simp [maxL]
  | cons a t ih =>
    simp only [maxL]
    exact Nat.max_le.mpr ⟨h a List.mem_cons_self, ih (fun x hx => h x (List.mem_cons_of_mem _ hx))⟩

theorem loadLoop_some (ids : List Nat) (b : Nat) : loadLoop ids (some b) = some (max b (maxL ids)) := by
  induction ids generalizing b with
  | nil => simp [loadLoop, maxL]
  | cons a t ih =>
    simp only [loadLoop, maxL]
    by_cases h : a > b
    · rw [if_pos h, ih]; congr 1; omega
    · rw [if_neg h, ih]; congr 1; omega

theorem load_eq (ids : List Nat) : load ids = if ids = [] then none else some (maxL ids) := by
  cases ids with
  | nil => rfl
  | cons a t => simp only [load, loadLoop, loadLoop_some, maxL]; simp

theorem load_nil : load [] = none := rfl

theorem load_of_ne {ids : List Nat} (h : ids ≠ []) : load ids = some (maxL ids) := by
  rw [load_eq, if_neg h]

/-! ### last element of a filtered list -/

theorem getLast?_filter_pos {p : Nat → Bool} {l : List Nat} {x : Nat}
    (h : l.getLast? = some x) (hp : p x = true) : (l.filter p).getLast? = some x := by
  induction l with
  | nil => simp at h
  | cons a t ih =>
    cases t with
    | nil =>
      simp at h; subst h; simp [hp]
    | cons b u =>
      have h' : (b :: u).getLast? = some x := by simpa [List.getLast?_cons_cons] using h
      have := ih h'
      by_cases ha : p a = true
      · rw [List.filter_cons_of_pos ha]
        cases hf : (b :: u).filter p with
        | nil => rw [hf] at this; simp at this
        | cons c v => rw [hf] at this; rw [List.getLast?_cons_cons]; exact this
      · rw [List.filter_cons_of_neg ha]; exact this

theorem getLast?_mem {l : List Nat} {x : Nat} (h : l.getLast? = some x) : x ∈ l :=
  List.mem_of_getLast? h

/-! ### the system invariant -/

structure Inv (s : Sys) : Prop where
  store : ∃ hist, Store.Inv hist s.store
  wrFile : ∀ w ∈ s.pub.written, ∃ f ∈ s.pub.files, w ≤ f
  fileWr : ∀ f ∈ s.pub.files, f ∈ s.pub.written
  remLt : ∀ R ∈ s.pub.removes, ∀ k ∈ R, k < maxL s.pub.files
  inflWr : ∀ n, (n, true) ∈ s.pub.inflight → n ∈ s.pub.written
  wrCid : ∀ w ∈ s.pub.written, w ≤ s.store.cid
  inflCid : ∀ e ∈ s.pub.inflight, e.1 ≤ s.store.cid
  curMax : ∀ cur, s.pub.completed.getLast? = some cur → ∀ c ∈ s.pub.completed, c ≤ cur
  compWr : ∀ c ∈ s.pub.completed, c ∈ s.pub.written
  queueSorted : s.pub.notifs.flatten.Pairwise (· < ·)
  notifSorted : s.pub.fifo = true → (s.pub.delivered ++ s.pub.notifs.flatten).Pairwise (· < ·)
  notifLe : ∀ k ∈ s.pub.delivered ++ s.pub.notifs.flatten, ∃ c ∈ s.pub.completed, k ≤ c
  notifWr : ∀ k ∈ s.pub.delivered ++ s.pub.notifs.flatten, k ∈ s.pub.written
  wrFin : ∀ n ∈ s.pub.written, n ∈ s.pub.initial ∨ ∃ snap ∈ s.pub.finished, snap.id = n
  inflFin : ∀ e ∈ s.pub.inflight, ∃ snap ∈ s.pub.finished, snap.id = e.1
  finGood : ∀ snap ∈ s.pub.finished, snap.WF ∧ snap.isComplete = true
  fifoTrue : s.pub.fifo = true
  noSp : s.savepoint = none

theorem Inv.wr_le_max {s : Sys} (hi : Inv s) {w : Nat} (hw : w ∈ s.pub.written) : w ≤ maxL s.pub.files := by
  obtain ⟨f, hf, hle⟩ := hi.wrFile w hw
  exact Nat.le_trans hle (le_maxL hf)

theorem Inv.maxFiles_eq {s : Sys} (hi : Inv s) (h : s.pub.files ≠ []) :
    maxL s.pub.files = maxL s.pub.written := by
  apply Nat.le_antisymm
  · exact le_maxL (hi.fileWr _ (maxL_mem h))
  · exact maxL_le (fun w hw => hi.wr_le_max hw)

theorem Inv.files_ne {s : Sys} (hi : Inv s) (h : s.pub.written ≠ []) : s.pub.files ≠ [] := by
  obtain ⟨f, hf, _⟩ := hi.wrFile _ (maxL_mem h)
  intro he; rw [he] at hf; simp at hf

theorem inv_boot {files written delivered initial : List Nat} {finished : List Store.Snap} {fifo : Bool}
    (h1 : ∀ w ∈ written, ∃ f ∈ files, w ≤ f) (h2 : ∀ f ∈ files, f ∈ written)
    (h3 : fifo = true → delivered.Pairwise (· < ·)) (h4 : ∀ k ∈ delivered, k ∈ written)
    (h5 : ∀ n ∈ written, n ∈ initial ∨ ∃ snap ∈ finished, snap.id = n)
    (h6 : ∀ snap ∈ finished, snap.WF ∧ snap.isComplete = true) (h7 : fifo = true) :
    Inv (boot files written delivered initial finished fifo) := by
  have hmax : ∀ w ∈ written, w ≤ maxL files := by
    intro w hw; obtain ⟨f, hf', hle⟩ := h1 w hw; exact Nat.le_trans hle (le_maxL hf')
  by_cases hf : files = []
  · subst hf
    have hw : written = [] := by
      cases written with
      | nil => rfl
      | cons a t => obtain ⟨f, hf, _⟩ := h1 a List.mem_cons_self; simp at hf
    subst hw
    have hd : delivered = [] := by
      cases delivered with
      | nil => rfl
      | cons a t => have := h4 a List.mem_cons_self; simp at this
    subst hd
    exact {
      store := ⟨[], by intro p hp; simp [boot] at hp⟩
      wrFile := by simp [boot]
      fileWr := by simp [boot]
      remLt := by simp [boot]
      inflWr := by simp [boot]
      wrCid := by simp [boot]
      inflCid := by simp [boot]
      curMax := by simp [boot, load_nil]
      compWr := by simp [boot, load_nil]
      queueSorted := by simp [boot]
      notifSorted := by simp [boot]
      notifLe := by simp [boot]
      notifWr := by simp [boot]
      wrFin := by simp [boot]
      inflFin := by simp [boot]
      finGood := by simpa [boot] using h6
      fifoTrue := by simpa [boot] using h7
      noSp := rfl }
  · have hl := load_of_ne hf
    exact {
      store := ⟨[], by intro p hp; simp [boot] at hp⟩
      wrFile := by simpa [boot] using h1
      fileWr := by simpa [boot] using h2
      remLt := by simp [boot]
      inflWr := by simp [boot]
      wrCid := by simpa [boot, hl] using hmax
      inflCid := by simp [boot]
      curMax := by simp [boot, hl]
      compWr := by simp only [boot, hl, Option.toList_some, List.mem_singleton]; intro c hc; subst hc; exact h2 _ (maxL_mem hf)
      queueSorted := by simp [boot]
      notifSorted := by simpa [boot] using h3
      notifLe := by
        simp only [boot, hl, Option.toList_some, List.flatten_nil, List.append_nil, List.mem_singleton]
        intro k hk
        exact ⟨_, rfl, hmax k (h4 k hk)⟩
      notifWr := by simpa [boot] using h4
      wrFin := by simpa [boot] using h5
      inflFin := by simp [boot]
      finGood := by simpa [boot] using h6
      fifoTrue := by simpa [boot] using h7
      noSp := rfl }

theorem inv_init (files0 : List Nat) : Inv (init files0) :=
  inv_boot (fun w hw => ⟨w, hw, Nat.le_refl _⟩) (fun _ h => h) (by simp) (by simp) (fun n hn => Or.inl hn) (by simp) rfl

/-! ### preservation -/

theorem inv_call {s : Sys} (hi : Inv s) (c : Store.Call) {s' : Sys} {obs : List Obs}
    (h : step s (.call c) = some (s', obs)) : Inv s' := by
  obtain ⟨hist, hs⟩ := hi.store
  obtain ⟨hs', hle, hpub⟩ := Store.step_inv hs c
  simp only [step] at h
  cases hf : (Store.step s.store c).2.2 with
  | none =>
    rw [hf] at h
    simp only [Option.some.injEq, Prod.mk.injEq] at h
    obtain ⟨rfl, _⟩ := h
    exact {
      store := ⟨_, hs'⟩
      wrFile := hi.wrFile
      fileWr := hi.fileWr
      remLt := hi.remLt
      inflWr := hi.inflWr
      wrCid := fun w hw => Nat.le_trans (hi.wrCid w hw) hle
      inflCid := fun e he => Nat.le_trans (hi.inflCid e he) hle
      curMax := hi.curMax
      compWr := hi.compWr
      queueSorted := hi.queueSorted
      notifSorted := hi.notifSorted
      notifLe := hi.notifLe
      notifWr := hi.notifWr
      wrFin := hi.wrFin
      inflFin := hi.inflFin
      finGood := hi.finGood
      fifoTrue := hi.fifoTrue
      noSp := hi.noSp }
  | some snap =>
    rw [hf] at h
    simp only [Option.some.injEq, Prod.mk.injEq] at h
    obtain ⟨rfl, _⟩ := h
    obtain ⟨hgood, hid, hcid, _⟩ := hpub snap hf
    exact {
      store := ⟨_, hs'⟩
      wrFile := hi.wrFile
      fileWr := hi.fileWr
      remLt := hi.remLt
      inflWr := by
        intro n hn
        simp only [List.mem_append, List.mem_singleton, Prod.mk.injEq] at hn
        rcases hn with hn | hn
        · exact hi.inflWr n hn
        · exact absurd hn.2 (by simp)
      wrCid := fun w hw => Nat.le_trans (hi.wrCid w hw) hle
      inflCid := by
        intro e he
        simp only [List.mem_append, List.mem_singleton] at he
        rcases he with he | he
        · exact Nat.le_trans (hi.inflCid e he) hle
        · subst he; simp only; omega
      curMax := hi.curMax
      compWr := hi.compWr
      queueSorted := hi.queueSorted
      notifSorted := hi.notifSorted
      notifLe := hi.notifLe
      notifWr := hi.notifWr
      wrFin := by
        intro n hn
        rcases hi.wrFin n hn with h | ⟨sn, hs, he⟩
        · exact Or.inl h
        · exact Or.inr ⟨sn, List.mem_append_left _ hs, he⟩
      inflFin := by
        intro e he
        simp only [List.mem_append, List.mem_singleton] at he
        rcases he with he | he
        · obtain ⟨sn, hs, heq⟩ := hi.inflFin e he
          exact ⟨sn, List.mem_append_left _ hs, heq⟩
        · subst he; exact ⟨snap, List.mem_append_right _ List.mem_cons_self, rfl⟩
      finGood := by
        intro sn hs
        simp only [List.mem_append, List.mem_singleton] at hs
        rcases hs with hs | hs
        · exact hi.finGood sn hs
        · subst hs; exact ⟨hgood.wf, hgood.complete⟩
      fifoTrue := hi.fifoTrue
      noSp := hi.noSp }

theorem inv_write {s : Sys} (hi : Inv s) (n : Nat) {s' : Sys} {obs : List Obs}
    (h : step s (.write n) = some (s', obs)) : Inv s' := by
  simp only [step] at h
  by_cases hin : (n, false) ∈ s.pub.inflight
  · rw [if_pos hin] at h
    simp only [Option.some.injEq, Prod.mk.injEq] at h
    obtain ⟨rfl, _⟩ := h
    have hsub : ∀ x ∈ s.pub.files, x ∈ n :: s.pub.files.filter (· ≠ n) := by
      intro x hx
      by_cases hxn : x = n
      · subst hxn; exact List.mem_cons_self
      · exact List.mem_cons_of_mem _ (List.mem_filter.mpr ⟨hx, by simpa using hxn⟩)
    have hmono : maxL s.pub.files ≤ maxL (n :: s.pub.files.filter (· ≠ n)) :=
      maxL_le (fun x hx => le_maxL (hsub x hx))
    exact {
      store := hi.store
      wrFile := by
        intro w hw
        simp only [List.mem_cons] at hw
        rcases hw with hw | hw
        · subst hw; exact ⟨w, List.mem_cons_self, Nat.le_refl _⟩
        · obtain ⟨f, hf, hle⟩ := hi.wrFile w hw
          exact ⟨f, hsub f hf, hle⟩
      fileWr := by
        intro f hf
        simp only [List.mem_cons, List.mem_filter] at hf
        rcases hf with hf | hf
        · subst hf; exact List.mem_cons_self
        · exact List.mem_cons_of_mem _ (hi.fileWr f hf.1)
      remLt := fun R hR k hk => Nat.lt_of_lt_of_le (hi.remLt R hR k hk) hmono
      inflWr := by
        intro m hm
        simp only [List.mem_map] at hm
        obtain ⟨e, he, heq⟩ := hm
        by_cases hen : e = (n, false)
        · rw [if_pos hen] at heq
          injection heq with h1 _
          subst h1; exact List.mem_cons_self
        · rw [if_neg hen] at heq
          subst heq
          exact List.mem_cons_of_mem _ (hi.inflWr m he)
      wrCid := by
        intro w hw
        simp only [List.mem_cons] at hw
        rcases hw with hw | hw
        · subst hw; exact hi.inflCid _ hin
        · exact hi.wrCid w hw
      inflCid := by
        intro e he
        simp only [List.mem_map] at he
        obtain ⟨e0, he0, heq⟩ := he
        by_cases hen : e0 = (n, false)
        · rw [if_pos hen] at heq; subst heq; subst hen; exact hi.inflCid (n, false) he0
        · rw [if_neg hen] at heq; subst heq; exact hi.inflCid _ he0
      curMax := hi.curMax
      compWr := fun c hc => List.mem_cons_of_mem _ (hi.compWr c hc)
      queueSorted := hi.queueSorted
      notifSorted := hi.notifSorted
      notifLe := hi.notifLe
      notifWr := fun k hk => List.mem_cons_of_mem _ (hi.notifWr k hk)
      wrFin := by
        intro w hw
        simp only [List.mem_cons] at hw
        rcases hw with hw | hw
        · subst hw; exact Or.inr (hi.inflFin _ hin)
        · exact hi.wrFin w hw
      inflFin := by
        intro e he
        simp only [List.mem_map] at he
        obtain ⟨e0, he0, heq⟩ := he
        by_cases hen : e0 = (n, false)
        · rw [if_pos hen] at heq; subst heq; subst hen; exact hi.inflFin (n, false) he0
        · rw [if_neg hen] at heq; subst heq; exact hi.inflFin _ he0
      finGood := hi.finGood
      fifoTrue := hi.fifoTrue
      noSp := hi.noSp }
  · rw [if_neg hin] at h; exact absurd h (by simp)

theorem inv_lock {s : Sys} (hi : Inv s) (n : Nat) {s' : Sys} {obs : List Obs}
    (h : step s (.lock n) = some (s', obs)) : Inv s' := by
  simp only [step] at h
  by_cases hin : (n, true) ∈ s.pub.inflight
  · rw [if_pos hin] at h
    simp only [lockUpdate, Option.some.injEq, Prod.mk.injEq] at h
    obtain ⟨rfl, _⟩ := h
    have hnw : n ∈ s.pub.written := hi.inflWr n hin
    have hnle : n ≤ maxL s.pub.files := hi.wr_le_max hnw
    exact {
      store := hi.store
      wrFile := hi.wrFile
      fileWr := hi.fileWr
      remLt := by
        intro R hR k hk
        simp only at hR
        by_cases he : (s.pub.completed.filter (· < n)).isEmpty = true
        · rw [if_pos he] at hR; exact hi.remLt R hR k hk
        · rw [if_neg he] at hR
          simp only [List.mem_append, List.mem_singleton] at hR
          rcases hR with hR | hR
          · exact hi.remLt R hR k hk
          · subst hR
            have := (List.mem_filter.mp hk).2
            simp only [decide_eq_true_eq] at this
            show k < maxL s.pub.files
            omega
      inflWr := fun m hm => hi.inflWr m (List.mem_filter.mp hm).1
      wrCid := hi.wrCid
      inflCid := fun e he => hi.inflCid e (List.mem_filter.mp he).1
      curMax := by
        intro cur hcur c hc
        simp only at hcur hc
        cases hnew : s.pub.completed.filter (fun c => decide ¬ c < n) with
        | nil =>
          rw [hnew] at hcur hc
          simp at hcur hc
          omega
        | cons b u =>
          rw [hnew] at hcur hc
          have hb : b ∈ s.pub.completed.filter (fun c => decide ¬ c < n) := by rw [hnew]; exact List.mem_cons_self
          have hbn : ¬ b < n := by simpa using (List.mem_filter.mp hb).2
          -- the old current is the last of the kept ones
          cases hold : s.pub.completed.getLast? with
          | none =>
            have : s.pub.completed = [] := List.getLast?_eq_none_iff.mp hold
            rw [this] at hb; simp at hb
          | some oc =>
            have hocmax := hi.curMax oc hold
            have hboc : b ≤ oc := hocmax b (List.mem_filter.mp hb).1
            have hlast := getLast?_filter_pos (p := fun c => decide ¬ c < n) hold (by simp; omega)
            rw [hnew] at hlast
            rw [List.getLast?_cons_cons] at hcur
            rw [hlast] at hcur
            injection hcur with hcur
            subst hcur
            simp only [List.mem_cons] at hc
            rcases hc with hc | hc | hc
            · omega
            · omega
            · have : c ∈ s.pub.completed.filter (fun c => decide ¬ c < n) := by
                rw [hnew]; exact List.mem_cons_of_mem _ hc
              exact hocmax c (List.mem_filter.mp this).1
      compWr := by
        intro c hc
        simp only [List.mem_cons] at hc
        rcases hc with hc | hc
        · subst hc; exact hnw
        · exact hi.compWr c (List.mem_filter.mp hc).1
      queueSorted := by
        simp only
        split
        · rename_i hd
          simp only [Bool.and_eq_true, Bool.not_eq_true', List.isEmpty_iff] at hd
          rw [List.flatten_append]
          simp only [List.flatten_cons, List.flatten_nil, List.append_nil]
          rw [List.pairwise_append]
          refine ⟨hi.queueSorted, by simp, ?_⟩
          intro a ha b hb
          simp only [List.mem_singleton] at hb
          subst hb
          obtain ⟨c, hc, hle⟩ := hi.notifLe a (List.mem_append_right _ ha)
          have hcn : c < b := by
            by_cases hlt : c < b
            · exact hlt
            · have : c ∈ s.pub.completed.filter (fun c => decide ¬ c < b) :=
                List.mem_filter.mpr ⟨hc, by simpa using hlt⟩
              rw [hd.2] at this; simp at this
          omega
        · exact hi.queueSorted
      notifSorted := by
        intro hfifo
        have hold := hi.notifSorted hfifo
        simp only
        split
        · rename_i hd
          simp only [Bool.and_eq_true, Bool.not_eq_true', List.isEmpty_iff] at hd
          rw [List.flatten_append, ← List.append_assoc]
          simp only [List.flatten_cons, List.flatten_nil, List.append_nil]
          rw [List.pairwise_append]
          refine ⟨hold, by simp, ?_⟩
          intro a ha b hb
          simp only [List.mem_singleton] at hb
          subst hb
          obtain ⟨c, hc, hle⟩ := hi.notifLe a ha
          have hcn : c < b := by
            by_cases hlt : c < b
            · exact hlt
            · have : c ∈ s.pub.completed.filter (fun c => decide ¬ c < b) :=
                List.mem_filter.mpr ⟨hc, by simpa using hlt⟩
              rw [hd.2] at this; simp at this
          omega
        · exact hold
      notifLe := by
        intro k hk
        simp only at hk ⊢
        have hold : k ∈ s.pub.delivered ++ s.pub.notifs.flatten ∨ k = n := by
          split at hk
          · rw [List.flatten_append, ← List.append_assoc] at hk
            simp only [List.flatten_cons, List.flatten_nil, List.append_nil, List.mem_append,
              List.mem_singleton] at hk
            rcases hk with hk | hk
            · exact Or.inl (List.mem_append.mpr hk)
            · exact Or.inr hk
          · exact Or.inl hk
        rcases hold with hk' | hk'
        · obtain ⟨c, hc, hle⟩ := hi.notifLe k hk'
          by_cases hlt : c < n
          · exact ⟨n, List.mem_cons_self, by omega⟩
          · exact ⟨c, List.mem_cons_of_mem _ (List.mem_filter.mpr ⟨hc, by simpa using hlt⟩), hle⟩
        · subst hk'; exact ⟨k, List.mem_cons_self, Nat.le_refl _⟩
      notifWr := by
        intro k hk
        simp only at hk ⊢
        split at hk
        · rw [List.flatten_append, ← List.append_assoc] at hk
          simp only [List.flatten_cons, List.flatten_nil, List.append_nil, List.mem_append,
            List.mem_singleton] at hk
          rcases hk with hk | hk
          · exact hi.notifWr k (List.mem_append.mpr hk)
          · subst hk; exact hnw
        · exact hi.notifWr k hk
      wrFin := hi.wrFin
      inflFin := fun e he => hi.inflFin e (List.mem_filter.mp he).1
      finGood := hi.finGood
      fifoTrue := hi.fifoTrue
      noSp := hi.noSp }
  · rw [if_neg hin] at h; exact absurd h (by simp)

theorem inv_remove {s : Sys} (hi : Inv s) (ids : List Nat) {s' : Sys} {obs : List Obs}
    (h : step s (.remove ids) = some (s', obs)) : Inv s' := by
  simp only [step] at h
  by_cases hin : ids ∈ s.pub.removes
  · rw [if_pos hin] at h
    simp only [Option.some.injEq, Prod.mk.injEq] at h
    obtain ⟨rfl, _⟩ := h
    have hkeep : s.pub.files ≠ [] → maxL s.pub.files ∈ s.pub.files.filter (· ∉ ids) := by
      intro hne
      refine List.mem_filter.mpr ⟨maxL_mem hne, ?_⟩
      simp only [decide_eq_true_eq]
      intro hm
      exact absurd (hi.remLt ids hin _ hm) (Nat.lt_irrefl _)
    have hmaxeq : s.pub.files ≠ [] → maxL (s.pub.files.filter (· ∉ ids)) = maxL s.pub.files := by
      intro hne
      apply Nat.le_antisymm
      · exact maxL_le (fun x hx => le_maxL (List.mem_filter.mp hx).1)
      · exact le_maxL (hkeep hne)
    exact {
      store := hi.store
      wrFile := by
        intro w hw
        obtain ⟨f, hf, _⟩ := hi.wrFile w hw
        have hne : s.pub.files ≠ [] := by intro he; rw [he] at hf; simp at hf
        exact ⟨_, hkeep hne, hi.wr_le_max hw⟩
      fileWr := fun f hf => hi.fileWr f (List.mem_filter.mp hf).1
      remLt := by
        intro R hR k hk
        have hlt := hi.remLt R (List.mem_of_mem_erase hR) k hk
        have hne : s.pub.files ≠ [] := by
          intro he; rw [he] at hlt; simp [maxL] at hlt
        simp only
        rw [hmaxeq hne]; exact hlt
      inflWr := hi.inflWr
      wrCid := hi.wrCid
      inflCid := hi.inflCid
      curMax := hi.curMax
      compWr := hi.compWr
      queueSorted := hi.queueSorted
      notifSorted := hi.notifSorted
      notifLe := hi.notifLe
      notifWr := hi.notifWr
      wrFin := hi.wrFin
      inflFin := hi.inflFin
      finGood := hi.finGood
      fifoTrue := hi.fifoTrue
      noSp := hi.noSp }
  · rw [if_neg hin] at h; exact absurd h (by simp)

theorem mem_eraseIdx_flatten {l : List (List Nat)} {k x : Nat} (h : x ∈ (l.eraseIdx k).flatten) : x ∈ l.flatten := by
  simp only [List.mem_flatten] at h ⊢
  obtain ⟨ids, hids, hx⟩ := h
  exact ⟨ids, List.mem_of_mem_eraseIdx hids, hx⟩

theorem flatten_eraseIdx_sublist (l : List (List Nat)) (k : Nat) : (l.eraseIdx k).flatten.Sublist l.flatten := by
  induction l generalizing k with
  | nil => simp
  | cons a t ih =>
    cases k with
    | zero => simp only [List.eraseIdx_cons_zero, List.flatten_cons]; exact List.sublist_append_right _ _
    | succ k => simp only [List.eraseIdx_cons_succ, List.flatten_cons]; exact List.Sublist.append (List.Sublist.refl _) (ih k)

theorem inv_deliverAt {s : Sys} (hi : Inv s) (k : Nat) (hk : k = 0) {s' : Sys} {obs : List Obs}
    (h : deliverAt s k = some (s', obs)) : Inv s' := by
  simp only [deliverAt] at h
  cases hn : s.pub.notifs[k]? with
  | none => rw [hn] at h; exact absurd h (by simp)
  | some ids =>
    rw [hn] at h
    simp only [Option.some.injEq, Prod.mk.injEq] at h
    obtain ⟨rfl, _⟩ := h
    have hmem : ids ∈ s.pub.notifs := List.mem_of_getElem? hn
    have hsub : ∀ x ∈ (s.pub.delivered ++ ids) ++ (s.pub.notifs.eraseIdx k).flatten,
        x ∈ s.pub.delivered ++ s.pub.notifs.flatten := by
      intro x hx
      simp only [List.mem_append] at hx ⊢
      rcases hx with (hx | hx) | hx
      · exact Or.inl hx
      · exact Or.inr (List.mem_flatten.mpr ⟨ids, hmem, hx⟩)
      · exact Or.inr (mem_eraseIdx_flatten hx)
    exact {
      store := hi.store
      wrFile := hi.wrFile
      fileWr := hi.fileWr
      remLt := hi.remLt
      inflWr := hi.inflWr
      wrCid := hi.wrCid
      inflCid := hi.inflCid
      curMax := hi.curMax
      compWr := hi.compWr
      queueSorted := by
        simp only
        exact List.Pairwise.sublist (flatten_eraseIdx_sublist _ _) hi.queueSorted
      notifSorted := by
        intro _
        subst hk
        cases hq : s.pub.notifs with
        | nil => rw [hq] at hn; simp at hn
        | cons a rest =>
          rw [hq] at hn
          simp only [List.getElem?_cons_zero, Option.some.injEq] at hn
          subst hn
          have := hi.notifSorted hi.fifoTrue
          rw [hq, List.flatten_cons, ← List.append_assoc] at this
          simpa [List.eraseIdx] using this
      notifLe := fun x hx => hi.notifLe x (hsub x hx)
      notifWr := fun x hx => hi.notifWr x (hsub x hx)
      wrFin := hi.wrFin
      inflFin := hi.inflFin
      finGood := hi.finGood
      fifoTrue := by subst hk; simp [hi.fifoTrue]
      noSp := hi.noSp }

theorem inv_deliver {s : Sys} (hi : Inv s) {s' : Sys} {obs : List Obs}
    (h : step s .deliver = some (s', obs)) : Inv s' := inv_deliverAt hi 0 rfl h

theorem inv_crash {s : Sys} (hi : Inv s) {s' : Sys} {obs : List Obs}
    (h : step s .crash = some (s', obs)) : Inv s' := by
  simp only [step, hi.noSp, Option.some.injEq, Prod.mk.injEq] at h
  obtain ⟨rfl, _⟩ := h
  apply inv_boot hi.wrFile hi.fileWr
  · intro hf; exact (List.pairwise_append.mp (hi.notifSorted hf)).1
  · intro k hk; exact hi.notifWr k (List.mem_append_left _ hk)
  · exact hi.wrFin
  · exact hi.finGood
  · exact hi.fifoTrue

theorem step_inv {s : Sys} (hi : Inv s) (a : Act) {s' : Sys} {obs : List Obs}
    (h : step s a = some (s', obs)) : Inv s' := by
  cases a with
  | call c => exact inv_call hi c h
  | write n => exact inv_write hi n h
  | lock n => exact inv_lock hi n h
  | remove ids => exact inv_remove hi ids h
  | deliver => exact inv_deliver hi h
  | crash => exact inv_crash hi h

theorem run_inv (as : List Act) : ∀ {s s' : Sys} {obs : List Obs}, Inv s → run s as = some (s', obs) → Inv s' := by
  induction as with
  | nil => intro s s' obs hi h; simp only [run, Option.some.injEq, Prod.mk.injEq] at h; rw [← h.1]; exact hi
  | cons a t ih =>
    intro s s' obs hi h
    simp only [run] at h
    cases hs : step s a with
    | none => rw [hs] at h; exact absurd h (by simp)
    | some r =>
      obtain ⟨s1, o1⟩ := r
      rw [hs] at h
      simp only at h
      cases hr : run s1 t with
      | none => rw [hr] at h; exact absurd h (by simp)
      | some r2 =>
        obtain ⟨s2, o2⟩ := r2
        rw [hr] at h
        simp only [Option.some.injEq, Prod.mk.injEq] at h
        rw [← h.1]
        exact ih (step_inv hi a hs) hr

/-! ### the part of the invariant that also holds for jobs configured with a savepoint URI

Storage, id-counter and "only complete snapshots are persisted" facts. They do not depend on which checkpoint the job
considers current, so they survive the savepoint start mode going back to the savepoint on a restart (D64). -/

structure InvCore (s : Sys) : Prop where
  store : ∃ hist, Store.Inv hist s.store
  wrFile : ∀ w ∈ s.pub.written, ∃ f ∈ s.pub.files, w ≤ f
  fileWr : ∀ f ∈ s.pub.files, f ∈ s.pub.written
  remLt : ∀ R ∈ s.pub.removes, ∀ k ∈ R, k < maxL s.pub.files
  inflWr : ∀ n, (n, true) ∈ s.pub.inflight → n ∈ s.pub.written
  wrCid : ∀ w ∈ s.pub.written, w ≤ s.store.cid
  inflCid : ∀ e ∈ s.pub.inflight, e.1 ≤ s.store.cid
  wrFin : ∀ n ∈ s.pub.written, n ∈ s.pub.initial ∨ ∃ snap ∈ s.pub.finished, snap.id = n
  inflFin : ∀ e ∈ s.pub.inflight, ∃ snap ∈ s.pub.finished, snap.id = e.1
  finGood : ∀ snap ∈ s.pub.finished, snap.WF ∧ snap.isComplete = true

theorem Inv.core {s : Sys} (hi : Inv s) : InvCore s :=
  ⟨hi.store, hi.wrFile, hi.fileWr, hi.remLt, hi.inflWr, hi.wrCid, hi.inflCid, hi.wrFin, hi.inflFin, hi.finGood⟩

theorem InvCore.wr_le_max {s : Sys} (hi : InvCore s) {w : Nat} (hw : w ∈ s.pub.written) : w ≤ maxL s.pub.files := by
  obtain ⟨f, hf, hle⟩ := hi.wrFile w hw
  exact Nat.le_trans hle (le_maxL hf)

theorem InvCore.maxFiles_eq {s : Sys} (hi : InvCore s) (h : s.pub.files ≠ []) :
    maxL s.pub.files = maxL s.pub.written := by
  apply Nat.le_antisymm
  · exact le_maxL (hi.fileWr _ (maxL_mem h))
  · exact maxL_le (fun w hw => hi.wr_le_max hw)

theorem InvCore.files_ne {s : Sys} (hi : InvCore s) (h : s.pub.written ≠ []) : s.pub.files ≠ [] := by
  obtain ⟨f, hf, _⟩ := hi.wrFile _ (maxL_mem h)
  intro he; rw [he] at hf; simp at hf

theorem core_call {s : Sys} (hi : InvCore s) (c : Store.Call) {s' : Sys} {obs : List Obs}
    (h : step s (.call c) = some (s', obs)) : InvCore s' := by
  obtain ⟨hist, hs⟩ := hi.store
  obtain ⟨hs', hle, hpub⟩ := Store.step_inv hs c
  simp only [step] at h
  cases hf : (Store.step s.store c).2.2 with
  | none =>
    rw [hf] at h
    simp only [Option.some.injEq, Prod.mk.injEq] at h
    obtain ⟨rfl, _⟩ := h
    exact {
      store := ⟨_, hs'⟩
      wrFile := hi.wrFile
      fileWr := hi.fileWr
      remLt := hi.remLt
      inflWr := hi.inflWr
      wrCid := fun w hw => Nat.le_trans (hi.wrCid w hw) hle
      inflCid := fun e he => Nat.le_trans (hi.inflCid e he) hle
      wrFin := hi.wrFin
      inflFin := hi.inflFin
      finGood := hi.finGood }
  | some snap =>
    rw [hf] at h
    simp only [Option.some.injEq, Prod.mk.injEq] at h
    obtain ⟨rfl, _⟩ := h
    obtain ⟨hgood, hid, hcid, _⟩ := hpub snap hf
    exact {
      store := ⟨_, hs'⟩
      wrFile := hi.wrFile
      fileWr := hi.fileWr
      remLt := hi.remLt
      inflWr := by
        intro n hn
        simp only [List.mem_append, List.mem_singleton, Prod.mk.injEq] at hn
        rcases hn with hn | hn
        · exact hi.inflWr n hn
        · exact absurd hn.2 (by simp)
      wrCid := fun w hw => Nat.le_trans (hi.wrCid w hw) hle
      inflCid := by
        intro e he
        simp only [List.mem_append, List.mem_singleton] at he
        rcases he with he | he
        · exact Nat.le_trans (hi.inflCid e he) hle
        · subst he; simp only; omega
      wrFin := by
        intro n hn
        rcases hi.wrFin n hn with h | ⟨sn, hs, he⟩
        · exact Or.inl h
        · exact Or.inr ⟨sn, List.mem_append_left _ hs, he⟩
      inflFin := by
        intro e he
        simp only [List.mem_append, List.mem_singleton] at he
        rcases he with he | he
        · obtain ⟨sn, hs, heq⟩ := hi.inflFin e he
          exact ⟨sn, List.mem_append_left _ hs, heq⟩
        · subst he; exact ⟨snap, List.mem_append_right _ List.mem_cons_self, rfl⟩
      finGood := by
        intro sn hs
        simp only [List.mem_append, List.mem_singleton] at hs
        rcases hs with hs | hs
        · exact hi.finGood sn hs
        · subst hs; exact ⟨hgood.wf, hgood.complete⟩ }

theorem core_write {s : Sys} (hi : InvCore s) (n : Nat) {s' : Sys} {obs : List Obs}
    (h : step s (.write n) = some (s', obs)) : InvCore s' := by
  simp only [step] at h
  by_cases hin : (n, false) ∈ s.pub.inflight
  · rw [if_pos hin] at h
    simp only [Option.some.injEq, Prod.mk.injEq] at h
    obtain ⟨rfl, _⟩ := h
    have hsub : ∀ x ∈ s.pub.files, x ∈ n :: s.pub.files.filter (· ≠ n) := by
      intro x hx
      by_cases hxn : x = n
      · subst hxn; exact List.mem_cons_self
      · exact List.mem_cons_of_mem _ (List.mem_filter.mpr ⟨hx, by simpa using hxn⟩)
    have hmono : maxL s.pub.files ≤ maxL (n :: s.pub.files.filter (· ≠ n)) :=
      maxL_le (fun x hx => le_maxL (hsub x hx))
    exact {
      store := hi.store
      wrFile := by
        intro w hw
        simp only [List.mem_cons] at hw
        rcases hw with hw | hw
        · subst hw; exact ⟨w, List.mem_cons_self, Nat.le_refl _⟩
        · obtain ⟨f, hf, hle⟩ := hi.wrFile w hw
          exact ⟨f, hsub f hf, hle⟩
      fileWr := by
        intro f hf
        simp only [List.mem_cons, List.mem_filter] at hf
        rcases hf with hf | hf
        · subst hf; exact List.mem_cons_self
        · exact List.mem_cons_of_mem _ (hi.fileWr f hf.1)
      remLt := fun R hR k hk => Nat.lt_of_lt_of_le (hi.remLt R hR k hk) hmono
      inflWr := by
        intro m hm
        simp only [List.mem_map] at hm
        obtain ⟨e, he, heq⟩ := hm
        by_cases hen : e = (n, false)
        · rw [if_pos hen] at heq
          injection heq with h1 _
          subst h1; exact List.mem_cons_self
        · rw [if_neg hen] at heq
          subst heq
          exact List.mem_cons_of_mem _ (hi.inflWr m he)
      wrCid := by
        intro w hw
        simp only [List.mem_cons] at hw
        rcases hw with hw | hw
        · subst hw; exact hi.inflCid _ hin
        · exact hi.wrCid w hw
      inflCid := by
        intro e he
        simp only [List.mem_map] at he
        obtain ⟨e0, he0, heq⟩ := he
        by_cases hen : e0 = (n, false)
        · rw [if_pos hen] at heq; subst heq; subst hen; exact hi.inflCid (n, false) he0
        · rw [if_neg hen] at heq; subst heq; exact hi.inflCid _ he0
      wrFin := by
        intro w hw
        simp only [List.mem_cons] at hw
        rcases hw with hw | hw
        · subst hw; exact Or.inr (hi.inflFin _ hin)
        · exact hi.wrFin w hw
      inflFin := by
        intro e he
        simp only [List.mem_map] at he
        obtain ⟨e0, he0, heq⟩ := he
        by_cases hen : e0 = (n, false)
        · rw [if_pos hen] at heq; subst heq; subst hen; exact hi.inflFin (n, false) he0
        · rw [if_neg hen] at heq; subst heq; exact hi.inflFin _ he0
      finGood := hi.finGood }
  · rw [if_neg hin] at h; exact absurd h (by simp)

theorem core_lock {s : Sys} (hi : InvCore s) (n : Nat) {s' : Sys} {obs : List Obs}
    (h : step s (.lock n) = some (s', obs)) : InvCore s' := by
  simp only [step] at h
  by_cases hin : (n, true) ∈ s.pub.inflight
  · rw [if_pos hin] at h
    simp only [lockUpdate, Option.some.injEq, Prod.mk.injEq] at h
    obtain ⟨rfl, _⟩ := h
    have hnw : n ∈ s.pub.written := hi.inflWr n hin
    have hnle : n ≤ maxL s.pub.files := hi.wr_le_max hnw
    exact {
      store := hi.store
      wrFile := hi.wrFile
      fileWr := hi.fileWr
      remLt := by
        intro R hR k hk
        simp only at hR
        by_cases he : (s.pub.completed.filter (· < n)).isEmpty = true
        · rw [if_pos he] at hR; exact hi.remLt R hR k hk
        · rw [if_neg he] at hR
          simp only [List.mem_append, List.mem_singleton] at hR
          rcases hR with hR | hR
          · exact hi.remLt R hR k hk
          · subst hR
            have := (List.mem_filter.mp hk).2
            simp only [decide_eq_true_eq] at this
            show k < maxL s.pub.files
            omega
      inflWr := fun m hm => hi.inflWr m (List.mem_filter.mp hm).1
      wrCid := hi.wrCid
      inflCid := fun e he => hi.inflCid e (List.mem_filter.mp he).1
      wrFin := hi.wrFin
      inflFin := fun e he => hi.inflFin e (List.mem_filter.mp he).1
      finGood := hi.finGood }
  · rw [if_neg hin] at h; exact absurd h (by simp)

theorem core_remove {s : Sys} (hi : InvCore s) (ids : List Nat) {s' : Sys} {obs : List Obs}
    (h : step s (.remove ids) = some (s', obs)) : InvCore s' := by
  simp only [step] at h
  by_cases hin : ids ∈ s.pub.removes
  · rw [if_pos hin] at h
    simp only [Option.some.injEq, Prod.mk.injEq] at h
    obtain ⟨rfl, _⟩ := h
    have hkeep : s.pub.files ≠ [] → maxL s.pub.files ∈ s.pub.files.filter (· ∉ ids) := by
      intro hne
      refine List.mem_filter.mpr ⟨maxL_mem hne, ?_⟩
      simp only [decide_eq_true_eq]
      intro hm
      exact absurd (hi.remLt ids hin _ hm) (Nat.lt_irrefl _)
    have hmaxeq : s.pub.files ≠ [] → maxL (s.pub.files.filter (· ∉ ids)) = maxL s.pub.files := by
      intro hne
      apply Nat.le_antisymm
      · exact maxL_le (fun x hx => le_maxL (List.mem_filter.mp hx).1)
      · exact le_maxL (hkeep hne)
    exact {
      store := hi.store
      wrFile := by
        intro w hw
        obtain ⟨f, hf, _⟩ := hi.wrFile w hw
        have hne : s.pub.files ≠ [] := by intro he; rw [he] at hf; simp at hf
        exact ⟨_, hkeep hne, hi.wr_le_max hw⟩
      fileWr := fun f hf => hi.fileWr f (List.mem_filter.mp hf).1
      remLt := by
        intro R hR k hk
        have hlt := hi.remLt R (List.mem_of_mem_erase hR) k hk
        have hne : s.pub.files ≠ [] := by
          intro he; rw [he] at hlt; simp [maxL] at hlt
        simp only
        rw [hmaxeq hne]; exact hlt
      inflWr := hi.inflWr
      wrCid := hi.wrCid
      inflCid := hi.inflCid
      wrFin := hi.wrFin
      inflFin := hi.inflFin
      finGood := hi.finGood }
  · rw [if_neg hin] at h; exact absurd h (by simp)

theorem core_deliverAt {s : Sys} (hi : InvCore s) (k : Nat) (hk : k = 0) {s' : Sys} {obs : List Obs}
    (h : deliverAt s k = some (s', obs)) : InvCore s' := by
  simp only [deliverAt] at h
  cases hn : s.pub.notifs[k]? with
  | none => rw [hn] at h; exact absurd h (by simp)
  | some ids =>
    rw [hn] at h
    simp only [Option.some.injEq, Prod.mk.injEq] at h
    obtain ⟨rfl, _⟩ := h
    have hmem : ids ∈ s.pub.notifs := List.mem_of_getElem? hn
    have hsub : ∀ x ∈ (s.pub.delivered ++ ids) ++ (s.pub.notifs.eraseIdx k).flatten,
        x ∈ s.pub.delivered ++ s.pub.notifs.flatten := by
      intro x hx
      simp only [List.mem_append] at hx ⊢
      rcases hx with (hx | hx) | hx
      · exact Or.inl hx
      · exact Or.inr (List.mem_flatten.mpr ⟨ids, hmem, hx⟩)
      · exact Or.inr (mem_eraseIdx_flatten hx)
    exact {
      store := hi.store
      wrFile := hi.wrFile
      fileWr := hi.fileWr
      remLt := hi.remLt
      inflWr := hi.inflWr
      wrCid := hi.wrCid
      inflCid := hi.inflCid
      wrFin := hi.wrFin
      inflFin := hi.inflFin
      finGood := hi.finGood }


theorem core_crash {s : Sys} (hi : InvCore s) {s' : Sys} {obs : List Obs}
    (h : step s .crash = some (s', obs)) : InvCore s' := by
  simp only [step] at h
  cases hsp : s.savepoint with
  | none =>
    rw [hsp] at h
    simp only [Option.some.injEq, Prod.mk.injEq] at h
    obtain ⟨rfl, _⟩ := h
    have hmax : ∀ w ∈ s.pub.written, w ≤ maxL s.pub.files := fun w hw => hi.wr_le_max hw
    refine ⟨⟨[], by intro p hp; simp [boot] at hp⟩, by simpa [boot] using hi.wrFile, by simpa [boot] using hi.fileWr,
      by simp [boot], by simp [boot], ?_, by simp [boot], by simpa [boot] using hi.wrFin, by simp [boot],
      by simpa [boot] using hi.finGood⟩
    by_cases hf : s.pub.files = []
    · have hw : s.pub.written = [] := by
        cases hwr : s.pub.written with
        | nil => rfl
        | cons a t => obtain ⟨f, hf', _⟩ := hi.wrFile a (by rw [hwr]; exact List.mem_cons_self); rw [hf] at hf'; simp at hf'
      simp [boot, hw]
    · simpa [boot, load_of_ne hf] using hmax
  | some k =>
    rw [hsp] at h
    simp only [Option.some.injEq, Prod.mk.injEq] at h
    obtain ⟨rfl, _⟩ := h
    refine ⟨⟨[], by intro p hp; simp [bootSavepoint, Store.loadFromSavepoint] at hp⟩,
      by simpa [bootSavepoint] using hi.wrFile, by simpa [bootSavepoint] using hi.fileWr,
      by simp [bootSavepoint], by simp [bootSavepoint], ?_, by simp [bootSavepoint],
      by simpa [bootSavepoint] using hi.wrFin, by simp [bootSavepoint], by simpa [bootSavepoint] using hi.finGood⟩
    intro w hw
    have := hi.wr_le_max (show w ∈ s.pub.written by simpa [bootSavepoint] using hw)
    simp only [bootSavepoint, Store.loadFromSavepoint]
    omega

theorem core_step {s : Sys} (hi : InvCore s) (a : Act) {s' : Sys} {obs : List Obs}
    (h : step s a = some (s', obs)) : InvCore s' := by
  cases a with
  | call c => exact core_call hi c h
  | write n => exact core_write hi n h
  | lock n => exact core_lock hi n h
  | remove ids => exact core_remove hi ids h
  | deliver => exact core_deliverAt hi 0 rfl h
  | crash => exact core_crash hi h

theorem run_core (as : List Act) : ∀ {s s' : Sys} {obs : List Obs}, InvCore s → run s as = some (s', obs) → InvCore s' := by
  induction as with
  | nil => intro s s' obs hi h; simp only [run, Option.some.injEq, Prod.mk.injEq] at h; rw [← h.1]; exact hi
  | cons a t ih =>
    intro s s' obs hi h
    simp only [run] at h
    cases hs : step s a with
    | none => rw [hs] at h; exact absurd h (by simp)
    | some r =>
      obtain ⟨s1, o1⟩ := r
      rw [hs] at h
      simp only at h
      cases hr : run s1 t with
      | none => rw [hr] at h; exact absurd h (by simp)
      | some r2 =>
        obtain ⟨s2, o2⟩ := r2
        rw [hr] at h
        simp only [Option.some.injEq, Prod.mk.injEq] at h
        rw [← h.1]
        exact ih (core_step hi a hs) hr

/-- a job configured with the savepoint URI of checkpoint `k`, on any starting storage -/
theorem core_initSavepoint (k : Nat) (files0 : List Nat) : InvCore (initSavepoint k files0) := by
  refine ⟨⟨[], by intro p hp; simp [initSavepoint, bootSavepoint, Store.loadFromSavepoint] at hp⟩,
    fun w hw => ⟨w, by simpa [initSavepoint, bootSavepoint] using hw, Nat.le_refl _⟩,
    fun f hf => by simpa [initSavepoint, bootSavepoint] using hf,
    by simp [initSavepoint, bootSavepoint], by simp [initSavepoint, bootSavepoint], ?_,
    by simp [initSavepoint, bootSavepoint], fun n hn => Or.inl (by simpa [initSavepoint, bootSavepoint] using hn),
    by simp [initSavepoint, bootSavepoint], by simp [initSavepoint, bootSavepoint]⟩
  intro w hw
  have : w ≤ maxL files0 := le_maxL (by simpa [initSavepoint, bootSavepoint] using hw)
  simp only [initSavepoint, bootSavepoint, Store.loadFromSavepoint]
  omega

/-- the starting storage content is a constant of a run -/
theorem step_initial {s s' : Sys} {a : Act} {obs : List Obs} (h : step s a = some (s', obs)) :
    s'.pub.initial = s.pub.initial := by
  cases a with
  | call c =>
    simp only [step] at h
    cases hf : (Store.step s.store c).2.2 with
    | none => rw [hf] at h; simp only [Option.some.injEq, Prod.mk.injEq] at h; rw [← h.1]
    | some snap => rw [hf] at h; simp only [Option.some.injEq, Prod.mk.injEq] at h; rw [← h.1]
  | write n =>
    simp only [step] at h
    split at h
    · simp only [Option.some.injEq, Prod.mk.injEq] at h; rw [← h.1]
    · exact absurd h (by simp)
  | lock n =>
    simp only [step] at h
    split at h
    · simp only [lockUpdate, Option.some.injEq, Prod.mk.injEq] at h; rw [← h.1]
    · exact absurd h (by simp)
  | remove ids =>
    simp only [step] at h
    split at h
    · simp only [Option.some.injEq, Prod.mk.injEq] at h; rw [← h.1]
    · exact absurd h (by simp)
  | deliver =>
    simp only [step, deliverAt] at h
    split at h
    · exact absurd h (by simp)
    · simp only [Option.some.injEq, Prod.mk.injEq] at h; rw [← h.1]
  | crash =>
    simp only [step] at h
    split at h <;> (simp only [Option.some.injEq, Prod.mk.injEq] at h; rw [← h.1]; rfl)

theorem run_initial (as : List Act) : ∀ {s s' : Sys} {obs : List Obs}, run s as = some (s', obs) →
    s'.pub.initial = s.pub.initial := by
  induction as with
  | nil => intro s s' obs h; simp only [run, Option.some.injEq, Prod.mk.injEq] at h; rw [← h.1]
  | cons a t ih =>
    intro s s' obs h
    simp only [run] at h
    cases hs : step s a with
    | none => rw [hs] at h; exact absurd h (by simp)
    | some r =>
      obtain ⟨s1, o1⟩ := r
      rw [hs] at h
      simp only at h
      cases hr : run s1 t with
      | none => rw [hr] at h; exact absurd h (by simp)
      | some r2 =>
        obtain ⟨s2, o2⟩ := r2
        rw [hr] at h
        simp only [Option.some.injEq, Prod.mk.injEq] at h
        rw [← h.1, ih hr, step_initial hs]

end Rxn.Publish
