import RxnModel.Model.Lsm
import RxnModel.Base.BytesOrder
/-! Helper lemmas for the DKV refinement (C07): runs, lookups, the read-order list of containers. -/
namespace Rxn.Lsm
open Rxn

namespace Run

/-- strictly ascending keys -/
def Sorted (r : Run) : Prop := r.Pairwise (fun a b => Bytes.lt a.key b.key = true)

theorem sorted_nil : Sorted [] := List.Pairwise.nil

theorem lookup_none_of_lt {r : Run} {k : Bytes} (hs : Sorted r) :
    (∀ e ∈ r, Bytes.lt k e.key = true) → lookup r k = none := by
  induction r with
  | nil => intro _; rfl
  | cons x xs ih =>
    intro h
    have hx := h x (List.mem_cons_self)
    have hne : x.key ≠ k := by
      intro heq; rw [heq, Bytes.lt_irrefl] at hx; cases hx
    simp only [lookup, hne, if_false]
    exact ih (List.Pairwise.of_cons hs) (fun e he => h e (List.mem_cons_of_mem _ he))

theorem lookup_some_mem {r : Run} {k : Bytes} {e : Entry} (h : lookup r k = some e) : e ∈ r ∧ e.key = k := by
  induction r with
  | nil => cases h
  | cons x xs ih =>
    simp only [lookup] at h
    split at h
    · cases h; exact ⟨List.mem_cons_self, by assumption⟩
    · have := ih h; exact ⟨List.mem_cons_of_mem _ this.1, this.2⟩

theorem lookup_of_mem {r : Run} {e : Entry} (hs : Sorted r) (h : e ∈ r) : lookup r e.key = some e := by
  induction r with
  | nil => cases h
  | cons x xs ih =>
    simp only [lookup]
    cases h with
    | head => simp
    | tail _ hmem =>
      have hlt : Bytes.lt x.key e.key = true := (List.pairwise_cons.mp hs).1 e hmem
      have hne : x.key ≠ e.key := by
        intro heq; rw [heq, Bytes.lt_irrefl] at hlt; cases hlt
      simp only [hne, if_false]
      exact ih (List.Pairwise.of_cons hs) hmem

theorem insert_mem {r : Run} {e x : Entry} : x ∈ insert r e → x = e ∨ x ∈ r := by
  induction r with
  | nil => intro h; simp [insert] at h; exact Or.inl h
  | cons y ys ih =>
    intro h
    simp only [insert] at h
    split at h
    · cases h with
      | head => exact Or.inl rfl
      | tail _ h => exact Or.inr h
    · cases h with
      | head => exact Or.inl rfl
      | tail _ h => exact Or.inr (List.mem_cons_of_mem _ h)
    · cases h with
      | head => exact Or.inr List.mem_cons_self
      | tail _ h =>
        cases ih h with
        | inl h => exact Or.inl h
        | inr h => exact Or.inr (List.mem_cons_of_mem _ h)

theorem insert_sorted {r : Run} (e : Entry) (hs : Sorted r) : Sorted (insert r e) := by
  induction r with
  | nil => simp [insert, Sorted]
  | cons y ys ih =>
    have hy := List.pairwise_cons.mp hs
    simp only [insert]
    split
    · rename_i hc
      have hlt : Bytes.lt e.key y.key = true := by simp [Bytes.lt, hc]
      refine List.pairwise_cons.mpr ⟨?_, hs⟩
      intro z hz
      cases hz with
      | head => exact hlt
      | tail _ hz => exact Bytes.lt_trans hlt (hy.1 z hz)
    · rename_i hc
      have heq : e.key = y.key := Bytes.cmp_eq_iff.mp hc
      refine List.pairwise_cons.mpr ⟨?_, hy.2⟩
      intro z hz; rw [heq]; exact hy.1 z hz
    · rename_i hc
      have hlt : Bytes.lt y.key e.key = true := by
        simp [Bytes.lt, Bytes.cmp_gt_iff_lt.mp hc]
      refine List.pairwise_cons.mpr ⟨?_, ih hy.2⟩
      intro z hz
      cases insert_mem hz with
      | inl h => rw [h]; exact hlt
      | inr h => exact hy.1 z h

theorem lookup_insert {r : Run} (e : Entry) (k : Bytes) (hs : Sorted r) :
    lookup (insert r e) k = if e.key = k then some e else lookup r k := by
  induction r with
  | nil => simp [insert, lookup]
  | cons y ys ih =>
    have hy := List.pairwise_cons.mp hs
    simp only [insert]
    split
    · rename_i hc
      simp only [lookup]
    · rename_i hc
      have heq : e.key = y.key := Bytes.cmp_eq_iff.mp hc
      simp only [lookup]
      by_cases hk : e.key = k
      · simp [hk]
      · have : y.key ≠ k := by rw [← heq]; exact hk
        simp [hk, this]
    · rename_i hc
      have hlt : Bytes.lt y.key e.key = true := by
        simp [Bytes.lt, Bytes.cmp_gt_iff_lt.mp hc]
      have hne : y.key ≠ e.key := by
        intro h; rw [h, Bytes.lt_irrefl] at hlt; cases hlt
      simp only [lookup]
      by_cases hyk : y.key = k
      · have : e.key ≠ k := by rw [← hyk]; exact fun h => hne h.symm
        simp [hyk, this]
      · simp only [hyk, if_false]
        exact ih hy.2

end Run

theorem firstSome_append {α β : Type} (f : α → Option β) (xs ys : List α) :
    firstSome f (xs ++ ys) = match firstSome f xs with
      | some y => some y
      | none => firstSome f ys := by
  induction xs with
  | nil => simp [firstSome]
  | cons x xs ih =>
    simp only [List.cons_append, firstSome]
    cases f x <;> simp [ih]

theorem firstSome_map {α β γ : Type} (g : α → β) (f : β → Option γ) (xs : List α) :
    firstSome f (xs.map g) = firstSome (fun x => f (g x)) xs := by
  induction xs with
  | nil => rfl
  | cons x xs ih => simp only [List.map_cons, firstSome, ih]

end Rxn.Lsm

namespace Rxn.Lsm
open Rxn

/-- all runs in the order a point lookup visits them: memtables newest first, level 0 newest first, deeper levels -/
def containers (s : State) : List Run := s.mems.reverse ++ (readOrder s.levels).map (·.run)

def firstHit (cs : List Run) (k : Bytes) : Option Entry := firstSome (fun r => r.lookup k) cs

/-- a version of a key in a newer container has a larger sequence number than any in an older one -/
def NewerAbove : List Run → Prop
  | [] => True
  | r :: rs => (∀ e ∈ r, ∀ r' ∈ rs, ∀ e' ∈ r', e'.key = e.key → e'.seq < e.seq) ∧ NewerAbove rs

/-- at most one table of a (deeper) level has the key inside its range -/
def RangeUnique (l : List Tbl) : Prop :=
  l.Pairwise (fun a b => ∀ k, ¬ (a.rangeContainsKey k = true ∧ b.rangeContainsKey k = true))

structure Inv (s : State) (m : Spec) : Prop where
  mems_ne : s.mems ≠ []
  levels_ne : s.levels ≠ []
  sorted : ∀ r ∈ containers s, r.Sorted
  hit : ∀ k, firstHit (containers s) k = Spec.get m k
  seqBound : ∀ r ∈ containers s, ∀ e ∈ r, e.seq ≤ s.seq
  newer : NewerAbove (containers s)
  deep : ∀ l ∈ s.levels.tail, RangeUnique l

theorem newerAbove_append {xs ys : List Run} :
    NewerAbove (xs ++ ys) ↔ NewerAbove xs ∧ NewerAbove ys ∧
      ∀ r ∈ xs, ∀ e ∈ r, ∀ r' ∈ ys, ∀ e' ∈ r', e'.key = e.key → e'.seq < e.seq := by
  induction xs with
  | nil => simp [NewerAbove]
  | cons x xs ih =>
    simp only [List.cons_append, NewerAbove, ih, List.mem_append, List.mem_cons]
    constructor
    · rintro ⟨h1, h2, h3, h4⟩
      refine ⟨⟨fun e he r' hr' => h1 e he r' (Or.inl hr'), h2⟩, h3, ?_⟩
      intro r hr e he r' hr' e' he' hk
      cases hr with
      | inl h => subst h; exact h1 e he r' (Or.inr hr') e' he' hk
      | inr h => exact h4 r h e he r' hr' e' he' hk
    · rintro ⟨⟨h1, h2⟩, h3, h4⟩
      refine ⟨?_, h2, h3, fun r hr => h4 r (Or.inr hr)⟩
      intro e he r' hr'
      cases hr' with
      | inl h => exact h1 e he r' h
      | inr h => exact h4 x (Or.inl rfl) e he r' h

theorem inv_init : Inv {} [] := by
  refine ⟨by simp, by simp, ?_, ?_, ?_, ?_, ?_⟩
  · intro r hr; simp [containers, readOrder] at hr; subst hr; exact Run.sorted_nil
  · intro k; simp [containers, readOrder, firstHit, firstSome, Run.lookup, Spec.get]
  · intro r hr; simp [containers, readOrder] at hr; subst hr; intro e he; cases he
  · simp [containers, readOrder, NewerAbove]
  · intro l hl; simp at hl; subst hl; exact List.Pairwise.nil

/-- a foreground write: insert an entry numbered `seq+1` into the active memtable -/
theorem inv_write {s : State} {m : Spec} (h : Inv s m) (e : Entry) (he : e.seq = s.seq + 1)
    (active : Run) (sealedRev : List Run) (hm : s.mems.reverse = active :: sealedRev) :
    Inv { s with seq := s.seq + 1, mems := (active.insert e :: sealedRev).reverse } (e :: m) := by
  have hc : containers s = active :: (sealedRev ++ (readOrder s.levels).map (·.run)) := by
    simp [containers, hm]
  have hc' : containers { s with seq := s.seq + 1, mems := (active.insert e :: sealedRev).reverse } =
      active.insert e :: (sealedRev ++ (readOrder s.levels).map (·.run)) := by
    simp [containers]
  have hsA : active.Sorted := h.sorted active (by rw [hc]; exact List.mem_cons_self)
  refine ⟨by simp, h.levels_ne, ?_, ?_, ?_, ?_, h.deep⟩
  · intro r hr
    rw [hc'] at hr
    cases hr with
    | head => exact Run.insert_sorted e hsA
    | tail _ hr => exact h.sorted r (by rw [hc]; exact List.mem_cons_of_mem _ hr)
  · intro k
    have := h.hit k
    rw [hc] at this
    rw [hc']
    simp only [firstHit, firstSome] at this ⊢
    rw [Run.lookup_insert e k hsA]
    simp only [Spec.get, Run.lookup]
    by_cases hk : e.key = k
    · simp [hk]
    · simp only [hk, if_false]
      exact this
  · intro r hr x hx
    rw [hc'] at hr
    show x.seq ≤ s.seq + 1
    cases hr with
    | head =>
      cases Run.insert_mem hx with
      | inl hxe => rw [hxe, he]; exact Nat.le_refl _
      | inr hxa => exact Nat.le_succ_of_le (h.seqBound active (by rw [hc]; exact List.mem_cons_self) x hxa)
    | tail _ hr => exact Nat.le_succ_of_le (h.seqBound r (by rw [hc]; exact List.mem_cons_of_mem _ hr) x hx)
  · rw [hc']
    have hn := h.newer
    rw [hc] at hn
    refine ⟨?_, hn.2⟩
    intro x hx r' hr' x' hx' hk
    cases Run.insert_mem hx with
    | inl hxe =>
      rw [hxe, he]
      exact Nat.lt_succ_of_le (h.seqBound r' (by rw [hc]; exact List.mem_cons_of_mem _ hr') x' hx')
    | inr hxa => exact hn.1 x hxa r' hr' x' hx' hk

theorem inv_rotate {s : State} {m : Spec} (h : Inv s m) : Inv { s with mems := s.mems ++ [[]] } m := by
  have hc' : containers { s with mems := s.mems ++ [[]] } = [] :: containers s := by
    simp [containers]
  refine ⟨by simp, h.levels_ne, ?_, ?_, ?_, ?_, h.deep⟩
  · intro r hr; rw [hc'] at hr
    cases hr with
    | head => exact Run.sorted_nil
    | tail _ hr => exact h.sorted r hr
  · intro k; rw [hc']; simp only [firstHit, firstSome, Run.lookup]; exact h.hit k
  · intro r hr x hx; rw [hc'] at hr
    cases hr with
    | head => cases hx
    | tail _ hr => exact h.seqBound r hr x hx
  · rw [hc']; exact ⟨fun e he => (by cases he), h.newer⟩

theorem zipWith_snd_eq {α β : Type} : ∀ (xs : List α) (ys : List β), ys.length ≤ xs.length →
    List.zipWith (fun _ y => y) xs ys = ys := by
  intro xs
  induction xs with
  | nil => intro ys h; cases ys with
    | nil => rfl
    | cons y ys => simp at h
  | cons x xs ih => intro ys h; cases ys with
    | nil => rfl
    | cons y ys => simp only [List.zipWith_cons_cons]; rw [ih ys (by simpa using h)]

theorem mkTables_map_run (start : Nat) (runs : List Run) : (mkTables start runs).map (·.run) = runs := by
  unfold mkTables
  rw [List.map_zipWith]
  exact zipWith_snd_eq _ _ (by simp)

end Rxn.Lsm

namespace Rxn.Lsm
open Rxn

theorem containers_flushCommit (s : State) (snap : List Run) (hl : s.levels ≠ [])
    (hp : s.mems.take snap.length = snap) :
    containers { s with levels := addAt s.levels 0 (mkTables s.nextId snap), nextId := s.nextId + snap.length,
                        mems := s.mems.drop snap.length, flushing := none } = containers s := by
  cases hlv : s.levels with
  | nil => exact absurd hlv hl
  | cons l0 deeper =>
    have hmems : s.mems = snap ++ s.mems.drop snap.length := by
      conv => lhs; rw [← List.take_append_drop snap.length s.mems, hp]
    have hmod : (l0 :: deeper).modify 0 (· ++ mkTables s.nextId snap) = (l0 ++ mkTables s.nextId snap) :: deeper := rfl
    simp only [containers, addAt, hlv, hmod, readOrder, List.reverse_append, List.map_append, List.map_reverse,
      mkTables_map_run, List.append_assoc]
    conv => rhs; rw [hmems]
    simp [List.reverse_append, List.append_assoc]

theorem inv_flushCommit {s : State} {m : Spec} (h : Inv s m) (snap : List Run)
    (hp : s.mems.take snap.length = snap) (hlen : snap.length < s.mems.length) :
    Inv { s with levels := addAt s.levels 0 (mkTables s.nextId snap), nextId := s.nextId + snap.length,
                 mems := s.mems.drop snap.length, flushing := none } m := by
  have hc := containers_flushCommit s snap h.levels_ne hp
  refine ⟨?_, ?_, ?_, ?_, ?_, ?_, ?_⟩
  · intro hd
    have hd' : s.mems.drop snap.length = [] := hd
    have : (s.mems.drop snap.length).length = 0 := by rw [hd']; rfl
    rw [List.length_drop] at this; omega
  · cases hlv : s.levels with
    | nil => exact absurd hlv h.levels_ne
    | cons l0 deeper =>
      show addAt (l0 :: deeper) 0 (mkTables s.nextId snap) ≠ []
      simp [addAt]
  · rw [hc]; exact h.sorted
  · rw [hc]; exact h.hit
  · rw [hc]; exact h.seqBound
  · rw [hc]; exact h.newer
  · cases hlv : s.levels with
    | nil => exact absurd hlv h.levels_ne
    | cons l0 deeper =>
      have := h.deep
      rw [hlv] at this
      show ∀ l ∈ (addAt (l0 :: deeper) 0 (mkTables s.nextId snap)).tail, RangeUnique l
      simpa [addAt] using this

/-! ### point lookups follow the read order -/

theorem firstSome_flatten {α β : Type} (f : α → Option β) (xss : List (List α)) :
    firstSome f xss.flatten = firstSome (fun xs => firstSome f xs) xss := by
  induction xss with
  | nil => rfl
  | cons xs xss ih =>
    simp only [List.flatten_cons, firstSome_append, firstSome, ih]
    cases firstSome f xs <;> rfl

theorem firstSome_congr {α β : Type} (f g : α → Option β) (xs : List α) (h : ∀ x ∈ xs, f x = g x) :
    firstSome f xs = firstSome g xs := by
  induction xs with
  | nil => rfl
  | cons x xs ih =>
    simp only [firstSome, h x List.mem_cons_self]
    rw [ih (fun y hy => h y (List.mem_cons_of_mem _ hy))]

theorem cmpInt_le_iff (a b : Bytes) : (cmpInt a b < 1) ↔ Bytes.cmp a b ≠ .gt := by
  unfold cmpInt; cases Bytes.cmp a b <;> simp

theorem cmpInt_ge_iff (a b : Bytes) : (cmpInt a b > -1) ↔ Bytes.cmp a b ≠ .lt := by
  unfold cmpInt; cases Bytes.cmp a b <;> simp

/-- a key stored in a sorted run lies between the run's first and last key -/
theorem range_of_mem {r : Run} (hs : r.Sorted) {e : Entry} (he : e ∈ r) :
    (⟨0, r⟩ : Tbl).rangeContainsKey e.key = true := by
  unfold Tbl.rangeContainsKey Gen.tblRangeContainsKey Tbl.startKey Tbl.endKey
  simp only [Bool.and_eq_true, decide_eq_true_eq, cmpInt_le_iff, cmpInt_ge_iff]
  constructor
  · -- head ≤ e
    cases r with
    | nil => cases he
    | cons x xs =>
      simp only [List.head?_cons, Option.map_some, Option.getD_some]
      cases he with
      | head => simp
      | tail _ hm =>
        have := (List.pairwise_cons.mp hs).1 e hm
        simp only [Bytes.lt, beq_iff_eq] at this
        rw [this]; simp
  · -- e ≤ last
    induction r with
    | nil => cases he
    | cons x xs ih =>
      cases xs with
      | nil =>
        simp at he; subst he; simp
      | cons y ys =>
        have hs' := List.Pairwise.of_cons hs
        simp only [List.getLast?_cons_cons]
        cases he with
        | head =>
          -- x < last of (y :: ys)
          have hlast : ∃ z, (y :: ys).getLast? = some z ∧ z ∈ (y :: ys) := by
            cases hz : (y :: ys).getLast? with
            | none => simp at hz
            | some z => exact ⟨z, rfl, List.mem_of_getLast? hz⟩
          obtain ⟨z, hz1, hz2⟩ := hlast
          rw [hz1]
          have := (List.pairwise_cons.mp hs).1 z hz2
          simp only [Bytes.lt, beq_iff_eq] at this
          simp only [Option.map_some, Option.getD_some]
          have h2 := Bytes.cmp_lt_iff_gt.mp this
          rw [h2]; simp
        | tail _ hm => exact ih hs' hm

theorem tbl_get_eq_lookup (t : Tbl) (hs : t.run.Sorted) (k : Bytes) : t.get k = t.run.lookup k := by
  unfold Tbl.get
  split
  · rfl
  · rename_i hr
    cases hl : t.run.lookup k with
    | none => rfl
    | some e =>
      have ⟨hm, hk⟩ := Run.lookup_some_mem hl
      have := range_of_mem hs hm
      rw [hk] at this
      exact absurd this hr

theorem deepGet_eq (l : List Tbl) (hs : ∀ t ∈ l, t.run.Sorted) (hu : RangeUnique l) (k : Bytes) :
    deepGet l k = firstSome (fun t => t.run.lookup k) l := by
  induction l with
  | nil => rfl
  | cons t ts ih =>
    have hts := List.pairwise_cons.mp hu
    unfold deepGet
    simp only [List.find?_cons, firstSome]
    by_cases hr : t.rangeContainsKey k = true
    · simp only [hr]
      cases hl : t.run.lookup k with
      | some e => rfl
      | none =>
        -- no other table of the level has the key in range, so none holds it
        symm
        have : ∀ t' ∈ ts, t'.run.lookup k = none := by
          intro t' ht'
          cases hl' : t'.run.lookup k with
          | none => rfl
          | some e =>
            have ⟨hm, hk⟩ := Run.lookup_some_mem hl'
            have hr' := range_of_mem (hs t' (List.mem_cons_of_mem _ ht')) hm
            rw [hk] at hr'
            exact absurd ⟨hr, hr'⟩ (hts.1 t' ht' k)
        clear ih
        induction ts with
        | nil => rfl
        | cons y ys ih2 =>
          simp only [firstSome, this y List.mem_cons_self]
          exact ih2 (fun a ha => by
            have := List.pairwise_cons.mp hu
            exact List.Pairwise.of_cons hu |> fun _ => (hs a (by
              cases ha with
              | head => exact List.mem_cons_self
              | tail _ h => exact List.mem_cons_of_mem _ (List.mem_cons_of_mem _ h))))
            (by
              refine List.pairwise_cons.mpr ⟨fun a ha => hts.1 a (List.mem_cons_of_mem _ ha), ?_⟩
              exact (List.pairwise_cons.mp hts.2).2)
            ⟨fun a ha => hts.1 a (List.mem_cons_of_mem _ ha), (List.pairwise_cons.mp hts.2).2⟩
            (fun a ha => this a (List.mem_cons_of_mem _ ha))
    · have hr' : t.rangeContainsKey k = false := by simpa using hr
      simp only [hr']
      have hl : t.run.lookup k = none := by
        cases hl' : t.run.lookup k with
        | none => rfl
        | some e =>
          have ⟨hm, hk⟩ := Run.lookup_some_mem hl'
          have := range_of_mem (hs t List.mem_cons_self) hm
          rw [hk] at this
          exact absurd this hr
      rw [hl]
      have := ih (fun a ha => hs a (List.mem_cons_of_mem _ ha)) hts.2
      unfold deepGet at this
      exact this

end Rxn.Lsm

namespace Rxn.Lsm
open Rxn

theorem firstSome_eq_none {α β : Type} (f : α → Option β) (xs : List α) :
    firstSome f xs = none ↔ ∀ x ∈ xs, f x = none := by
  induction xs with
  | nil => simp [firstSome]
  | cons x xs ih =>
    simp only [firstSome, List.mem_cons, forall_eq_or_imp]
    cases hx : f x with
    | none => simp [ih]
    | some y => simp

/-- `DB.Get` visits the containers in read order -/
theorem get_eq_firstHit {s : State} {m : Spec} (h : Inv s m) (k : Bytes) : get s k = firstHit (containers s) k := by
  cases hlv : s.levels with
  | nil => exact absurd hlv h.levels_ne
  | cons l0 deeper =>
    have hsorted : ∀ t ∈ l0.reverse ++ deeper.flatten, t.run.Sorted := by
      intro t ht
      apply h.sorted
      simp only [containers, hlv, readOrder, List.mem_append, List.mem_map]
      exact Or.inr ⟨t, by simpa using ht, rfl⟩
    have hl0 : l0Get l0 k = firstSome (fun t : Tbl => t.run.lookup k) l0.reverse := by
      unfold l0Get
      apply firstSome_congr
      intro t ht
      exact tbl_get_eq_lookup t (hsorted t (List.mem_append_left _ ht)) k
    have hdeep : firstSome (fun l => deepGet l k) deeper = firstSome (fun t : Tbl => t.run.lookup k) deeper.flatten := by
      rw [firstSome_flatten]
      apply firstSome_congr
      intro l hl
      apply deepGet_eq
      · intro t ht
        exact hsorted t (List.mem_append_right _ (List.mem_flatten.mpr ⟨l, hl, ht⟩))
      · apply h.deep; rw [hlv]; exact hl
    unfold get memGet levelsGet firstHit containers
    simp only [hlv, readOrder, firstSome_append, firstSome_map, List.map_append]
    rw [hl0, hdeep]
    cases firstSome (fun r : Run => r.lookup k) s.mems.reverse <;>
      cases firstSome (fun t : Tbl => t.run.lookup k) l0.reverse <;> rfl

/-- the part of the invariant about a read between its two phases -/
def ReadInv (s : State) (m : Spec) : Prop :=
  ∀ k r, s.reading = some (k, r) →
    (r = none → memGet s.mems k = none) ∧ (∀ e, r = some e → Spec.get m k = some e)

/-- what C18 establishes about every change set that passes the safety test -/
def CompactionSound : Prop :=
  ∀ (s : State) (m : Spec) (rm : List Nat) (lvl : Nat) (add : List Run),
    Inv s m → safeCS s.levels rm lvl add = true →
    Inv { s with levels := addAt (removeIds rm s.levels) lvl (mkTables s.nextId add),
                 nextId := s.nextId + add.length } m

def noCompact : List Act → Bool
  | [] => true
  | .compact .. :: _ => false
  | _ :: as => noCompact as

theorem memGet_rotate (mems : List Run) (k : Bytes) : memGet (mems ++ [[]]) k = memGet mems k := by
  simp [memGet, firstSome, Run.lookup]

theorem memGet_drop_none {mems : List Run} {k : Bytes} (n : Nat) (h : memGet mems k = none) :
    memGet (mems.drop n) k = none := by
  unfold memGet at *
  rw [firstSome_eq_none] at *
  intro x hx
  exact h x (by
    have : x ∈ mems.drop n := by simpa using hx
    simpa using List.mem_of_mem_drop this)

theorem step_inv (hcs : CompactionSound ∨ True) {s s' : State} {m : Spec} (a : Act)
    (hc : (∀ rm lvl add, a = .compact rm lvl add → CompactionSound))
    (h : Inv s m) (hr : ReadInv s m) (hstep : step s a = some s') :
    Inv s' (specStep m s.seq a) ∧ ReadInv s' (specStep m s.seq a) := by
  cases a with
  | put k v =>
    simp only [step, write] at hstep
    split at hstep
    · cases hstep
    · rename_i hnr
      split at hstep
      · cases hstep
      · rename_i active sealedRev hm
        cases hstep
        refine ⟨inv_write h _ rfl active sealedRev hm, ?_⟩
        intro k' r hrd
        have : s.reading = none := by simpa using hnr
        simp [this] at hrd
  | del k =>
    simp only [step, write] at hstep
    split at hstep
    · cases hstep
    · rename_i hnr
      split at hstep
      · cases hstep
      · rename_i active sealedRev hm
        cases hstep
        refine ⟨inv_write h _ rfl active sealedRev hm, ?_⟩
        intro k' r hrd
        have : s.reading = none := by simpa using hnr
        simp [this] at hrd
  | rotate =>
    simp only [step] at hstep; cases hstep
    refine ⟨inv_rotate h, ?_⟩
    intro k r hrd
    have := hr k r hrd
    exact ⟨fun h0 => by rw [memGet_rotate]; exact this.1 h0, this.2⟩
  | flushBegin n =>
    simp only [step] at hstep
    split at hstep
    · cases hstep
    · split at hstep
      · cases hstep
        exact ⟨⟨h.mems_ne, h.levels_ne, h.sorted, h.hit, h.seqBound, h.newer, h.deep⟩, hr⟩
      · cases hstep
  | flushCommit =>
    simp only [step] at hstep
    split at hstep
    · cases hstep
    · rename_i snap hfl
      split at hstep
      · rename_i hcond
        cases hstep
        refine ⟨inv_flushCommit h snap hcond.1 hcond.2, ?_⟩
        intro k r hrd
        have := hr k r hrd
        exact ⟨fun h0 => memGet_drop_none _ (this.1 h0), this.2⟩
      · cases hstep
  | flushAbort =>
    simp only [step] at hstep
    split at hstep
    · cases hstep
    · cases hstep
      exact ⟨⟨h.mems_ne, h.levels_ne, h.sorted, h.hit, h.seqBound, h.newer, h.deep⟩, hr⟩
  | compact rm lvl add =>
    simp only [step] at hstep
    split at hstep
    · rename_i hsafe
      cases hstep
      exact ⟨hc rm lvl add rfl s m rm lvl add h hsafe, hr⟩
    · cases hstep
  | getA k =>
    simp only [step] at hstep
    split at hstep
    · cases hstep
    · cases hstep
      refine ⟨⟨h.mems_ne, h.levels_ne, h.sorted, h.hit, h.seqBound, h.newer, h.deep⟩, ?_⟩
      intro k' r hrd
      simp only [Option.some.injEq, Prod.mk.injEq] at hrd
      obtain ⟨hk, hr'⟩ := hrd
      subst hk
      refine ⟨fun h0 => (by show memGet s.mems k = none; rw [hr']; exact h0), ?_⟩
      intro e he
      have hh := h.hit k
      rw [← get_eq_firstHit h] at hh
      unfold get at hh
      rw [hr', he] at hh
      exact hh.symm
  | getB =>
    simp only [step] at hstep
    split at hstep
    · cases hstep
    · cases hstep
      refine ⟨⟨h.mems_ne, h.levels_ne, h.sorted, h.hit, h.seqBound, h.newer, h.deep⟩, ?_⟩
      intro k r hrd; simp at hrd

theorem readInv_init : ReadInv {} [] := by intro k r h; simp at h

theorem runBoth_inv (hcs : ∀ as' : List Act, True) :
    ∀ (as : List Act) (s : State) (m : Spec) (s' : State) (m' : Spec),
    (noCompact as = true ∨ CompactionSound) → Inv s m → ReadInv s m → runBoth s m as = some (s', m') →
    Inv s' m' ∧ ReadInv s' m' := by
  intro as
  induction as with
  | nil => intro s m s' m' _ h hr hrun; simp [runBoth] at hrun; obtain ⟨rfl, rfl⟩ := hrun; exact ⟨h, hr⟩
  | cons a as ih =>
    intro s m s' m' hno h hr hrun
    simp only [runBoth] at hrun
    split at hrun
    · rename_i s1 hstep
      have hc : ∀ rm lvl add, a = .compact rm lvl add → CompactionSound := by
        intro rm lvl add ha
        cases hno with
        | inl hn => subst ha; simp [noCompact] at hn
        | inr hs => exact hs
      have hno' : noCompact as = true ∨ CompactionSound := by
        cases hno with
        | inl hn => left; cases a <;> simp_all [noCompact]
        | inr hs => exact Or.inr hs
      have := step_inv (Or.inr trivial) a hc h hr hstep
      exact ih s1 _ s' m' hno' this.1 this.2 hrun
    · cases hrun

/-- a read completing its second phase in state `s` -/
theorem getB_correct {s : State} {m : Spec} (h : Inv s m) (hr : ReadInv s m) (k : Bytes) (r : Option Entry)
    (hrd : s.reading = some (k, r)) : getBResult s = Spec.get m k := by
  have := hr k r hrd
  unfold getBResult
  rw [hrd]
  cases r with
  | some e => simp only; exact (this.2 e rfl).symm
  | none =>
    simp only
    have hm := this.1 rfl
    have hh := h.hit k
    rw [← get_eq_firstHit h] at hh
    unfold get at hh
    rw [hm] at hh
    exact hh

end Rxn.Lsm
