import RxnModel.Proofs.TimersStore
/-!
`Store.earliest` and the fire loop of `AdvanceWatermark` at the level of DB keys: the loop fires exactly the owned timer
keys whose timestamp is at or before the composite watermark, each once, in non-decreasing timestamp-byte order, and
deletes exactly those from the DB.
-/
namespace Rxn.Timers
open Rxn Rxn.Bytes

theorem foldl_congr_mem {α β : Type} (f g : β → α → β) (l : List α) (init : β)
    (h : ∀ b, ∀ a ∈ l, f b a = g b a) : l.foldl f init = l.foldl g init := by
  induction l generalizing init with
  | nil => rfl
  | cons x xs ih =>
    simp only [List.foldl_cons]
    rw [h init x List.mem_cons_self]
    exact ih _ (fun b a ha => h b a (List.mem_cons_of_mem _ ha))

theorem foldl_better_spec (hs : List (Option Bytes)) (acc : Option Bytes) :
    (hs.foldl better acc = none ↔ acc = none ∧ ∀ h ∈ hs, h = none) ∧
    ∀ k, hs.foldl better acc = some k → (acc = some k ∨ some k ∈ hs) ∧
      (∀ b, acc = some b → leTs k b) ∧ (∀ b, some b ∈ hs → leTs k b) := by
  induction hs generalizing acc with
  | nil =>
    refine ⟨by simp, ?_⟩
    intro k hk
    simp only [List.foldl_nil] at hk
    exact ⟨Or.inl hk, by intro b hb; rw [hk] at hb; cases hb; exact leTs_refl _, by intro b hb; cases hb⟩
  | cons h hs ih =>
    obtain ⟨b1, b2⟩ := better_spec acc h
    obtain ⟨i1, i2⟩ := ih (better acc h)
    simp only [List.foldl_cons]
    refine ⟨?_, ?_⟩
    · rw [i1, b1]
      constructor
      · rintro ⟨⟨a, b⟩, c⟩
        exact ⟨a, by intro x hx; rcases List.mem_cons.mp hx with e | e; exact e ▸ b; exact c x e⟩
      · rintro ⟨a, c⟩
        exact ⟨⟨a, c h List.mem_cons_self⟩, fun x hx => c x (List.mem_cons_of_mem _ hx)⟩
    · intro k hk
      obtain ⟨j1, j2, j3⟩ := i2 k hk
      refine ⟨?_, ?_, ?_⟩
      · rcases j1 with e | e
        · rcases (b2 k e).1 with e' | e'
          · exact Or.inl e'
          · exact Or.inr (e' ▸ List.mem_cons_self)
        · exact Or.inr (List.mem_cons_of_mem _ e)
      · intro b hb
        cases hbt : better acc h with
        | none => rw [b1] at hbt; rw [hbt.1] at hb; cases hb
        | some m => exact leTs_trans (j2 m hbt) ((b2 m hbt).2.1 b hb)
      · intro b hb
        rcases List.mem_cons.mp hb with e | e
        · cases hbt : better acc h with
          | none => rw [b1] at hbt; rw [hbt.2] at e; cases e
          | some m => exact leTs_trans (j2 m hbt) ((b2 m hbt).2.2 b e.symm)
        · exact j3 b e

/-- `k` belongs to one of the store's key groups -/
def Store.ownsKey (s : Store) (k : Bytes) : Prop := ∃ (j : Nat) (q : KGPQ), s.parts[j]? = some q ∧ Bytes.hasPrefix k q.pfx = true

theorem mem_timerKeys (s : Store) (k : Bytes) : k ∈ s.timerKeys ↔ k ∈ s.db ∧ s.ownsKey k := by
  unfold Store.timerKeys Store.ownsKey
  rw [List.mem_flatMap]
  constructor
  · rintro ⟨q, hq, hk⟩
    obtain ⟨j, hj⟩ := List.mem_iff_getElem?.mp hq
    simp only [DB.scan, List.mem_filter] at hk
    exact ⟨hk.1, j, q, hj, hk.2⟩
  · rintro ⟨hdb, j, q, hj, hp⟩
    exact ⟨q, List.mem_iff_getElem?.mpr ⟨j, hj⟩, by simp [DB.scan, List.mem_filter, hdb, hp]⟩

theorem ownsKey_step {s s' : Store} {db' : DB} (h : StoreStep s s' db') (k : Bytes) : s'.ownsKey k ↔ s.ownsKey k := by
  unfold Store.ownsKey
  constructor
  · rintro ⟨j, q, hj, hp⟩
    have := h.pfx j
    rw [hj] at this
    cases hq : s.parts[j]? with
    | none => rw [hq] at this; cases this
    | some q0 =>
      rw [hq] at this
      simp only [Option.map_some, Option.some.injEq] at this
      exact ⟨j, q0, hq, by rw [← this]; exact hp⟩
  · rintro ⟨j, q, hj, hp⟩
    have := h.pfx j
    rw [hj] at this
    cases hq : s'.parts[j]? with
    | none => rw [hq] at this; cases this
    | some q0 =>
      rw [hq] at this
      simp only [Option.map_some, Option.some.injEq] at this
      exact ⟨j, q0, hq, by rw [this]; exact hp⟩

theorem partIdx_of_owns (s : Store) (hs : SInv s) (k : Bytes) (h : s.ownsKey k) :
    s.partIdx k < s.parts.length ∧ Bytes.hasPrefix k (kgPrefix (s.start + s.partIdx k)) = true := by
  obtain ⟨j, q, hj, hp⟩ := h
  have hjl : j < s.parts.length := (List.getElem?_eq_some_iff.mp hj).1
  rw [(hs.parts j q hj).2] at hp
  have := partIdx_of_prefix s k j (by have := hs.bound; omega) hp
  rw [this]
  exact ⟨hjl, hp⟩

/-- `GetEarliest`: none iff no owned timer is in the DB; otherwise an owned timer key with the least timestamp bytes —
whatever the cache sizes and whichever partitions the heap has peeked at -/
theorem earliest_spec (s : Store) (hs : SInv s) :
    (s.earliest = none → s.timerKeys = []) ∧
    ∀ k, s.earliest = some k → k ∈ s.timerKeys ∧ ∀ k' ∈ s.timerKeys, leTs k k' := by
  have hfold : s.earliest = (s.parts.map fun q => (s.db.scan q.pfx).head?).foldl better none := by
    unfold Store.earliest
    rw [List.foldl_map]
    apply foldl_congr_mem
    intro best q hq
    obtain ⟨j, hj⟩ := List.mem_iff_getElem?.mp hq
    rw [KGPQ.peekView_eq q s.db (hs.parts j q hj).1 hs.db]
  obtain ⟨f1, f2⟩ := foldl_better_spec (s.parts.map fun q => (s.db.scan q.pfx).head?) none
  rw [hfold]
  refine ⟨?_, ?_⟩
  · intro hnone
    have hall := (f1.mp hnone).2
    unfold Store.timerKeys
    apply List.flatMap_eq_nil_iff.mpr
    intro q hq
    have := hall _ (List.mem_map.mpr ⟨q, hq, rfl⟩)
    exact List.head?_eq_none_iff.mp this
  · intro k hk
    obtain ⟨g1, _, g3⟩ := f2 k hk
    have hmem : some k ∈ s.parts.map fun q => (s.db.scan q.pfx).head? := by
      rcases g1 with e | e
      · cases e
      · exact e
    obtain ⟨q, hq, hqk⟩ := List.mem_map.mp hmem
    refine ⟨?_, ?_⟩
    · unfold Store.timerKeys
      exact List.mem_flatMap.mpr ⟨q, hq, List.mem_of_head? hqk⟩
    · intro k' hk'
      unfold Store.timerKeys at hk'
      obtain ⟨q', hq', hkq'⟩ := List.mem_flatMap.mp hk'
      obtain ⟨j', hj'⟩ := List.mem_iff_getElem?.mp hq'
      cases hscan : s.db.scan q'.pfx with
      | nil => rw [hscan] at hkq'; cases hkq'
      | cons h' t' =>
        have hhead : some h' ∈ s.parts.map fun q => (s.db.scan q.pfx).head? :=
          List.mem_map.mpr ⟨q', hq', by rw [hscan]; rfl⟩
        have h1 : leTs k h' := g3 h' hhead
        have hsorted : Sorted (h' :: t') := by rw [← hscan]; exact scan_sorted hs.db _
        have hp' : ∀ x ∈ s.db.scan q'.pfx, Bytes.hasPrefix x q'.pfx = true := by
          intro x hx; simp only [DB.scan, List.mem_filter] at hx; exact hx.2
        have hlen : q'.pfx.length = 3 := by rw [(hs.parts j' q' hj').2]; exact kgPrefix_length _
        have h2 : leTs h' k' := by
          rw [hscan] at hkq' hp'
          rcases List.mem_cons.mp hkq' with e | e
          · rw [e]; exact leTs_refl _
          · have hlt := hsorted.head_lt k' e
            apply leTs_of_le_same_prefix q'.pfx h' k' hlen (hp' h' List.mem_cons_self) (hp' k' hkq')
            have : Bytes.cmp h' k' = .lt := by simpa [Bytes.lt] using hlt
            rw [this]; simp
        exact leTs_trans h1 h2

/-- what one run of the fire loop does, in terms of DB keys -/
structure FireOK (comp : Int) (s s' : Store) (fired : List (Bytes × Int)) (keys : List Bytes) : Prop where
  fired : fired = keys.map timerOf
  inv : SInv s'
  db : s'.db = keys.foldl (fun d k => d.erase k) s.db
  len : s'.parts.length = s.parts.length
  start : s'.start = s.start
  kgc : s'.kgc = s.kgc
  owns : ∀ k, s'.ownsKey k ↔ s.ownsKey k
  due : ∀ k ∈ keys, k ∈ s.timerKeys ∧ (timerOf k).2 ≤ comp
  ordered : keys.Pairwise leTs
  nodup : keys.Nodup
  remaining : ∀ x, x ∈ s'.timerKeys ↔ (x ∈ s.timerKeys ∧ x ∉ keys)
  stopped : s'.earliest = none ∨ ∃ k, s'.earliest = some k ∧ (timerOf k).2 > comp

theorem fireLoop_spec (comp : Int) (n : Nat) (s : Store) (hs : SInv s) (hn : s.db.length < n) :
    ∃ keys, FireOK comp s (fireLoop comp n s).1 (fireLoop comp n s).2 keys := by
  induction n generalizing s with
  | zero => omega
  | succ n ih =>
    simp only [fireLoop]
    cases he : s.earliest with
    | none =>
      exact ⟨[], rfl, hs, rfl, rfl, rfl, rfl, fun _ => Iff.rfl, (by intro k hk; cases hk), List.Pairwise.nil,
        List.nodup_nil, (by intro x; simp), Or.inl he⟩
    | some k0 =>
      dsimp only
      by_cases hstop : Wm.timeCond Facts.fireStopCond (timerOf k0).2 comp = true
      · rw [if_pos hstop]
        refine ⟨[], rfl, hs, rfl, rfl, rfl, rfl, fun _ => Iff.rfl, (by intro k hk; cases hk), List.Pairwise.nil,
          List.nodup_nil, (by intro x; simp), Or.inr ⟨k0, he, ?_⟩⟩
        simpa [Wm.timeCond, Facts.fireStopCond] using hstop
      · rw [if_neg hstop]
        have hdue : (timerOf k0).2 ≤ comp := by
          simp only [Wm.timeCond, Facts.fireStopCond, decide_eq_true_eq] at hstop
          omega
        obtain ⟨hk0mem, hk0min⟩ := (earliest_spec s hs).2 k0 he
        obtain ⟨hk0db, hk0own⟩ := (mem_timerKeys s k0).mp hk0mem
        obtain ⟨hidx, _⟩ := partIdx_of_owns s hs k0 hk0own
        have hstep := deleteKey_spec s hs k0 hidx
        have hlen1 : (s.deleteKey k0).db.length < n := by
          rw [hstep.db, List.length_erase_of_mem hk0db]
          have := List.length_pos_of_mem hk0db
          omega
        obtain ⟨keys1, r⟩ := ih (s.deleteKey k0) hstep.inv hlen1
        have hmem1 : ∀ x, x ∈ (s.deleteKey k0).timerKeys ↔ (x ∈ s.timerKeys ∧ x ≠ k0) := by
          intro x
          rw [mem_timerKeys, mem_timerKeys, hstep.db, mem_erase_sorted hs.db, ownsKey_step hstep]
          constructor
          · rintro ⟨⟨a, b⟩, c⟩; exact ⟨⟨b, c⟩, a⟩
          · rintro ⟨⟨b, c⟩, a⟩; exact ⟨⟨a, b⟩, c⟩
        refine ⟨k0 :: keys1, ?_, r.inv, ?_, r.len.trans hstep.len, r.start.trans hstep.start, r.kgc.trans hstep.kgc,
          ?_, ?_, ?_, ?_, ?_, r.stopped⟩
        · simp [r.fired]
        · rw [r.db, hstep.db]; rfl
        · intro k; rw [r.owns k, ownsKey_step hstep]
        · intro k hk
          rcases List.mem_cons.mp hk with e | e
          · subst e; exact ⟨hk0mem, hdue⟩
          · exact ⟨((hmem1 k).mp (r.due k e).1).1, (r.due k e).2⟩
        · refine List.pairwise_cons.mpr ⟨?_, r.ordered⟩
          intro k hk
          exact hk0min k ((hmem1 k).mp (r.due k hk).1).1
        · refine List.nodup_cons.mpr ⟨?_, r.nodup⟩
          intro hk
          exact ((hmem1 k0).mp (r.due k0 hk).1).2 rfl
        · intro x
          rw [r.remaining x, hmem1 x]
          simp only [List.mem_cons, not_or]
          constructor
          · rintro ⟨⟨a, b⟩, c⟩; exact ⟨a, b, c⟩
          · rintro ⟨a, b, c⟩; exact ⟨⟨a, b⟩, c⟩

end Rxn.Timers
