import RxnModel.Model.KeySpace
namespace Rxn.KeySpace

theorem rangesLoop_closed (m b : Nat) : ∀ (fuel i : Nat),
    rangesLoop m b fuel i (i * m + min i b) =
      (List.range' i fuel).map (fun j => ⟨j * m + min j b, (j + 1) * m + min (j + 1) b⟩) := by
  intro fuel
  induction fuel with
  | zero => intro i; simp [rangesLoop]
  | succ f ih =>
    intro i
    have he : i * m + min i b + m + (if i < b then 1 else 0) = (i + 1) * m + min (i + 1) b := by
      rw [Nat.succ_mul]; split <;> omega
    simp only [rangesLoop, List.range'_succ, List.map_cons]
    rw [he, ih (i + 1)]

theorem ranges_closed_form (kgc n : Nat) :
    ranges kgc n = (List.range n).map (fun i => ⟨startOf kgc n i, startOf kgc n (i + 1)⟩) := by
  have := rangesLoop_closed (kgc / n) (kgc % n) n 0
  simp only [Nat.zero_mul, Nat.zero_min, Nat.add_zero] at this
  unfold ranges
  rw [this, List.range_eq_range']
  rfl

theorem startOf_zero (kgc n : Nat) : startOf kgc n 0 = 0 := by simp [startOf]

theorem startOf_n (kgc n : Nat) (hn : 0 < n) : startOf kgc n n = kgc := by
  unfold startOf
  have h1 : kgc % n < n := Nat.mod_lt _ hn
  rw [Nat.min_eq_right (Nat.le_of_lt h1)]
  exact Nat.div_add_mod kgc n

theorem startOf_step (kgc n i : Nat) :
    startOf kgc n (i + 1) = startOf kgc n i + kgc / n + (if i < kgc % n then 1 else 0) := by
  unfold startOf; rw [Nat.succ_mul]; split <;> omega

theorem startOf_mono (kgc n : Nat) {i j : Nat} (h : i ≤ j) : startOf kgc n i ≤ startOf kgc n j := by
  induction j with
  | zero => have : i = 0 := by omega
            subst this; exact Nat.le_refl _
  | succ k ih =>
    by_cases hk : i ≤ k
    · refine Nat.le_trans (ih hk) ?_
      rw [startOf_step]
      exact Nat.le_trans (Nat.le_add_right _ _) (Nat.le_add_right _ _)
    · have : i = k + 1 := by omega
      subst this; exact Nat.le_refl _

end Rxn.KeySpace

namespace Rxn.KeySpace

theorem fillRange_length (tbl : List Nat) (i : Nat) : ∀ c j, (fillRange tbl i c j).length = tbl.length := by
  intro c
  induction c generalizing tbl with
  | zero => intro j; rfl
  | succ c ih => intro j; simp [fillRange, ih]

theorem fillRange_getD (i d : Nat) : ∀ (c : Nat) (tbl : List Nat) (j g : Nat),
    (fillRange tbl i c j).getD g d =
      if j ≤ g ∧ g < j + c ∧ g < tbl.length then i % 65536 else tbl.getD g d := by
  intro c
  induction c with
  | zero => intro tbl j g; simp [fillRange]; omega
  | succ c ih =>
    intro tbl j g
    simp only [fillRange]
    rw [ih]
    simp only [List.length_set]
    by_cases hg : g = j
    · subst hg
      by_cases hl : g < tbl.length
      · simp [hl, List.getD_eq_getElem?_getD]
      · simp [hl, List.getD_eq_getElem?_getD]
    · have : (tbl.set j (i % 65536)).getD g d = tbl.getD g d := by
        simp [List.getD_eq_getElem?_getD, Ne.symm hg]
      rw [this]
      by_cases h1 : j + 1 ≤ g ∧ g < j + 1 + c ∧ g < tbl.length
      · have h2 : j ≤ g ∧ g < j + (c + 1) ∧ g < tbl.length := by omega
        simp [h1, h2]
      · have h2 : ¬ (j ≤ g ∧ g < j + (c + 1) ∧ g < tbl.length) := by omega
        simp [h1, h2]

/-- consecutive ranges starting at `s` -/
def Chain : Nat → List KGRange → Prop
  | _, [] => True
  | s, r :: rs => r.start = s ∧ r.start ≤ r.stop ∧ Chain r.stop rs

theorem fillAll_length : ∀ (rs : List KGRange) (tbl : List Nat) (i : Nat), (fillAll tbl i rs).length = tbl.length := by
  intro rs
  induction rs with
  | nil => intro tbl i; rfl
  | cons r rs ih => intro tbl i; simp [fillAll, ih, fillRange_length]

theorem fillAll_below (d g : Nat) : ∀ (rs : List KGRange) (s : Nat) (tbl : List Nat) (i : Nat),
    Chain s rs → g < s → (fillAll tbl i rs).getD g d = tbl.getD g d := by
  intro rs
  induction rs with
  | nil => intro s tbl i _ _; rfl
  | cons r rs ih =>
    intro s tbl i hc hg
    obtain ⟨h1, h2, h3⟩ := hc
    simp only [fillAll]
    rw [ih r.stop _ _ h3 (by omega), fillRange_getD]
    have : ¬ (r.start ≤ g ∧ g < r.start + (r.stop - r.start) ∧ g < tbl.length) := by omega
    simp [this]

theorem fillAll_hit (d g : Nat) : ∀ (rs : List KGRange) (s : Nat) (tbl : List Nat) (i k : Nat) (r : KGRange),
    Chain s rs → rs[k]? = some r → r.includes g = true → g < tbl.length →
    (fillAll tbl i rs).getD g d = (i + k) % 65536 := by
  intro rs
  induction rs with
  | nil => intro s tbl i k r _ h; simp at h
  | cons r0 rs ih =>
    intro s tbl i k r hc hk hinc hlen
    obtain ⟨h1, h2, h3⟩ := hc
    simp only [fillAll]
    cases k with
    | zero =>
      simp at hk; subst hk
      simp [KGRange.includes, Gen.kgIncludes] at hinc
      rw [fillAll_below d g rs r0.stop _ _ h3 (by omega), fillRange_getD]
      have : r0.start ≤ g ∧ g < r0.start + (r0.stop - r0.start) ∧ g < tbl.length := by omega
      simp [this]
    | succ k =>
      simp at hk
      rw [ih r0.stop _ (i + 1) k r h3 hk hinc (by rw [fillRange_length]; exact hlen)]
      congr 1; omega

theorem chain_map (f : Nat → Nat) (hf : ∀ i, f i ≤ f (i + 1)) : ∀ (len i : Nat),
    Chain (f i) ((List.range' i len).map (fun j => (⟨f j, f (j + 1)⟩ : KGRange))) := by
  intro len
  induction len with
  | zero => intro i; simp [Chain]
  | succ len ih =>
    intro i
    simp only [List.range'_succ, List.map_cons]
    exact ⟨rfl, hf i, ih (i + 1)⟩

theorem ranges_chain (kgc n : Nat) : Chain 0 (ranges kgc n) := by
  rw [ranges_closed_form, List.range_eq_range']
  have := chain_map (startOf kgc n) (fun i => startOf_mono kgc n (Nat.le_succ i)) n 0
  rw [startOf_zero] at this
  exact this

theorem ranges_get (kgc n i : Nat) (hi : i < n) :
    (ranges kgc n)[i]? = some ⟨startOf kgc n i, startOf kgc n (i + 1)⟩ := by
  rw [ranges_closed_form]; simp [hi]

theorem ranges_length (kgc n : Nat) : (ranges kgc n).length = n := by
  rw [ranges_closed_form]; simp

/-- some range holds every key group below the total -/
theorem exists_range (kgc n g : Nat) : g < startOf kgc n n →
    ∃ i, i < n ∧ startOf kgc n i ≤ g ∧ g < startOf kgc n (i + 1) := by
  suffices h : ∀ m, g < startOf kgc n m → ∃ i, i < m ∧ startOf kgc n i ≤ g ∧ g < startOf kgc n (i + 1) from h n
  intro m
  induction m with
  | zero => intro h; simp [startOf] at h
  | succ m ih =>
    intro h
    by_cases hg : g < startOf kgc n m
    · obtain ⟨i, hi, h1, h2⟩ := ih hg
      exact ⟨i, by omega, h1, h2⟩
    · exact ⟨m, by omega, by omega, h⟩

end Rxn.KeySpace
