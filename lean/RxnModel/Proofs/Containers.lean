import RxnModel.Model.Containers
import RxnModel.Base.BytesOrder
/-! Invariants of `SortedCache` (ordering and byte accounting), `Set` and `SortedMap`. -/
namespace Rxn.SortedCache

def sumLen (l : List Bytes) : Nat := (l.map List.length).sum

abbrev Asc (l : List Bytes) : Prop := l.Pairwise (fun a b => Bytes.cmp a b = .lt)

/-- strictly ascending (hence duplicate-free) contents, and the counter equals the bytes held -/
structure CInv (c : Cache) : Prop where
  sorted : Asc c.items
  bytes : c.byteSize = sumLen c.items

theorem roi_spec (k : Bytes) (l : List Bytes) (h : Asc l) :
    Asc (replaceOrInsert k l).2 ∧
    (∀ e, e ∈ (replaceOrInsert k l).2 ↔ e = k ∨ e ∈ l) ∧
    sumLen (replaceOrInsert k l).2 + (match (replaceOrInsert k l).1 with | some o => o.length | none => 0)
      = sumLen l + k.length ∧
    (∀ o, (replaceOrInsert k l).1 = some o → o.length ≤ sumLen l) := by
  induction l with
  | nil => simp [replaceOrInsert, sumLen]
  | cons x xs ih =>
    have hx := List.pairwise_cons.mp h
    simp only [replaceOrInsert]
    cases hc : Bytes.cmp k x with
    | lt =>
      simp only []
      refine ⟨?_, by simp, by simp [sumLen]; omega, by simp⟩
      refine List.pairwise_cons.mpr ⟨?_, h⟩
      intro e he
      simp only [List.mem_cons] at he
      rcases he with rfl | he
      · exact hc
      · exact Bytes.cmp_lt_trans hc (hx.1 e he)
    | eq =>
      have hk : k = x := Bytes.cmp_eq_iff.mp hc
      simp only []
      refine ⟨?_, ?_, by simp [sumLen]; omega, ?_⟩
      · exact List.pairwise_cons.mpr ⟨by rw [hk]; exact hx.1, hx.2⟩
      · intro e; simp only [List.mem_cons]; rw [hk]; constructor
        · rintro (h1 | h1) <;> simp [h1]
        · rintro (h1 | h1 | h1) <;> simp [h1]
      · intro o ho; cases ho; simp [sumLen]
    | gt =>
      obtain ⟨a, b, c, d⟩ := ih hx.2
      simp only []
      refine ⟨?_, ?_, ?_, ?_⟩
      · refine List.pairwise_cons.mpr ⟨?_, a⟩
        intro e he
        rcases (b e).mp he with rfl | h2
        · exact Bytes.cmp_gt_iff_lt.mp hc
        · exact hx.1 e h2
      · intro e; simp only [List.mem_cons, b e]
        constructor
        · rintro (h1 | h1 | h1) <;> simp [h1]
        · rintro (h1 | h1 | h1) <;> simp [h1]
      · simp only [sumLen, List.map_cons, List.sum_cons] at c ⊢; omega
      · intro o ho; have := d o ho; simp only [sumLen, List.map_cons, List.sum_cons] at this ⊢; omega

theorem sumLen_erase (k : Bytes) (l : List Bytes) (h : k ∈ l) : sumLen (l.erase k) + k.length = sumLen l := by
  induction l with
  | nil => cases h
  | cons x xs ih =>
    rw [List.erase_cons]
    by_cases hx : (x == k) = true
    · rw [if_pos hx]; have : x = k := by simpa using hx
      simp only [sumLen, this, List.map_cons, List.sum_cons]; omega
    · rw [if_neg hx]
      have hk : k ∈ xs := by
        simp only [List.mem_cons] at h
        rcases h with h | h
        · exfalso; apply hx; simp [h]
        · exact h
      have := ih hk
      simp only [sumLen, List.map_cons, List.sum_cons] at this ⊢; omega

theorem push_inv (c : Cache) (v : Bytes) (h : CInv c) : CInv (push c v) := by
  obtain ⟨a, _, s, d⟩ := roi_spec v c.items h.sorted
  refine ⟨a, ?_⟩
  simp only [push]
  rw [h.bytes]
  cases hr : (replaceOrInsert v c.items).1 with
  | none => rw [hr] at s; simp only at s ⊢; omega
  | some o => rw [hr] at s; have := d o hr; simp only at s ⊢; omega

theorem pop_inv (c : Cache) (h : CInv c) : CInv (pop c).2 := by
  unfold pop
  cases hi : c.items with
  | nil => simp only []; exact h
  | cons x xs =>
    simp only []
    have hs := h.sorted; rw [hi] at hs
    refine ⟨(List.pairwise_cons.mp hs).2, ?_⟩
    simp only [h.bytes, hi, sumLen, List.map_cons, List.sum_cons]; omega

theorem popLast_inv (c : Cache) (h : CInv c) : CInv (popLast c).2 := by
  unfold popLast
  cases hl : c.items.getLast? with
  | none => simp only []; exact h
  | some x =>
    simp only []
    obtain ⟨ys, hys⟩ := List.getLast?_eq_some_iff.mp hl
    have hs := h.sorted; rw [hys] at hs
    refine ⟨?_, ?_⟩
    · simp only [hys, List.dropLast_concat]; exact (List.pairwise_append.mp hs).1
    · simp only [h.bytes, hys, List.dropLast_concat, sumLen, List.map_append, List.sum_append, List.map_cons,
        List.map_nil, List.sum_cons, List.sum_nil]; omega

theorem delete_inv (c : Cache) (k : Bytes) (h : CInv c) : CInv (delete c k) := by
  unfold delete
  by_cases hk : c.items.contains k = true
  · rw [if_pos hk]
    have hm : k ∈ c.items := by simpa using hk
    refine ⟨List.Pairwise.sublist List.erase_sublist h.sorted, ?_⟩
    have := sumLen_erase k c.items hm
    simp only [h.bytes]; omega
  · rw [if_neg hk]; exact h

theorem step_inv (c : Cache) (o : Op) (h : CInv c) : CInv (step c o) := by
  cases o with
  | push v => exact push_inv c v h
  | pop => exact pop_inv c h
  | popLast => exact popLast_inv c h
  | delete k => exact delete_inv c k h

theorem run_inv (maxSize : Nat) (ops : List Op) : CInv (run maxSize ops) := by
  have : ∀ (c : Cache), CInv c → CInv (ops.foldl step c) := by
    induction ops with
    | nil => intro c h; exact h
    | cons o ops ih => intro c h; exact ih _ (step_inv c o h)
  exact this _ ⟨List.Pairwise.nil, rfl⟩

end Rxn.SortedCache

namespace Rxn.OSet

/-- the map and the slice hold the same elements; the slice has no duplicates -/
structure SInv (s : S) : Prop where
  same : ∀ v, v ∈ s.m ↔ v ∈ s.l
  nodup : s.l.Nodup

theorem has_iff (s : S) (h : SInv s) (v : Nat) : has s v = true ↔ v ∈ s.l := by
  simp [has, h.same v]

theorem add1_inv (s : S) (v : Nat) (h : SInv s) : SInv (add1 s v) := by
  unfold add1
  by_cases hv : has s v = true
  · rw [if_pos hv]; exact h
  · rw [if_neg hv]
    have hnl : v ∉ s.l := fun hm => hv ((has_iff s h v).mpr hm)
    refine ⟨?_, ?_⟩
    · intro w; simp only [List.mem_cons, List.mem_append, List.not_mem_nil, or_false, h.same w]
      exact Or.comm
    · rw [List.nodup_append]
      refine ⟨h.nodup, by simp, ?_⟩
      intro a ha b hb
      simp only [List.mem_singleton] at hb
      rw [hb]; intro e; exact hnl (e ▸ ha)

theorem add_inv (s : S) (vs : List Nat) (h : SInv s) : SInv (add s vs) := by
  unfold add
  induction vs generalizing s with
  | nil => exact h
  | cons v vs ih => exact ih _ (add1_inv s v h)

/-- `Add` appends exactly the new elements, first occurrence first -/
theorem add1_slice (s : S) (v : Nat) (h : SInv s) : (add1 s v).l = if v ∈ s.l then s.l else s.l ++ [v] := by
  unfold add1
  by_cases hv : has s v = true
  · rw [if_pos hv, if_pos ((has_iff s h v).mp hv)]
  · rw [if_neg hv, if_neg (fun hm => hv ((has_iff s h v).mpr hm))]

theorem without_inv (s : S) (vs : List Nat) (h : SInv s) : SInv (without s vs) := by
  refine ⟨?_, ?_⟩
  · intro v; simp only [without, List.mem_filter, h.same v]
  · exact List.Pairwise.sublist List.filter_sublist h.nodup

theorem diff_inv (s s2 : S) : SInv (diff s s2) := by
  unfold diff
  exact add_inv {} _ ⟨by simp, by simp⟩

theorem foldl_add1_mem (vs : List Nat) (s : S) (h : SInv s) (v : Nat) :
    v ∈ (vs.foldl add1 s).l ↔ v ∈ s.l ∨ v ∈ vs := by
  induction vs generalizing s with
  | nil => simp
  | cons x xs ih =>
    simp only [List.foldl_cons]
    rw [ih _ (add1_inv s x h), add1_slice s x h]
    by_cases hx : x ∈ s.l
    · rw [if_pos hx]; simp only [List.mem_cons]
      constructor
      · rintro (h1 | h1) <;> simp [h1]
      · rintro (h1 | h1 | h1)
        · exact Or.inl h1
        · exact Or.inl (h1 ▸ hx)
        · exact Or.inr h1
    · rw [if_neg hx]; simp only [List.mem_append, List.mem_cons, List.not_mem_nil, or_false]
      exact or_assoc

theorem add_slice (vs : List Nat) (s : S) (h : SInv s) :
    (add s vs).l = vs.foldl (fun l v => if v ∈ l then l else l ++ [v]) s.l := by
  unfold add
  induction vs generalizing s with
  | nil => rfl
  | cons v vs ih =>
    simp only [List.foldl_cons]
    rw [ih _ (add1_inv s v h), add1_slice s v h]

theorem step_spec (s : S) (o : Op) (h : SInv s) : SInv (step s o) ∧ (step s o).l = specStep s.l o := by
  cases o with
  | add vs => exact ⟨add_inv s vs h, add_slice vs s h⟩
  | without vs => exact ⟨without_inv s vs h, rfl⟩

theorem run_spec (ops : List Op) : SInv (run ops) ∧ (run ops).l = specRun ops := by
  have key : ∀ (s : S) (l : List Nat), SInv s → s.l = l →
      SInv (ops.foldl step s) ∧ (ops.foldl step s).l = ops.foldl specStep l := by
    induction ops with
    | nil => intro s l a b; exact ⟨a, b⟩
    | cons o ops ih =>
      intro s l a b
      obtain ⟨c, d⟩ := step_spec s o a
      exact ih _ _ c (by rw [d, b])
  exact key {} [] ⟨by simp, by simp⟩ rfl

end Rxn.OSet

namespace Rxn.SortedMap

theorem lookup_mapSet (m : List (Nat × Nat)) (k v k' : Nat) :
    lookup (mapSet m k v) k' = if k' = k then some v else lookup m k' := by
  unfold lookup mapSet
  by_cases hk : k' = k
  · subst hk; simp
  · rw [if_neg hk]
    have h1 : (k == k') = false := by simp; exact fun e => hk e.symm
    simp only [List.find?_cons, h1]
    congr 1
    induction m with
    | nil => rfl
    | cons e es ih =>
      simp only [List.filter_cons]
      by_cases he : (e.1 != k) = true
      · rw [if_pos he]; simp only [List.find?_cons]; rw [ih]
      · rw [if_neg he]
        have : e.1 = k := by simpa using he
        have h2 : (e.1 == k') = false := by rw [this]; exact h1
        simp only [List.find?_cons, h2]; exact ih

/-- the key slice has no duplicates and holds exactly the keys of the map -/
structure MInv (s : M) : Prop where
  nodup : s.list.Nodup
  same : ∀ k, k ∈ s.list ↔ (lookup s.m k).isSome = true

theorem set_inv (s : M) (k v : Nat) (h : MInv s) : MInv (set s k v).2 := by
  unfold set
  simp only []
  by_cases hk : (lookup s.m k).isSome = true
  · simp only [hk, if_true]
    refine ⟨h.nodup, ?_⟩
    intro k'
    rw [lookup_mapSet]
    by_cases he : k' = k
    · rw [if_pos he, he]; simp [(h.same k).mpr hk]
    · rw [if_neg he]; exact h.same k'
  · have hk' : (lookup s.m k).isSome = false := by simpa using hk
    simp only [hk', Bool.false_eq_true, if_false]
    have hnl : k ∉ s.list := fun hm => hk ((h.same k).mp hm)
    refine ⟨?_, ?_⟩
    · rw [List.nodup_append]
      refine ⟨h.nodup, by simp, ?_⟩
      intro a ha b hb
      simp only [List.mem_singleton] at hb
      rw [hb]; intro e; exact hnl (e ▸ ha)
    · intro k'
      rw [lookup_mapSet]
      simp only [List.mem_append, List.mem_singleton]
      by_cases he : k' = k
      · rw [if_pos he]; simp [he]
      · rw [if_neg he, ← h.same k']; simp [he]

/-- `Set` then `Get`: last write wins, other keys untouched -/
theorem get_set (s : M) (k v k' : Nat) : get (set s k v).2 k' = if k' = k then some v else get s k' := by
  simp only [get, set, lookup_mapSet]

theorem ensureSorted_inv (s : M) (h : MInv s) : MInv (ensureSorted s) := by
  have hp := List.mergeSort_perm s.list (fun a b => decide (a ≤ b))
  refine ⟨hp.nodup_iff.mpr h.nodup, ?_⟩
  intro k
  simp only [ensureSorted]
  rw [hp.mem_iff]; exact h.same k

/-- `Keys()` is ascending and holds exactly the keys -/
theorem keys_sorted (s : M) : (keys s).1.Pairwise (fun a b => a ≤ b) ∧ (keys s).1.Perm s.list := by
  simp only [keys, ensureSorted]
  refine ⟨?_, List.mergeSort_perm _ _⟩
  have := List.pairwise_mergeSort (le := fun (a b : Nat) => decide (a ≤ b))
    (by intro a b c h1 h2; simp only [decide_eq_true_eq] at *; omega)
    (by intro a b; simp only [Bool.or_eq_true, decide_eq_true_eq]; omega) s.list
  exact this.imp (fun h => by simpa using h)

theorem lookup_filter_ne (m : List (Nat × Nat)) (k k' : Nat) :
    lookup (m.filter (fun e => e.1 != k)) k' = if k' = k then none else lookup m k' := by
  unfold lookup
  induction m with
  | nil => simp
  | cons e es ih =>
    simp only [List.filter_cons]
    by_cases he : (e.1 != k) = true
    · rw [if_pos he]
      simp only [List.find?_cons]
      by_cases h2 : (e.1 == k') = true
      · have : ¬ k' = k := by
          have h3 : e.1 = k' := by simpa using h2
          have h4 : e.1 ≠ k := by simpa using he
          rw [← h3]; exact h4
        simp [h2, this]
      · simp only [h2]; exact ih
    · rw [if_neg he]
      have h3 : e.1 = k := by simpa using he
      simp only [List.find?_cons]
      by_cases h2 : k' = k
      · rw [ih]; simp [h2]
      · have : (e.1 == k') = false := by rw [h3]; simp; exact fun e => h2 e.symm
        simp only [this]; exact ih

theorem delete_inv (s : M) (k : Nat) (h : MInv s) : MInv (delete s k).2 := by
  have hs := ensureSorted_inv s h
  unfold delete
  simp only []
  by_cases hk : (ensureSorted s).list.contains k = true
  · rw [if_pos hk]
    refine ⟨hs.nodup.erase k, ?_⟩
    intro k'
    simp only []
    rw [hs.nodup.mem_erase_iff, lookup_filter_ne]
    by_cases he : k' = k
    · simp [he]
    · rw [if_neg he, ← hs.same k']; simp [he]
  · rw [if_neg hk]; exact hs

/-- `Delete` reports whether the key was present and removes exactly it -/
theorem delete_spec (s : M) (k : Nat) (h : MInv s) :
    (delete s k).1 = (get s k).isSome ∧ ∀ k', get (delete s k).2 k' = if k' = k then none else get s k' := by
  have hs := ensureSorted_inv s h
  unfold delete
  simp only []
  by_cases hk : (ensureSorted s).list.contains k = true
  · rw [if_pos hk]
    have hm : k ∈ (ensureSorted s).list := by simpa using hk
    refine ⟨?_, ?_⟩
    · simp only [get]; exact ((hs.same k).mp hm).symm
    · intro k'; simp only [get, lookup_filter_ne]; rfl
  · rw [if_neg hk]
    have hm : k ∉ (ensureSorted s).list := by simpa using hk
    have hnone : (lookup s.m k).isSome = false := by
      cases hh : (lookup s.m k).isSome with
      | false => rfl
      | true => exact absurd ((hs.same k).mpr hh) hm
    refine ⟨?_, ?_⟩
    · simp only [get]; exact hnone.symm
    · intro k'
      by_cases he : k' = k
      · rw [if_pos he, he]; simp only [get, ensureSorted]
        cases hl : lookup s.m k with
        | none => rfl
        | some x => rw [hl] at hnone; cases hnone
      · rw [if_neg he]; rfl

theorem ensureSorted_get (s : M) (k : Nat) : get (ensureSorted s) k = get s k := rfl

theorem step_spec (s : M) (o : Op) (m : Nat → Option Nat) (h : MInv s) (hm : ∀ k, get s k = m k) :
    MInv (step s o) ∧ ∀ k, get (step s o) k = specStep m o k := by
  cases o with
  | set k v =>
    refine ⟨set_inv s k v h, fun k' => ?_⟩
    show get (set s k v).2 k' = _
    rw [get_set]; simp only [specStep, hm]
  | delete k =>
    refine ⟨delete_inv s k h, fun k' => ?_⟩
    show get (delete s k).2 k' = _
    rw [(delete_spec s k h).2 k']; simp only [specStep, hm]
  | keys => exact ⟨ensureSorted_inv s h, fun k => hm k⟩

theorem run_spec (ops : List Op) : MInv (run ops) ∧ ∀ k, get (run ops) k = specRun ops k := by
  have key : ∀ (s : M) (m : Nat → Option Nat), MInv s → (∀ k, get s k = m k) →
      MInv (ops.foldl step s) ∧ ∀ k, get (ops.foldl step s) k = ops.foldl specStep m k := by
    induction ops with
    | nil => intro s m a b; exact ⟨a, b⟩
    | cons o ops ih =>
      intro s m a b
      obtain ⟨c, d⟩ := step_spec s o m a b
      exact ih _ _ c d
  exact key {} _ ⟨by simp, by intro k; simp [lookup]⟩ (by intro k; simp [get, lookup])

/-- `All()` lists exactly the map's entries in ascending key order and `Values()` their values (the `getD 0` of the
model never fires) -/
theorem all_spec (s : M) (h : MInv s) :
    (all s).1.map Prod.fst = (keys s).1 ∧ (∀ e ∈ (all s).1, get s e.1 = some e.2) ∧
    (values s).1 = (all s).1.map Prod.snd := by
  have hs := ensureSorted_inv s h
  refine ⟨?_, ?_, ?_⟩
  · simp [all, keys, List.map_map, Function.comp_def]
  · intro e he
    simp only [all, List.mem_map] at he
    obtain ⟨k, hk, rfl⟩ := he
    have := (hs.same k).mp hk
    simp only [get]
    show lookup s.m k = some ((lookup s.m k).getD 0)
    have h2 : (lookup s.m k).isSome = true := this
    cases hl : lookup s.m k with
    | none => rw [hl] at h2; cases h2
    | some v => rfl
  · simp [all, values, List.map_map, Function.comp_def]

end Rxn.SortedMap
