import RxnModel.Proofs.Files
/-!
The invariant behind `no_needed_file_deleted_lineage_partial` (C09): one running instance at a time, any number of
crash + reopen generations. `dead` are the earlier instances (their checkpoint lists = documents are frozen), `x` is
the newest one.
-/
namespace Rxn.Files
open Rxn

/-! ## list bookkeeping -/

theorem get_last (dead : List Inst) (x : Inst) : (dead ++ [x])[dead.length]? = some x := by simp

theorem get_old {dead : List Inst} {x : Inst} {i : Nat} (h : i < dead.length) : (dead ++ [x])[i]? = dead[i]? :=
  List.getElem?_append_left h

theorem set_last (dead : List Inst) (x y : Inst) : (dead ++ [x]).set dead.length y = dead ++ [y] := by
  simp

theorem get_cases {dead : List Inst} {x xi : Inst} {i : Nat} (h : (dead ++ [x])[i]? = some xi) :
    (i < dead.length ∧ dead[i]? = some xi) ∨ (i = dead.length ∧ xi = x) := by
  rcases Nat.lt_trichotomy i dead.length with hlt | heq | hgt
  · exact Or.inl ⟨hlt, by rw [← get_old hlt]; exact h⟩
  · subst heq
    rw [get_last] at h; injection h with h
    exact Or.inr ⟨rfl, h.symm⟩
  · have : (dead ++ [x]).length ≤ i := by simp; omega
    rw [List.getElem?_eq_none this] at h; cases h

theorem alive_last {dead : List Inst} {x xi : Inst} {i : Nat} (hd : ∀ d ∈ dead, d.life ≠ .alive)
    (h : (dead ++ [x])[i]? = some xi) (hl : xi.life = .alive) : i = dead.length ∧ xi = x := by
  rcases get_cases h with ⟨_, h1⟩ | h1
  · exact absurd hl (hd xi (List.mem_of_getElem? h1))
  · exact h1

/-! ## the needed set when only the newest instance can be running -/

theorem mem_neededL {s : State} {dead : List Inst} {x : Inst} (hs : s.insts = dead ++ [x])
    (hd : ∀ d ∈ dead, d.life ≠ .alive) (f : File) :
    f ∈ needed s ↔ (x.life = .alive ∧ ∃ t ∈ x.current, f = .sst t.uri) ∨
      ∃ h ∈ s.retained, (∃ t ∈ h.tables, f = .sst t.uri) ∨ (∃ w ∈ h.wals, f = .wal w) := by
  have hlive : ∀ p, p ∈ liveTables s ↔ (x.life = .alive ∧ p ∈ uris x.current) := by
    intro p
    unfold liveTables
    rw [hs, List.mem_flatMap]
    constructor
    · rintro ⟨y, hy, hp⟩
      rcases List.mem_append.mp hy with hy | hy
      · simp [hd y hy] at hp
      · have : y = x := by simpa using hy
        subst this
        by_cases hl : y.life = .alive
        · simp [hl] at hp; exact ⟨hl, by simpa [uris] using hp⟩
        · simp [hl] at hp
    · rintro ⟨hl, hp⟩
      exact ⟨x, by simp, by simp [hl, hp]⟩
  unfold needed handleFiles
  simp only [List.mem_append, List.mem_map, List.mem_flatMap]
  constructor
  · rintro (⟨p, hp, rfl⟩ | ⟨h, hh, (⟨p, hp, rfl⟩ | ⟨w, hw, rfl⟩)⟩)
    · obtain ⟨hl, hp⟩ := (hlive p).mp hp
      obtain ⟨t, ht, rfl⟩ := List.mem_map.mp hp
      exact Or.inl ⟨hl, t, ht, rfl⟩
    · obtain ⟨t, ht, rfl⟩ := List.mem_map.mp hp
      exact Or.inr ⟨h, hh, Or.inl ⟨t, ht, rfl⟩⟩
    · exact Or.inr ⟨h, hh, Or.inr ⟨w, hw, rfl⟩⟩
  · rintro (⟨hl, t, ht, rfl⟩ | ⟨h, hh, (⟨t, ht, rfl⟩ | ⟨w, hw, rfl⟩)⟩)
    · exact Or.inl ⟨t.uri, (hlive _).mpr ⟨hl, List.mem_map.mpr ⟨t, ht, rfl⟩⟩, rfl⟩
    · exact Or.inr ⟨h, hh, Or.inl ⟨t.uri, List.mem_map.mpr ⟨t, ht, rfl⟩, rfl⟩⟩
    · exact Or.inr ⟨h, hh, Or.inr ⟨w, hw, rfl⟩⟩

/-- a retained handle is backed by exactly one kind of checkpoint in its writer's list -/
def Backed (d : Inst) (h : Handle) : Prop :=
  (∃ c ∈ d.ckpts, c.id = h.id) ∧ ∀ c ∈ d.ckpts, c.id = h.id → c.tables = h.tables ∧ c.wals = h.wals

structure InvL (s : State) (dead : List Inst) (x : Inst) : Prop where
  shape : s.insts = dead ++ [x]
  deadNA : ∀ d ∈ dead, d.life ≠ .alive
  norel : x.life ≠ .released
  safe : Safe s
  above : ∀ h ∈ s.retained, s.floor < h.id
  /-- handles of the newest instance -/
  ownCur : ∀ h ∈ s.retained, h.writer = dead.length → Backed x h
  /-- handles of earlier instances: backed by their frozen lists, and not newer than what `x` restored from -/
  ownOld : ∀ h ∈ s.retained, h.writer ≠ dead.length →
    (∃ d, dead[h.writer]? = some d ∧ Backed d h) ∧ ∃ n, x.src = some n ∧ h.id ≤ n
  /-- loaded objects are pinned by the restored checkpoint until the job has dropped it -/
  src : ∀ t ∈ x.loaded, (∃ c ∈ x.ckpts, c.fromDoc = true ∧ t ∈ c.tables) ∨ ∃ n, x.src = some n ∧ n ≤ s.floor
  srcid : ∀ c ∈ x.ckpts, c.fromDoc = true → x.src = some c.id
  /-- tables written by the running instance are listed only by its own handles -/
  mine : x.life = .alive → ∀ u ∈ x.created, ∀ h ∈ s.retained, u ∈ uris h.tables → h.writer = dead.length
  tused : ∀ h ∈ s.retained, ∀ t ∈ h.tables, t.uri ∈ s.used
  cused : ∀ u ∈ x.created, u ∈ s.used
  /-- a WAL file belongs to checkpoints of one id -/
  winv : ∀ h ∈ s.retained, ∀ c ∈ x.ckpts, ∀ w ∈ h.wals, ∀ w' ∈ c.wals, w.same w' = true → c.id = h.id
  wlt : ∀ h ∈ s.retained, h.writer ≤ dead.length
  curused : ∀ t ∈ x.current, t.uri ∈ s.used
  winvD : ∀ h ∈ s.retained, ∀ d ∈ dead, ∀ c ∈ d.ckpts, ∀ w ∈ h.wals, ∀ w' ∈ c.wals, w.same w' = true → c.id = h.id
  /-- the instance's directory is its own, and every referenced WAL file of that directory lies below the number
  of the WAL the next checkpoint writes: sealing a WAL never overwrites a referenced file -/
  xdir : x.dir = dead.length
  wdirC : ∀ c ∈ x.ckpts, ∀ w ∈ c.wals, w.dir ≤ dead.length ∧ (w.dir = dead.length → w.num < x.walNext)
  wdirH : ∀ h ∈ s.retained, ∀ w ∈ h.wals, w.dir ≤ dead.length ∧ (w.dir = dead.length → w.num < x.walNext)
  wdirD : ∀ d ∈ dead, ∀ c ∈ d.ckpts, ∀ w ∈ c.wals, w.dir < dead.length

/-- steps of the running instance that keep handles, checkpoints, loaded objects and the floor: they may add table
files with unused names to the level list, and change snapshots / the life flag -/
theorem invL_tables {s : State} {dead : List Inst} {x x' : Inst} {F : List File} {U : List Path}
    (inv : InvL s dead x)
    (hck : x'.ckpts = x.ckpts) (hld : x'.loaded = x.loaded) (hsrc : x'.src = x.src)
    (hdir : x'.dir = x.dir) (hwn : x'.walNext = x.walNext)
    (hrel : x'.life ≠ .released) (hlife : x'.life = .alive → x.life = .alive)
    (hF : ∀ f ∈ s.files, f ∈ F) (hU : ∀ u ∈ s.used, u ∈ U)
    (hcur : ∀ t ∈ x'.current, t ∈ x.current ∨ (.sst t.uri ∈ F ∧ t.uri ∈ U))
    (hcr : ∀ u ∈ x'.created, (u ∈ x.created ∨ u ∉ s.used) ∧ u ∈ U) :
    InvL { s with insts := dead ++ [x'], files := F, used := U } dead x' where
  shape := rfl
  deadNA := inv.deadNA
  norel := hrel
  safe := by
    intro f hf
    rw [mem_neededL (x := x') rfl inv.deadNA] at hf
    rcases hf with ⟨hl, t, ht, rfl⟩ | ⟨h, hh, hr⟩
    · rcases hcur t ht with hx | hx
      · exact hF _ (inv.safe _ ((mem_neededL inv.shape inv.deadNA _).mpr (Or.inl ⟨hlife hl, t, hx, rfl⟩)))
      · exact hx.1
    · exact hF _ (inv.safe _ ((mem_neededL inv.shape inv.deadNA _).mpr (Or.inr ⟨h, hh, hr⟩)))
  above := inv.above
  ownCur := by intro h hh hw; unfold Backed; rw [hck]; exact inv.ownCur h hh hw
  ownOld := by intro h hh hw; rw [hsrc]; exact inv.ownOld h hh hw
  src := by intro t ht; rw [hck, hsrc]; exact inv.src t (hld ▸ ht)
  srcid := by rw [hck, hsrc]; exact inv.srcid
  mine := by
    intro hl u hu h hh hm
    rcases (hcr u hu).1 with h1 | h1
    · exact inv.mine (hlife hl) u h1 h hh hm
    · obtain ⟨t, ht, rfl⟩ := List.mem_map.mp hm
      exact absurd (inv.tused h hh t ht) h1
  tused := fun h hh t ht => hU _ (inv.tused h hh t ht)
  cused := fun u hu => (hcr u hu).2
  winv := by rw [hck]; exact inv.winv
  wlt := inv.wlt
  curused := by
    intro t ht
    rcases hcur t ht with h1 | h1
    · exact hU _ (inv.curused t h1)
    · exact h1.2
  winvD := inv.winvD
  xdir := hdir.trans inv.xdir
  wdirC := by rw [hck, hwn]; exact inv.wdirC
  wdirH := by rw [hwn]; exact inv.wdirH
  wdirD := inv.wdirD

theorem setInst_last {s : State} {dead : List Inst} {x : Inst} (hs : s.insts = dead ++ [x]) (y : Inst) :
    (setInst s dead.length y).insts = dead ++ [y] := by
  simp [setInst, hs]

theorem backed_refs {x : Inst} {h : Handle} {t : Tbl} (hb : Backed x h) (ht : t ∈ h.tables) :
    x.refs t.uri = true := by
  obtain ⟨⟨c, hc, hid⟩, hall⟩ := hb
  have := (hall c hc hid).1
  exact refs_of_ckpt hc (this ▸ ht)


/-- the instance an in-scope action works on is the newest one -/
theorem act_on_last {s : State} {dead : List Inst} {x xi : Inst} {i : Nat} (inv : InvL s dead x)
    (hi : s.insts[i]? = some xi) (hl : xi.life = .alive) : i = dead.length ∧ xi = x :=
  alive_last inv.deadNA (inv.shape ▸ hi) hl

theorem step_invL_simple {s s' : State} {dead : List Inst} {x : Inst} {a : Act} (inv : InvL s dead x)
    (ha : match a with
      | .flush .. => True | .compact .. => True | .snap _ => True | .unsnap .. => True | .crash _ => True
      | _ => False)
    (hstep : step s a = some s') : ∃ x', InvL s' dead x' := by
  cases a with
  | flush i t =>
    simp only [step] at hstep
    split at hstep
    · simp at hstep
    · rename_i xi hi
      split at hstep
      · rename_i hc
        obtain ⟨rfl, rfl⟩ := act_on_last inv hi hc.1
        injection hstep with hstep; subst hstep
        have hfresh : t.uri ∉ s.used := by simpa using hc.2
        refine ⟨{ xi with current := t :: xi.current, created := t.uri :: xi.created, made := t.uri :: xi.made }, ?_⟩
        have := invL_tables (x' := { xi with current := t :: xi.current, created := t.uri :: xi.created, made := t.uri :: xi.made })
          (F := .sst t.uri :: s.files) (U := t.uri :: s.used) inv rfl rfl rfl rfl rfl inv.norel (fun h => h)
          (fun f hf => List.mem_cons_of_mem _ hf) (fun u hu => List.mem_cons_of_mem _ hu)
          (by
            intro t' ht'
            rcases List.mem_cons.mp ht' with rfl | ht'
            · exact Or.inr ⟨List.mem_cons_self .., List.mem_cons_self ..⟩
            · exact Or.inl ht')
          (by
            intro u hu
            rcases List.mem_cons.mp hu with rfl | hu
            · exact ⟨Or.inr hfresh, List.mem_cons_self ..⟩
            · exact ⟨Or.inl hu, List.mem_cons_of_mem _ (inv.cused u hu)⟩)
        simpa [setInst, inv.shape] using this
      · simp at hstep
  | compact i rm add =>
    simp only [step] at hstep
    split at hstep
    · simp at hstep
    · rename_i xi hi
      split at hstep
      · rename_i hc
        obtain ⟨rfl, rfl⟩ := act_on_last inv hi hc.1
        injection hstep with hstep; subst hstep
        have hfresh := allFresh_not_mem hc.2.1
        refine ⟨{ xi with current := dropTables xi.current rm ++ add,
                          created := uris add ++ xi.created, made := uris add ++ xi.made }, ?_⟩
        have := invL_tables (x' := { xi with current := dropTables xi.current rm ++ add,
                                              created := uris add ++ xi.created, made := uris add ++ xi.made })
          (F := (uris add).map File.sst ++ s.files) (U := uris add ++ s.used) inv rfl rfl rfl rfl rfl inv.norel (fun h => h)
          (fun f hf => List.mem_append_right _ hf) (fun u hu => List.mem_append_right _ hu)
          (by
            intro t' ht'
            rcases List.mem_append.mp ht' with ht' | ht'
            · exact Or.inl (mem_dropTables ht')
            · have hm : t'.uri ∈ uris add := List.mem_map.mpr ⟨t', ht', rfl⟩
              exact Or.inr ⟨List.mem_append_left _ (List.mem_map.mpr ⟨t'.uri, hm, rfl⟩), List.mem_append_left _ hm⟩)
          (by
            intro u hu
            rcases List.mem_append.mp hu with hu | hu
            · exact ⟨Or.inr (hfresh u hu), List.mem_append_left _ hu⟩
            · exact ⟨Or.inl hu, List.mem_append_right _ (inv.cused u hu)⟩)
        simpa [setInst, inv.shape] using this
      · simp at hstep
  | snap i =>
    simp only [step] at hstep
    split at hstep
    · simp at hstep
    · rename_i xi hi
      split at hstep
      · rename_i hc
        obtain ⟨rfl, rfl⟩ := act_on_last inv hi hc
        injection hstep with hstep; subst hstep
        refine ⟨{ xi with snaps := xi.current :: xi.snaps }, ?_⟩
        have := invL_tables (x' := { xi with snaps := xi.current :: xi.snaps }) (F := s.files) (U := s.used)
          inv rfl rfl rfl rfl rfl inv.norel (fun h => h) (fun f hf => hf) (fun u hu => hu) (fun t ht => Or.inl ht)
          (fun u hu => ⟨Or.inl hu, inv.cused u hu⟩)
        simpa [setInst, inv.shape] using this
      · simp at hstep
  | unsnap i k =>
    simp only [step] at hstep
    split at hstep
    · simp at hstep
    · rename_i xi hi
      split at hstep
      · rename_i hc
        obtain ⟨rfl, rfl⟩ := act_on_last inv hi hc
        injection hstep with hstep; subst hstep
        refine ⟨{ xi with snaps := xi.snaps.eraseIdx k }, ?_⟩
        have := invL_tables (x' := { xi with snaps := xi.snaps.eraseIdx k }) (F := s.files) (U := s.used)
          inv rfl rfl rfl rfl rfl inv.norel (fun h => h) (fun f hf => hf) (fun u hu => hu) (fun t ht => Or.inl ht)
          (fun u hu => ⟨Or.inl hu, inv.cused u hu⟩)
        simpa [setInst, inv.shape] using this
      · simp at hstep
  | crash i =>
    simp only [step] at hstep
    split at hstep
    · simp at hstep
    · rename_i xi hi
      split at hstep
      · rename_i hc
        obtain ⟨rfl, rfl⟩ := act_on_last inv hi hc
        injection hstep with hstep; subst hstep
        refine ⟨{ xi with life := .crashed }, ?_⟩
        have := invL_tables (x' := { xi with life := .crashed }) (F := s.files) (U := s.used)
          inv rfl rfl rfl rfl rfl (by simp) (fun h => by simp at h) (fun f hf => hf) (fun u hu => hu) (fun t ht => Or.inl ht)
          (fun u hu => ⟨Or.inl hu, inv.cused u hu⟩)
        simpa [setInst, inv.shape] using this
      · simp at hstep
  | _ => exact absurd ha (by simp)


theorem step_invL_jobDrop {s s' : State} {dead : List Inst} {x : Inst} {k : Nat} (inv : InvL s dead x)
    (hstep : step s (.jobDrop k) = some s') : InvL s' dead x := by
  simp only [step] at hstep
  split at hstep
  · injection hstep with hstep; subst hstep
    have hsub : ∀ h, h ∈ s.retained.filter (fun h => k < h.id) → h ∈ s.retained ∧ k < h.id := by
      intro h hh; have := List.mem_filter.mp hh; exact ⟨this.1, by simpa using this.2⟩
    exact {
      shape := inv.shape
      deadNA := inv.deadNA
      norel := inv.norel
      safe := by
        intro f hf
        have hf := (mem_neededL (x := x) (by exact inv.shape) inv.deadNA f).mp hf
        rcases hf with hl | ⟨h, hh, hr⟩
        · exact inv.safe _ ((mem_neededL inv.shape inv.deadNA _).mpr (Or.inl hl))
        · exact inv.safe _ ((mem_neededL inv.shape inv.deadNA _).mpr (Or.inr ⟨h, (hsub h hh).1, hr⟩))
      above := by
        intro h hh
        show max s.floor k < h.id
        exact Nat.max_lt.mpr ⟨inv.above h (hsub h hh).1, (hsub h hh).2⟩
      ownCur := fun h hh => inv.ownCur h (hsub h hh).1
      ownOld := fun h hh => inv.ownOld h (hsub h hh).1
      src := by
        intro t ht
        rcases inv.src t ht with h1 | ⟨n, hn, hle⟩
        · exact Or.inl h1
        · exact Or.inr ⟨n, hn, Nat.le_trans hle (Nat.le_max_left ..)⟩
      srcid := inv.srcid
      mine := fun hl u hu h hh => inv.mine hl u hu h (hsub h hh).1
      tused := fun h hh => inv.tused h (hsub h hh).1
      cused := inv.cused
      winv := fun h hh => inv.winv h (hsub h hh).1
      wlt := fun h hh => inv.wlt h (hsub h hh).1
      curused := inv.curused
      winvD := fun h hh => inv.winvD h (hsub h hh).1
      xdir := inv.xdir
      wdirC := inv.wdirC
      wdirH := fun h hh => inv.wdirH h (hsub h hh).1
      wdirD := inv.wdirD }
  · simp at hstep

theorem step_invL_jobAbandon {s s' : State} {dead : List Inst} {x : Inst} {id : Nat} (inv : InvL s dead x)
    (hstep : step s (.jobAbandon id) = some s') : InvL s' dead x := by
  simp only [step] at hstep
  injection hstep with hstep; subst hstep
  have hsub : ∀ h, h ∈ s.retained.filter (fun h => h.id != id) → h ∈ s.retained := by
    intro h hh; exact (List.mem_filter.mp hh).1
  exact {
    shape := inv.shape
    deadNA := inv.deadNA
    norel := inv.norel
    safe := by
      intro f hf
      have hf := (mem_neededL (x := x) (by exact inv.shape) inv.deadNA f).mp hf
      rcases hf with hl | ⟨h, hh, hr⟩
      · exact inv.safe _ ((mem_neededL inv.shape inv.deadNA _).mpr (Or.inl hl))
      · exact inv.safe _ ((mem_neededL inv.shape inv.deadNA _).mpr (Or.inr ⟨h, hsub h hh, hr⟩))
    above := fun h hh => inv.above h (hsub h hh)
    ownCur := fun h hh => inv.ownCur h (hsub h hh)
    ownOld := fun h hh => inv.ownOld h (hsub h hh)
    src := inv.src
    srcid := inv.srcid
    mine := fun hl u hu h hh => inv.mine hl u hu h (hsub h hh)
    tused := fun h hh => inv.tused h (hsub h hh)
    cused := inv.cused
    winv := fun h hh => inv.winv h (hsub h hh)
    wlt := fun h hh => inv.wlt h (hsub h hh)
    curused := inv.curused
    winvD := fun h hh => inv.winvD h (hsub h hh)
    xdir := inv.xdir
    wdirC := inv.wdirC
    wdirH := fun h hh => inv.wdirH h (hsub h hh)
    wdirD := inv.wdirD }

theorem step_invL_ckpt {s s' : State} {dead : List Inst} {x : Inst} {i id : Nat} {wal : Wal} (inv : InvL s dead x)
    (hstep : step s (.ckpt i id wal) = some s') : ∃ x', InvL s' dead x' := by
  simp only [step] at hstep
  split at hstep
  · simp at hstep
  · rename_i xi hi
    split at hstep
    · rename_i hc
      obtain ⟨hal, hfl, hid, _, hwdir, hwnum⟩ := hc
      obtain ⟨rfl, rfl⟩ := act_on_last inv hi hal
      injection hstep with hstep; subst hstep
      have hwd : wal.dir = dead.length := hwdir.trans inv.xdir
      -- the sealed WAL has a name no referenced WAL file has
      have hnew : ∀ v : Wal, (v.dir ≤ dead.length ∧ (v.dir = dead.length → v.num < xi.walNext)) →
          wal.same v = false := by
        intro v hv
        cases hsm : wal.same v with
        | false => rfl
        | true =>
          obtain ⟨h1, h2⟩ := same_num hsm
          have := hv.2 (by omega)
          omega
      have hid' : ∀ c ∈ xi.ckpts, c.id ≠ id := by
        intro c hc; have := List.all_eq_true.mp hid c hc; simpa using this
      refine ⟨ckptInst xi id wal, ?_⟩
      have hmemck : ∀ c, c ∈ xi.ckpts ++ [(⟨id, xi.current, [wal], false⟩ : Ckpt)] →
          c ∈ xi.ckpts ∨ c = ⟨id, xi.current, [wal], false⟩ := by
        intro c hc
        rcases List.mem_append.mp hc with h1 | h1
        · exact Or.inl h1
        · exact Or.inr (by simpa using h1)
      exact {
        shape := by simp [setInst, inv.shape]
        deadNA := inv.deadNA
        norel := inv.norel
        safe := by
          intro f hf
          rw [mem_neededL (x := ckptInst xi id wal) (by simp [setInst, inv.shape]) inv.deadNA] at hf
          show f ∈ File.wal wal :: clobber s.files wal
          rcases hf with ⟨hl, t, ht, rfl⟩ | ⟨h, hh, hr⟩
          · exact List.mem_cons_of_mem _ (mem_clobber.mpr
              ⟨inv.safe _ ((mem_neededL inv.shape inv.deadNA _).mpr (Or.inl ⟨hl, t, ht, rfl⟩)), by intro v hv; cases hv⟩)
          · rcases List.mem_cons.mp hh with rfl | hh
            · rcases hr with ⟨t, ht, rfl⟩ | ⟨w, hw, rfl⟩
              · exact List.mem_cons_of_mem _ (mem_clobber.mpr
                  ⟨inv.safe _ ((mem_neededL inv.shape inv.deadNA _).mpr (Or.inl ⟨hal, t, ht, rfl⟩)),
                    by intro v hv; cases hv⟩)
              · have : w = wal := by simpa using hw
                subst this
                exact List.mem_cons_self ..
            · refine List.mem_cons_of_mem _ (mem_clobber.mpr
                ⟨inv.safe _ ((mem_neededL inv.shape inv.deadNA _).mpr (Or.inr ⟨h, hh, hr⟩)), ?_⟩)
              rcases hr with ⟨t, ht, rfl⟩ | ⟨w, hw, rfl⟩
              · intro v hv; cases hv
              · intro v hv
                injection hv with hv; subst hv
                exact hnew w (inv.wdirH h hh w hw)
        above := by
          intro h hh
          rcases List.mem_cons.mp hh with rfl | hh
          · exact hfl
          · exact inv.above h hh
        ownCur := by
          intro h hh hw
          rcases List.mem_cons.mp hh with rfl | hh
          · refine ⟨⟨⟨id, xi.current, [wal], false⟩, by simp, rfl⟩, ?_⟩
            intro c hc hcid
            rcases hmemck c hc with h1 | h1
            · exact absurd hcid (hid' c h1)
            · subst h1; exact ⟨rfl, rfl⟩
          · obtain ⟨⟨c0, hc0, hc0id⟩, hall⟩ := inv.ownCur h hh hw
            refine ⟨⟨c0, List.mem_append_left _ hc0, hc0id⟩, ?_⟩
            intro c hc hcid
            rcases hmemck c hc with h1 | h1
            · exact hall c h1 hcid
            · subst h1
              exact absurd (hc0id.trans hcid.symm) (hid' c0 hc0)
        ownOld := by
          intro h hh hw
          rcases List.mem_cons.mp hh with rfl | hh
          · exact absurd rfl hw
          · exact inv.ownOld h hh hw
        src := by
          intro t ht
          rcases inv.src t ht with ⟨c, hc, h1⟩ | h1
          · exact Or.inl ⟨c, List.mem_append_left _ hc, h1⟩
          · exact Or.inr h1
        srcid := by
          intro c hc hdoc
          rcases hmemck c hc with h1 | h1
          · exact inv.srcid c h1 hdoc
          · subst h1; simp at hdoc
        mine := by
          intro hl u hu h hh hm
          rcases List.mem_cons.mp hh with rfl | hh
          · rfl
          · exact inv.mine hl u hu h hh hm
        tused := by
          intro h hh t ht
          rcases List.mem_cons.mp hh with rfl | hh
          · exact inv.curused t ht
          · exact inv.tused h hh t ht
        cused := inv.cused
        winv := by
          intro h hh c hc w hw w' hw' hsm
          rcases List.mem_cons.mp hh with rfl | hh2
          · have hww : w = wal := by simpa using hw
            rcases hmemck c hc with h1 | h1
            · rw [hww] at hsm
              have := hnew w' (inv.wdirC c h1 w' hw')
              rw [hsm] at this; cases this
            · subst h1; rfl
          · rcases hmemck c hc with h1 | h1
            · exact inv.winv h hh2 c h1 w hw w' hw' hsm
            · subst h1
              have hww : w' = wal := by simpa using hw'
              rw [hww, same_comm] at hsm
              have := hnew w (inv.wdirH h hh2 w hw)
              rw [hsm] at this; cases this
        wlt := by
          intro h hh
          rcases List.mem_cons.mp hh with rfl | hh
          · exact Nat.le_refl _
          · exact inv.wlt h hh
        curused := inv.curused
        winvD := by
          intro h hh d hd c hc w hw w' hw' hsm
          rcases List.mem_cons.mp hh with rfl | hh2
          · have hww : w = wal := by simpa using hw
            rw [hww] at hsm
            have h1 := inv.wdirD d hd c hc w' hw'
            have := hnew w' ⟨by omega, by omega⟩
            rw [hsm] at this; cases this
          · exact inv.winvD h hh2 d hd c hc w hw w' hw' hsm
        xdir := inv.xdir
        wdirC := by
          intro c hc w hw
          show w.dir ≤ dead.length ∧ (w.dir = dead.length → w.num < xi.walNext + 1)
          rcases hmemck c hc with h1 | h1
          · have := inv.wdirC c h1 w hw
            exact ⟨this.1, fun h => by have := this.2 h; omega⟩
          · subst h1
            have hww : w = wal := by simpa using hw
            subst hww
            exact ⟨by omega, fun _ => by omega⟩
        wdirH := by
          intro h hh w hw
          show w.dir ≤ dead.length ∧ (w.dir = dead.length → w.num < xi.walNext + 1)
          rcases List.mem_cons.mp hh with rfl | hh
          · have hww : w = wal := by simpa using hw
            subst hww
            exact ⟨by omega, fun _ => by omega⟩
          · have := inv.wdirH h hh w hw
            exact ⟨this.1, fun h => by have := this.2 h; omega⟩
        wdirD := inv.wdirD }
    · simp at hstep


theorem step_invL_retain {s s' : State} {dead : List Inst} {x : Inst} {i : Nat} {ids : List Nat}
    (inv : InvL s dead x) (hsc : retainOk s i ids = true)
    (hstep : step s (.retain i ids) = some s') : ∃ x', InvL s' dead x' := by
  simp only [step] at hstep
  split at hstep
  · simp at hstep
  · rename_i xi hi
    split at hstep
    · rename_i hc
      obtain ⟨rfl, rfl⟩ := act_on_last inv hi hc.1
      injection hstep with hstep; subst hstep
      have hok : ∀ c ∈ droppedOf xi.ckpts ids, c.id ≤ s.floor := by
        simp only [retainOk, hi, List.all_eq_true, decide_eq_true_eq] at hsc
        exact hsc
      have hkeep : ∀ c ∈ xi.ckpts, s.floor < c.id → c ∈ keptOf xi.ckpts ids := by
        intro c hcm hlt
        by_cases hin : keeps ids c = true
        · exact mem_keptOf.mpr ⟨hcm, hin⟩
        · have := hok c (mem_droppedOf.mpr ⟨hcm, by simpa using hin⟩)
          omega
      refine ⟨{ xi with ckpts := keptOf xi.ckpts ids }, ?_⟩
      exact {
        shape := by simp [setInst, inv.shape]
        deadNA := inv.deadNA
        norel := inv.norel
        safe := by
          intro f hf
          rw [mem_neededL (x := { xi with ckpts := keptOf xi.ckpts ids }) (by simp [setInst, inv.shape])
            inv.deadNA] at hf
          show f ∈ rmWals s.files (walsOf (droppedOf xi.ckpts ids))
          rw [mem_rmWals]
          rcases hf with ⟨hl, t, ht, rfl⟩ | ⟨h, hh, hr⟩
          · exact ⟨inv.safe _ ((mem_neededL inv.shape inv.deadNA _).mpr (Or.inl ⟨hl, t, ht, rfl⟩)),
              by intro w _ v hne; cases hne⟩
          · refine ⟨inv.safe _ ((mem_neededL inv.shape inv.deadNA _).mpr (Or.inr ⟨h, hh, hr⟩)), ?_⟩
            rcases hr with ⟨t, ht, rfl⟩ | ⟨w, hw, rfl⟩
            · intro w _ v hne; cases hne
            · intro w' hw' v hne
              injection hne with hne
              subst hne
              obtain ⟨c', hc', hwc'⟩ := mem_walsOf.mp hw'
              have hd := mem_droppedOf.mp hc'
              cases hsm : w'.same w with
              | false => rfl
              | true =>
                rw [same_comm] at hsm
                have h1 := inv.winv h hh c' hd.1 w hw w' hwc' hsm
                have h2 := hok c' hc'
                have h3 := inv.above h hh
                omega
        above := inv.above
        ownCur := by
          intro h hh hw
          obtain ⟨⟨c0, hc0, hc0id⟩, hall⟩ := inv.ownCur h hh hw
          refine ⟨⟨c0, hkeep c0 hc0 (hc0id ▸ inv.above h hh), hc0id⟩, ?_⟩
          intro c hcm hcid
          exact hall c (mem_keptOf.mp hcm).1 hcid
        ownOld := inv.ownOld
        src := by
          intro t ht
          rcases inv.src t ht with ⟨c, hcm, hdoc, htc⟩ | h1
          · by_cases hk : c ∈ keptOf xi.ckpts ids
            · exact Or.inl ⟨c, hk, hdoc, htc⟩
            · right
              refine ⟨c.id, inv.srcid c hcm hdoc, ?_⟩
              rcases Nat.lt_or_ge s.floor c.id with hlt | hge
              · exact absurd (hkeep c hcm hlt) hk
              · exact hge
          · exact Or.inr h1
        srcid := fun c hcm hdoc => inv.srcid c (mem_keptOf.mp hcm).1 hdoc
        mine := inv.mine
        tused := inv.tused
        cused := inv.cused
        winv := fun h hh c hcm => inv.winv h hh c (mem_keptOf.mp hcm).1
        wlt := inv.wlt
        curused := inv.curused
        winvD := inv.winvD
        xdir := inv.xdir
        wdirC := fun c hcm => inv.wdirC c (mem_keptOf.mp hcm).1
        wdirH := inv.wdirH
        wdirD := inv.wdirD }
    · simp at hstep

theorem step_invL_collect {s s' : State} {dead : List Inst} {x : Inst} {i : Nat} {u : Path} {answers : List Ans}
    (inv : InvL s dead x) (hsc : aliveAt s i = true)
    (hstep : step s (.collect i u answers) = some s') : ∃ x', InvL s' dead x' := by
  simp only [step] at hstep
  split at hstep
  · simp at hstep
  · rename_i xi hi
    have hal : xi.life = .alive := by simpa [aliveAt, hi] using hsc
    obtain ⟨rfl, rfl⟩ := act_on_last inv hi hal
    split at hstep
    · rename_i hun
      have hnr : xi.refs u = false := by simpa [Inst.unreachable, hal] using hun
      -- deleting `sst u` is harmless if no job-retained handle lists `u`
      have key : ∀ (x' : Inst) (F : List File), x'.ckpts = xi.ckpts → x'.current = xi.current → x'.life = xi.life →
          x'.src = xi.src → x'.dir = xi.dir → x'.walNext = xi.walNext →
          (∀ t ∈ x'.loaded, t ∈ xi.loaded) → (∀ v ∈ x'.created, v ∈ xi.created) →
          (∀ f ∈ s.files, f ≠ .sst u → f ∈ F) → (∀ h ∈ s.retained, u ∉ uris h.tables) →
          InvL { s with insts := dead ++ [x'], files := F } dead x' := by
        intro x' F hck hcur hlife hsrc hdir hwn hld hcr hF hnone
        exact {
          shape := rfl
          deadNA := inv.deadNA
          norel := hlife ▸ inv.norel
          safe := by
            intro f hf
            rw [mem_neededL (x := x') rfl inv.deadNA] at hf
            have hne : f ≠ .sst u := by
              rintro rfl
              rcases hf with ⟨_, t, ht, he⟩ | ⟨h, hh, (⟨t, ht, he⟩ | ⟨w, _, he⟩)⟩
              · injection he with he; subst he
                rw [hcur] at ht
                rw [refs_of_current ht] at hnr; cases hnr
              · injection he with he; subst he
                exact hnone h hh (List.mem_map.mpr ⟨t, ht, rfl⟩)
              · cases he
            apply hF _ _ hne
            rcases hf with ⟨hl', t, ht, rfl⟩ | ⟨h, hh, hr⟩
            · exact inv.safe _ ((mem_neededL inv.shape inv.deadNA _).mpr (Or.inl ⟨hlife ▸ hl', t, hcur ▸ ht, rfl⟩))
            · exact inv.safe _ ((mem_neededL inv.shape inv.deadNA _).mpr (Or.inr ⟨h, hh, hr⟩))
          above := inv.above
          ownCur := by intro h hh hw; unfold Backed; rw [hck]; exact inv.ownCur h hh hw
          ownOld := by intro h hh hw; rw [hsrc]; exact inv.ownOld h hh hw
          src := by intro t ht; rw [hck, hsrc]; exact inv.src t (hld t ht)
          srcid := by rw [hck, hsrc]; exact inv.srcid
          mine := fun hl v hv => inv.mine (hlife ▸ hl) v (hcr v hv)
          tused := inv.tused
          cused := fun v hv => inv.cused v (hcr v hv)
          winv := by rw [hck]; exact inv.winv
          wlt := inv.wlt
          curused := by rw [hcur]; exact inv.curused
          winvD := inv.winvD
          xdir := hdir.trans inv.xdir
          wdirC := by rw [hck, hwn]; exact inv.wdirC
          wdirH := by rw [hwn]; exact inv.wdirH
          wdirD := inv.wdirD }
      have hfiles : ∀ (b : Prop) [Decidable b] (f : File), f ∈ s.files → f ≠ .sst u →
          f ∈ (if b then rmFile s.files (.sst u) else s.files) := by
        intro b _ f hf hne
        split
        · exact mem_rmFile.mpr ⟨hf, hne⟩
        · exact hf
      split at hstep
      · rename_i hcr
        have hcr' : u ∈ xi.created := by simpa using hcr
        injection hstep with hstep; subst hstep
        refine ⟨{ xi with created := xi.created.erase u }, ?_⟩
        have := key { xi with created := xi.created.erase u }
          (if (Facts.c09CreatedDeletes == 1) = true then rmFile s.files (.sst u) else s.files) rfl rfl rfl rfl rfl rfl
          (fun t ht => ht) (fun v hv => List.mem_of_mem_erase hv) (hfiles _)
          (by
            intro h hh hm
            have hw := inv.mine hal u hcr' h hh hm
            obtain ⟨t, ht, rfl⟩ := List.mem_map.mp hm
            rw [backed_refs (inv.ownCur h hh hw) ht] at hnr; cases hnr)
        simpa [setInst, inv.shape] using this
      · split at hstep
        · simp at hstep
        · rename_i t hfind
          have htl : t ∈ xi.loaded := List.mem_of_find?_eq_some hfind
          have htu : t.uri = u := by simpa using List.find?_some hfind
          injection hstep with hstep; subst hstep
          refine ⟨{ xi with loaded := xi.loaded.erase t }, ?_⟩
          have := key { xi with loaded := xi.loaded.erase t }
            (if decision xi.range t (xi.nbrs.zip answers) = .delete ∨ Facts.c09LoadedGuarded ≠ 1
              then rmFile s.files (.sst u) else s.files) rfl rfl rfl rfl rfl rfl
            (fun t' ht' => List.mem_of_mem_erase ht') (fun v hv => hv) (hfiles _)
            (by
              intro h hh hm
              obtain ⟨t', ht', hu'⟩ := List.mem_map.mp hm
              by_cases hw : h.writer = dead.length
              · have := backed_refs (inv.ownCur h hh hw) ht'
                rw [hu'] at this; rw [this] at hnr; cases hnr
              · obtain ⟨_, n', hn', hle⟩ := inv.ownOld h hh hw
                rcases inv.src t htl with ⟨c, hcm, _, htc⟩ | ⟨n, hn, hnf⟩
                · have := refs_of_ckpt hcm htc
                  rw [htu] at this; rw [this] at hnr; cases hnr
                · rw [hn] at hn'; injection hn' with hn'; subst hn'
                  have := inv.above h hh
                  omega)
          simpa [setInst, inv.shape] using this
    · simp at hstep


theorem noneAlive_last {s : State} {dead : List Inst} {x : Inst} (hs : s.insts = dead ++ [x])
    (h : noneAlive s = true) : x.life ≠ .alive := by
  unfold noneAlive at h
  rw [hs, List.all_eq_true] at h
  have := h x (by simp)
  simpa using this

theorem writerAlive_false {s : State} {dead : List Inst} {x : Inst} (hs : s.insts = dead ++ [x])
    (hd : ∀ d ∈ dead, d.life ≠ .alive) (hx : x.life ≠ .alive) (w : Nat) : writerAlive s w = false := by
  unfold writerAlive
  rw [hs]
  cases hg : (dead ++ [x])[w]? with
  | none => rfl
  | some y =>
    rcases get_cases hg with ⟨_, h1⟩ | ⟨_, rfl⟩
    · simpa using hd y (List.mem_of_getElem? h1)
    · simpa using hx

theorem step_invL_openFresh {s s' : State} {dead : List Inst} {x : Inst} {r : KGRange} {g : Nat} {n : List KGRange}
    {dir : Nat} (inv : InvL s dead x) (hna : noneAlive s = true) (hemp : s.retained = [])
    (hdir : dir = s.insts.length)
    (hstep : step s (.openFresh r g n dir) = some s') : ∃ dead' x', InvL s' dead' x' := by
  simp only [step] at hstep
  injection hstep with hstep; subst hstep
  have hx := noneAlive_last inv.shape hna
  have hdl : dir = (dead ++ [x]).length := by rw [hdir, inv.shape]
  refine ⟨dead ++ [x], (freshInst r g n dir s.insts.length), ?_⟩
  have hd' : ∀ d ∈ dead ++ [x], d.life ≠ .alive := by
    intro d hd
    rcases List.mem_append.mp hd with h1 | h1
    · exact inv.deadNA d h1
    · have : d = x := by simpa using h1
      subst this; exact hx
  exact {
    shape := by simp [inv.shape]
    deadNA := hd'
    norel := by simp
    safe := by
      intro f hf
      rw [mem_neededL (dead := dead ++ [x]) (x := (freshInst r g n dir s.insts.length))
        (by simp [inv.shape]) hd'] at hf
      rcases hf with ⟨_, t, ht, _⟩ | ⟨h, hh, _⟩
      · simp at ht
      · rw [hemp] at hh; cases hh
    above := by intro h hh; rw [hemp] at hh; cases hh
    ownCur := by intro h hh; rw [hemp] at hh; cases hh
    ownOld := by intro h hh; rw [hemp] at hh; cases hh
    src := by intro t ht; simp at ht
    srcid := by intro c hc; simp at hc
    mine := by intro _ u hu; simp at hu
    tused := by intro h hh; rw [hemp] at hh; cases hh
    cused := by intro u hu; simp at hu
    winv := by intro h hh; rw [hemp] at hh; cases hh
    wlt := by intro h hh; rw [hemp] at hh; cases hh
    curused := by intro t ht; simp at ht
    winvD := by intro h hh; rw [hemp] at hh; cases hh
    xdir := hdl
    wdirC := by intro c hc; simp at hc
    wdirH := by intro h hh; rw [hemp] at hh; cases hh
    wdirD := by
      intro d hd c hc w hw
      have hlen : (dead ++ [x]).length = dead.length + 1 := by simp
      rcases List.mem_append.mp hd with h1 | h1
      · have := inv.wdirD d h1 c hc w hw; omega
      · have : d = x := by simpa using h1
        subst this
        have := (inv.wdirC c hc w hw).1; omega }

/-- the instance a restore from the document entry `c` creates -/
def restored (s : State) (w : Nat) (r : KGRange) (g : Nat) (n : List KGRange) (c : Ckpt) (id dir : Nat) : Inst :=
  restoredInst r g n c.tables c.wals id dir (linOf s [w])

theorem step_invL_openFrom {s s' : State} {dead : List Inst} {x : Inst} {r : KGRange} {g : Nat} {n : List KGRange}
    {w id dir : Nat} (inv : InvL s dead x) (hna : noneAlive s = true) (hdir : dir = s.insts.length)
    (hret : ∃ h0 ∈ s.retained, h0.writer = w ∧ h0.id = id) (hall : ∀ h ∈ s.retained, h.id ≤ id)
    (hstep : step s (.openFrom r g n [w] id dir) = some s') : ∃ dead' x', InvL s' dead' x' := by
  have hx := noneAlive_last inv.shape hna
  have hdl : dir = (dead ++ [x]).length := by rw [hdir, inv.shape]
  have hlen : (dead ++ [x]).length = dead.length + 1 := by simp
  have hd' : ∀ d ∈ dead ++ [x], d.life ≠ .alive := by
    intro d hd
    rcases List.mem_append.mp hd with h1 | h1
    · exact inv.deadNA d h1
    · have : d = x := by simpa using h1
      subst this; exact hx
  obtain ⟨h0, hh0, hw0, hid0⟩ := hret
  -- the document entry the restore reads is the one backing the handle
  have hentry : ∀ c, docEntry s w id = some c → c.tables = h0.tables ∧ c.wals = h0.wals := by
    intro c hc
    unfold docEntry at hc
    split at hc
    · cases hc
    · rename_i wi hwi
      split at hc
      case isFalse => cases hc
      have hcm := List.mem_of_find?_eq_some hc
      have hcid : c.id = id := by simpa using List.find?_some hc
      rw [inv.shape] at hwi
      rcases get_cases hwi with ⟨hlt, h1⟩ | ⟨heq, rfl⟩
      · have hne : h0.writer ≠ dead.length := by omega
        obtain ⟨⟨d, hd, hb⟩, _⟩ := inv.ownOld h0 hh0 hne
        rw [hw0, h1] at hd; injection hd with hd; subst hd
        exact hb.2 c hcm (hcid.trans hid0.symm)
      · exact (inv.ownCur h0 hh0 (hw0.trans heq)).2 c hcm (hcid.trans hid0.symm)
  simp only [step, gather] at hstep
  cases hde : docEntry s w id with
  | none => simp [hde] at hstep
  | some c =>
    obtain ⟨htab, hwal⟩ := hentry c hde
    simp only [hde, List.append_nil] at hstep
    injection hstep with hstep; subst hstep
    refine ⟨dead ++ [x], restored s w r g n c id dir, ?_⟩
    exact {
      shape := by simp [inv.shape, restored]
      deadNA := hd'
      norel := by simp [restored]
      safe := by
        intro f hf
        rw [mem_neededL (dead := dead ++ [x]) (x := restored s w r g n c id dir) (by simp [inv.shape, restored]) hd'] at hf
        rcases hf with ⟨_, t, ht, rfl⟩ | ⟨h, hh, hr⟩
        · have ht' : t ∈ h0.tables := htab ▸ ht
          exact inv.safe _ ((mem_neededL inv.shape inv.deadNA _).mpr (Or.inr ⟨h0, hh0, Or.inl ⟨t, ht', rfl⟩⟩))
        · exact inv.safe _ ((mem_neededL inv.shape inv.deadNA _).mpr (Or.inr ⟨h, hh, hr⟩))
      above := fun h hh => inv.above h hh
      ownCur := by
        intro h hh hw
        have := inv.wlt h hh
        simp at hw
        omega
      ownOld := by
        intro h hh _
        refine ⟨?_, id, rfl, hall h hh⟩
        by_cases hw : h.writer = dead.length
        · exact ⟨x, by rw [hw]; simp, inv.ownCur h hh hw⟩
        · obtain ⟨⟨d, hd, hb⟩, _⟩ := inv.ownOld h hh hw
          have hlt : h.writer < dead.length := by have := inv.wlt h hh; omega
          exact ⟨d, by rw [get_old hlt]; exact hd, hb⟩
      src := by
        intro t ht
        exact Or.inl ⟨⟨id, c.tables, c.wals, true⟩, by simp [restored], rfl, ht⟩
      srcid := by
        intro c' hc' _
        have : c' = ⟨id, c.tables, c.wals, true⟩ := by simpa [restored] using hc'
        subst this; rfl
      mine := by intro _ u hu; simp [restored] at hu
      tused := fun h hh => inv.tused h hh
      cused := by intro u hu; simp [restored] at hu
      winv := by
        intro h hh c' hc' w1 hw1 w2 hw2 hsm
        have : c' = ⟨id, c.tables, c.wals, true⟩ := by simpa [restored] using hc'
        subst this
        -- the composite carries the WALs of the entry it was read from
        unfold docEntry at hde
        split at hde
        · cases hde
        · rename_i wi hwi
          split at hde
          case isFalse => cases hde
          have hcm := List.mem_of_find?_eq_some hde
          have hcid : c.id = id := by simpa using List.find?_some hde
          rw [inv.shape] at hwi
          rcases get_cases hwi with ⟨_, h1⟩ | ⟨_, rfl⟩
          · have := inv.winvD h hh wi (List.mem_of_getElem? h1) c hcm w1 hw1 w2 hw2 hsm
            exact hcid.symm.trans this
          · have := inv.winv h hh c hcm w1 hw1 w2 hw2 hsm
            exact hcid.symm.trans this
      wlt := by
        intro h hh
        have := inv.wlt h hh
        simp; omega
      curused := fun t ht => inv.tused h0 hh0 t (htab ▸ ht)
      winvD := by
        intro h hh d hd c' hc' w1 hw1 w2 hw2 hsm
        rcases List.mem_append.mp hd with h1 | h1
        · exact inv.winvD h hh d h1 c' hc' w1 hw1 w2 hw2 hsm
        · have : d = x := by simpa using h1
          subst this
          exact inv.winv h hh c' hc' w1 hw1 w2 hw2 hsm
      xdir := hdl
      wdirC := by
        intro c' hc' w' hw'
        have : c' = ⟨id, c.tables, c.wals, true⟩ := by simpa [restored] using hc'
        subst this
        have h1 := (inv.wdirH h0 hh0 w' (hwal ▸ hw')).1
        exact ⟨by omega, fun h => by omega⟩
      wdirH := by
        intro h hh w' hw'
        have h1 := (inv.wdirH h hh w' hw').1
        exact ⟨by omega, fun h => by omega⟩
      wdirD := by
        intro d hd c' hc' w' hw'
        rcases List.mem_append.mp hd with h1 | h1
        · have := inv.wdirD d h1 c' hc' w' hw'; omega
        · have : d = x := by simpa using h1
          subst this
          have := (inv.wdirC c' hc' w' hw').1; omega }

theorem invL_init (range : KGRange) (nbrs : List KGRange) :
    InvL (init1 range nbrs) [] { range := range, nbrs := nbrs } where
  shape := rfl
  deadNA := by intro d hd; cases hd
  norel := by simp
  safe := by intro f hf; simp [needed, liveTables, init1, uris] at hf
  above := by intro h hh; simp [init1] at hh
  ownCur := by intro h hh; simp [init1] at hh
  ownOld := by intro h hh; simp [init1] at hh
  src := by intro t ht; simp at ht
  srcid := by intro c hc; simp at hc
  mine := by intro _ u hu; simp at hu
  tused := by intro h hh; simp [init1] at hh
  cused := by intro u hu; simp at hu
  winv := by intro h hh; simp [init1] at hh
  wlt := by intro h hh; simp [init1] at hh
  curused := by intro t ht; simp at ht
  winvD := by intro h hh; simp [init1] at hh
  xdir := rfl
  wdirC := by intro c hc; simp at hc
  wdirH := by intro h hh; simp [init1] at hh
  wdirD := by intro d hd; cases hd

theorem step_invL {s s' : State} {dead : List Inst} {x : Inst} {a : Act} (inv : InvL s dead x)
    (hsc : inScopeL s a = true) (hstep : step s a = some s') : ∃ dead' x', InvL s' dead' x' := by
  cases a with
  | openFresh r g n dir =>
    simp only [inScopeL, Bool.and_eq_true, List.isEmpty_iff, beq_iff_eq] at hsc
    exact step_invL_openFresh inv hsc.1.1 hsc.1.2 hsc.2 hstep
  | openFrom r g n ws id dir =>
    simp only [inScopeL, Bool.and_eq_true, beq_iff_eq] at hsc
    match ws, hsc, hstep with
    | [w], hsc, hstep =>
      have hsc2 : (s.retained.any fun h => h.writer == w && h.id == id) = true ∧
          (s.retained.all fun h => decide (h.id ≤ id)) = true := by simpa using hsc.2
      have hret : ∃ h0 ∈ s.retained, h0.writer = w ∧ h0.id = id := by
        obtain ⟨h0, hh0, hp⟩ := List.any_eq_true.mp hsc2.1
        simp only [Bool.and_eq_true, beq_iff_eq] at hp
        exact ⟨h0, hh0, hp.1, hp.2⟩
      exact step_invL_openFrom inv hsc.1.1 hsc.1.2 hret
        (by simpa using hsc2.2) hstep
    | [], hsc, _ => simp at hsc
    | _ :: _ :: _, hsc, _ => simp at hsc
  | release i => simp [inScopeL] at hsc
  | lateWrite i t => simp [inScopeL] at hsc
  | redeployFailed i =>
    simp only [step] at hstep
    split at hstep
    · simp at hstep
    · split at hstep
      · injection hstep with hstep; subst hstep; exact ⟨dead, x, inv⟩
      · simp at hstep
  | flush i t => obtain ⟨x', h⟩ := step_invL_simple inv trivial hstep; exact ⟨dead, x', h⟩
  | compact i rm add => obtain ⟨x', h⟩ := step_invL_simple inv trivial hstep; exact ⟨dead, x', h⟩
  | snap i => obtain ⟨x', h⟩ := step_invL_simple inv trivial hstep; exact ⟨dead, x', h⟩
  | unsnap i k => obtain ⟨x', h⟩ := step_invL_simple inv trivial hstep; exact ⟨dead, x', h⟩
  | crash i => obtain ⟨x', h⟩ := step_invL_simple inv trivial hstep; exact ⟨dead, x', h⟩
  | jobDrop k => exact ⟨dead, x, step_invL_jobDrop inv hstep⟩
  | jobAbandon id => exact ⟨dead, x, step_invL_jobAbandon inv hstep⟩
  | ckpt i id wal => obtain ⟨x', h⟩ := step_invL_ckpt inv hstep; exact ⟨dead, x', h⟩
  | retain i ids => obtain ⟨x', h⟩ := step_invL_retain inv (by simpa [inScopeL] using hsc) hstep; exact ⟨dead, x', h⟩
  | collect i u answers =>
    obtain ⟨x', h⟩ := step_invL_collect inv (by simpa [inScopeL] using hsc) hstep; exact ⟨dead, x', h⟩

theorem runL_invL {as : List Act} : ∀ {s s' : State} {dead : List Inst} {x : Inst}, InvL s dead x →
    runL s as = some s' → ∃ dead' x', InvL s' dead' x' := by
  induction as with
  | nil => intro s s' dead x inv h; simp only [runL] at h; injection h with h; subst h; exact ⟨dead, x, inv⟩
  | cons a as ih =>
    intro s s' dead x inv h
    simp only [runL] at h
    split at h
    · rename_i hsc
      split at h
      · rename_i s1 hstep
        obtain ⟨d1, x1, inv1⟩ := step_invL inv hsc hstep
        exact ih inv1 h
      · simp at h
    · simp at h

end Rxn.Files
