import RxnModel.Proofs.PipelineReplay
/-!
# C01: one failure-free witness run for *all* keys does not exist in general (rescaling)

On one worker every record travels through the single FIFO channel `0 → 0`. `Cross cfg s ord`: `ord` is the
global delivery order of a failure-free run on one worker; every key's log is `ord` restricted to the key, and
`ord` followed by what is still on the channel is, per split, the read prefix of the split in index order.
Two keys whose logs order the records of two splits crosswise (`cross_cycle`) therefore cannot both be produced
by one such run (`cross_no_single_witness`).
-/
namespace Rxn.Pipeline
variable {σ : Type}

def Item.pos : Item → Option (Nat × Nat)
  | .ev e => some (e.split, e.idx)
  | .bar => none

/-- the records on a channel, as `(split, index)`, in order -/
def evs (q : List Item) : List (Nat × Nat) := q.filterMap Item.pos

theorem evs_snoc_ev (q : List Item) (e : Entry) : evs (q ++ [Item.ev e]) = evs q ++ [(e.split, e.idx)] := by
  simp [evs, Item.pos]

theorem evs_snoc_bar (q : List Item) : evs (q ++ [Item.bar]) = evs q := by
  simp [evs, Item.pos]

theorem evs_cons_ev (e : Entry) (q : List Item) : evs (Item.ev e :: q) = (e.split, e.idx) :: evs q := by
  simp [evs, Item.pos]

theorem evs_dropBar (q : List Item) : evs (dropBar q) = evs q := by
  cases q with
  | nil => rfl
  | cons x t =>
    cases x with
    | ev e => rfl
    | bar => simp only [dropBar, evs, List.filterMap_cons, Item.pos]

/-- a delivery order restricted to the records of key `k` -/
def ofKey (cfg : Cfg σ) (k : Nat) (l : List (Nat × Nat)) : List (Nat × Nat) :=
  l.filter fun p => cfg.key p.1 p.2 == k

theorem ofKey_cons (cfg : Cfg σ) (k a b : Nat) (t : List (Nat × Nat)) :
    ofKey cfg k ((a, b) :: t) = (if cfg.key a b = k then [(a, b)] else []) ++ ofKey cfg k t := by
  by_cases h : cfg.key a b = k <;> simp [ofKey, h]

theorem ofKey_snoc (cfg : Cfg σ) (k a b : Nat) (l : List (Nat × Nat)) :
    ofKey cfg k (l ++ [(a, b)]) = ofKey cfg k l ++ (if cfg.key a b = k then [(a, b)] else []) := by
  by_cases h : cfg.key a b = k <;> simp [ofKey, h]

/-- one worker, `ord` = the deliveries so far in delivery order -/
structure Cross (cfg : Cfg σ) (s : State σ) (ord : List (Nat × Nat)) : Prop where
  n1 : s.n = 1
  logs : ∀ k, s.log 0 k = ofKey cfg k ord
  arr : ∀ sp, idxOf sp (ord ++ evs (s.queue 0 0)) = List.range (s.cursor sp)
  qkey : ∀ e, Item.ev e ∈ s.queue 0 0 → e.key = cfg.key e.split e.idx
  qoth : ∀ r o e, Item.ev e ∈ s.queue r o → r = 0 ∧ o = 0

theorem cross_restore (cfg : Cfg σ) (s : State σ) : Cross cfg (restore cfg s none 1 false) [] :=
  { n1 := rfl, logs := fun _ => rfl, arr := fun _ => rfl, qkey := fun _ h => (by cases h),
    qoth := fun _ _ _ h => (by cases h) }

theorem cross_settle (cfg : Cfg σ) (s : State σ) (p : Pend σ) (ord : List (Nat × Nat)) (hc : Cross cfg s ord) :
    Cross cfg (settle s p) ord := by
  unfold settle
  split <;> exact ⟨hc.n1, hc.logs, hc.arr, hc.qkey, hc.qoth⟩

theorem cross_read (cfg : Cfg σ) (wf : cfg.WF) (s : State σ) (ord : List (Nat × Nat)) (hc : Cross cfg s ord)
    (sp : Nat) :
    Cross cfg { s with
      cursor := fun x => if x = sp then s.cursor sp + 1 else s.cursor x
      queue := fun a b => if a = cfg.assign s.n sp ∧ b = cfg.route s.n (cfg.key sp (s.cursor sp)) then
        s.queue (cfg.assign s.n sp) (cfg.route s.n (cfg.key sp (s.cursor sp))) ++
          [Item.ev ⟨cfg.key sp (s.cursor sp), sp, s.cursor sp⟩] else s.queue a b } ord := by
  have ha : cfg.assign s.n sp = 0 := by
    have := wf.assign_lt 1 sp (by omega)
    rw [hc.n1]; omega
  have hr : cfg.route s.n (cfg.key sp (s.cursor sp)) = 0 := by
    have := wf.route_lt 1 (cfg.key sp (s.cursor sp)) (by omega)
    rw [hc.n1]; omega
  rw [ha, hr]
  refine ⟨hc.n1, hc.logs, ?_, ?_, ?_⟩
  · intro sp2
    dsimp only
    rw [if_pos ⟨rfl, rfl⟩, evs_snoc_ev, ← List.append_assoc, idxOf_snoc, hc.arr sp2]
    by_cases h : sp2 = sp
    · subst h
      rw [if_pos rfl, if_pos rfl, List.range_succ]
    · have h' : ¬ sp = sp2 := fun e => h e.symm
      rw [if_neg h, if_neg h', List.append_nil]
  · intro e he
    dsimp only at he
    rw [if_pos ⟨rfl, rfl⟩] at he
    rcases List.mem_append.1 he with h1 | h1
    · exact hc.qkey e h1
    · simp at h1
      subst h1
      rfl
  · intro r o e he
    dsimp only at he
    split at he
    · rename_i h
      exact h
    · exact hc.qoth r o e he

theorem cross_barrier (cfg : Cfg σ) (s : State σ) (ord : List (Nat × Nat)) (hc : Cross cfg s ord) (r : Nat) :
    Cross cfg { s with queue := fun a b => if a = r then s.queue a b ++ [Item.bar] else s.queue a b } ord := by
  have hmem : ∀ a b e, Item.ev e ∈ (if a = r then s.queue a b ++ [Item.bar] else s.queue a b) →
      Item.ev e ∈ s.queue a b := by
    intro a b e he
    split at he
    · rcases List.mem_append.1 he with h1 | h1
      · exact h1
      · simp at h1
    · exact he
  refine ⟨hc.n1, hc.logs, ?_, fun e he => hc.qkey e (hmem 0 0 e he), fun a b e he => hc.qoth a b e (hmem a b e he)⟩
  intro sp
  dsimp only
  split
  · rw [evs_snoc_bar]; exact hc.arr sp
  · exact hc.arr sp

theorem cross_opCkpt (cfg : Cfg σ) (s : State σ) (ord : List (Nat × Nat)) (hc : Cross cfg s ord) (o : Nat) :
    Cross cfg { s with queue := fun a b => if b = o then dropBar (s.queue a b) else s.queue a b } ord := by
  have hmem : ∀ a b e, Item.ev e ∈ (if b = o then dropBar (s.queue a b) else s.queue a b) →
      Item.ev e ∈ s.queue a b := by
    intro a b e he
    split at he
    · exact mem_of_mem_dropBar he
    · exact he
  refine ⟨hc.n1, hc.logs, ?_, fun e he => hc.qkey e (hmem 0 0 e he), fun a b e he => hc.qoth a b e (hmem a b e he)⟩
  intro sp
  dsimp only
  split
  · rw [evs_dropBar]; exact hc.arr sp
  · exact hc.arr sp

theorem cross_deliver (cfg : Cfg σ) (s : State σ) (ord : List (Nat × Nat)) (hc : Cross cfg s ord) (r o : Nat)
    (e : Entry) (rest : List Item) (hq : s.queue r o = Item.ev e :: rest) :
    Cross cfg { s with
        queue := fun a b => if a = r ∧ b = o then rest else s.queue a b
        log := fun a k => if a = o ∧ k = e.key then s.log o e.key ++ [(e.split, e.idx)] else s.log a k
        st := fun a k => if a = o ∧ k = e.key then cfg.h (s.st o e.key) e else s.st a k }
      (ord ++ [(e.split, e.idx)]) := by
  have hm : Item.ev e ∈ s.queue r o := by rw [hq]; exact List.mem_cons_self
  obtain ⟨rfl, rfl⟩ := hc.qoth r o e hm
  have hk := hc.qkey e hm
  refine ⟨hc.n1, ?_, ?_, ?_, ?_⟩
  · intro k
    dsimp only
    rw [ofKey_snoc, ← hk]
    by_cases h : k = e.key
    · subst h
      rw [if_pos ⟨rfl, rfl⟩, if_pos rfl, hc.logs]
    · have h' : ¬ e.key = k := fun x => h x.symm
      rw [if_neg (fun x => h x.2), if_neg h', List.append_nil, hc.logs]
  · intro sp
    dsimp only
    rw [if_pos ⟨rfl, rfl⟩]
    have := hc.arr sp
    rw [hq, evs_cons_ev] at this
    rw [List.append_assoc]
    exact this
  · intro e' he'
    dsimp only at he'
    rw [if_pos ⟨rfl, rfl⟩] at he'
    exact hc.qkey e' (by rw [hq]; exact List.mem_cons_of_mem _ he')
  · intro a b e' he'
    dsimp only at he'
    split at he'
    · rename_i h
      exact h
    · exact hc.qoth a b e' he'

theorem cross_step (cfg : Cfg σ) (wf : cfg.WF) (s s' : State σ) (a : Act) (g : List (Given σ))
    (ord : List (Nat × Nat)) (hc : Cross cfg s ord) (hf : a.isFailure = false)
    (h : step cfg s a = some (s', g)) : ∃ ord', Cross cfg s' ord' := by
  cases a with
  | read sp =>
    simp only [step] at h
    split at h
    · cases h
      exact ⟨ord, cross_read cfg wf s ord hc sp⟩
    · cases h
  | start =>
    simp only [step] at h
    split at h
    · cases h
    · split at h
      · cases h
        exact ⟨ord, hc.n1, hc.logs, hc.arr, hc.qkey, hc.qoth⟩
      · cases h
  | barrier r =>
    simp only [step] at h
    split at h
    · cases h
    · split at h
      · cases h
        exact ⟨ord, cross_settle cfg _ _ ord (cross_barrier cfg s ord hc r)⟩
      · cases h
  | deliver r o =>
    simp only [step] at h
    split at h
    · rename_i e rest hq
      cases h
      exact ⟨_, cross_deliver cfg s ord hc r o e rest hq⟩
    · cases h
  | opCkpt o =>
    simp only [step] at h
    split at h
    · cases h
    · split at h
      · cases h
        exact ⟨ord, cross_settle cfg _ _ ord (cross_opCkpt cfg s ord hc o)⟩
      · cases h
  | publish i =>
    simp only [step] at h
    split at h
    · cases h
      exact ⟨ord, hc.n1, hc.logs, hc.arr, hc.qkey, hc.qoth⟩
    · cases h
  | kill w => cases hf
  | restart n' job => cases hf
  | redeployLive n' => cases hf

theorem cross_runFrom (cfg : Cfg σ) (wf : cfg.WF) (as : List Act) (s s' : State σ) (obs : List (Given σ))
    (ord : List (Nat × Nat)) (hc : Cross cfg s ord) (hf : ∀ a ∈ as, a.isFailure = false)
    (h : runFrom cfg s as = some (s', obs)) : ∃ ord', Cross cfg s' ord' := by
  induction as generalizing s obs ord with
  | nil =>
    simp only [runFrom] at h
    cases h
    exact ⟨ord, hc⟩
  | cons a as ih =>
    simp only [runFrom] at h
    split at h
    · cases h
    · rename_i s1 o1 hs1
      split at h
      · cases h
      · rename_i s2 o2 hs2
        cases h
        obtain ⟨ord1, hc1⟩ := cross_step cfg wf s s1 a o1 ord hc (hf a List.mem_cons_self) hs1
        exact ih s1 o2 ord1 hc1 (fun b hb => hf b (List.mem_cons_of_mem _ hb)) hs2

/-! ## the crossing -/

theorem range_head_zero {i m : Nat} {L : List Nat} (h : i :: L = List.range m) : i = 0 := by
  cases m with
  | zero => simp at h
  | succ m =>
    rw [List.range_succ_eq_map] at h
    exact (List.cons.inj h).1

/-- no delivery order has key 1 see `(0,1)` before `(1,0)` and key 2 see `(1,1)` before `(0,0)` while each split
is delivered in index order: the first of the four records to be delivered is not the first of its split or not
the first of its key -/
theorem cross_cycle (cfg : Cfg σ) (h00 : cfg.key 0 0 = 2) (h10 : cfg.key 1 0 = 1)
    (hge : ∀ sp i, 2 ≤ sp → cfg.key sp i ≠ 1 ∧ cfg.key sp i ≠ 2) (ord : List (Nat × Nat)) (m0 m1 : Nat)
    (f1 : ofKey cfg 1 ord = [(0, 1), (1, 0)]) (f2 : ofKey cfg 2 ord = [(1, 1), (0, 0)])
    (g0 : idxOf 0 ord = List.range m0) (g1 : idxOf 1 ord = List.range m1) : False := by
  induction ord with
  | nil => simp [ofKey] at f1
  | cons p t ih =>
    obtain ⟨sp, i⟩ := p
    rw [ofKey_cons] at f1 f2
    rw [idxOf_cons] at g0 g1
    match sp with
    | 0 =>
      rw [if_pos rfl] at g0
      have hi := range_head_zero g0
      subst hi
      rw [if_pos h00] at f2
      simp at f2
    | 1 =>
      rw [if_pos rfl] at g1
      have hi := range_head_zero g1
      subst hi
      rw [if_pos h10] at f1
      simp at f1
    | sp + 2 =>
      obtain ⟨hk1, hk2⟩ := hge (sp + 2) i (by omega)
      rw [if_neg hk1, List.nil_append] at f1
      rw [if_neg hk2, List.nil_append] at f2
      rw [if_neg (by omega), List.nil_append] at g0 g1
      exact ih f1 f2 g0 g1

theorem range_prefix {A B : List Nat} {c : Nat} (h : A ++ B = List.range c) : A = List.range A.length := by
  have h1 : (A ++ B).take A.length = A := by simp
  rw [h, List.take_range] at h1
  have hl : A.length ≤ c := by
    have := congrArg List.length h
    simp at this
    omega
  rw [Nat.min_eq_left hl] at h1
  exact h1.symm

/-- **No single witness.** If the keys of the first records of splits 0 and 1 cross (`key 0 0 = 2`, `key 1 0 = 1`),
no run consisting of a deployment on one worker followed by failure-free actions ends with key 1 having seen
`(0,1)` before `(1,0)` and key 2 having seen `(1,1)` before `(0,0)`. -/
theorem cross_no_single_witness (cfg : Cfg σ) (wf : cfg.WF) (h00 : cfg.key 0 0 = 2) (h10 : cfg.key 1 0 = 1)
    (hge : ∀ sp i, 2 ≤ sp → cfg.key sp i ≠ 1 ∧ cfg.key sp i ≠ 2) (as' : List Act) (s' : State σ)
    (obs' : List (Given σ)) (hh : as'.head? = some (Act.restart 1 false))
    (hf : ∀ a ∈ as'.tail, a.isFailure = false) (hr : run cfg as' = some (s', obs'))
    (h1 : s'.log 0 1 = [(0, 1), (1, 0)]) (h2 : s'.log 0 2 = [(1, 1), (0, 0)]) : False := by
  cases as' with
  | nil => cases hh
  | cons a tl =>
    simp only [List.head?_cons, Option.some.injEq] at hh
    subst hh
    simp only [List.tail_cons] at hf
    have h0 : step cfg (init cfg) (Act.restart 1 false) = some (restore cfg (init cfg) none 1 false, []) := rfl
    simp only [run, runFrom, h0] at hr
    split at hr
    · cases hr
    · rename_i s2 o2 hs2
      cases hr
      obtain ⟨ord, hc⟩ := cross_runFrom cfg wf tl _ s' o2 [] (cross_restore cfg (init cfg)) hf hs2
      have g0 := hc.arr 0
      have g1 := hc.arr 1
      rw [idxOf_append] at g0 g1
      exact cross_cycle cfg h00 h10 hge ord _ _ (by rw [← hc.logs, h1]) (by rw [← hc.logs, h2])
        (range_prefix g0) (range_prefix g1)

end Rxn.Pipeline
