import RxnModel.Proofs.Files
/-!
The invariant behind `no_needed_file_deleted_concurrent_partial` (C09): any number of operators running at the same
time, each opened empty in a directory of its own, none reopened. The frame facts: table names are globally fresh, so
the tables an instance ever wrote (`made`) are disjoint from every other instance's; WAL files carry the directory of
their instance.
-/
namespace Rxn.Files
open Rxn

/-! ## list bookkeeping -/

theorem get_set_inv {l : List Inst} {i j : Nat} {xi y x' : Inst} (hi : l[i]? = some xi)
    (h : (l.set i y)[j]? = some x') : (i = j ∧ x' = y) ∨ (i ≠ j ∧ l[j]? = some x') := by
  by_cases hij : i = j
  · subst hij
    have hlt : i < l.length := by
      rcases Nat.lt_or_ge i l.length with hlt | hge
      · exact hlt
      · rw [List.getElem?_eq_none hge] at hi; cases hi
    have : (l.set i y)[i]? = some y := by simp [hlt]
    rw [this] at h; injection h with h
    exact Or.inl ⟨rfl, h.symm⟩
  · right
    refine ⟨hij, ?_⟩
    have : (l.set i y)[j]? = l[j]? := by simp [hij]
    rw [← this]; exact h

theorem get_set_self {l : List Inst} {i : Nat} {xi y : Inst} (hi : l[i]? = some xi) : (l.set i y)[i]? = some y := by
  have hlt : i < l.length := by
    rcases Nat.lt_or_ge i l.length with hlt | hge
    · exact hlt
    · rw [List.getElem?_eq_none hge] at hi; cases hi
  simp [hlt]

theorem get_set_other {l : List Inst} {i j : Nat} {y : Inst} (hij : i ≠ j) : (l.set i y)[j]? = l[j]? := by
  simp [hij]

theorem mem_neededN {s : State} (f : File) :
    f ∈ needed s ↔ (∃ (j : Nat) (x : Inst), s.insts[j]? = some x ∧ x.life = .alive ∧ ∃ t ∈ x.current, f = .sst t.uri) ∨
      ∃ h ∈ s.retained, (∃ t ∈ h.tables, f = .sst t.uri) ∨ (∃ w ∈ h.wals, f = .wal w) := by
  have hlive : ∀ p, p ∈ liveTables s ↔ ∃ (j : Nat) (x : Inst), s.insts[j]? = some x ∧ x.life = .alive ∧ p ∈ uris x.current := by
    intro p
    unfold liveTables
    rw [List.mem_flatMap]
    constructor
    · rintro ⟨x, hx, hp⟩
      obtain ⟨j, hj⟩ := List.mem_iff_getElem?.mp hx
      by_cases hl : x.life = .alive
      · exact ⟨j, x, hj, hl, by simpa [hl] using hp⟩
      · simp [hl] at hp
    · rintro ⟨j, x, hj, hl, hp⟩
      exact ⟨x, List.mem_of_getElem? hj, by simp [hl, hp]⟩
  unfold needed handleFiles
  simp only [List.mem_append, List.mem_map, List.mem_flatMap]
  constructor
  · rintro (⟨p, hp, rfl⟩ | ⟨h, hh, (⟨p, hp, rfl⟩ | ⟨w, hw, rfl⟩)⟩)
    · obtain ⟨j, x, hj, hl, hp⟩ := (hlive p).mp hp
      obtain ⟨t, ht, rfl⟩ := List.mem_map.mp hp
      exact Or.inl ⟨j, x, hj, hl, t, ht, rfl⟩
    · obtain ⟨t, ht, rfl⟩ := List.mem_map.mp hp
      exact Or.inr ⟨h, hh, Or.inl ⟨t, ht, rfl⟩⟩
    · exact Or.inr ⟨h, hh, Or.inr ⟨w, hw, rfl⟩⟩
  · rintro (⟨j, x, hj, hl, t, ht, rfl⟩ | ⟨h, hh, (⟨t, ht, rfl⟩ | ⟨w, hw, rfl⟩)⟩)
    · exact Or.inl ⟨t.uri, (hlive _).mpr ⟨j, x, hj, hl, List.mem_map.mpr ⟨t, ht, rfl⟩⟩, rfl⟩
    · exact Or.inr ⟨h, hh, Or.inl ⟨t.uri, List.mem_map.mpr ⟨t, ht, rfl⟩, rfl⟩⟩
    · exact Or.inr ⟨h, hh, Or.inr ⟨w, hw, rfl⟩⟩

/-- per-instance facts -/
structure InstOk (s : State) (i : Nat) (x : Inst) : Prop where
  dir : x.dir = i
  norel : x.life ≠ .released
  noload : x.loaded = []
  wuniq : ∀ c ∈ x.ckpts, ∀ c' ∈ x.ckpts, ∀ w ∈ c.wals, ∀ w' ∈ c'.wals, w.same w' = true → c.id = c'.id
  wnum : ∀ c ∈ x.ckpts, ∀ w ∈ c.wals, w.dir = i ∧ w.num < x.walNext
  rcur : ∀ t ∈ x.current, t.uri ∈ x.made
  rck : ∀ c ∈ x.ckpts, ∀ t ∈ c.tables, t.uri ∈ x.made
  rcr : ∀ u ∈ x.created, u ∈ x.made
  mused : ∀ u ∈ x.made, u ∈ s.used

structure InvN (s : State) : Prop where
  inst : ∀ (i : Nat) (x : Inst), s.insts[i]? = some x → InstOk s i x
  safe : Safe s
  own : ∀ h ∈ s.retained, s.floor < h.id ∧ ∃ x : Inst, s.insts[h.writer]? = some x ∧
    ∃ c ∈ x.ckpts, c.id = h.id ∧ c.tables = h.tables ∧ c.wals = h.wals
  /-- no table was written by two instances -/
  disj : ∀ (i j : Nat) (x y : Inst), i ≠ j → s.insts[i]? = some x → s.insts[j]? = some y → ∀ u ∈ x.made, u ∉ y.made

theorem invN_init : InvN {} where
  inst := by intro i x h; simp at h
  safe := by intro f hf; simp [needed, liveTables] at hf
  own := by intro h hh; simp at hh
  disj := by intro i j x y _ h; simp at h

/-- whoever references a table wrote it -/
theorem made_of_handle {s : State} (inv : InvN s) {h : Handle} (hh : h ∈ s.retained) {t : Tbl} (ht : t ∈ h.tables) :
    ∃ x : Inst, s.insts[h.writer]? = some x ∧ t.uri ∈ x.made ∧ ∃ c ∈ x.ckpts, t ∈ c.tables := by
  obtain ⟨_, x, hx, c, hc, _, htab, _⟩ := inv.own h hh
  exact ⟨x, hx, (inv.inst _ x hx).rck c hc t (htab ▸ ht), c, hc, htab ▸ ht⟩

theorem same_writer {s : State} (inv : InvN s) {i j : Nat} {x y : Inst} (hx : s.insts[i]? = some x)
    (hy : s.insts[j]? = some y) {u : Path} (hu : u ∈ x.made) (hv : u ∈ y.made) : i = j := by
  by_cases hij : i = j
  · exact hij
  · exact absurd hv (inv.disj i j x y hij hx hy u hu)

/-- steps of instance `i` that keep handles and checkpoints: they may add table files with unused names -/
theorem invN_tables {s : State} {i : Nat} {xi y : Inst} {F : List File} {U : List Path} (inv : InvN s)
    (hi : s.insts[i]? = some xi)
    (hck : y.ckpts = xi.ckpts) (hdir : y.dir = xi.dir) (hwn : y.walNext = xi.walNext) (hld : y.loaded = xi.loaded)
    (hrel : y.life ≠ .released) (hlife : y.life = .alive → xi.life = .alive)
    (hF : ∀ f ∈ s.files, f ∈ F) (hU : ∀ u ∈ s.used, u ∈ U)
    (hcur : ∀ t ∈ y.current, t ∈ xi.current ∨ (.sst t.uri ∈ F ∧ t.uri ∈ y.made))
    (hmade : ∀ u ∈ y.made, (u ∈ xi.made ∨ u ∉ s.used) ∧ u ∈ U)
    (hmono : ∀ u ∈ xi.made, u ∈ y.made)
    (hcr : ∀ u ∈ y.created, u ∈ y.made) :
    InvN { s with insts := s.insts.set i y, files := F, used := U } where
  inst := by
    intro j x' hj
    rcases get_set_inv hi hj with ⟨rfl, rfl⟩ | ⟨_, hj'⟩
    · have ok := inv.inst _ xi hi
      exact {
        dir := hdir.trans ok.dir
        norel := hrel
        noload := hld.trans ok.noload
        wuniq := by rw [hck]; exact ok.wuniq
        wnum := by rw [hck, hwn]; exact ok.wnum
        rcur := by
          intro t ht
          rcases hcur t ht with h1 | h1
          · exact hmono _ (ok.rcur t h1)
          · exact h1.2
        rck := by rw [hck]; exact fun c hc t ht => hmono _ (ok.rck c hc t ht)
        rcr := hcr
        mused := fun u hu => (hmade u hu).2 }
    · have ok := inv.inst _ x' hj'
      exact { ok with mused := fun u hu => hU _ (ok.mused u hu) }
  safe := by
    intro f hf
    rcases (mem_neededN f).mp hf with ⟨j, x', hj, hl, t, ht, rfl⟩ | ⟨h, hh, hr⟩
    · rcases get_set_inv hi hj with ⟨rfl, rfl⟩ | ⟨_, hj'⟩
      · rcases hcur t ht with h1 | h1
        · exact hF _ (inv.safe _ ((mem_neededN _).mpr (Or.inl ⟨_, xi, hi, hlife hl, t, h1, rfl⟩)))
        · exact h1.1
      · exact hF _ (inv.safe _ ((mem_neededN _).mpr (Or.inl ⟨j, x', hj', hl, t, ht, rfl⟩)))
    · exact hF _ (inv.safe _ ((mem_neededN _).mpr (Or.inr ⟨h, hh, hr⟩)))
  own := by
    intro h hh
    obtain ⟨h1, x, hx, c, hc, h2⟩ := inv.own h hh
    refine ⟨h1, ?_⟩
    by_cases hw : i = h.writer
    · subst hw
      rw [hi] at hx; injection hx with hx; subst hx
      exact ⟨y, get_set_self hi, c, hck ▸ hc, h2⟩
    · exact ⟨x, by show (s.insts.set i y)[h.writer]? = some x; rw [get_set_other hw]; exact hx, c, hc, h2⟩
  disj := by
    intro a b xa xb hab ha hb u hu hv
    rcases get_set_inv hi ha with ⟨rfl, rfl⟩ | ⟨hia, ha'⟩
    · rcases get_set_inv hi hb with ⟨h1, _⟩ | ⟨_, hb'⟩
      · exact hab h1
      · rcases (hmade u hu).1 with h1 | h1
        · exact inv.disj _ b xi xb hab hi hb' u h1 hv
        · exact h1 ((inv.inst b xb hb').mused u hv)
    · rcases get_set_inv hi hb with ⟨rfl, rfl⟩ | ⟨_, hb'⟩
      · rcases (hmade u hv).1 with h1 | h1
        · exact inv.disj a _ xa xi hab ha' hi u hu h1
        · exact h1 ((inv.inst a xa ha').mused u hu)
      · exact inv.disj a b xa xb hab ha' hb' u hu hv


@[reducible] def flushInst (x : Inst) (t : Tbl) : Inst :=
  { x with current := t :: x.current, created := t.uri :: x.created, made := t.uri :: x.made }

@[reducible] def compactInst (x : Inst) (rm : List Path) (add : List Tbl) : Inst :=
  { x with current := dropTables x.current rm ++ add, created := uris add ++ x.created,
           made := uris add ++ x.made }

theorem step_invN_simple {s s' : State} {a : Act} (inv : InvN s)
    (ha : match a with
      | .flush .. => True | .compact .. => True | .snap _ => True | .unsnap .. => True | .crash _ => True
      | .redeployFailed _ => True
      | _ => False)
    (hstep : step s a = some s') : InvN s' := by
  cases a with
  | flush i t =>
    simp only [step] at hstep
    split at hstep
    · simp at hstep
    · rename_i xi hi
      split at hstep
      · rename_i hc
        injection hstep with hstep; subst hstep
        have hfresh : t.uri ∉ s.used := by simpa using hc.2
        have ok := inv.inst _ xi hi
        have := invN_tables (y := flushInst xi t) (F := .sst t.uri :: s.files) (U := t.uri :: s.used) inv hi rfl rfl rfl rfl
          ok.norel (fun h => h) (fun f hf => List.mem_cons_of_mem _ hf) (fun u hu => List.mem_cons_of_mem _ hu)
          (by
            intro t' ht'
            rcases List.mem_cons.mp ht' with rfl | ht'
            · exact Or.inr ⟨List.mem_cons_self .., List.mem_cons_self ..⟩
            · exact Or.inl ht')
          (by
            intro u hu
            rcases List.mem_cons.mp hu with rfl | hu
            · exact ⟨Or.inr hfresh, List.mem_cons_self ..⟩
            · exact ⟨Or.inl hu, List.mem_cons_of_mem _ (ok.mused u hu)⟩)
          (fun u hu => List.mem_cons_of_mem _ hu)
          (by
            intro u hu
            rcases List.mem_cons.mp hu with rfl | hu
            · exact List.mem_cons_self ..
            · exact List.mem_cons_of_mem _ (ok.rcr u hu))
        exact this
      · simp at hstep
  | compact i rm add =>
    simp only [step] at hstep
    split at hstep
    · simp at hstep
    · rename_i xi hi
      split at hstep
      · rename_i hc
        injection hstep with hstep; subst hstep
        have hfresh := allFresh_not_mem hc.2.1
        have ok := inv.inst _ xi hi
        have := invN_tables (y := compactInst xi rm add)
          (F := (uris add).map File.sst ++ s.files) (U := uris add ++ s.used) inv hi rfl rfl rfl rfl
          ok.norel (fun h => h) (fun f hf => List.mem_append_right _ hf) (fun u hu => List.mem_append_right _ hu)
          (by
            intro t' ht'
            rcases List.mem_append.mp ht' with ht' | ht'
            · exact Or.inl (mem_dropTables ht')
            · have hm : t'.uri ∈ uris add := List.mem_map.mpr ⟨t', ht', rfl⟩
              exact Or.inr ⟨List.mem_append_left _ (List.mem_map.mpr ⟨t'.uri, hm, rfl⟩), List.mem_append_left _ hm⟩)
          (by
            intro u hu
            rcases List.mem_append.mp hu with hu | hu
            · exact ⟨Or.inr (hfresh u hu), List.mem_append_left _ hu⟩
            · exact ⟨Or.inl hu, List.mem_append_right _ (ok.mused u hu)⟩)
          (fun u hu => List.mem_append_right _ hu)
          (by
            intro u hu
            rcases List.mem_append.mp hu with hu | hu
            · exact List.mem_append_left _ hu
            · exact List.mem_append_right _ (ok.rcr u hu))
        exact this
      · simp at hstep
  | snap i =>
    simp only [step] at hstep
    split at hstep
    · simp at hstep
    · rename_i xi hi
      split at hstep
      · injection hstep with hstep; subst hstep
        have ok := inv.inst _ xi hi
        have := invN_tables (y := { xi with snaps := xi.current :: xi.snaps }) (F := s.files) (U := s.used) inv hi
          rfl rfl rfl rfl ok.norel (fun h => h) (fun f hf => hf) (fun u hu => hu) (fun t ht => Or.inl ht)
          (fun u hu => ⟨Or.inl hu, ok.mused u hu⟩) (fun u hu => hu) ok.rcr
        simpa [setInst] using this
      · simp at hstep
  | unsnap i k =>
    simp only [step] at hstep
    split at hstep
    · simp at hstep
    · rename_i xi hi
      split at hstep
      · injection hstep with hstep; subst hstep
        have ok := inv.inst _ xi hi
        have := invN_tables (y := { xi with snaps := xi.snaps.eraseIdx k }) (F := s.files) (U := s.used) inv hi
          rfl rfl rfl rfl ok.norel (fun h => h) (fun f hf => hf) (fun u hu => hu) (fun t ht => Or.inl ht)
          (fun u hu => ⟨Or.inl hu, ok.mused u hu⟩) (fun u hu => hu) ok.rcr
        simpa [setInst] using this
      · simp at hstep
  | crash i =>
    simp only [step] at hstep
    split at hstep
    · simp at hstep
    · rename_i xi hi
      split at hstep
      · injection hstep with hstep; subst hstep
        have ok := inv.inst _ xi hi
        have := invN_tables (y := { xi with life := .crashed }) (F := s.files) (U := s.used) inv hi
          rfl rfl rfl rfl (by simp) (fun h => by simp at h) (fun f hf => hf) (fun u hu => hu) (fun t ht => Or.inl ht)
          (fun u hu => ⟨Or.inl hu, ok.mused u hu⟩) (fun u hu => hu) ok.rcr
        simpa [setInst] using this
      · simp at hstep
  | redeployFailed i =>
    simp only [step] at hstep
    split at hstep
    · simp at hstep
    · split at hstep
      · injection hstep with hstep; subst hstep; exact inv
      · simp at hstep
  | _ => exact absurd ha (by simp)

theorem step_invN_jobDrop {s s' : State} {k : Nat} (inv : InvN s) (hstep : step s (.jobDrop k) = some s') :
    InvN s' := by
  simp only [step] at hstep
  split at hstep
  · injection hstep with hstep; subst hstep
    have hsub : ∀ h, h ∈ s.retained.filter (fun h => k < h.id) → h ∈ s.retained ∧ k < h.id := by
      intro h hh; have := List.mem_filter.mp hh; exact ⟨this.1, by simpa using this.2⟩
    exact {
      inst := fun i x hx => { inv.inst i x hx with }
      safe := by
        intro f hf
        rcases (mem_neededN f).mp hf with hl | ⟨h, hh, hr⟩
        · exact inv.safe _ ((mem_neededN _).mpr (Or.inl hl))
        · exact inv.safe _ ((mem_neededN _).mpr (Or.inr ⟨h, (hsub h hh).1, hr⟩))
      own := by
        intro h hh
        obtain ⟨h1, rest⟩ := inv.own h (hsub h hh).1
        exact ⟨Nat.max_lt.mpr ⟨h1, (hsub h hh).2⟩, rest⟩
      disj := inv.disj }
  · simp at hstep

theorem step_invN_jobAbandon {s s' : State} {id : Nat} (inv : InvN s) (hstep : step s (.jobAbandon id) = some s') :
    InvN s' := by
  simp only [step] at hstep
  injection hstep with hstep; subst hstep
  have hsub : ∀ h, h ∈ s.retained.filter (fun h => h.id != id) → h ∈ s.retained :=
    fun h hh => (List.mem_filter.mp hh).1
  exact {
    inst := fun i x hx => { inv.inst i x hx with }
    safe := by
      intro f hf
      rcases (mem_neededN f).mp hf with hl | ⟨h, hh, hr⟩
      · exact inv.safe _ ((mem_neededN _).mpr (Or.inl hl))
      · exact inv.safe _ ((mem_neededN _).mpr (Or.inr ⟨h, hsub h hh, hr⟩))
    own := fun h hh => inv.own h (hsub h hh)
    disj := inv.disj }

theorem step_invN_openFresh {s s' : State} {r : KGRange} {g : Nat} {n : List KGRange} {dir : Nat} (inv : InvN s)
    (hdir : dir = s.insts.length) (hstep : step s (.openFresh r g n dir) = some s') : InvN s' := by
  simp only [step] at hstep
  injection hstep with hstep; subst hstep
  have hnew : ∀ (j : Nat) (x : Inst), (s.insts ++ [(freshInst r g n dir s.insts.length)])[j]? = some x →
      s.insts[j]? = some x ∨ (j = s.insts.length ∧ x = (freshInst r g n dir s.insts.length)) := by
    intro j x hj
    rcases Nat.lt_trichotomy j s.insts.length with hlt | heq | hgt
    · rw [List.getElem?_append_left hlt] at hj; exact Or.inl hj
    · subst heq
      have : (s.insts ++ [(freshInst r g n dir s.insts.length)])[s.insts.length]? =
          some (freshInst r g n dir s.insts.length) := by simp
      rw [this] at hj; injection hj with hj
      exact Or.inr ⟨rfl, hj.symm⟩
    · have : (s.insts ++ [(freshInst r g n dir s.insts.length)]).length ≤ j := by simp; omega
      rw [List.getElem?_eq_none this] at hj; cases hj
  have hold : ∀ (j : Nat) (x : Inst), s.insts[j]? = some x →
      (s.insts ++ [(freshInst r g n dir s.insts.length)])[j]? = some x := by
    intro j x hj
    have hlt : j < s.insts.length := by
      rcases Nat.lt_or_ge j s.insts.length with hlt | hge
      · exact hlt
      · rw [List.getElem?_eq_none hge] at hj; cases hj
    rw [List.getElem?_append_left hlt]; exact hj
  exact {
    inst := by
      intro j x hj
      rcases hnew j x hj with h1 | ⟨rfl, rfl⟩
      · exact { inv.inst j x h1 with }
      · exact {
          dir := hdir
          norel := by simp
          noload := rfl
          wuniq := by intro c hc; simp at hc
          wnum := by intro c hc; simp at hc
          rcur := by intro t ht; simp at ht
          rck := by intro c hc; simp at hc
          rcr := by intro u hu; simp at hu
          mused := by intro u hu; simp at hu }
    safe := by
      intro f hf
      rcases (mem_neededN f).mp hf with ⟨j, x, hj, hl, t, ht, rfl⟩ | ⟨h, hh, hr⟩
      · rcases hnew j x hj with h1 | ⟨_, rfl⟩
        · exact inv.safe _ ((mem_neededN _).mpr (Or.inl ⟨j, x, h1, hl, t, ht, rfl⟩))
        · simp at ht
      · exact inv.safe _ ((mem_neededN _).mpr (Or.inr ⟨h, hh, hr⟩))
    own := by
      intro h hh
      obtain ⟨h1, x, hx, rest⟩ := inv.own h hh
      exact ⟨h1, x, hold _ x hx, rest⟩
    disj := by
      intro a b xa xb hab ha hb u hu hv
      rcases hnew a xa ha with h1 | ⟨_, rfl⟩
      · rcases hnew b xb hb with h2 | ⟨_, rfl⟩
        · exact inv.disj a b xa xb hab h1 h2 u hu hv
        · simp at hv
      · simp at hu }


/-- replacing instance `i` by an instance with the same `made`, directory, life and loaded objects, whose checkpoint
list satisfies the per-instance facts again -/
theorem invN_replace {s s' : State} {i : Nat} {xi y : Inst} (inv : InvN s) (hi : s.insts[i]? = some xi)
    (hins : s'.insts = s.insts.set i y) (hused : s'.used = s.used)
    (hmade : y.made = xi.made) (hdir : y.dir = xi.dir) (hlife : y.life = xi.life) (hld : y.loaded = xi.loaded)
    (hcur : y.current = xi.current) (hcr : ∀ u ∈ y.created, u ∈ xi.created)
    (hwuniq : ∀ c ∈ y.ckpts, ∀ c' ∈ y.ckpts, ∀ w ∈ c.wals, ∀ w' ∈ c'.wals, w.same w' = true → c.id = c'.id)
    (hwnum : ∀ c ∈ y.ckpts, ∀ w ∈ c.wals, w.dir = i ∧ w.num < y.walNext)
    (hrck : ∀ c ∈ y.ckpts, ∀ t ∈ c.tables, t.uri ∈ xi.made)
    (hsafe : Safe s')
    (hown : ∀ h ∈ s'.retained, s'.floor < h.id ∧ ∃ x : Inst, s'.insts[h.writer]? = some x ∧
      ∃ c ∈ x.ckpts, c.id = h.id ∧ c.tables = h.tables ∧ c.wals = h.wals) : InvN s' where
  inst := by
    intro j x' hj
    rw [hins] at hj
    rcases get_set_inv hi hj with ⟨rfl, rfl⟩ | ⟨_, hj'⟩
    · have ok := inv.inst _ xi hi
      exact {
        dir := hdir.trans ok.dir
        norel := hlife ▸ ok.norel
        noload := hld.trans ok.noload
        wuniq := hwuniq
        wnum := hwnum
        rcur := by rw [hcur, hmade]; exact ok.rcur
        rck := by rw [hmade]; exact hrck
        rcr := by rw [hmade]; exact fun u hu => ok.rcr u (hcr u hu)
        mused := by rw [hmade, hused]; exact ok.mused }
    · have ok := inv.inst _ x' hj'
      exact { ok with mused := by rw [hused]; exact ok.mused }
  safe := hsafe
  own := hown
  disj := by
    intro a b xa xb hab ha hb u hu hv
    rw [hins] at ha hb
    rcases get_set_inv hi ha with ⟨rfl, rfl⟩ | ⟨_, ha'⟩
    · rcases get_set_inv hi hb with ⟨h1, _⟩ | ⟨_, hb'⟩
      · exact hab h1
      · exact inv.disj _ b xi xb hab hi hb' u (hmade ▸ hu) hv
    · rcases get_set_inv hi hb with ⟨rfl, rfl⟩ | ⟨_, hb'⟩
      · exact inv.disj a _ xa xi hab ha' hi u hu (hmade ▸ hv)
      · exact inv.disj a b xa xb hab ha' hb' u hu hv

theorem step_invN_ckpt {s s' : State} {i id : Nat} {wal : Wal} (inv : InvN s)
    (hstep : step s (.ckpt i id wal) = some s') : InvN s' := by
  simp only [step] at hstep
  split at hstep
  · simp at hstep
  · rename_i xi hi
    split at hstep
    · rename_i hc
      obtain ⟨hal, hfl, hid, _, hwdir, hwnum⟩ := hc
      injection hstep with hstep; subst hstep
      have ok := inv.inst _ xi hi
      have hwd : wal.dir = i := hwdir.trans ok.dir
      have hmemck : ∀ c, c ∈ xi.ckpts ++ [(⟨id, xi.current, [wal], false⟩ : Ckpt)] →
          c ∈ xi.ckpts ∨ c = ⟨id, xi.current, [wal], false⟩ := by
        intro c hc
        rcases List.mem_append.mp hc with h1 | h1
        · exact Or.inl h1
        · exact Or.inr (by simpa using h1)
      -- the sealed WAL has a name no referenced WAL file has: other directories, or smaller numbers
      have hnew : ∀ (j : Nat) (xj : Inst), s.insts[j]? = some xj → ∀ c ∈ xj.ckpts, ∀ v ∈ c.wals,
          wal.same v = false := by
        intro j xj hj c hc v hv
        have hn := (inv.inst j xj hj).wnum c hc v hv
        cases hsm : wal.same v with
        | false => rfl
        | true =>
          obtain ⟨h1, h2⟩ := same_num hsm
          have hji : j = i := by omega
          subst hji
          rw [hi] at hj; injection hj with hj; subst hj
          omega
      refine invN_replace (y := ckptInst xi id wal) inv hi (by simp [setInst]) rfl rfl rfl rfl rfl rfl
        (fun u hu => hu) ?_ ?_ ?_ ?_ ?_
      · intro c hc c' hc' w hw w' hw' hsm
        rcases hmemck c hc with h1 | h1 <;> rcases hmemck c' hc' with h2 | h2
        · exact ok.wuniq c h1 c' h2 w hw w' hw' hsm
        · rw [h2] at hw'
          have hww : w' = wal := by simpa using hw'
          rw [hww, same_comm] at hsm
          have := hnew i xi hi c h1 w hw
          rw [hsm] at this; cases this
        · rw [h1] at hw
          have hww : w = wal := by simpa using hw
          rw [hww] at hsm
          have := hnew i xi hi c' h2 w' hw'
          rw [hsm] at this; cases this
        · rw [h1, h2]
      · intro c hc w hw
        show w.dir = i ∧ w.num < xi.walNext + 1
        rcases hmemck c hc with h1 | h1
        · have := ok.wnum c h1 w hw
          exact ⟨this.1, by omega⟩
        · subst h1
          have hww : w = wal := by simpa using hw
          subst hww
          exact ⟨hwd, by omega⟩
      · intro c hc t ht
        rcases hmemck c hc with h1 | h1
        · exact ok.rck c h1 t ht
        · subst h1; exact ok.rcur t ht
      · -- Safe
        intro f hf
        show f ∈ File.wal wal :: clobber s.files wal
        rcases (mem_neededN f).mp hf with ⟨j, x', hj, hl, t, ht, rfl⟩ | ⟨h, hh, hr⟩
        · have hj : (s.insts.set i (ckptInst xi id wal))[j]? = some x' := by simpa [setInst] using hj
          refine List.mem_cons_of_mem _ (mem_clobber.mpr ⟨?_, by intro v hv; cases hv⟩)
          rcases get_set_inv hi hj with ⟨rfl, rfl⟩ | ⟨_, hj'⟩
          · exact inv.safe _ ((mem_neededN _).mpr (Or.inl ⟨_, xi, hi, hl, t, ht, rfl⟩))
          · exact inv.safe _ ((mem_neededN _).mpr (Or.inl ⟨j, x', hj', hl, t, ht, rfl⟩))
        · rcases List.mem_cons.mp hh with rfl | hh
          · rcases hr with ⟨t, ht, rfl⟩ | ⟨w, hw, rfl⟩
            · exact List.mem_cons_of_mem _ (mem_clobber.mpr
                ⟨inv.safe _ ((mem_neededN _).mpr (Or.inl ⟨i, xi, hi, hal, t, ht, rfl⟩)), by intro v hv; cases hv⟩)
            · have : w = wal := by simpa using hw
              subst this
              exact List.mem_cons_self ..
          · refine List.mem_cons_of_mem _ (mem_clobber.mpr
              ⟨inv.safe _ ((mem_neededN _).mpr (Or.inr ⟨h, hh, hr⟩)), ?_⟩)
            rcases hr with ⟨t, ht, rfl⟩ | ⟨w, hw, rfl⟩
            · intro v hv; cases hv
            · intro v hv
              injection hv with hv; subst hv
              obtain ⟨_, x, hx, c, hcm, _, _, hwals⟩ := inv.own h hh
              exact hnew _ x hx c hcm w (hwals ▸ hw)
      · -- own
        intro h hh
        rcases List.mem_cons.mp hh with rfl | hh
        · refine ⟨hfl, ckptInst xi id wal, by simp only [setInst]; exact get_set_self hi,
            ⟨id, xi.current, [wal], false⟩, by simp, rfl, rfl, rfl⟩
        · obtain ⟨h1, x, hx, c, hc, h2⟩ := inv.own h hh
          refine ⟨h1, ?_⟩
          by_cases hw : i = h.writer
          · subst hw
            rw [hi] at hx; injection hx with hx; subst hx
            exact ⟨ckptInst xi id wal, by simp only [setInst]; exact get_set_self hi, c,
              List.mem_append_left _ hc, h2⟩
          · exact ⟨x, by simp only [setInst]; rw [get_set_other hw]; exact hx, c, hc, h2⟩
    · simp at hstep

theorem step_invN_retain {s s' : State} {i : Nat} {ids : List Nat} (inv : InvN s) (hsc : retainOk s i ids = true)
    (hstep : step s (.retain i ids) = some s') : InvN s' := by
  simp only [step] at hstep
  split at hstep
  · simp at hstep
  · rename_i xi hi
    split at hstep
    · injection hstep with hstep; subst hstep
      have ok := inv.inst _ xi hi
      have hok : ∀ c ∈ droppedOf xi.ckpts ids, c.id ≤ s.floor := by
        simp only [retainOk, hi, List.all_eq_true, decide_eq_true_eq] at hsc
        exact hsc
      have hkeep : ∀ c ∈ xi.ckpts, s.floor < c.id → c ∈ keptOf xi.ckpts ids := by
        intro c hcm hlt
        by_cases hin : keeps ids c = true
        · exact mem_keptOf.mpr ⟨hcm, hin⟩
        · have := hok c (mem_droppedOf.mpr ⟨hcm, by simpa using hin⟩)
          omega
      refine invN_replace (y := { xi with ckpts := keptOf xi.ckpts ids }) inv hi (by simp [setInst]) rfl rfl rfl rfl
        rfl rfl (fun u hu => hu)
        (fun c hc c' hc' => ok.wuniq c (mem_keptOf.mp hc).1 c' (mem_keptOf.mp hc').1)
        (fun c hc => ok.wnum c (mem_keptOf.mp hc).1)
        (fun c hc => ok.rck c (mem_keptOf.mp hc).1) ?_ ?_
      · intro f hf
        show f ∈ rmWals s.files (walsOf (droppedOf xi.ckpts ids))
        rw [mem_rmWals]
        rcases (mem_neededN f).mp hf with ⟨j, x', hj, hl, t, ht, rfl⟩ | ⟨h, hh, hr⟩
        · have hj : (s.insts.set i { xi with ckpts := keptOf xi.ckpts ids })[j]? = some x' := by
            simpa [setInst] using hj
          refine ⟨?_, by intro w _ v hne; cases hne⟩
          rcases get_set_inv hi hj with ⟨rfl, rfl⟩ | ⟨_, hj'⟩
          · exact inv.safe _ ((mem_neededN _).mpr (Or.inl ⟨_, xi, hi, hl, t, ht, rfl⟩))
          · exact inv.safe _ ((mem_neededN _).mpr (Or.inl ⟨j, x', hj', hl, t, ht, rfl⟩))
        · refine ⟨inv.safe _ ((mem_neededN _).mpr (Or.inr ⟨h, hh, hr⟩)), ?_⟩
          rcases hr with ⟨t, ht, rfl⟩ | ⟨w, hw, rfl⟩
          · intro w _ v hne; cases hne
          · intro w' hw' v hne
            injection hne with hne
            subst hne
            obtain ⟨c', hc', hwc'⟩ := mem_walsOf.mp hw'
            have hd := mem_droppedOf.mp hc'
            cases hsm : w'.same w with
            | false => rfl
            | true =>
              obtain ⟨hfl, x, hx, c, hcm, hcid, _, hwals⟩ := inv.own h hh
              have h1 := ok.wnum c' hd.1 w' hwc'
              have h2 := (inv.inst _ x hx).wnum c hcm w (hwals ▸ hw)
              have hdir := (same_num hsm).1
              have hwi : h.writer = i := by omega
              subst hwi
              rw [hi] at hx; injection hx with hx; subst hx
              have := ok.wuniq c' hd.1 c hcm w' hwc' w (hwals ▸ hw) hsm
              have := hok c' hc'
              omega
      · intro h hh
        obtain ⟨h1, x, hx, c, hc, hcid, h2⟩ := inv.own h hh
        refine ⟨h1, ?_⟩
        by_cases hw : i = h.writer
        · subst hw
          rw [hi] at hx; injection hx with hx; subst hx
          exact ⟨{ xi with ckpts := keptOf xi.ckpts ids }, by simp only [setInst]; exact get_set_self hi, c,
            hkeep c hc (hcid ▸ h1), hcid, h2⟩
        · exact ⟨x, by simp only [setInst]; rw [get_set_other hw]; exact hx, c, hc, hcid, h2⟩
    · simp at hstep


theorem step_invN_collect {s s' : State} {i : Nat} {u : Path} {answers : List Ans} (inv : InvN s)
    (hstep : step s (.collect i u answers) = some s') : InvN s' := by
  simp only [step] at hstep
  split at hstep
  · simp at hstep
  · rename_i xi hi
    have ok := inv.inst _ xi hi
    split at hstep
    · rename_i hun
      have hnr : xi.refs u = false := by
        unfold Inst.unreachable at hun
        cases hx : xi.life with
        | alive => simpa [hx] using hun
        | crashed => simpa [hx] using hun
        | released => exact absurd hx ok.norel
      split at hstep
      · rename_i hcr
        have hcr' : u ∈ xi.created := by simpa using hcr
        have humade : u ∈ xi.made := ok.rcr u hcr'
        injection hstep with hstep; subst hstep
        -- nobody needs `u`: whoever references a table wrote it, and the writer `i` no longer references it
        have hnone : File.sst u ∉ needed s := by
          intro hn
          rcases (mem_neededN _).mp hn with ⟨j, x, hj, _, t, ht, he⟩ | ⟨h, hh, (⟨t, ht, he⟩ | ⟨w, _, he⟩)⟩
          · injection he with he; subst he
            have := same_writer inv hi hj humade ((inv.inst j x hj).rcur t ht)
            subst this
            rw [hi] at hj; injection hj with hj; subst hj
            rw [refs_of_current ht] at hnr; cases hnr
          · injection he with he; subst he
            obtain ⟨x, hx, hm, c, hc, htc⟩ := made_of_handle inv hh ht
            have := same_writer inv hi hx humade hm
            subst this
            rw [hi] at hx; injection hx with hx; subst hx
            rw [refs_of_ckpt hc htc] at hnr; cases hnr
          · cases he
        refine invN_replace (y := { xi with created := xi.created.erase u }) inv hi (by simp [setInst]) rfl rfl rfl
          rfl rfl rfl (fun v hv => List.mem_of_mem_erase hv) ok.wuniq ok.wnum ok.rck ?_ ?_
        · intro f hf
          have hf' : f ∈ needed s := by
            rcases (mem_neededN f).mp hf with ⟨j, x', hj, hl, t, ht, rfl⟩ | ⟨h, hh, hr⟩
            · have hj : (s.insts.set i { xi with created := xi.created.erase u })[j]? = some x' := by
                simpa [setInst] using hj
              rcases get_set_inv hi hj with ⟨rfl, rfl⟩ | ⟨_, hj'⟩
              · exact (mem_neededN _).mpr (Or.inl ⟨_, xi, hi, hl, t, ht, rfl⟩)
              · exact (mem_neededN _).mpr (Or.inl ⟨j, x', hj', hl, t, ht, rfl⟩)
            · exact (mem_neededN _).mpr (Or.inr ⟨h, hh, hr⟩)
          show f ∈ (if (Facts.c09CreatedDeletes == 1) = true then rmFile s.files (.sst u) else s.files)
          split
          · exact mem_rmFile.mpr ⟨inv.safe f hf', fun he => hnone (he ▸ hf')⟩
          · exact inv.safe f hf'
        · intro h hh
          obtain ⟨h1, x, hx, c, hc, h2⟩ := inv.own h hh
          refine ⟨h1, ?_⟩
          by_cases hw : i = h.writer
          · subst hw
            rw [hi] at hx; injection hx with hx; subst hx
            exact ⟨{ xi with created := xi.created.erase u }, by simp only [setInst]; exact get_set_self hi, c, hc, h2⟩
          · exact ⟨x, by simp only [setInst]; rw [get_set_other hw]; exact hx, c, hc, h2⟩
      · -- no instance of this family has loaded table objects
        split at hstep
        · simp at hstep
        · rename_i t hfind
          have := List.mem_of_find?_eq_some hfind
          rw [ok.noload] at this; cases this
    · simp at hstep

theorem step_invN {s s' : State} {a : Act} (inv : InvN s) (hsc : inScopeN s a = true)
    (hstep : step s a = some s') : InvN s' := by
  cases a with
  | openFresh r g n dir =>
    simp only [inScopeN, beq_iff_eq] at hsc
    exact step_invN_openFresh inv hsc hstep
  | openFrom r g n ws id dir => simp [inScopeN] at hsc
  | release i => simp [inScopeN] at hsc
  | lateWrite i t => simp [inScopeN] at hsc
  | flush i t => exact step_invN_simple inv trivial hstep
  | compact i rm add => exact step_invN_simple inv trivial hstep
  | snap i => exact step_invN_simple inv trivial hstep
  | unsnap i k => exact step_invN_simple inv trivial hstep
  | crash i => exact step_invN_simple inv trivial hstep
  | redeployFailed i => exact step_invN_simple inv trivial hstep
  | jobDrop k => exact step_invN_jobDrop inv hstep
  | jobAbandon id => exact step_invN_jobAbandon inv hstep
  | ckpt i id wal => exact step_invN_ckpt inv hstep
  | retain i ids => exact step_invN_retain inv (by simpa [inScopeN] using hsc) hstep
  | collect i u answers => exact step_invN_collect inv hstep

theorem runN_invN {as : List Act} : ∀ {s s' : State}, InvN s → runN s as = some s' → InvN s' := by
  induction as with
  | nil => intro s s' inv h; simp only [runN] at h; injection h with h; subst h; exact inv
  | cons a as ih =>
    intro s s' inv h
    simp only [runN] at h
    split at h
    · rename_i hsc
      split at h
      · rename_i s1 hstep
        exact ih (step_invN inv hsc hstep) h
      · simp at h
    · simp at h

end Rxn.Files
