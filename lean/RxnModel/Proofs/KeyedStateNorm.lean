import RxnModel.Proofs.KeyedState
/-! Localising the namespace precondition of C03: a mutation with an over-long namespace writes exactly the composite key
of its normalised form (`normW`), so the store is, unconditionally, the per-key map of the normalised mutations; and the
state of a key whose own mutations use namespaces ≤ 255 bytes is unaffected by what other keys do. Core-only. -/
namespace Rxn.KeyedState
open Rxn Bytes

theorem dbKey_norm (kgc : Nat) (s ns d : Bytes) :
    Keys.dbKey kgc s ns d = Keys.dbKey kgc s (ns.take (ns.length % 256)) (ns.drop (ns.length % 256) ++ d) := by
  have hle : ns.length % 256 ≤ ns.length := Nat.mod_le _ _
  have hl : (ns.take (ns.length % 256)).length % 256 = ns.length % 256 := by
    rw [List.length_take, Nat.min_eq_left hle, Nat.mod_mod]
  simp only [Keys.dbKey, hl, List.append_assoc]
  congr 2
  rw [← List.append_assoc, List.take_append_drop]

theorem encW_normW (kgc : Nat) (w : LWrite) : encW kgc (normW w) = encW kgc w := by
  simp only [encW, normW]
  rw [← dbKey_norm]

theorem normW_wf (w : LWrite) (h : w.1.length < 4294967296) : LWrite.WF (normW w) := by
  refine ⟨h, ?_⟩
  simp only [normW, List.length_take]
  have : w.2.1.length % 256 < 256 := Nat.mod_lt _ (by decide)
  omega

theorem normW_id (w : LWrite) (h : w.2.1.length ≤ 255) : normW w = w := by
  obtain ⟨s, ns, ek, v⟩ := w
  simp only at h
  have hr : ns.length % 256 = ns.length := Nat.mod_eq_of_lt (by omega)
  simp [normW, hr]

def Mut.prefixKey (p : Bytes) : Mut → Mut
  | .put k v => .put (p ++ k) v
  | .del k => .del (p ++ k)

def normNs (nm : NsMuts) : NsMuts :=
  (nm.1.take (nm.1.length % 256), nm.2.map (Mut.prefixKey (nm.1.drop (nm.1.length % 256))))

/-- the action with every namespace normalised: same writes to the database -/
def Act.norm : Act → Act
  | .apply s nss => .apply s (nss.map normNs)
  | a => a

theorem nsWrites_normNs (subj : Bytes) (nm : NsMuts) : nsWrites subj (normNs nm) = (nsWrites subj nm).map normW := by
  simp only [nsWrites, normNs, List.map_map]
  apply List.map_congr_left
  intro m _
  cases m <;> rfl

theorem lwrites_norm (a : Act) : (Act.norm a).lwrites = a.lwrites.map normW := by
  cases a with
  | apply s nss =>
    simp only [Act.norm, Act.lwrites]
    induction nss with
    | nil => rfl
    | cons nm rest ih => simp only [List.map_cons, List.flatMap_cons, List.map_append, nsWrites_normNs, ih]
  | timerPut s t => rfl
  | timerDel s t => rfl

theorem rawWrites_norm (kgc : Nat) (a : Act) : (Act.norm a).rawWrites kgc = a.rawWrites kgc := by
  cases a with
  | apply s nss =>
    have := lwrites_norm (.apply s nss)
    simp only [Act.norm] at this
    simp only [Act.norm, Act.rawWrites, this, List.map_map]
    apply List.map_congr_left
    intro w _
    exact encW_normW kgc w
  | timerPut s t => rfl
  | timerDel s t => rfl

theorem norm_wf (a : Act) (h : a.KeysOK) : (Act.norm a).WF := by
  intro w hw
  rw [lwrites_norm] at hw
  obtain ⟨w0, hw0, e⟩ := List.mem_map.mp hw
  rw [← e]
  exact normW_wf w0 (h w0 hw0)

theorem run_norm (kgc : Nat) (acts : List Act) (kv : KV) : run kgc kv (acts.map Act.norm) = run kgc kv acts := by
  rw [run_eq, run_eq]
  congr 1
  induction acts with
  | nil => rfl
  | cons a rest ih => simp only [List.map_cons, List.flatMap_cons, rawWrites_norm, ih]

theorem lwrites_map_norm (acts : List Act) :
    (acts.map Act.norm).flatMap Act.lwrites = (acts.flatMap Act.lwrites).map normW := by
  induction acts with
  | nil => rfl
  | cons a rest ih => simp only [List.map_cons, List.flatMap_cons, List.map_append, lwrites_norm, ih]

/-- unconditional in the namespaces: `GetState` is the per-key map of the normalised mutations -/
theorem getState_matches_norm (kgc : Nat) (acts : List Act) (hk : ∀ a ∈ acts, a.KeysOK) (k : Bytes)
    (hkl : k.length < 4294967296) :
    Matches (getState kgc (run kgc [] acts) k) (specLookup ((acts.flatMap Act.lwrites).map normW) k) := by
  have hwf : ∀ a ∈ acts.map Act.norm, a.WF := by
    intro a ha
    obtain ⟨a0, ha0, e⟩ := List.mem_map.mp ha
    rw [← e]; exact norm_wf a0 (hk a0 ha0)
  have := getState_matches kgc (acts.map Act.norm) hwf k hkl
  rwa [run_norm, lwrites_map_norm] at this

/-- mutations of other keys and well-formed mutations of `k` are untouched by the normalisation -/
theorem specLookup_local (k : Bytes) (ws : List LWrite) (h : NsOKFor k ws) :
    specLookup (ws.map normW) k = specLookup ws k := by
  funext ns ek
  simp only [specLookup]
  generalize (none : Option Bytes) = init
  induction ws generalizing init with
  | nil => rfl
  | cons w rest ih =>
    have hrest : NsOKFor k rest := fun w' hw' => h w' (List.mem_cons_of_mem _ hw')
    simp only [List.map_cons, List.foldl_cons]
    by_cases hw : w.1 = k
    · rw [normW_id w (h w List.mem_cons_self hw)]
      exact ih hrest _
    · have hn : (normW w).1 = w.1 := rfl
      simp only [hn, hw, false_and, if_false]
      exact ih hrest _

/-- the localised form: only the mutations returned for `k` itself must use namespaces ≤ 255 bytes -/
theorem getState_matches_local (kgc : Nat) (acts : List Act) (hk : ∀ a ∈ acts, a.KeysOK) (k : Bytes)
    (hkl : k.length < 4294967296) (hns : NsOKFor k (acts.flatMap Act.lwrites)) :
    Matches (getState kgc (run kgc [] acts) k) (specLookup (acts.flatMap Act.lwrites) k) := by
  have := getState_matches_norm kgc acts hk k hkl
  rwa [specLookup_local k _ hns] at this

/-! the batch rule with the localised precondition -/

theorem apply_lwrites_subj (s : Bytes) (nss : List NsMuts) : ∀ w ∈ (Act.apply s nss).lwrites, w.1 = s := by
  intro w hw
  simp only [Act.lwrites, List.mem_flatMap, nsWrites, List.mem_map] at hw
  obtain ⟨nm, _, m, _, e⟩ := hw
  rw [← e]

theorem batch_acts_keysOK (b : Batch) (h : b.KeysOK) : ∀ a ∈ b.acts, a.KeysOK := by
  intro a ha
  simp only [Batch.acts, List.mem_append, Batch.firedActs, Batch.respActs, List.mem_map, List.mem_flatMap] at ha
  rcases ha with ⟨f, _, e⟩ | ⟨kr, hkr, hakr⟩
  · subst e; intro w hw; simp [Act.lwrites] at hw
  · simp only [KeyResult.acts, List.mem_append, List.mem_map, List.mem_singleton] at hakr
    rcases hakr with ⟨t, _, e⟩ | e
    · subst e; intro w hw; simp [Act.lwrites] at hw
    · subst e
      intro w hw
      rw [apply_lwrites_subj kr.key kr.muts w hw]
      exact h.2 kr hkr

theorem batches_acts_keysOK (bs : List Batch) (h : ∀ b ∈ bs, b.KeysOK) (b : Batch) (hb : b.KeysOK) :
    ∀ a ∈ bs.flatMap Batch.acts ++ b.firedActs, a.KeysOK := by
  intro a ha
  rcases List.mem_append.mp ha with ha | ha
  · obtain ⟨b', hb', hab⟩ := List.mem_flatMap.mp ha
    exact batch_acts_keysOK b' (h b' hb') a hab
  · exact batch_acts_keysOK b hb a (by simp only [Batch.acts, List.mem_append]; exact Or.inl ha)

theorem histBefore_keysOK (bs : List Batch) (h : ∀ b ∈ bs, b.KeysOK) (i : Nat) : ∀ a ∈ histBefore bs i, a.KeysOK := by
  intro a ha
  simp only [histBefore, List.mem_append, List.mem_flatMap] at ha
  rcases ha with ⟨b, hb, hab⟩ | ha
  · exact batch_acts_keysOK b (h b (List.mem_of_mem_take hb)) a hab
  · simp only [Batch.firedActs, List.mem_map] at ha
    obtain ⟨f, _, e⟩ := ha
    subst e; intro w hw; simp [Act.lwrites] at hw

end Rxn.KeyedState
