import RxnModel.Proofs.CkptSpec
/-!
Helper lemmas for C08: the handles a user holds versus the checkpoints the running instance still lists.
A handle that is not `lost` (older than a checkpoint the database was reopened from — defect D50) is always listed
by the running instance and completed there, hence restorable.
-/
namespace Rxn.Ckpt
open Rxn Rxn.Lsm

theorem rd_iff (s : State) (id : Nat) :
    retainedDone s id = true ↔ id ∈ s.done ∧ ∃ c ∈ s.ckpts, c.id = id := by
  simp [retainedDone]

/-- every handle the user holds and that is not `lost` is listed and completed in the running instance -/
def UInv (s : State) (sp : SpecSt) : Prop := ∀ id ∈ sp.handles, id ∉ sp.unlisted → retainedDone s id = true

theorem uinv_same {s s' : State} {sp : SpecSt} (h : UInv s sp) (hd : s'.done = s.done) (hc : s'.ckpts = s.ckpts) :
    UInv s' sp := by
  intro id hid hl
  have := (rd_iff s id).mp (h id hid hl)
  exact (rd_iff s' id).mpr (by rw [hd, hc]; exact this)

theorem uinv_step (s s' : State) (sp : SpecSt) (a : Act) (h : UInv s sp) (hg : guardOk s a = true)
    (hs : step s a = some s') : UInv s' (stepSpec s sp a) := by
  cases a with
  | write del k v rot =>
    simp only [step] at hs
    split at hs
    · cases hs
    · have fr := writeStep_frame hs
      exact uinv_same h fr.done fr.ckpts
  | flushBegin n =>
    simp only [step] at hs
    split at hs
    · cases hs
    · split at hs
      · cases hs
      · simp only [Option.some.injEq] at hs; subst hs; exact uinv_same h rfl rfl
  | flushCommit =>
    simp only [step] at hs
    split at hs
    · cases hs
    · split at hs
      · simp only [Option.some.injEq] at hs; subst hs; exact uinv_same h rfl rfl
      · cases hs
  | compact rm lvl add =>
    simp only [step] at hs
    split at hs
    · cases hs
    · split at hs
      · cases hs
      · simp only [Option.some.injEq] at hs; subst hs; exact uinv_same h rfl rfl
  | saveWal id =>
    simp only [step] at hs
    split at hs
    · cases hs
    · split at hs
      · cases hs
      · simp only [Option.some.injEq] at hs; subst hs; exact uinv_same h rfl rfl
  | replayOne rot =>
    simp only [step] at hs
    split at hs
    · cases hs
    · split at hs
      · cases hs
      · split at hs
        · cases hs
        · rename_i s1 h1
          simp only [Option.some.injEq] at hs
          subst hs
          have fr := writeStep_frame h1
          exact uinv_same h fr.done fr.ckpts
  | openBegin id' =>
    intro id hid hl
    simp only [stepSpec, List.mem_filter, List.mem_append, bne_iff_ne, ne_eq] at hid hl
    have heq : id = id' := by
      apply Classical.byContradiction
      intro hne
      exact hl (Or.inr ⟨hid, hne⟩)
    subst heq
    simp only [step] at hs
    split at hs
    · cases hs
    · rename_i c hc
      obtain ⟨hcid, _, _, _⟩ := loadCkpt_some hc
      split at hs
      · cases hs
      · simp only [Option.some.injEq] at hs
        subst hs
        apply (rd_iff _ id).mpr
        exact ⟨by simp [restoreBase, hcid], c, by simp [restoreBase], hcid⟩
  | saveList =>
    simp only [step] at hs
    split at hs
    · cases hs
    · simp only [Option.some.injEq] at hs; subst hs; exact uinv_same h rfl rfl
  | destroy =>
    simp only [step] at hs
    split at hs
    · cases hs
    · obtain ⟨_, _, _, d, e, _⟩ := destroyOne_same hs
      exact uinv_same h e d
  | orphan id run =>
    simp only [step] at hs
    split at hs
    · cases hs
    · split at hs
      · cases hs
      · simp only [Option.some.injEq] at hs; subst hs; exact uinv_same h rfl rfl
  | crash =>
    simp only [step] at hs
    split at hs
    · cases hs
    · simp only [Option.some.injEq] at hs; subst hs; exact uinv_same h rfl rfl
  | checkpoint id' =>
    simp only [step] at hs
    split at hs
    · cases hs
    · split at hs
      · cases hs
      · simp only [Option.some.injEq] at hs
        subst hs
        intro id hid hl
        simp only [stepSpec, List.mem_filter, bne_iff_ne, ne_eq] at hid hl
        have hl' : id ∉ sp.unlisted := fun hm => hl ⟨hm, hid.2⟩
        obtain ⟨hd, c, hc, hcid⟩ := (rd_iff s id).mp (h id hid.1 hl')
        exact (rd_iff _ id).mpr ⟨hd, c, List.mem_append_left _ hc, hcid⟩
  | saveDoc id' =>
    simp only [step] at hs
    split at hs
    · cases hs
    · split at hs
      · cases hs
      · simp only [Option.some.injEq] at hs
        subst hs
        intro id hid hl
        simp only [stepSpec] at hid hl
        apply (rd_iff _ id).mpr
        simp only [writeDoc]
        by_cases hany : s.ckpts.any (fun c => c.id == id') = true
        · rw [if_pos hany] at hid
          simp only [List.mem_cons] at hid
          rcases hid with rfl | hid
          · simp only [List.any_eq_true, beq_iff_eq] at hany
            exact ⟨by simp, hany⟩
          · obtain ⟨hd, hc⟩ := (rd_iff s id).mp (h id hid hl)
            exact ⟨by simp [hd], hc⟩
        · rw [if_neg hany] at hid
          obtain ⟨hd, hc⟩ := (rd_iff s id).mp (h id hid hl)
          exact ⟨by simp [hd], hc⟩
  | retain ids =>
    simp only [step] at hs
    split at hs
    · cases hs
    · split at hs
      · cases hs
      · simp only [Option.some.injEq] at hs
        subst hs
        intro id hid hl
        simp only [stepSpec, List.mem_filter] at hid hl
        have hl' : id ∉ sp.unlisted := fun hm => hl ⟨hm, hid.2⟩
        obtain ⟨hd, c, hc, hcid⟩ := (rd_iff s id).mp (h id hid.1 hl')
        apply (rd_iff _ id).mpr
        exact ⟨hd, c, List.mem_filter.mpr ⟨hc, by rw [hcid]; exact hid.2⟩, hcid⟩
  | «open» id' rots =>
    intro id hid hl
    simp only [stepSpec, List.mem_filter, List.mem_append, bne_iff_ne, ne_eq] at hid hl
    have heq : id = id' := by
      apply Classical.byContradiction
      intro hne
      exact hl (Or.inr ⟨hid, hne⟩)
    subst heq
    simp only [step] at hs
    split at hs
    · cases hs
    · rename_i c hc
      obtain ⟨hcid, _, _, _⟩ := loadCkpt_some hc
      simp only [restore] at hs
      split at hs
      · cases hs
      · have fr := replay_frame _ _ _ _ hs
        apply (rd_iff _ id).mpr
        rw [fr.done, fr.ckpts]
        exact ⟨by simp [restoreBase, hcid], c, by simp [restoreBase], hcid⟩

theorem uinv_run : ∀ (as : List Act) (s s' : State) (sp sp' : SpecSt), UInv s sp →
    runSpec s sp as = some (s', sp') → UInv s' sp' := by
  intro as
  induction as with
  | nil => intro s s' sp sp' h hr; simp only [runSpec, Option.some.injEq, Prod.mk.injEq] at hr; obtain ⟨rfl, rfl⟩ := hr; exact h
  | cons a as ih =>
    intro s s' sp sp' h hr
    simp only [runSpec] at hr
    by_cases hg : guardOk s a = true
    · rw [if_pos hg] at hr
      cases hst : step s a with
      | none => rw [hst] at hr; cases hr
      | some s1 =>
        rw [hst] at hr
        exact ih s1 s' _ sp' (uinv_step s s1 sp a h hg hst) hr
    · rw [if_neg hg] at hr; cases hr

/-- a checkpoint listed and completed in the running instance opens, and the restored instance answers as the map
recorded for its id -/
theorem open_of_retained (s : State) (sp : SpecSt) (h : SInv s sp) (id : Nat) (rots : List Nat)
    (hr : retainedDone s id = true) :
    ∃ r, step s (.open id rots) = some r ∧
      ∀ k, answer (Lsm.get r.db k) = answer (Spec.get (specAt sp.saved id) k) := by
  obtain ⟨hd, c, hc, hcid⟩ := (rd_iff s id).mp hr
  have hload := load_of_done s h.finv c hc (by rw [hcid]; exact hd)
  rw [hcid] at hload
  obtain ⟨sc, mc, hisc, hcap, _, _⟩ := h.cks c hc
  -- existence: the record is a captured one, its WAL reads back
  obtain ⟨f, hcn, hf1, hf2⟩ := hisc.cons
  have hread : walRead c.recs c.after ≠ none := by
    rw [hcap]; simp only [capture]
    cases hE : sc.wal.entries with
    | nil => simp [walRead]
    | cons x xs =>
      rw [hE] at hcn hf2
      have hx : x.seq = f := hcn.1
      have hle := hisc.le
      simp only [List.length_cons] at hf2
      have hn : ¬ (sc.latest + 1 < x.seq) := by omega
      have hl : sc.latest + 1 - x.seq ≤ (x :: xs).length := by simp only [List.length_cons]; omega
      simp only [List.length_cons] at hl
      simp [walRead, hn]
      omega
  cases hw : walRead c.recs c.after with
  | none => exact absurd hw hread
  | some recs =>
    obtain ⟨r, hrr⟩ := replay_enabled recs rots (restoreBase s.files c) (restoreBase_inv _ _)
    have hstep : step s (.open id rots) = some r := by simp only [step, hload, restore, hw]; exact hrr
    have hS := sinv_step s r sp (.open id rots) h (by simpa [guardOk] using hr) hstep
    obtain ⟨mL, hL, _, hA⟩ := hS.lsm
    have hrep : r.replaying = [] := by rw [replay_replaying _ _ _ _ hrr]; rfl
    rw [hrep] at hA
    exact ⟨r, hstep, fun k => by rw [get_eq_spec hL k]; exact hA k⟩

end Rxn.Ckpt
