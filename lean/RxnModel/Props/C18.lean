import RxnModel.Proofs.CompactionLsm
import RxnModel.Proofs.CompactionWriteRun
import RxnModel.Generated.Facts
/-!
# C18 — compaction never changes what the database contains

Model: `Model/Compaction.lean` on top of `Model/Lsm.lean`.

* A level list is `LayoutValid` when every table is a sorted run, every deeper level is stored in key order
  without overlap, and of two tables holding a key the one a lookup visits first holds the newer version.
* `SafeCS L rm lvl add` is the safe family of change sets; `Lsm.safeCS` is the executable test the DKV transition
  system (`Lsm.step (.compact ..)`, C07) uses as the enabling condition of a compaction commit.
* `compact` is `Compactor.Compact` with every size comparison answered by a free `Oracle`.

The views: `levelsGet` = `LevelList.Get`, `scanView` = `LevelList.ScanPrefixWithTombstones` (delete markers kept, so
equality of scans also says that no deleted or overwritten value comes back).
-/
namespace Rxn.C18
open Rxn Rxn.Lsm Rxn.Compaction

/-- **A safe change set changes nothing a reader can see and keeps the layout valid**: every point lookup returns the
same entry (value or delete marker, same sequence number), every prefix scan returns the same run, and the new
level list is again sorted, non-overlapping below level 0 and newer-above for every key. `n` is the id handed to
the first new table. -/
theorem safe_preserves_view (L : Levels) (rm : List Nat) (lvl : Nat) (add : List Run) (n : Nat)
    (hv : LayoutValid L) (hs : SafeCS L rm lvl add) :
    (∀ k, levelsGet (applyCS L n ⟨rm, lvl, add⟩) k = levelsGet L k) ∧
    (∀ p, scanView (applyCS L n ⟨rm, lvl, add⟩) p = scanView L p) ∧
    LayoutValid (applyCS L n ⟨rm, lvl, add⟩) :=
  safe_preserves n hv hs

/-- **The executable test used by the DKV transition system lies in the safe family**: a change set that passes
`Lsm.safeCS` either removes and adds nothing or is a member of `SafeCS`. -/
theorem safeCS_in_family (L : Levels) (rm : List Nat) (lvl : Nat) (add : List Run)
    (hv : LayoutValid L) (h : safeCS L rm lvl add = true) :
    ((∀ t ∈ L.flatten, rmP rm t = false) ∧ add = []) ∨ SafeCS L rm lvl add :=
  safeCS_sound (weakValid_of_layoutValid hv) h

/-- **The compaction step of the DKV refinement (C07)**: every compaction commit enabled in `Lsm.step` keeps the
refinement invariant `Lsm.Inv` (reads from memtables and tables return the last write, for `Get` and through
`LsmScan.scan_spec` for `ScanPrefix`). This discharges the hypothesis `CompactionSound` of the C07 theorems. -/
theorem compaction_sound : CompactionSound := compactionSound

/-- **Every change set the compactor produces is safe.** For every compactor cursor, every answer to every size
comparison (`Oracle`: level-0 trigger, size amplification above the limit, goal met after each candidate, level
over its size limit) and every way `WriteRun` cuts the merged run: a change set returned by `compact` on a valid
layout with pairwise distinct table ids and at least two levels, whose level-0 tables **that share a key** are
age-ordered in insertion order, is a member of the safe family. The age hypothesis holds for level lists built by
flushes (`flush_built_level0`) and for level lists loaded from several checkpoints (`composite_level0`). -/
theorem compact_is_safe (c : Compactor) (L : Levels) (o : Oracle) (cs : ChangeSet) (c' : Compactor)
    (hv : LayoutValid L) (hid : (L.flatten.map (·.id)).Nodup) (hage : L0KeyAgeOrdered L) (hlen : 2 ≤ L.length)
    (h : compact c L o = (some cs, c')) : SafeCS L cs.rm cs.lvl cs.add :=
  compact_safe (weakValid_of_layoutValid hv) hid hage hlen h

/-- **Whatever order the unstable sort gives to tables of equal age**: `slices.SortedFunc(level.AllTables(),
OrderOldToNew)` is stable only up to 12 tables; ages can tie across checkpoint sources. For every arrangement `order`
of the levels that is a permutation with non-decreasing ages (`OrderOK`), the change set `Compact` produces with that
arrangement is in the safe family. (`compact` is `compactWith sortByAge`, the stable arrangement.) -/
theorem compact_is_safe_any_tie_order (order : List Tbl → List Tbl) (ho : OrderOK order)
    (c : Compactor) (L : Levels) (o : Oracle) (cs : ChangeSet) (c' : Compactor)
    (hv : LayoutValid L) (hid : (L.flatten.map (·.id)).Nodup) (hage : L0KeyAgeOrdered L) (hlen : 2 ≤ L.length)
    (h : compactWith order c L o = (some cs, c')) : SafeCS L cs.rm cs.lvl cs.add :=
  safe_of_structOK (weakValid_of_layoutValid hv)
    (compactWith_struct order ho (weakValid_of_layoutValid hv) hid hage hlen h)

/-- level 0 built by flushes: ages increase in insertion order (kept by every flush, `compaction_with_flushes_invariant`) -/
theorem flush_built_level0 (L : Levels) (h : L0AgeOrdered L) : L0KeyAgeOrdered L := keyAge_of_age h

/-- **level 0 of a composite checkpoint** (`recovery.LoadCheckpointList` appends the handles' level-0 lists in handle
order, C06 `merged_level0_keeps_age_order`): when every source's own list is age-ordered and tables of different
sources share no key (sources own disjoint key groups), the appended level 0 meets the hypothesis of
`compact_is_safe` — whatever the handle order and however the sequence numbers of different sources compare.
So a table the age-ordered partial pick of `majorCompaction` takes is never newer, in its source's own order, than a
table it leaves behind that shares a key with it. -/
theorem composite_level0 (srcs : List (List Tbl)) (deeper : List (List Tbl))
    (hsrc : ∀ s ∈ srcs, s.Pairwise (fun a b => age a < age b))
    (hdis : srcs.Pairwise (fun s1 s2 => ∀ a ∈ s1, ∀ b ∈ s2, DisjointKeys a.run b.run)) :
    L0KeyAgeOrdered (srcs.flatten :: deeper) := keyAge_of_sources srcs deeper hsrc hdis

/-- **With the real `WriteRun`** (C17's `Sst.writeRun`, byte-exact against `TableWriter.WriteRun`) cutting the merged
run at any positive target size instead of an assumed chunking: the change set is in the safe family, so every
`Get` and scan are unchanged and the layout stays valid; and the new level, seen through C17's hand-off lemmas, is
made of sorted runs with pairwise exclusive key ranges. -/
theorem compact_with_real_writeRun (c : Compactor) (L : Levels) (o : Oracle) (cs : ChangeSet) (c' : Compactor)
    (target n : Nat) (ht : 0 < target)
    (hv : LayoutValid L) (hid : (L.flatten.map (·.id)).Nodup) (hage : L0KeyAgeOrdered L) (hlen : 2 ≤ L.length)
    (h : compact c L o = (some cs, c')) :
    SafeCS L cs.rm cs.lvl (writeRunL target cs.add.flatten) ∧
    (∀ k, levelsGet (applyCS L n ⟨cs.rm, cs.lvl, writeRunL target cs.add.flatten⟩) k = levelsGet L k) ∧
    (∀ p, scanView (applyCS L n ⟨cs.rm, cs.lvl, writeRunL target cs.add.flatten⟩) p = scanView L p) ∧
    LayoutValid (applyCS L n ⟨cs.rm, cs.lvl, writeRunL target cs.add.flatten⟩) ∧
    (∀ t ∈ mkTables n (writeRunL target cs.add.flatten), Run.Sorted t.run) ∧
    RangeUnique (mkTables n (writeRunL target cs.add.flatten)) := by
  have hs := compact_is_safe c L o cs c' hv hid hage hlen h
  have hs' : SafeCS L cs.rm cs.lvl (writeRunL target cs.add.flatten) :=
    safeCS_rechunk hs (writeRunL_flatten _ _) (writeRunL_ok target ht _)
  have hp := safe_preserves n hv hs'
  have hsorted : SortedRun cs.add.flatten := by
    rw [hs.added]
    apply mergeAll_sorted
    intro r hr
    obtain ⟨t, ht', rfl⟩ := List.mem_map.mp hr
    exact hv.sorted t ((readOrder_mem _ t).mp (List.mem_filter.mp ht').1)
  have hl := writeRunL_level target ht hsorted n
  exact ⟨hs', hp.1, hp.2.1, hp.2.2, hl.1, hl.2⟩

/-- **A safe change set composes with flushes that arrive between its computation and its application**: with new
level-0 tables `ts` (their ids are not among the removed ids) the change set is still safe, and applying it after
the flush gives the same level list as applying the flush after it. -/
theorem safe_commutes_with_flush (L : Levels) (cs : ChangeSet) (n : Nat) (ts : List Tbl)
    (hs : SafeCS L cs.rm cs.lvl cs.add) (hfresh : ∀ t ∈ ts, rmP cs.rm t = false) :
    SafeCS (applyFlush L ts) cs.rm cs.lvl cs.add ∧
    applyCS (applyFlush L ts) n cs = applyFlush (applyCS L n cs) ts :=
  ⟨safe_after_flush hs hfresh, flush_commute L cs n ts hs.lvl_pos hfresh⟩

/-- **Compaction next to flushes, for every history**: starting from a state that satisfies the invariant (valid
layout, distinct ids below the id counter, level-0 ages increasing, at least two levels, a pending change set is
safe), after any sequence of `compactBegin` (with arbitrary oracle answers), `compactCommit` and well-formed
`flush` actions the invariant holds again; in particular the layout is valid and whatever change set is pending is
safe for the level list as it is now. -/
theorem compaction_with_flushes_invariant (s s' : Sys) (as : List Compaction.Act) (hi : SysInv s) (hr : Reach s as s') :
    SysInv s' := reach_inv hr hi

/-- **Repeated compaction to any point never changes the view**: along any history of `compactBegin`/`compactCommit`
steps with arbitrary oracle answers every `Get` and every scan stay what they were and the layout stays valid. -/
theorem compact_fixpoint (s s' : Sys) (as : List Compaction.Act) (hi : SysInv s) (hr : Reach s as s')
    (hnf : ∀ a ∈ as, a.isFlush = false) :
    (∀ k, levelsGet s'.L k = levelsGet s.L k) ∧ (∀ p, scanView s'.L p = scanView s.L p) ∧ LayoutValid s'.L :=
  ⟨(reach_view hr hi hnf).1, (reach_view hr hi hnf).2, (reach_inv hr hi).valid⟩

/-! ## The compactor inside the DKV transition system of C07 (`Lsm.step`, `Lsm.runBoth`)

`DB` = `Lsm.State` + compactor cursor + pending change set; `DB.step`: any foreground action of the DKV system
(`fg`), `compactBegin o` (the task calls `compact` on the current level list with arbitrary size answers `o`),
`compactCommit` (= `Lsm.step (.compact rm lvl add)`, guarded by the executable test `Lsm.safeCS`). Nothing about
flushes or level-0 ages is assumed: it is derived from `Lsm.step`. The only side condition is `OracleSane` for
`compactBegin` (level-0 trigger ≥ 1, thresholds ≥ 0: a pick is never empty). -/

/-- **Every pick passes the guard**: a change set the modelled `Compact` produces on a valid layout is accepted by
`Lsm.safeCS`, the enabling condition of the DKV system's compaction commit. Together with `compaction_sound` this
makes "every compaction the code can choose preserves the contents" a theorem about the C07 system. -/
theorem pick_is_safe (c : Compactor) (L : Levels) (o : Oracle) (cs : ChangeSet) (c' : Compactor)
    (hv : LayoutValid L) (hid : (L.flatten.map (·.id)).Nodup) (hage : L0KeyAgeOrdered L) (hlen : 2 ≤ L.length)
    (hs : OracleSane c L o) (h : compact c L o = (some cs, c')) : safeCS L cs.rm cs.lvl cs.add = true :=
  compact_passes (weakValid_of_layoutValid hv) hid hage hlen hs h

/-- … and for every arrangement of equal ages by the unstable sort (`OrderOK order`) -/
theorem pick_is_safe_any_tie_order (order : List Tbl → List Tbl) (ho : OrderOK order)
    (c : Compactor) (L : Levels) (o : Oracle) (cs : ChangeSet) (c' : Compactor)
    (hv : LayoutValid L) (hid : (L.flatten.map (·.id)).Nodup) (hage : L0KeyAgeOrdered L) (hlen : 2 ≤ L.length)
    (hs : OracleSane c L o) (h : compactWith order c L o = (some cs, c')) : safeCS L cs.rm cs.lvl cs.add = true :=
  compactWith_passes order ho (weakValid_of_layoutValid hv) hid hage hlen hs h

/-- **Reachable states of the DKV system with its compaction task**: after any history from the empty database
(puts, deletes, rotations, flush begins and commits, two-phase reads, `Compact` calls with sane answers, compaction
commits) the refinement invariant of C07 holds, table ids are distinct and below the counter, there are at least two
levels, sequence numbers separate level-0 tables and memtables in time (hence level-0 tables sharing a key are
age-ordered: the hypothesis of `compact_is_safe` is *derived*), and a pending change set has the structural shape
of a pick for the level list **as it is now**. -/
theorem db_reachable_invariant (as : List DAct) (d : DB) (m : Spec)
    (hok : ({} : DB).runOK as) (h : ({} : DB).run [] as = some (d, m)) :
    DInv d m ∧ L0KeyAgeOrdered d.s.levels ∧ LayoutValid d.s.levels :=
  have hi := db_run_inv as {} [] d m dinv_init hok h
  ⟨hi, keyAge_of_chron hi.chron, layoutValid_of_dinv hi⟩

/-- **… from any state with the invariant, not only the empty database**: the invariant `DInv` (C07's `Lsm.Inv` and
`ReadInv`, distinct table ids below the counter, at least two levels, `ChronSep`, deeper levels in key order, a
pending change set of the picker's shape) is kept along every history, and in every state it reaches the level list
is `LayoutValid` and level-0 tables sharing a key are age-ordered. -/
theorem db_invariant_from_any_state (d0 : DB) (m0 : Spec) (hi0 : DInv d0 m0) (as : List DAct) (d : DB) (m : Spec)
    (hok : d0.runOK as) (h : d0.run m0 as = some (d, m)) :
    DInv d m ∧ L0KeyAgeOrdered d.s.levels ∧ LayoutValid d.s.levels :=
  have hi := db_run_inv as d0 m0 d m hi0 hok h
  ⟨hi, keyAge_of_chron hi.chron, layoutValid_of_dinv hi⟩

/-- **What a restored instance must provide** (composition with C06): C06's `restored_instance_inv_partial` gives
`Lsm.Inv s m` and `ReadInv s m` for the state `openDB` builds from several checkpoints. With, in addition, table ids
pairwise distinct and below the counter (`LoadCheckpointList` creates one table object per document entry), at least
two levels, level-0 tables sharing a key age-ordered (`composite_level0`: per-source age order, disjoint keys), the
memtables separated in time and numbered above every level-0 entry (C06 `seq_above_loaded`: the instance continues
above the largest loaded sequence number and the WAL is replayed through `Put`/`Delete`), and the deeper levels in
key order (C06 `merged_levels_valid`), the restored state satisfies `DInv` with any compactor cursor — so
`db_invariant_from_any_state`, `real_compaction_commit_from` and `pick_is_safe` apply to it and the real picker's change
sets pass the guard there too (C06's `restored_history_refines_partial` need not assume it). -/
theorem restored_start_has_invariant (s : Lsm.State) (m : Spec) (c : Compactor)
    (hinv : Inv s m) (hr : ReadInv s m) (hids : IdsFresh s.levels s.nextId) (hlen : 2 ≤ s.levels.length)
    (hage : L0KeyAgeOrdered s.levels)
    (hmems : s.mems.Pairwise (fun older newer => ∀ e ∈ older, ∀ e' ∈ newer, e.seq < e'.seq))
    (habove : ∀ t ∈ s.levels.headD [], ∀ r ∈ s.mems, ∀ e ∈ t.run, ∀ e' ∈ r, e.seq < e'.seq)
    (hord : DeepOrdered s) : DInv { s := s, c := c, pending := none } m :=
  ⟨hinv, hr, hids, hlen, ⟨hage, hmems, habove⟩, hord, fun cs h => by cases h⟩

/-- **Live tables never share a number**: in every reachable state of the DKV system with its compaction task —
flush commits and compaction commits interleaved in any way, a flush committing between the computation and the
commit of a change set included — the ids of the tables in the level list are pairwise distinct and below the
counter the next table will get. (The code hands out the file number of a table atomically in
`TableWriter.Write`, shared by the flush and the compaction task; the correspondence drives a flush's write into
the compaction's write window and compares the live tables' files, op `chk`.) -/
theorem live_table_ids_distinct (as : List DAct) (d : DB) (m : Spec)
    (hok : ({} : DB).runOK as) (h : ({} : DB).run [] as = some (d, m)) :
    (d.s.levels.flatten.map (·.id)).Nodup ∧ ∀ t ∈ d.s.levels.flatten, t.id < d.s.nextId :=
  (db_run_inv as {} [] d m dinv_init hok h).ids

/-- **Every compaction the code can choose is admitted and changes no answer**: in every reachable state a pending
change set — computed by `Compact` at some earlier moment, with any flush commits and writes in between — passes
the guard, so the commit step exists, and after it every `Get` and every `ScanPrefix` answer what they answered
before (and what the map of all writes says). -/
theorem real_compaction_commit_from (d0 : DB) (m0 : Spec) (hi0 : DInv d0 m0) (as : List DAct) (d : DB) (m : Spec)
    (cs : ChangeSet) (hok : d0.runOK as) (h : d0.run m0 as = some (d, m)) (hp : d.pending = some cs) :
    safeCS d.s.levels cs.rm cs.lvl cs.add = true ∧
    ∃ d', d.step .compactCommit = some d' ∧
      (∀ k, get d'.s k = get d.s k) ∧ (∀ p, scan d'.s p = scan d.s p) ∧ (∀ k, get d'.s k = Spec.get m k) := by
  have hi := db_run_inv as d0 m0 d m hi0 hok h
  have hsafe := pending_commit_enabled hi hp
  refine ⟨hsafe, ?_⟩
  have hstep : d.step .compactCommit = some { d with
      s := { d.s with levels := addAt (removeIds cs.rm d.s.levels) cs.lvl (mkTables d.s.nextId cs.add),
                      nextId := d.s.nextId + cs.add.length }, pending := none } := by
    simp only [DB.step, hp, Lsm.step, hsafe, if_true, Option.map_some]
  refine ⟨_, hstep, ?_⟩
  have hi' : DInv _ m := dinv_step (a := .compactCommit) hi trivial hstep
  have hget : ∀ (x : DB) (hx : DInv x m) (k : Bytes), get x.s k = Spec.get m k :=
    fun x hx k => by rw [get_eq_firstHit hx.inv, hx.inv.hit k]
  refine ⟨fun k => by rw [hget _ hi' k, hget _ hi k], ?_, fun k => hget _ hi' k⟩
  intro p
  have h1 := scan_spec hi'.inv p
  have h2 := scan_spec hi.inv p
  exact sorted_mem_ext h1.1 h2.1 (fun e => by rw [h1.2 e, h2.2 e])

/-- the same from the empty database -/
theorem real_compaction_commit (as : List DAct) (d : DB) (m : Spec) (cs : ChangeSet)
    (hok : ({} : DB).runOK as) (h : ({} : DB).run [] as = some (d, m)) (hp : d.pending = some cs) :
    safeCS d.s.levels cs.rm cs.lvl cs.add = true ∧
    ∃ d', d.step .compactCommit = some d' ∧
      (∀ k, get d'.s k = get d.s k) ∧ (∀ p, scan d'.s p = scan d.s p) ∧ (∀ k, get d'.s k = Spec.get m k) :=
  real_compaction_commit_from {} [] dinv_init as d m cs hok h hp

/-- **A failed compaction changes nothing**: when a `Compact` call that would have produced a change set fails
(a table write or a table scan returns an error) the DKV state — level list, memtables, id counter — is exactly what
it was, and no change set is pending, so no table written before the failure is referenced by any level; only the
compactor's cursor may have moved, and every later `Compact` from that cursor is covered by `compact_is_safe`
(which holds for every cursor). Such steps are part of the histories of `db_reachable_invariant`. -/
theorem failed_compaction_changes_nothing (d d' : DB) (o : Oracle) (h : d.step (.compactFail o) = some d') :
    d'.s = d.s ∧ d'.pending = none ∧ d.pending = none := by
  simp only [DB.step] at h
  split at h
  · cases h
  · rename_i hp
    split at h
    · simp only [Option.some.injEq] at h
      subst h
      exact ⟨rfl, hp, hp⟩
    · cases h

/-- **The view of a history is the view of the same history without its compactions** (DKV system of C07, any
compaction commits that pass the guard): erasing every compaction commit from a history from the empty database
gives again a history, with the same map of writes, the same `Get` for every key and the same `ScanPrefix` for
every prefix. -/
theorem view_is_view_without_compactions (as : List Lsm.Act) (s : Lsm.State) (m : Spec)
    (h : runBoth {} [] as = some (s, m)) :
    ∃ s0, runBoth {} [] (dropCompactions as) = some (s0, m) ∧
      (∀ k, get s k = get s0 k) ∧ (∀ p, scan s p = scan s0 p) :=
  view_without_compactions as s m h

/-- **… also for the reads as the code performs them**: with the table selection of `LevelList.tablesForKey`
(`SearchUnique` over `RangeKeyCompare`) and `AllTablesForPrefix` (level-0 filter by `RangeContainsPrefix`,
`BinarySearchFunc` over `RangePrefixCompare`, forward walk) — `Rescale.getR`, `Rescale.scanR`, the definitions the C07
driver executes — erasing the compaction commits changes no `Get` and no `ScanPrefix`. So "compaction preserves
scans" holds for the code's choice of tables, not only for the merge of all tables. -/
theorem view_is_view_without_compactions_code (as : List Lsm.Act) (s : Lsm.State) (m : Spec)
    (h : runBoth {} [] as = some (s, m)) :
    ∃ s0, runBoth {} [] (dropCompactions as) = some (s0, m) ∧
      (∀ k, Rescale.getR s k = Rescale.getR s0 k) ∧ (∀ p, Rescale.scanR s p = Rescale.scanR s0 p) :=
  view_without_compactions_code as s m h

/-- the same for the system with the real compaction task: whatever the task did (any `Compact` calls, any commit
points between the foreground actions), the database answers like the one that only ran the foreground actions -/
theorem db_view_is_foreground_view (as : List DAct) (d : DB) (m : Spec) (h : ({} : DB).run [] as = some (d, m)) :
    ∃ s0, runBoth {} [] (foreground as) = some (s0, m) ∧
      (∀ k, get d.s k = get s0 k) ∧ (∀ p, scan d.s p = scan s0 p) := by
  obtain ⟨acts, hr, hd⟩ := db_run_lsm as {} [] d m h
  obtain ⟨s0, h0, hg, hs⟩ := view_without_compactions acts d.s m hr
  rw [hd] at h0
  exact ⟨s0, h0, hg, hs⟩

/-- a single step that is not a flush (computing or committing a change set, also with flushes before and after
it in the history) leaves every `Get` and every scan unchanged -/
theorem compaction_step_keeps_view (s s' : Sys) (a : Compaction.Act) (hi : SysInv s) (h : s.step a = some s')
    (hnf : a.isFlush = false) :
    (∀ k, levelsGet s'.L k = levelsGet s.L k) ∧ (∀ p, scanView s'.L p = scanView s.L p) :=
  sys_step_view hi h hnf

/-- **What the model takes from the source as constants (regenerated on every run)**: `dkv.New` builds a level list
with at least two levels (hypothesis `2 ≤ L.length` of `compact_is_safe`), the level-0 trigger defaults to at least
one table, `Table.Age()` is the sequence number of the first entry written and `OrderOldToNew` sorts ascending by
it (the model's `age`/`sortByAge`). -/
theorem source_constants :
    2 ≤ Facts.dkvLevelCount ∧ 1 ≤ Facts.dkvDefaultL0Trigger ∧ Facts.c18AgeIsStartSeqNum = 1 ∧
    Facts.c18StartSeqNumIsFirstEntry = 1 ∧ Facts.c18OrderOldToNewAscending = 1 := by decide

/-- **Structure of the code behind the model's atomic steps** (hard structural facts, re-derived from the source on
every run; a change of shape is a broken obligation, there is no correspondence that could observe them):
`bg.AsyncGroup.Enqueue` runs the functions of one queue one at a time (mutex taken before the function is taken from
the queue and called, released when it returns); every `compactor.Compact` call of `dkv/db.go` runs in a function
enqueued on one and the same queue (so at most one `Compact` runs and at most one change set is pending);
`LevelList.NewWithChangeSet` works on a clone of the receiver's levels and `Level`/`Set` operations never write to
their receiver (a level list read by `currentSSTables()` never changes: `compactBegin` computes on a stable value);
`db.sstables` is only ever replaced; both commits (`db.sstables = db.sstables.NewWithChangeSet(cs)` of the flush task and
of the compaction task) are read-modify-writes entirely inside one `db.mu.Lock()`…`Unlock()` section and
`currentSSTables` reads under `RLock` (the model's `flushCommit` and `compactCommit` are atomic steps: no lost update). -/
theorem source_structure :
    Facts.c18QueueSerial = 1 ∧ Facts.c18CompactOneQueue = 1 ∧ Facts.c18LevelListPersistent = 1 ∧
    Facts.c18DbLevelsReplacedOnly = 1 ∧ Facts.c18CommitsUnderDbMu = 1 := by decide

/-! ## The defect D22 (repaired): the picker as it was is outside the family and loses the newest version -/

def kA : Entry := ⟨[0x61], 1, false, [2]⟩
def kOld : Entry := ⟨[0x6b], 5, false, [0x6f]⟩
def kNew : Entry := ⟨[0x6b], 9, false, [0x6e]⟩
def kZ : Entry := ⟨[0x7a], 2, false, [1]⟩

/-- L0 {k@9}, L1 {}, L2 {A: a@1 | B: k@5}, base {z@2} -/
def d22L : Levels := [[⟨3, [kNew]⟩], [], [⟨1, [kA]⟩, ⟨2, [kOld]⟩], [⟨0, [kZ]⟩]]

/-- size amplification above the limit; the goal is met after the first candidate (table A) -/
def d22O : Oracle :=
  { l0Few := false, overAmp := true, goalMet := fun n => decide (1 ≤ n), levelOver := fun _ => false, cuts := [] }

theorem d22_witness_valid : LayoutValid d22L := by decide

theorem d22_old_picker : majorCompactionD22 d22L d22O = ⟨[1, 3, 0], 3, [[kA, kNew, kZ]]⟩ := by
  simp [majorCompactionD22, majorPickD22, takeUntil, sortByAge, insertByAge, age, mergeWrite, chunk, chunkNE, d22L,
    d22O, mergeAll, merge2, kA, kNew, kZ, kOld, Bytes.cmp]

/-- before the repair: one `Compact` step on a valid layout made `Get k` return the overwritten value and left the
layout invalid (newer data beneath older data) -/
theorem d22_counterexample :
    levelsGet d22L [0x6b] = some kNew ∧
    levelsGet (applyCS d22L 4 (majorCompactionD22 d22L d22O)) [0x6b] = some kOld ∧
    ¬ LayoutValid (applyCS d22L 4 (majorCompactionD22 d22L d22O)) ∧
    ∀ add, ¬ SafeCS d22L (majorCompactionD22 d22L d22O).rm (majorCompactionD22 d22L d22O).lvl add := by
  rw [d22_old_picker]
  refine ⟨by decide, by decide, by decide, ?_⟩
  intro add h
  have := h.no_kept_below_removed
  revert this
  decide

/-- after the repair the picker stops at table A: the level-0 table stays where it is -/
theorem d22_repaired_picker : (majorCompaction d22L d22O).rm = [1, 0] ∧ (majorCompaction d22L d22O).lvl = 3 := by
  decide

/-! ## Non-vacuity -/

/-- a safe change set exists on the witness layout (the one the repaired picker produces), and
`safe_preserves_view` applies to it -/
example : SafeCS d22L [1, 0] 3 [[kA, kZ]] := by
  have h : mergeAll [[kA], [kZ]] = [kA, kZ] := by simp [mergeAll, merge2, kA, kZ, Bytes.cmp]
  refine ⟨by decide, by decide, by decide, by decide, by decide, ?_, by decide⟩
  show [[kA, kZ]].flatten = mergeAll [[kA], [kZ]]
  rw [h]; rfl

example : levelsGet (applyCS d22L 4 ⟨[1, 0], 3, [[kA, kZ]]⟩) [0x6b] = some kNew := by decide

/-- the witness layout is a state of the system that satisfies the invariant; a compaction (major, partial pick in
level 2) followed by a flush arriving before the commit is a history of the system -/
def sys0 : Sys := { L := d22L, nextId := 4 }

example : SysInv sys0 :=
  ⟨d22_witness_valid, by unfold IdsFresh; decide, by unfold L0KeyAgeOrdered; decide, by decide,
   fun cs h => by cases h⟩

def sys1 : Sys := { sys0 with c := (compact sys0.c sys0.L d22O).2, pending := (compact sys0.c sys0.L d22O).1 }
def sys2 : Sys := { sys1 with L := applyFlush sys1.L (mkTables 4 [[⟨[0x6b], 12, true, []⟩]]), nextId := 5 }

example : Reach sys0 [.compactBegin d22O, .flush [[⟨[0x6b], 12, true, []⟩]]] sys2 := by
  refine Reach.cons (s1 := sys1) trivial rfl (Reach.cons (s1 := sys2) ?_ rfl (Reach.nil _))
  refine ⟨by decide, by decide, by decide, by decide⟩

example : (compact sys0.c sys0.L d22O).1.map (·.rm) = some [1, 0] := by decide

/-- a composite level 0: source A = [k@10 | k@20, m@21], source B = [z@1] appended after it. Ages 10, 20, 1 do not
increase in insertion order, yet the per-key form holds (`composite_level0` applies), and the age-ordered partial
pick (B's table first, then A's oldest) leaves A's newer version of `k` on top -/
def compL : Levels :=
  [[⟨0, [⟨[0x6b], 10, false, [1]⟩]⟩, ⟨1, [⟨[0x6b], 20, false, [2]⟩, ⟨[0x6d], 21, false, [3]⟩]⟩, ⟨2, [⟨[0x7a], 1, false, [4]⟩]⟩],
   [], [⟨3, [⟨[0x61], 1, false, [5]⟩]⟩]]

example : ¬ L0AgeOrdered compL ∧ L0KeyAgeOrdered compL ∧ LayoutValid compL := by
  refine ⟨by unfold L0AgeOrdered; decide, by unfold L0KeyAgeOrdered; decide, by decide⟩

example : (majorCompaction compL { d22O with goalMet := fun n => decide (2 ≤ n) }).rm = [2, 0, 3] := by decide

/-- a history of the DKV system with its compaction task: writes, rotation, flush, then a `Compact` call that picks
(minor, level 0 → 1) while a further write follows: the run succeeds and leaves a pending change set, so
`real_compaction_commit` applies (its commit exists and changes no answer) -/
def demoOracle : Oracle :=
  { l0Few := false, overAmp := false, goalMet := fun _ => false, levelOver := fun _ => false, cuts := [] }

def dbDemo : List DAct :=
  [.fg (.put [1] [10]), .fg .rotate, .fg (.flushBegin 1), .fg .flushCommit, .fg (.put [1] [11]),
   .compactBegin demoOracle, .fg (.put [2] [20])]

example : (({} : DB).run [] dbDemo).map (fun x => (x.1.pending.map (·.rm), x.1.s.levels.map (·.length), x.2.length))
    = some (some [0], [1, 0, 0, 0, 0, 0], 3) := by decide

/-- the oracle answers of that `Compact` call are sane for the level list it saw -/
example : OracleSane {} [[⟨0, [⟨[1], 1, false, [10]⟩]⟩], [], [], [], [], []] demoOracle :=
  ⟨fun _ _ => by simp, fun i h => by simp [demoOracle] at h, fun h => by simp [demoOracle] at h⟩

example : foreground dbDemo =
    [.put [1] [10], .rotate, .flushBegin 1, .flushCommit, .put [1] [11], .put [2] [20]] := rfl

end Rxn.C18
