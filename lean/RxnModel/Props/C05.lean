import RxnModel.Proofs.KeySpace
import RxnModel.Proofs.Assembly
/-!
# C05 — key routing agrees with state ownership for every configuration

Property theorems only. Models: `Model/KeySpace.lean`, `Model/Murmur.lean` (constants and schema bytes
come from `Generated/Facts.lean`, regenerated from /repo on every run), `Model/Assembly.lean` (registry,
`Assembly.Deploy`, what a source runner and an operator build from the request they are sent).
-/
namespace Rxn.C05
open Rxn KeySpace

/-- ranges are contiguous, start at 0 and end at the key-group count: a partition of `[0, kgc)` -/
theorem ranges_partition (kgc n : Nat) (hn : 0 < n) :
    (ranges kgc n).length = n ∧
    (∀ i, i < n → (ranges kgc n)[i]? = some ⟨startOf kgc n i, startOf kgc n (i + 1)⟩) ∧
    startOf kgc n 0 = 0 ∧ startOf kgc n n = kgc ∧
    (∀ i j, i ≤ j → startOf kgc n i ≤ startOf kgc n j) :=
  ⟨ranges_length kgc n, fun i hi => ranges_get kgc n i hi, startOf_zero kgc n, startOf_n kgc n hn,
   fun _ _ h => startOf_mono kgc n h⟩

/-- sizes differ by at most one -/
theorem ranges_balanced (kgc n i j : Nat) :
    (startOf kgc n (i + 1) - startOf kgc n i) ≤ (startOf kgc n (j + 1) - startOf kgc n j) + 1 := by
  rw [startOf_step, startOf_step]
  split <;> split <;> omega

/-- every key group below the count lies in exactly one range -/
theorem group_in_unique_range (kgc n g : Nat) (hn : 0 < n) (hg : g < kgc) :
    ∃ i, i < n ∧ (startOf kgc n i ≤ g ∧ g < startOf kgc n (i + 1)) ∧
      ∀ j, (startOf kgc n j ≤ g ∧ g < startOf kgc n (j + 1)) → j = i := by
  obtain ⟨i, hi, h1, h2⟩ := exists_range kgc n g (by rw [startOf_n kgc n hn]; exact hg)
  refine ⟨i, hi, ⟨h1, h2⟩, ?_⟩
  intro j ⟨hj1, hj2⟩
  by_cases hlt : j < i
  · have := startOf_mono kgc n (show j + 1 ≤ i by omega); omega
  · by_cases hgt : i < j
    · have := startOf_mono kgc n (show i + 1 ≤ j by omega); omega
    · omega

/-- the router's table lookup (`RangeIndex`) returns the one range containing the key's group -/
theorem rangeIndex_unique (kgc n : Nat) (hk : 0 < kgc) (hk2 : kgc ≤ 65535) (hn : 0 < n) (key : Bytes) :
    let g := keyGroup kgc key
    let i := rangeIndex kgc n key
    i < n ∧ (∃ r, (ranges kgc n)[i]? = some r ∧ r.includes g = true) ∧
      ∀ j r, (ranges kgc n)[j]? = some r → r.includes g = true → j = i := by
  intro g i
  have hg : g < kgc := Nat.mod_lt _ hk
  obtain ⟨i0, hi0, ⟨h1, h2⟩, huniq⟩ := group_in_unique_range kgc n g hn hg
  have hget := ranges_get kgc n i0 hi0
  have hinc : (⟨startOf kgc n i0, startOf kgc n (i0 + 1)⟩ : KGRange).includes g = true := by
    simp [KGRange.includes, Gen.kgIncludes]; omega
  -- a non-empty range has an index not above its first key group
  have hi0g : i0 ≤ g := by
    have hs : startOf kgc n i0 = i0 * (kgc / n) + min i0 (kgc % n) := rfl
    by_cases hd : kgc / n = 0
    · have hm : kgc % n = kgc := by
        have := Nat.div_add_mod kgc n; rw [hd] at this; omega
      rw [hd, hm] at hs; omega
    · have : i0 ≤ i0 * (kgc / n) := Nat.le_mul_of_pos_right _ (Nat.pos_of_ne_zero hd)
      omega
  have hi : i = i0 := by
    show rangeIndex kgc n key = i0
    unfold rangeIndex lookupTable
    have hgm : keyGroup kgc key % 65536 = g := Nat.mod_eq_of_lt (by omega)
    rw [hgm, fillAll_hit 0 g (ranges kgc n) 0 _ 0 i0 _ (ranges_chain kgc n) hget hinc (by simp; exact hg)]
    simp; omega
  rw [hi]
  refine ⟨hi0, ⟨_, hget, hinc⟩, ?_⟩
  intro j r hj hr
  have hjn : j < n := by
    have := List.getElem?_eq_some_iff.mp hj
    obtain ⟨h, _⟩ := this; rw [ranges_length] at h; exact h
  rw [ranges_get kgc n j hjn] at hj
  cases hj
  simp [KGRange.includes, Gen.kgIncludes] at hr
  exact huniq j ⟨hr.1, hr.2⟩

/-- everything persisted for a key (state entries and timers) is owned by exactly the operator the router sends the key to -/
theorem owns_encoded (kgc n : Nat) (hk : 0 < kgc) (hk2 : kgc ≤ 65535) (hn : 0 < n)
    (k ns d : Bytes) (t j : Nat) (r : KGRange) (hj : (ranges kgc n)[j]? = some r) :
    (Keys.ownsKey r (Keys.dbKey kgc k ns d) = true ↔ rangeIndex kgc n k = j) ∧
    (Keys.ownsKey r (Keys.timerKey kgc k t) = true ↔ rangeIndex kgc n k = j) := by
  have hg : keyGroup kgc k < 65536 := by have := Nat.mod_lt (Murmur.hash k 0).toNat hk; unfold keyGroup; omega
  have ⟨_, ⟨r', hr', hinc'⟩, huniq⟩ := rangeIndex_unique kgc n hk hk2 hn k
  have h1 : Keys.ownsKey r (Keys.dbKey kgc k ns d) = r.includes (keyGroup kgc k) := by
    unfold Keys.ownsKey Keys.dbKey Keys.subjectKey
    simp only [List.append_assoc]
    rw [Keys.beNat_u16be _ hg]
  have h2 : Keys.ownsKey r (Keys.timerKey kgc k t) = r.includes (keyGroup kgc k) := by
    unfold Keys.ownsKey Keys.timerKey
    simp only [List.append_assoc]
    rw [Keys.beNat_u16be _ hg]
  rw [h1, h2]
  have key : r.includes (keyGroup kgc k) = true ↔ rangeIndex kgc n k = j := by
    constructor
    · intro h; exact (huniq j r hj h).symm
    · intro h; subst h; rw [hr'] at hj; cases hj; exact hinc'
  exact ⟨key, key⟩

/-! ### Non-overlap in the code's own predicate, partition of the key groups -/

/-- `Overlaps` between two ranges of one layout: true exactly for a non-empty range with itself. In particular two
different ranges never overlap, whatever the counts (also `n > kgc`, where the ranges from index `kgc` on are empty). -/
theorem ranges_overlaps (kgc n i j : Nat) (hi : i < n) (hj : j < n) :
    ((ranges kgc n)[i]'(by rw [ranges_length]; exact hi)).overlaps ((ranges kgc n)[j]'(by rw [ranges_length]; exact hj)) = true
      ↔ i = j ∧ startOf kgc n i < startOf kgc n (i + 1) := by
  have gi := ranges_get kgc n i hi
  have gj := ranges_get kgc n j hj
  obtain ⟨_, gi⟩ := List.getElem?_eq_some_iff.mp gi
  obtain ⟨_, gj⟩ := List.getElem?_eq_some_iff.mp gj
  rw [gi, gj]
  simp only [KGRange.overlaps, Gen.kgOverlaps, Bool.and_eq_true, decide_eq_true_eq]
  constructor
  · intro ⟨h1, h2⟩
    by_cases hlt : i < j
    · have := startOf_mono kgc n (show i + 1 ≤ j by omega); omega
    · by_cases hgt : j < i
      · have := startOf_mono kgc n (show j + 1 ≤ i by omega); omega
      · have : i = j := by omega
        subst this; exact ⟨rfl, by omega⟩
  · intro ⟨h, h1⟩; subst h; exact ⟨h1, h1⟩

/-- the statement `AssignRanges` and `NeedsTable` rely on: different operators' ranges never `Overlaps` -/
theorem ranges_disjoint (kgc n i j : Nat) (hij : i ≠ j) (hi : i < n) (hj : j < n) :
    ((ranges kgc n)[i]'(by rw [ranges_length]; exact hi)).overlaps ((ranges kgc n)[j]'(by rw [ranges_length]; exact hj)) = false := by
  have := ranges_overlaps kgc n i j hi hj
  cases h : ((ranges kgc n)[i]'(by rw [ranges_length]; exact hi)).overlaps ((ranges kgc n)[j]'(by rw [ranges_length]; exact hj))
  · rfl
  · exact absurd (this.mp h).1 hij

/-- an empty range occurs only with more operators than key groups, from index `kgc` on, and it is `[kgc, kgc)`:
it sits at the end of the key space, never strictly inside another range (where `Overlaps` would answer true) -/
theorem empty_range_at_end (kgc n i : Nat) (hn : 0 < n) (he : startOf kgc n (i + 1) ≤ startOf kgc n i) :
    kgc < n ∧ kgc ≤ i ∧ startOf kgc n i = kgc ∧ startOf kgc n (i + 1) = kgc := by
  rw [startOf_step] at he
  have hq : kgc / n = 0 ∧ ¬ i < kgc % n := by
    generalize kgc / n = q at he
    split at he <;> omega
  obtain ⟨hd, hnb⟩ := hq
  have hm : kgc % n = kgc := by have := Nat.div_add_mod kgc n; rw [hd] at this; omega
  have hlt : kgc < n := by have := Nat.mod_lt kgc hn; omega
  have hik : kgc ≤ i := by omega
  refine ⟨hlt, hik, ?_, ?_⟩ <;> simp [startOf, hd, hm] <;> omega

/-- `Overlaps` means "share a key group" for non-empty ranges; for an empty range it does not (see the example below) -/
theorem overlaps_iff_common_group (r o : KGRange) (hr : r.start < r.stop) (ho : o.start < o.stop) :
    r.overlaps o = true ↔ ∃ g, r.includes g = true ∧ o.includes g = true := by
  simp only [KGRange.overlaps, Gen.kgOverlaps, KGRange.includes, Gen.kgIncludes, Bool.and_eq_true, decide_eq_true_eq]
  constructor
  · intro ⟨h1, h2⟩
    exact ⟨max r.start o.start, by omega⟩
  · intro ⟨g, h⟩; omega

/-- sharing a key group implies `Overlaps`, for all ranges -/
theorem common_group_overlaps (r o : KGRange) (g : Nat) (h1 : r.includes g = true) (h2 : o.includes g = true) :
    r.overlaps o = true := by
  simp only [KGRange.overlaps, Gen.kgOverlaps, KGRange.includes, Gen.kgIncludes, Bool.and_eq_true, decide_eq_true_eq] at *
  omega

/-- the auditor's remark: an empty range strictly inside another one `Overlaps` it without sharing a group -/
example : (⟨0, 4⟩ : KGRange).overlaps ⟨2, 2⟩ = true ∧ ∀ g, ¬ ((⟨2, 2⟩ : KGRange).includes g = true) := by
  refine ⟨by decide, ?_⟩
  intro g; simp [KGRange.includes, Gen.kgIncludes]

/-- `KeyGroups()` of the ranges, in operator order, enumerate every key group exactly once: `0, 1, …, kgc-1` -/
theorem keyGroups_partition (kgc n : Nat) (hn : 0 < n) :
    (ranges kgc n).flatMap KGRange.keyGroups = List.range kgc := by
  rw [ranges_closed_form, List.range_eq_range' (n := n)]
  rw [map_keyGroups (startOf kgc n) (fun _ _ h => startOf_mono kgc n h) n 0]
  simp [startOf_zero, startOf_n kgc n hn, List.range_eq_range']

example : (ranges 2 4).flatMap KGRange.keyGroups = [0, 1] ∧ (ranges 7 3).map KGRange.keyGroups = [[0,1,2],[3,4],[5,6]] := by decide
example : ((ranges 2 4)[1]).overlaps ((ranges 2 4)[2]) = false ∧ ((ranges 2 4)[2]).overlaps ((ranges 2 4)[3]) = false ∧
    ((ranges 2 4)[3]).overlaps ((ranges 2 4)[3]) = false ∧ ((ranges 2 4)[1]).overlaps ((ranges 2 4)[1]) = true := by decide

/-! ### The table the driver executes -/

/-- the array-backed lookup table is the list table of the theorems above -/
theorem lookupTableA_eq (kgc n : Nat) : (lookupTableA kgc n).toList = lookupTable kgc n := lookupTableA_toList kgc n

theorem rangeIndexA_eq (kgc n : Nat) (key : Bytes) : rangeIndexA (lookupTableA kgc n) kgc key = rangeIndex kgc n key := by
  unfold rangeIndexA rangeIndex
  rw [← lookupTableA_eq]
  simp [Array.getD_eq_getD_getElem?, List.getD_eq_getElem?_getD]

/-! ### Deployment level: registry → `Assembly.Deploy` → what runners and operators build from their requests -/
open Assembly

/-- "routing agrees with ownership" for a deployment `D` of the operators `ops`, for one key `k`:
every source runner, having handled ITS request, addresses some deployed operator `tgt`; every operator, having handled
ITS request, owns what it persists for `k` (state entry and timer, under the group count IT was told) iff it is `tgt`. -/
def RoutingAgrees (ops : List NodeId) (D : Deployment) (k ns d : Bytes) (t : Nat) : Prop :=
  ∀ sr sreq, (sr, sreq) ∈ D.srReqs →
    ∃ rst, srHandleDeploy sreq = some rst ∧
    ∃ tgt, srRoute rst k = some tgt ∧ tgt ∈ ops ∧
      ∀ o oreq, (o, oreq) ∈ D.opReqs →
        ∃ st, opHandleDeploy o oreq = some st ∧
          (st.owns (st.dbKey k ns d) = true ↔ o = tgt) ∧
          (st.owns (st.timerKey k t) = true ↔ o = tgt)

/-- `Assembly.Deploy`: every runner and every operator of the assembly is sent exactly one request, and for every
configuration (key group count, operator list with distinct ids, runner list) and every key, routing agrees with
ownership: the operator a runner addresses owns the key's persisted entries, and no other deployed operator does. -/
theorem deploy_agreement (kgc wc : Nat) (ops srs : List NodeId) (D : Deployment)
    (hD : deploy kgc wc ops srs = some D) (hne : ops ≠ []) (hnd : ops.Nodup) (k ns d : Bytes) (t : Nat) :
    D.srReqs.map (·.1) = srs ∧ D.opReqs.map (·.1) = ops ∧ RoutingAgrees ops D k ns d t := by
  unfold deploy at hD
  split at hD
  · cases hD
  · rename_i hc
    cases hD
    have hk : 0 < kgc := by omega
    have hk2 : kgc ≤ 65535 := by omega
    have hn : 0 < ops.length := List.length_pos_iff.mpr hne
    refine ⟨by simp [List.map_map, Function.comp_def], by simp [List.map_map, Function.comp_def], ?_⟩
    intro sr sreq hsr
    simp only [List.mem_map] at hsr
    obtain ⟨_, _, hs⟩ := hsr
    cases hs
    have hsd : srHandleDeploy ⟨ops, kgc⟩ = some ⟨kgc, ops, lookupTableA kgc ops.length⟩ := by
      unfold srHandleDeploy
      rw [if_neg (by simp only []; omega)]
    refine ⟨_, hsd, ?_⟩
    obtain ⟨hlt, _, _⟩ := rangeIndex_unique kgc ops.length hk hk2 hn k
    refine ⟨ops[rangeIndex kgc ops.length k], by simp [srRoute, rangeIndexA_eq, hlt], List.getElem_mem _, ?_⟩
    intro o oreq ho
    simp only [List.mem_map] at ho
    obtain ⟨o', ho', hs⟩ := ho
    cases hs
    have hidx : List.idxOf o ops < ops.length := List.idxOf_lt_length_iff.mpr ho'
    have hget := ranges_get kgc ops.length _ hidx
    have hod : opHandleDeploy o ⟨ops, srs, kgc⟩ =
        some ⟨kgc, ops.length, List.idxOf o ops, ⟨startOf kgc ops.length (List.idxOf o ops), startOf kgc ops.length (List.idxOf o ops + 1)⟩⟩ := by
      unfold opHandleDeploy
      simp only []
      rw [if_neg (by omega)]
      simp [List.getD_eq_getElem?_getD, hget]
    refine ⟨_, hod, ?_⟩
    have hown := owns_encoded kgc ops.length hk hk2 hn k ns d t _ _ hget
    have hiff : rangeIndex kgc ops.length k = List.idxOf o ops ↔ o = ops[rangeIndex kgc ops.length k] := by
      constructor
      · intro h
        have := List.getElem_idxOf hidx
        simp only [h]; exact this.symm
      · intro h
        have := hnd.idxOf_getElem _ hlt
        rw [← h] at this; exact this.symm
    simp only [OpState.owns, OpState.dbKey, OpState.timerKey]
    exact ⟨hown.1.trans hiff, hown.2.trans hiff⟩

/-- the registry hands `Deploy` exactly `taskCount` distinct registered operators and runners, after any history of
registrations and deregistrations (so the hypotheses of `deploy_agreement` hold in production) -/
theorem registry_assembly (steps : List RegStep) (tc : Nat) (ops srs : List NodeId)
    (h : newAssembly tc (Reg.run steps) = some (ops, srs)) :
    ops.Nodup ∧ ops.length = tc ∧ srs.Nodup ∧ srs.length = tc ∧
    (∀ o ∈ ops, o ∈ (Reg.run steps).ops) ∧ (∀ s ∈ srs, s ∈ (Reg.run steps).srs) := by
  unfold newAssembly at h
  split at h
  · cases h
  · rename_i hc
    cases h
    have hn := run_nodup steps
    exact ⟨sorted_take_nodup _ _ hn.1, sorted_take_length _ _ (by omega), sorted_take_nodup _ _ hn.2,
      sorted_take_length _ _ (by omega), sorted_take_subset _ _, sorted_take_subset _ _⟩

/-- end to end: whatever was registered, if an assembly can be formed for a valid job configuration then `Deploy`
succeeds and routing agrees with ownership for every key -/
theorem registry_deploy_agreement (steps : List RegStep) (kgc tc : Nat) (hk : 0 < kgc) (hk2 : kgc ≤ 65535) (htc : 0 < tc)
    (ops srs : List NodeId) (h : newAssembly tc (Reg.run steps) = some (ops, srs)) (k ns d : Bytes) (t : Nat) :
    ∃ D, deploy kgc tc ops srs = some D ∧ RoutingAgrees ops D k ns d t := by
  obtain ⟨hnd, hlen, _, _, _, _⟩ := registry_assembly steps tc ops srs h
  have hne : ops ≠ [] := by intro h0; rw [h0] at hlen; simp at hlen; omega
  have hD : deploy kgc tc ops srs = some ⟨srs.map fun s => (s, ⟨ops, kgc⟩), ops.map fun o => (o, ⟨ops, srs, kgc⟩)⟩ := by
    unfold deploy
    rw [if_neg (by omega)]
  exact ⟨_, hD, (deploy_agreement kgc tc ops srs _ hD hne hnd k ns d t).2.2⟩

/-- non-vacuity: three operators registered out of order, one runner; the deployment exists, the key "hello" (group 6 of 7)
is addressed to operator `[3]`, which owns it, and operators `[1]`, `[2]` do not -/
example :
    let r := Reg.run [.regOp [3], .regSr [9], .regOp [1], .regOp [2], .regOp [1]]
    r.ops = [[3],[1],[2]] ∧ (newAssembly 1 r).isSome = true ∧ (newAssembly 3 r).isSome = false ∧
    (deploy 7 3 [[1],[2],[3]] [[9]]).isSome = true ∧
    ((srHandleDeploy ⟨[[1],[2],[3]], 7⟩).bind (srRoute · [104,101,108,108,111])) = some [3] ∧
    ((opHandleDeploy [3] ⟨[[1],[2],[3]], [[9]], 7⟩).map fun st => (st.range, st.owns (st.dbKey [104,101,108,108,111] [] []))) = some (⟨5, 7⟩, true) ∧
    ((opHandleDeploy [2] ⟨[[1],[2],[3]], [[9]], 7⟩).map fun st => (st.range, st.owns (st.dbKey [104,101,108,108,111] [] []))) = some (⟨3, 5⟩, false) := by
  decide

/-- the distinct-ids hypothesis is needed: with a duplicated id the runner addresses position 1, but the operator
process of that id takes the first position's range and does not own the key -/
example :
    ((srHandleDeploy ⟨[[1],[1]], 2⟩).bind (srRoute · [104,101,108,108,111])) = some [1] ∧
    ((opHandleDeploy [1] ⟨[[1],[1]], [], 2⟩).map fun st => st.owns (st.dbKey [104,101,108,108,111] [] [])) = some false := by
  decide

/-! ### Timers: the per-key-group queues of a deployed operator (`NewTimerStore`) -/

/-- the timer of a key the operator owns is pushed to queue `key group − range.Start` (`IndexOf`), that queue exists, and it is
the queue that loads from / persists under the key's own group -/
theorem timer_queue_of_owned (st : OpState) (hk : 0 < st.kgc) (hk2 : st.kgc ≤ 65535) (k : Bytes) (t : Nat)
    (h : st.owns (st.timerKey k t) = true) :
    st.timerQueueIndex k t = keyGroup st.kgc k - st.range.start ∧
    st.timerQueueIndex k t < st.timerQueues.length ∧
    st.timerQueues[st.timerQueueIndex k t]? = some (keyGroup st.kgc k) := by
  have hg : keyGroup st.kgc k < 65536 := by
    have := Nat.mod_lt (Murmur.hash k 0).toNat hk; unfold keyGroup; omega
  have hb : Bytes.beNat ((st.timerKey k t).take 2) = keyGroup st.kgc k := by
    unfold OpState.timerKey Keys.timerKey
    simp only [List.append_assoc]
    exact Keys.beNat_u16be _ hg _
  have hinc : st.range.includes (keyGroup st.kgc k) = true := by
    unfold OpState.owns Keys.ownsKey at h
    rw [hb] at h; exact h
  simp only [KGRange.includes, Gen.kgIncludes, Bool.and_eq_true, decide_eq_true_eq] at hinc
  have hi : st.timerQueueIndex k t = keyGroup st.kgc k - st.range.start := by
    unfold OpState.timerQueueIndex; rw [hb]; rfl
  rw [hi]
  simp only [OpState.timerQueues, KGRange.keyGroups, KGRange.size, Gen.kgSize, List.length_range']
  refine ⟨trivial, by omega, ?_⟩
  rw [List.getElem?_range' (by omega)]
  simp; omega

/-- the queues of an operator serve exactly the key groups of its range -/
theorem timer_queues_are_range (st : OpState) (g : Nat) : g ∈ st.timerQueues ↔ st.range.includes g = true := by
  simp only [OpState.timerQueues, KGRange.keyGroups, KGRange.size, Gen.kgSize, List.mem_range'_1, KGRange.includes, Gen.kgIncludes,
    Bool.and_eq_true, decide_eq_true_eq]
  omega
/-- over a whole deployment every key group has exactly one timer queue: the operators' queues, in operator order, are
the groups `0, 1, …, kgc-1` -/
theorem deploy_timer_queues (kgc wc : Nat) (ops srs : List NodeId) (D : Deployment)
    (hD : deploy kgc wc ops srs = some D) (hne : ops ≠ []) (hnd : ops.Nodup) :
    (D.opReqs.flatMap fun x => match opHandleDeploy x.1 x.2 with | some st => st.timerQueues | none => []) = List.range kgc := by
  unfold deploy at hD
  split at hD
  · cases hD
  · rename_i hc
    cases hD
    have hn : 0 < ops.length := List.length_pos_iff.mpr hne
    have hmap : ops.map (fun o => (ranges kgc ops.length).getD (List.idxOf o ops) ⟨0, 0⟩) = ranges kgc ops.length := by
      apply List.ext_getElem
      · simp [ranges_length]
      · intro i h1 h2
        simp only [List.getElem_map]
        rw [hnd.idxOf_getElem i (by simpa using h1)]
        simp [List.getD_eq_getElem?_getD, h2]
    rw [← keyGroups_partition kgc ops.length hn, ← hmap]
    simp only [List.flatMap_map]
    simp only [List.flatMap_def]
    congr 1
    apply List.map_congr_left
    intro o ho
    have hidx : List.idxOf o ops < ops.length := List.idxOf_lt_length_iff.mpr ho
    simp only [opHandleDeploy]
    rw [if_neg (by omega)]
    rfl

example :
    ((opHandleDeploy [3] ⟨[[1],[2],[3]], [[9]], 7⟩).map fun st => (st.timerQueues, st.timerQueueIndex [104,101,108,108,111] 5)) = some ([5, 6], 1) ∧
    ((opHandleDeploy [2] ⟨[[1],[2],[3]], [[9]], 7⟩).map fun st => st.timerQueues) = some [3, 4] := by decide

/-- MurmurHash3 x86_32 reference vectors: a finite sample standing for "`Murmur.hash` is MurmurHash3-32" (there is no
reference specification to prove against). Published vectors (smhasher verification inputs and the widely used
test list for the x86_32 variant), the repository's own test values (`util/murmur/murmur_test.go`), each re-computed with
an independent transcription of the public-domain reference (`harness/cmd/corr/c05_murmur_vectors.py`).
Lengths 0-7, 13 (three blocks + tail), 43 (ten blocks + tail), 56 (fourteen blocks, no tail); seeds 0, 1, 1234,
0x9747b28c, 0x5082edee, 0xffffffff. -/
theorem murmur_vectors :
    (Murmur.hash [] 0).toNat = 0 ∧
    (Murmur.hash [] 1).toNat = 0x514e28b7 ∧
    (Murmur.hash [] 0xffffffff).toNat = 0x81f16f39 ∧
    (Murmur.hash [104,101,108,108,111] 0).toNat = 0x248bfa47 ∧
    (Murmur.hash [0xff,0xff,0xff,0xff] 0).toNat = 0x76293b50 ∧
    (Murmur.hash [0x21,0x43,0x65,0x87] 0).toNat = 0xf55b516b ∧
    (Murmur.hash [0x21,0x43,0x65,0x87] 0x5082edee).toNat = 0x2362f9de ∧
    (Murmur.hash [0x21,0x43,0x65] 0).toNat = 0x7e4a8634 ∧
    (Murmur.hash [0x21,0x43] 0).toNat = 0xa0f7b07a ∧
    (Murmur.hash [0x21] 0).toNat = 0x72661cf4 ∧
    (Murmur.hash [0,0,0,0] 0).toNat = 0x2362f9de ∧
    (Murmur.hash [0,0,0] 0).toNat = 0x85f0b427 ∧
    (Murmur.hash [0,0] 0).toNat = 0x30f4c306 ∧
    (Murmur.hash [0] 0).toNat = 0x514e28b7 ∧
    (Murmur.hash [97,97,97,97] 0x9747b28c).toNat = 0x5a97808a ∧
    (Murmur.hash [97,98,99] 0).toNat = 0xb3dd93fa ∧
    (Murmur.hash [116,101,115,116] 0).toNat = 0xba6bd213 ∧
    (Murmur.hash [116,101,115,116] 0x9747b28c).toNat = 0x704b81dc ∧
    (Murmur.hash [97,49] 0).toNat = 882153338 ∧
    (Murmur.hash [49,50,51,52,53,54] 0).toNat = 3210799800 ∧
    (Murmur.hash [97,98,99,100,101,102,103] 0).toNat = 2285673222 := by decide

set_option maxRecDepth 20000 in
/-- two and more full blocks, non-zero seeds ("Hello, world!", 13 bytes; the 43-byte pangram; the 56-byte SHA test string) -/
theorem murmur_vectors_long :
    (Murmur.hash [72,101,108,108,111,44,32,119,111,114,108,100,33] 1234).toNat = 0xfaf6cdb3 ∧
    (Murmur.hash [72,101,108,108,111,44,32,119,111,114,108,100,33] 0x9747b28c).toNat = 0x24884cba ∧
    (Murmur.hash [84,104,101,32,113,117,105,99,107,32,98,114,111,119,110,32,102,111,120,32,106,117,109,112,115,32,111,118,101,
      114,32,116,104,101,32,108,97,122,121,32,100,111,103] 0).toNat = 0x2e4ff723 ∧
    (Murmur.hash [84,104,101,32,113,117,105,99,107,32,98,114,111,119,110,32,102,111,120,32,106,117,109,112,115,32,111,118,101,
      114,32,116,104,101,32,108,97,122,121,32,100,111,103] 0x9747b28c).toNat = 0x2fa826cd ∧
    (Murmur.hash [97,98,99,100,98,99,100,101,99,100,101,102,100,101,102,103,101,102,103,104,102,103,104,105,103,104,105,106,
      104,105,106,107,105,106,107,108,106,107,108,109,107,108,109,110,108,109,110,111,109,110,111,112,110,111,112,113] 0).toNat
      = 0xee925b90 := by decide

/-- non-vacuity: a concrete configuration where the operator count does not divide the group count -/
example : ranges 7 3 = [⟨0,3⟩, ⟨3,5⟩, ⟨5,7⟩] ∧ lookupTable 7 3 = [0,0,0,1,1,2,2] := by decide
example : ranges 2 4 = [⟨0,1⟩, ⟨1,2⟩, ⟨2,2⟩, ⟨2,2⟩] := by decide

end Rxn.C05
