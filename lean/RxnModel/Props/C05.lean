import RxnModel.Proofs.KeySpace
/-!
# C05 — key routing agrees with state ownership for every configuration

Property theorems only. Models: `Model/KeySpace.lean`, `Model/Murmur.lean` (constants and schema bytes
come from `Generated/Facts.lean`, regenerated from /repo on every run).
-/
namespace Rxn.C05
open Rxn KeySpace

/-- ranges are contiguous, start at 0 and end at the key-group count: a partition of `[0, kgc)` -/
theorem ranges_partition (kgc n : Nat) (hn : 0 < n) :
    (ranges kgc n).length = n ∧
    (∀ i, i < n → (ranges kgc n)[i]? = some ⟨startOf kgc n i, startOf kgc n (i + 1)⟩) ∧
    startOf kgc n 0 = 0 ∧ startOf kgc n n = kgc ∧
    (∀ i j, i ≤ j → startOf kgc n i ≤ startOf kgc n j) :=
  ⟨ranges_length kgc n, fun i hi => ranges_get kgc n i hi, startOf_zero kgc n, startOf_n kgc n hn,
   fun _ _ h => startOf_mono kgc n h⟩

/-- sizes differ by at most one -/
theorem ranges_balanced (kgc n i j : Nat) :
    (startOf kgc n (i + 1) - startOf kgc n i) ≤ (startOf kgc n (j + 1) - startOf kgc n j) + 1 := by
  rw [startOf_step, startOf_step]
  split <;> split <;> omega

/-- every key group below the count lies in exactly one range -/
theorem group_in_unique_range (kgc n g : Nat) (hn : 0 < n) (hg : g < kgc) :
    ∃ i, i < n ∧ (startOf kgc n i ≤ g ∧ g < startOf kgc n (i + 1)) ∧
      ∀ j, (startOf kgc n j ≤ g ∧ g < startOf kgc n (j + 1)) → j = i := by
  obtain ⟨i, hi, h1, h2⟩ := exists_range kgc n g (by rw [startOf_n kgc n hn]; exact hg)
  refine ⟨i, hi, ⟨h1, h2⟩, ?_⟩
  intro j ⟨hj1, hj2⟩
  by_cases hlt : j < i
  · have := startOf_mono kgc n (show j + 1 ≤ i by omega); omega
  · by_cases hgt : i < j
    · have := startOf_mono kgc n (show i + 1 ≤ j by omega); omega
    · omega

/-- the router's table lookup (`RangeIndex`) returns the one range containing the key's group -/
theorem rangeIndex_unique (kgc n : Nat) (hk : 0 < kgc) (hk2 : kgc ≤ 65535) (hn : 0 < n) (key : Bytes) :
    let g := keyGroup kgc key
    let i := rangeIndex kgc n key
    i < n ∧ (∃ r, (ranges kgc n)[i]? = some r ∧ r.includes g = true) ∧
      ∀ j r, (ranges kgc n)[j]? = some r → r.includes g = true → j = i := by
  intro g i
  have hg : g < kgc := Nat.mod_lt _ hk
  obtain ⟨i0, hi0, ⟨h1, h2⟩, huniq⟩ := group_in_unique_range kgc n g hn hg
  have hget := ranges_get kgc n i0 hi0
  have hinc : (⟨startOf kgc n i0, startOf kgc n (i0 + 1)⟩ : KGRange).includes g = true := by
    simp [KGRange.includes, Gen.kgIncludes]; omega
  -- a non-empty range has an index not above its first key group
  have hi0g : i0 ≤ g := by
    have hs : startOf kgc n i0 = i0 * (kgc / n) + min i0 (kgc % n) := rfl
    by_cases hd : kgc / n = 0
    · have hm : kgc % n = kgc := by
        have := Nat.div_add_mod kgc n; rw [hd] at this; omega
      rw [hd, hm] at hs; omega
    · have : i0 ≤ i0 * (kgc / n) := Nat.le_mul_of_pos_right _ (Nat.pos_of_ne_zero hd)
      omega
  have hi : i = i0 := by
    show rangeIndex kgc n key = i0
    unfold rangeIndex lookupTable
    have hgm : keyGroup kgc key % 65536 = g := Nat.mod_eq_of_lt (by omega)
    rw [hgm, fillAll_hit 0 g (ranges kgc n) 0 _ 0 i0 _ (ranges_chain kgc n) hget hinc (by simp; exact hg)]
    simp; omega
  rw [hi]
  refine ⟨hi0, ⟨_, hget, hinc⟩, ?_⟩
  intro j r hj hr
  have hjn : j < n := by
    have := List.getElem?_eq_some_iff.mp hj
    obtain ⟨h, _⟩ := this; rw [ranges_length] at h; exact h
  rw [ranges_get kgc n j hjn] at hj
  cases hj
  simp [KGRange.includes, Gen.kgIncludes] at hr
  exact huniq j ⟨hr.1, hr.2⟩

theorem beNat_u16be (g : Nat) (hg : g < 65536) (rest : Bytes) :
    Bytes.beNat ((Bytes.u16be g ++ rest).take 2) = g := by
  simp [Bytes.u16be, Bytes.beNat]
  omega

/-- everything persisted for a key (state entries and timers) is owned by exactly the operator the router sends the key to -/
theorem owns_encoded (kgc n : Nat) (hk : 0 < kgc) (hk2 : kgc ≤ 65535) (hn : 0 < n)
    (k ns d : Bytes) (t j : Nat) (r : KGRange) (hj : (ranges kgc n)[j]? = some r) :
    (Keys.ownsKey r (Keys.dbKey kgc k ns d) = true ↔ rangeIndex kgc n k = j) ∧
    (Keys.ownsKey r (Keys.timerKey kgc k t) = true ↔ rangeIndex kgc n k = j) := by
  have hg : keyGroup kgc k < 65536 := by have := Nat.mod_lt (Murmur.hash k 0).toNat hk; unfold keyGroup; omega
  have ⟨_, ⟨r', hr', hinc'⟩, huniq⟩ := rangeIndex_unique kgc n hk hk2 hn k
  have h1 : Keys.ownsKey r (Keys.dbKey kgc k ns d) = r.includes (keyGroup kgc k) := by
    unfold Keys.ownsKey Keys.dbKey Keys.subjectKey
    simp only [List.append_assoc]
    rw [beNat_u16be _ hg]
  have h2 : Keys.ownsKey r (Keys.timerKey kgc k t) = r.includes (keyGroup kgc k) := by
    unfold Keys.ownsKey Keys.timerKey
    simp only [List.append_assoc]
    rw [beNat_u16be _ hg]
  rw [h1, h2]
  have key : r.includes (keyGroup kgc k) = true ↔ rangeIndex kgc n k = j := by
    constructor
    · intro h; exact (huniq j r hj h).symm
    · intro h; subst h; rw [hr'] at hj; cases hj; exact hinc'
  exact ⟨key, key⟩

/-- MurmurHash3-32 reference vectors (public smhasher vectors and the repository's own) -/
theorem murmur_vectors :
    (Murmur.hash [] 0).toNat = 0 ∧
    (Murmur.hash [] 1).toNat = 0x514e28b7 ∧
    (Murmur.hash [104,101,108,108,111] 0).toNat = 0x248bfa47 ∧
    (Murmur.hash [0xff,0xff,0xff,0xff] 0).toNat = 0x76293b50 ∧
    (Murmur.hash [0x21,0x43,0x65,0x87] 0).toNat = 0xf55b516b ∧
    (Murmur.hash [0x21,0x43,0x65] 0).toNat = 0x7e4a8634 ∧
    (Murmur.hash [0x21,0x43] 0).toNat = 0xa0f7b07a ∧
    (Murmur.hash [0x21] 0).toNat = 0x72661cf4 := by decide

/-- non-vacuity: a concrete configuration where the operator count does not divide the group count -/
example : ranges 7 3 = [⟨0,3⟩, ⟨3,5⟩, ⟨5,7⟩] ∧ lookupTable 7 3 = [0,0,0,1,1,2,2] := by decide
example : ranges 2 4 = [⟨0,1⟩, ⟨1,2⟩, ⟨2,2⟩, ⟨2,2⟩] := by decide

end Rxn.C05
