import RxnModel.Proofs.Search
import RxnModel.Proofs.Heap
import RxnModel.Proofs.Merge
import RxnModel.Proofs.ZipTree
import RxnModel.Proofs.Containers
import RxnModel.Proofs.PPQ
import RxnModel.Proofs.HeapRun
/-!
# C19 — in-memory ordered structures behave as ordered maps and priority queues

Property theorems only. Models: `Model/{Search,Heap,Merge,ZipTree,Containers}.lean`; helper lemmas in `Proofs/`.
`Gen.tblRangeKeyCompare`, `Gen.tblRangeContainsKey`, `Gen.c19KeepNewest`, `Gen.c19AscendingEntries` are regenerated
from /repo on every run.
-/
namespace Rxn.C19
open Rxn

/-! ## SearchUnique -/

/-- On input that is sorted without duplicates relative to the target (compare values − … − 0? + … +) the loop of
`SearchUnique` finds an index iff some element compares equal, and then exactly that index. -/
theorem searchUnique_correct {α : Type} (xs : Array α) (c : α → Int) (hs : Search.SignSorted xs c) :
    (∀ r, Search.searchUnique xs c = some r ↔ ∃ hr : r < xs.size, c xs[r] = 0) ∧
    (Search.searchUnique xs c = none ↔ ∀ i (hi : i < xs.size), c xs[i] ≠ 0) := by
  refine ⟨Search.searchUnique_iff xs c hs, Search.searchUnique_complete xs c hs, ?_⟩
  intro h
  cases hq : Search.searchUnique xs c with
  | none => rfl
  | some q =>
    obtain ⟨hq1, hq2⟩ := Search.searchUnique_sound xs c hs q hq
    exact absurd hq2 (h q hq1)

/-- strictly ascending byte-string keys with `bytes.Compare`: found iff present, at its index -/
theorem searchBytes_correct (xs : Array Bytes) (t : Bytes)
    (hasc : ∀ i j (_ : i < j) (hj : j < xs.size), Bytes.cmp (xs[i]'(by omega)) xs[j] = .lt) (r : Nat) :
    Search.searchBytes xs t = some r ↔ ∃ hr : r < xs.size, xs[r] = t := by
  unfold Search.searchBytes
  rw [Search.searchUnique_iff xs _ (Search.signSorted_bytes xs t hasc)]
  constructor
  · rintro ⟨hr, h⟩; exact ⟨hr, Search.cmpInt_zero.mp h⟩
  · rintro ⟨hr, h⟩; exact ⟨hr, Search.cmpInt_zero.mpr h⟩

/-- the LSM level lookup: on a level of disjoint ascending table ranges `SearchUnique` with the code's
`RangeKeyCompare` returns a table iff some table's range contains the key (`RangeContainsKey`), and that one -/
theorem searchTables_correct (ts : Array (Bytes × Bytes)) (key : Bytes) (h : Search.LevelOk ts) :
    (∀ r, Search.searchTables ts key = some r ↔
      ∃ hr : r < ts.size, Gen.tblRangeContainsKey ts[r].1 ts[r].2 key = true) ∧
    (Search.searchTables ts key = none ↔
      ∀ i (hi : i < ts.size), Gen.tblRangeContainsKey ts[i].1 ts[i].2 key = false) := by
  have hs := Search.signSorted_level ts key h
  obtain ⟨h1, h2⟩ := searchUnique_correct ts _ hs
  unfold Search.searchTables
  constructor
  · intro r
    rw [h1 r]
    constructor
    · rintro ⟨hr, hh⟩; exact ⟨hr, Search.rangeKeyCompare_zero.mp hh⟩
    · rintro ⟨hr, hh⟩; exact ⟨hr, Search.rangeKeyCompare_zero.mpr hh⟩
  · rw [h2]
    constructor
    · intro hh i hi
      cases hc : Gen.tblRangeContainsKey ts[i].1 ts[i].2 key with
      | false => rfl
      | true => exact absurd (Search.rangeKeyCompare_zero.mpr hc) (hh i hi)
    · intro hh i hi hz
      have := Search.rangeKeyCompare_zero.mp hz
      rw [hh i hi] at this; cases this

/-- non-vacuity and the D1 regression: `SearchUnique([0,2], 0)` is found at index 0 -/
example : Search.searchBytes #[[0], [2]] [0] = some 0 := by
  refine (searchBytes_correct #[[0], [2]] [0] ?_ 0).mpr ⟨by decide, rfl⟩
  intro i j hij hj
  have : i = 0 ∧ j = 1 := by simp at hj; omega
  obtain ⟨rfl, rfl⟩ := this
  simp [Bytes.cmp]

/-- non-vacuity of `searchTables_correct`: a level of two tables is `LevelOk` -/
example : Search.LevelOk #[([1], [2]), ([5], [6])] := by
  constructor
  · intro i h
    have : i = 0 ∨ i = 1 := by simp at h; omega
    rcases this with rfl | rfl <;> simp [Bytes.cmp]
  · intro i j hij hj
    have : i = 0 ∧ j = 1 := by simp at hj; omega
    obtain ⟨rfl, rfl⟩ := this
    simp [Bytes.cmp]

/-! ## Heap -/

/-- `Push` keeps the heap order and adds exactly the pushed element -/
theorem heap_push {α : Type} {lt : α → α → Bool} (sw : Heap.StrictWeak lt) (a : Array α) (x : α)
    (h : Heap.Inv lt a) :
    Heap.Inv lt (Heap.push lt a x) ∧ (Heap.push lt a x).toList.Perm (x :: a.toList) :=
  ⟨Heap.push_inv sw a x h, Heap.push_perm lt a x⟩

/-- `Pop` returns a minimum of the contents, removes exactly it and keeps the heap order; it fails only when empty -/
theorem heap_pop_min {α : Type} {lt : α → α → Bool} (sw : Heap.StrictWeak lt) (a : Array α) (h : Heap.Inv lt a) :
    (Heap.pop lt a = none ↔ a.size = 0) ∧
    ∀ x a', Heap.pop lt a = some (x, a') →
      Heap.Inv lt a' ∧ a.toList.Perm (x :: a'.toList) ∧ ∀ y ∈ a.toList, lt y x = false :=
  ⟨Heap.pop_none lt a, fun x a' hp => Heap.pop_spec sw a h x a' hp⟩

/-- `Fix(i)` restores the heap order when only the element at `i` changed (any new value), without changing
the contents -/
theorem heap_fix_restores {α : Type} {lt : α → α → Bool} (sw : Heap.StrictWeak lt) (a : Array α) (i : Nat)
    (hi : i < a.size) (h : Heap.Inv lt a) (v : α) :
    Heap.Inv lt (Heap.fix lt (a.set i v) i) ∧ (Heap.fix lt (a.set i v) i).toList.Perm (a.set i v).toList := by
  refine ⟨Heap.fix_inv sw _ i (by simpa using hi) ?_, Heap.fix_perm lt _ i⟩
  constructor
  · intro j hji hpi hj0 x y hx hy
    rw [Array.getElem?_set] at hx hy
    rw [if_neg (fun e => hji e.symm)] at hy
    rw [if_neg (fun e => hpi e.symm)] at hx
    exact h j hj0 x y hx hy
  · intro hi0 c hc0 hcp x y hx hy
    rw [Array.getElem?_set] at hx hy
    rw [if_neg (by omega)] at hx hy
    have hcs := Heap.lt_size_of_get? hy
    exact Heap.le_trans' sw (h i hi0 x a[i] hx (Heap.get?_some hi)) (h c hc0 a[i] y (by rw [hcp]; exact Heap.get?_some hi) hy)

/-- the root of a heap-ordered array is a minimum (what `Peek` returns) -/
theorem heap_peek_min {α : Type} {lt : α → α → Bool} (sw : Heap.StrictWeak lt) (a : Array α) (h : Heap.Inv lt a)
    (x : α) (hx : Heap.peek a = some x) : ∀ y ∈ a.toList, lt y x = false := by
  intro y hy
  obtain ⟨k, hk, hky⟩ := List.getElem_of_mem hy
  simp only [Array.length_toList] at hk
  refine Heap.root_min sw a h x hx k y ?_
  rw [Heap.get?_some hk]
  simp only [Array.getElem_toList] at hky
  rw [hky]

/-- non-vacuity: the priority order used by the harness is a strict weak order; the empty heap is ordered -/
example : Heap.StrictWeak HeapItems.ilt := by
  constructor
  · intro a b h; simp only [HeapItems.ilt, decide_eq_true_eq, decide_eq_false_iff_not] at *; omega
  · intro a b c h1 h2; simp only [HeapItems.ilt, decide_eq_false_iff_not] at *; omega
example : Heap.Inv HeapItems.ilt #[] := by intro j _ x y hx _; simp at hx

/-! ## MergeSorted and Merge -/

/-- `bytes.Compare` on a key projection (the code's `AscendingEntries`) is a total preorder -/
theorem ascendingEntries_ok {α : Type} (keyOf : α → Bytes) : Merge.CmpOK (Gen.c19AscendingEntries keyOf) := by
  constructor
  · intro a b
    simp only [Gen.c19AscendingEntries]
    rw [Search.cmpInt_neg, Search.cmpInt_pos]
    exact Bytes.cmp_lt_iff_gt
  · intro a b c h1 h2
    simp only [Gen.c19AscendingEntries] at *
    rw [Search.cmpInt_nonpos] at *
    intro h3
    cases hab : Bytes.cmp (keyOf a) (keyOf b) with
    | gt => exact h1 hab
    | eq =>
      rw [Bytes.cmp_eq_iff.mp hab] at h3; exact h2 h3
    | lt =>
      have := Search.cmp_lt_le_trans hab h2
      rw [this] at h3; cases h3

/-- `iteru.MergeSorted`: for sorted inputs the output is sorted and is a permutation of all input items
(nothing lost, nothing duplicated); the statement does not depend on how the heap breaks ties -/
theorem mergeSorted_sorted_perm {α : Type} {cmp : α → α → Int} (hc : Merge.CmpOK cmp) (runs : List (List α))
    (hsorted : ∀ r ∈ runs, r.Pairwise (fun a b => cmp a b ≤ 0)) :
    (Merge.mergeSorted cmp runs).Perm runs.flatten ∧
    (Merge.mergeSorted cmp runs).Pairwise (fun a b => cmp a b ≤ 0) :=
  Merge.mergeSorted_spec hc runs hsorted

/-- `mergesort.Merge` with the code's `keepNewest`: for sorted inputs it does not panic; the output is strictly
ascending (one item per key), contains only input items, and every input item is represented by an output item
with an equal key and a sequence number at least as high (the newest version wins) -/
theorem merge_keepNewest {α : Type} [DecidableEq α] {cmp : α → α → Int} (hc : Merge.CmpOK cmp) (seqOf : α → Nat)
    (runs : List (List α)) (hsorted : ∀ r ∈ runs, r.Pairwise (fun a b => cmp a b ≤ 0)) :
    ∃ out, Merge.merge cmp (Gen.c19KeepNewest seqOf) runs = some out ∧
      out.Pairwise (fun a b => cmp a b < 0) ∧
      (∀ o ∈ out, o ∈ runs.flatten) ∧
      (∀ y ∈ runs.flatten, ∃ o ∈ out, cmp o y = 0 ∧ seqOf y ≤ seqOf o) := by
  obtain ⟨hperm, hs⟩ := Merge.mergeSorted_spec hc runs hsorted
  obtain ⟨out, h1, h2, h3, h4⟩ := Merge.resolve_spec hc seqOf _ hs
  refine ⟨out, h1, h2, fun o ho => hperm.subset (h3 o ho), fun y hy => h4 y (hperm.symm.subset hy)⟩

/-- `kv.MergeEntries` (`Merge` with `AscendingEntries` and `keepNewest`) on runs with ascending keys: for every key
that occurs in some run the output holds exactly one entry of that key, and it is one with the highest sequence number -/
theorem mergeEntries_newest_wins (runs : List (List Merge.Entry))
    (hsorted : ∀ r ∈ runs, r.Pairwise (fun a b => Gen.c19AscendingEntries Merge.Entry.key a b ≤ 0)) :
    ∃ out, Merge.merge (Gen.c19AscendingEntries Merge.Entry.key) (Gen.c19KeepNewest Merge.Entry.seq) runs = some out ∧
      out.Pairwise (fun a b => Bytes.cmp a.key b.key = .lt) ∧
      (∀ o ∈ out, o ∈ runs.flatten) ∧
      (∀ y ∈ runs.flatten, ∃ o ∈ out, o.key = y.key ∧ y.seq ≤ o.seq) := by
  obtain ⟨out, h1, h2, h3, h4⟩ := merge_keepNewest (ascendingEntries_ok Merge.Entry.key) Merge.Entry.seq runs hsorted
  refine ⟨out, h1, ?_, h3, ?_⟩
  · exact h2.imp (fun h => Search.cmpInt_neg.mp h)
  · intro y hy
    obtain ⟨o, ho, hk, hsq⟩ := h4 y hy
    exact ⟨o, ho, Search.cmpInt_zero.mp hk, hsq⟩

/-- non-vacuity: two sorted runs sharing a key satisfy the hypothesis -/
example : ∀ r ∈ [[(⟨[1], 1, []⟩ : Merge.Entry), ⟨[2], 5, []⟩], [⟨[1], 3, []⟩]],
    r.Pairwise (fun a b => Gen.c19AscendingEntries Merge.Entry.key a b ≤ 0) := by
  intro r hr
  simp only [List.mem_cons, List.mem_nil_iff, or_false] at hr
  rcases hr with rfl | rfl <;> simp [Gen.c19AscendingEntries, cmpInt, Bytes.cmp]

/-! ## Zip tree -/

/-- The zip tree refines a strictly ascending association list **for every outcome of the random ranks**: after any
sequence of `Put`s (each with an arbitrary rank) the tree is a search tree whose in-order contents equal the list
specification (so they do not depend on the ranks), `Get` is list lookup, `AscendPrefix(p)` yields exactly the
entries with prefix `p` in key order, and a further `Put` returns the value the list held. -/
theorem zipTree_refines (ops : List (Bytes × Bytes × Nat)) :
    ZipTree.BST (ZipTree.run ops) ∧
    ZipTree.toList (ZipTree.run ops) = ZipTree.specRun ops ∧
    (∀ k, ZipTree.get k (ZipTree.run ops) = ZipTree.specGet k (ZipTree.specRun ops)) ∧
    (∀ p, ZipTree.ascendPrefix (ZipTree.run ops) p =
      (ZipTree.specRun ops).filter (fun e => Bytes.hasPrefix e.1 p)) ∧
    (∀ k v rank, (ZipTree.put k v rank (ZipTree.run ops)).1 = ZipTree.specGet k (ZipTree.specRun ops)) := by
  have haux := ZipTree.run_aux ops .nil [] (by simp [ZipTree.BST, ZipTree.Sorted, ZipTree.toList]) rfl
  have hb : ZipTree.BST (ZipTree.run ops) := haux.1
  have hl : ZipTree.toList (ZipTree.run ops) = ZipTree.specRun ops := haux.2
  refine ⟨hb, hl, ?_, ?_, ?_⟩
  · intro k; rw [ZipTree.get_eq k _ hb]; exact congrArg _ hl
  · intro p; rw [ZipTree.ascendPrefix_eq _ hb p]; exact congrArg _ hl
  · intro k v rank; rw [(ZipTree.put_spec k v rank _ hb).1]; exact congrArg _ hl

/-- the contents after the same `Put`s are the same for any two rank sequences -/
theorem zipTree_rank_independent (ops₁ ops₂ : List (Bytes × Bytes × Nat))
    (h : ops₁.map (fun o => (o.1, o.2.1)) = ops₂.map (fun o => (o.1, o.2.1))) :
    ZipTree.toList (ZipTree.run ops₁) = ZipTree.toList (ZipTree.run ops₂) := by
  rw [(zipTree_refines ops₁).2.1, (zipTree_refines ops₂).2.1]
  have key : ∀ (ops : List (Bytes × Bytes × Nat)) (l : List (Bytes × Bytes)),
      ops.foldl (fun l o => ZipTree.specPut o.1 o.2.1 l) l =
      (ops.map (fun o => (o.1, o.2.1))).foldl (fun l o => ZipTree.specPut o.1 o.2 l) l := by
    intro ops
    induction ops with
    | nil => intro l; rfl
    | cons o ops ih => intro l; simp only [List.foldl_cons, List.map_cons]; exact ih _
  unfold ZipTree.specRun
  rw [key ops₁, key ops₂, h]

/-- the specification list itself is an ordered map: strictly ascending keys, last write wins -/
theorem specPut_is_map (k v : Bytes) (l : List (Bytes × Bytes)) (h : ZipTree.Sorted l) :
    ZipTree.Sorted (ZipTree.specPut k v l) ∧
    ZipTree.specGet k (ZipTree.specPut k v l) = some v ∧
    ∀ k', k' ≠ k → ZipTree.specGet k' (ZipTree.specPut k v l) = ZipTree.specGet k' l := by
  refine ⟨ZipTree.specPut_sorted k v l h, ?_, ?_⟩
  · induction l with
    | nil => simp [ZipTree.specPut, ZipTree.specGet]
    | cons x xs ih =>
      obtain ⟨k', v'⟩ := x
      unfold ZipTree.Sorted at h
      rw [List.pairwise_cons] at h
      simp only [ZipTree.specPut]
      cases hc : Bytes.cmp k k' with
      | lt => simp [ZipTree.specGet]
      | eq => simp [ZipTree.specGet]
      | gt =>
        have : (k' == k) = false := by
          simp only [beq_eq_false_iff_ne, ne_eq]; exact ZipTree.cmp_ne_of_lt (ZipTree.cmp_lt_of_gt hc)
        simp only [ZipTree.specGet, this, Bool.false_eq_true, if_false]
        exact ih h.2
  · intro k' hk
    induction l with
    | nil =>
      have : (k == k') = false := by simp only [beq_eq_false_iff_ne, ne_eq]; exact fun e => hk e.symm
      simp [ZipTree.specPut, ZipTree.specGet, this]
    | cons x xs ih =>
      obtain ⟨k2, v2⟩ := x
      unfold ZipTree.Sorted at h
      rw [List.pairwise_cons] at h
      have hkk : (k == k') = false := by simp only [beq_eq_false_iff_ne, ne_eq]; exact fun e => hk e.symm
      simp only [ZipTree.specPut]
      cases hc : Bytes.cmp k k2 with
      | lt => simp [ZipTree.specGet, hkk]
      | eq =>
        have hk2 : k = k2 := Bytes.cmp_eq_iff.mp hc
        have : (k2 == k') = false := by rw [← hk2]; exact hkk
        simp [ZipTree.specGet, hkk, this]
      | gt =>
        simp only [ZipTree.specGet]
        rw [ih h.2]

/-- non-vacuity: three puts with tied ranks, one of them a replacement -/
example : ZipTree.toList (ZipTree.run [([98], [1], 0), ([97], [2], 0), ([98], [3], 0)]) = [([97], [2]), ([98], [3])] := by
  decide

/-! ## SortedCache, Set, SortedMap -/

/-- After any sequence of `Push` / `Pop` / `PopLast` / `Delete` the cache contents are strictly ascending (no
duplicates) and the byte counter equals the total length of the cached values, so `IsFull` compares the true size
with the limit. (D10 regression: a re-`Push` of a cached value leaves the counter unchanged.) -/
theorem sortedCache_accounting (maxSize : Nat) (ops : List SortedCache.Op) :
    let c := SortedCache.run maxSize ops
    c.items.Pairwise (fun a b => Bytes.cmp a b = .lt) ∧
    c.byteSize = (c.items.map List.length).sum ∧
    (SortedCache.isFull c = true ↔ (c.items.map List.length).sum ≥ c.maxSize) := by
  intro c
  have h := SortedCache.run_inv maxSize ops
  refine ⟨h.sorted, h.bytes, ?_⟩
  simp only [SortedCache.isFull, decide_eq_true_eq]
  rw [h.bytes]; rfl

/-- `Pop` returns the minimum and `PopLast` the maximum of the cached values -/
theorem sortedCache_pop_extremes (c : SortedCache.Cache) (h : SortedCache.CInv c) :
    (∀ x, (SortedCache.pop c).1 = some x → ∀ y ∈ c.items, Bytes.cmp x y ≠ .gt) ∧
    (∀ x, (SortedCache.popLast c).1 = some x → ∀ y ∈ c.items, Bytes.cmp y x ≠ .gt) := by
  constructor
  · intro x hx y hy
    unfold SortedCache.pop at hx
    cases hi : c.items with
    | nil => rw [hi] at hx; cases hx
    | cons a as =>
      rw [hi] at hx hy
      simp only [Option.some.injEq] at hx
      have hs := h.sorted; rw [hi] at hs
      simp only [List.mem_cons] at hy
      rcases hy with rfl | hy
      · rw [hx, Bytes.cmp_self]; simp
      · rw [← hx, (List.pairwise_cons.mp hs).1 y hy]; simp
  · intro x hx y hy
    unfold SortedCache.popLast at hx
    cases hl : c.items.getLast? with
    | none => rw [hl] at hx; cases hx
    | some z =>
      rw [hl] at hx
      simp only [Option.some.injEq] at hx
      obtain ⟨ys, hys⟩ := List.getLast?_eq_some_iff.mp hl
      have hs := h.sorted; rw [hys] at hs hy
      simp only [List.mem_append, List.mem_singleton] at hy
      rcases hy with hy | rfl
      · rw [← hx, (List.pairwise_append.mp hs).2.2 y hy z (by simp)]; simp
      · rw [hx, Bytes.cmp_self]; simp

/-- non-vacuity / D10 regression: five pushes of one 2-byte value into a 4-byte cache -/
example : (SortedCache.run 4 (List.replicate 5 (.push [97, 97]))).byteSize = 2 ∧
    SortedCache.isFull (SortedCache.run 4 (List.replicate 5 (.push [97, 97]))) = false := by decide

/-- `ds.Set`: membership test and slice agree, the slice has no duplicates, `Add` appends exactly the new
elements in first-occurrence order, `Without` keeps the order of the rest, `Diff` holds exactly the difference -/
theorem oset_refines (s : OSet.S) (h : OSet.SInv s) :
    (∀ v, OSet.has s v = true ↔ v ∈ s.l) ∧
    (∀ v, OSet.SInv (OSet.add1 s v) ∧ (OSet.add1 s v).l = if v ∈ s.l then s.l else s.l ++ [v]) ∧
    (∀ vs, OSet.SInv (OSet.add s vs) ∧ ∀ v, v ∈ (OSet.add s vs).l ↔ v ∈ s.l ∨ v ∈ vs) ∧
    (∀ vs, OSet.SInv (OSet.without s vs) ∧ (OSet.without s vs).l = s.l.filter (fun e => !vs.contains e)) ∧
    (∀ s2, OSet.SInv s2 → OSet.SInv (OSet.diff s s2) ∧
      ∀ v, v ∈ (OSet.diff s s2).l ↔ v ∈ s.l ∧ v ∉ s2.l) := by
  refine ⟨OSet.has_iff s h, fun v => ⟨OSet.add1_inv s v h, OSet.add1_slice s v h⟩,
    fun vs => ⟨OSet.add_inv s vs h, OSet.foldl_add1_mem vs s h⟩, fun vs => ⟨OSet.without_inv s vs h, rfl⟩, ?_⟩
  intro s2 h2
  refine ⟨OSet.diff_inv s s2, ?_⟩
  intro v
  unfold OSet.diff
  rw [OSet.foldl_add1_mem _ {} ⟨by simp, by simp⟩ v]
  simp only [List.mem_filter, Bool.not_eq_true', List.not_mem_nil, false_or]
  constructor
  · rintro ⟨h3, h4⟩
    refine ⟨h3, fun hm => ?_⟩
    rw [(OSet.has_iff s2 h2 v).mpr hm] at h4; cases h4
  · rintro ⟨h3, h4⟩
    refine ⟨h3, ?_⟩
    cases hh : OSet.has s2 v with
    | false => rfl
    | true => exact absurd ((OSet.has_iff s2 h2 v).mp hh) h4

example : OSet.SInv {} := ⟨by simp, by simp⟩

/-- `ds.SortedMap` refines a map with ascending key listing: `Set` is last-write-wins and reports new keys,
`Keys()` is ascending, duplicate-free and holds exactly the keys of the map, `Delete` removes exactly its key
and reports whether it was present; the slice/map agreement is an invariant of all operations -/
theorem sortedMap_refines (s : SortedMap.M) (h : SortedMap.MInv s) :
    (∀ k v, SortedMap.MInv (SortedMap.set s k v).2 ∧ (SortedMap.set s k v).1 = !(SortedMap.has s k) ∧
      ∀ k', SortedMap.get (SortedMap.set s k v).2 k' = if k' = k then some v else SortedMap.get s k') ∧
    ((SortedMap.keys s).1.Pairwise (fun a b => a < b) ∧
      (∀ k, k ∈ (SortedMap.keys s).1 ↔ SortedMap.has s k = true) ∧ SortedMap.MInv (SortedMap.keys s).2) ∧
    (∀ k, SortedMap.MInv (SortedMap.delete s k).2 ∧ (SortedMap.delete s k).1 = SortedMap.has s k ∧
      ∀ k', SortedMap.get (SortedMap.delete s k).2 k' = if k' = k then none else SortedMap.get s k') := by
  refine ⟨fun k v => ⟨SortedMap.set_inv s k v h, rfl, SortedMap.get_set s k v⟩, ⟨?_, ?_, SortedMap.ensureSorted_inv s h⟩,
    fun k => ⟨SortedMap.delete_inv s k h, (SortedMap.delete_spec s k h).1, (SortedMap.delete_spec s k h).2⟩⟩
  · obtain ⟨h1, h2⟩ := SortedMap.keys_sorted s
    have hnd : (SortedMap.keys s).1.Nodup := h2.nodup_iff.mpr h.nodup
    have hboth := h1.and hnd
    exact hboth.imp (fun hab => by omega)
  · intro k
    rw [(SortedMap.keys_sorted s).2.mem_iff]
    exact h.same k

example : SortedMap.MInv {} := ⟨by simp, by intro k; simp [SortedMap.lookup]⟩

/-! ## PartitionedPriorityQueue -/

/-- After `NewPartitionedPriorityQueue` over any (sorted, possibly non-empty) partitions and any sequence of
`Push` / `Delete` / `Pop`: the heap of partitions holds every partition exactly once and is ordered by the
partitions' current heads; **the index every partition stored through the index assigner is its position in the
heap** (so the code's `heap.Fix(partition.Index())` fixes the right slot); `Pop` returns `Peek`'s item and removes
exactly it; `Peek` is a global minimum over all partitions (an item of some partition, no queued item has a lower
priority) and reports "empty" exactly when every partition is empty. -/
theorem ppq_peek_is_global_min (parts : Array (List PPQ.Item)) (ops : List PPQ.Op)
    (hs : ∀ p, (parts.getD p []).Pairwise (fun a b => a.prio ≤ b.prio)) :
    let q := PPQ.runFrom parts ops
    PPQ.PInv q ∧
    (∀ p, p < q.parts.size → 0 ≤ q.idx p ∧ q.heap[(q.idx p).toNat]? = some p) ∧
    ((PPQ.pop q).1 = PPQ.peek q ∧ ∀ x, PPQ.peek q = some x → ∃ p, (q.parts.getD p []).head? = some x ∧
      (PPQ.pop q).2.parts = q.parts.setIfInBounds p (q.parts.getD p []).tail) ∧
    (∀ x, PPQ.peek q = some x →
      (∃ p, (q.parts.getD p []).head? = some x) ∧ ∀ p, ∀ y ∈ q.parts.getD p [], x.prio ≤ y.prio) ∧
    (PPQ.peek q = none → ∀ p, q.parts.getD p [] = []) ∧
    (PPQ.isEmpty q = true ↔ ∀ p, q.parts.getD p [] = []) := by
  intro q
  obtain ⟨hinv, hsorted⟩ := PPQ.runFrom_inv parts ops hs
  have hnone : PPQ.peek q = none → ∀ p, q.parts.getD p [] = [] := by
    intro hx p
    by_cases hp : p < q.parts.size
    · have := PPQ.peek_none q hinv hx p hp
      unfold PPQ.headOf at this
      cases hl : q.parts.getD p [] with
      | nil => rfl
      | cons a as => rw [hl] at this; cases this
    · rw [Array.getD_eq_getD_getElem?, Array.getElem?_eq_none (by omega)]; rfl
  have hempty : PPQ.isEmpty q = (PPQ.peek q).isNone := by
    unfold PPQ.isEmpty PPQ.peek
    cases Heap.peek q.heap <;> rfl
  refine ⟨hinv, ?_, PPQ.pop_spec q, ?_, hnone, ?_⟩
  · intro p hp
    obtain ⟨h0, hi, hip, _⟩ := PPQ.index_spec q.heap q.idx q.parts.size p hinv.hperm hinv.hidx hp
    exact ⟨h0, by rw [Heap.get?_some hi, hip]⟩
  · intro x hx
    constructor
    · unfold PPQ.peek at hx
      cases hr : Heap.peek q.heap with
      | none => rw [hr] at hx; cases hx
      | some r => rw [hr] at hx; exact ⟨r, hx⟩
    · intro p y hy
      by_cases hp : p < q.parts.size
      · cases hl : q.parts.getD p [] with
        | nil => rw [hl] at hy; cases hy
        | cons a as =>
          have h1 := PPQ.peek_min q hinv x hx p hp a (by unfold PPQ.headOf; rw [hl]; rfl)
          have h2 := hsorted p
          rw [hl] at h2 hy
          simp only [List.mem_cons] at hy
          rcases hy with rfl | hy
          · exact h1
          · have := (List.pairwise_cons.mp h2).1 y hy; omega
      · rw [Array.getD_eq_getD_getElem?, Array.getElem?_eq_none (by omega)] at hy; cases hy
  · rw [hempty]
    constructor
    · intro h; exact hnone (by simpa using h)
    · intro h
      cases hx : PPQ.peek q with
      | none => rfl
      | some x =>
        exfalso
        unfold PPQ.peek at hx
        cases hr : Heap.peek q.heap with
        | none => rw [hr] at hx; cases hx
        | some r =>
          rw [hr] at hx
          simp only [PPQ.headOf] at hx
          rw [h r] at hx; cases hx

/-- non-vacuity: after one `Push` the premise `Peek = some _` of the minimality clause is met -/
example : PPQ.peek (PPQ.run 2 [.push ⟨5, 1, 7⟩]) ≠ none := by
  intro h
  have hs : ∀ p, ((Array.replicate 2 ([] : List PPQ.Item)).getD p []).Pairwise (fun a b => a.prio ≤ b.prio) := by
    intro p
    rw [Array.getD_eq_getD_getElem?]
    by_cases hp : p < 2 <;> simp [hp]
  have h1 := (ppq_peek_is_global_min (Array.replicate 2 []) [.push ⟨5, 1, 7⟩] hs).2.2.2.2.1 h 1
  have h2 : (PPQ.run 2 [.push ⟨5, 1, 7⟩]).parts.getD 1 [] = [⟨5, 1, 7⟩] := by
    simp [PPQ.run, PPQ.runFrom, PPQ.step, PPQ.new, PPQ.push, PPQ.insertSorted]
  have h3 : (PPQ.run 2 [.push ⟨5, 1, 7⟩]).parts.getD 1 [] = [] := h1
  rw [h2] at h3
  cases h3

/-! ## Whole operation sequences (all histories) -/

/-- `ds.Heap` with an index assigner over every sequence of `Push` (of an item not currently in the heap) / `Pop` /
"change an item's priority, then `Fix(item.index)`", from the empty heap: the array stays heap-ordered; **every
item's stored index is its position and every item outside the heap (never pushed, or popped) has index `-1`**;
and the run refines a multiset reference: every `Pop` returns a minimum-priority item of the reference contents,
which then lose exactly that item, and fails only on empty contents. -/
theorem heap_run_refines (ops : List HeapItems.Op) (hv : HeapItems.Valid {} ops) :
    let h := HeapItems.run ops
    Heap.Inv HeapItems.ilt h.data ∧
    (∀ i (hi : i < h.data.size), h.idx h.data[i].id = (i : Int)) ∧
    (∀ id, (∀ i (hi : i < h.data.size), h.data[i].id ≠ id) → h.idx id = -1) ∧
    HeapItems.Accepts [] ops (HeapItems.trace {} ops) := by
  intro h
  have hi := HeapItems.run_inv_from {} HeapItems.hinv_empty ops hv
  have ha := HeapItems.trace_accepted {} HeapItems.hinv_empty ops hv
  exact ⟨hi.ord, hi.ok.pos, hi.out, by simpa using ha⟩

/-- non-vacuity: a valid run with equal priorities, a re-prioritisation and pops -/
example : HeapItems.Valid {} [.push 1 1, .push 1 2, .fix 1 5, .pop, .pop, .pop] := by
  simp [HeapItems.Valid, HeapItems.opValid, HeapItems.step, HeapItems.push]
  intro i hi
  have hperm := (HeapItems.push_step {} HeapItems.hinv_empty 1 1 (by intro i hi; simp at hi)).2
  have hm := hperm.subset (Array.getElem_mem_toList hi)
  simp at hm
  rw [hm]; decide

/-- the zip tree over every sequence of `Put` (any rank), in-place update of a retained node (`Get`, change the value,
`Put` the same node) and replacement of every yielded key from inside an `AscendPrefix` scan: search-tree order and
contents equal to the list reference, for every rank outcome -/
theorem zipTree_refines_ops (ops : List ZipTree.Op) :
    let t := ZipTree.runOps ops
    ZipTree.BST t ∧ ZipTree.toList t = ZipTree.specRunOps ops ∧
    (∀ k, ZipTree.get k t = ZipTree.specGet k (ZipTree.specRunOps ops)) ∧
    (∀ p, ZipTree.ascendPrefix t p = (ZipTree.specRunOps ops).filter (fun e => Bytes.hasPrefix e.1 p)) ∧
    (∀ k v, (ZipTree.reput k v t).1 = (ZipTree.specGet k (ZipTree.specRunOps ops)).map (fun _ => v)) ∧
    (∀ p v, (ZipTree.ascendPut p v t).1 = (ZipTree.specRunOps ops).filter (fun e => Bytes.hasPrefix e.1 p)) := by
  intro t
  obtain ⟨hb, hl⟩ := ZipTree.runOps_spec ops
  refine ⟨hb, hl, ?_, ?_, ?_, ?_⟩
  · intro k; rw [ZipTree.get_eq k _ hb]; exact congrArg _ hl
  · intro p; rw [ZipTree.ascendPrefix_eq _ hb p]; exact congrArg _ hl
  · intro k v; rw [(ZipTree.reput_spec k v _ hb).1]; exact congrArg _ (congrArg _ hl)
  · intro p v; rw [(ZipTree.ascendPut_spec p v _ hb).1]; exact congrArg _ hl

/-- `ds.Set` over every sequence of `Add`/`Added` and `Without`: the slice equals the insertion-ordered,
duplicate-free reference list, and `Has` is membership in it -/
theorem oset_run_refines (ops : List OSet.Op) :
    (OSet.run ops).l = OSet.specRun ops ∧ (OSet.run ops).l.Nodup ∧
    ∀ v, OSet.has (OSet.run ops) v = true ↔ v ∈ OSet.specRun ops := by
  obtain ⟨hi, hl⟩ := OSet.run_spec ops
  exact ⟨hl, hi.nodup, fun v => by rw [OSet.has_iff _ hi v, hl]⟩

/-- `ds.SortedMap` over every sequence of `Set` / `Delete` / sorting reads: `Get` agrees with the finite-map
reference; `Keys()` is strictly ascending and holds exactly the reference's keys; `All()` lists exactly the entries
in that order and `Values()` their values -/
theorem sortedMap_run_refines (ops : List SortedMap.Op) :
    let s := SortedMap.run ops
    (∀ k, SortedMap.get s k = SortedMap.specRun ops k) ∧
    (SortedMap.keys s).1.Pairwise (fun a b => a < b) ∧
    (∀ k, k ∈ (SortedMap.keys s).1 ↔ (SortedMap.specRun ops k).isSome = true) ∧
    (SortedMap.all s).1.map Prod.fst = (SortedMap.keys s).1 ∧
    (∀ e ∈ (SortedMap.all s).1, SortedMap.specRun ops e.1 = some e.2) ∧
    (SortedMap.values s).1 = (SortedMap.all s).1.map Prod.snd ∧
    SortedMap.size s = (SortedMap.keys s).1.length := by
  intro s
  obtain ⟨hi, hg⟩ := SortedMap.run_spec ops
  obtain ⟨_, ⟨hk1, hk2, _⟩, _⟩ := sortedMap_refines s hi
  obtain ⟨ha1, ha2, ha3⟩ := SortedMap.all_spec s hi
  refine ⟨hg, hk1, ?_, ha1, ?_, ha3, ?_⟩
  · intro k; rw [hk2 k, ← hg k]; rfl
  · intro e he; rw [← hg e.1]; exact ha2 e he
  · exact ((SortedMap.keys_sorted s).2.length_eq).symm

/-! ## Any `pick`, and consumers that stop early -/

/-- `mergesort.Merge` with **any** `pick` that returns one of its two arguments (first, second, newest, …) on sorted
inputs: no panic; strictly ascending output (one item per key); only input items; every input key is represented.
Which of several equal-key items survives is `pick`'s choice along the heap's pop order. -/
theorem merge_any_pick {α : Type} [DecidableEq α] {cmp : α → α → Int} (hc : Merge.CmpOK cmp) (pick : α → α → α)
    (hpick : ∀ a b, pick a b = a ∨ pick a b = b)
    (runs : List (List α)) (hsorted : ∀ r ∈ runs, r.Pairwise (fun a b => cmp a b ≤ 0)) :
    ∃ out, Merge.merge cmp pick runs = some out ∧
      out.Pairwise (fun a b => cmp a b < 0) ∧ (∀ o ∈ out, o ∈ runs.flatten) ∧
      (∀ y ∈ runs.flatten, ∃ o ∈ out, cmp o y = 0) := by
  obtain ⟨hperm, hs⟩ := Merge.mergeSorted_spec hc runs hsorted
  obtain ⟨out, h1, h2, h3, h4⟩ := Merge.resolve_generic hc pick hpick _ hs
  exact ⟨out, h1, h2, fun o ho => hperm.subset (h3 o ho), fun y hy => h4 y (hperm.symm.subset hy)⟩

/-- a `pick` that answers an equal pair with a value that is neither argument makes the duplicate resolution panic
("pick must return one of the provided arguments") -/
theorem merge_foreign_pick_panics {α : Type} [DecidableEq α] (cmp : α → α → Int) (pick : α → α → α) (a b : α)
    (rest : List α) (h0 : cmp a b = 0) (h1 : pick a b ≠ a) (h2 : pick a b ≠ b) :
    Merge.resolve cmp pick (a :: b :: rest) = none :=
  Merge.resolve_foreign_panics pick a b rest h0 h1 h2

/-- Early termination (`yield` returning false at the consumer's `n`-th item, `n ≥ 1`): what the consumer has seen
is exactly the first `n` items of the full sequence — for `ZipTree.AscendPrefix`, `MergeSorted` and `Merge` (for `Merge`
whenever the full run does not panic; a panic that lies beyond the `n`-th item is simply not reached). The iterations
are read-only on the structures (`SortedMap.All` sorts before it returns its iterator), so no state is left half-updated. -/
theorem early_termination_prefix (n : Nat) (hn : 1 ≤ n) :
    (∀ t p, ZipTree.ascendPrefixN t p n = (ZipTree.ascendPrefix t p).take n) ∧
    (∀ {α : Type} (cmp : α → α → Int) (runs : List (List α)),
      Merge.mergeSortedN cmp runs n = (Merge.mergeSorted cmp runs).take n) ∧
    (∀ {α : Type} [DecidableEq α] (cmp : α → α → Int) (pick : α → α → α) (runs : List (List α)) (out : List α),
      Merge.merge cmp pick runs = some out → Merge.mergeN cmp pick runs n = some (out.take n)) :=
  ⟨fun t p => ZipTree.ascendPrefixN_eq t p n hn,
   fun cmp _ => Merge.popsN_eq cmp _ n hn _,
   fun cmp pick _ out h => Merge.resolveN_prefix cmp pick n hn _ out h⟩

/-- non-vacuity: `first` is a pick that returns one of its arguments -/
example : ∀ a b : Merge.Entry, (fun a _ => a) a b = a ∨ (fun (a : Merge.Entry) (_ : Merge.Entry) => a) a b = b :=
  fun _ _ => Or.inl rfl

/-! ## Precondition of iteration: no structural mutation during a scan -/

/-- Replacing the value of keys that exist (what `zipTree_refines_ops` covers: `ascendPut`, `reput`) is safe during a
scan; **inserting a fresh key from inside a running `AscendPrefix` is not**: the insert's unzip rewrites links of nodes
the iterator still holds, and the scan omits a key that was in the tree before and after. Witness (tree m(rank 1),
c(0), f(0); scan of everything; on the first yielded node insert d with rank 5): the scan yields `[c, m]` although `f`
was present throughout. Iteration therefore has the documented precondition "no insertion while a scan is running"
(no caller in the repository violates it); the real tree's behaviour on this input is pinned to this model by the
correspondence op `z.ascins`. -/
theorem ascendInsert_omits_counterexample :
    let t := ZipTree.run [([0x6d], [1], 1), ([0x63], [2], 0), ([0x66], [3], 0)]
    let r := ZipTree.ascendInsert [] [0x64] [4] 5 t
    r.1 = [([0x63], [2]), ([0x6d], [1])] ∧
    ZipTree.toList t = [([0x63], [2]), ([0x66], [3]), ([0x6d], [1])] ∧
    ZipTree.toList r.2 = [([0x63], [2]), ([0x64], [4]), ([0x66], [3]), ([0x6d], [1])] ∧
    r.1 ≠ ZipTree.ascendPrefix t [] ∧ r.1 ≠ ZipTree.ascendPrefix r.2 [] := by
  decide

/-! ## PartitionedPriorityQueue over whole runs -/

/-- Trace-level refinement of the partitioned queue: started by `NewPartitionedPriorityQueue` over any sorted partitions
whose items carry their partition index, every sequence of `Push` / `Delete` / `Pop` is accepted by ONE multiset of all
queued items: each `Pop` returns a minimum-priority item of that multiset, which then loses exactly it; `Pop` fails only
when nothing is queued; `Push`/`Delete` add / remove exactly their item (an item addressing no partition changes nothing). -/
theorem ppq_run_refines (parts : Array (List PPQ.Item)) (ops : List PPQ.Op)
    (hs : ∀ p, (parts.getD p []).Pairwise (fun a b => a.prio ≤ b.prio))
    (hpart : ∀ p y, y ∈ parts.getD p [] → y.part = p) :
    PPQ.Accepts parts.size parts.toList.flatten ops (PPQ.trace (PPQ.new parts) ops) := by
  have h := PPQ.trace_accepted (PPQ.new parts) (PPQ.new_inv parts)
    (by intro p; simpa [PPQ.new] using hs p) (by intro p y hy; exact hpart p y (by simpa [PPQ.new] using hy)) ops
  simpa [PPQ.new] using h

/-- non-vacuity: pre-populated partitions satisfying both hypotheses -/
example : (∀ p, ((#[[⟨1, 0, 1⟩, ⟨1, 0, 2⟩], [⟨0, 1, 3⟩]] : Array (List PPQ.Item)).getD p []).Pairwise
      (fun a b => a.prio ≤ b.prio)) ∧
    (∀ p y, y ∈ (#[[⟨1, 0, 1⟩, ⟨1, 0, 2⟩], [⟨0, 1, 3⟩]] : Array (List PPQ.Item)).getD p [] → y.part = p) := by
  constructor
  · intro p
    match p with
    | 0 => decide
    | 1 => decide
    | n + 2 => rw [Array.getD_eq_getD_getElem?, Array.getElem?_eq_none (by simp)]; simp
  · intro p y hy
    match p with
    | 0 => simp [Array.getD] at hy; rcases hy with rfl | rfl <;> rfl
    | 1 => simp [Array.getD] at hy; rw [hy]
    | n + 2 => rw [Array.getD_eq_getD_getElem?, Array.getElem?_eq_none (by simp)] at hy; simp at hy

/-- non-vacuity of `merge_foreign_pick_panics`: a pick that changes the sequence number is foreign on an equal pair -/
example : Merge.resolve (Gen.c19AscendingEntries Merge.Entry.key) (fun a _ => { a with seq := a.seq + 10 })
    [⟨[1], 1, []⟩, ⟨[1], 2, []⟩] = none :=
  merge_foreign_pick_panics _ _ _ _ [] (by decide) (by decide) (by decide)

end Rxn.C19
