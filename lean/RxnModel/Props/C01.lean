import RxnModel.Proofs.Pipeline
import RxnModel.Proofs.PipelineInv
import RxnModel.Proofs.PipelineReplay
import RxnModel.Proofs.PipelineCross
import RxnModel.Generated.Facts
/-!
# C01 — end-to-end exactly-once state semantics of the pipeline under failures, restarts and repartitioning

Property theorems only. Model: `Model/Pipeline.lean` (`step`: sources read splits at their cursor and put the
records on FIFO runner→operator channels; `start` / `barrier r` / `opCkpt o` are the aligned job checkpoint with
synchronous acknowledgements; a complete checkpoint goes to `writing` and becomes current by `publish`;
`kill w` marks a worker failed; `restart n' job`, enabled in **every** state, redeploys on `n'` workers from the
newest published checkpoint, repartitioning keys by `cfg.route n'` and splits by `cfg.assign n'`).
All theorems quantify over every configuration `cfg` (any input `key`, any in-range `route` / `assign`, any
deterministic handler `h` over any state type `σ`) and over every action list `as`: any number of reads,
deliveries, checkpoints (complete, abandoned, published late or never), worker failures and restarts to any
worker count, in any interleaving.

Vocabulary (`Model/Pipeline.lean`): `s.log o k` is the ghost list of `(split, index)` that operator `o` applied to
key `k`; `idxOf sp l` the indices of split `sp` in it; `projI k sp q` the indices of key `k`, split `sp` still on
channel `q`; `routed cfg k sp c` the indices `< c` of split `sp` with key `k`; `foldLog cfg k l` the fold of the
handler over a log; `Consistent`, `CkptOK`, `Quiescent` as defined there.
The inductive invariant is `Inv` in `Proofs/PipelineInv.lean`; the failure-free replay of a key's log is in
`Proofs/PipelineReplay.lean`; the single-channel delivery order used by `single_witness_counterexample` (why the
failure-free witness is per key) is in `Proofs/PipelineCross.lean`.

**Partial (finding D39, open).** `redeployLive n'` models the code as it is when a deployment's assembly contains a
node process that is still alive: the channels are *not* discarded. Every property theorem below is proved for
the runs without such a step (hypothesis `hl`, suffix `_partial`); the full statement is kept in a comment in
front of it and is **false** for the code as it is: `redeploy_live_counterexample`.

Explicit exclusions of the model: acknowledgements of workers of a *previous* deployment that the coordinator
would accept are not steps (the trace validation reports them); a failed worker is not forced to stop
(the theorems hold whether or not it takes further steps); records are identified with `(split, index)`.
-/
namespace Rxn.C01
open Rxn Rxn.Pipeline

/-! ## demo configuration and runs (used by the non-vacuity examples) -/

/-- three keys, splits start at different keys, the handler state is the list of records it has seen -/
def demoCfg : Cfg (List (Nat × Nat)) :=
  { key := fun sp i => (sp + i) % 3, route := fun n k => k % n, assign := fun n sp => sp % n, init := [],
    h := fun s e => s ++ [(e.split, e.idx)] }

theorem demoCfg_wf : demoCfg.WF :=
  ⟨fun _ k hn => Nat.mod_lt k hn, fun _ sp hn => Nat.mod_lt sp hn⟩

/-- deploy on 2 workers; reads and deliveries; a checkpoint (both barriers, both
operator checkpoints — the second completes it) is published; more reads and a delivery after it (one record of
split 0 was even applied by operator 0 *between* the two operator checkpoints); worker 1 and the job fail;
redeploy on **3** workers; the lost records are read again and delivered to the keys' new owners. -/
def demo : List Act :=
  [.restart 2 false, .read 0, .read 1, .read 0, .deliver 0 0, .start, .read 1, .barrier 0, .read 0, .deliver 1 1,
   .barrier 1, .deliver 0 1, .deliver 1 0, .opCkpt 0, .deliver 0 0, .opCkpt 1, .publish 0,
   .read 1, .deliver 1 0, .read 0, .kill 1, .restart 3 true,
   .read 0, .read 1, .deliver 0 2, .deliver 1 0, .read 2, .deliver 2 2]

/-- the run is enabled to the end; one checkpoint (id 1, 2 workers, cursors 2 and 2) was published -/
example : (run demoCfg demo).map (fun x => (x.1.n, x.1.published.map fun c => (c.id, c.n, c.cursor 0, c.cursor 1))) =
    some (3, [(1, 2, 2, 2)]) := rfl

/-- just before the failure: operator 0 (owner of keys 0 and 2 on 2 workers) is ahead of the checkpoint -/
example : (run demoCfg (demo.take 20)).map (fun x => (x.1.n, x.1.cursor 0, x.1.cursor 1, x.1.log 0 0, x.1.log 0 2)) =
    some (2, 4, 3, [(0, 0), (1, 2)], [(1, 1), (0, 2)]) := rfl

/-- right after the restart: cursors and states are the checkpointed ones, key 2 moved from operator 0 to
operator 2, nothing is left at the old owner -/
example : (run demoCfg (demo.take 22)).map
      (fun x => (x.1.n, x.1.cursor 0, x.1.cursor 1, x.1.log 0 0, x.1.log 2 2, x.1.st 2 2, x.1.log 0 2)) =
    some (3, 2, 2, [(0, 0)], [(1, 1)], [(1, 1)], []) := rfl

/-- at the end: every record read so far has been applied exactly once to its key's state -/
example : (run demoCfg demo).map
      (fun x => (x.1.cursor 0, x.1.cursor 1, x.1.cursor 2, x.1.st 0 0, x.1.st 1 1, x.1.st 2 2)) =
    some (3, 3, 1, [(0, 0), (1, 2)], [(1, 0), (0, 1)], [(1, 1), (0, 2), (2, 0)]) := rfl

/-- the handler invocations of the run, `(operator, key, split, index, state handed in)`: record `(0, 2)` is handed
to the handler twice (before the failure by operator 0, after it by operator 2), both times with the same state -/
example : (run demoCfg demo).map (fun x => x.2.map fun g => (g.op, g.e.key, g.e.split, g.e.idx, g.state)) =
    some [(0, 0, 0, 0, []), (1, 1, 1, 0, []), (1, 1, 0, 1, [(1, 0)]), (0, 2, 1, 1, []), (0, 2, 0, 2, [(1, 1)]),
          (0, 0, 1, 2, [(0, 0)]), (2, 2, 0, 2, [(1, 1)]), (0, 0, 1, 2, [(0, 0)]), (2, 2, 2, 0, [(1, 1), (0, 2)])] := rfl

/-! ## the property -/

/-- **Exactly-once invariant.** In every reachable state — after any failures, restarts and repartitionings —
for every key and every split, what the key's current owner has applied followed by what is still on the channel
to it is exactly the read prefix of the split restricted to the key (in order, nothing missing, nothing twice),
nobody else holds anything for the key; and every checkpoint that is published or being written is a consistent
cut whose states are the folds of the handler over exactly the records below its cursors.

FULL statement (not proved; false for the code as it is, see `redeploy_live_counterexample`):

    (full) theorem exactly_once_inv {σ : Type} (cfg : Cfg σ) (wf : cfg.WF) (as : List Act) (s : State σ)
        (obs : List (Given σ)) (h : run cfg as = some (s, obs)) :
        Consistent cfg s ∧ (∀ c ∈ s.published, CkptOK cfg c) ∧ (∀ c ∈ s.writing, CkptOK cfg c)

Excluded by `hl`: runs containing a `redeployLive` step, i.e. deployments whose assembly contains a node process
that is still alive (finding D39, open). -/
theorem exactly_once_inv_partial {σ : Type} (cfg : Cfg σ) (wf : cfg.WF) (as : List Act) (s : State σ)
    (obs : List (Given σ)) (hl : ∀ a ∈ as, a.isLiveRedeploy = false) (h : run cfg as = some (s, obs)) :
    Consistent cfg s ∧ (∀ c ∈ s.published, CkptOK cfg c) ∧ (∀ c ∈ s.writing, CkptOK cfg c) := by
  have hi := inv_run cfg wf as s obs hl h
  exact ⟨⟨hi.main, hi.own⟩, fun c hc => hi.ck c (Or.inr hc), fun c hc => hi.ck c (Or.inl hc)⟩

/-- the hypotheses are satisfiable with a published checkpoint and a non-empty log -/
example : ∃ s obs, run demoCfg demo = some (s, obs) ∧ s.published.length = 1 ∧ s.log 2 2 = [(1, 1), (0, 2), (2, 0)] := by
  have hsome : (run demoCfg demo).isSome = true := rfl
  obtain ⟨⟨s, obs⟩, h⟩ := Option.isSome_iff_exists.1 hsome
  have h2 : (run demoCfg demo).map (fun x => (x.1.published.length, x.1.log 2 2)) =
      some (1, [(1, 1), (0, 2), (2, 0)]) := rfl
  rw [h] at h2
  simp only [Option.map_some, Option.some.injEq, Prod.mk.injEq] at h2
  exact ⟨s, obs, h, h2.1, h2.2⟩

/-- **No loss, no duplication.** In a reachable state with nothing in flight, record `i` of split `sp` occurs in the
log of its key at the key's current owner exactly once if it has been read (`i < cursor sp`) and not at all
otherwise; and whatever occurs in any log is a read record, of that key, at the key's owner.

FULL statement (not proved; false for the code as it is, see `redeploy_live_counterexample`):

    (full) theorem no_loss_no_dup {σ : Type} (cfg : Cfg σ) (wf : cfg.WF) (as : List Act) (s : State σ)
        (obs : List (Given σ)) (h : run cfg as = some (s, obs)) (hq : Quiescent s) (sp i : Nat) :
        (s.log (cfg.route s.n (cfg.key sp i)) (cfg.key sp i)).count (sp, i) = (if i < s.cursor sp then 1 else 0) ∧
        ∀ o k, (sp, i) ∈ s.log o k → o = cfg.route s.n k ∧ k = cfg.key sp i ∧ i < s.cursor sp

Excluded by `hl`: runs containing a `redeployLive` step, i.e. deployments whose assembly contains a node process
that is still alive (finding D39, open). -/
theorem no_loss_no_dup_partial {σ : Type} (cfg : Cfg σ) (wf : cfg.WF) (as : List Act) (s : State σ)
    (obs : List (Given σ)) (hl : ∀ a ∈ as, a.isLiveRedeploy = false) (h : run cfg as = some (s, obs))
    (hq : Quiescent s) (sp i : Nat) :
    (s.log (cfg.route s.n (cfg.key sp i)) (cfg.key sp i)).count (sp, i) = (if i < s.cursor sp then 1 else 0) ∧
    ∀ o k, (sp, i) ∈ s.log o k → o = cfg.route s.n k ∧ k = cfg.key sp i ∧ i < s.cursor sp := by
  have hi := inv_run cfg wf as s obs hl h
  exact ⟨quiescent_count cfg s hi hq sp i, fun o k hm => quiescent_mem cfg s hi hq sp i o k hm⟩

/-- `Quiescent` is reached non-trivially: at the end of `demo` (after a failure and a repartitioning restart)
nothing is in flight, 7 records have been read and the logs are not empty -/
example : ∃ s obs, run demoCfg demo = some (s, obs) ∧ Quiescent s ∧
    (s.cursor 0, s.cursor 1, s.cursor 2) = (3, 3, 1) ∧ s.log 2 2 = [(1, 1), (0, 2), (2, 0)] := by
  have hsome : (run demoCfg demo).isSome = true := rfl
  obtain ⟨⟨s, obs⟩, h⟩ := Option.isSome_iff_exists.1 hsome
  have h2 : (run demoCfg demo).map (fun x => (x.1.n, (x.1.cursor 0, x.1.cursor 1, x.1.cursor 2), x.1.log 2 2,
      (List.range x.1.n).all fun r => (List.range x.1.n).all fun o => (x.1.queue r o).all fun y => y == Item.bar)) =
      some (3, (3, 3, 1), [(1, 1), (0, 2), (2, 0)], true) := rfl
  rw [h] at h2
  simp only [Option.map_some, Option.some.injEq, Prod.mk.injEq] at h2
  obtain ⟨hn, hc, hl, hchk⟩ := h2
  refine ⟨s, obs, h, ?_, ?_, hl⟩
  · exact quiescent_of_check demoCfg demoCfg_wf s (inv_run demoCfg demoCfg_wf demo s obs (by decide) h) (by omega) hchk
  · simpa using hc

/-- **State = fold of the log.** In every reachable state every operator's state of every key is the fold of the
handler over the key's log there (with the previous theorems: over exactly the key's records read so far, each
once, per split in split order).

FULL statement (not proved: it is obtained here from the invariant, which a live redeploy breaks. This equation
alone is not refuted by `redeploy_live_counterexample` — there the state *is* the fold of the log — but the log is
no longer the key's records read so far, each once):

    (full) theorem handler_state_eq {σ : Type} (cfg : Cfg σ) (wf : cfg.WF) (as : List Act) (s : State σ)
        (obs : List (Given σ)) (h : run cfg as = some (s, obs)) : ∀ o k, s.st o k = foldLog cfg k (s.log o k)

Excluded by `hl`: runs containing a `redeployLive` step, i.e. deployments whose assembly contains a node process
that is still alive (finding D39, open). -/
theorem handler_state_eq_partial {σ : Type} (cfg : Cfg σ) (wf : cfg.WF) (as : List Act) (s : State σ)
    (obs : List (Given σ)) (hl : ∀ a ∈ as, a.isLiveRedeploy = false) (h : run cfg as = some (s, obs)) :
    ∀ o k, s.st o k = foldLog cfg k (s.log o k) :=
  (inv_run cfg wf as s obs hl h).hst

example : (run demoCfg demo).map (fun x => (x.1.st 2 2, foldLog demoCfg 2 (x.1.log 2 2))) =
    some ([(1, 1), (0, 2), (2, 0)], [(1, 1), (0, 2), (2, 0)]) := rfl

/-- **Every handler invocation sees the exactly-once state.** Whenever, in a reachable state `s`, operator `o`
takes a record `e` from channel `r → o` (every prefix of a run is a run, so this is every handler invocation of
every run), the handler is called with the fold over the records applied to the key so far, `o` is the key's
owner, `e` is a genuine record of its split, and afterwards the key's log and state are extended by exactly `e`.

FULL statement (not proved; false for the code as it is: after a live redeploy onto a different worker count a
stale in-flight record reaches an operator that is not the key's owner):

    (full) theorem handler_invocation {σ : Type} (cfg : Cfg σ) (wf : cfg.WF) (as : List Act) (s : State σ)
        (obs : List (Given σ)) (h : run cfg as = some (s, obs)) (r o : Nat) (s' : State σ) (gs : List (Given σ))
        (hs : step cfg s (.deliver r o) = some (s', gs)) :
        ∃ e, gs = [⟨o, e, foldLog cfg e.key (s.log o e.key)⟩] ∧ o = cfg.route s.n e.key ∧
          e.key = cfg.key e.split e.idx ∧ s'.log o e.key = s.log o e.key ++ [(e.split, e.idx)] ∧
          s'.st o e.key = cfg.h (foldLog cfg e.key (s.log o e.key)) e

Excluded by `hl`: runs containing a `redeployLive` step, i.e. deployments whose assembly contains a node process
that is still alive (finding D39, open). -/
theorem handler_invocation_partial {σ : Type} (cfg : Cfg σ) (wf : cfg.WF) (as : List Act) (s : State σ)
    (obs : List (Given σ)) (hl : ∀ a ∈ as, a.isLiveRedeploy = false) (h : run cfg as = some (s, obs))
    (r o : Nat) (s' : State σ) (gs : List (Given σ))
    (hs : step cfg s (.deliver r o) = some (s', gs)) :
    ∃ e, gs = [⟨o, e, foldLog cfg e.key (s.log o e.key)⟩] ∧ o = cfg.route s.n e.key ∧
      e.key = cfg.key e.split e.idx ∧ s'.log o e.key = s.log o e.key ++ [(e.split, e.idx)] ∧
      s'.st o e.key = cfg.h (foldLog cfg e.key (s.log o e.key)) e :=
  deliver_spec cfg s s' (inv_run cfg wf as s obs hl h) r o gs hs

/-- a delivery is enabled after a restart with restored, non-initial state: the last action of `demo` -/
example : ∃ s obs s' gs, run demoCfg (demo.take 27) = some (s, obs) ∧
    step demoCfg s (.deliver 2 2) = some (s', gs) ∧ gs.map (fun g => (g.op, g.e, g.state)) = [(2, ⟨2, 2, 0⟩, [(1, 1), (0, 2)])] := by
  have hsome : (run demoCfg (demo.take 27)).isSome = true := rfl
  obtain ⟨⟨s, obs⟩, h⟩ := Option.isSome_iff_exists.1 hsome
  have hsome2 : ((run demoCfg (demo.take 27)).bind fun x => step demoCfg x.1 (.deliver 2 2)).isSome = true := rfl
  have h3 : ((run demoCfg (demo.take 27)).bind fun x => step demoCfg x.1 (.deliver 2 2)).map
      (fun y => y.2.map fun g => (g.op, g.e, g.state)) = some [(2, ⟨2, 2, 0⟩, [(1, 1), (0, 2)])] := rfl
  rw [h] at hsome2 h3
  simp only [Option.bind_some] at hsome2 h3
  obtain ⟨⟨s', gs⟩, h'⟩ := Option.isSome_iff_exists.1 hsome2
  rw [h'] at h3
  simp only [Option.map_some, Option.some.injEq] at h3
  exact ⟨s, obs, s', gs, h, h', h3⟩

/-- **Equivalence with a failure-free execution.** For every reachable state (of a deployed job) and every key
there is a run consisting of one initial deployment on the same number of workers followed by actions none of
which is a failure (`kill` / `restart`) at whose end the key's owner holds exactly the same log and the same state
for the key: whatever failures, restarts and repartitionings happened, every key's state is a state of a
failure-free execution over the same input. (The witness run contains no live redeploy either.)

**Why per key (with the witness deployed on the final worker count `s.n`).** The witness run depends on `k`. The
stronger statement with ONE failure-free run *on the final worker count `s.n`* that reproduces the logs of *all* keys
simultaneously is **false** as soon as the worker count changes (the same logs may still be those of a failure-free
run on another worker count - in `crossRun` they are the logs of the failure-free run on 2 workers; what is refuted
is only the form whose witness runs on `s.n`). Not stated and not proved here: the all-keys form for runs whose
restarts never change the worker count (a published consistent cut is then a reachable failure-free state), and
equality of the cursors in the witness. The reason for the refutation: on fewer workers, several splits of one runner
feeding several keys of one operator share a single FIFO channel, which fixes one arrival order for all of these
keys, whereas before the rescaling the keys sat behind different channels and could each see the splits in a
different relative order. `crossRun` below (2 workers → 1 worker, no live redeploy, checkpoint published, final state
quiescent) ends with `log 0 1 = [(0,1),(1,0)]` and `log 0 2 = [(1,1),(0,0)]`; `single_witness_counterexample`
proves that no deployment on 1 worker followed by non-failure actions produces both logs, and
`failure_free_all_keys_counterexample` states this as the negation of the all-keys form for that reachable state.
What is order-independent does hold for all keys at once: per key and split the log is the split's records of the
key in index order, each once (`exactly_once_inv_partial`, `no_loss_no_dup_partial`), and every state is the fold
of the handler over its key's log (`handler_state_eq_partial`); only the *interleaving of different splits* within
a key is per key.

FULL statement (not proved; false for the code as it is, see `redeploy_live_counterexample`: no failure-free run
applies a record twice):

    (full) theorem failure_free_realizable {σ : Type} (cfg : Cfg σ) (wf : cfg.WF) (as : List Act) (s : State σ)
        (obs : List (Given σ)) (h : run cfg as = some (s, obs)) (hn : 0 < s.n) (k : Nat) :
        ∃ as' s' obs', run cfg as' = some (s', obs') ∧ as'.head? = some (Act.restart s.n false) ∧
          (∀ a ∈ as'.tail, a.isFailure = false) ∧ s'.n = s.n ∧
          s'.log (cfg.route s.n k) k = s.log (cfg.route s.n k) k ∧
          s'.st (cfg.route s.n k) k = s.st (cfg.route s.n k) k

Excluded by `hl`: runs containing a `redeployLive` step, i.e. deployments whose assembly contains a node process
that is still alive (finding D39, open). -/
theorem failure_free_realizable_partial {σ : Type} (cfg : Cfg σ) (wf : cfg.WF) (as : List Act) (s : State σ)
    (obs : List (Given σ)) (hl : ∀ a ∈ as, a.isLiveRedeploy = false) (h : run cfg as = some (s, obs))
    (hn : 0 < s.n) (k : Nat) :
    ∃ as' s' obs', run cfg as' = some (s', obs') ∧ as'.head? = some (Act.restart s.n false) ∧
      (∀ a ∈ as'.tail, a.isFailure = false) ∧ (∀ a ∈ as', a.isLiveRedeploy = false) ∧ s'.n = s.n ∧
      s'.log (cfg.route s.n k) k = s.log (cfg.route s.n k) k ∧
      s'.st (cfg.route s.n k) k = s.st (cfg.route s.n k) k :=
  failure_free_of_inv cfg wf s (inv_run cfg wf as s obs hl h) hn k

/-- the failure-free run for key 2 at the end of `demo` (3 workers, owner 2): per log entry, read the entry's
split up to the entry, delivering each record at once -/
def demoFF : List Act :=
  [.restart 3 false, .read 1, .deliver 1 1, .read 1, .deliver 1 2, .read 0, .deliver 0 0, .read 0, .deliver 0 1,
   .read 0, .deliver 0 2, .read 2, .deliver 2 2]

example : demoFF.tail.all (fun a => !a.isFailure) = true := rfl
example : (run demoCfg demoFF).map (fun x => (x.1.n, x.1.log 2 2, x.1.st 2 2)) =
    (run demoCfg demo).map (fun x => (x.1.n, x.1.log 2 2, x.1.st 2 2)) := rfl
example : (run demoCfg demo).map (fun x => (x.1.n, x.1.log 2 2)) = some (3, [(1, 1), (0, 2), (2, 0)]) := rfl

/-! ## the excluded runs: redeploying a live node (finding D39) -/

/-- one worker; record 0 of split 0 is read and still in flight when the job is redeployed onto the same, live,
node process: the cursor goes back to 0 (no checkpoint yet), the channel is not discarded, the record is read
again, and both copies are delivered -/
def demoLive : List Act := [.restart 1 false, .read 0, .redeployLive 1, .read 0, .deliver 0 0, .deliver 0 0]

/-- **Counterexample to the full statements (the code as it is, D39)**: of `exactly_once_inv` (not `Consistent`), of
`no_loss_no_dup` (count 2 in a quiescent state) and hence of `failure_free_realizable` (the witness run would be
a run without live redeploy, whose logs have no duplicates). A run with a single `redeployLive` step ends in a state with nothing in flight in which record `(0, 0)` — read once according to the cursor — has
been applied **twice** to its key at the key's owner: the state is the fold over a duplicated record and the
state is not `Consistent`. -/
theorem redeploy_live_counterexample :
    ∃ s obs, run demoCfg demoLive = some (s, obs) ∧ (demoLive.filter Act.isLiveRedeploy).length = 1 ∧
      Quiescent s ∧ s.cursor 0 = 1 ∧
      (s.log (demoCfg.route s.n (demoCfg.key 0 0)) (demoCfg.key 0 0)).count (0, 0) = 2 ∧
      s.st 0 0 = [(0, 0), (0, 0)] ∧ ¬ Consistent demoCfg s := by
  let s1 : State (List (Nat × Nat)) := restore demoCfg (init demoCfg) none 1 false
  let s2 := readS demoCfg s1 0
  let s3 : State (List (Nat × Nat)) := { restore demoCfg s2 none 1 false with queue := s2.queue }
  let s4 := readS demoCfg s3 0
  let s5 := delivS demoCfg s4 0 0 ⟨0, 0, 0⟩ [Item.ev ⟨0, 0, 0⟩]
  let s6 := delivS demoCfg s5 0 0 ⟨0, 0, 0⟩ []
  refine ⟨s6, [⟨0, ⟨0, 0, 0⟩, []⟩, ⟨0, ⟨0, 0, 0⟩, [(0, 0)]⟩], rfl, rfl, ?_, rfl, rfl, rfl, ?_⟩
  · intro r o e he
    by_cases hro : r = 0 ∧ o = 0
    · obtain ⟨rfl, rfl⟩ := hro
      have hq : s6.queue 0 0 = [] := rfl
      rw [hq] at he
      cases he
    · have hq : s6.queue r o = [] := by
        simp [s6, s5, s4, s3, s2, s1, delivS, readS, restore, demoCfg, hro]
      rw [hq] at he
      cases he
  · intro hc
    have h := hc.1 0 0
    have h2 : (idxOf 0 (s6.log (demoCfg.route s6.n 0) 0) ++
        projI 0 0 (s6.queue (demoCfg.assign s6.n 0) (demoCfg.route s6.n 0))).length = 2 := rfl
    rw [h] at h2
    exact absurd h2 (by decide)

/-- the handler invocations of `demoLive`: record `(0, 0)` is handed to the handler twice, the second time with a
state that already contains it -/
example : (run demoCfg demoLive).map (fun x => x.2.map fun g => (g.op, g.e.key, g.e.split, g.e.idx, g.state)) =
    some [(0, 0, 0, 0, []), (0, 0, 0, 0, [(0, 0)])] := rfl

/-- the full `handler_invocation` fails as well: after a live redeploy from 2 workers onto 1 the stale record of
key 1 is handed to the handler of operator 1, which does not exist in the new deployment (the owner is
`route 1 1 = 0`) -/
example : (run demoCfg [.restart 2 false, .read 1, .redeployLive 1, .deliver 1 1]).map
      (fun x => (x.1.n, demoCfg.route x.1.n 1, x.2.map fun g => (g.op, g.e.key, g.e.split, g.e.idx))) =
    some (1, 0, [(1, 1, 1, 0)]) := rfl

/-- with a deployment onto fresh processes instead (`restart`), the same schedule is not even enabled: the stale
record is gone, the second delivery finds an empty channel -/
example : run demoCfg [.restart 1 false, .read 0, .restart 1 false, .read 0, .deliver 0 0, .deliver 0 0] = none := rfl


/-! ## why the failure-free witness is per key: rescaling crosses the shared channels -/

/-- two splits whose first two records carry the keys 1 and 2 crosswise: split 0 = `[k2, k1, …]`,
split 1 = `[k1, k2, …]` (everything else has key 7). On 2 workers split `sp` is read by runner `sp`, key 1 lives on
operator 1 and key 2 on operator 0; on 1 worker everything is on runner 0 / operator 0. The handler state is the
list of records it has seen. -/
def crossCfg : Cfg (List (Nat × Nat)) :=
  { key := fun sp i => match sp, i with
      | 0, 0 => 2 | 0, 1 => 1 | 1, 0 => 1 | 1, 1 => 2 | _, _ => 7
    route := fun n k => k % n, assign := fun n sp => sp % n, init := [],
    h := fun s e => s ++ [(e.split, e.idx)] }

theorem crossCfg_wf : crossCfg.WF :=
  ⟨fun _ k hn => Nat.mod_lt k hn, fun _ sp hn => Nat.mod_lt sp hn⟩

/-- deploy on **2** workers; both records of both splits are read (four channels, one record each); operator 1
(key 1) takes `(0,1)` from runner 0 and then `(1,0)` from runner 1, operator 0 (key 2) takes `(1,1)` from
runner 1 and then `(0,0)` from runner 0 — each is the head of its own channel; a checkpoint is taken and
published; redeploy on **1** worker. -/
def crossRun : List Act :=
  [.restart 2 false, .read 0, .read 0, .read 1, .read 1,
   .deliver 0 1, .deliver 1 1, .deliver 1 0, .deliver 0 0,
   .start, .barrier 0, .barrier 1, .opCkpt 0, .opCkpt 1, .publish 0, .restart 1 false]

/-- the run is enabled to the end -/
example : (run crossCfg crossRun).isSome = true := rfl
/-- it contains no live redeploy (it is a run of the `_partial` theorems) -/
example : crossRun.all (fun a => !a.isLiveRedeploy) = true := rfl
/-- on 2 workers, before the checkpoint: the two keys are at different operators -/
example : (run crossCfg (crossRun.take 9)).map (fun x => (x.1.n, x.1.log 1 1, x.1.log 0 2)) =
    some (2, [(0, 1), (1, 0)], [(1, 1), (0, 0)]) := rfl
/-- at the end: 1 worker, both splits read up to 2, nothing in flight (only the channels inside the deployment
can hold records), and operator 0 holds both keys with exactly these two logs -/
example : (run crossCfg crossRun).map (fun x => (x.1.n, x.1.cursor 0, x.1.cursor 1, x.1.log 0 1, x.1.log 0 2,
      (List.range x.1.n).all fun r => (List.range x.1.n).all fun o => (x.1.queue r o).all fun y => y == Item.bar)) =
    some (1, 2, 2, [(0, 1), (1, 0)], [(1, 1), (0, 0)], true) := rfl

/-- **No single failure-free witness for all keys.** No run that deploys `crossCfg` on 1 worker and then takes only
non-failure actions ends with key 1 having seen `(0,1)` before `(1,0)` *and* key 2 having seen `(1,1)` before
`(0,0)` — the two logs at the end of `crossRun`. On one worker all four records go through the single FIFO
channel `0 → 0` in the order they were read, each split is read in index order, so the first of the four to be
delivered is `(0,0)` or `(1,0)`: but `(0,0)` is not the first record of key 2 and `(1,0)` not the first of key 1
(`Proofs/PipelineCross.lean`: `Cross`, `cross_cycle`). Each of the two logs *alone* is reproduced by a
failure-free run on 1 worker (`failure_free_realizable_partial`; explicitly below). -/
theorem single_witness_counterexample :
    ¬ ∃ (as' : List Act) (s' : State (List (Nat × Nat))) (obs' : List (Given (List (Nat × Nat)))),
      as'.head? = some (Act.restart 1 false) ∧ (∀ a ∈ as'.tail, a.isFailure = false) ∧
      run crossCfg as' = some (s', obs') ∧ s'.log 0 1 = [(0, 1), (1, 0)] ∧ s'.log 0 2 = [(1, 1), (0, 0)] := by
  rintro ⟨as', s', obs', hh, hf, hr, h1, h2⟩
  refine cross_no_single_witness crossCfg crossCfg_wf rfl rfl ?_ as' s' obs' hh hf hr h1 h2
  intro sp i hsp
  match sp, hsp with
  | sp + 2, _ =>
    have h7 : crossCfg.key (sp + 2) i = 7 := rfl
    rw [h7]
    exact ⟨by decide, by decide⟩

/-- the per-key witnesses on 1 worker: key 1 wants split 0 first, key 2 wants split 1 first -/
example : (run crossCfg [.restart 1 false, .read 0, .read 0, .read 1, .deliver 0 0, .deliver 0 0, .deliver 0 0]).map
    (fun x => x.1.log 0 1) = some [(0, 1), (1, 0)] := rfl
example : (run crossCfg [.restart 1 false, .read 1, .read 1, .read 0, .deliver 0 0, .deliver 0 0, .deliver 0 0]).map
    (fun x => x.1.log 0 2) = some [(1, 1), (0, 0)] := rfl

/-- **Counterexample to the all-keys form of `failure_free_realizable`**: the state at the end of `crossRun`
(reachable without live redeploy, deployed on 1 worker, nothing in flight) is not the state of any run consisting
of one deployment on the same worker count followed by non-failure actions that agrees with it on the log of
*every* key at the key's owner. -/
theorem failure_free_all_keys_counterexample :
    ∃ s obs, run crossCfg crossRun = some (s, obs) ∧ (∀ a ∈ crossRun, a.isLiveRedeploy = false) ∧ 0 < s.n ∧
      Quiescent s ∧
      ¬ ∃ as' s' obs', run crossCfg as' = some (s', obs') ∧ as'.head? = some (Act.restart s.n false) ∧
        (∀ a ∈ as'.tail, a.isFailure = false) ∧ s'.n = s.n ∧
        ∀ k, s'.log (crossCfg.route s.n k) k = s.log (crossCfg.route s.n k) k := by
  have hsome : (run crossCfg crossRun).isSome = true := rfl
  obtain ⟨⟨s, obs⟩, h⟩ := Option.isSome_iff_exists.1 hsome
  have h2 : (run crossCfg crossRun).map (fun x => (x.1.n, x.1.log 0 1, x.1.log 0 2,
      (List.range x.1.n).all fun r => (List.range x.1.n).all fun o => (x.1.queue r o).all fun y => y == Item.bar)) =
      some (1, [(0, 1), (1, 0)], [(1, 1), (0, 0)], true) := rfl
  rw [h] at h2
  simp only [Option.map_some, Option.some.injEq, Prod.mk.injEq] at h2
  obtain ⟨hn, hl1, hl2, hchk⟩ := h2
  have hlive : ∀ a ∈ crossRun, a.isLiveRedeploy = false := by decide
  refine ⟨s, obs, h, hlive, by omega, ?_, ?_⟩
  · exact quiescent_of_check crossCfg crossCfg_wf s (inv_run crossCfg crossCfg_wf crossRun s obs hlive h)
      (by omega) hchk
  · rintro ⟨as', s', obs', hr, hh, hf, _, hk⟩
    rw [hn] at hh hk
    have k1 := hk 1
    have k2 := hk 2
    have e1 : crossCfg.route 1 1 = 0 := rfl
    have e2 : crossCfg.route 1 2 = 0 := rfl
    rw [e1, hl1] at k1
    rw [e2, hl2] at k2
    exact single_witness_counterexample ⟨as', s', obs', hh, hf, hr, k1, k2⟩

/-- **The code has the shape three atomic model steps assume** (regenerated from /repo on every run by
`tools/gofacts/facts_c01.go`; a lost shape makes this fail to build):
* `restart` restores operator state and source cursors from ONE published checkpoint: `Job.start` (with the `Job` methods it
  calls) calls `CurrentCheckpoint()` exactly once, before `Deploy`;
* `opCkpt` is snapshot-of-everything-delivered then acknowledgement: `handleCheckpointBarrier` holds the operator's write
  lock and flushes the pending handler batch, then takes the DKV checkpoint, then acknowledges;
* `barrier` is cut, acknowledgement, barrier behind everything read: the read loop's barrier case calls `createCheckpoint`
  (reader `Checkpoint()` then `OnSourceRunnerCheckpointComplete`) before it sends on the output stream, and nobody else
  takes the cut. -/
theorem model_steps_match_code_shape :
    Facts.c01StartReadsCheckpointOnce = 1 ∧ Facts.c01OperatorCheckpointOrder = 1 ∧
    Facts.c01RunnerCutBeforeBarrier = 1 := by decide

end Rxn.C01
