import RxnModel.Proofs.LsmScan
import RxnModel.Proofs.LsmScan2
import RxnModel.Proofs.CompactionSound
/-!
# C07 — DKV reads return the latest write at every moment

Model: `Model/Lsm.lean` (one action per mutex section / pointer snapshot of `dkv/db.go`; background flush and
compaction commits and memtable rotation are free actions, so every size setting and every placement of the
background tasks relative to foreground reads and writes is covered by quantifying over the action list).
Specification: `Spec` = the list of writes, newest first; `Spec.get` = the last write to the key.

`CompactionSound` (every change set passing the executable test `safeCS` preserves the invariant) is the one
obligation that belongs to C18; it is proved there (`Rxn.Compaction.compactionSound`, `Proofs/CompactionSound.lean`)
and used here, so every theorem below is unconditional and covers histories with compaction commits at arbitrary
points. (The `_noCompact` versions do not depend on the compaction proof.)
-/
namespace Rxn.C07
open Rxn Rxn.Lsm

/-- the spec is "last write wins": after a put/delete the key maps to that write, other keys are untouched -/
theorem spec_last_write_wins (m : Spec) (seq : Nat) (k v k' : Bytes) :
    Spec.get (specStep m seq (.put k v)) k' = (if k = k' then some ⟨k, seq + 1, false, v⟩ else Spec.get m k') ∧
    Spec.get (specStep m seq (.del k)) k' = (if k = k' then some ⟨k, seq + 1, true, []⟩ else Spec.get m k') := by
  simp [specStep, Spec.get, Run.lookup]

/-- every state reachable from the empty database satisfies the refinement invariant -/
theorem reachable_inv (as : List Act) (s : State) (m : Spec)
    (hc : noCompact as = true ∨ CompactionSound) (h : runBoth {} [] as = some (s, m)) : Inv s m ∧ ReadInv s m :=
  runBoth_inv (fun _ => trivial) as {} [] s m hc inv_init readInv_init h

/-- **Get returns the most recently written entry** (value or delete marker) in every reachable state: after any
history of puts, deletes, rotations, flush begins/commits, compaction commits and reads -/
theorem get_returns_latest_write (as : List Act) (s : State) (m : Spec)
    (h : runBoth {} [] as = some (s, m)) (k : Bytes) :
    get s k = Spec.get m k ∧ answer (get s k) = answer (Spec.get m k) := by
  have hi := (reachable_inv as s m (Or.inr Rxn.Compaction.compactionSound) h).1
  have : get s k = Spec.get m k := by rw [get_eq_firstHit hi]; exact hi.hit k
  exact ⟨this, by rw [this]⟩

/-- the same without any assumption, for histories with rotations and flushes at arbitrary points but no compaction -/
theorem get_returns_latest_write_noCompact (as : List Act) (hn : noCompact as = true) (s : State) (m : Spec)
    (h : runBoth {} [] as = some (s, m)) (k : Bytes) : get s k = Spec.get m k := by
  have hi := (reachable_inv as s m (Or.inl hn) h).1
  rw [get_eq_firstHit hi]; exact hi.hit k

/-- a `Get` whose two phases (memtables, then sstables) are separated by arbitrary background commits still
returns the latest write -/
theorem two_phase_read (as : List Act) (s : State) (m : Spec)
    (h : runBoth {} [] as = some (s, m)) (k : Bytes) (r : Option Entry) (hr : s.reading = some (k, r)) :
    getBResult s = Spec.get m k := by
  have hi := reachable_inv as s m (Or.inr Rxn.Compaction.compactionSound) h
  exact getB_correct hi.1 hi.2 k r hr

/-- **ScanPrefix returns exactly the live keys with the prefix, each once, in ascending order, with their latest
values** in every reachable state -/
theorem scan_returns_live_keys (as : List Act) (s : State) (m : Spec)
    (h : runBoth {} [] as = some (s, m)) (p : Bytes) :
    (scan s p).Pairwise (fun a b => Bytes.lt a.key b.key = true) ∧
    ∀ e, e ∈ scan s p ↔ (Spec.get m e.key = some e ∧ e.del = false ∧ Bytes.hasPrefix e.key p = true) :=
  scan_spec (reachable_inv as s m (Or.inr Rxn.Compaction.compactionSound) h).1 p

theorem scan_returns_live_keys_noCompact (as : List Act) (hn : noCompact as = true) (s : State) (m : Spec)
    (h : runBoth {} [] as = some (s, m)) (p : Bytes) :
    (scan s p).Pairwise (fun a b => Bytes.lt a.key b.key = true) ∧
    ∀ e, e ∈ scan s p ↔ (Spec.get m e.key = some e ∧ e.del = false ∧ Bytes.hasPrefix e.key p = true) :=
  scan_spec (reachable_inv as s m (Or.inl hn) h).1 p

/-- **A ScanPrefix in two phases** — the memtable list snapshotted and merged in state `sA`
(`db.mtables.ScanPrefix`), the level list snapshotted later in state `sB` (`db.currentSSTables()`), separated by
arbitrary background activity `as₂` (flush begins/commits, compaction commits, rotations, point reads; no foreground
write, which shares the reader's goroutine) — returns exactly the live latest entries with the prefix, each once, in
ascending order. `sA` is any reachable state. -/
theorem two_phase_scan (as₁ as₂ : List Act) (sA sB : State) (m m' : Spec)
    (h1 : runBoth {} [] as₁ = some (sA, m)) (hnw : noWrite as₂ = true) (h2 : runBoth sA m as₂ = some (sB, m'))
    (p : Bytes) :
    m' = m ∧ (scan2 sA sB p).Pairwise (fun a b => Bytes.lt a.key b.key = true) ∧
    ∀ e, e ∈ scan2 sA sB p ↔ (Spec.get m e.key = some e ∧ e.del = false ∧ Bytes.hasPrefix e.key p = true) := by
  have hA := reachable_inv as₁ sA m (Or.inr Rxn.Compaction.compactionSound) h1
  have hB := runBoth_inv (fun _ => trivial) as₂ sA m sB m' (Or.inr Rxn.Compaction.compactionSound) hA.1 hA.2 h2
  obtain ⟨hm, hsub⟩ := runBoth_noWrite sA.mems as₂ sA m sB m' hnw h2 (fun r hr => Or.inl hr)
  subst hm
  exact ⟨rfl, scan2_spec hA.1 hB.1 hsub p⟩

/-! non-vacuity: a history with an overwrite, a delete, two rotations and a flush is accepted by the model, leaves
the key in three containers, and reads the latest version -/
def demo : List Act :=
  [.put [1] [10], .rotate, .put [1] [11], .put [2] [20], .rotate, .flushBegin 1, .del [2], .flushCommit, .put [3] [30]]

example : (runBoth {} [] demo).isSome = true := by decide
example : (runBoth {} [] demo).map (fun sm => answer (get sm.1 [1])) = some (some [11]) := by decide
example : (runBoth {} [] demo).map (fun sm => answer (get sm.1 [2])) = some none := by decide
example : noCompact demo = true := by decide

/-- a history with a compaction commit that the model accepts (level-0 table 0 merged into level 1) -/
def demoCompact : List Act :=
  [.put [1] [10], .rotate, .flushBegin 1, .flushCommit, .put [1] [11],
   .compact [0] 1 [[⟨[1], 1, false, [10]⟩]], .put [2] [20]]

example : (runBoth {} [] demoCompact).isSome = true := by decide +kernel
example : (runBoth {} [] demoCompact).map (fun sm => answer (get sm.1 [1])) = some (some [11]) := by decide +kernel
example : noCompact demoCompact = false := by decide

/-! non-vacuity of `two_phase_scan`: key `[1]` is put and flushed to level 0, then deleted (the marker sits in the
active memtable together with a live `[1,2]`); between the two phases of the scan that memtable is rotated out and
flushed. The scan (memtables of the earlier state, tables of the later one) sees the marker twice and the old put
once, and returns only `[1,2]`. Reading the phases the other way round (tables first, memtables later) would lose
the marker and resurrect the deleted `[1]`. -/
def demoScanA : List Act :=
  [.put [1] [10], .rotate, .flushBegin 1, .flushCommit, .del [1], .put [1, 2] [20]]
def demoScanB : List Act := [.rotate, .flushBegin 1, .flushCommit]

/-- run `as₁` from the empty database, then `as₂`, and evaluate `f` on the two states -/
def twoPhase {α : Type} (as₁ as₂ : List Act) (f : State → State → α) : Option α :=
  (runBoth {} [] as₁).bind (fun sm => (runBoth sm.1 sm.2 as₂).map (fun sm' => f sm.1 sm'.1))

example : noWrite demoScanB = true := by decide
example : twoPhase demoScanA demoScanB (fun sA sB => scan2 sA sB [1]) = some [⟨[1, 2], 3, false, [20]⟩] := by
  decide +kernel
example : twoPhase demoScanA demoScanB (fun _ sB => sB.levels.flatten.map (·.run)) =
    some [[⟨[1], 1, false, [10]⟩], [⟨[1], 2, true, []⟩, ⟨[1, 2], 3, false, [20]⟩]] := by decide +kernel
example : twoPhase demoScanA demoScanB (fun _ sB => sB.mems) = some [[]] := by decide +kernel
/-- the opposite phase order is wrong on the same schedule -/
example : twoPhase demoScanA demoScanB (fun sA sB => scan2 sB sA [1]) = some [⟨[1], 1, false, [10]⟩] := by
  decide +kernel

end Rxn.C07
