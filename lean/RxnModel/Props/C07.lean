import RxnModel.Proofs.LsmScan
import RxnModel.Proofs.LsmScan2
import RxnModel.Proofs.LsmOrder
import RxnModel.Proofs.CompactionSound
/-!
# C07 — DKV reads return the latest write at every moment

Model: `Model/Lsm.lean` (one action per mutex section / pointer snapshot of `dkv/db.go`; background flush and
compaction commits and memtable rotation are free actions, so every size setting and every placement of the
background tasks relative to foreground reads and writes is covered by quantifying over the action list).
Specification: `Spec` = the list of writes, newest first; `Spec.get` = the last write to the key.

`CompactionSound` (every change set passing the executable test `safeCS` preserves the invariant) is the one
obligation that belongs to C18; it is proved there (`Rxn.Compaction.compactionSound`, `Proofs/CompactionSound.lean`)
and used here, so every theorem below is unconditional and covers histories with compaction commits at arbitrary
points. (The `_noCompact` versions do not depend on the compaction proof.)

Two descriptions of the reads. `Model/Lsm.lean` (`get`, `getBResult`, `scan`, `scan2`) describes the level list
order-insensitively (deeper level: "the table whose range contains the key"; scan: merge of all tables).
`Model/Rescale.lean` + `Model/LsmCode.lean` (`Rescale.getR`, `getBResultR`, `Rescale.scanR`, `scan2R`) model what
`dkv/sst/level_list.go` executes: `SearchUnique` over `RangeKeyCompare` per deeper level for point reads, and for
scans `AllTablesForPrefix` (level 0 filtered by `RangeContainsPrefix`, deeper levels `slices.BinarySearchFunc` over
`RangePrefixCompare` plus the forward walk), with the compare functions regenerated from `dkv/sst/table.go`. The
`*_code` theorems below are about the latter (and are what the driver executes); they rest on the additional
invariant `DeepOrdered` (every deeper level ascending by key range), proved for every reachable state
(`reachable_ordered`), under which the binary searches find what the order-insensitive description finds
(`code_reads_agree`).
-/
namespace Rxn.C07
open Rxn Rxn.Lsm

/-- the spec is "last write wins": after a put/delete the key maps to that write, other keys are untouched -/
theorem spec_last_write_wins (m : Spec) (seq : Nat) (k v k' : Bytes) :
    Spec.get (specStep m seq (.put k v)) k' = (if k = k' then some ⟨k, seq + 1, false, v⟩ else Spec.get m k') ∧
    Spec.get (specStep m seq (.del k)) k' = (if k = k' then some ⟨k, seq + 1, true, []⟩ else Spec.get m k') := by
  simp [specStep, Spec.get, Run.lookup]

/-- every state reachable from the empty database satisfies the refinement invariant -/
theorem reachable_inv (as : List Act) (s : State) (m : Spec)
    (hc : noCompact as = true ∨ CompactionSound) (h : runBoth {} [] as = some (s, m)) : Inv s m ∧ ReadInv s m :=
  runBoth_inv (fun _ => trivial) as {} [] s m hc inv_init readInv_init h

/-- **Get returns the most recently written entry** (value or delete marker) in every reachable state: after any
history of puts, deletes, rotations, flush begins/commits, compaction commits and reads -/
theorem get_returns_latest_write (as : List Act) (s : State) (m : Spec)
    (h : runBoth {} [] as = some (s, m)) (k : Bytes) :
    get s k = Spec.get m k ∧ answer (get s k) = answer (Spec.get m k) := by
  have hi := (reachable_inv as s m (Or.inr Rxn.Compaction.compactionSound) h).1
  have : get s k = Spec.get m k := by rw [get_eq_firstHit hi]; exact hi.hit k
  exact ⟨this, by rw [this]⟩

/-- the same without any assumption, for histories with rotations and flushes at arbitrary points but no compaction -/
theorem get_returns_latest_write_noCompact (as : List Act) (hn : noCompact as = true) (s : State) (m : Spec)
    (h : runBoth {} [] as = some (s, m)) (k : Bytes) : get s k = Spec.get m k := by
  have hi := (reachable_inv as s m (Or.inl hn) h).1
  rw [get_eq_firstHit hi]; exact hi.hit k

/-- a `Get` whose two phases (memtables, then sstables) are separated by arbitrary background commits still
returns the latest write -/
theorem two_phase_read (as : List Act) (s : State) (m : Spec)
    (h : runBoth {} [] as = some (s, m)) (k : Bytes) (r : Option Entry) (hr : s.reading = some (k, r)) :
    getBResult s = Spec.get m k := by
  have hi := reachable_inv as s m (Or.inr Rxn.Compaction.compactionSound) h
  exact getB_correct hi.1 hi.2 k r hr

/-- **ScanPrefix returns exactly the live keys with the prefix, each once, in ascending order, with their latest
values** in every reachable state -/
theorem scan_returns_live_keys (as : List Act) (s : State) (m : Spec)
    (h : runBoth {} [] as = some (s, m)) (p : Bytes) :
    (scan s p).Pairwise (fun a b => Bytes.lt a.key b.key = true) ∧
    ∀ e, e ∈ scan s p ↔ (Spec.get m e.key = some e ∧ e.del = false ∧ Bytes.hasPrefix e.key p = true) :=
  scan_spec (reachable_inv as s m (Or.inr Rxn.Compaction.compactionSound) h).1 p

theorem scan_returns_live_keys_noCompact (as : List Act) (hn : noCompact as = true) (s : State) (m : Spec)
    (h : runBoth {} [] as = some (s, m)) (p : Bytes) :
    (scan s p).Pairwise (fun a b => Bytes.lt a.key b.key = true) ∧
    ∀ e, e ∈ scan s p ↔ (Spec.get m e.key = some e ∧ e.del = false ∧ Bytes.hasPrefix e.key p = true) :=
  scan_spec (reachable_inv as s m (Or.inl hn) h).1 p

/-- **A ScanPrefix in two phases** — the memtable list snapshotted and merged in state `sA`
(`db.mtables.ScanPrefix`), the level list snapshotted later in state `sB` (`db.currentSSTables()`), separated by
arbitrary background activity `as₂` (flush begins/commits, compaction commits, rotations, point reads; no foreground
write, which shares the reader's goroutine) — returns exactly the live latest entries with the prefix, each once, in
ascending order. `sA` is any reachable state. -/
theorem two_phase_scan (as₁ as₂ : List Act) (sA sB : State) (m m' : Spec)
    (h1 : runBoth {} [] as₁ = some (sA, m)) (hnw : noWrite as₂ = true) (h2 : runBoth sA m as₂ = some (sB, m'))
    (p : Bytes) :
    m' = m ∧ (scan2 sA sB p).Pairwise (fun a b => Bytes.lt a.key b.key = true) ∧
    ∀ e, e ∈ scan2 sA sB p ↔ (Spec.get m e.key = some e ∧ e.del = false ∧ Bytes.hasPrefix e.key p = true) := by
  have hA := reachable_inv as₁ sA m (Or.inr Rxn.Compaction.compactionSound) h1
  have hB := runBoth_inv (fun _ => trivial) as₂ sA m sB m' (Or.inr Rxn.Compaction.compactionSound) hA.1 hA.2 h2
  obtain ⟨hm, hsub⟩ := runBoth_noWrite sA.mems as₂ sA m sB m' hnw h2 (fun r hr => Or.inl hr)
  subst hm
  exact ⟨rfl, scan2_spec hA.1 hB.1 hsub p⟩

/-! ## the reads with the table selection the code performs -/

/-- every reachable state keeps the deeper levels ascending by key range (what `SearchUnique` and
`slices.BinarySearchFunc` in `level_list.go` rely on), together with the refinement invariant -/
theorem reachable_ordered (as : List Act) (s : State) (m : Spec) (h : runBoth {} [] as = some (s, m)) :
    Inv s m ∧ ReadInv s m ∧ DeepOrdered s :=
  runBoth_inv_ordered as {} [] s m inv_init readInv_init deepOrdered_init h

/-- in every reachable state the binary searches of `tablesForKey` / `AllTablesForPrefix` give the same answers as
the order-insensitive descriptions: same point read, same second phase of a parked read, same scan -/
theorem code_reads_agree (as : List Act) (s : State) (m : Spec) (h : runBoth {} [] as = some (s, m))
    (k p : Bytes) :
    Rescale.getR s k = get s k ∧ getBResultR s = getBResult s ∧ Rescale.scanR s p = scan s p := by
  obtain ⟨hi, _, ho⟩ := reachable_ordered as s m h
  exact ⟨getR_eq_get hi ho k, getBResultR_eq hi ho,
    scan2R_eq_scan2 hi hi ho (fun r hr => Or.inl hr) p⟩

/-- **`DB.Get` as the code computes it** (memtables newest first, level 0 newest first, `SearchUnique` over
`RangeKeyCompare` on every deeper level) returns the most recently written entry in every reachable state -/
theorem get_code_returns_latest_write (as : List Act) (s : State) (m : Spec)
    (h : runBoth {} [] as = some (s, m)) (k : Bytes) :
    Rescale.getR s k = Spec.get m k ∧ answer (Rescale.getR s k) = answer (Spec.get m k) := by
  obtain ⟨hi, _, ho⟩ := reachable_ordered as s m h
  have : Rescale.getR s k = Spec.get m k := by rw [getR_eq_get hi ho, get_eq_firstHit hi]; exact hi.hit k
  exact ⟨this, by rw [this]⟩

/-- a `Get` whose memtable phase and `LevelList.Get` (with its binary searches) are separated by arbitrary
background commits returns the latest write -/
theorem two_phase_read_code (as : List Act) (s : State) (m : Spec)
    (h : runBoth {} [] as = some (s, m)) (k : Bytes) (r : Option Entry) (hr : s.reading = some (k, r)) :
    getBResultR s = Spec.get m k := by
  obtain ⟨hi, hri, ho⟩ := reachable_ordered as s m h
  rw [getBResultR_eq hi ho]
  exact getB_correct hi hri k r hr

/-- **`DB.ScanPrefix` over the tables `AllTablesForPrefix` selects** returns exactly the live keys with the prefix,
each once, ascending, with their latest values, in every reachable state -/
theorem scan_code_returns_live_keys (as : List Act) (s : State) (m : Spec)
    (h : runBoth {} [] as = some (s, m)) (p : Bytes) :
    (Rescale.scanR s p).Pairwise (fun a b => Bytes.lt a.key b.key = true) ∧
    ∀ e, e ∈ Rescale.scanR s p ↔ (Spec.get m e.key = some e ∧ e.del = false ∧ Bytes.hasPrefix e.key p = true) := by
  obtain ⟨hi, _, ho⟩ := reachable_ordered as s m h
  exact scan2R_spec hi hi ho (fun r hr => Or.inl hr) p

/-- **two-phase `DB.ScanPrefix` as the code computes it**: memtables merged in `sA`, then — after arbitrary
background activity without a foreground write — `AllTablesForPrefix` on the level list of `sB` -/
theorem two_phase_scan_code (as₁ as₂ : List Act) (sA sB : State) (m m' : Spec)
    (h1 : runBoth {} [] as₁ = some (sA, m)) (hnw : noWrite as₂ = true) (h2 : runBoth sA m as₂ = some (sB, m'))
    (p : Bytes) :
    m' = m ∧ (scan2R sA sB p).Pairwise (fun a b => Bytes.lt a.key b.key = true) ∧
    ∀ e, e ∈ scan2R sA sB p ↔ (Spec.get m e.key = some e ∧ e.del = false ∧ Bytes.hasPrefix e.key p = true) := by
  obtain ⟨hA, hrA, hoA⟩ := reachable_ordered as₁ sA m h1
  obtain ⟨hB, _, hoB⟩ := runBoth_inv_ordered as₂ sA m sB m' hA hrA hoA h2
  obtain ⟨hm, hsub⟩ := runBoth_noWrite sA.mems as₂ sA m sB m' hnw h2 (fun r hr => Or.inl hr)
  subst hm
  exact ⟨rfl, scan2R_spec hA hB hoB hsub p⟩

/-- **a `ScanPrefix` iterator is a snapshot taken at the call**: both snapshots are taken when `DB.ScanPrefix` is
called (memtable list in `sA`, level list in `sB`; `as₂ = []` when nothing runs in between), the iterator is
consumed later in `sC` after further background activity `as₃` (flush and compaction commits, rotations — no
foreground write: the iterator's consumer is the writer's goroutine). What it yields is fixed by the two snapshots
(`scan2R sA sB p` does not mention `sC`) and is exactly the live latest entries with the prefix at the time of
consumption, ascending — a flush that commits after the call and before the first advance loses nothing. -/
theorem scan_is_snapshot_at_call (as₁ as₂ as₃ : List Act) (sA sB sC : State) (m m' m'' : Spec)
    (h1 : runBoth {} [] as₁ = some (sA, m)) (hnw2 : noWrite as₂ = true) (h2 : runBoth sA m as₂ = some (sB, m'))
    (hnw3 : noWrite as₃ = true) (h3 : runBoth sB m' as₃ = some (sC, m'')) (p : Bytes) :
    m'' = m ∧ (scan2R sA sB p).Pairwise (fun a b => Bytes.lt a.key b.key = true) ∧
    ∀ e, e ∈ scan2R sA sB p ↔ (Spec.get m'' e.key = some e ∧ e.del = false ∧ Bytes.hasPrefix e.key p = true) := by
  obtain ⟨hm', hs, hmem⟩ := two_phase_scan_code as₁ as₂ sA sB m m' h1 hnw2 h2 p
  obtain ⟨hm'', _⟩ := runBoth_noWrite sB.mems as₃ sB m' sC m'' hnw3 h3 (fun r hr => Or.inl hr)
  subst hm''
  subst hm'
  exact ⟨rfl, hs, hmem⟩

/-! ## the same from any start state

The `*_code` theorems above start from the empty database. A reopened (C08) or rescaled (C06) instance starts from a
state built from checkpoint documents; whoever shows `Inv`, `ReadInv` and `DeepOrdered` for that state
(`deepOrdered_of_levelValid` turns C06's `LevelValid` of the deeper levels into `DeepOrdered`) gets all of them for every
later history: -/

/-- the three invariants are kept along every history from any state that satisfies them -/
theorem reachable_ordered_from (s₀ : State) (m₀ : Spec) (h₀ : Inv s₀ m₀) (hr₀ : ReadInv s₀ m₀) (ho₀ : DeepOrdered s₀)
    (as : List Act) (s : State) (m : Spec) (h : runBoth s₀ m₀ as = some (s, m)) :
    Inv s m ∧ ReadInv s m ∧ DeepOrdered s :=
  runBoth_inv_ordered as s₀ m₀ s m h₀ hr₀ ho₀ h

/-- Get, the second phase of a parked Get, and ScanPrefix **as the code computes them**, after any history from any
start state satisfying the invariants -/
theorem code_reads_from (s₀ : State) (m₀ : Spec) (h₀ : Inv s₀ m₀) (hr₀ : ReadInv s₀ m₀) (ho₀ : DeepOrdered s₀)
    (as : List Act) (s : State) (m : Spec) (h : runBoth s₀ m₀ as = some (s, m)) :
    (∀ k, Rescale.getR s k = Spec.get m k) ∧
    (∀ k r, s.reading = some (k, r) → getBResultR s = Spec.get m k) ∧
    (∀ p, (Rescale.scanR s p).Pairwise (fun a b => Bytes.lt a.key b.key = true) ∧
      ∀ e, e ∈ Rescale.scanR s p ↔ (Spec.get m e.key = some e ∧ e.del = false ∧ Bytes.hasPrefix e.key p = true)) := by
  obtain ⟨hi, hri, ho⟩ := reachable_ordered_from s₀ m₀ h₀ hr₀ ho₀ as s m h
  refine ⟨?_, ?_, ?_⟩
  · intro k; rw [getR_eq_get hi ho, get_eq_firstHit hi]; exact hi.hit k
  · intro k r hr; rw [getBResultR_eq hi ho]; exact getB_correct hi hri k r hr
  · intro p; exact scan2R_spec hi hi ho (fun r hr => Or.inl hr) p

/-- the two-phase / held-iterator scan as the code computes it, from any start state satisfying the invariants:
memtables merged in `sA` (reached by `as₁`), level list of `sB` (after write-free `as₂`), consumed in `sC` (after
write-free `as₃`) -/
theorem two_phase_scan_code_from (s₀ : State) (m₀ : Spec) (h₀ : Inv s₀ m₀) (hr₀ : ReadInv s₀ m₀) (ho₀ : DeepOrdered s₀)
    (as₁ as₂ as₃ : List Act) (sA sB sC : State) (m m' m'' : Spec)
    (h1 : runBoth s₀ m₀ as₁ = some (sA, m)) (hnw2 : noWrite as₂ = true) (h2 : runBoth sA m as₂ = some (sB, m'))
    (hnw3 : noWrite as₃ = true) (h3 : runBoth sB m' as₃ = some (sC, m'')) (p : Bytes) :
    m' = m ∧ m'' = m ∧ (scan2R sA sB p).Pairwise (fun a b => Bytes.lt a.key b.key = true) ∧
    ∀ e, e ∈ scan2R sA sB p ↔ (Spec.get m e.key = some e ∧ e.del = false ∧ Bytes.hasPrefix e.key p = true) := by
  obtain ⟨hA, hrA, hoA⟩ := reachable_ordered_from s₀ m₀ h₀ hr₀ ho₀ as₁ sA m h1
  obtain ⟨hB, _, hoB⟩ := runBoth_inv_ordered as₂ sA m sB m' hA hrA hoA h2
  obtain ⟨hm, hsub⟩ := runBoth_noWrite sA.mems as₂ sA m sB m' hnw2 h2 (fun r hr => Or.inl hr)
  obtain ⟨hm2, _⟩ := runBoth_noWrite sB.mems as₃ sB m' sC m'' hnw3 h3 (fun r hr => Or.inl hr)
  subst hm
  subst hm2
  exact ⟨rfl, rfl, scan2R_spec hA hB hoB hsub p⟩

/-- the order of a deeper level matters to the code's reads and not to the order-insensitive description: on a
level list whose level 1 is stored in descending range order (never reachable) `SearchUnique` misses the key -/
example :
    let s : State := { levels := [[], [⟨1, [⟨[2], 2, false, [20]⟩]⟩, ⟨0, [⟨[1], 1, false, [10]⟩]⟩, ⟨2, [⟨[0], 3, false, [30]⟩]⟩]] }
    get s [2] = some ⟨[2], 2, false, [20]⟩ ∧ Rescale.getR s [2] = none := by decide +kernel

/-! non-vacuity: a history with an overwrite, a delete, two rotations and a flush is accepted by the model, leaves
the key in three containers, and reads the latest version -/
def demo : List Act :=
  [.put [1] [10], .rotate, .put [1] [11], .put [2] [20], .rotate, .flushBegin 1, .del [2], .flushCommit, .put [3] [30]]

example : (runBoth {} [] demo).isSome = true := by decide
example : (runBoth {} [] demo).map (fun sm => answer (get sm.1 [1])) = some (some [11]) := by decide
example : (runBoth {} [] demo).map (fun sm => answer (get sm.1 [2])) = some none := by decide
example : noCompact demo = true := by decide

/-- a history with a compaction commit that the model accepts (level-0 table 0 merged into level 1) -/
def demoCompact : List Act :=
  [.put [1] [10], .rotate, .flushBegin 1, .flushCommit, .put [1] [11],
   .compact [0] 1 [[⟨[1], 1, false, [10]⟩]], .put [2] [20]]

example : (runBoth {} [] demoCompact).isSome = true := by decide +kernel
example : (runBoth {} [] demoCompact).map (fun sm => answer (get sm.1 [1])) = some (some [11]) := by decide +kernel
example : noCompact demoCompact = false := by decide

/-! non-vacuity of `two_phase_scan`: key `[1]` is put and flushed to level 0, then deleted (the marker sits in the
active memtable together with a live `[1,2]`); between the two phases of the scan that memtable is rotated out and
flushed. The scan (memtables of the earlier state, tables of the later one) sees the marker twice and the old put
once, and returns only `[1,2]`. Reading the phases the other way round (tables first, memtables later) would lose
the marker and resurrect the deleted `[1]`. -/
def demoScanA : List Act :=
  [.put [1] [10], .rotate, .flushBegin 1, .flushCommit, .del [1], .put [1, 2] [20]]
def demoScanB : List Act := [.rotate, .flushBegin 1, .flushCommit]

/-- run `as₁` from the empty database, then `as₂`, and evaluate `f` on the two states -/
def twoPhase {α : Type} (as₁ as₂ : List Act) (f : State → State → α) : Option α :=
  (runBoth {} [] as₁).bind (fun sm => (runBoth sm.1 sm.2 as₂).map (fun sm' => f sm.1 sm'.1))

example : noWrite demoScanB = true := by decide
example : twoPhase demoScanA demoScanB (fun sA sB => scan2 sA sB [1]) = some [⟨[1, 2], 3, false, [20]⟩] := by
  decide +kernel
example : twoPhase demoScanA demoScanB (fun _ sB => sB.levels.flatten.map (·.run)) =
    some [[⟨[1], 1, false, [10]⟩], [⟨[1], 2, true, []⟩, ⟨[1, 2], 3, false, [20]⟩]] := by decide +kernel
example : twoPhase demoScanA demoScanB (fun _ sB => sB.mems) = some [[]] := by decide +kernel
/-- the opposite phase order is wrong on the same schedule -/
example : twoPhase demoScanA demoScanB (fun sA sB => scan2 sB sA [1]) = some [⟨[1], 1, false, [10]⟩] := by
  decide +kernel

/-! non-vacuity of the `*_code` theorems: a history that builds a two-table level 1 (two flushes, then a compaction
of both level-0 tables cut into two chunks), after which the binary searches are exercised: the point read of `[2]`
must pick the second table of level 1, the scan of prefix `[2]` starts its forward walk there -/
def demoDeep : List Act :=
  [.put [1] [10], .put [2] [20], .rotate, .flushBegin 1, .flushCommit,
   .put [2, 5] [25], .put [3] [30], .rotate, .flushBegin 1, .flushCommit,
   .compact [0, 1] 1 [[⟨[1], 1, false, [10]⟩, ⟨[2], 2, false, [20]⟩], [⟨[2, 5], 3, false, [25]⟩, ⟨[3], 4, false, [30]⟩]],
   .del [2]]

example : (runBoth {} [] demoDeep).map (fun sm => sm.1.levels.map (fun l => l.map (·.id))) =
    some [[], [2, 3], [], [], [], []] := by decide +kernel
example : (runBoth {} [] demoDeep).map (fun sm => Rescale.getR sm.1 [2, 5]) = some (some ⟨[2, 5], 3, false, [25]⟩) := by
  decide +kernel
example : (runBoth {} [] demoDeep).map (fun sm => (Rescale.tablesForPrefix sm.1.levels [2]).map (·.id)) = some [2, 3] := by
  decide +kernel
example : (runBoth {} [] demoDeep).map (fun sm => (Rescale.tablesForPrefix sm.1.levels [3]).map (·.id)) = some [3] := by
  decide +kernel
example : (runBoth {} [] demoDeep).map (fun sm => Rescale.scanR sm.1 [2]) = some [⟨[2, 5], 3, false, [25]⟩] := by
  decide +kernel
example : twoPhase demoScanA demoScanB (fun sA sB => scan2R sA sB [1]) = some [⟨[1, 2], 3, false, [20]⟩] := by
  decide +kernel

/-! non-vacuity of `scan_is_snapshot_at_call`: the iterator is obtained after `demoScanA` (delete marker and `[1,2]`
in the active memtable), then that memtable is rotated out, flushed and dequeued (`demoScanB` as `as₃`), then the
iterator is consumed: it still yields `[1,2]`; a scan that took its memtable snapshot only at consumption time
(lazily) together with the level list of the call would yield the deleted `[1]` and lose `[1,2]` -/
example : twoPhase demoScanA demoScanB (fun sA _ => scan2R sA sA [1]) = some [⟨[1, 2], 3, false, [20]⟩] := by
  decide +kernel
example : twoPhase demoScanA demoScanB (fun sA sC => scan2R sC sA [1]) = some [⟨[1], 1, false, [10]⟩] := by
  decide +kernel

/-! non-vacuity of the `_from` theorems: the state after `demoDeep` (two-table level 1, a delete marker in memory) is a
start state with the three invariants (`reachable_ordered`); a failed flush (`flushAbort`: the sealed memtable stays
queued, the next flush task takes both sealed memtables) and a parked read across it are accepted and read correctly -/
def demoAbort : List Act :=
  [.put [4] [40], .rotate, .flushBegin 1, .getA [2, 5], .flushAbort]
def demoAbort2 : List Act := [.rotate, .flushBegin 2, .flushCommit, .getB]

example : ((runBoth {} [] demoDeep).bind (fun sm => runBoth sm.1 sm.2 demoAbort)).map
    (fun sm => (sm.1.mems.length, sm.1.flushing.isSome, sm.1.reading.isSome)) = some (2, false, true) := by decide +kernel
example : ((runBoth {} [] demoDeep).bind (fun sm => runBoth sm.1 sm.2 (demoAbort ++ demoAbort2))).map
    (fun sm => (sm.1.mems.length, (sm.1.levels.headD []).length, Rescale.getR sm.1 [4], answer (Rescale.getR sm.1 [2])))
    = some (1, 2, some ⟨[4], 6, false, [40]⟩, none) := by decide +kernel
example : ((runBoth {} [] demoDeep).bind (fun sm => runBoth sm.1 sm.2 (demoAbort ++ demoAbort2.dropLast))).map
    (fun sm => getBResultR sm.1) = some (some ⟨[2, 5], 3, false, [25]⟩) := by decide +kernel

end Rxn.C07
