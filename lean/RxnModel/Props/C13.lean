import RxnModel.Generated.Facts
import RxnModel.Proofs.Publish
/-!
# C13 — restart resumes from the newest completed checkpoint; retention keeps it

Property theorems only. Model: `Model/Publish.lean` (file names, `LoadCheckpoint`, the asynchronous steps of
`finishSnapshotAsync`, crash/restart), on top of `Model/Store.lean`. The model describes the code after the
repairs D13 (out-of-order publications) and D14 (load the highest id instead of the first listed file);
the witnesses of the old behaviour are kept below as regression facts about the old rules.
`run (init files0) as` ranges over every starting storage content and every interleaving of store calls,
writes, lock sections, removals, notification deliveries and crashes.
-/
namespace Rxn.C13
open Rxn Rxn.Publish

/-- the regenerated shape of `pathSegment` is the one the model encodes -/
theorem segment_shape :
    Facts.segComplementOf = 2 ^ 64 - 1 ∧ Facts.segWidth = 8 ∧ Facts.segBigEndian = 1 ∧
    Facts.segURLAlphabet = 1 ∧ Facts.segPadded = 0 := by decide

/-- file names identify their checkpoint: decoding the name of checkpoint `id` gives `id` (all 64-bit ids) -/
theorem name_roundtrip (id : Nat) (h : id < 2 ^ 64) : decodeName (snapName id) = some id := by
  have hc : complBase = 2 ^ 64 - 1 := segment_shape.1
  exact decode_snapName (by rw [hc]; omega) (by rw [hc]; decide)

/-- a listing of snapshot files (any order) decodes to the ids it was written for -/
theorem listing_decodes (ids : List Nat) (h : ∀ id ∈ ids, id < 2 ^ 64) :
    (ids.map snapName).filterMap decodeName = ids := by
  induction ids with
  | nil => rfl
  | cons a t ih =>
    have ha := name_roundtrip a (h a List.mem_cons_self)
    have ht := ih (fun x hx => h x (List.mem_cons_of_mem _ hx))
    simp only [List.map_cons, List.filterMap_cons, ha, ht]

/-- `LoadCheckpoint` picks the highest id among the snapshot files, whatever the listing order -/
theorem load_picks_max (ids : List Nat) :
    (load ids = none ↔ ids = []) ∧ ∀ id, load ids = some id → id ∈ ids ∧ ∀ f ∈ ids, f ≤ id := by
  rw [load_eq]
  by_cases h : ids = []
  · simp [h]
  · simp only [h, if_false, Option.some.injEq]
    refine ⟨by simp, ?_⟩
    intro id hid; subst hid
    exact ⟨maxL_mem h, fun f hf => le_maxL hf⟩

/-- the same on the level of file names, as `List()` yields them -/
theorem load_from_listing (ids : List Nat) (h : ∀ id ∈ ids, id < 2 ^ 64) (id : Nat)
    (hl : loadNames (ids.map snapName) = some id) : id ∈ ids ∧ ∀ f ∈ ids, f ≤ id := by
  unfold loadNames at hl
  rw [listing_decodes ids h] at hl
  exact (load_picks_max ids).2 id hl

/-- D14 (repaired): base64url names are not ordered by id, so the old rule "first listed `.snapshot` file"
resumed from checkpoint 2 although checkpoint 3 was complete; the loop of the repaired code picks 3. -/
theorem firstListed_counterexample : loadFirstListed [2, 3] = some 2 ∧ loadNames ([2, 3].map snapName) = some 3 := by
  decide

/-- Retention never removes the newest persisted checkpoint: in every reachable state its file is in
storage and no started `Remove` names it; the current checkpoint is the highest published one. -/
theorem retention_safe (files0 : List Nat) (as : List Act) (s : Sys) (obs : List Obs)
    (h : run (init files0) as = some (s, obs)) :
    (s.pub.written ≠ [] → maxL s.pub.written ∈ s.pub.files) ∧
    (∀ R ∈ s.pub.removes, maxL s.pub.written ∉ R) ∧
    (∀ cur, s.pub.current = some cur → cur ∈ s.pub.written ∧ ∀ c ∈ s.pub.completed, c ≤ cur) := by
  have hi := run_inv as (inv_init files0) h
  refine ⟨?_, ?_, ?_⟩
  · intro hw
    have hf := hi.files_ne hw
    rw [← hi.maxFiles_eq hf]; exact maxL_mem hf
  · intro R hR hm
    have hlt := hi.remLt R hR _ hm
    have hf : s.pub.files ≠ [] := by intro he; rw [he] at hlt; simp [maxL] at hlt
    rw [hi.maxFiles_eq hf] at hlt
    exact Nat.lt_irrefl _ hlt
  · intro cur hc
    exact ⟨hi.compWr cur (getLast?_mem hc), hi.curMax cur hc⟩

/-- The storage part of `retention_safe` for BOTH job configurations (started without a savepoint URI, or configured
with the savepoint of checkpoint `k`, which re-enters the savepoint path at every crash): the newest persisted snapshot
file is present and no started `Remove` names it; every persisted id is at most the id counter. Only which checkpoint is
*current* after a restart differs for savepoint-configured jobs (D64). -/
theorem newest_file_kept_any_config (s0 : Sys)
    (h0 : (∃ files0, s0 = init files0) ∨ (∃ k files0, s0 = initSavepoint k files0))
    (as : List Act) (s : Sys) (obs : List Obs) (h : run s0 as = some (s, obs)) :
    (s.pub.written ≠ [] → maxL s.pub.written ∈ s.pub.files) ∧
    (∀ R ∈ s.pub.removes, maxL s.pub.written ∉ R) ∧
    (∀ w ∈ s.pub.written, w ≤ s.store.cid) := by
  have hc0 : InvCore s0 := by
    rcases h0 with ⟨f, rfl⟩ | ⟨k, f, rfl⟩
    · exact (inv_init f).core
    · exact core_initSavepoint k f
  have hi := run_core as hc0 h
  refine ⟨?_, ?_, hi.wrCid⟩
  · intro hw
    have hf := hi.files_ne hw
    rw [← hi.maxFiles_eq hf]; exact maxL_mem hf
  · intro R hR hm
    have hlt := hi.remLt R hR _ hm
    have hf : s.pub.files ≠ [] := by intro he; rw [he] at hlt; simp [maxL] at hlt
    rw [hi.maxFiles_eq hf] at hlt
    exact Nat.lt_irrefl _ hlt

/-- A retained-ids notification names exactly the checkpoint that becomes current, and that checkpoint is
newer than everything published before: an older checkpoint is never named as the only one to keep. -/
theorem notify_names_newest (s s' : Sys) (n : Nat) (obsolete : List Nat)
    (h : step s (.lock n) = some (s', [.locked n obsolete true])) :
    s'.pub.current = some n ∧ (∀ c ∈ s.pub.completed, c < n) ∧
    s'.pub.notifs = s.pub.notifs ++ [[n]] ∧ (∀ k ∈ obsolete, k < n) := by
  simp only [step] at h
  by_cases hin : (n, true) ∈ s.pub.inflight
  · rw [if_pos hin] at h
    simp only [lockUpdate, Option.some.injEq, Prod.mk.injEq, List.cons.injEq, Obs.locked.injEq, true_and,
      and_true, Bool.and_eq_true, Bool.not_eq_true', List.isEmpty_iff] at h
    obtain ⟨rfl, hobs, hne, hnewer⟩ := h
    have hall : ∀ c ∈ s.pub.completed, c < n := by
      intro c hc
      by_cases hlt : c < n
      · exact hlt
      · have : c ∈ s.pub.completed.filter (fun c => decide ¬ c < n) :=
          List.mem_filter.mpr ⟨hc, by simpa using hlt⟩
        rw [hnewer] at this; simp at this
    refine ⟨by simp only [Pub.current, hnewer]; rfl, hall, ?_, ?_⟩
    · simp only [hne, hnewer]; rfl
    · intro k hk; rw [← hobs] at hk
      simpa using (List.mem_filter.mp hk).2
  · rw [if_neg hin] at h; exact absurd h (by simp)

/-- D13 (repaired): with the old lock section, checkpoint 2 finishing after checkpoint 3 made 2 the current
checkpoint, scheduled the file of 3 for removal and announced `[2]`; the repaired section keeps 3. -/
theorem oldLock_counterexample :
    let p0 : Pub := { files := [2, 3], completed := [3], inflight := [(2, true)], removes := [], notifs := [],
                      written := [2, 3, 1], delivered := [3] }
    ((lockUpdateOld p0 2).1.current = some 2 ∧ (lockUpdateOld p0 2).1.removes = [[3]] ∧
      (lockUpdateOld p0 2).1.notifs = [[2]]) ∧
    ((lockUpdate p0 2).1.current = some 3 ∧ (lockUpdate p0 2).1.removes = [] ∧ (lockUpdate p0 2).1.notifs = []) := by
  decide

/-- The retained-ids notifications the job receives name strictly increasing ids (across restarts as well):
"telling operators what to retain never names an older one as the only one to keep". Holds because the
notifications are queued under the lock and sent by the single `announceRetained` goroutine (D54 repair;
`announcer_shape`). -/
theorem notifications_increase (files0 : List Nat) (as : List Act) (s : Sys) (obs : List Obs)
    (h : run (init files0) as = some (s, obs)) : s.pub.delivered.Pairwise (· < ·) := by
  have hi := run_inv as (inv_init files0) h
  exact (List.pairwise_append.mp (hi.notifSorted hi.fifoTrue)).1

/-- the notifications are decided in strictly increasing order, and every id ever announced or queued is a
persisted checkpoint not newer than the current one -/
theorem notifications_sound (files0 : List Nat) (as : List Act) (s : Sys) (obs : List Obs)
    (h : run (init files0) as = some (s, obs)) :
    s.pub.notifs.flatten.Pairwise (· < ·) ∧
    ∀ k ∈ s.pub.delivered ++ s.pub.notifs.flatten, k ∈ s.pub.written ∧ ∃ c ∈ s.pub.completed, k ≤ c := by
  have hi := run_inv as (inv_init files0) h
  exact ⟨hi.queueSorted, fun k hk => ⟨hi.notifWr k hk, hi.notifLe k hk⟩⟩

/-- the regenerated shape of the announcer: the channel send happens only in `announceRetained`, the queue is
appended to only inside the `stateMu` section of `finishSnapshotAsync`, the goroutine is started only there and
only when none is running, and `announceRetained` dequeues under the lock -/
theorem announcer_shape : Facts.c13SingleAnnouncer = 1 := by decide

/-- D54 (repaired): with the old rule — a goroutine per notification, any started one may get its send through
(`deliverAt s k`) — checkpoints 2 and 3 published in order could be announced as `[3]` then `[2]`: after 3 was
announced the operators were told to keep only checkpoint 2. The single announcer delivers `[2]` then `[3]`. -/
theorem notifications_reordered_counterexample :
    let pre : List Act :=
      [.call (.create [1] [1]), .call (.opAck 1 1 0), .call (.srAck 1 1 []), .write 1, .lock 1,
       .call (.create [1] [1]), .call (.opAck 1 2 0), .call (.srAck 1 2 []), .write 2, .lock 2,
       .call (.create [1] [1]), .call (.opAck 1 3 0), .call (.srAck 1 3 []), .write 3, .lock 3]
    (((run (init []) pre).bind (fun r => deliverAt r.1 1)).bind (fun r => deliverAt r.1 0)).map
        (fun r => r.1.pub.delivered) = some [3, 2] ∧
    (run (init []) (pre ++ [.deliver, .deliver])).map (fun r => r.1.pub.delivered) = some [2, 3] := by decide

/-- the leftover of a crash inside `LocalDirectory.Write` (D60 repair: temporary file + rename) is not a
snapshot file: its name starts with `.`, so `checkpointIDFromFilePath` rejects it whatever follows -/
theorem tmp_name_ignored (id : Nat) (suffix : Bytes) : decodeName (tmpName id suffix) = none := by
  simp [tmpName, decodeName, namePrefix, stripPrefix]

/-- D60 (repaired): with the old `Write` (final name created first, content copied afterwards) a crash in the
middle of the write of checkpoint 2 left its cut-off file as the newest snapshot file and `LoadCheckpoint` failed on
it, although checkpoint 1 was complete; with the atomic write the storage holds only checkpoint 1 and it is loaded. -/
theorem truncatedNewest_counterexample :
    loadOldWrite [(1, true), (2, false)] = none ∧ load [1] = some 1 := by decide

/- FULL STATEMENT (false on the code, D64): "whenever the job (re)starts it recovers from the completed checkpoint
with the highest id present in its storage" — for every job. `crash_recovers_newest_partial` and
`current_never_regresses_partial` prove it for jobs configured WITHOUT a savepoint URI (`init`; `Sys.savepoint = none`
is an invariant of such runs). A job configured with a savepoint URI keeps the URI, and every restart takes the
savepoint path of `LoadCheckpoint` again: -/
/-- D64 (open): the job is started from the savepoint of checkpoint 1, publishes checkpoints 2 and 3, and crashes:
the restart loads savepoint 1 again although the complete checkpoint 3 is in its storage (all progress since the
savepoint is discarded; the id counter continues after 3). The code's own comment calls the override provisional. -/
theorem savepoint_restart_goes_back_counterexample :
    (run (initSavepoint 1 [1])
      [.call (.create [1] [1]), .call (.opAck 1 2 0), .call (.srAck 1 2 []), .write 2, .lock 2,
       .call (.create [1] [1]), .call (.opAck 1 3 0), .call (.srAck 1 3 []), .write 3, .lock 3, .remove [1], .remove [2],
       .crash]).map (fun r => (r.1.pub.files, r.1.pub.current, r.1.store.cid, r.2.getLast?.map (fun o => match o with | .loaded x => x | _ => none)))
    = some ([3], some 1, 3, some (some 1)) ∧ load [3] = some 3 := by decide

/-- the current checkpoint never goes back, whatever step comes next (late publications, crash) -/
theorem current_never_regresses_partial (files0 : List Nat) (as : List Act) (s : Sys) (obs : List Obs)
    (h : run (init files0) as = some (s, obs)) (a : Act) (s' : Sys) (obs' : List Obs)
    (hs : step s a = some (s', obs')) (cur : Nat) (hc : s.pub.current = some cur) :
    ∃ cur', s'.pub.current = some cur' ∧ cur ≤ cur' := by
  have hi := run_inv as (inv_init files0) h
  unfold Pub.current at hc ⊢
  cases a with
  | call c =>
    simp only [step] at hs
    cases hf : (Store.step s.store c).2.2 with
    | none => rw [hf] at hs; simp only [Option.some.injEq, Prod.mk.injEq] at hs; rw [← hs.1]; exact ⟨cur, hc, Nat.le_refl _⟩
    | some snap => rw [hf] at hs; simp only [Option.some.injEq, Prod.mk.injEq] at hs; rw [← hs.1]; exact ⟨cur, hc, Nat.le_refl _⟩
  | write n =>
    simp only [step] at hs
    split at hs
    · simp only [Option.some.injEq, Prod.mk.injEq] at hs; rw [← hs.1]; exact ⟨cur, hc, Nat.le_refl _⟩
    · exact absurd hs (by simp)
  | remove ids =>
    simp only [step] at hs
    split at hs
    · simp only [Option.some.injEq, Prod.mk.injEq] at hs; rw [← hs.1]; exact ⟨cur, hc, Nat.le_refl _⟩
    · exact absurd hs (by simp)
  | deliver =>
    simp only [step, deliverAt] at hs
    split at hs
    · exact absurd hs (by simp)
    · simp only [Option.some.injEq, Prod.mk.injEq] at hs; rw [← hs.1]; exact ⟨cur, hc, Nat.le_refl _⟩
  | lock n =>
    simp only [step] at hs
    split at hs
    · simp only [lockUpdate, Option.some.injEq, Prod.mk.injEq] at hs
      rw [← hs.1]
      simp only
      by_cases hlt : cur < n
      · -- everything published so far is older: `n` becomes current
        have hnil : s.pub.completed.filter (fun c => decide ¬ c < n) = [] := by
          apply List.filter_eq_nil_iff.mpr
          intro c hcm
          have := hi.curMax cur hc c hcm
          simp only [decide_eq_true_eq, Decidable.not_not]; omega
        rw [hnil]; exact ⟨n, rfl, by omega⟩
      · have hlast := getLast?_filter_pos (p := fun c => decide ¬ c < n) hc (by simpa using hlt)
        cases hnew : s.pub.completed.filter (fun c => decide ¬ c < n) with
        | nil => rw [hnew] at hlast; simp at hlast
        | cons b u =>
          rw [hnew] at hlast
          rw [List.getLast?_cons_cons, hlast]
          exact ⟨cur, rfl, Nat.le_refl _⟩
    · exact absurd hs (by simp)
  | crash =>
    simp only [step, hi.noSp, Option.some.injEq, Prod.mk.injEq] at hs
    rw [← hs.1]
    have hw := hi.compWr cur (getLast?_mem hc)
    have hne : s.pub.files ≠ [] := hi.files_ne (by intro he; rw [he] at hw; simp at hw)
    simp only [boot, load_of_ne hne, Option.toList_some, List.getLast?_singleton]
    exact ⟨_, rfl, hi.wr_le_max hw⟩

/-- A crash after any step recovers the newest checkpoint whose write completed: `LoadCheckpoint` on what is
in storage returns the highest id ever persisted, it becomes the current checkpoint and the id counter. -/
theorem crash_recovers_newest_partial (files0 : List Nat) (as : List Act) (s : Sys) (obs : List Obs)
    (h : run (init files0) as = some (s, obs)) :
    ∃ s', step s .crash = some (s', [.loaded (if s.pub.written = [] then none else some (maxL s.pub.written))]) ∧
      s'.pub.current = (if s.pub.written = [] then none else some (maxL s.pub.written)) ∧
      s'.store.cid = maxL s.pub.written ∧ s'.store.pending = none ∧ s'.pub.files = s.pub.files := by
  have hi := run_inv as (inv_init files0) h
  refine ⟨boot s.pub.files s.pub.written s.pub.delivered s.pub.initial s.pub.finished s.pub.fifo, ?_, ?_, ?_, rfl, rfl⟩
  · simp only [step, hi.noSp]
    by_cases hw : s.pub.written = []
    · have hf : s.pub.files = [] := by
        cases hfl : s.pub.files with
        | nil => rfl
        | cons a t => have := hi.fileWr a (by rw [hfl]; exact List.mem_cons_self); rw [hw] at this; simp at this
      simp [hw, hf, load_nil]
    · have hf := hi.files_ne hw
      simp [hw, load_of_ne hf, hi.maxFiles_eq hf]
  · by_cases hw : s.pub.written = []
    · have hf : s.pub.files = [] := by
        cases hfl : s.pub.files with
        | nil => rfl
        | cons a t => have := hi.fileWr a (by rw [hfl]; exact List.mem_cons_self); rw [hw] at this; simp at this
      simp [hw, hf, boot, load_nil, Pub.current]
    · have hf := hi.files_ne hw
      simp [hw, boot, load_of_ne hf, hi.maxFiles_eq hf, Pub.current]
  · by_cases hw : s.pub.written = []
    · have hf : s.pub.files = [] := by
        cases hfl : s.pub.files with
        | nil => rfl
        | cons a t => have := hi.fileWr a (by rw [hfl]; exact List.mem_cons_self); rw [hw] at this; simp at this
      simp [hw, hf, boot, load_nil, maxL]
    · have hf := hi.files_ne hw
      simp [boot, load_of_ne hf, hi.maxFiles_eq hf]

/-! ## non-vacuity: overlapping publications 2 and 3 (3 finishes first), late 2, cleanup, crash -/

def demo : List Act :=
  [.call (.create [1] [1]), .call (.opAck 1 1 0), .call (.srAck 1 1 [5]), .write 1, .lock 1,
   .call (.create [1] [1]), .call (.opAck 1 2 0), .call (.srAck 1 2 [5]),
   .call (.create [1] [1]), .call (.opAck 1 3 0), .call (.srAck 1 3 [5]),
   .write 3, .lock 3, .write 2, .lock 2, .remove [1], .deliver, .crash]

example : (run (init []) demo).map (fun r => (r.1.pub.files, r.1.pub.completed, r.1.pub.delivered, r.1.store.cid))
    = some ([2, 3], [3], [3], 3) := by decide

example : (run (init [7, 2 ^ 64 - 1]) [.crash]).map (fun r => r.1.pub.completed) = some [2 ^ 64 - 1] := by decide

end Rxn.C13
