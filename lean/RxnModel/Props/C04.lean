import RxnModel.Generated.Facts
import RxnModel.Proofs.Runner
import RxnModel.Model.RunnerRF
import RxnModel.Props.C20
/-!
# C04 — failure-free delivery: every record exactly once, per-split key order kept

Property theorems only. Model: `Model/Runner.lean` — the read loop, the `outputStream` of placeholders, the join
with the in-order results of the reorder fetcher, routing, one `EventBatcher` and one sender goroutine per operator,
timer expiries (also stale ones) and operator back-pressure as a transition system; the schedule `as` is universally
quantified. The reorder fetcher is represented by what C20 proves about the real one (`C20.reorder_prefix`,
`C20.reorder_complete`: results come out one per record in `Add` order, after an arbitrary delay); routing is any
function of the key (the code's `KeySpace.RangeIndex`, C05).
-/
namespace Rxn.C04
open Rxn Runner

/-- **the read order**: `s.logical` is the sequence of things the read loop has put on `outputStream`. Its records,
followed by the not yet enqueued rest of the current read, are exactly the records the source reader handed out, in
order (nothing skipped, repeated or swapped between `ReadEvents` and `outputStream`) -/
theorem read_order {ρ : Type} (c : Cfg ρ) (hunbuf : c.handoffBuffered = false) (maxSize : Nat) (hasDelay : Bool)
    (as : List (Act ρ)) (s : St ρ) (hrun : exec c (init maxSize hasDelay) as = some s) :
    recordsOf s.logical ++ s.readBuf = fetchedOf as := by
  obtain ⟨_, _, h⟩ := exec_inv c hunbuf as _ s (init_inv c maxSize hasDelay) (init_cut maxSize hasDelay) hrun
  simpa [init] using h

/-- **barriers cut the read order where the reader was checkpointed**: the cursor `Checkpoint()` returned for a
barrier is exactly the number of records placed on `outputStream` before that barrier — no record the checkpoint
accounts for comes after the barrier, none it does not account for comes before it -/
theorem barrier_cut {ρ : Type} (c : Cfg ρ) (hunbuf : c.handoffBuffered = false) (maxSize : Nat) (hasDelay : Bool)
    (as : List (Act ρ)) (s : St ρ) (hrun : exec c (init maxSize hasDelay) as = some s) :
    s.ckpts = cutsOf s.logical 0 ∧ s.cursor = (recordsOf s.logical).length + s.readBuf.length := by
  obtain ⟨_, h, _⟩ := exec_inv c hunbuf as _ s (init_inv c maxSize hasDelay) (init_cut maxSize hasDelay) hrun
  exact ⟨h.cuts.symm, h.cur.symm⟩

/-- **per-operator stream**: at every moment of every schedule, what operator `q` has been handed, followed by what
the runner still holds for it (in the sender's hand, in `q`'s batcher, in the current placeholder's work list, and in
the not yet processed part of `outputStream`), is exactly the read order restricted to `q` -/
theorem per_operator_stream {ρ : Type} (c : Cfg ρ) (hunbuf : c.handoffBuffered = false) (maxSize : Nat) (hasDelay : Bool) (as : List (Act ρ)) (s : St ρ)
    (hrun : exec c (init maxSize hasDelay) as = some s) (q : Nat) (hq : q < c.nOps) :
    delivered s q ++ pendingFor s q ++ project c q s.stream = project c q s.logical := by
  obtain ⟨h, _, _⟩ := exec_inv c hunbuf as _ s (init_inv c maxSize hasDelay) (init_cut maxSize hasDelay) hrun
  exact h.main q hq

/-- so the delivered stream is always a prefix of the specification: nothing is duplicated, reordered or invented -/
theorem delivery_prefix {ρ : Type} (c : Cfg ρ) (hunbuf : c.handoffBuffered = false) (maxSize : Nat) (hasDelay : Bool) (as : List (Act ρ)) (s : St ρ)
    (hrun : exec c (init maxSize hasDelay) as = some s) (q : Nat) (hq : q < c.nOps) :
    ∃ rest, delivered s q ++ rest = project c q s.logical :=
  ⟨pendingFor s q ++ project c q s.stream, by
    rw [← List.append_assoc]; exact per_operator_stream c hunbuf maxSize hasDelay as s hrun q hq⟩

/-- and once nothing is in flight (`outputStream` consumed, batchers empty, sender idle) every operator has been handed
its whole stream: nothing is lost -/
theorem delivery_complete {ρ : Type} (c : Cfg ρ) (hunbuf : c.handoffBuffered = false) (maxSize : Nat) (hasDelay : Bool) (as : List (Act ρ)) (s : St ρ)
    (hrun : exec c (init maxSize hasDelay) as = some s) (hquiet : quiescent s) (q : Nat) (hq : q < c.nOps) :
    delivered s q = project c q s.logical := by
  have h := per_operator_stream c hunbuf maxSize hasDelay as s hrun q hq
  obtain ⟨h1, h2, h3, h4⟩ := hquiet
  have hp : pendingFor s q = [] := by
    simp only [pendingFor, inHand, h2, h4 q]
    cases hs : s.spc <;> simp_all
  rw [hp, h1] at h
  simpa [project_nil] using h

/-- …and with the current read fully enqueued, "its whole stream" is about every record the reader handed out: the
records of the read order are exactly `fetchedOf as` -/
theorem delivery_complete_all_read {ρ : Type} (c : Cfg ρ) (hunbuf : c.handoffBuffered = false) (maxSize : Nat) (hasDelay : Bool)
    (as : List (Act ρ)) (s : St ρ) (hrun : exec c (init maxSize hasDelay) as = some s) (hquiet : quiescent s)
    (hread : s.readBuf = []) (q : Nat) (hq : q < c.nOps) :
    delivered s q = project c q s.logical ∧ recordsOf s.logical = fetchedOf as := by
  refine ⟨delivery_complete c hunbuf maxSize hasDelay as s hrun hquiet q hq, ?_⟩
  have := read_order c hunbuf maxSize hasDelay as s hrun
  rw [hread] at this
  simpa using this

/-- **exactly once**: after a failure-free run a keyed event has been handed to the operator its key routes to as
often as the user's key function produced it, and to no other operator -/
theorem exactly_once {ρ : Type} (c : Cfg ρ) (hunbuf : c.handoffBuffered = false) (maxSize : Nat) (hasDelay : Bool) (as : List (Act ρ)) (s : St ρ)
    (hrun : exec c (init maxSize hasDelay) as = some s) (hquiet : quiescent s) (q : Nat) (hq : q < c.nOps) (e : KEv) :
    (delivered s q).count (.keyed e) =
      if c.route e.key = q then (expand c s.logical).count (.keyed e) else 0 := by
  rw [delivery_complete c hunbuf maxSize hasDelay as s hrun hquiet q hq, project]
  by_cases h : c.route e.key = q
  · rw [if_pos h, List.count_filter]; simp [keep, h]
  · rw [if_neg h]
    apply List.count_eq_zero.mpr
    intro hm
    have := (List.mem_filter.mp hm).2
    simp [keep, h] at this

/-- **order**: what an operator is handed is a subsequence of the read order — two events of the same split and key
(same operator) arrive in the order the split produced them, and barriers/watermarks keep their place among them -/
theorem order_preserved {ρ : Type} (c : Cfg ρ) (hunbuf : c.handoffBuffered = false) (maxSize : Nat) (hasDelay : Bool) (as : List (Act ρ)) (s : St ρ)
    (hrun : exec c (init maxSize hasDelay) as = some s) (q : Nat) (hq : q < c.nOps) :
    (delivered s q).Sublist (expand c s.logical) := by
  obtain ⟨rest, h⟩ := delivery_prefix c hunbuf maxSize hasDelay as s hrun q hq
  have h1 : (delivered s q).Sublist (project c q s.logical) := by
    rw [← h]; exact List.sublist_append_left _ _
  exact h1.trans List.filter_sublist

/-- **barriers (and watermarks) never overtake**: if the read order is `A`, then the broadcast `b`, then `B`, and
operator `q` has been handed `b`, then before it `q` was handed exactly the part of `A` meant for it, in order -/
theorem broadcast_never_overtakes {ρ : Type} (c : Cfg ρ) (hunbuf : c.handoffBuffered = false) (maxSize : Nat) (hasDelay : Bool) (as : List (Act ρ)) (s : St ρ)
    (hrun : exec c (init maxSize hasDelay) as = some s) (q : Nat) (hq : q < c.nOps)
    (A B : List Ev) (b : Ev) (hb : keep c q b = true) (hsplit : expand c s.logical = A ++ b :: B)
    (hfirst : b ∉ A) (hgot : b ∈ delivered s q) :
    ∃ rest, delivered s q = A.filter (keep c q) ++ b :: rest := by
  obtain ⟨rest, h⟩ := delivery_prefix c hunbuf maxSize hasDelay as s hrun q hq
  rw [project, hsplit, List.filter_append, List.filter_cons, if_pos hb] at h
  rcases List.append_eq_append_iff.mp h with ⟨a', h1, h2⟩ | ⟨c', h1, h2⟩
  · -- delivered is a prefix of A.filter: then b would be in A
    exfalso
    have : b ∈ A.filter (keep c q) := by rw [h1]; exact List.mem_append_left _ hgot
    exact hfirst (List.mem_filter.mp this).1
  · cases c' with
    | nil =>
      exfalso
      simp at h1
      have : b ∈ A.filter (keep c q) := by rw [← h1]; exact hgot
      exact hfirst (List.mem_filter.mp this).1
    | cons x xs =>
      simp at h2
      exact ⟨xs, by rw [h1, h2.1]⟩

/-! non-vacuity: a concrete schedule with two operators, a time-out flush overtaken by a size flush attempt, a stale
token and back-pressure ends quiescent with both streams complete -/

def demoCfg : Cfg (Nat × Nat) :=
  { nOps := 2, route := fun k => k.length % 2, keyOf := fun r => [{ key := List.replicate r.2 0, src := r.1, idx := 0 }] }

def demoSchedule : List (Act (Nat × Nat)) :=
  [.fetch [(1, 0), (2, 1)], .enq, .enq, .barrier 7, .fetch [(3, 0)], .enq, .rfEmit, .sTake, .sAdd, .sIsFull, .fire 0, .oTok 0,
   .rfEmit, .sTake, .sAdd, .sIsFull, .oTFlush 0, .oDone 0, .sTake, .sAdd, .sIsFull, .sAdd, .sIsFull, .sFlush, .sSend,
   .oDone 1, .rfEmit, .sTake, .sAdd, .sIsFull, .sFlush, .stale 0, .oTok 0, .oTFlush 0, .oDone 0, .sSend, .oDone 0]

example : (exec demoCfg (init 2 true) demoSchedule).map (fun s => (delivered s 0, delivered s 1, s.stream.length, s.todo.length)) =
    some ([.keyed ⟨[], 1, 0⟩, .barrier 7, .keyed ⟨[], 3, 0⟩], [.keyed ⟨[0], 2, 0⟩, .barrier 7], 0, 0) := by decide

/-! ## composition with C20: the reorder fetcher behaves as the FIFO the runner model contains

`Runner.St` represents `keyEventChannel` by a FIFO of results (`rfOut ++ rfPending`): `enq` appends `keyOf r`, `sTake`
pops the head, `rfEmit` is internal. The two theorems below derive exactly this behaviour for the *real* fetcher's
transition system (`Model/Reorder.lean`, tied to the code by C20) from `C20.reorder_prefix_no_errors`: with
`φ = ((inputs as).map g).drop (number of results received)` as the abstraction of a fetcher run, `pAdd x` appends `g x`
to `φ`, the consumer's `recv` pops the head of `φ`, and every other action of the fetcher (both flushers, timer expiries,
fetch completions in any order, the drain, sends into `Output`) leaves `φ` unchanged and is invisible. -/

open Reorder in
/-- the results received so far are those of the first records added, in `Add` order: one result per record -/
theorem rf_results_in_add_order {ρ : Type} (g : ρ → List KEv) (maxSize : Nat) (hasDelay : Bool) (bufferSize : Nat)
    (as : List (Reorder.Act ρ)) (r : Reorder.Run ρ (List KEv))
    (hrun : Reorder.exec (List.map g) (fun _ => false) true { st := Reorder.init maxSize hasDelay bufferSize } as = some r) :
    r.out = ((Reorder.inputs as).take r.out.length).map g := by
  obtain ⟨rest, h⟩ := C20.reorder_prefix_no_errors g maxSize hasDelay bufferSize as r hrun
  rw [List.map_take, ← h, List.take_left']
  rfl

open Reorder in
/-- one step of the real fetcher is one step (or a stutter) of the FIFO in the runner model -/
theorem rf_step_is_fifo_step {ρ : Type} (g : ρ → List KEv) (maxSize : Nat) (hasDelay : Bool) (bufferSize : Nat)
    (as : List (Reorder.Act ρ)) (r : Reorder.Run ρ (List KEv)) (a : Reorder.Act ρ) (s' : Reorder.St ρ (List KEv))
    (o : List (List KEv))
    (hrun : Reorder.exec (List.map g) (fun _ => false) true { st := Reorder.init maxSize hasDelay bufferSize } as = some r)
    (hstep : Reorder.step (List.map g) (fun _ => false) true r.st a = some (s', o)) :
    let φ := ((Reorder.inputs as).map g).drop r.out.length
    let φ' := ((Reorder.inputs (as ++ [a])).map g).drop (r.out ++ o).length
    (∀ x, a = .pAdd x → o = [] ∧ φ' = φ ++ [g x]) ∧
    (a = .recv → ∃ v, o = [v] ∧ φ = v :: φ') ∧
    ((∀ x, a ≠ .pAdd x) → a ≠ .recv → o = [] ∧ φ' = φ) := by
  intro φ φ'
  obtain ⟨hrecv, hother⟩ := Reorder.step_out _ _ _ _ _ _ _ hstep
  obtain ⟨rest, hpre⟩ := C20.reorder_prefix_no_errors g maxSize hasDelay bufferSize as r hrun
  have hlen : r.out.length ≤ ((Reorder.inputs as).map g).length := by
    rw [← hpre]; simp
  refine ⟨?_, ?_, ?_⟩
  · intro x hx
    subst hx
    have ho := hother (by simp)
    subst ho
    refine ⟨rfl, ?_⟩
    show (List.map g (Reorder.inputs (as ++ [.pAdd x]))).drop (r.out ++ []).length = _
    rw [Reorder.inputs_snoc, List.append_nil, List.map_append, List.drop_append_of_le_length hlen]
    rfl
  · intro ha
    subst ha
    obtain ⟨v, hv⟩ := hrecv rfl
    subst hv
    refine ⟨v, rfl, ?_⟩
    -- the run extended by this `recv` is again a run of the fetcher: apply C20 to it
    have hrun' : Reorder.exec (List.map g) (fun _ => false) true { st := Reorder.init maxSize hasDelay bufferSize } (as ++ [.recv])
        = some { st := s', ins := r.ins ++ Reorder.inputOf .recv, out := r.out ++ [v] } := by
      rw [Reorder.exec_snoc, hrun]; simp [hstep]
    obtain ⟨rest', hpre'⟩ := C20.reorder_prefix_no_errors g maxSize hasDelay bufferSize _ _ hrun'
    have hin : Reorder.inputs (as ++ [.recv]) = Reorder.inputs as := by
      rw [Reorder.inputs_snoc]; simp [Reorder.inputOf]
    show (List.map g (Reorder.inputs as)).drop r.out.length = v :: (List.map g (Reorder.inputs (as ++ [.recv]))).drop (r.out ++ [v]).length
    rw [hin] at hpre' ⊢
    simp only at hpre'
    rw [← hpre']
    simp [List.append_assoc]
  · intro hadd hnr
    have ho := hother hnr
    subst ho
    refine ⟨rfl, ?_⟩
    have hin : Reorder.inputs (as ++ [a]) = Reorder.inputs as := by
      rw [Reorder.inputs_snoc]
      cases a <;> simp_all [Reorder.inputOf]
    show (List.map g (Reorder.inputs (as ++ [a]))).drop (r.out ++ []).length = _
    rw [hin, List.append_nil]

/-! ## the product system: the runner with the real fetcher (`Model/RunnerRF.lean`)

Every run of the product — runner actions, the fetcher's own actions in any interleaving, `enq` = placeholder + `pAdd`,
`take` = the router receiving from `Output` — keeps the ghost FIFO equal to what the fetcher still owes, the value the
router receives is its head, and the runner component is reachable in `Model/Runner`. So every C04 theorem holds for the
runner driven by the real fetcher's transition system, not only for the FIFO abstraction. -/

open RunnerRF in
structure Coupled {ρ : Type} (c : Cfg ρ) (maxSize : Nat) (hasDelay : Bool) (p : RunnerRF.PSt ρ) : Prop where
  pend : p.r.rfPending = []
  fifo : p.r.rfOut = ((Reorder.inputs p.rfas).map c.keyOf).drop p.rf.out.length
  rfrun : Reorder.exec (List.map c.keyOf) (fun _ => false) true { st := Reorder.init maxSize hasDelay maxSize } p.rfas = some p.rf
  reach : ∃ as', Runner.exec c (Runner.init maxSize hasDelay) as' = some p.r

theorem coupled_rfStep {ρ : Type} (c : Cfg ρ) (maxSize : Nat) (hasDelay : Bool) (p q : RunnerRF.PSt ρ)
    (a : Reorder.Act ρ) (o : List (List KEv)) (h : Coupled c maxSize hasDelay p) (hs : RunnerRF.rfStep c p a = some (q, o)) :
    q.r = p.r ∧
    Reorder.exec (List.map c.keyOf) (fun _ => false) true { st := Reorder.init maxSize hasDelay maxSize } q.rfas = some q.rf ∧
    (∀ x, a = .pAdd x → o = [] ∧
      ((Reorder.inputs q.rfas).map c.keyOf).drop q.rf.out.length = p.r.rfOut ++ [c.keyOf x]) ∧
    (a = .recv → ∃ v, o = [v] ∧ p.r.rfOut = v :: ((Reorder.inputs q.rfas).map c.keyOf).drop q.rf.out.length) ∧
    ((∀ x, a ≠ .pAdd x) → a ≠ .recv → ((Reorder.inputs q.rfas).map c.keyOf).drop q.rf.out.length = p.r.rfOut) := by
  unfold RunnerRF.rfStep at hs
  split at hs
  · next s' o' hstep =>
    simp only [Option.some.injEq, Prod.mk.injEq] at hs
    obtain ⟨rfl, rfl⟩ := hs
    have hf := rf_step_is_fifo_step c.keyOf maxSize hasDelay maxSize p.rfas p.rf a s' o' h.rfrun hstep
    simp only at hf
    refine ⟨rfl, ?_, ?_, ?_, ?_⟩
    · show Reorder.exec _ _ _ _ (p.rfas ++ [a]) = _
      rw [Reorder.exec_snoc, h.rfrun]; simp [hstep]
    · intro x hx
      obtain ⟨h1, h2⟩ := hf.1 x hx
      exact ⟨h1, by rw [h.fifo]; exact h2⟩
    · intro ha
      obtain ⟨v, h1, h2⟩ := hf.2.1 ha
      exact ⟨v, h1, by rw [h.fifo]; exact h2⟩
    · intro h1 h2
      rw [h.fifo]; exact (hf.2.2 h1 h2).2
  · simp at hs

/-- the coupling is an invariant of the product system -/
theorem product_coupled {ρ : Type} (c : Cfg ρ) (maxSize : Nat) (hasDelay : Bool) (as : List (RunnerRF.PAct ρ)) :
    ∀ (p p' : RunnerRF.PSt ρ), Coupled c maxSize hasDelay p → RunnerRF.exec c p as = some p' → Coupled c maxSize hasDelay p' := by
  induction as with
  | nil => intro p p' h he; simp [RunnerRF.exec] at he; subst he; exact h
  | cons a as ih =>
    intro p p' h he
    simp only [RunnerRF.exec] at he
    split at he
    · simp at he
    · next p1 hs =>
      refine ih p1 p' ?_ he
      obtain ⟨as', hreach⟩ := h.reach
      -- a runner action on the runner component
      have runCase : ∀ (a : Runner.Act ρ) (r' : Runner.St ρ), Runner.step c p.r a = some r' → a ≠ .enq → a ≠ .rfEmit →
          (a = .sTake → ∀ r rest, p.r.stream ≠ .record r :: rest) → Coupled c maxSize hasDelay { p with r := r' } := by
        intro a r' hr h1 h2 h3
        obtain ⟨f1, f2⟩ := Runner.step_rf_frame c p.r r' a hr h1 h2 h3
        exact ⟨by rw [f2]; exact h.pend, by rw [f1]; exact h.fifo, h.rfrun,
          ⟨as' ++ [a], by rw [Runner.exec_snoc, hreach]; simpa using hr⟩⟩
      cases a with
      | run a =>
        cases a with
        | enq => simp [RunnerRF.step] at hs
        | rfEmit => simp [RunnerRF.step] at hs
        | sTake =>
          simp only [RunnerRF.step] at hs
          split at hs
          · simp at hs
          · next hne =>
            simp only [Option.map_eq_some_iff] at hs
            obtain ⟨r', hr, rfl⟩ := hs
            exact runCase .sTake r' hr (by simp) (by simp) (by intro _ r rest hst; exact hne r rest hst)
        | fetch rs =>
          simp only [RunnerRF.step] at hs
          split at hs
          · simp only [Option.map_eq_some_iff] at hs
            obtain ⟨r', hr, rfl⟩ := hs
            exact runCase _ r' hr (by simp) (by simp) (by simp)
          · simp at hs
        | tick =>
          simp only [RunnerRF.step] at hs
          split at hs
          · simp only [Option.map_eq_some_iff] at hs
            obtain ⟨r', hr, rfl⟩ := hs
            exact runCase _ r' hr (by simp) (by simp) (by simp)
          · simp at hs
        | barrier id =>
          simp only [RunnerRF.step] at hs
          split at hs
          · simp only [Option.map_eq_some_iff] at hs
            obtain ⟨r', hr, rfl⟩ := hs
            exact runCase _ r' hr (by simp) (by simp) (by simp)
          · simp at hs
        | sAdd | sIsFull | sFlush | sSend | fire o | stale o | staleTok o t | oTok o | oTFlush o | oDone o | oRecv o =>
          simp only [RunnerRF.step, Option.map_eq_some_iff] at hs
          obtain ⟨r', hr, rfl⟩ := hs
          exact runCase _ r' hr (by simp) (by simp) (by simp)
      | rf a =>
        have other : ∀ (q : RunnerRF.PSt ρ) (o : List (List KEv)), RunnerRF.rfStep c p a = some (q, o) →
            (∀ x, a ≠ .pAdd x) → a ≠ .recv → Coupled c maxSize hasDelay q := by
          intro q o hq h1 h2
          obtain ⟨e1, e2, _, _, e5⟩ := coupled_rfStep c maxSize hasDelay p q a o h hq
          exact ⟨by rw [e1]; exact h.pend, by rw [e1]; exact (e5 h1 h2).symm, e2, ⟨as', by rw [e1]; exact hreach⟩⟩
        cases a with
        | pAdd x => simp [RunnerRF.step] at hs
        | recv => simp [RunnerRF.step] at hs
        | pFlush => simp [RunnerRF.step] at hs
        | pIsFull | fire | stale | tmoRecv | lock t | flushA t | flushB t | fetchErr q | fetchDone q | drainStart | drainNext | send =>
          simp only [RunnerRF.step, Option.map_eq_some_iff] at hs
          obtain ⟨⟨q, o⟩, hq, rfl⟩ := hs
          exact other q o hq (by simp) (by simp)
      | enq =>
        simp only [RunnerRF.step] at hs
        split at hs
        · next rec rest hbuf =>
          simp only [Option.map_eq_some_iff] at hs
          obtain ⟨⟨q, o⟩, hq, rfl⟩ := hs
          obtain ⟨e1, e2, e3, _, _⟩ := coupled_rfStep c maxSize hasDelay p q (.pAdd rec) o h hq
          obtain ⟨_, hφ⟩ := e3 rec rfl
          refine ⟨h.pend, hφ.symm, e2, ⟨as' ++ [.enq] ++ [.rfEmit], ?_⟩⟩
          rw [Runner.exec_snoc, Runner.exec_snoc, hreach]
          simp [Runner.step, hbuf, h.pend]
        · simp at hs
      | take =>
        simp only [RunnerRF.step] at hs
        split at hs
        · next rec rest hspc htodo hstream =>
          split at hs
          · next q v hq =>
            simp only [Option.some.injEq] at hs
            subst hs
            obtain ⟨e1, e2, _, e4, _⟩ := coupled_rfStep c maxSize hasDelay p q .recv [v] h hq
            obtain ⟨v', hv, hφ⟩ := e4 rfl
            simp at hv
            subst hv
            refine ⟨h.pend, by simp [hφ], e2, ⟨as' ++ [.sTake], ?_⟩⟩
            rw [Runner.exec_snoc, hreach]
            simp [Runner.step, hspc, htodo, hstream, hφ]
          · simp at hs
        · simp at hs

theorem product_init_coupled {ρ : Type} (c : Cfg ρ) (maxSize : Nat) (hasDelay : Bool) :
    Coupled c maxSize hasDelay (RunnerRF.init maxSize hasDelay : RunnerRF.PSt ρ) :=
  ⟨rfl, rfl, rfl, ⟨[], rfl⟩⟩

/-- **the runner component of every run of the product is a run of `Model/Runner`**, and the result the router receives
from the real fetcher for a record placeholder is `keyOf` of that record (it is the head of the coupled FIFO) -/
theorem product_refines_runner {ρ : Type} (c : Cfg ρ) (maxSize : Nat) (hasDelay : Bool) (as : List (RunnerRF.PAct ρ))
    (p : RunnerRF.PSt ρ) (hrun : RunnerRF.exec c (RunnerRF.init maxSize hasDelay) as = some p) :
    ∃ as', Runner.exec c (Runner.init maxSize hasDelay) as' = some p.r :=
  (product_coupled c maxSize hasDelay as _ p (product_init_coupled c maxSize hasDelay) hrun).reach

/-- **per-operator stream, with the real fetcher**: for every interleaving of the runner's goroutines with the
fetcher's (both flushers, timer expiries, fetch completions in any order, the drain, back-pressure on `Output`) -/
theorem product_per_operator_stream {ρ : Type} (c : Cfg ρ) (hunbuf : c.handoffBuffered = false) (maxSize : Nat)
    (hasDelay : Bool) (as : List (RunnerRF.PAct ρ)) (p : RunnerRF.PSt ρ)
    (hrun : RunnerRF.exec c (RunnerRF.init maxSize hasDelay) as = some p) (q : Nat) (hq : q < c.nOps) :
    delivered p.r q ++ pendingFor p.r q ++ project c q p.r.stream = project c q p.r.logical ∧
    (delivered p.r q).Sublist (expand c p.r.logical) ∧
    p.r.ckpts = cutsOf p.r.logical 0 := by
  obtain ⟨as', h⟩ := product_refines_runner c maxSize hasDelay as p hrun
  exact ⟨per_operator_stream c hunbuf maxSize hasDelay as' p.r h q hq,
    order_preserved c hunbuf maxSize hasDelay as' p.r h q hq, (barrier_cut c hunbuf maxSize hasDelay as' p.r h).1⟩

/-- non-vacuity of the product: a record goes through the real fetcher (size flush, fetch, drain, `Output`) and the
router hands it to its operator; a second record is flushed by the time-out flusher while the first is in flight -/
example : (RunnerRF.exec demoCfg (RunnerRF.init 2 true)
    [.run (.fetch [(1, 0), (2, 0)]), .enq, .rf .pIsFull, .rf .fire, .rf .tmoRecv, .rf (.lock .tmo), .rf (.flushA .tmo),
     .rf (.flushB .tmo), .enq, .rf .pIsFull, .rf .fire, .rf .tmoRecv, .rf (.lock .tmo), .rf (.flushA .tmo), .rf (.flushB .tmo),
     .rf (.fetchDone 1), .rf (.fetchDone 0), .rf .drainStart, .rf .drainNext, .rf .send, .rf .drainNext, .rf .send,
     .take, .run .sAdd, .run .sIsFull, .take, .run .sAdd, .run .sIsFull, .run .sFlush, .run .sSend]).map
      (fun p => (delivered p.r 0, p.r.stream.length, p.rf.out.length)) =
    some ([.keyed ⟨[], 1, 0⟩, .keyed ⟨[], 2, 0⟩], 0, 2) := by decide

/-- the hypothesis `handoffBuffered = false` of every theorem is the code (regenerated structural fact, hard
obligation): in `newBatchingOperator` the `batches` channel is made without a capacity, assigned nowhere else, and never
sent on in a select with a default -/
theorem handoff_unbuffered_shape : Facts.c04HandoffUnbuffered = 1 := by decide

/-! negative witness: the theorems are about the *unbuffered* hand-off of `batchingOperator` (the router blocks until
the operator goroutine takes the batch). With a one-slot channel a full batch can sit in the channel while the
following partial batch times out, and the operator goroutine may handle the newer one first. -/

def bufCfg : Cfg Nat :=
  { nOps := 1, route := fun _ => 0, keyOf := fun r => [{ key := [], src := r, idx := 0 }], handoffBuffered := true }

def bufSchedule : List (Act Nat) :=
  [.fetch [1, 2, 3], .enq, .enq, .enq, .fetch [4, 5], .enq, .enq, .rfEmit, .rfEmit, .rfEmit, .rfEmit, .rfEmit,
   .sTake, .sAdd, .sIsFull, .sTake, .sAdd, .sIsFull, .sFlush, .sSend, .oRecv 0,          -- batch {1,2}: operator busy
   .sTake, .sAdd, .sIsFull, .sTake, .sAdd, .sIsFull, .sFlush, .sSend,                    -- batch {3,4} waits in the channel
   .sTake, .sAdd, .sIsFull, .fire 0, .oDone 0, .oTok 0, .oTFlush 0, .oDone 0, .oRecv 0]   -- {5} times out and overtakes

theorem buffered_handoff_reorders :
    (exec bufCfg (init 2 true) bufSchedule).map (fun s => (delivered s 0).map (fun e => match e with | .keyed k => k.src | _ => 0))
      = some [1, 2, 5, 3, 4] := by decide

/-- the same schedule is not a schedule of the code: the router cannot go on while its batch has not been taken -/
theorem unbuffered_handoff_blocks :
    (exec { bufCfg with handoffBuffered := false } (init 2 true) bufSchedule).isSome = false := by decide

/-! negative witness for `barrier_cut`: it relies on checkpoint requests being served only *between* reads. A loop
that also serves them between two records of one read (the `barrier` action enabled while `readBuf ≠ []`) snapshots a
cursor that is ahead of the barrier's place. In the model of the code this schedule is simply not enabled: -/
theorem barrier_mid_read_not_enabled :
    (exec demoCfg (init 2 true) [.fetch [(1, 0), (2, 0)], .enq, .barrier 1]).isSome = false := by decide

example : (exec demoCfg (init 2 true) [.fetch [(1, 0), (2, 0)], .enq, .enq, .barrier 1, .fetch [(3, 0)], .enq]).map
    (fun s => (s.ckpts, cutsOf s.logical 0, s.cursor)) = some ([(1, 2)], [(1, 2)], 3) := by decide

end Rxn.C04
