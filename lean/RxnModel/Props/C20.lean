import RxnModel.Generated.Facts
import RxnModel.Proofs.Batcher
import RxnModel.Proofs.Reorder
import RxnModel.Proofs.ReorderTerm
/-!
# C20 — batching never loses, duplicates or reorders items

Property theorems only. Models: `Model/Batcher.lean` (`batching.EventBatcher` + `clocks.Timer`),
`Model/Reorder.lean` (`batching.ReorderFetcher` + `ReorderBuffer` as a transition system whose actions are the
mutex sections of the code; the schedule `as` is universally quantified, so the theorems hold for every
interleaving of the producer, the timeout goroutine, the timer callbacks and the fetch goroutines and for
every completion order of the fetches). The model is the code after the repair of D17 (`flushMu`).
-/
namespace Rxn.C20
open Rxn

/-! ## EventBatcher -/

/-- the batches handed out, concatenated, followed by the current batch, are exactly the items added:
nothing lost, duplicated or reordered, for every history of Add / IsFull / Flush(any token) / timer expiry -/
theorem batcher_concat {α : Type} (maxSize : Nat) (hasDelay : Bool) (ops : List (Batcher.Op α)) :
    (Batcher.run (Batcher.new maxSize hasDelay) ops).2.flatten
      ++ (Batcher.run (Batcher.new maxSize hasDelay) ops).1.batch = Batcher.added ops := by
  simpa [Batcher.new] using Batcher.run_concat ops (Batcher.new maxSize hasDelay)

example : (Batcher.run (Batcher.new 2 true) [.add 1, .fire, .add 2, .flush (.tok 0), .add (3 : Nat), .flush (.tok 0)]).2
    = [[], [], [], [1, 2], [], []] := by decide

/-- a time-out token of another batch flushes nothing and changes nothing -/
theorem stale_token_noop {α : Type} (s : Batcher.St α) (n : Nat) (h : n ≠ s.token) :
    Batcher.flush s (.tok n) = (s, []) := Batcher.flush_stale s n h

/-- the token of a batch that has been handed out is never current again: whatever happens afterwards (any further
history `ops`), presenting that token flushes nothing — the "already flushed batch" clause end to end -/
theorem flushed_token_never_flushes_again {α : Type} (s : Batcher.St α) (t : Batcher.Tok) (ops : List (Batcher.Op α))
    (hflushed : (Batcher.flush s t).2 ≠ []) :
    let s' := (Batcher.run (Batcher.flush s t).1 ops).1
    Batcher.flush s' (.tok s.token) = (s', []) := by
  intro s'
  apply Batcher.flush_stale
  have h1 := Batcher.flush_token_succ s t hflushed
  have h2 := Batcher.run_token_mono ops (Batcher.flush s t).1
  show s.token ≠ (Batcher.run (Batcher.flush s t).1 ops).1.token
  omega

/-- **the atomicity the models assume is the code's lock structure** (regenerated from the source on every run, hard
obligation): every exported `EventBatcher` method is `b.mu.Lock(); defer b.mu.Unlock()` around its whole body;
`ReorderBuffer.Add` likewise and `Drain` holds `b.mu` for its whole loop; in `ReorderFetcher.flush`, `batcher.Flush`
and `buffer.Reserve` lie inside one `flushMu` critical section and neither `Reserve` nor the fetcher's `batcher.Flush`
is called anywhere else in the package (so `flushA` is the only action that takes a batch); methods that touch
`b.batch`/`b.batchToken` are covered whether exported or not, in every non-test file of the package. These are the
actions `Batcher.step`, `fetchDone`, `drainStart…drainNext`, and `lock; flushA; flushB` of `Reorder.step`. -/
theorem lock_shape :
    Facts.c20BatcherMethodsLocked = 1 ∧ Facts.c20BufferAddDrainLocked = 1 ∧ Facts.c20ReserveUnderFlushMu = 1 := by decide

/-- in every reachable state the armed timer carries the token of the current, non-empty batch (so its expiry
flushes exactly that batch), and a callback that raced with `Stop` never carries a future token -/
theorem timer_token_current {α : Type} (maxSize : Nat) (hasDelay : Bool) (ops : List (Batcher.Op α)) :
    let s := (Batcher.run (Batcher.new maxSize hasDelay) ops).1
    (∀ k, Batcher.fire s = some k → k = s.token ∧ (Batcher.flush s (.tok k)).2 = s.batch ∧ s.batch ≠ []) ∧
    (∀ k, Batcher.stale s = some k → k ≤ s.token) := by
  intro s
  have h := Batcher.timerInv_run ops (Batcher.new maxSize hasDelay) (Batcher.timerInv_new maxSize hasDelay)
  refine ⟨?_, h.2⟩
  intro k hk
  obtain ⟨h1, h2⟩ := h.1 k hk
  refine ⟨h1, ?_, h2⟩
  have hne : s.batch.isEmpty = false := by
    cases hb : s.batch with
    | nil => exact absurd hb h2
    | cons _ _ => rfl
  show (Batcher.flush (Batcher.run (Batcher.new maxSize hasDelay) ops).1 (.tok k)).2 = _
  simp only [Batcher.flush, Batcher.flushes]
  have : (Batcher.run (Batcher.new maxSize hasDelay) ops).1.batch.isEmpty = false := hne
  simp [this, h1]; rfl

example : Batcher.fire (Batcher.run (Batcher.new 3 true) [.add (7 : Nat), .flush .cur, .add 8]).1 = some 1 := by decide

/-! ## ReorderFetcher -/

open Reorder

/-- **one output per input, in input order, for every schedule, every fetch outcome and every consumer speed**:
the reserved batches are numbered in reservation order; together with the batch held by a flusher inside its critical
section and the current batch they concatenate to exactly the items added; and what the consumer has received,
followed by the contents of the `Output` channel and what the draining goroutine still has to send, is exactly the
fetch results of the first `drainedSeq` batches (a failed fetch contributing nothing) -/
theorem reorder_in_order {α ρ : Type} (f : List α → List ρ) (fails : Nat → Bool) (maxSize : Nat) (hasDelay : Bool)
    (bufferSize : Nat) (as : List (Act α)) (r : Run α ρ)
    (hrun : exec f fails true { st := init maxSize hasDelay bufferSize } as = some r) :
    ∃ batches : List (Nat × List α),
      (∀ (k : Nat) (p : Nat × List α), batches[k]? = some p → p.1 = k) ∧
      (batches.map Prod.snd).flatten ++ held r.st.pp ++ held r.st.tp ++ r.st.b.batch = inputs as ∧
      r.out ++ r.st.outq ++ cur r.st.drainer = ((batches.take r.st.drainedSeq).map (resultOf f fails)).flatten := by
  obtain ⟨hist, h⟩ := reorder_invariant f fails as _ r [] (reorder_init_inv f fails maxSize hasDelay bufferSize) hrun
  have hins := exec_ins f fails true as _ r hrun
  refine ⟨hist, h.buf.seqs, ?_, h.buf.out⟩
  rw [← h.ins, hins]; rfl

/-- the consumer-visible sequence is always a prefix of the results of the reserved batches in reservation order:
nothing is duplicated, reordered or invented, however slowly `Output` is read and whichever fetches fail -/
theorem reorder_prefix {α ρ : Type} (f : List α → List ρ) (fails : Nat → Bool) (maxSize : Nat) (hasDelay : Bool)
    (bufferSize : Nat) (as : List (Act α)) (r : Run α ρ)
    (hrun : exec f fails true { st := init maxSize hasDelay bufferSize } as = some r) :
    ∃ (batches : List (Nat × List α)) (rest : List ρ),
      (batches.map Prod.snd).flatten ++ held r.st.pp ++ held r.st.tp ++ r.st.b.batch = inputs as ∧
      r.out ++ rest = (batches.map (resultOf f fails)).flatten := by
  obtain ⟨bs, _, h1, h2⟩ := reorder_in_order f fails maxSize hasDelay bufferSize as r hrun
  refine ⟨bs, r.st.outq ++ cur r.st.drainer ++ ((bs.drop r.st.drainedSeq).map (resultOf f fails)).flatten, h1, ?_⟩
  rw [← List.append_assoc, ← List.append_assoc, h2, ← List.flatten_append, ← List.map_append, List.take_append_drop]

/-- without fetch errors and with a fetch function that answers item by item (as `KeyEventBatch` does) the consumer
sees a prefix of the mapped input sequence -/
theorem reorder_prefix_no_errors {α ρ : Type} (g : α → ρ) (maxSize : Nat) (hasDelay : Bool) (bufferSize : Nat)
    (as : List (Act α)) (r : Run α ρ)
    (hrun : exec (List.map g) (fun _ => false) true { st := init maxSize hasDelay bufferSize } as = some r) :
    ∃ rest, r.out ++ rest = (inputs as).map g := by
  obtain ⟨bs, rest, h1, h2⟩ := reorder_prefix (List.map g) (fun _ => false) maxSize hasDelay bufferSize as r hrun
  refine ⟨rest ++ (held r.st.pp ++ held r.st.tp ++ r.st.b.batch).map g, ?_⟩
  have hG : resultOf (List.map g) (fun _ => false) = fun p => List.map g p.2 := by funext p; simp [resultOf]
  rw [← List.append_assoc, h2, ← h1, hG]
  simp [List.map_flatten, Function.comp_def]

/-- **a failed fetch contributes no results but does not block or reorder later batches**: when everything has come
to rest (flushers idle, batch empty, no fetch goroutine alive, `Output` read empty) the consumer has received exactly
the results of all batches in order, the failed ones contributing nothing -/
theorem reorder_complete {α ρ : Type} (f : List α → List ρ) (fails : Nat → Bool) (maxSize : Nat) (hasDelay : Bool)
    (bufferSize : Nat) (as : List (Act α)) (r : Run α ρ)
    (hrun : exec f fails true { st := init maxSize hasDelay bufferSize } as = some r)
    (hq : quiescent r.st) :
    ∃ batches : List (Nat × List α),
      (batches.map Prod.snd).flatten = inputs as ∧ r.out = (batches.map (resultOf f fails)).flatten := by
  obtain ⟨hist, h⟩ := reorder_invariant f fails as _ r [] (reorder_init_inv f fails maxSize hasDelay bufferSize) hrun
  have hins := exec_ins f fails true as _ r hrun
  obtain ⟨q1, q2, q3, q4, q5, q6⟩ := hq
  have hd : r.st.drainedSeq = r.st.nextSeq := by
    by_cases hlt : r.st.drainedSeq < r.st.nextSeq
    · rcases h.buf.cover _ (Nat.le_refl _) hlt with hc | ⟨e, he⟩
      · have := h.buf.live hc; omega
      · rw [q4] at he; simp at he
    · have := h.buf.dle; omega
  have hdr : r.st.drainer = none := by
    cases hdd : r.st.drainer with
    | none => rfl
    | some l => have := h.buf.dact (by simp [hdd]); omega
  have hp : held r.st.pp = [] := by cases hpp : r.st.pp <;> simp_all [held, Pc.isIdle]
  have ht : held r.st.tp = [] := by cases htp : r.st.tp <;> simp_all [held, Pc.isIdle]
  have hi := h.ins
  rw [hp, ht, q3, hins] at hi
  refine ⟨hist, by simpa [Run.ins] using hi.symm, ?_⟩
  have ho := h.buf.out
  rw [q6, hdr, hd, ← h.buf.len, List.take_length] at ho
  simpa [cur, curOf] using ho

/-- …in particular without fetch errors: exactly one result per input, in input order -/
theorem reorder_complete_no_errors {α ρ : Type} (g : α → ρ) (maxSize : Nat) (hasDelay : Bool) (bufferSize : Nat)
    (as : List (Act α)) (r : Run α ρ)
    (hrun : exec (List.map g) (fun _ => false) true { st := init maxSize hasDelay bufferSize } as = some r)
    (hq : quiescent r.st) : r.out = (inputs as).map g := by
  obtain ⟨bs, h1, h2⟩ := reorder_complete (List.map g) (fun _ => false) maxSize hasDelay bufferSize as r hrun hq
  have hG : resultOf (List.map g) (fun _ => false) = fun p => List.map g p.2 := by funext p; simp [resultOf]
  rw [h2, ← h1, hG]
  simp [List.map_flatten, Function.comp_def]

/-- **no wedge**: while some reserved batch has not been dequeued by the drain yet, one of the fetcher's own
goroutines or the consumer can take a step — whatever the fetch outcomes were. (A failed fetch still hands its
sequence number to the buffer; if it did not, the drain would wait for it forever and `Reserve` would eventually
block inside the critical section.) -/
theorem reorder_progress {α ρ : Type} (f : List α → List ρ) (fails : Nat → Bool) (maxSize : Nat) (hasDelay : Bool)
    (bufferSize : Nat) (as : List (Act α)) (r : Run α ρ)
    (hrun : exec f fails true { st := init maxSize hasDelay bufferSize } as = some r)
    (hpending : r.st.drainedSeq < r.st.nextSeq) :
    ∃ a : Act α, (a = .drainStart ∨ a = .drainNext ∨ a = .send ∨ a = .recv ∨ a = .fetchErr r.st.drainedSeq ∨
        a = .fetchDone r.st.drainedSeq) ∧
      (step f fails true r.st a).isSome = true := by
  obtain ⟨hist, h⟩ := reorder_invariant f fails as _ r [] (reorder_init_inv f fails maxSize hasDelay bufferSize) hrun
  have hb := h.buf
  cases hd : r.st.drainer with
  | some l =>
    have hpos := hb.dact (by simp [hd])
    cases l with
    | nil =>
      refine ⟨.drainNext, by simp, ?_⟩
      simp only [step, hd]
      cases hi : r.st.items r.st.drainedSeq with
      | some x =>
        have : r.st.reserved = r.st.nextSeq - r.st.drainedSeq := hb.hres
        cases hr : r.st.reserved with
        | zero => omega
        | succ n => simp
      | none =>
        cases hn : r.st.drainers with
        | zero => omega
        | succ n => simp
    | cons x rest =>
      by_cases hroom : r.st.outq.length < r.st.ocap
      · exact ⟨.send, by simp, by simp [step, hd, hroom]⟩
      · refine ⟨.recv, by simp, ?_⟩
        simp only [step]
        cases hq : r.st.outq with
        | cons y q => simp
        | nil =>
          have : r.st.ocap = 0 := by simp [hq] at hroom; omega
          simp [this, hd]
  | none =>
    rcases hb.cover _ (Nat.le_refl _) hpending with hc | ⟨e, he⟩
    · have hpos := hb.live hc
      refine ⟨.drainStart, by simp, ?_⟩
      simp only [step, hd]
      cases hn : r.st.drainers with
      | zero => omega
      | succ n => simp
    · cases hl : lookupSeq r.st.drainedSeq r.st.inflight with
      | none => exact absurd hl (mem_lookupSeq _ _ _ he)
      | some evs =>
        by_cases hg : (fails r.st.drainedSeq && !r.st.errored.contains r.st.drainedSeq) = true
        · exact ⟨.fetchErr r.st.drainedSeq, by simp, by simp only [step, hl, hg]; rfl⟩
        · exact ⟨.fetchDone r.st.drainedSeq, by simp, by simp only [step, hd, hl, hg]; rfl⟩

/-- the actions the fetcher's own goroutines and the consumer take without new input: everything except `pAdd`, timer
expiries and `tmoRecv`; the producer's explicit `Flush` only while there is something to flush (`Reorder.internalAct`) -/
abbrev internal {α ρ : Type} (s : St α ρ) (a : Act α) : Bool := internalAct s a

/-- **no deadlock anywhere**: in every reachable state that is not at rest, one of those actions is enabled — a flusher
waiting for the mutex or for a free slot, a fetch goroutine waiting for the buffer mutex, a sender blocked on a full
`Output`: each of them is waiting for something that can move. (With `reorder_complete`: a run can only stop making
internal progress in a state where every input has come out, in order.) -/
theorem reorder_internal_progress {α ρ : Type} (f : List α → List ρ) (fails : Nat → Bool) (maxSize : Nat) (hasDelay : Bool)
    (bufferSize : Nat) (as : List (Act α)) (r : Run α ρ)
    (hrun : exec f fails true { st := init maxSize hasDelay bufferSize } as = some r)
    (hnq : ¬ quiescent r.st) :
    ∃ a : Act α, internal r.st a = true ∧ (step f fails true r.st a).isSome = true := by
  obtain ⟨hist, h⟩ := reorder_invariant f fails as _ r [] (reorder_init_inv f fails maxSize hasDelay bufferSize) hrun
  have hb := h.buf
  -- the buffer side: something reserved is not yet dequeued
  have bufStep : r.st.drainedSeq < r.st.nextSeq → ∃ a : Act α, internal r.st a = true ∧ (step f fails true r.st a).isSome = true := by
    intro hp
    obtain ⟨a, ha, he⟩ := reorder_progress f fails maxSize hasDelay bufferSize as r hrun hp
    refine ⟨a, ?_, he⟩
    rcases ha with rfl | rfl | rfl | rfl | rfl | rfl <;> rfl
  -- a flusher at `mid`: unlock, or reserve, or (buffer full) the buffer side moves
  have midStep : ∀ t evs, pc r.st t = .mid evs → ∃ a : Act α, internal r.st a = true ∧ (step f fails true r.st a).isSome = true := by
    intro t evs hpc
    cases evs with
    | nil => exact ⟨.flushB t, rfl, by simp [step, hpc]⟩
    | cons e es =>
      by_cases hroom : r.st.reserved < r.st.cap
      · exact ⟨.flushB t, rfl, by simp [step, hpc, hroom]⟩
      · apply bufStep
        have h1 := hb.hres
        have h2 : 0 < r.st.cap := by
          have : r.st.cap = (init maxSize hasDelay bufferSize : St α ρ).cap := cap_const f fails as _ r hrun
          rw [this]; simp only [init]; split <;> omega
        omega
  have holderStep : ∀ t, (pc r.st t).holds = true → ∃ a : Act α, internal r.st a = true ∧ (step f fails true r.st a).isSome = true := by
    intro t ht
    cases hpc : pc r.st t with
    | locked => exact ⟨.flushA t, rfl, by simp [step, hpc]⟩
    | mid evs => exact midStep t evs hpc
    | idle => simp [hpc, Pc.holds] at ht
    | added => simp [hpc, Pc.holds] at ht
    | enter => simp [hpc, Pc.holds] at ht
  have threadStep : ∀ t, (pc r.st t).isIdle = false →
      ∃ a : Act α, internal r.st a = true ∧ (step f fails true r.st a).isSome = true := by
    intro t ht
    cases hpc : pc r.st t with
    | idle => simp [hpc, Pc.isIdle] at ht
    | added =>
      cases t with
      | prod => exact ⟨.pIsFull, rfl, by simp [pc] at hpc; simp [step, hpc]⟩
      | tmo =>
        -- the timeout goroutine is never at `added`: only `pAdd` produces it, for the producer
        exact absurd hpc (tmo_never_added f fails as _ r hrun rfl)
    | enter =>
      by_cases ho : (pc r.st (other t)).holds = true
      · exact holderStep (other t) ho
      · exact ⟨.lock t, rfl, by simp [step, hpc, ho]⟩
    | locked => exact holderStep t (by simp [hpc, Pc.holds])
    | mid evs => exact midStep t evs hpc
  by_cases hp : r.st.pp.isIdle = true
  · by_cases ht : r.st.tp.isIdle = true
    · -- both flushers idle
      by_cases hbatch : r.st.b.batch = []
      · by_cases hd : r.st.drainedSeq < r.st.nextSeq
        · exact bufStep hd
        · have hdn : r.st.drainedSeq = r.st.nextSeq := by have := hb.dle; omega
          have hinf : r.st.inflight = [] := by
            cases hi : r.st.inflight with
            | nil => rfl
            | cons x xs =>
              obtain ⟨k, e⟩ := x
              obtain ⟨h1, h2, _⟩ := hb.infl k e (by rw [hi]; simp)
              have := getElem?_lt_of_some _ _ _ h2
              have := hb.len; omega
          cases hdr : r.st.drainer with
          | some l =>
            have hpos := hb.dact (by simp [hdr])
            cases l with
            | nil =>
              refine ⟨.drainNext, rfl, ?_⟩
              have hitem : r.st.items r.st.drainedSeq = none := by
                cases hi : r.st.items r.st.drainedSeq with
                | none => rfl
                | some x =>
                  obtain ⟨_, p, hp', _⟩ := hb.itm _ x hi
                  have := getElem?_lt_of_some _ _ _ hp'
                  have := hb.len; omega
              simp only [step, hdr, hitem]
              cases hn : r.st.drainers with
              | zero => omega
              | succ n => simp
            | cons x rest =>
              by_cases hroom : r.st.outq.length < r.st.ocap
              · exact ⟨.send, rfl, by simp [step, hdr, hroom]⟩
              · refine ⟨.recv, rfl, ?_⟩
                simp only [step]
                cases hq : r.st.outq with
                | cons y q => simp
                | nil =>
                  have : r.st.ocap = 0 := by simp [hq] at hroom; omega
                  simp [this, hdr]
          | none =>
            by_cases hdrs : r.st.drainers = 0
            · -- everything idle and empty except possibly `Output`
              cases hq : r.st.outq with
              | cons y q => exact ⟨.recv, rfl, by simp [step, hq]⟩
              | nil => exact absurd ⟨hp, ht, hbatch, hinf, hdrs, hq⟩ hnq
            · refine ⟨.drainStart, rfl, ?_⟩
              simp only [step, hdr]
              cases hn : r.st.drainers with
              | zero => exact absurd hn hdrs
              | succ n => simp
      · refine ⟨.pFlush, by simp [internal, internalAct, hbatch], ?_⟩
        cases hpp : r.st.pp <;> simp_all [step, Pc.isIdle]
    · exact threadStep .tmo (by simpa [pc] using ht)
  · exact threadStep .prod (by simpa [pc] using hp)

/-- **a run can only stop in a complete state**: if in a reachable state none of the fetcher's own actions and no consumer
read is possible any more, then every input has come out: the consumer has received exactly the results of all batches,
in order (failed ones contributing nothing). Together with `reorder_internal_progress` this is completeness without the
`quiescent` hypothesis; what is not mechanised is that every internal schedule is finite. -/
theorem reorder_stuck_is_complete {α ρ : Type} (f : List α → List ρ) (fails : Nat → Bool) (maxSize : Nat) (hasDelay : Bool)
    (bufferSize : Nat) (as : List (Act α)) (r : Run α ρ)
    (hrun : exec f fails true { st := init maxSize hasDelay bufferSize } as = some r)
    (hstuck : ∀ a : Act α, internal r.st a = true → step f fails true r.st a = none) :
    ∃ batches : List (Nat × List α),
      (batches.map Prod.snd).flatten = inputs as ∧ r.out = (batches.map (resultOf f fails)).flatten := by
  have hq : quiescent r.st := by
    by_cases hq : quiescent r.st
    · exact hq
    · obtain ⟨a, ha, he⟩ := reorder_internal_progress f fails maxSize hasDelay bufferSize as r hrun hq
      rw [hstuck a ha] at he
      simp at he
  exact reorder_complete f fails maxSize hasDelay bufferSize as r hrun hq

/-- **termination**: from every reachable state there is a finite continuation of internal actions only (no new
input, no timer expiry) that brings the fetcher to rest. Proved by well-founded induction: `reorder_internal_progress`
gives an enabled internal action in every state that is not at rest, and every internal action strictly lowers the
lexicographic measure `Reorder.mu` (`step_decreases`: flusher work and unflushed batch, fetches in flight, unreported
errors, batches not yet dequeued, results not yet received, drain bookkeeping) — so in fact *every* internal schedule is
finite. -/
theorem reorder_can_quiesce {α ρ : Type} (f : List α → List ρ) (fails : Nat → Bool) (maxSize : Nat) (hasDelay : Bool)
    (bufferSize : Nat) :
    ∀ (m : Nat × Nat × Nat × Nat × Nat × Nat) (as : List (Act α)) (r : Run α ρ), mu fails r.st = m →
      exec f fails true { st := init maxSize hasDelay bufferSize } as = some r →
      ∃ (cs : List (Act α)) (r' : Run α ρ), inputs cs = [] ∧ exec f fails true r cs = some r' ∧ quiescent r'.st := by
  intro m
  induction m using lt6_wf.induction with
  | _ m ih =>
    intro as r hm hrun
    by_cases hq : quiescent r.st
    · exact ⟨[], r, rfl, rfl, hq⟩
    · obtain ⟨a, ha, he⟩ := reorder_internal_progress f fails maxSize hasDelay bufferSize as r hrun hq
      obtain ⟨⟨s', o⟩, hs⟩ := Option.isSome_iff_exists.mp he
      obtain ⟨hist, hinv⟩ := reorder_invariant f fails as _ r [] (reorder_init_inv f fails maxSize hasDelay bufferSize) hrun
      have hmid := midEmpty_run f fails as _ r hrun (by simp [init, Pc.isMid])
      have hdec := step_decreases f fails r.st s' a o hs ha hmid hinv.buf.hres
      have hrun1 : exec f fails true { st := init maxSize hasDelay bufferSize } (as ++ [a]) =
          some { st := s', ins := r.ins ++ inputOf a, out := r.out ++ o } := by
        rw [exec_snoc, hrun]; simp [hs]
      obtain ⟨cs, r', h0, h1, h2⟩ := ih (mu fails s') (by rw [← hm]; exact hdec) (as ++ [a]) _ rfl hrun1
      refine ⟨a :: cs, r', ?_, ?_, h2⟩
      · have := inputOf_internal r.st a ha
        simp [inputs] at h0 ⊢
        exact ⟨this, h0⟩
      · simp only [exec, hs]; exact h1

/-- **one result per input, unconditionally**: every reachable state can be continued, without new input, to a state
in which the consumer has received exactly the results of all inputs so far, batch by batch in order (failed fetches
contributing nothing). `reorder_complete` without the `quiescent` hypothesis. -/
theorem reorder_eventually_complete {α ρ : Type} (f : List α → List ρ) (fails : Nat → Bool) (maxSize : Nat) (hasDelay : Bool)
    (bufferSize : Nat) (as : List (Act α)) (r : Run α ρ)
    (hrun : exec f fails true { st := init maxSize hasDelay bufferSize } as = some r) :
    ∃ (cs : List (Act α)) (r' : Run α ρ) (batches : List (Nat × List α)),
      exec f fails true r cs = some r' ∧
      (batches.map Prod.snd).flatten = inputs as ∧ r'.out = (batches.map (resultOf f fails)).flatten := by
  obtain ⟨cs, r', h0, h1, h2⟩ := reorder_can_quiesce f fails maxSize hasDelay bufferSize _ as r rfl hrun
  have hrun' : exec f fails true { st := init maxSize hasDelay bufferSize } (as ++ cs) = some r' := by
    rw [exec_append, hrun]; exact h1
  obtain ⟨bs, hb1, hb2⟩ := reorder_complete f fails maxSize hasDelay bufferSize (as ++ cs) r' hrun' h2
  exact ⟨cs, r', bs, h1, by rw [hb1, inputs_append, h0, List.append_nil], hb2⟩

/-- the reorder buffer never holds more than `BufferSize` reserved slots, `Output` never more than its capacity, the
two flushers are never both inside the critical section, and `reserved = nextSeq − drainedSeq` (that sequence numbers
follow flush order is `reorder_in_order`'s `p.1 = k`) -/
theorem reorder_capacity {α ρ : Type} (f : List α → List ρ) (fails : Nat → Bool) (maxSize : Nat) (hasDelay : Bool)
    (bufferSize : Nat) (as : List (Act α)) (r : Run α ρ)
    (hrun : exec f fails true { st := init maxSize hasDelay bufferSize } as = some r) :
    r.st.reserved ≤ r.st.cap ∧ r.st.reserved = r.st.nextSeq - r.st.drainedSeq ∧ r.st.outq.length ≤ r.st.ocap ∧
    ¬ (r.st.pp.holds = true ∧ r.st.tp.holds = true) := by
  obtain ⟨hist, h⟩ := reorder_invariant f fails as _ r [] (reorder_init_inv f fails maxSize hasDelay bufferSize) hrun
  exact ⟨h.buf.capb, h.buf.hres, h.buf.ocapb, h.mutex⟩

/-! The stale-token clause (`stale_token_noop`, `flushed_token_never_flushes_again`) is about `EventBatcher.Flush(token)`.
`ReorderFetcher` does **not** use it: its timeout goroutine ignores the token it receives and flushes `CurrentBatch`
(`tmoRecv` then `flushA` with `.cur`), so a stale or spurious time-out hands out the *next* batch early. That only changes
where batch boundaries fall: `reorder_in_order`, `reorder_prefix`, `reorder_complete`, `reorder_capacity` quantify over every
schedule, including `stale`/`fire` at any moment, so order, no-loss and no-duplication are unaffected. Witness: -/

/-- an early flush by a stale token: batch `[1,2]` is flushed by size, then the stale callback of that batch fires and the
timeout goroutine hands out the half-filled next batch `[3]` (batch size 2); the consumer still receives 1, 2, 3, 4 in order -/
example :
    (exec id (fun _ => false) true ({ st := init 2 true 4 } : Run Nat Nat)
      [.pAdd 1, .pIsFull, .pAdd 2, .pIsFull, .lock .prod, .flushA .prod, .flushB .prod,
       .pAdd 3, .pIsFull, .stale, .tmoRecv, .lock .tmo, .flushA .tmo, .flushB .tmo,       -- stale token of batch 0 flushes [3] early
       .pAdd 4, .pIsFull, .pFlush, .lock .prod, .flushA .prod, .flushB .prod,
       .fetchDone 2, .fetchDone 1, .fetchDone 0, .drainStart, .drainNext, .send, .send, .drainNext, .send, .drainNext, .send,
       .recv, .recv, .recv, .recv]).map (fun r => (r.out, r.st.nextSeq)) = some ([1, 2, 3, 4], 3) := by decide

/-- the schedule of the D17 witness: time-out flusher parked between `batcher.Flush` and `Reserve` -/
def d17Schedule : List (Act Nat) :=
  [.pAdd 1, .pIsFull, .fire, .tmoRecv, .lock .tmo, .flushA .tmo,
   .pAdd 2, .pIsFull, .pAdd 3, .pIsFull, .lock .prod, .flushA .prod, .flushB .prod, .flushB .tmo,
   .fetchDone 0, .drainStart, .drainNext, .send, .send, .drainNext,
   .fetchDone 1, .drainStart, .drainNext, .send, .drainNext, .recv, .recv, .recv]

/-- regression witness: without `flushMu` (the code before the repair) this schedule swaps two batches … -/
theorem d17_unrepaired_reorders :
    (exec id (fun _ => false) false ({ st := init 2 true 4 } : Run Nat Nat) d17Schedule).map (·.out) = some [2, 3, 1] := by
  decide

/-- … and with the mutex the producer's `lock` is simply not enabled at that point (non-vacuity of the
mutual-exclusion argument: the schedule is rejected, not reordered) -/
theorem d17_repaired_blocks :
    (exec id (fun _ => false) true ({ st := init 2 true 4 } : Run Nat Nat) d17Schedule).map (·.out) = none := by
  decide

/-- non-vacuity: a complete run of the repaired model with batch size 1, an unbuffered-as-given `Output` of capacity
1, the fetch of the middle batch failing, fetches completing out of order and a slow consumer ends quiescent with the
results of the other batches in order -/
example :
    (exec id (fun q => q == 1) true ({ st := init 1 true 1 } : Run Nat Nat)
      [.pAdd 1, .pIsFull, .lock .prod, .flushA .prod, .flushB .prod,
       .pAdd 2, .pIsFull, .fire, .tmoRecv, .fetchDone 0, .drainStart, .drainNext, .send, .drainNext,
       .lock .tmo, .flushA .tmo, .flushB .tmo, .lock .prod, .flushA .prod, .flushB .prod, .recv,
       .fetchErr 1, .fetchDone 1, .drainStart, .drainNext, .drainNext,
       .pAdd 3, .pIsFull, .lock .prod, .flushA .prod, .flushB .prod, .fetchDone 2, .drainStart, .drainNext, .send,
       .drainNext, .recv]).map
        (fun r => (r.out, r.st.inflight.length, r.st.drainers, r.st.b.batch, r.st.errs)) = some ([1, 3], 0, 0, [], 1) := by
  decide

end Rxn.C20
