import RxnModel.Proofs.Batcher
import RxnModel.Proofs.Reorder
/-!
# C20 — batching never loses, duplicates or reorders items

Property theorems only. Models: `Model/Batcher.lean` (`batching.EventBatcher` + `clocks.Timer`),
`Model/Reorder.lean` (`batching.ReorderFetcher` + `ReorderBuffer` as a transition system whose actions are the
mutex sections of the code; the schedule `as` is universally quantified, so the theorems hold for every
interleaving of the producer, the timeout goroutine, the timer callbacks and the fetch goroutines and for
every completion order of the fetches). The model is the code after the repair of D17 (`flushMu`).
-/
namespace Rxn.C20
open Rxn

/-! ## EventBatcher -/

/-- the batches handed out, concatenated, followed by the current batch, are exactly the items added:
nothing lost, duplicated or reordered, for every history of Add / IsFull / Flush(any token) / timer expiry -/
theorem batcher_concat {α : Type} (maxSize : Nat) (hasDelay : Bool) (ops : List (Batcher.Op α)) :
    (Batcher.run (Batcher.new maxSize hasDelay) ops).2.flatten
      ++ (Batcher.run (Batcher.new maxSize hasDelay) ops).1.batch = Batcher.added ops := by
  simpa [Batcher.new] using Batcher.run_concat ops (Batcher.new maxSize hasDelay)

example : (Batcher.run (Batcher.new 2 true) [.add 1, .fire, .add 2, .flush (.tok 0), .add (3 : Nat), .flush (.tok 0)]).2
    = [[], [], [], [1, 2], [], []] := by decide

/-- a time-out token of another batch flushes nothing and changes nothing -/
theorem stale_token_noop {α : Type} (s : Batcher.St α) (n : Nat) (h : n ≠ s.token) :
    Batcher.flush s (.tok n) = (s, []) := Batcher.flush_stale s n h

/-- in every reachable state the armed timer carries the token of the current, non-empty batch (so its expiry
flushes exactly that batch), and a callback that raced with `Stop` never carries a future token -/
theorem timer_token_current {α : Type} (maxSize : Nat) (hasDelay : Bool) (ops : List (Batcher.Op α)) :
    let s := (Batcher.run (Batcher.new maxSize hasDelay) ops).1
    (∀ k, Batcher.fire s = some k → k = s.token ∧ (Batcher.flush s (.tok k)).2 = s.batch ∧ s.batch ≠ []) ∧
    (∀ k, Batcher.stale s = some k → k ≤ s.token) := by
  intro s
  have h := Batcher.timerInv_run ops (Batcher.new maxSize hasDelay) (Batcher.timerInv_new maxSize hasDelay)
  refine ⟨?_, h.2⟩
  intro k hk
  obtain ⟨h1, h2⟩ := h.1 k hk
  refine ⟨h1, ?_, h2⟩
  have hne : s.batch.isEmpty = false := by
    cases hb : s.batch with
    | nil => exact absurd hb h2
    | cons _ _ => rfl
  show (Batcher.flush (Batcher.run (Batcher.new maxSize hasDelay) ops).1 (.tok k)).2 = _
  simp only [Batcher.flush, Batcher.flushes]
  have : (Batcher.run (Batcher.new maxSize hasDelay) ops).1.batch.isEmpty = false := hne
  simp [this, h1]; rfl

example : Batcher.fire (Batcher.run (Batcher.new 3 true) [.add (7 : Nat), .flush .cur, .add 8]).1 = some 1 := by decide

/-! ## ReorderFetcher -/

open Reorder

/-- **one output per input, in input order, for every schedule**: whatever has been sent to `Output` is the fetch
results of the first `drainedSeq` flushed batches, and the flushed batches, the batch held by a flusher inside its
critical section and the current batch concatenate to exactly the items added -/
theorem reorder_in_order {α ρ : Type} (f : List α → List ρ) (maxSize : Nat) (hasDelay : Bool) (bufferSize : Nat)
    (as : List (Act α)) (r : Run α ρ)
    (hrun : exec f true { st := init maxSize hasDelay bufferSize } as = some r) :
    ∃ batches : List (List α),
      batches.flatten ++ held r.st.pp ++ held r.st.tp ++ r.st.b.batch = inputs as ∧
      r.out = ((batches.take r.st.drainedSeq).map f).flatten := by
  obtain ⟨hist, h⟩ := reorder_invariant f as _ r [] (reorder_init_inv f maxSize hasDelay bufferSize) hrun
  have hins := exec_ins f true as _ r hrun
  refine ⟨hist, ?_, h.buf.out⟩
  rw [← h.ins, hins]; rfl

/-- for a fetch function that answers item by item (as `KeyEventBatch` does) the output is always a prefix of
the mapped input sequence: no result is lost, duplicated or out of order at any moment of any schedule -/
theorem reorder_prefix {α ρ : Type} (g : α → ρ) (maxSize : Nat) (hasDelay : Bool) (bufferSize : Nat)
    (as : List (Act α)) (r : Run α ρ)
    (hrun : exec (List.map g) true { st := init maxSize hasDelay bufferSize } as = some r) :
    ∃ rest, r.out ++ rest = (inputs as).map g := by
  obtain ⟨bs, h1, h2⟩ := reorder_in_order (List.map g) maxSize hasDelay bufferSize as r hrun
  refine ⟨(((bs.drop r.st.drainedSeq).map (List.map g)).flatten) ++ (held r.st.pp ++ held r.st.tp ++ r.st.b.batch).map g, ?_⟩
  rw [h2, ← h1, ← List.append_assoc, ← List.flatten_append, ← List.map_append, List.take_append_drop]
  simp [List.map_flatten]

/-- …and when everything has come to rest (flushers idle, batch empty, no fetch goroutine alive) every input
has been emitted: exactly one result per input, in input order -/
theorem reorder_complete {α ρ : Type} (g : α → ρ) (maxSize : Nat) (hasDelay : Bool) (bufferSize : Nat)
    (as : List (Act α)) (r : Run α ρ)
    (hrun : exec (List.map g) true { st := init maxSize hasDelay bufferSize } as = some r)
    (hq : quiescent r.st) : r.out = (inputs as).map g := by
  obtain ⟨hist, h⟩ := reorder_invariant (List.map g) as _ r [] (reorder_init_inv _ maxSize hasDelay bufferSize) hrun
  have hins := exec_ins (List.map g) true as _ r hrun
  obtain ⟨q1, q2, q3, q4, q5⟩ := hq
  have hd : r.st.drainedSeq = r.st.nextSeq := by
    by_cases hlt : r.st.drainedSeq < r.st.nextSeq
    · rcases h.buf.cover _ (Nat.le_refl _) hlt with hc | ⟨e, he⟩
      · have := h.buf.live hc; omega
      · rw [q4] at he; simp at he
    · have := h.buf.dle; omega
  have hp : held r.st.pp = [] := by cases hpp : r.st.pp <;> simp_all [held, Pc.isIdle]
  have ht : held r.st.tp = [] := by cases htp : r.st.tp <;> simp_all [held, Pc.isIdle]
  have hi := h.ins
  rw [hp, ht, q3, hins] at hi
  have : inputs as = hist.flatten := by simpa [Run.ins] using hi
  rw [h.buf.out, hd, ← h.buf.len, List.take_length, this]
  simp [List.map_flatten]

/-- the reorder buffer never holds more than `BufferSize` reserved slots, the two flushers are never both inside
the critical section, and sequence numbers are handed out in flush order (`reserved = next − drained`) -/
theorem reorder_capacity {α ρ : Type} (f : List α → List ρ) (maxSize : Nat) (hasDelay : Bool) (bufferSize : Nat)
    (as : List (Act α)) (r : Run α ρ)
    (hrun : exec f true { st := init maxSize hasDelay bufferSize } as = some r) :
    r.st.reserved ≤ r.st.cap ∧ r.st.reserved = r.st.nextSeq - r.st.drainedSeq ∧
    ¬ (r.st.pp.holds = true ∧ r.st.tp.holds = true) := by
  obtain ⟨hist, h⟩ := reorder_invariant f as _ r [] (reorder_init_inv f maxSize hasDelay bufferSize) hrun
  exact ⟨h.buf.capb, h.buf.hres, h.mutex⟩

/-- the schedule of the D17 witness: time-out flusher parked between `batcher.Flush` and `Reserve` -/
def d17Schedule : List (Act Nat) :=
  [.pAdd 1, .pIsFull, .fire, .tmoRecv, .lock .tmo, .flushA .tmo,
   .pAdd 2, .pIsFull, .pAdd 3, .pIsFull, .lock .prod, .flushA .prod, .flushB .prod, .flushB .tmo,
   .fetchDone 0, .drain, .fetchDone 1, .drain]

/-- regression witness: without `flushMu` (the code before the repair) this schedule swaps two batches … -/
theorem d17_unrepaired_reorders :
    (exec id false ({ st := init 2 true 4 } : Run Nat Nat) d17Schedule).map (·.out) = some [2, 3, 1] := by
  decide

/-- … and with the mutex the producer's `lock` is simply not enabled at that point (non-vacuity of the
mutual-exclusion argument: the schedule is rejected, not reordered) -/
theorem d17_repaired_blocks :
    (exec id true ({ st := init 2 true 4 } : Run Nat Nat) d17Schedule).map (·.out) = none := by
  decide

/-- non-vacuity: a complete run of the repaired model with out-of-order fetch completion ends quiescent with
every input emitted in order -/
example :
    (exec id true ({ st := init 2 true 4 } : Run Nat Nat)
      [.pAdd 1, .pIsFull, .fire, .tmoRecv, .lock .tmo, .flushA .tmo, .pAdd 2, .pIsFull, .pAdd 3, .pIsFull,
       .flushB .tmo, .lock .prod, .flushA .prod, .flushB .prod, .fetchDone 1, .drain, .fetchDone 0, .drain]).map
        (fun r => (r.out, r.st.inflight.length, r.st.drainers, r.st.b.batch)) = some ([1, 2, 3], 0, 0, []) := by
  decide

end Rxn.C20
