import RxnModel.Proofs.Align
/-!
# C02 — barrier alignment gives every operator checkpoint a consistent cut

Property theorems only. Model: `Model/Align.lean` (`step`: the `RLock` section of `HandleEvent` = `align`,
the rendezvous on `o.events` plus the consumer's event function = `go`, the batcher's timeout = `tick`/`stale`,
an injected failure of the ack to the job = `armFail`, `HandleDeploy` on the running operator = `redeploy`).

The trace theorems are stated for one *deployment epoch*: a run `runFrom s0 [] as` from any `Fresh` state `s0`
(no checkpoint in progress, nobody parked, job reachable — the initial state `init k b` and every state right
after a `redeploy` are fresh, `init_is_fresh` / `redeploy_is_fresh`) under any list `as` of plain actions
(`align`, `go`, `tick`, `stale`). Every `align sr it` carries its item, so this covers every number of senders,
every per-sender sequence of keyed events / watermarks / barriers / source-complete markers (including repeated,
skipped and mismatching barrier ids), every batch size and every interleaving, with any number of consecutive
checkpoints. A fresh state may carry keyed state, timers, events waiting in the batcher and calls that already
passed alignment (all of which survive a redeploy in the code); the theorems account for them (`s0.kv`,
`s0.timers`, `userOf s0.pending`).

What is guaranteed when the ack to the job fails is stated separately (`failed_ack_*`, `stale_record_*`): the
snapshot is taken but the completed checkpoint record stays; nobody blocks any more, every barrier with another
id is rejected, and only a redeploy (which the failing sender's worker triggers by exiting) starts a new epoch.

Senders `k … k+z-1` are callers that are not among the deployed `SourceRunnerIds` (runners of a previous deployment):
they are part of every schedule quantified over (`demoZombie`). Remaining exclusions: each sender issues its
`HandleEventBatch` calls sequentially; at least one runner is deployed (`Fresh.kpos`); a redeploy is modelled onto fresh storage (restoring DKV
state is C06/C08).

Trace vocabulary (`Proofs/Align.lean`): `procsOf obs` = the items the single consumer took, in order, with
their sender; `entriesOf obs` = the entries (keyed events and expired timers) handed to the user handler, in
order; `userOf` / `userProcs` = the keyed events among them; `lastProc sr p` = the last item of sender `sr`;
`timersOf c obs` = the timer store replayed from the trace (requests of handled events under the `SetTimer`
guard of the watermark the handler was called with, minus fired timers, in trace order).
-/
namespace Rxn.C02
open Rxn Rxn.Align

/-- the snapshots of a trace -/
def snapsOf : List Obs → List (Nat × KVf × Timers)
  | [] => []
  | Obs.snap id S T :: r => (id, S, T) :: snapsOf r
  | _ :: r => snapsOf r

/-- all actions of normal operation -/
def Plain (as : List Act) : Prop := ∀ a ∈ as, a.plain = true

/-- **Consistent cut (partial with respect to undeployed callers, finding D69, fixed).** The property speaks of the
events "each upstream source runner delivered". `Operator.HandleEvent` never checks the sender id, so a caller that
is not among the deployed `SourceRunnerIds` (senders `k … k+z-1`, e.g. a runner of the previous assembly that is
still alive) is served like a runner: its keyed events are among `userProcs (procsOf pre)` below and enter the
checkpoint (`consistent_cut_counterexample`). This statement holds for every schedule, undeployed callers included;
`consistent_cut` adds the missing clause for an operator that admits only its runners (the code since the repair).
Whenever a checkpoint `id` is taken with keyed state `S`, then for the trace `pre` before it:
`S` is the fold of exactly the entries the handler received (nothing is still pending in the batcher); the keyed
events the handler received are exactly those waiting at the start of the epoch followed by the keyed events
the consumer took from the senders, in the same order; and for every sender the last item taken from it is its
barrier `id` — the snapshot contains the effects of precisely what each sender delivered up to its own barrier
`id`, and of nothing a sender delivered after it. -/
theorem consistent_cut_partial (s0 : St) (hf : Fresh s0) (as : List Act) (hpl : Plain as) (pre post : List Obs) (id : Nat)
    (S : KVf) (T : Timers) (h : (runFrom s0 [] as).2 = pre ++ Obs.snap id S T :: post) :
    S = (entriesOf pre).foldl applyRec s0.kv ∧
    userOf (entriesOf pre) = userOf s0.pending ++ userProcs (procsOf pre) ∧
    ∀ sr, sr < s0.k → lastProc sr (procsOf pre) = some (Item.bar id) := by
  obtain ⟨_, _, _, hcut, _⟩ := run_ok hf as hpl
  rw [h] at hcut
  simpa [Cut] using cutOK_split hcut

/-- **The code turns callers away that are not deployed runners** (repair of D69, a8de76c): the fact regenerated from
`Operator.HandleEvent` says the sender is checked before the alignment decision. If the check disappears from the
source this theorem no longer type-checks. -/
theorem code_checks_sender : Facts.c02SenderChecked = 1 := by decide

/-- hence the operator of the current source admits no caller outside its runners, however many call -/
theorem code_admits_runners_only (k b z : Nat) : (codeInit k b z).z = 0 := by
  simp [codeInit, admittedZ, code_checks_sender]

/-- **Consistent cut.** An operator that admits only its deployed runners (`z = 0`: what the current code does,
`code_admits_runners_only`) puts into checkpoint `id` the effects of exactly what the deployed runners delivered up to
their own barrier `id`: the clauses of `consistent_cut_partial`, and every item the consumer took before the snapshot
is a deployed runner's — whatever other senders try to call. -/
theorem consistent_cut (s0 : St) (hf : Fresh s0) (hz : s0.z = 0) (as : List Act) (hpl : Plain as)
    (pre post : List Obs) (id : Nat) (S : KVf) (T : Timers)
    (h : (runFrom s0 [] as).2 = pre ++ Obs.snap id S T :: post) :
    S = (entriesOf pre).foldl applyRec s0.kv ∧
    userOf (entriesOf pre) = userOf s0.pending ++ userProcs (procsOf pre) ∧
    (∀ sr, sr < s0.k → lastProc sr (procsOf pre) = some (Item.bar id)) ∧
    ∀ x ∈ procsOf pre, x.1 < s0.k := by
  obtain ⟨c1, c2, c3⟩ := consistent_cut_partial s0 hf as hpl pre post id S T h
  refine ⟨c1, c2, c3, ?_⟩
  intro x hx
  have hx' : x ∈ procsOf (runFrom s0 [] as).2 := by
    rw [h, procsOf_append]
    exact List.mem_append_left _ hx
  rcases runFrom_procs_lt as s0 [] x hx' with hnil | hlt
  · cases hnil
  · simpa [hz] using hlt

/-- the statement about the code: a run of the operator of the current source, with any number of further callers -/
theorem consistent_cut_code (k b z : Nat) (hk : 0 < k) (as : List Act) (hpl : Plain as) (pre post : List Obs)
    (id : Nat) (S : KVf) (T : Timers) (h : (runFrom (codeInit k b z) [] as).2 = pre ++ Obs.snap id S T :: post) :
    S = (entriesOf pre).foldl applyRec emptyKV ∧
    userOf (entriesOf pre) = userProcs (procsOf pre) ∧
    (∀ sr, sr < k → lastProc sr (procsOf pre) = some (Item.bar id)) ∧
    ∀ x ∈ procsOf pre, x.1 < k := by
  have hf : Fresh (codeInit k b z) := ⟨rfl, by intro sr it; simp [codeInit, init], rfl, hk⟩
  have := consistent_cut (codeInit k b z) hf (code_admits_runners_only k b z) as hpl pre post id S T h
  simpa [codeInit, init, userOf] using this

/-- **Counterexample (D69, the rule before the repair).** An operator that admits a caller outside its runners (`z = 1`;
the code before a8de76c): two deployed runners (0, 1) and one caller that is not deployed (2): the caller's keyed
event is handed to the handler and checkpoint 1 contains it although no deployed runner delivered anything. -/
def zombieCut : List Act :=
  [.align 2 (.ev [0x61] 5 0), .go 2, .align 0 (.bar 1), .go 0, .align 1 (.bar 1), .go 1]

theorem consistent_cut_counterexample :
    ∃ pre id S T post, (runFrom { init 2 1 with z := 1 } [] zombieCut).2 = pre ++ Obs.snap id S T :: post ∧
      Plain zombieCut ∧ ∃ e ∈ userOf (entriesOf pre), ¬ e.1 < 2 := by
  have hc : firstCut [] [] (runFrom { init 2 1 with z := 1 } [] zombieCut).2 =
      some ([(2, [0x61], 5, 0)], [(2, [0x61], 5, 0)]) := by rfl
  obtain ⟨pre, id, S, T, post, e, hu, _⟩ := firstCut_spec _ _ _ _ _ hc
  refine ⟨pre, id, S, T, post, e, by unfold Plain; decide, (2, [0x61], 5, 0), ?_, by decide⟩
  simp only [List.nil_append] at hu
  rw [← hu]
  exact List.mem_cons_self

/-- the same for a run from the initial state -/
theorem consistent_cut_init (k b : Nat) (hk : 0 < k) (as : List Act) (hpl : Plain as) (pre post : List Obs) (id : Nat) (S : KVf)
    (T : Timers) (h : (run k b as).2 = pre ++ Obs.snap id S T :: post) :
    S = (entriesOf pre).foldl applyRec emptyKV ∧
    userOf (entriesOf pre) = userProcs (procsOf pre) ∧
    ∀ sr, sr < k → lastProc sr (procsOf pre) = some (Item.bar id) := by
  have := consistent_cut_partial (init k b) (init_fresh k b hk) as hpl pre post id S T h
  simpa [init, userOf] using this

/-- **The snapshot's timers.** The timer set of checkpoint `id` is exactly the store replayed from the trace before
it: timers requested by the events the handler processed before the cut (each under the `SetTimer` guard of the
watermark of that handler call) are in it, timers fired before the cut are not — and by `consistent_cut_partial` nothing
a sender delivered after its barrier `id` (in particular no watermark) contributed. -/
theorem snapshot_timers (s0 : St) (hf : Fresh s0) (as : List Act) (hpl : Plain as) (pre post : List Obs) (id : Nat)
    (S : KVf) (T : Timers) (h : (runFrom s0 [] as).2 = pre ++ Obs.snap id S T :: post) :
    T = timersOf s0.timers pre := by
  obtain ⟨_, _, _, _, _, _, htok⟩ := run_ok hf as hpl
  rw [h] at htok
  exact timersOK_split htok

/-- every timer in a checkpoint was pending at the start of the epoch or was requested by a keyed event with that
key and timestamp that the handler processed before the cut -/
theorem snapshot_timers_from_events (s0 : St) (hf : Fresh s0) (as : List Act) (hpl : Plain as)
    (pre post : List Obs) (id : Nat) (S : KVf) (T : Timers)
    (h : (runFrom s0 [] as).2 = pre ++ Obs.snap id S T :: post) (t : Nat) (key : Bytes) (ht : (t, key) ∈ T) :
    (t, key) ∈ s0.timers ∨ ∃ sr p, Entry.user sr key p t ∈ entriesOf pre := by
  rw [snapshot_timers s0 hf as hpl pre post id S T h] at ht
  exact mem_timersOf pre s0.timers ht

/-- **Post-barrier events are blocked.** After the barrier `id` of sender `sr` has been accepted, the consumer takes
no further item of `sr` (keyed event, watermark — hence no timer firing caused by it — barrier or source-complete)
until a snapshot has been taken, and the first snapshot taken after it is the one of checkpoint `id`. -/
theorem post_barrier_blocked (s0 : St) (hf : Fresh s0) (as : List Act) (hpl : Plain as) (pre mid post : List Obs)
    (sr id : Nat) (it : Item) (hsr : sr < s0.k)
    (h : (runFrom s0 [] as).2 = pre ++ Obs.reg sr id :: (mid ++ Obs.proc sr it :: post)) :
    ∃ m1 S T m2, mid = m1 ++ Obs.snap id S T :: m2 ∧ ∀ id' S' T', Obs.snap id' S' T' ∉ m1 := by
  obtain ⟨_, _, _, _, hal, _⟩ := run_ok hf as hpl
  rw [h, alignOK_append] at hal
  have hu := alignOK_uniqueKeys pre [] uniqueKeys_nil hal.1
  have h2 := hal.2
  simp only [alignOK] at h2
  exact alignOK_blocked_id hsr mid _ post (hu.cons h2.1) List.mem_cons_self h2.2

/-- the same as a state invariant: while checkpoint `id` is in progress, a sender whose barrier is no longer
missing has delivered that barrier as its last item and is not standing at the gate in front of the consumer -/
theorem delivered_sender_blocked (s0 : St) (hf : Fresh s0) (as : List Act) (hpl : Plain as) (id : Nat)
    (m : List Nat) (hc : (runFrom s0 [] as).1.ckpt = some (id, m)) (sr : Nat) (hsr : sr < s0.k) (hm : sr ∉ m) :
    lastProc sr (procsOf (runFrom s0 [] as).2) = some (Item.bar id) ∧
    ∀ it, (runFrom s0 [] as).1.slots sr ≠ some (it, true) := by
  obtain ⟨_, hk, hinv, _⟩ := run_ok hf as hpl
  exact (hinv.ck id m hc).2 sr (by rw [hk]; exact hsr) hm

/-- **Consecutive checkpoints.** Between two snapshots of one run every sender had a fresh barrier accepted, and
it carries the id of the second snapshot: no checkpoint reuses barriers of an earlier one or mixes ids, for any
number of checkpoints in a run. -/
theorem consecutive_checkpoints (s0 : St) (hf : Fresh s0) (as : List Act) (hpl : Plain as) (pre mid post : List Obs)
    (id1 id2 : Nat) (S1 S2 : KVf) (T1 T2 : Timers)
    (h : (runFrom s0 [] as).2 = pre ++ Obs.snap id1 S1 T1 :: (mid ++ Obs.snap id2 S2 T2 :: post)) :
    ∀ sr, sr < s0.k → Obs.reg sr id2 ∈ mid := by
  obtain ⟨_, _, _, _, hal, _⟩ := run_ok hf as hpl
  rw [h, alignOK_append] at hal
  have h2 := hal.2
  simp only [alignOK] at h2
  intro sr hsr
  rcases alignOK_fresh mid [] post h2.2 sr hsr with hg | hreg
  · cases hg
  · exact hreg

/-- the first snapshot of an epoch, too, needs an accepted barrier with its id from every sender -/
theorem first_checkpoint (s0 : St) (hf : Fresh s0) (as : List Act) (hpl : Plain as) (pre post : List Obs)
    (id : Nat) (S : KVf) (T : Timers) (h : (runFrom s0 [] as).2 = pre ++ Obs.snap id S T :: post) :
    ∀ sr, sr < s0.k → Obs.reg sr id ∈ pre := by
  obtain ⟨_, _, _, _, hal, _⟩ := run_ok hf as hpl
  rw [h] at hal
  intro sr hsr
  rcases alignOK_fresh pre [] post hal sr hsr with hg | hreg
  · cases hg
  · exact hreg

/-- **Id mismatch is rejected.** A barrier whose id differs from the checkpoint record in place changes nothing but
the sender's own call returning (with the mismatch error): the checkpoint, the missing set, the store, the
pending batch and the parked senders are untouched and no snapshot is taken. -/
theorem id_mismatch_rejected (s : St) (sr id cid : Nat) (m : List Nat) (hlive : s.stopped = false)
    (hsr : sr < s.k) (hslot : s.slots sr = some (Item.bar id, true)) (hc : s.ckpt = some (cid, m))
    (hne : id ≠ cid) :
    step s (Act.go sr) =
      ({ s with slots := fun i => if i = sr then none else s.slots i },
       [Obs.proc sr (Item.bar id), Obs.reject sr id cid]) := by
  have hv : virtCk s id = (cid, m) := by simp [virtCk, hc]
  unfold step
  rw [if_neg (by simp [hlive]), stepLive_go_run (Nat.lt_add_right _ hsr) hslot]
  simp only [process]
  rw [if_pos hsr, barrier_reject (by rw [hv]; exact hne), hv]
  simp only [← hc]

/-- **No stranded sender.** A sender is parked only while a checkpoint is in progress that already holds its
barrier; in particular once the checkpoint is reset nobody is left waiting on `allBarriersReceived`. -/
theorem no_stranded_sender (s0 : St) (hf : Fresh s0) (as : List Act) (hpl : Plain as) (sr : Nat) (it : Item)
    (h : (runFrom s0 [] as).1.slots sr = some (it, false)) :
    ∃ id m, (runFrom s0 [] as).1.ckpt = some (id, m) ∧ sr ∉ m := by
  obtain ⟨_, _, hinv, _⟩ := run_ok hf as hpl
  exact hinv.parked sr it h

/-- **Cancellations are invisible.** Cancelling the context of calls in flight (clients giving up) at any points of
any schedule yields exactly the state and trace — hence the same checkpoints with the same contents — as the
schedule without the cancellations: a sender parked behind its barrier stays parked, its post-barrier event cannot
slip in before the capture. (Neither the wait on `allBarriersReceived` nor the hand-over to the consumer looks at
the context; the harness checks the real operator against this with `cancel` ops.) -/
theorem cancellations_are_invisible (s : St) (as : List Act) :
    runFrom s [] as = runFrom s [] (as.filter fun a => !a.isCancel) :=
  runFrom_filter_cancel as s []

/-! ## epochs: the initial state and every redeploy start a fresh epoch -/

theorem init_is_fresh (k b : Nat) (hk : 0 < k) : Fresh (init k b) := init_fresh k b hk

/-- **Redeploy (D15 + D43).** `HandleDeploy` abandons the checkpoint of the previous deployment: afterwards no
checkpoint is in progress and nobody is parked — the senders that were parked are reported as turned away, their
slots are empty, so their items never reach the consumer — and the new epoch is fresh. -/
theorem redeploy_is_fresh (s : St) (hlive : s.stopped = false) (haf : s.ackFails = false) (hk : 0 < s.k) :
    Fresh (step s Act.redeploy).1 ∧
    (step s Act.redeploy).2 = [Obs.redeployed (parkedList s)] ∧
    ∀ sr it, s.slots sr = some (it, false) → (step s Act.redeploy).1.slots sr = none := by
  have hst : step s Act.redeploy = redeploy s := by
    unfold step
    rw [if_neg (by simp [hlive])]
    rfl
  rw [hst]
  refine ⟨⟨rfl, ?_, haf, hk⟩, rfl, ?_⟩
  · intro sr it
    simp only [redeploy]
    cases hs : s.slots sr with
    | none => simp
    | some v =>
      obtain ⟨it', b⟩ := v
      cases b <;> simp
  · intro sr it hs
    simp only [redeploy]
    rw [hs]

/-- **The cut of an epoch started by a redeploy (partial, open finding D45).**
Full statement wanted by the property (`epoch_cut_of_clean_redeploy`): after a redeploy every checkpoint of the new
deployment is cut from what was delivered in the new epoch — the handler's keyed events are exactly the taken ones,
and every taken item was handed in by a call that started after the redeploy.
The code does not give that: `HandleDeploy` keeps (1) the event batcher and (2) the calls that already passed
alignment. Proved here, for any state `s` with any history (failed acks included) in which the job is reachable:
all guarantees of `consistent_cut_partial` hold for the new epoch relative to the restored (empty) state, with exactly
the two residues explicit — the keyed events waiting in the batcher at the redeploy (`userOf s.pending`) head the
first cut, and an item taken without a call of its sender in the new epoch comes from a call that was past
alignment at the redeploy. Both residues occur: `epoch_cut_counterexample`, `epoch_cut_counterexample_call`. -/
theorem epoch_cut_partial (s : St) (hlive : s.stopped = false) (haf : s.ackFails = false) (hk : 0 < s.k)
    (as : List Act) (hpl : Plain as) (pre post : List Obs) (id : Nat) (S : KVf) (T : Timers)
    (h : (runFrom (step s Act.redeploy).1 [] as).2 = pre ++ Obs.snap id S T :: post) :
    S = (entriesOf pre).foldl applyRec emptyKV ∧
    userOf (entriesOf pre) = userOf s.pending ++ userProcs (procsOf pre) ∧
    (∀ sr, sr < s.k → lastProc sr (procsOf pre) = some (Item.bar id)) ∧
    T = timersOf [] pre ∧
    ∀ p1 sr it p2, pre = p1 ++ Obs.proc sr it :: p2 → sr < s.k + s.z →
      (∃ b, Obs.aligned sr b ∈ p1) ∨ ∃ it0, s.slots sr = some (it0, true) := by
  obtain ⟨hfresh, _, _⟩ := redeploy_is_fresh s hlive haf hk
  have hst : step s Act.redeploy = redeploy s := by
    unfold step
    rw [if_neg (by simp [hlive])]
    rfl
  obtain ⟨c1, c2, c3⟩ := consistent_cut_partial _ hfresh as hpl pre post id S T h
  have c4 := snapshot_timers _ hfresh as hpl pre post id S T h
  rw [hst] at c1 c2 c3 c4
  refine ⟨c1, c2, c3, c4, ?_⟩
  intro p1 sr it p2 hp hsr
  exact epoch_delivered s hlive as p1 (p2 ++ Obs.snap id S T :: post) sr it hsr (by rw [h, hp]; simp)

/-- **The cut of an epoch after a clean redeploy** — the full statement, under exactly the condition excluded above:
the redeploy finds the batcher empty and no call past alignment. Then the handler's keyed events are exactly the
taken ones and every item taken before a checkpoint of the new deployment was handed in by a call that started in
the new epoch: nothing of the previous deployment is in its checkpoints. -/
theorem epoch_cut_of_clean_redeploy (s : St) (hlive : s.stopped = false) (haf : s.ackFails = false)
    (hk : 0 < s.k) (hempty : s.pending = []) (hnocall : ∀ sr it, s.slots sr ≠ some (it, true))
    (as : List Act) (hpl : Plain as) (pre post : List Obs) (id : Nat) (S : KVf)
    (T : Timers) (h : (runFrom (step s Act.redeploy).1 [] as).2 = pre ++ Obs.snap id S T :: post) :
    userOf (entriesOf pre) = userProcs (procsOf pre) ∧
    ∀ p1 sr it p2, pre = p1 ++ Obs.proc sr it :: p2 → sr < s.k + s.z → ∃ b, Obs.aligned sr b ∈ p1 := by
  obtain ⟨_, c2, _, _, c5⟩ := epoch_cut_partial s hlive haf hk as hpl pre post id S T h
  refine ⟨by simpa [hempty, userOf] using c2, ?_⟩
  intro p1 sr it p2 hp hsr
  rcases c5 p1 sr it p2 hp hsr with hal | ⟨it0, hs⟩
  · exact hal
  · exact absurd hs (hnocall sr it0)

/-- **Counterexample (D45, batcher).** Sender 0's keyed event waits in the batcher (batch size 3) when the operator is
redeployed; in the new epoch both senders only deliver barrier 1 — and checkpoint 1 of the new deployment contains
the old event: the handler received a keyed event that no runner delivered in this epoch. -/
def leakState : St := (run 2 3 [.align 0 (.ev [0x61] 7 0), .go 0]).1
def leakEpoch : List Act := [.align 0 (.bar 1), .go 0, .align 1 (.bar 1), .go 1]

theorem epoch_cut_counterexample :
    ∃ pre id S T post, (runFrom (step leakState Act.redeploy).1 [] leakEpoch).2 = pre ++ Obs.snap id S T :: post ∧
      Plain leakEpoch ∧ userOf (entriesOf pre) ≠ userProcs (procsOf pre) := by
  have hc : firstCut [] [] (runFrom (step leakState Act.redeploy).1 [] leakEpoch).2 =
      some ([(0, [0x61], 7, 0)], []) := by rfl
  obtain ⟨pre, id, S, T, post, e, hu, hv⟩ := firstCut_spec _ _ _ _ _ hc
  refine ⟨pre, id, S, T, post, e, by unfold Plain; decide, ?_⟩
  simp only [List.nil_append] at hu hv
  rw [← hu, ← hv]
  decide

/-- **Counterexample (D45, call past alignment).** The batcher is empty, but sender 1's call with a keyed event (payload
8) has passed alignment when the operator is redeployed: in the new epoch the consumer takes that item although
sender 1 started no call in this epoch, and checkpoint 1 of the new deployment contains it. -/
def leakState2 : St := (run 2 1 [.align 1 (.ev [0x62] 8 0)]).1
def leakEpoch2 : List Act := [.go 1, .align 0 (.bar 1), .go 0, .align 1 (.bar 1), .go 1]

theorem epoch_cut_counterexample_call :
    leakState2.pending = [] ∧ Plain leakEpoch2 ∧
    (∃ p1 sr it p2, (runFrom (step leakState2 Act.redeploy).1 [] leakEpoch2).2 = p1 ++ Obs.proc sr it :: p2 ∧
      ∀ b, Obs.aligned sr b ∉ p1) ∧
    (snapsOf (runFrom (step leakState2 Act.redeploy).1 [] leakEpoch2).2).map (fun x => (x.1, x.2.1 [0x62])) = [(1, [8])] := by
  have hd : deliveredHere [] (runFrom (step leakState2 Act.redeploy).1 [] leakEpoch2).2 = false := by rfl
  obtain ⟨p1, sr, it, p2, e, _, hna⟩ := deliveredHere_false _ _ hd
  exact ⟨by decide, by unfold Plain; decide, ⟨p1, sr, it, p2, e, hna⟩, by decide⟩

/-- with the redeploy the property asks for (`redeploySpec`: batcher emptied, every call in flight turned away) the
new epoch starts clean: fresh, nothing pending, no call in flight -/
theorem redeploySpec_is_clean (s : St) (haf : s.ackFails = false) (hk : 0 < s.k) :
    Fresh (redeploySpec s).1 ∧ (redeploySpec s).1.pending = [] ∧ ∀ sr, (redeploySpec s).1.slots sr = none :=
  ⟨⟨rfl, by intro sr it; simp [redeploySpec], haf, hk⟩, rfl, fun _ => rfl⟩

/-- **An abandoned call is never applied.** For every schedule whatsoever (any start state, failures and redeploys
included): once a redeploy has turned sender `sr` away (it was parked behind its barrier of the abandoned
checkpoint), the consumer takes an item of `sr` only after `sr` has started a new `HandleEvent` call — the
post-barrier item of the previous deployment that the parked call carried never reaches the new deployment's
state. (Letting the parked callers through instead of failing them breaks exactly this.) -/
theorem abandoned_call_never_applied (s0 : St) (as : List Act) (pre mid post : List Obs) (l : List Nat)
    (sr : Nat) (it : Item) (hsr : sr ∈ l)
    (h : (runFrom s0 [] as).2 = pre ++ Obs.redeployed l :: (mid ++ Obs.proc sr it :: post)) :
    ∃ b, Obs.aligned sr b ∈ mid := by
  obtain ⟨_, hok⟩ := runFrom_away as s0 [] (by intro x hx; cases hx) trivial
  rw [h, awayOK_append] at hok
  have h2 := hok.2
  simp only [awayOK] at h2
  exact awayOK_new_call mid _ post (List.mem_append_left _ hsr) h2

/-! ## the window between waking the parked senders and capturing the checkpoint

`handleCheckpointBarrier` closes `allBarriersReceived` (waking the parked senders) before it flushes and captures.
`hstep`/`hrunFrom` (Model/Align.lean) let a schedule stop the consumer exactly there (`hold`), let woken senders
run on, and `resume`. -/

/-- all plain actions of a schedule with holds -/
def HPlain (has : List HAct) : Prop := ∀ a ∈ HAct.bases has, a.plain = true

/-- **A released sender waits for the capture.** When the consumer, held inside the last barrier's handler, resumes,
it first finishes that handler — flush, DKV capture, ack, reset — then takes the items of the senders that ran on
while it was held, and only then are calls started in the meantime aligned: the trace of `resume` is the trace of
`go sr0`, then the `go`s of the queue, then the `align`s of the blocked calls. So a woken sender's post-barrier
event is never in the pending batch the barrier handler flushes into checkpoint N. (That a sender running on can
do nothing but queue is the modelling assumption about the unbuffered channel; it is what the `gohold` ops check
on the real operator, and `held_schedule_is_plain_schedule` turns it into: holds change no trace.) -/
theorem released_sender_waits_for_capture (h : HSt) (sr0 : Nat) (hh : h.held = some sr0) :
    (hstep h HAct.resume).2 = (step h.s (Act.go sr0)).2 ++
        (runFrom (step h.s (Act.go sr0)).1 []
          (h.queue.map Act.go ++ h.blocked.map fun x => Act.align x.1 x.2)).2 ∧
    (hstep h HAct.resume).1.s = (runFrom (step h.s (Act.go sr0)).1 []
          (h.queue.map Act.go ++ h.blocked.map fun x => Act.align x.1 x.2)).1 := by
  refine ⟨?_, ?_⟩
  · simp only [hstep, hh, runFrom, List.cons_append]
    rw [runFrom_acc]
    simp
  · simp only [hstep, hh, runFrom, List.cons_append]
    rw [runFrom_acc]

/-- **Holds change nothing.** Every schedule with holds yields exactly the state and trace of a plain schedule, so
every theorem above holds verbatim for schedules in which the consumer is stopped between waking the parked
senders and capturing the checkpoint, in any order of the woken senders' progress. -/
theorem held_schedule_is_plain_schedule (s0 : St) (has : List HAct) (hpl : HPlain has) :
    ∃ as : List Act, Plain as ∧ (hrunFrom { s := s0 } [] has).1.s = (runFrom s0 [] as).1 ∧
      (hrunFrom { s := s0 } [] has).2 = (runFrom s0 [] as).2 := by
  obtain ⟨as, e1, e2, e3⟩ := hrun_sim has { s := s0 } []
  refine ⟨as, ?_, e1, e2⟩
  intro a ha
  rcases e3 a ha with hb | ⟨x, rfl⟩ | ⟨sr, it, rfl⟩
  · exact hpl a hb
  · rfl
  · rfl

/-- the consistent cut for schedules with holds -/
theorem consistent_cut_with_holds (s0 : St) (hf : Fresh s0) (has : List HAct) (hpl : HPlain has)
    (pre post : List Obs) (id : Nat) (S : KVf) (T : Timers)
    (h : (hrunFrom { s := s0 } [] has).2 = pre ++ Obs.snap id S T :: post) :
    S = (entriesOf pre).foldl applyRec s0.kv ∧
    userOf (entriesOf pre) = userOf s0.pending ++ userProcs (procsOf pre) ∧
    (∀ sr, sr < s0.k → lastProc sr (procsOf pre) = some (Item.bar id)) ∧
    T = timersOf s0.timers pre := by
  obtain ⟨as, hp, _, e2⟩ := held_schedule_is_plain_schedule s0 has hpl
  rw [e2] at h
  obtain ⟨c1, c2, c3⟩ := consistent_cut_partial s0 hf as hp pre post id S T h
  exact ⟨c1, c2, c3, snapshot_timers s0 hf as hp pre post id S T h⟩

/-! ## what the code guarantees when the ack to the job fails -/

/-- the completing barrier still flushes the batch and takes the snapshot, the sender gets the error, and the
completed record `(id, [])` stays in place: no `ack`, parked senders released, the failure flag consumed -/
theorem failed_ack_leaves_record (s : St) (sr id : Nat) (hid : id = (virtCk s id).1)
    (hlast : ((virtCk s id).2.filter (· ≠ sr)).isEmpty = true) (haf : s.ackFails = true) :
    (barrier s sr id).1.ckpt = some (id, []) ∧ (barrier s sr id).1.pending = [] ∧
    (barrier s sr id).1.ackFails = false ∧
    (∀ i it, (barrier s sr id).1.slots i ≠ some (it, false)) ∧
    Obs.ackfail id ∈ (barrier s sr id).2 ∧ (∀ j, Obs.ack j ∉ (barrier s sr id).2) ∧
    (s.dbFails = true → ∀ j S T, Obs.snap j S T ∉ (barrier s sr id).2) := by
  rw [barrier_failed hid hlast haf]
  have hf := flush_ext s
  refine ⟨by simp [← hid], flush_pending s, rfl, ?_, by simp [← hid], ?_, ?_⟩
  · intro i it
    simp only [release]
    cases (flush s).1.slots i <;> simp
  · intro j hj
    simp only [List.cons_append, List.nil_append, List.mem_cons, List.mem_append, reduceCtorEq, false_or] at hj
    rcases hj with (hj | hj) | hj
    · rcases hf.onlyH _ hj with ⟨_, _, _, h⟩ | ⟨_, _, h⟩ <;> cases h
    · split at hj <;> simp at hj
    · simp at hj
  · intro hdb j S T hj
    simp only [hdb, if_true, List.append_nil, List.cons_append, List.nil_append, List.mem_cons, List.mem_append,
      reduceCtorEq, false_or] at hj
    rcases hj with hj | hj
    · rcases hf.onlyH _ hj with ⟨_, _, _, h⟩ | ⟨_, _, h⟩ <;> cases h
    · simp at hj

/-- **After a failed ack (or a failed `db.Checkpoint`) checkpointing is stuck until the redeploy.** From any state
in which the completed record of checkpoint `id` is still in place (and no call in flight carries barrier `id`
again), under every schedule that neither redeploys nor re-sends barrier `id` — failures, cancellations and
barriers with any other id included — no barrier is accepted, no snapshot is taken and nothing is acknowledged; the
record stays. (Events keep flowing: nobody is held back, see `stale_record_rejects` for the barriers.) -/
theorem failed_ack_stuck_until_redeploy (id : Nat) (s : St) (h : StaleInv id s) (as : List Act)
    (hk : ∀ a ∈ as, a.keepsStale id = true) :
    (runFrom s [] as).1.ckpt = some (id, []) ∧
    ∀ x ∈ (runFrom s [] as).2, x.isCkptProgress = false := by
  obtain ⟨h1, h2⟩ := stale_run as s [] h hk (by intro x hx; cases hx)
  exact ⟨h1.1, h2⟩

/-- and every barrier carrying another id is rejected (instance of `id_mismatch_rejected`), so no checkpoint with a
new id can complete until a redeploy replaces the record -/
theorem stale_record_rejects (s : St) (sr id cid : Nat) (hlive : s.stopped = false) (hsr : sr < s.k)
    (hslot : s.slots sr = some (Item.bar id, true)) (hc : s.ckpt = some (cid, [])) (hne : id ≠ cid) :
    (step s (Act.go sr)).1.ckpt = some (cid, []) ∧ (step s (Act.go sr)).2 = [Obs.proc sr (Item.bar id), Obs.reject sr id cid] := by
  rw [id_mismatch_rejected s sr id cid [] hlive hsr hslot hc hne]
  exact ⟨hc, rfl⟩

/-! ## non-vacuity -/

def parkedOf : List Obs → List Nat
  | [] => []
  | Obs.aligned sr false :: r => sr :: parkedOf r
  | _ :: r => parkedOf r

def rejectsOf : List Obs → List (Nat × Nat × Nat)
  | [] => []
  | Obs.reject sr a c :: r => (sr, a, c) :: rejectsOf r
  | _ :: r => rejectsOf r

def abortedOf : List Obs → List (List Nat)
  | [] => []
  | Obs.redeployed l :: r => l :: abortedOf r
  | _ :: r => abortedOf r

/-- two senders, batch size 3: sender 0 runs ahead, delivers barrier 1 and parks with a post-barrier event; the
pending batch is flushed into the snapshot; the post-barrier event (payload 9) is not in checkpoint 1 but is in
checkpoint 2 -/
def demo : List Act :=
  [.align 0 (.ev [0x61] 1 0), .go 0, .align 0 (.bar 1), .go 0, .align 0 (.ev [0x61] 9 0),
   .align 1 (.ev [0x61] 2 0), .go 1, .go 0, .align 1 (.bar 1), .go 1, .go 0,
   .align 0 (.bar 2), .go 0, .align 1 (.bar 2), .go 1]

example : Plain demo := by unfold Plain; decide
example : parkedOf (run 2 3 demo).2 = [0] := by decide
example : (snapsOf (run 2 3 demo).2).map (fun x => (x.1, x.2.1 [0x61])) = [(1, [1, 2]), (2, [1, 2, 9])] := by decide

/-- a mismatching barrier id is rejected and the checkpoint in progress completes afterwards -/
def demoMismatch : List Act :=
  [.align 0 (.bar 1), .go 0, .align 1 (.bar 7), .go 1, .align 1 (.bar 1), .go 1]

example : rejectsOf (run 2 1 demoMismatch).2 = [(1, 7, 1)] := by decide
example : (snapsOf (run 2 1 demoMismatch).2).map (·.1) = [1] := by decide

/-- a timer set before the barrier and fired by a post-barrier watermark fires only after checkpoint 1: it is still
in checkpoint 1's timer set -/
def demoTimer : List Act :=
  [.align 0 (.ev [0x61] 1 5), .go 0, .align 0 (.bar 1), .go 0, .align 0 (.wm 9), .align 1 (.wm 9), .go 1,
   .align 1 (.bar 1), .go 1, .go 0]

example : (snapsOf (run 2 1 demoTimer).2).map (fun x => (x.1, x.2.1 [0x61], x.2.2)) = [(1, [1], [(5, [0x61])])] := by
  decide
example : (run 2 1 demoTimer).1.kv [0x61] = [1, 0xff, 5] := by decide

/-- a timer fired before the cut is not in the checkpoint -/
def demoTimerFired : List Act :=
  [.align 0 (.ev [0x61] 1 5), .go 0, .align 0 (.wm 9), .go 0, .align 0 (.bar 1), .go 0]

example : (snapsOf (run 1 1 demoTimerFired).2).map (fun x => (x.1, x.2.1 [0x61], x.2.2)) = [(1, [1, 0xff, 5], [])] := by
  decide

/-- D43: sender 0 is parked behind barrier 1 when the operator is redeployed: it is turned away, its event (payload 9)
never reaches the state, and the new epoch checkpoints normally -/
def demoRedeploy : List Act :=
  [.align 0 (.bar 1), .go 0, .align 0 (.ev [0x61] 9 0), .redeploy, .go 0,
   .align 0 (.ev [0x61] 2 0), .go 0, .align 0 (.bar 2), .go 0, .align 1 (.bar 2), .go 1]

example : abortedOf (run 2 1 demoRedeploy).2 = [[0]] := by decide
example : (snapsOf (run 2 1 demoRedeploy).2).map (fun x => (x.1, x.2.1 [0x61])) = [(2, [2])] := by decide

/-- failed ack: the record of checkpoint 1 stays, barrier 2 is rejected until the redeploy -/
def demoAckFail : List Act :=
  [.armFail, .align 0 (.bar 1), .go 0, .align 0 (.bar 2), .go 0, .redeploy, .align 0 (.bar 2), .go 0]

example : rejectsOf (run 1 1 demoAckFail).2 = [(0, 2, 1)] := by decide
example : (snapsOf (run 1 1 demoAckFail).2).map (·.1) = [1, 2] := by decide

/-- the seeded race: sender 0 is parked with a post-barrier event (payload 9); the consumer is held in the last
barrier's handler, sender 0 runs on, the consumer resumes: payload 9 is not in checkpoint 1 -/
def demoHold : List HAct :=
  [.base (.align 0 (.ev [0x61] 1 0)), .base (.go 0), .base (.align 0 (.bar 1)), .base (.go 0),
   .base (.align 0 (.ev [0x61] 9 0)), .base (.align 1 (.bar 1)), .hold 1, .base (.go 0), .resume, .base .tick]

example : ((hrunFrom { s := init 2 3 } [] (demoHold.take 8)).1.held, (hrunFrom { s := init 2 3 } [] (demoHold.take 8)).1.queue)
    = (some 1, [0]) := by decide
example : (snapsOf (hrunFrom { s := init 2 3 } [] demoHold).2).map (fun x => (x.1, x.2.1 [0x61])) = [(1, [1])] := by decide
example : (hrunFrom { s := init 2 3 } [] demoHold).1.s.kv [0x61] = [1, 9] := by decide

/-- a failed `db.Checkpoint`: no snapshot, the record stays, barrier 2 is rejected, a redeploy recovers -/
def demoDbFail : List Act :=
  [.armDbFail, .align 0 (.bar 1), .go 0, .align 0 (.bar 2), .go 0, .redeploy, .align 0 (.bar 2), .go 0]

example : rejectsOf (run 1 1 demoDbFail).2 = [(0, 2, 1)] := by decide
example : (snapsOf (run 1 1 demoDbFail).2).map (·.1) = [2] := by decide

/-- the state after the failed ack of `demoAckFail` satisfies the hypothesis of `failed_ack_stuck_until_redeploy` -/
example : (run 1 1 (demoAckFail.take 3)).1.ckpt = some (1, []) := by decide

/-- cancellations in the middle of `demo` change no snapshot -/
example : (snapsOf (run 2 3 (demo.take 5 ++ [.cancel 0, .cancel 1] ++ demo.drop 5)).2).map (fun x => (x.1, x.2.1 [0x61]))
    = [(1, [1, 2]), (2, [1, 2, 9])] := by decide

/-- an undeployed sender (a runner of a previous deployment that is still alive; sender 2 of a deployment with
runners 0 and 1): its event is handled like any other, it parks while a checkpoint is being aligned, and its stale
barrier 7 starts a checkpoint record that makes the deployed runners' barrier 1 mismatch (open finding D56, C15) —
no snapshot is wrong, the theorems above quantify over these schedules too -/
def demoZombie : List Act :=
  [.align 2 (.ev [0x61] 5 0), .go 2, .align 0 (.bar 1), .go 0, .align 2 (.ev [0x61] 6 0),
   .align 1 (.bar 1), .go 1, .go 2, .align 2 (.bar 7), .go 2, .align 0 (.bar 2), .go 0]

example : parkedOf (runFrom { init 2 1 with z := 1 } [] demoZombie).2 = [2] := by decide
example : (snapsOf (runFrom { init 2 1 with z := 1 } [] demoZombie).2).map (fun x => (x.1, x.2.1 [0x61])) = [(1, [5])] := by
  decide
example : rejectsOf (runFrom { init 2 1 with z := 1 } [] demoZombie).2 = [(0, 2, 7)] := by decide
example : Fresh { init 2 1 with z := 1 } := ⟨rfl, by intro sr it; simp [init], rfl, by decide⟩

end Rxn.C02
