import RxnModel.Proofs.Align
/-!
# C02 — barrier alignment gives every operator checkpoint a consistent cut

Property theorems only. Model: `Model/Align.lean` (`step`: the `RLock` section of `HandleEvent` = `align`,
the rendezvous on `o.events` plus the consumer's event function = `go`, the batcher's timeout = `tick`/`stale`).
All theorems quantify over every action list `as`: every `align sr it` carries its item, so this covers every
number of senders `k`, every per-sender sequence of keyed events / watermarks / barriers (including repeated,
skipped and mismatching barrier ids), every batch size `b` and every interleaving, with any number of
consecutive checkpoints in one run.

Explicit exclusions of the model (the harness never drives the real code there): `db.Checkpoint` and the job's
`OperatorCheckpointComplete` succeed (on an error the real `handleCheckpointBarrier` returns with the completed
checkpoint left in place: later barriers are rejected as id mismatches and a repeated barrier `N` panics with
"close of closed channel" — reproduced on the real code, reported, outside this property's statement); senders
are the deployed `SourceRunnerIds` and each sender issues its `HandleEventBatch` calls sequentially;
`SourceComplete` events are not part of the scripts.

Trace vocabulary (`Proofs/Align.lean`): `procsOf obs` = the items the single consumer took, in order, with
their sender; `entriesOf obs` = the entries (keyed events and expired timers) handed to the user handler, in
order; `userOf` / `userProcs` = the keyed events among them; `lastProc sr p` = the last item of sender `sr`.
-/
namespace Rxn.C02
open Rxn Rxn.Align

/-- **Consistent cut.** Whenever a checkpoint `id` is taken with keyed state `S`, then for the trace `pre` before it:
`S` is the fold of exactly the entries the handler received (nothing is still pending in the batcher); the keyed
events the handler received are exactly the keyed events the consumer took from the senders, in the same order;
and for every sender the last item taken from it is its barrier `id` — i.e. the snapshot contains the effects of
precisely what each sender delivered up to its own barrier `id`, and of nothing a sender delivered after it. -/
theorem consistent_cut (k b : Nat) (as : List Act) (pre post : List Obs) (id : Nat) (S : KVf) (T : Timers)
    (h : (run k b as).2 = pre ++ Obs.snap id S T :: post) :
    S = (entriesOf pre).foldl applyRec emptyKV ∧
    userOf (entriesOf pre) = userProcs (procsOf pre) ∧
    ∀ sr, sr < k → lastProc sr (procsOf pre) = some (Item.bar id) := by
  obtain ⟨_, _, hcut, _⟩ := run_ok k b as
  rw [h] at hcut
  simpa [Cut] using cutOK_split hcut

/-- **Post-barrier events are blocked.** After the barrier of sender `sr` has been accepted, the consumer takes no
further item of `sr` (keyed event, watermark — hence no timer firing caused by it — or barrier) until a snapshot
has been taken. -/
theorem post_barrier_blocked (k b : Nat) (as : List Act) (pre mid post : List Obs) (sr id : Nat) (it : Item)
    (h : (run k b as).2 = pre ++ Obs.reg sr id :: (mid ++ Obs.proc sr it :: post)) :
    ∃ id' S T, Obs.snap id' S T ∈ mid := by
  obtain ⟨_, _, _, hal⟩ := run_ok k b as
  rw [h, alignOK_append] at hal
  have h2 := hal.2
  simp only [alignOK] at h2
  exact alignOK_blocked mid _ post List.mem_cons_self h2

/-- the same as a state invariant: while checkpoint `id` is in progress, a sender whose barrier is no longer
missing has delivered that barrier as its last item and is not standing at the gate in front of the consumer -/
theorem delivered_sender_blocked (k b : Nat) (as : List Act) (id : Nat) (m : List Nat)
    (hc : (run k b as).1.ckpt = some (id, m)) (sr : Nat) (hsr : sr < k) (hm : sr ∉ m) :
    lastProc sr (procsOf (run k b as).2) = some (Item.bar id) ∧
    ∀ it, (run k b as).1.slots sr ≠ some (it, true) := by
  obtain ⟨hk, hinv, _, _⟩ := run_ok k b as
  exact hinv.ck id m hc sr (by rw [hk]; exact hsr) hm

/-- **Consecutive checkpoints.** Between two snapshots of one run every sender had a fresh barrier accepted: no
checkpoint reuses barriers of an earlier one, for any number of checkpoints in a run. -/
theorem consecutive_checkpoints (k b : Nat) (as : List Act) (pre mid post : List Obs) (id1 id2 : Nat)
    (S1 S2 : KVf) (T1 T2 : Timers)
    (h : (run k b as).2 = pre ++ Obs.snap id1 S1 T1 :: (mid ++ Obs.snap id2 S2 T2 :: post)) :
    ∀ sr, sr < k → ∃ i, Obs.reg sr i ∈ mid := by
  obtain ⟨_, _, _, hal⟩ := run_ok k b as
  rw [h, alignOK_append] at hal
  have h2 := hal.2
  simp only [alignOK] at h2
  intro sr hsr
  rcases alignOK_fresh mid [] post h2.2 sr hsr with hg | hreg
  · cases hg
  · exact hreg

/-- **Id mismatch is rejected.** A barrier whose id differs from the checkpoint in progress changes nothing but
the sender's own call returning (with the mismatch error): the checkpoint, the missing set, the store, the
pending batch and the parked senders are untouched and no snapshot is taken. -/
theorem id_mismatch_rejected (s : St) (sr id cid : Nat) (m : List Nat) (hsr : sr < s.k)
    (hslot : s.slots sr = some (Item.bar id, true)) (hc : s.ckpt = some (cid, m)) (hne : id ≠ cid) :
    step s (Act.go sr) =
      ({ s with slots := fun i => if i = sr then none else s.slots i },
       [Obs.proc sr (Item.bar id), Obs.reject sr id cid]) := by
  have hv : virtCk s id = (cid, m) := by simp [virtCk, hc]
  rw [step_go_run hsr hslot]
  simp only [process]
  rw [barrier_reject (by rw [hv]; exact hne), hv]
  simp only [← hc]

/-- **No stranded sender.** A sender is parked only while a checkpoint is in progress that already holds its
barrier; in particular once the checkpoint is reset nobody is left waiting on `allBarriersReceived`. -/
theorem no_stranded_sender (k b : Nat) (as : List Act) (sr : Nat) (it : Item)
    (h : (run k b as).1.slots sr = some (it, false)) :
    ∃ id m, (run k b as).1.ckpt = some (id, m) ∧ sr ∉ m := by
  obtain ⟨_, hinv, _, _⟩ := run_ok k b as
  exact hinv.parked sr it h

/-! ## non-vacuity -/

def snapsOf : List Obs → List (Nat × KVf × Timers)
  | [] => []
  | Obs.snap id S T :: r => (id, S, T) :: snapsOf r
  | _ :: r => snapsOf r

def parkedOf : List Obs → List Nat
  | [] => []
  | Obs.aligned sr false :: r => sr :: parkedOf r
  | _ :: r => parkedOf r

def rejectsOf : List Obs → List (Nat × Nat × Nat)
  | [] => []
  | Obs.reject sr a c :: r => (sr, a, c) :: rejectsOf r
  | _ :: r => rejectsOf r

/-- two senders, batch size 3: sender 0 runs ahead, delivers barrier 1 and parks with a post-barrier event; the
pending batch is flushed into the snapshot; the post-barrier event (payload 9) is not in checkpoint 1 but is in
checkpoint 2 -/
def demo : List Act :=
  [.align 0 (.ev [0x61] 1 0), .go 0, .align 0 (.bar 1), .go 0, .align 0 (.ev [0x61] 9 0),
   .align 1 (.ev [0x61] 2 0), .go 1, .go 0, .align 1 (.bar 1), .go 1, .go 0,
   .align 0 (.bar 2), .go 0, .align 1 (.bar 2), .go 1]

example : parkedOf (run 2 3 demo).2 = [0] := by decide
example : (snapsOf (run 2 3 demo).2).map (fun x => (x.1, x.2.1 [0x61])) = [(1, [1, 2]), (2, [1, 2, 9])] := by decide

/-- a mismatching barrier id is rejected and the checkpoint in progress completes afterwards -/
def demoMismatch : List Act :=
  [.align 0 (.bar 1), .go 0, .align 1 (.bar 7), .go 1, .align 1 (.bar 1), .go 1]

example : rejectsOf (run 2 1 demoMismatch).2 = [(1, 7, 1)] := by decide
example : (snapsOf (run 2 1 demoMismatch).2).map (·.1) = [1] := by decide

/-- a timer set before the barrier and fired by a post-barrier watermark fires only after checkpoint 1 -/
def demoTimer : List Act :=
  [.align 0 (.ev [0x61] 1 5), .go 0, .align 0 (.bar 1), .go 0, .align 0 (.wm 9), .align 1 (.wm 9), .go 1,
   .align 1 (.bar 1), .go 1, .go 0]

example : (snapsOf (run 2 1 demoTimer).2).map (fun x => (x.1, x.2.1 [0x61], x.2.2)) = [(1, [1], [(5, [0x61])])] := by
  decide
example : (run 2 1 demoTimer).1.kv [0x61] = [1, 0xff, 5] := by decide

end Rxn.C02
