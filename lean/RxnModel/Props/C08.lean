import RxnModel.Proofs.CkptStep
import RxnModel.Proofs.CkptSpec
import RxnModel.Proofs.CkptUser
import RxnModel.Proofs.CkptFiles
import RxnModel.Generated.Facts
/-!
# C08 — a DKV checkpoint restores to exactly the state at the `Checkpoint` call

Property theorems only. Model: `Model/Ckpt.lean` (the C07 transition system `Model/Lsm.lean` + the WAL writer of
`Model/Wal.lean` + checkpoint list + files + crash / open). The model describes the code after the repairs
D27 (WAL `Rotate` keeps segment markers), D6 (`endSeqNum` = largest sequence number of a table) and D28 (a restored
instance numbers its table files above the tables of the checkpoint it was opened from).

Crash granularity: every action is one lock section without storage operations or ONE storage operation — the
document write (`saveDoc` / `saveList`), the deletion of one WAL file (`destroy`), `RetainOnly` (`retain`), a table
file written but not committed (`orphan`) are separate actions, so `crash` ranges over the points between the storage
operations of `CheckpointList.Save`, `UpdateRetainedCheckpoints` and the flush / compaction tasks.

`run {} as = some s` ranges over **every** history: writes with any placement of memtable rotations, flush begin /
commit and compaction commits at any point, `Checkpoint` calls whose two asynchronous halves (`saveWal`, `saveDoc`)
run at any later point, retention updates, a crash at any point, and `open` from any checkpoint whose handle was
returned — so histories contain arbitrarily long chains checkpoint → restore → write → checkpoint → restore.

What a read returns is compared through `Lsm.get`, the point lookup of the model (memtables newest first, level 0
newest first, deeper levels); `answer` forgets sequence numbers: a restored instance may renumber replayed writes.
That `Lsm.get` itself returns the latest write of the whole history is the subject of C07.
-/
namespace Rxn.C08
open Rxn Rxn.Ckpt
open Rxn.Lsm (answer levelsGet)

/-- The statements of the source that the model's actions transcribe are where the model assumes them
(regenerated from `dkv/db.go`, `dkv/recovery/checkpoint_list.go`, `dkv/sst/table_writer.go`, `dkv/wal/writer.go` on
every run): WAL rotation and capture of the level list in one critical section; WAL saved before the document;
`After = LatestSeqNum`; a restored instance takes its sequence number from the loaded level list, continues table
numbering above the loaded tables (D28) and WAL numbering above the loaded WAL; the flush commit truncates the WAL
at `LatestSeqNum` inside the critical section of the level swap; `endSeqNum` is a maximum (D6); `Rotate` keeps
the segment markers (D27); `CheckpointList.Save` collects the document, writes the file and destroys the pending
WALs in one critical section of the list mutex, so overlapping saves (the asynchronous halves of consecutive
checkpoints, a retention update from the job) serialise and the model's `saveDoc` / `retain` are atomic steps;
`RetainOnly` keeps the listed ids and everything newer than them; `Add`, `RetainOnly` and `IncludesTable` touch the list
only under the same mutex. -/
theorem code_shape :
    Facts.c08CaptureUnderLock = 1 ∧ Facts.c08SaveWalThenDoc = 1 ∧ Facts.c08AfterIsLatest = 1 ∧
    Facts.c08StartSeqFromLevels = 1 ∧ Facts.c08StartSkipsTableIDs = 1 ∧ Facts.c08StartNextWALID = 1 ∧
    Facts.c08FlushTruncates = 1 ∧ Facts.c08EndSeqIsMax = 1 ∧ Facts.c08RotateKeepsMarks = 1 ∧
    Facts.c08SaveUnderListLock = 1 ∧ Facts.c08RetainKeepsNewer = 1 ∧
    Facts.c08AddUnderListLock = 1 ∧ Facts.c08RetainUnderListLock = 1 ∧ Facts.c08IncludesUnderListLock = 1 := by
  decide

/-- the memory/WAL invariant `Inv` (see `Proofs/CkptInv.lean`) is preserved by every action, `open` included -/
theorem inv_step (s s' : State) (a : Act) (hi : Inv s) (h : step s a = some s') : Inv s' := Ckpt.inv_step s s' a hi h

theorem init_inv : Inv ({} : State) := Ckpt.init_inv

theorem inv_run (as : List Act) (s s' : State) (hi : Inv s) (h : run s as = some s') : Inv s' :=
  Ckpt.inv_run as s s' hi h

/-- **WAL covers everything unflushed.** After every history: every sequence number above `LatestSeqNum` (what the
level list is known to hold) that has been handed out is in the WAL (what a `Save` would write), the log has no
gaps, and a point read is answered by the last logged write newer than `LatestSeqNum`, else by the tables. -/
theorem wal_covers_unflushed (as : List Act) (s : State) (h : run {} as = some s) :
    (∀ n, s.latest < n → n ≤ s.db.seq → ∃ r ∈ s.wal.entries, r.seq = n) ∧
    (∃ f, Wal.Consecutive f s.wal.entries ∧ f ≤ s.latest + 1) ∧
    (∀ k, Lsm.get s.db k =
      match lastW none (s.wal.entries.filter (fun r => decide (s.latest < r.seq))) k with
      | some e => some e
      | none => levelsGet s.db.levels k) := by
  have hi := inv_run as {} s init_inv h
  obtain ⟨f, hc, hf1, hf2⟩ := hi.cons
  refine ⟨?_, ⟨f, hc, hf1⟩, ?_⟩
  · intro n h1 h2
    have hlt : n - f < s.wal.entries.length := by omega
    refine ⟨s.wal.entries[n - f], List.getElem_mem hlt, ?_⟩
    have hck := Wal.consecutive_drop f _ hc (n - f)
    rw [List.drop_eq_getElem_cons hlt] at hck
    have := hck.1
    omega
  · intro k
    obtain ⟨ps, hm, _, hfl⟩ := hi.parts
    rw [get_parts s.db ps hm k, hfl]
    generalize lastW none _ k = x
    cases x <;> rfl

/-- the reader on the saved WAL of a checkpoint: exactly the records above `after` -/
theorem walRead_spec (f : Nat) (es : List Wal.Rec) (after : Nat) (hc : Wal.Consecutive f es)
    (h1 : f ≤ after + 1) (h2 : after + 1 ≤ f + es.length) :
    walRead es after = some (es.filter (fun r => decide (after < r.seq))) := by
  cases es with
  | nil => rfl
  | cons r rs =>
    have hr : r.seq = f := hc.1
    have hn : ¬ (after + 1 < r.seq) := by omega
    have hl : after + 1 - r.seq ≤ (r :: rs).length := by omega
    simp only [walRead, hn, if_false, hl, if_true]
    rw [hr, Wal.drop_eq_filter f (r :: rs) hc after]

/-- restoring the record captured by `Checkpoint(id)` in a state satisfying the invariant -/
theorem restore_capture (s₁ : State) (hi : Inv s₁) (files : Files) (id : Nat) (rots : List Nat) :
    ∃ r, restore files (capture s₁ id) rots = some r ∧ Inv r ∧
      ∀ k, answer (Lsm.get r.db k) = answer (Lsm.get s₁.db k) := by
  obtain ⟨f, hc, hf1, hf2⟩ := hi.cons
  have hread := walRead_spec f s₁.wal.entries s₁.latest hc hf1 (by have := hi.le; omega)
  obtain ⟨ps, hm, _, hfl⟩ := hi.parts
  obtain ⟨r, hr⟩ := replay_enabled (s₁.wal.entries.filter (fun x => decide (s₁.latest < x.seq))) rots
    (restoreBase files (capture s₁ id)) (restoreBase_inv _ _)
  obtain ⟨hir, hlev, hlat, news, hnews, htrip, hgt⟩ := replay_inv _ _ _ _ (restoreBase_inv _ _) hr
  refine ⟨r, by simp only [restore, capture] at hr ⊢; rw [hread]; exact hr, hir, ?_⟩
  intro k
  obtain ⟨ps', hm', _, hfl'⟩ := hir.parts
  rw [get_parts r.db ps' hm' k, get_parts s₁.db ps hm k, hfl', hfl, hlev, hlat]
  have hent : r.wal.entries = news := by rw [hnews]; simp [restoreBase, Wal.Writer.new, Wal.Writer.entries]
  have hall : r.wal.entries.filter (fun x => decide ((restoreBase files (capture s₁ id)).latest < x.seq)) = news := by
    rw [hent, List.filter_eq_self]
    intro e he
    exact decide_eq_true (by simpa [restoreBase] using hgt e he)
  rw [hall]
  obtain ⟨ha, hs⟩ := answer_lastW none none news _ k rfl rfl htrip
  generalize lastW none news k = x at ha hs
  generalize lastW none (s₁.wal.entries.filter (fun x => decide (s₁.latest < x.seq))) k = y at ha hs
  cases x <;> cases y <;> simp_all [restoreBase, capture]

/-- **Checkpoint restore.** For every history `as₁`, a `Checkpoint(id)` call, and every continuation `as₂` of the
original instance or of instances restored from it (writes, flushes, compactions, further checkpoints, retention
updates, crash, reopen …): if the checkpoint record is still retained and its handle was returned (`saveWal` and
`saveDoc` ran), then `dkv.Open` from the files succeeds, for every way the replay fills memtables (`rots`), and the
restored instance answers every point read exactly as the original did at the `Checkpoint` call: no write of
`as₁` is missing — including those only in memtables or in a flush in flight — and no write of `as₂` is visible.
The restored instance satisfies the invariants again, so the statement applies to it in turn (chains).

PARTIAL (defect D50, open): "still retained" (`hret`) means *listed by the running instance*. The full statement —
"every checkpoint whose handle the user holds and has not given up by a retention update restores" — is false for the
code as it is: an instance reopened from checkpoint N lists only N (`LoadCheckpointList` takes one entry of the
document), and its next save rewrites the `checkpoints` document without the older checkpoints the user still
retains (`d50_counterexample`). Excluded exactly: the handles the running instance does not list (`SpecSt.unlisted`: every other
handle the user held when the database was reopened from one of them); see `user_retained_restores_partial` for the
statement in terms of the user's handles and for which of them really fail (D50) or restore wrong contents (D67). -/
theorem checkpoint_restore_partial (as₁ as₂ : List Act) (id : Nat) (rots : List Nat) (s₁ s₂ s : State)
    (h1 : run {} as₁ = some s₁) (hc : step s₁ (.checkpoint id) = some s₂) (h2 : run s₂ as₂ = some s)
    (hret : capture s₁ id ∈ s.ckpts) (hdone : id ∈ s.done) :
    ∃ r, step s (.open id rots) = some r ∧ Inv r ∧ FInv r ∧
      ∀ k, answer (Lsm.get r.db k) = answer (Lsm.get s₁.db k) := by
  have hf : FInv s := finv_run s₂ s as₂ (finv_step s₁ s₂ _ (finv_run {} s₁ as₁ finv_init h1) hc) h2
  have hload : loadCkpt s.files id = some (capture s₁ id) := load_of_done s hf (capture s₁ id) hret hdone
  obtain ⟨r, hr, hir, hget⟩ := restore_capture s₁ (inv_run as₁ {} s₁ init_inv h1) s.files id rots
  have hstep : step s (.open id rots) = some r := by simp only [step, hload]; exact hr
  exact ⟨r, hstep, hir, finv_open s r id rots hstep, hget⟩

/-- PARTIAL as `checkpoint_restore_partial` (`hret`: listed by the running instance). **Restore is stable**, spelled out for a crash: whatever happened after the checkpoint, and after the process
is gone, the files still restore the state of the `Checkpoint` call. -/
theorem restore_stable_partial (as₁ as₂ : List Act) (id : Nat) (rots : List Nat) (s₁ s₂ s sc : State)
    (h1 : run {} as₁ = some s₁) (hc : step s₁ (.checkpoint id) = some s₂) (h2 : run s₂ as₂ = some s)
    (hcr : step s .crash = some sc) (hret : capture s₁ id ∈ s.ckpts) (hdone : id ∈ s.done) :
    ∃ r, step sc (.open id rots) = some r ∧ ∀ k, answer (Lsm.get r.db k) = answer (Lsm.get s₁.db k) := by
  have h2' : run s₂ (as₂ ++ [.crash]) = some sc := by
    clear hret hdone h1 hc
    induction as₂ generalizing s₂ with
    | nil => simp only [run, Option.some.injEq] at h2; subst h2; simp [run, hcr]
    | cons a as ih =>
      simp only [run, List.cons_append] at h2 ⊢
      split at h2
      · rename_i s' hs'; exact ih s' h2
      · cases h2
  have hsc : sc = { s with alive := false } := by
    simp only [step] at hcr
    split at hcr
    · cases hcr
    · simp only [Option.some.injEq] at hcr; exact hcr.symm
  obtain ⟨r, hr, _, _, hg⟩ := checkpoint_restore_partial as₁ (as₂ ++ [.crash]) id rots s₁ s₂ sc h1 hc h2'
    (by rw [hsc]; exact hret) (by rw [hsc]; exact hdone)
  exact ⟨r, hr, hg⟩

/-- **Files of retained checkpoints stay intact.** After every history, the document entry, every table file and
the WAL file of a retained checkpoint whose handle was returned load back as exactly the record in memory: no
later flush, compaction, checkpoint, retention update or restored instance overwrote or deleted any of them
(table files and WAL files are never reused — D28).

PARTIAL (defect D50, open): `c ∈ s.ckpts` is the list of the running instance; the checkpoints a reopened instance did
not load are not covered (their document entry is dropped by its next save, `d50_counterexample`). -/
theorem retained_files_intact_partial (as : List Act) (s : State) (h : run {} as = some s) (c : Ckpt)
    (hc : c ∈ s.ckpts) (hd : c.id ∈ s.done) :
    loadCkpt s.files c.id = some c ∧
    (∀ t ∈ c.levels.flatten, t.id < s.db.nextId ∧ assoc s.files.tables t.id = some t.run) ∧
    assoc s.files.wals c.walId = some c.recs ∧ c.walId < s.wal.id := by
  have hf := finv_run {} s as finv_init h
  exact ⟨load_of_done s hf c hc hd, hf.ck c hc, (hf.dn c hc hd).1, hf.wltc c hc⟩

/-- **The WAL file a checkpoint saves is the log as it was at the `Checkpoint` call** — whatever happens between the
call and the asynchronous save (`as₂`: flush commits that truncate the live log, memtable rotations, further writes,
further checkpoints, other saves): a sealed writer's segments are immutable, the live writer never writes into
them. The saved bytes are `Wal.encRecs` of these records, i.e. `Wal.Writer.save` of the writer sealed by the call. -/
theorem saved_wal_is_log_at_checkpoint (as₁ as₂ : List Act) (id : Nat) (s₁ s₂ s s' : State)
    (h1 : run {} as₁ = some s₁) (hc : step s₁ (.checkpoint id) = some s₂) (h2 : run s₂ as₂ = some s)
    (hret : capture s₁ id ∈ s.ckpts) (hsave : step s (.saveWal id) = some s') :
    assoc s'.files.wals s₁.wal.id = some s₁.wal.entries ∧
    Wal.encRecs s₁.wal.entries = s₁.wal.save := by
  have hf : FInv s := finv_run s₂ s as₂ (finv_step s₁ s₂ _ (finv_run {} s₁ as₁ finv_init h1) hc) h2
  refine ⟨?_, rfl⟩
  simp only [step] at hsave
  split at hsave
  · cases hsave
  · split at hsave
    · cases hsave
    · rename_i t ht
      simp only [Option.some.injEq] at hsave
      subst hsave
      have htm : t ∈ s.tasks := List.mem_of_find?_eq_some ht
      have hp := List.find?_some ht
      simp only [Bool.and_eq_true, beq_iff_eq] at hp
      have hw : (capture s₁ id).walId = t.walId := hf.t3 t htm _ hret (by rw [hp.1]; rfl)
      have hr : (capture s₁ id).recs = t.recs := hf.t1 t htm _ hret hw
      have hw' : t.walId = s₁.wal.id := hw.symm
      have hr' : t.recs = s₁.wal.entries := hr.symm
      show assoc ((t.walId, t.recs) :: s.files.wals) s₁.wal.id = some s₁.wal.entries
      rw [hw', hr']
      exact assoc_cons_eq _ _ _

/-- **A restored instance accepts writes normally**: in every reachable state — in particular right after `open`
and anywhere along a chain of restores — a `Put`/`Delete` is possible, is visible to the next read of its key and
changes no other key. -/
theorem restore_accepts_writes (as : List Act) (s : State) (h : run {} as = some s)
    (del : Bool) (k v : Bytes) (rot : Bool) :
    ∃ s', step { s with alive := true, replaying := [] } (.write del k v rot) = some s' ∧
      ∀ k', answer (Lsm.get s'.db k') =
        if k = k' then (if del then none else some v) else answer (Lsm.get s.db k') := by
  have hi := inv_run as {} s init_inv h
  have hi' : Inv { s with alive := true, replaying := [] } := hi.congr rfl rfl rfl
  obtain ⟨s', hs'⟩ := write_enabled hi' del k v rot
  refine ⟨s', by simpa [step, blocked] using hs', ?_⟩
  intro k'
  obtain ⟨hinv', hent, _, hlev, hlat⟩ := write_inv hi' hs'
  obtain ⟨ps, hm, _, hfl⟩ := hi.parts
  obtain ⟨ps', hm', _, hfl'⟩ := hinv'.parts
  rw [get_parts s'.db ps' hm' k', get_parts s.db ps hm k', hfl', hfl, hent, hlat, hlev]
  have hgt : s.latest < s.db.seq + 1 := by have := hi.le; omega
  rw [List.filter_append]
  simp only [List.filter_cons, List.filter_nil, wrec, hgt, decide_true, if_true]
  rw [lastW_append]
  simp only [lastW, List.foldl_cons, List.foldl_nil]
  by_cases hk : k = k'
  · simp only [hk, if_true, answer, recEntry]
    cases del <;> simp
  · simp only [hk, if_false]

/-! ## the same at the level of the specification map (composition with C07)

`runSpec` runs a history together with the map a user expects (`SpecSt.m`): every write is applied to it, a
`Checkpoint(id)` call records it for `id`, and `open id` resets it to the map recorded for `id` — "the contents at the
instant `Checkpoint` was called". Instances are only opened from completed handles of retained checkpoints
(`guardOk`). The C07 refinement invariant (`Lsm.Inv`, with the compaction soundness proof of C18) is carried through
every action and re-established for a restored instance. -/

/-- PARTIAL (D50/D67): `runSpec` only contains restores from checkpoints the running instance lists and whose handle was
returned (`guardOk` = `retainedDone`); a restore from any other handle the user holds (`SpecSt.unlisted`) is not a
history of `runSpec`, although the code accepts it.

**Every point read follows the specification along every such history, restores and chains of restores included**:
right after `open id` the database contains exactly the writes made before the `Checkpoint(id)` call (none missing,
no later one visible), afterwards those plus the writes of the restored instance, whatever flushes, compactions,
checkpoints, retention updates and crashes happen in between. -/
theorem restore_is_spec_partial (as : List Act) (s : State) (sp : SpecSt) (h : runSpec {} {} as = some (s, sp))
    (hrep : s.replaying = []) (k : Bytes) :
    answer (Lsm.get s.db k) = answer (Lsm.Spec.get sp.m k) := by
  obtain ⟨mL, hL, _, hA⟩ := (sinv_run as {} s {} sp sinv_init h).lsm
  rw [hrep] at hA
  rw [get_eq_spec hL k]; exact hA k

/-- PARTIAL as `restore_is_spec_partial` (histories of `runSpec`). **Every prefix scan follows the specification** in the same sense: ascending keys, each live key of the expected
map with the prefix exactly once with its expected value, nothing else. -/
theorem restore_scan_is_spec_partial (as : List Act) (s : State) (sp : SpecSt) (h : runSpec {} {} as = some (s, sp))
    (hrep : s.replaying = []) (p : Bytes) :
    ((Lsm.scan s.db p).map (fun e => (e.key, e.val))).Pairwise (fun a b => Bytes.lt a.1 b.1 = true) ∧
    ∀ k v, (k, v) ∈ (Lsm.scan s.db p).map (fun e => (e.key, e.val)) ↔
      (answer (Lsm.Spec.get sp.m k) = some v ∧ Bytes.hasPrefix k p = true) := by
  obtain ⟨mL, hL, _, hA'⟩ := (sinv_run as {} s {} sp sinv_init h).lsm
  rw [hrep] at hA'
  have hA : ∀ k, answer (Lsm.Spec.get mL k) = answer (Lsm.Spec.get sp.m k) := hA'
  obtain ⟨hsorted, hmem⟩ := Lsm.scan_spec hL p
  refine ⟨List.pairwise_map.mpr hsorted, ?_⟩
  intro k v
  simp only [List.mem_map, Prod.mk.injEq]
  constructor
  · rintro ⟨e, he, rfl, rfl⟩
    obtain ⟨h1, h2, h3⟩ := (hmem e).mp he
    refine ⟨?_, h3⟩
    rw [← hA e.key, h1]
    simp [answer, h2]
  · rintro ⟨h1, h2⟩
    rw [← hA k] at h1
    cases hg : Lsm.Spec.get mL k with
    | none => rw [hg] at h1; simp [answer] at h1
    | some e =>
      rw [hg] at h1
      have hk : e.key = k := (Lsm.Run.lookup_some_mem hg).2
      have hd : e.del = false := by
        cases hd : e.del
        · rfl
        · simp [answer, hd] at h1
      have hv : e.val = v := by simpa [answer, hd] using h1
      exact ⟨e, (hmem e).mpr ⟨by rw [hk]; exact hg, hd, by rw [hk]; exact h2⟩, hk, hv⟩

/-- PARTIAL as `restore_is_spec_partial` (histories of `runSpec`). **The replay loop of `DB.Start` is not atomic**: `openBegin id` followed by one `replayOne` per WAL record, with
flush begins / commits, compaction commits and written-but-uncommitted table files (`orphan`) at any point in between
(the tasks the replay itself starts), reaches — once nothing is left to replay — a state whose every point read equals
the map recorded at `Checkpoint(id)`: this is `restore_is_spec_partial` for histories containing these actions, spelled out. A
crash in the middle of the replay leaves the files of the checkpoint intact (`checkpoint_restore_partial` quantifies
over such histories), so the restore can simply be repeated. -/
theorem interleaved_replay_is_spec_partial (as bg : List Act) (id : Nat) (s₀ s : State) (sp₀ sp : SpecSt)
    (h0 : runSpec {} {} as = some (s₀, sp₀))
    (h : runSpec s₀ sp₀ (.openBegin id :: bg) = some (s, sp)) (hrep : s.replaying = [])
    (k : Bytes) :
    answer (Lsm.get s.db k) = answer (Lsm.Spec.get sp.m k) := by
  have hall : runSpec {} {} (as ++ (.openBegin id :: bg)) = some (s, sp) := by rw [runSpec_append, h0]; exact h
  exact restore_is_spec_partial _ s sp hall hrep k

/-- the replay can always make its next step: nothing that happens in between disables it -/
theorem replay_never_stuck (as : List Act) (s : State) (h : run {} as = some s) (halive : s.alive = true)
    (r : Wal.Rec) (rs : List Wal.Rec) (hr : s.replaying = r :: rs) (rot : Bool) :
    ∃ s', step s (.replayOne rot) = some s' ∧ s'.replaying = rs := by
  obtain ⟨s1, h1⟩ := write_enabled (inv_run as {} s init_inv h) r.del r.key r.val rot
  exact ⟨{ s1 with replaying := rs }, by simp [step, halive, blocked, hr, h1], rfl⟩

/-- PARTIAL as `restore_is_spec_partial` (histories of `runSpec`). The statement of the property in one line: history `as₁`, `Checkpoint(id)`, anything afterwards (`as₂`, without
reusing the id), restore from `id`: the expected map of the restored instance is the expected map at the call. -/
theorem checkpoint_restore_spec_partial (as₁ as₂ : List Act) (id : Nat) (rots : List Nat) (s₁ r : State) (sp₁ spr : SpecSt)
    (h1 : runSpec {} {} as₁ = some (s₁, sp₁))
    (h : runSpec {} {} (as₁ ++ (.checkpoint id :: as₂ ++ [.open id rots])) = some (r, spr))
    (hno : ∀ a ∈ as₂, a = Act.checkpoint id → False) :
    spr.m = sp₁.m ∧ ∀ k, answer (Lsm.get r.db k) = answer (Lsm.Spec.get sp₁.m k) := by
  have hm : spr.m = sp₁.m ∧ r.replaying = [] := by
    rw [runSpec_append, h1] at h
    simp only [List.cons_append, runSpec] at h
    split at h
    · cases hst : step s₁ (.checkpoint id) with
      | none => rw [hst] at h; cases h
      | some s₂ =>
        rw [hst] at h
        simp only [] at h
        rw [runSpec_append] at h
        cases h2 : runSpec s₂ (stepSpec s₁ sp₁ (.checkpoint id)) as₂ with
        | none => rw [h2] at h; cases h
        | some p =>
          obtain ⟨s₃, sp₃⟩ := p
          rw [h2] at h
          simp only [runSpec] at h
          split at h
          · cases hst3 : step s₃ (.open id rots) with
            | none => rw [hst3] at h; cases h
            | some r' =>
              rw [hst3] at h
              simp only [Option.some.injEq, Prod.mk.injEq] at h
              refine ⟨?_, ?_⟩
              · rw [← h.2]
                simp only [stepSpec]
                rw [saved_keep id as₂ s₂ s₃ _ sp₃ hno h2]
                exact specAt_cons_eq _ _ _
              · rw [← h.1]; exact open_replaying_nil hst3
          · cases h
    · cases h
  exact ⟨hm.1, fun k => by rw [← hm.1]; exact restore_is_spec_partial _ r spr h hm.2 k⟩

/-! ## the user's handles (defect D50)

`SpecSt.handles` are the handles the user of the database holds: added when `Checkpoint` returns one, removed only by a
retention update that does not keep the id, by a new `Checkpoint` call with the same id, and by a restore from an older
checkpoint (which abandons the later ones); they survive restarts. `SpecSt.lost` are those among them that were older
than a checkpoint the database has been reopened from. -/

/-- **Every handle the user holds that the running instance lists restores the map at its `Checkpoint` call.**
FULL STATEMENT (false for the code as it is): the same for every `id ∈ sp.handles`, without `hl`. EXCLUDED EXACTLY: the
handles in `sp.unlisted` — every other handle the user held when the database was last reopened from one of them
(`LoadCheckpointList` loads one entry of the document). Among those the code really fails for
* `sp.lost` (D50, `d50_counterexample`): once the reopened instance has written the `checkpoints` document, their entries
  are gone and `Open` panics;
* `sp.over` (D67, `d67_counterexample`): handles NEWER than the opened checkpoint — the reopened instance numbers its table
  and WAL files above the opened checkpoint's only and overwrites theirs: `Open` succeeds with wrong contents.
Unlisted handles outside these two situations (before the reopened instance's first document write; older handles whose
files are untouched; reopens into a fresh directory) do restore in the code and are compared by the harness (`peek`), but
are not covered by a theorem. -/
theorem user_retained_restores_partial (as : List Act) (s : State) (sp : SpecSt)
    (h : runSpec {} {} as = some (s, sp)) (id : Nat) (rots : List Nat) (hid : id ∈ sp.handles)
    (hl : id ∉ sp.unlisted) :
    ∃ r, step s (.open id rots) = some r ∧
      ∀ k, answer (Lsm.get r.db k) = answer (Lsm.Spec.get (specAt sp.saved id) k) := by
  have hu := uinv_run as {} s {} sp (by intro i hi; cases hi) h
  exact open_of_retained s sp (sinv_run as {} s {} sp sinv_init h) id rots (hu id hid hl)

/-- the D50 history: checkpoints 1 and 2 completed, both retained, restart from 2, checkpoint 3 completed -/
def histD50 : List Act :=
  [.write false [97] [1] false, .checkpoint 1, .saveWal 1, .saveDoc 1,
   .write false [98] [2] false, .checkpoint 2, .saveWal 2, .saveDoc 2, .retain [1, 2], .saveList,
   .crash, .open 2 [], .write false [99] [3] false, .checkpoint 3, .saveWal 3, .saveDoc 3]

/-- **D50 (open).** After that history the user still holds handle 1 (no retention update gave it up), but the
`checkpoints` document no longer has its entry: `open 1` is impossible, while 2 and 3 restore. Right after the
restart, before the reopened instance saved anything, handle 1 still restored. -/
theorem d50_counterexample :
    (do let (s, sp) ← runSpec {} {} histD50
        pure (sp.handles, sp.unlisted, sp.lost, (step s (.open 1 [])).isSome, (step s (.open 2 [])).isSome,
              (step s (.open 3 [])).isSome)) = some ([3, 2, 1], [1], [1], false, true, true) ∧
    (do let (s, sp) ← runSpec {} {} (histD50.take 12)
        let r ← step s (.open 1 [])
        pure (sp.handles, sp.unlisted, sp.lost, answer (Lsm.get r.db [97]), answer (Lsm.get r.db [98])))
      = some ([2, 1], [1], [], some [1], none) := by
  constructor <;> rfl

/-- the D67 history: checkpoint 1 with nothing flushed, a flush, checkpoint 2 (references table 0), both retained;
restart from the OLDER checkpoint 1 in the same directory, a write and a flush -/
def histD67 : List Act :=
  [.write false [97] [1] false, .checkpoint 1, .saveWal 1, .saveDoc 1,
   .write false [98] [2] true, .flushBegin 1, .flushCommit, .checkpoint 2, .saveWal 2, .saveDoc 2,
   .retain [1, 2], .saveList, .crash, .open 1 [],
   .write false [99] [3] true, .flushBegin 1, .flushCommit]

/-- **D67 (open).** After that history the user still holds handle 2 (`over`: newer than the checkpoint the database
was reopened from). The reopened instance numbered its first table 0 — above the tables of checkpoint 1, of which
there are none — and overwrote the table of checkpoint 2: `open 2` succeeds and returns the write made after the
restart (`c`) instead of the one made before checkpoint 2 (`b`), while the expected map has `b` and not `c`. -/
theorem d67_counterexample :
    (do let (s, sp) ← runSpec {} {} histD67
        let r ← step s (.open 2 [])
        pure (sp.handles, sp.over, sp.lost, answer (Lsm.get r.db [98]), answer (Lsm.get r.db [99]),
              answer (Lsm.Spec.get (specAt sp.saved 2) [98]), answer (Lsm.Spec.get (specAt sp.saved 2) [99])))
      = some ([2, 1], [2], [], none, some [3], some [2], none) := by
  rfl

/-! ## regression witness of D28 and non-vacuity -/

/-- put k=1 (memtable rotates), flush, checkpoint 1 completed -/
def hist₁ : List Act :=
  [.write false [107] [1] true, .flushBegin 1, .flushCommit, .checkpoint 1, .saveWal 1, .saveDoc 1]

/-- on the restored instance: put z=2 (memtable rotates), flush -/
def hist₂ : List Act := [.write false [122] [2] true, .flushBegin 1, .flushCommit]

/-- With the table numbering of the unrepaired code (`restoreD28`: a restored instance starts at `000000.sst`)
the first flush of the restored instance overwrites the table of the retained checkpoint: restoring the same
checkpoint again loses `k`. With the repaired numbering the second restore still returns it. -/
theorem d28_counterexample :
    (do let s ← run {} hist₁
        let c ← loadCkpt s.files 1
        let r ← restoreD28 s.files c []
        let r' ← run r hist₂
        let c' ← loadCkpt r'.files 1
        pure (answer (Lsm.get (restoreBase r'.files c').db [107]))) = some none ∧
    (do let s ← run {} hist₁
        let r' ← run s (.crash :: .open 1 [] :: hist₂)
        let c' ← loadCkpt r'.files 1
        pure (answer (Lsm.get (restoreBase r'.files c').db [107]))) = some (some [1]) := by
  decide

/-- non-vacuity of `checkpoint_restore`: a checkpoint taken while a flush is in flight and with a newer write only
in the active memtable, later writes, the flush committing after the capture, then crash and restore -/
example :
    (do let s₁ ← run {} [.write false [107] [1] true, .flushBegin 1, .write false [108] [2] false]
        let s₂ ← step s₁ (.checkpoint 1)
        let s ← run s₂ [.write false [107] [9] false, .flushCommit, .saveWal 1, .write true [108] [] false, .saveDoc 1]
        let r ← run s [.crash, .open 1 []]
        pure (s.done, s.ckpts.map (·.id), answer (Lsm.get r.db [107]), answer (Lsm.get r.db [108]),
              answer (Lsm.get s.db [107]), answer (Lsm.get s.db [108])))
      = some ([1], [1], some [1], some [2], some [9], none) := by
  rfl

/-- non-vacuity of the specification-level theorems: the same history through `runSpec`, restored instance and
expected map agree on the state of the `Checkpoint` call -/
example :
    (do let (s, sp) ← runSpec {} {} [.write false [107] [1] true, .flushBegin 1, .write false [108] [2] false,
          .checkpoint 1, .write false [107] [9] false, .flushCommit, .saveWal 1, .write true [108] [] false,
          .saveDoc 1, .crash, .open 1 []]
        pure (answer (Lsm.get s.db [107]), answer (Lsm.Spec.get sp.m [107]), answer (Lsm.get s.db [108]),
              answer (Lsm.Spec.get sp.m [108])))
      = some (some [1], some [1], some [2], some [2]) := by
  rfl

/-- non-vacuity of the non-atomic replay: two unflushed writes in the checkpoint's WAL; the restore replays the first
(the memtable rotates), the flush task it started begins and commits, the process crashes, the restore starts again,
a flush commits between the two replayed records; the result is the map at the call -/
example :
    (do let (s, sp) ← runSpec {} {} [.write false [107] [1] false, .write false [108] [2] false, .checkpoint 1,
          .write false [107] [9] false, .saveWal 1, .saveDoc 1, .crash,
          .openBegin 1, .replayOne true, .flushBegin 1, .flushCommit, .crash,
          .openBegin 1, .replayOne true, .flushBegin 1, .orphan 7 [], .flushCommit, .replayOne false]
        pure (s.replaying.length, (s.db.levels.headD []).length, answer (Lsm.get s.db [107]),
              answer (Lsm.get s.db [108]), answer (Lsm.Spec.get sp.m [107])))
      = some (0, 1, some [1], some [2], some [1]) := by
  rfl

end Rxn.C08
