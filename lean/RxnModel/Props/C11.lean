import RxnModel.Proofs.Watermark
import RxnModel.Proofs.TimersOp
/-!
# C11 — watermarks are monotone; operators act on the minimum of their upstreams

Property theorems only. Models: `Model/Watermark.lean` (Watermarker, the runner's stamping of watermark placeholders when
they are sent, the registry's upstream map and composite) and the operator event loop of `Model/Timers.lean`.
The comparisons and the slack constant are regenerated from the source on every run (`Generated/Facts.lean`).
Times are `Int` nanoseconds; `zeroTime` is `time.Time{}`.
-/
namespace Rxn.C11
open Rxn Rxn.Wm Rxn.Timers

/-- FULL STATEMENT (false of the code, see `wm_monotone_two_senders_counterexample`, finding D39): the watermarks a runner
broadcasts never decrease.
PROVED (`_partial`): they never decrease, for every stream of event batches and watermark ticks, every timestamp order
and every allowed lateness, **while one goroutine consumes the runner's output stream** (`runnerRun`: stamping and
sending a placeholder is one step) — i.e. as long as the runner is not deployed again while it is live. The same
exclusion applies to `wm_eq_max_minus`, `wm_lt_max_forwarded` and the delivered-stream theorems, which are about `runnerRun`/`sentStream`. -/
theorem wm_monotone_partial (w : Watermarker) (evs : List REv) : (runnerRun w evs).Pairwise (· ≤ ·) :=
  runnerRun_pairwise evs w

/-- D39 seen from C11: with two consumers of the output stream (a second `HandleDeploy` on a live runner) one of them
stamps 9 and is descheduled, the other forwards an event at 100, stamps and broadcasts 99, then the first broadcasts its
9: the runner's watermarks decrease (reproduced on the real runner: `fixes/D39_c11_demo_test.go`) -/
theorem wm_monotone_two_senders_counterexample :
    run2 ⟨Watermarker.new 0, none, none⟩
      [.forward [10], .stamp false, .forward [100], .stamp true, .send true, .send false] = [99, 9] ∧
    ¬ (run2 ⟨Watermarker.new 0, none, none⟩
      [.forward [10], .stamp false, .forward [100], .stamp true, .send true, .send false]).Pairwise (· ≤ ·) := by
  have h : run2 ⟨Watermarker.new 0, none, none⟩
      [.forward [10], .stamp false, .forward [100], .stamp true, .send true, .send false] = [99, 9] := by decide
  refine ⟨h, ?_⟩
  rw [h]
  decide

/-- the watermark stamped on a placeholder when it is sent equals the largest timestamp forwarded before it (the zero
time if none) minus (allowed lateness + 1ns) -/
theorem wm_eq_max_minus (lat : Int) (pre post : List REv) :
    runnerRun (Watermarker.new lat) (pre ++ REv.tick :: post) =
      runnerRun (Watermarker.new lat) pre ++
        (maxOf zeroTime (forwarded pre) - (lat + 1)) :: runnerRun (runnerState (Watermarker.new lat) pre) post := by
  rw [runnerRun_split]
  have h := runnerState_spec pre (Watermarker.new lat)
  have hc : (runnerState (Watermarker.new lat) pre).current = maxOf zeroTime (forwarded pre) - (lat + 1) := by
    unfold Watermarker.current
    rw [h.1, h.2]
    simp [Watermarker.new, Facts.wmSlackNs]
  rw [hc]

/-- the watermark never reaches the largest event timestamp already forwarded (lateness ≥ 0; timestamps are not before
`time.Time{}`), and that largest timestamp is one that was forwarded -/
theorem wm_lt_max_forwarded (lat : Int) (hlat : 0 ≤ lat) (pre : List REv) :
    (runnerState (Watermarker.new lat) pre).current < maxOf zeroTime (forwarded pre) ∧
    (∀ t ∈ forwarded pre, t ≤ maxOf zeroTime (forwarded pre)) ∧
    ((∃ t ∈ forwarded pre, zeroTime ≤ t) → maxOf zeroTime (forwarded pre) ∈ forwarded pre) := by
  have h := runnerState_spec pre (Watermarker.new lat)
  refine ⟨?_, fun t ht => maxOf_ge_mem _ _ t ht, ?_⟩
  · unfold Watermarker.current
    rw [h.1, h.2]
    simp only [Watermarker.new, Facts.wmSlackNs]
    omega
  · rintro ⟨t, ht, hz⟩
    rcases maxOf_attained (forwarded pre) zeroTime with e | e
    · have hle := maxOf_ge_mem (forwarded pre) zeroTime t ht
      have : t = zeroTime := by omega
      rw [e, ← this]; exact ht
    · exact e

/-- the property as the operator sees it: in the stream of keyed events and watermarks an operator has received from a
runner — for every stream the runner's event loop produced, every batch size of the key-event and operator batchers,
at every moment (whole batches only are delivered) — each watermark, **as delivered**, equals the largest event
timestamp received before it minus (lateness + 1ns); in particular it is below every such timestamp bound and a later
watermark is never smaller. (A watermark whose value changes after it was stamped breaks this.) -/
theorem delivered_watermarks_ok (n : Nat) (lat : Int) (evs : List REv) :
    streamOK lat zeroTime (delivered n (Watermarker.new lat) evs) ∧
    (0 ≤ lat → ∀ pre v post, delivered n (Watermarker.new lat) evs = pre ++ SEv.wm v :: post →
      streamOK lat zeroTime pre ∧ ∀ u, SEv.wm u ∈ post → v ≤ u) := by
  have hok : streamOK lat zeroTime (delivered n (Watermarker.new lat) evs) := by
    unfold delivered
    exact streamOK_take lat _ _ _ (sentStream_ok _ (Watermarker.new lat))
  refine ⟨hok, ?_⟩
  intro hlat pre v post hsplit
  rw [hsplit] at hok
  -- walk over `pre`
  have key : ∀ (pre : List SEv) (m : Int), streamOK lat m (pre ++ SEv.wm v :: post) →
      streamOK lat m pre ∧ ∀ u, SEv.wm u ∈ post → v ≤ u := by
    intro pre
    induction pre with
    | nil =>
      intro m h
      simp only [List.nil_append, streamOK] at h
      refine ⟨trivial, ?_⟩
      intro u hu
      have := streamOK_wm_bounds lat hlat post m h.2 u hu
      omega
    | cons x xs ih =>
      intro m h
      cases x with
      | ev t =>
        simp only [List.cons_append, streamOK] at h ⊢
        exact ih _ h
      | wm w =>
        simp only [List.cons_append, streamOK] at h ⊢
        exact ⟨⟨h.1, (ih _ h.2).1⟩, (ih _ h.2).2⟩
  exact key pre zeroTime hok

/-- several operators and a runner whose watermarker survives redeployments: for every starting watermarker `w`
(the runner creates it once; `HandleDeploy` does not reset it), every batch size, every routing of the keyed events
and every operator `j`, what `j` has received is a subsequence (order kept, values unchanged) of the stream
`sendOperatorEvent` produced, which satisfies the watermark law at every prefix with the maximum taken over ALL
forwarded events; the watermarks `j` has received are a subsequence of the runner's broadcast watermarks and so
never decrease -/
theorem delivered_to_operators_ok (n : Nat) (w : Watermarker) (evs : List REvK) (j : Nat) :
    let sent := sentStream w ((sentPrefixK (rawCountK evs / batchSize n * batchSize n) evs).map REvK.erase)
    (deliveredTo n w evs j).Sublist sent ∧
    (∀ k, streamOK w.lateness w.maxTs (sent.take k)) ∧
    (watermarksOf (deliveredTo n w evs j)).Pairwise (· ≤ ·) := by
  intro sent
  have hsub : (deliveredTo n w evs j).Sublist sent := by
    unfold deliveredTo
    refine (List.take_sublist _ _).trans ?_
    have := streamOf_sublist j (sentTagged w (sentPrefixK (rawCountK evs / batchSize n * batchSize n) evs))
    rw [sentTagged_erase] at this
    exact this
  refine ⟨hsub, fun k => streamOK_all_prefixes w _ k, ?_⟩
  have h1 := watermarksOf_sublist hsub
  rw [watermarksOf_sentStream] at h1
  exact List.Pairwise.sublist h1 (runnerRun_pairwise _ w)

/-- after any interleaving of the runners' watermark messages, the registry's composite watermark is the minimum over
all runners (configured or reporting) of the runner's latest report, a runner that has not reported counting as the epoch -/
theorem composite_eq_min (ids : List String) (msgs : List (String × Int)) (hne : msgs ≠ []) :
    let c := (reportAll (Ups.init ids, regInit) msgs).2
    (∀ k, k ∈ ids ∨ k ∈ msgs.map (·.1) → c ≤ lastOr msgs k) ∧
    ∃ k, (k ∈ ids ∨ k ∈ msgs.map (·.1)) ∧ c = lastOr msgs k := by
  intro c
  obtain ⟨hwf0, hget0⟩ := Ups.init_spec ids
  obtain ⟨hwf, hget, hc⟩ := reportAll_spec msgs (Ups.init ids) regInit hwf0
  have hcomp : c = (reportAll (Ups.init ids, regInit) msgs).1.composite := hc hne
  have hval : ∀ k, (k ∈ ids ∨ k ∈ msgs.map (·.1)) →
      (reportAll (Ups.init ids, regInit) msgs).1.get? k = some (lastOr msgs k) := by
    intro k hk
    rw [hget k, hget0 k]
    by_cases h1 : k ∈ ids
    · simp [h1, lastOr]
    · have h2 : k ∈ msgs.map (·.1) := hk.resolve_left h1
      simp only [h1, if_false, Option.isSome_none, Bool.false_eq_true, false_or, h2, if_true, Option.getD_none]
      rfl
  have hne' : (reportAll (Ups.init ids, regInit) msgs).1 ≠ [] := by
    cases msgs with
    | nil => exact absurd rfl hne
    | cons m ms =>
      obtain ⟨id, v⟩ := m
      intro hnil
      have := hval id (Or.inr (by simp))
      rw [hnil] at this
      simp [Ups.get?] at this
  obtain ⟨hle, k, x, hmem, hx⟩ := Ups.composite_spec _ hne'
  refine ⟨?_, ?_⟩
  · intro k hk
    rw [hcomp]
    exact hle k _ (Ups.mem_of_get? _ k _ (hval k hk))
  · have hk : k ∈ ids ∨ k ∈ msgs.map (·.1) := by
      have hs := Ups.get?_some_of_mem _ hwf k x hmem
      rw [hget k, hget0 k] at hs
      by_cases h1 : k ∈ ids
      · exact Or.inl h1
      · by_cases h2 : k ∈ msgs.map (·.1)
        · exact Or.inr h2
        · simp [h1, h2] at hs
    refine ⟨k, hk, ?_⟩
    have hs := Ups.get?_some_of_mem _ hwf k x hmem
    rw [hval k hk] at hs
    rw [hcomp, hx]
    exact (Option.some.inj hs).symm

/-- the composite never decreases when a runner reports a watermark that is not below its previous report (for a
runner's first report: not below the current composite — in particular not below the epoch it was counted as, if it was
configured). With `wm_monotone_partial` the operator's effective watermark is monotone whenever no runner reports below the
epoch — which an idle runner does at its first tick (`time.Time{}` − 1 ns): then the composite drops below the epoch once. -/
theorem composite_monotone (u : Ups) (hwf : u.wf) (hne : u ≠ []) (sender : String) (v : Int)
    (hprev : ∀ x, u.get? sender = some x → x ≤ v) (hfirst : u.get? sender = none → u.composite ≤ v) :
    u.composite ≤ (u.report sender v).2 := by
  have hwf' := Ups.wf_set u sender v hwf
  obtain ⟨_, k, x, hmem, hx⟩ := Ups.composite_spec (u.set sender v) (Ups.set_ne_nil u sender v)
  obtain ⟨hle, _⟩ := Ups.composite_spec u hne
  show u.composite ≤ (u.set sender v).composite
  rw [hx]
  have hg := Ups.get?_some_of_mem _ hwf' k x hmem
  rw [Ups.get?_set] at hg
  by_cases hk : k = sender
  · simp only [hk, if_true, Option.some.injEq] at hg
    subst hg
    cases hs : u.get? sender with
    | none => exact hfirst hs
    | some y => exact Int.le_trans (hle sender y (Ups.mem_of_get? u sender y hs)) (hprev y hs)
  · simp only [hk, if_false] at hg
    exact hle k x (Ups.mem_of_get? u k x hg)

/-- every `ProcessEventBatchRequest` tells the handler the composite watermark of the registry of the **current
deployment** as of the watermark messages received since that deployment (including the one being handled): with
`composite_eq_min`, the minimum over the upstream runners. Holds for every history of keyed events, watermark messages,
source completions (a completed runner stays in the minimum with its latest report: `epochOf` keeps its messages) and
redeployments (`HandleDeploy` again on the same operator: every runner back to "not reported"), every batch size and
every timer store. Before the first watermark message of a deployment the field is the registry's initial value
`regInit` (`reportAll` of no messages) — never a value of an earlier deployment; `handler_told_min` identifies it. -/
theorem handler_sees_composite (store : Store) (ids : List String) (maxBatch : Nat) (pre : List OpEv) (e : OpEv) :
    ∀ r ∈ ((Op.runState ⟨Registry.new store ids, [], maxBatch⟩ pre).step e).2,
      r.told = (reportAll (Ups.init (epochOf (ids, []) (pre ++ [e])).1, regInit) (epochOf (ids, []) (pre ++ [e])).2).2 := by
  intro r hr
  have h0 : tracked ⟨Registry.new store ids, [], maxBatch⟩ (ids, []) := rfl
  have h1 := runState_tracks pre _ _ h0
  have h2 := (step_tracks _ _ h1 e).2 r hr
  rw [h2, epochOf_append]

/-! ### what the handler is told before the first watermark message of a deployment (finding D58, repaired by 204a1f7)

The property's minimum counts a runner that has not reported as the epoch, so with no report at all it is the epoch.
`NewTimerRegistry` now initialises `watermark` to that value (`Wm.regInit`, regenerated from the source); before the
repair the field stayed `time.Time{}` until the first `AdvanceWatermark`. -/

/-- the property's minimum for a deployment with runners `ids` that has received `msgs`: the minimum of the upstream map
(every configured runner starts at the epoch) — defined whether or not a message has arrived -/
def propMin (ids : List String) (msgs : List (String × Int)) : Int :=
  (reportAll (Ups.init ids, regInit) msgs).1.composite

theorem regInit_eq_upstreamInit : regInit = upstreamInit := by
  simp [regInit, upstreamInit, Facts.regInitZero, Facts.regInitSec, Facts.regInitNsec, Facts.upstreamInitSec,
    Facts.upstreamInitNsec]

/-- at every moment — before the first watermark message of a deployment too — every request tells the handler the
minimum over the upstream runners of their latest watermark, a runner that has not reported counting as the epoch
(`propMin` of the current deployment; with `composite_eq_min` for its characterisation once a message arrived).
Every history of keyed events, watermark messages, completions, barriers and redeployments, every batch size.
(A deployment with no runner at all and no message has no minimum: excluded.) -/
theorem handler_told_min (store : Store) (ids : List String) (maxBatch : Nat) (pre : List OpEv) (e : OpEv)
    (hne : (epochOf (ids, []) (pre ++ [e])).2 ≠ [] ∨ (epochOf (ids, []) (pre ++ [e])).1 ≠ []) :
    ∀ r ∈ ((Op.runState ⟨Registry.new store ids, [], maxBatch⟩ pre).step e).2,
      r.told = propMin (epochOf (ids, []) (pre ++ [e])).1 (epochOf (ids, []) (pre ++ [e])).2 := by
  intro r hr
  rw [handler_sees_composite store ids maxBatch pre e r hr]
  generalize (epochOf (ids, []) (pre ++ [e])).1 = ids' at *
  generalize (epochOf (ids, []) (pre ++ [e])).2 = msgs at *
  by_cases hmsg : msgs = []
  · subst hmsg
    have hids : ids' ≠ [] := by
      rcases hne with h | h
      · exact absurd rfl h
      · exact h
    show regInit = (Ups.init ids').composite
    obtain ⟨hwf, hget⟩ := Ups.init_spec ids'
    have hne' : Ups.init ids' ≠ [] := by
      intro hnil
      cases ids' with
      | nil => exact hids rfl
      | cons i is =>
        have := hget i
        rw [hnil] at this
        simp [Ups.get?] at this
    obtain ⟨_, k, x, hmem, hx⟩ := Ups.composite_spec _ hne'
    have hk := Ups.get?_some_of_mem _ hwf k x hmem
    rw [hget k] at hk
    by_cases hin : k ∈ ids'
    · simp only [hin, if_true, Option.some.injEq] at hk
      rw [hx, ← hk, regInit_eq_upstreamInit]
    · simp [hin] at hk
  · exact (reportAll_spec _ _ regInit (Ups.init_spec _).1).2.2 hmsg

/-- the witness of D58, about the old initial value: a registry whose `watermark` field starts as `time.Time{}` (the code
before 204a1f7) tells the handler `time.Time{}` before the first watermark message, below the property's minimum (the epoch) -/
theorem handler_told_initial_counterexample :
    ((Op.step ⟨{ Registry.new (Store.new [] 1 0 1 64) ["a", "b"] with wm := zeroTime }, [], 1⟩ (.keyed [0x6b] [])).2.map (·.told)
      = [zeroTime]) ∧
    propMin ["a", "b"] [] = 0 ∧ zeroTime < 0 ∧
    -- the repaired code: the epoch
    ((Op.step ⟨Registry.new (Store.new [] 1 0 1 64) ["a", "b"], [], 1⟩ (.keyed [0x6b] [])).2.map (·.told) = [0]) := by decide

/-- handling a watermark message only adds `TimerExpired` events whose timestamp is at or before the new composite
watermark: no timer later than the minimum of the upstreams fires. (Events are conserved: what the handler received
during the step plus what is still batched is the old batch followed by the new events.) -/
theorem no_timer_above_composite (o : Op) (sender : String) (wm : Int) :
    ∃ new, allEvents (o.watermark sender wm).2 (o.watermark sender wm).1 = o.batch ++ new ∧
      ∀ e ∈ new, ∃ k t, e = HEv.expired k t ∧ t ≤ (o.watermark sender wm).1.reg.wm ∧
        (o.watermark sender wm).1.reg.wm = (o.reg.ups.report sender wm).2 := by
  have h := opFireLoop_ok (o.reg.ups.report sender wm).2 (o.reg.store.db.length + 1)
    { o with reg := { o.reg with ups := (o.reg.ups.report sender wm).1, wm := (o.reg.ups.report sender wm).2 } }
  obtain ⟨hok, new, hnew, hall⟩ := h
  refine ⟨new, hnew, ?_⟩
  intro e he
  obtain ⟨k, t, hk, ht⟩ := hall e he
  have hw : (o.watermark sender wm).1.reg.wm = (o.reg.ups.report sender wm).2 := hok.wm
  exact ⟨k, t, hk, by rw [hw]; exact ht, hw⟩

/-! non-vacuity -/

/-- an unordered stream with lateness 5: watermarks 24 (after 10, 30, 20) and 34 (after 40, 35) -/
example : runnerRun (Watermarker.new 5) [.events [10, 30, 20], .tick, .events [40, 35], .tick] = [24, 34] := by decide

/-- two runners: the composite follows the slower one; an unreported runner counts as the epoch -/
example : (reportAll (Ups.init ["a", "b"], regInit) [("a", 10)]).2 = 0 ∧
    (reportAll (Ups.init ["a", "b"], regInit) [("a", 10), ("b", 6), ("a", 12)]).2 = 6 ∧
    lastOr [("a", 10), ("b", 6), ("a", 12)] "a" = 12 := by decide

/-- batches of 4: one event, a tick, one event, a tick (the other raw events are keyed to nothing): the operator receives
`10, 9, 100, 99` — the first watermark keeps the value it was stamped with -/
example : delivered 4 (Watermarker.new 0)
    [.events [10], .events [], .events [], .events [], .tick, .events [100], .events [], .events [], .events [], .tick] =
    [.ev 10, .wm 9, .ev 100, .wm 99] := by decide

/-- after a redeployment the handler is told the epoch again until a runner of the new deployment reports -/
example : ((Op.runState ⟨Registry.new (Store.new [] 1 0 1 64) ["a"], [], 1⟩
      [.wmark "a" 100, .redeploy (Store.new [] 1 0 1 64) ["a"]]).step (.keyed [0x6b] [])).2.map (·.told) = [0] ∧
    ((Op.runState ⟨Registry.new (Store.new [] 1 0 1 64) ["a"], [], 1⟩
      [.wmark "a" 100]).step (.keyed [0x6b] [])).2.map (·.told) = [100] := by decide

/-- runner `a` completes at watermark 5 while `b` is at 50: the next report of `b` leaves the composite at 5 -/
example : ((Op.runState ⟨Registry.new (Store.new [] 1 0 1 64) ["a", "b"], [], 1⟩
      [.wmark "a" 5, .wmark "b" 50, .complete "a", .wmark "b" 60]).step (.keyed [0x6b] [])).2.map (·.told) = [5] := by decide

/-- two operators, batches of 2, a watermarker that already saw 50 in an earlier deployment: operator 1 gets the
event routed to it and both watermarks (49: the old maximum still counts; then 99) -/
example : deliveredTo 2 ⟨50, 0⟩ [.events [(0, 10)], .events [(1, 20)], .tick, .events [(0, 100)], .events [], .tick] 1 =
    [.ev 20, .wm 49] ∧
    deliveredTo 2 ⟨50, 0⟩ [.events [(0, 10)], .events [(1, 20)], .tick, .events [(0, 100)], .events [], .tick] 0 =
    [.ev 10, .wm 49, .ev 100, .wm 99] := by decide

/-- a report above the previous one cannot lower the composite -/
example : (Ups.init ["a", "b"]).composite ≤ ((Ups.init ["a", "b"]).report "a" 10).2 := by decide

end Rxn.C11
