import RxnModel.Proofs.Sst
import RxnModel.Proofs.Wal
/-!
# C17 — on-disk tables and write-ahead logs round-trip exactly

Property theorems only. Models: `Model/Sst.lean` (fields, entry codec, bloom filter, sparse index, table file,
`Get`, `ScanPrefix`, footer loading, `WriteRun`) and `Model/Wal.lean` (writer bookkeeping, file, reader).
Widths, index spacing, footer length, bloom size/hash count, look-ahead factor come from `Generated/Facts.lean`.
The models describe the code after the repairs D19, D27, D29, D30, D31.

Hypotheses that appear below:
* `Entry.WF` / `Rec.WF`: key/value lengths fit the 32-bit length prefix, seqNum fits 64 bits, a tombstone has
  no value (what the writers can represent);
* `SortedKeys`: strictly ascending keys (`bytes.Compare`);
* `(encEntries es).length < 2^32`: the index stores `uint32` offsets.
-/
namespace Rxn.C17
open Rxn Rxn.Sst Rxn.Wal

/-- the fields package is little-endian throughout (the model's `leBytes`/`leVal` are tied to it) -/
theorem fields_little_endian : Facts.fieldsLittleEndian = 1 := by decide

/-- entry codec: decode ∘ encode = id, with any bytes following -/
theorem entry_codec (e : Entry) (h : e.WF) (rest : Bytes) : decEntry (encEntry e ++ rest) = some (e, rest) :=
  decEntry_encEntry e h rest

/-- `Table.Get` on a written table is the lookup in the run, for every key: present, absent, between two
keys, before the first, after the last (D19), and whatever the bloom filter answers for absent keys -/
theorem table_get_eq_lookup (es : List Entry) (hwf : ∀ e ∈ es, e.WF) (hs : SortedKeys es)
    (hsz : (encEntries es).length < 4294967296) (key : Bytes) :
    get (metaOf es) (docOf es).entriesSize (encTable es) key = GetRes.ofOption (lookup es key) :=
  get_encTable es hwf hs hsz key

/-- `Table.ScanPrefix` yields exactly the entries with the prefix, in order, tombstones included
(also for the empty run, D29) -/
theorem table_scanPrefix (es : List Entry) (hwf : ∀ e ∈ es, e.WF) (pfx : Bytes) :
    scanPrefix (docOf es).entriesSize (encTable es) pfx = some (es.filter (fun e => e.key.hasPrefix pfx)) :=
  scanPrefix_encTable es hwf pfx

/-- re-opening from the document: `loadFooter` recovers exactly the writer's bloom filter and index, so every
`Get`/`ScanPrefix` answer of the re-opened table is that of the fresh one; the document carries the first and
last key and the sizes -/
theorem table_reopen (es : List Entry) (hsz : (encEntries es).length < 4294967296) :
    openDoc (docOf es) (encTable es) = some (metaOf es) ∧
    (docOf es).startKey = (es.head?.map (·.key)).getD [] ∧ (docOf es).endKey = (es.getLast?.map (·.key)).getD [] ∧
    (docOf es).size = (encTable es).length ∧ (docOf es).entriesSize = (encEntries es).length :=
  ⟨loadFooter_encTable es hsz, rfl, rfl, rfl, rfl⟩

theorem table_reopen_get (es : List Entry) (hwf : ∀ e ∈ es, e.WF) (hs : SortedKeys es)
    (hsz : (encEntries es).length < 4294967296) (key : Bytes) :
    (openDoc (docOf es) (encTable es)).map (fun m => get m (docOf es).entriesSize (encTable es) key)
      = some (GetRes.ofOption (lookup es key)) := by
  rw [(table_reopen es hsz).1]; exact congrArg some (table_get_eq_lookup es hwf hs hsz key)

/-- the bloom filter never denies a key that was added (for every filter with at least one bit) -/
theorem bloom_no_false_negative (size hashes : Nat) (hsize : 0 < size) (ks : List Bytes) (k : Bytes) (hk : k ∈ ks) :
    ((Bloom.new size hashes).addAll ks).mightHave k = true :=
  Bloom.addAll_no_false_negative _ (Bloom.new_ok size hashes hsize) ks k hk

/-- … in particular the table's filter (size and hash count from the source) for every key of the table -/
theorem table_bloom_no_false_negative (es : List Entry) (e : Entry) (he : e ∈ es) :
    (metaOf es).bloom.mightHave e.key = true :=
  bloomOf_no_false_negative es e he

/-- `WriteRun`: the tables, concatenated in order, are the input -/
theorem writeRun_concat (target : Nat) (es : List Entry) : (writeRun target es).flatten = es :=
  writeRun_flatten target es

/-- `WriteRun`: every key of an earlier table is below every key of a later table -/
theorem writeRun_ranges (target : Nat) (es : List Entry) (hs : SortedKeys es) :
    (writeRun target es).Pairwise (fun c d => ∀ a ∈ c, ∀ b ∈ d, Bytes.lt a.key b.key = true) ∧
    ∀ c ∈ writeRun target es, SortedKeys c := by
  have h : SortedKeys (writeRun target es).flatten := by rw [writeRun_flatten]; exact hs
  have := List.pairwise_flatten.mp h
  exact ⟨this.2, this.1⟩

/-- `WriteRun` (D31): no table of a non-empty run is empty, so every table's range is its first..last key -/
theorem writeRun_nonempty_tables (target : Nat) (ht : 0 < target) (es : List Entry) (hes : es ≠ []) :
    ∀ c ∈ writeRun target es, c ≠ [] :=
  writeRun_nonempty target ht es hes

/-- consequently the documents' key ranges are disjoint and ordered -/
theorem writeRun_doc_ranges (target : Nat) (ht : 0 < target) (es : List Entry) (hes : es ≠ []) (hs : SortedKeys es) :
    (writeRun target es).Pairwise (fun c d => Bytes.lt (docOf c).endKey (docOf d).startKey = true) := by
  have hne := writeRun_nonempty target ht es hes
  refine List.Pairwise.imp_of_mem ?_ (writeRun_ranges target es hs).1
  intro c d hc hd h
  have hc' := hne c hc
  have hd' := hne d hd
  obtain ⟨x, hx⟩ : ∃ x, c.getLast? = some x := by
    cases hl : c.getLast? with
    | none => exact absurd (List.getLast?_eq_none_iff.mp hl) hc'
    | some x => exact ⟨x, rfl⟩
  obtain ⟨y, hy⟩ : ∃ y, d.head? = some y := by
    cases d with
    | nil => exact absurd rfl hd'
    | cons y _ => exact ⟨y, rfl⟩
  simp only [docOf, hx, hy, Option.map_some, Option.getD_some]
  exact h x (List.mem_of_getLast? hx) y (List.mem_of_head? hy)

/-- WAL record codec -/
theorem wal_codec (e : Rec) (h : e.WF) (rest : Bytes) : decRec (encRec e ++ rest) = some (e, rest) :=
  decRec_encRec e h rest

/-- `Reader.All` on a file of records with consecutive sequence numbers `f, f+1, …`: exactly the records after
the start marker, in order (deletes without value and sequence number, as the code yields them) -/
theorem wal_reader_after (f : Nat) (e : Rec) (es : List Rec) (hwf : ∀ x ∈ e :: es, x.WF) (hc : Consecutive f (e :: es))
    (after : Nat) (hlo : f ≤ after + 1) (hhi : after + 1 ≤ f + (e :: es).length) :
    readAll (encRecs (e :: es)) after = .ok (((e :: es).filter (fun x => decide (after < x.seq))).map Rec.toRead) := by
  have hf : e.seq = f := hc.1
  rw [readAll_encRecs e es hwf after (by omega) (by omega), hf, drop_eq_filter f (e :: es) hc after]

/-- a start marker more than one below the first record of the file is refused (the records in between are gone) -/
theorem wal_reader_gap (e : Rec) (es : List Rec) (he : e.WF) (after : Nat) (h : after + 1 < e.seq) :
    readAll (encRecs (e :: es)) after = .panic :=
  readAll_panic e es he after h

/-- writer bookkeeping for every history of put/delete/cut/truncate/rotate (sequence numbers never decreasing):
what a save contains is a suffix of everything appended, and every record newer than all truncations is in it -/
theorem wal_writer_retains (ops : List Op) (id m : Nat) (hmono : MonoSeqs 0 ops) :
    (∃ n, ((Writer.new id m).run ops).entries = (appended ops).drop n) ∧
    ∀ e ∈ appended ops, maxTrunc ops < e.seq → e ∈ ((Writer.new id m).run ops).entries :=
  writer_retains ops id m hmono

/-- end to end: after any such history with consecutive sequence numbers, the saved file read with a start marker
that is at least every truncation replays exactly the appended operations after the marker -/
theorem wal_replay (ops : List Op) (id m f after : Nat)
    (hmono : MonoSeqs 0 ops) (hcons : Consecutive f (appended ops)) (hwf : ∀ e ∈ appended ops, e.WF)
    (hT : maxTrunc ops ≤ after) (hlo : f ≤ after + 1) (hhi : after + 1 ≤ f + (appended ops).length) :
    readAll ((Writer.new id m).run ops).save after
      = .ok (((appended ops).filter (fun e => decide (after < e.seq))).map Rec.toRead) :=
  replay_after ops id m f after hmono hcons hwf hT hlo hhi

/-! ## regression witness of D27 and non-vacuity -/

/-- with the unrepaired `Rotate` (carried segments lose `latestSeqNum`) a truncation after a rotation drops a
record newer than the truncation: put 1, cut, put 2, cut, rotate, truncate 1 -/
theorem d27_counterexample :
    let w := ((((Writer.new 0 100).put [1] [] 1).cut.put [2] [] 2).cut)
    (w.rotateD27.truncate 1).entries = [] ∧ (w.rotate.truncate 1).entries = [⟨2, [2], false, []⟩] := by
  decide

/-- the hypotheses of the table theorems are satisfiable by a run with a tombstone, an empty key and an empty value -/
example : (∀ e ∈ ([⟨[], 1, false, [7]⟩, ⟨[1], 2, true, []⟩, ⟨[1, 0], 3, false, []⟩] : List Entry), e.WF) ∧
    SortedKeys [⟨[], 1, false, [7]⟩, ⟨[1], 2, true, []⟩, ⟨[1, 0], 3, false, []⟩] := by
  refine ⟨?_, by unfold SortedKeys; decide⟩
  intro e he
  simp only [List.mem_cons, List.not_mem_nil, or_false] at he
  rcases he with rfl | rfl | rfl <;> exact ⟨by decide, by decide, by decide, by decide⟩

/-- `lookup` distinguishes present, tombstoned and absent keys -/
example : lookup [⟨[], 1, false, [7]⟩, ⟨[1], 2, true, []⟩] [1] = some ⟨[1], 2, true, []⟩ ∧
    lookup [⟨[], 1, false, [7]⟩, ⟨[1], 2, true, []⟩] [0] = none := by decide

/-- `WriteRun` really splits: target 20 puts each 18-byte entry in its own table -/
example : writeRun 20 [⟨[1], 1, false, []⟩, ⟨[2], 2, false, []⟩, ⟨[3], 3, false, []⟩]
    = [[⟨[1], 1, false, []⟩, ⟨[2], 2, false, []⟩], [⟨[3], 3, false, []⟩]] := by decide

/-- a WAL history that satisfies the hypotheses of `wal_replay` with a truncation and a rotation -/
example : MonoSeqs 0 [.put [1] [] 1, .cut, .del [2] 2, .rotate, .truncate 1, .put [3] [9] 3] ∧
    Consecutive 1 (appended [.put [1] [] 1, .cut, .del [2] 2, .rotate, .truncate 1, .put [3] [9] 3]) ∧
    maxTrunc [.put [1] [] 1, .cut, .del [2] 2, .rotate, .truncate 1, .put [3] [9] 3] ≤ 1 ∧
    ((Writer.new 0 64).run [.put [1] [] 1, .cut, .del [2] 2, .rotate, .truncate 1, .put [3] [9] 3]).entries
      = [⟨2, [2], true, []⟩, ⟨3, [3], false, [9]⟩] :=
  ⟨by simp [MonoSeqs], by simp [Consecutive, appended], by simp [maxTrunc], by decide⟩

end Rxn.C17
