import RxnModel.Proofs.Sst
import RxnModel.Proofs.SstLsm
import RxnModel.Proofs.SstDoc
import RxnModel.Proofs.Wal
/-!
# C17 — on-disk tables and write-ahead logs round-trip exactly

Property theorems only. Models: `Model/Sst.lean` (fields, entry codec, bloom filter, sparse index, table file,
`Get`, `ScanPrefix`, footer loading, `WriteRun`) and `Model/Wal.lean` (writer bookkeeping, file, reader).
Widths, index spacing, footer length, bloom size/hash count, look-ahead factor come from `Generated/Facts.lean`.
The models describe the code after the repairs D19, D27, D29, D30, D31.

Hypotheses that appear below:
* `Entry.WF` / `Rec.WF`: key/value lengths fit the 32-bit length prefix, seqNum fits 64 bits, a tombstone has
  no value (what the writers can represent);
* `SortedKeys`: strictly ascending keys (`bytes.Compare`);
* `(encEntries es).length < offMod` (= 2^32, from the `uint32(offset)` conversion): the index stores `uint32` offsets.
-/
namespace Rxn.C17
open Rxn Rxn.Sst Rxn.Wal

/-- the fields package is little-endian throughout (the model's `leBytes`/`leVal` are tied to it) -/
theorem fields_little_endian : Facts.fieldsLittleEndian = 1 := by decide

/-- what the structural recogniser `walMuCoversSegments` (tools/gofacts/facts_c17.go, hard obligation) finds in
`dkv/wal/writer.go`, and no more: (1) `Cut`, `Truncate`, `Rotate` are `mu.Lock(); defer mu.Unlock()` over the rest of
their body with no segment access before the lock; (2) `Put`/`Delete` never mention `sealedBuffers` and `Truncate`
never mentions the writer's `activeBuffer`/`latestSeqNum` (the unlocked foreground writes and the concurrent
`Truncate` work on disjoint fields); (3) `Put`, `Delete`, `Cut`, `Truncate`, `Rotate`, `Save` start with the `sealed`
guard and `sealed` is only ever set, once, by `Rotate`'s `CompareAndSwap(false, true)`. It is a stand-alone fact
(no proof consumes it); it is the reason the model may treat each of these calls as one step on one writer. -/
theorem wal_lock_shape : Facts.walMuCoversSegments = 1 := by decide

/-- `ensureMetadataLoaded` sets `metadataLoaded` only after `loadFooter` returned, inside one critical section that
lasts to the end of the body: a second first reader waits and then sees the loaded metadata (structural fact) -/
theorem table_metadata_load_shape : Facts.sstMetaLoadUnderLock = 1 := by decide

/-- `TableDocument` has the fields, order and types (`[]byte` keys, no tags) that `jsonDoc` writes -/
theorem document_shape : Facts.sstDocShape = 1 := by decide

/-- entry codec: decode ∘ encode = id, with any bytes following -/
theorem entry_codec (e : Entry) (h : e.WF) (rest : Bytes) : decEntry (encEntry e ++ rest) = some (e, rest) :=
  decEntry_encEntry e h rest

/-- `Table.Get` on a written table is the lookup in the run, for every key: present, absent, between two
keys, before the first, after the last (D19), and whatever the bloom filter answers for absent keys -/
theorem table_get_eq_lookup (es : List Entry) (hwf : ∀ e ∈ es, e.WF) (hs : SortedKeys es)
    (hsz : (encEntries es).length < offMod) (key : Bytes) :
    get (metaOf es) (docOf es).entriesSize (encTable es) key = GetRes.ofOption (lookup es key) :=
  get_encTable es hwf hs hsz key

/-- `Table.ScanPrefix` yields exactly the entries with the prefix, in order, tombstones included
(also for the empty run, D29) -/
theorem table_scanPrefix (es : List Entry) (hwf : ∀ e ∈ es, e.WF) (pfx : Bytes) :
    scanPrefix (docOf es).entriesSize (encTable es) pfx = some (es.filter (fun e => e.key.hasPrefix pfx)) :=
  scanPrefix_encTable es hwf pfx

/-- re-opening from the document: `loadFooter` recovers exactly the writer's bloom filter and index, so every
`Get`/`ScanPrefix` answer of the re-opened table is that of the fresh one; the document carries the first and
last key and the sizes -/
theorem table_reopen (es : List Entry) (hsz : (encEntries es).length < offMod) :
    openDoc (docOf es) (encTable es) = some (metaOf es) ∧
    (docOf es).startKey = (es.head?.map (·.key)).getD [] ∧ (docOf es).endKey = (es.getLast?.map (·.key)).getD [] ∧
    (docOf es).size = (encTable es).length ∧ (docOf es).entriesSize = (encEntries es).length :=
  ⟨loadFooter_encTable es hsz, rfl, rfl, rfl, rfl⟩

/-- the descriptor as the checkpoint document stores it (D30 site): `encoding/json` text of `TableDocument` — keys in
base64, sizes and sequence numbers in decimal, the URI verbatim — decodes back to the same document and URI -/
theorem table_document_json (d : Doc) (uri : List Char) (hu : PlainUri uri) :
    parseDoc (jsonDoc d uri) = some (d, uri) :=
  parseDoc_jsonDoc d uri hu

/-- re-opening a written table from the JSON text of its document yields the writer's metadata -/
theorem table_reopen_via_json (es : List Entry) (uri : List Char) (hu : PlainUri uri)
    (hsz : (encEntries es).length < offMod) :
    (parseDoc (jsonDoc (docOf es) uri)).bind (fun p => openDoc p.1 (encTable es)) = some (metaOf es) := by
  rw [parseDoc_jsonDoc _ _ hu]; exact loadFooter_encTable es hsz

theorem table_reopen_get (es : List Entry) (hwf : ∀ e ∈ es, e.WF) (hs : SortedKeys es)
    (hsz : (encEntries es).length < offMod) (key : Bytes) :
    (openDoc (docOf es) (encTable es)).map (fun m => get m (docOf es).entriesSize (encTable es) key)
      = some (GetRes.ofOption (lookup es key)) := by
  rw [(table_reopen es hsz).1]; exact congrArg some (table_get_eq_lookup es hwf hs hsz key)

/-- the bloom filter never denies a key that was added (for every filter with at least one bit) -/
theorem bloom_no_false_negative (size hashes : Nat) (hsize : 0 < size) (ks : List Bytes) (k : Bytes) (hk : k ∈ ks) :
    ((Bloom.new size hashes).addAll ks).mightHave k = true :=
  Bloom.addAll_no_false_negative _ (Bloom.new_ok size hashes hsize) ks k hk

/-- … in particular the table's filter (size and hash count from the source) for every key of the table -/
theorem table_bloom_no_false_negative (es : List Entry) (e : Entry) (he : e ∈ es) :
    (metaOf es).bloom.mightHave e.key = true :=
  bloomOf_no_false_negative es e he

/-- `WriteRun`: the tables, concatenated in order, are the input -/
theorem writeRun_concat (target : Nat) (es : List Entry) : (writeRun target es).flatten = es :=
  writeRun_flatten target es

/-- `WriteRun`: every key of an earlier table is below every key of a later table -/
theorem writeRun_ranges (target : Nat) (es : List Entry) (hs : SortedKeys es) :
    (writeRun target es).Pairwise (fun c d => ∀ a ∈ c, ∀ b ∈ d, Bytes.lt a.key b.key = true) ∧
    ∀ c ∈ writeRun target es, SortedKeys c :=
  writeRun_pairwise target es hs

/-- `WriteRun` (D31): no table of a non-empty run is empty, so every table's range is its first..last key -/
theorem writeRun_nonempty_tables (target : Nat) (ht : 0 < target) (es : List Entry) (hes : es ≠ []) :
    ∀ c ∈ writeRun target es, c ≠ [] :=
  writeRun_nonempty target ht es hes

/-- consequently the documents' key ranges are disjoint and ordered -/
theorem writeRun_doc_ranges (target : Nat) (ht : 0 < target) (es : List Entry) (hes : es ≠ []) (hs : SortedKeys es) :
    (writeRun target es).Pairwise (fun c d => Bytes.lt (docOf c).endKey (docOf d).startKey = true) :=
  writeRun_doc_ranges' target ht es hes hs

/-- the loop of `WriteRun` terminates within the fuel the model gives it: with any extra fuel the result is the
same, i.e. the out-of-fuel branch of `runLoop` is dead (every iteration consumes an entry, cuts, or flushes a
non-empty chunk; measure `3·|input| + 2·|buffer| + [filling]`). For `target = 0` the real loop does not terminate. -/
theorem writeRun_fuel_independent (target : Nat) (ht : 0 < target) (es : List Entry) (k : Nat) :
    runLoop target (maxBuffer target) (3 * es.length + 3 + k) none [] 0 false es = writeRun target es :=
  Sst.writeRun_fuel_independent target ht es k

/-- table sizes as the code guarantees them (in `FlushSize` units, `M` = any bound on one entry's flush size):
every table but the last has `target ≤ size < target + M` — tighter than the `1.5·target + M` of the design note,
because the look-ahead entries stay in the buffer — and the last one has `size < floor(1.5·target) + M`.
The written entry bytes never exceed the flush size. -/
theorem writeRun_sizes (target : Nat) (ht : 0 < target) (es : List Entry) (M : Nat) (hM : ∀ e ∈ es, flushSize e ≤ M) :
    (∀ c ∈ (writeRun target es).dropLast, target ≤ sumSize c ∧ sumSize c < target + M) ∧
    (∀ c, (writeRun target es).getLast? = some c → sumSize c < maxBuffer target + M) ∧
    (∀ e : Entry, (encEntry e).length ≤ Facts.sstEntryOverhead + e.key.length + e.val.length) :=
  ⟨(sizesOk_iff _ (writeRun_sizesOk target ht es M hM)).1, (sizesOk_iff _ (writeRun_sizesOk target ht es M hM)).2,
   encEntry_length_le⟩

/-! ## hand-off to C07 / C18: a level built from the tables of `WriteRun` -/

/-- every table of `WriteRun` answers `Get` and `ScanPrefix` like its slice of the run, and the run's lookup is the
first hit over the slices (each key lives in exactly one, by `writeRun_ranges`). The `uint32` offset limit is a
hypothesis PER TABLE (`writeRun_table_bytes` derives it from the target size); the run as a whole may be of any size. -/
theorem writeRun_tables_answer (target : Nat) (es : List Entry) (hwf : ∀ e ∈ es, e.WF) (hs : SortedKeys es)
    (hsz : ∀ c ∈ writeRun target es, (encEntries c).length < offMod) :
    (∀ c ∈ writeRun target es, ∀ key,
      get (metaOf c) (docOf c).entriesSize (encTable c) key = GetRes.ofOption (lookup c key)) ∧
    (∀ c ∈ writeRun target es, ∀ pfx,
      scanPrefix (docOf c).entriesSize (encTable c) pfx = some (c.filter (fun e => e.key.hasPrefix pfx))) ∧
    (∀ key, lookup es key = (writeRun target es).findSome? (fun c => lookup c key)) := by
  have hmem : ∀ c ∈ writeRun target es, ∀ e ∈ c, e ∈ es := by
    intro c hc e he
    rw [← writeRun_flatten target es]; exact List.mem_flatten.mpr ⟨c, hc, he⟩
  refine ⟨?_, ?_, writeRun_lookup target es⟩
  · intro c hc key
    exact get_encTable c (fun e he => hwf e (hmem c hc e he)) ((writeRun_pairwise target es hs).2 c hc)
      (hsz c hc) key
  · intro c hc pfx
    exact scanPrefix_encTable c (fun e he => hwf e (hmem c hc e he)) pfx

/-- the per-table limit holds for every run, however long, once `floor(1.5·target)` plus the largest entry
(`EntryOverheadSize + |key| + |value| ≤ M`) fits 32 bits -/
theorem writeRun_table_bytes (target : Nat) (ht : 0 < target) (es : List Entry) (M : Nat)
    (hM : ∀ e ∈ es, Facts.sstEntryOverhead + e.key.length + e.val.length ≤ M)
    (hfit : maxBuffer target + M ≤ offMod) :
    ∀ c ∈ writeRun target es, (encEntries c).length < offMod :=
  Sst.writeRun_table_bytes target ht es M hM hfit

/-- the whole path a restored DKV takes for every table of a compaction/flush run: the table's document goes through
its JSON text, the table is re-opened from the parsed document (sizes taken from it), and `Get` answers like the
slice of the run — for runs of any length, under the entry-size bound of `writeRun_table_bytes` -/
theorem writeRun_tables_reopen_via_json (target : Nat) (ht : 0 < target) (es : List Entry) (hwf : ∀ e ∈ es, e.WF)
    (hs : SortedKeys es) (M : Nat) (hM : ∀ e ∈ es, Facts.sstEntryOverhead + e.key.length + e.val.length ≤ M)
    (hfit : maxBuffer target + M ≤ offMod) (uri : List Char) (hu : PlainUri uri) :
    ∀ c ∈ writeRun target es, ∀ key,
      (parseDoc (jsonDoc (docOf c) uri)).bind (fun p =>
        (openDoc p.1 (encTable c)).map (fun m => get m p.1.entriesSize (encTable c) key))
      = some (GetRes.ofOption (lookup c key)) := by
  intro c hc key
  have hsz := Sst.writeRun_table_bytes target ht es M hM hfit c hc
  have hmem : ∀ e ∈ c, e ∈ es := by
    intro e he
    rw [← writeRun_flatten target es]; exact List.mem_flatten.mpr ⟨c, hc, he⟩
  rw [parseDoc_jsonDoc _ _ hu]
  show (openDoc (docOf c) (encTable c)).map _ = _
  rw [show openDoc (docOf c) (encTable c) = some (metaOf c) from loadFooter_encTable c hsz]
  exact congrArg some (get_encTable c (fun e he => hwf e (hmem e he)) ((writeRun_pairwise target es hs).2 c hc) hsz key)

/-- `Table.Get` is correct with ANY bloom filter that answers "yes" (a false positive on an absent key included:
before the first key (D19), between keys, between index blocks, after the last key): the bloom gate only ever
short-cuts to "not found", everything else is decided by the index search and the bounded scan -/
theorem table_get_any_bloom (b : Bloom) (es : List Entry) (hwf : ∀ e ∈ es, e.WF) (hs : SortedKeys es)
    (hsz : (encEntries es).length < offMod) (key : Bytes) :
    get ⟨b, (metaOf es).offsets⟩ (docOf es).entriesSize (encTable es) key
      = if b.mightHave key then GetRes.ofOption (lookup es key) else GetRes.notFound :=
  get_any_bloom b es hwf hs hsz key

/-- seen as tables of the LSM model (`Lsm.Tbl`: a table is its run), the tables of `WriteRun` form a level that
satisfies what C07/C18 assume of a deeper level: every run is sorted (`Lsm.Run.Sorted`), ranges are pairwise
exclusive (`Lsm.RangeUnique`; both stated with their bodies so that only `Model/Lsm.lean` is imported), the
model's `Tbl.get` (range test + lookup) is the lookup of the slice, i.e. what the byte-level `Table.Get` returns,
and `Tbl.scan` is what `Table.ScanPrefix` returns -/
theorem writeRun_level_invariants (target : Nat) (ht : 0 < target) (es : List Entry) (hs : SortedKeys es)
    (ts : List Lsm.Tbl) (hts : ts.map (·.run) = (writeRun target es).map toRun) :
    (∀ t ∈ ts, t.run.Pairwise (fun a b => Bytes.lt a.key b.key = true)) ∧
    ts.Pairwise (fun a b => ∀ k, ¬ (a.rangeContainsKey k = true ∧ b.rangeContainsKey k = true)) ∧
    (∀ c ∈ writeRun target es, ∀ id k, Lsm.Tbl.get ⟨id, toRun c⟩ k = (lookup c k).map toLsm) ∧
    (∀ c : List Entry, ∀ id p, Lsm.Tbl.scan ⟨id, toRun c⟩ p = toRun (c.filter (fun e => e.key.hasPrefix p))) := by
  refine ⟨?_, writeRun_rangeUnique target ht es hs ts hts, ?_, ?_⟩
  · intro t ht'
    have : t.run ∈ (writeRun target es).map toRun := by rw [← hts]; exact List.mem_map_of_mem ht'
    obtain ⟨c, hc, hrun⟩ := List.mem_map.mp this
    rw [← hrun]
    exact toRun_sorted c ((writeRun_pairwise target es hs).2 c hc)
  · intro c hc id k
    exact tbl_get_eq_lookup id c ((writeRun_pairwise target es hs).2 c hc) k
  · intro c id p
    exact (toRun_filter c p).symm

/-- WAL record codec -/
theorem wal_codec (e : Rec) (h : e.WF) (rest : Bytes) : decRec (encRec e ++ rest) = some (e, rest) :=
  decRec_encRec e h rest

/-- `Reader.All` on a file of records with consecutive sequence numbers `f, f+1, …`: exactly the records after
the start marker, in order (deletes without value and sequence number, as the code yields them) -/
theorem wal_reader_after (f : Nat) (e : Rec) (es : List Rec) (hwf : ∀ x ∈ e :: es, x.WF) (hc : Consecutive f (e :: es))
    (after : Nat) (hlo : f ≤ after + 1) (hhi : after + 1 ≤ f + (e :: es).length) (hw : after + 1 < seqMod) :
    readAll (encRecs (e :: es)) after = .ok (((e :: es).filter (fun x => decide (after < x.seq))).map Rec.toRead) := by
  have hf : e.seq = f := hc.1
  rw [readAll_encRecs e es hwf after hw (by omega) (by omega), hf, drop_eq_filter f (e :: es) hc after]

/-- a start marker more than one below the first record of the file is refused (the records in between are gone) -/
theorem wal_reader_gap (e : Rec) (es : List Rec) (he : e.WF) (after : Nat) (h : after + 1 < e.seq) :
    readAll (encRecs (e :: es)) after = .panic :=
  readAll_panic e es he after (Nat.lt_of_le_of_lt (Nat.mod_le _ _) h)

/-- the marker arithmetic wraps like the Go type: the largest marker `seqMod − 1` is refused by every file that does
not start at sequence number 0 (`startAfter + 1` is 0); this is why the replay theorems assume `after + 1 < seqMod` -/
theorem wal_reader_marker_wraps (e : Rec) (es : List Rec) (he : e.WF) (h : 0 < e.seq) :
    readAll (encRecs (e :: es)) (seqMod - 1) = .panic := by
  apply readAll_panic e es he
  have : seqMod - 1 + 1 = seqMod := by have : 0 < seqMod := by decide
                                       omega
  rw [this, Nat.mod_self]; exact h

/-- writer bookkeeping for every history of put/delete/cut/truncate/rotate (sequence numbers never decreasing):
what a save contains is a suffix of everything appended, and every record newer than all truncations is in it -/
theorem wal_writer_retains (ops : List Op) (id m : Nat) (hmono : MonoSeqs 0 ops) :
    (∃ n, ((Writer.new id m).run ops).entries = (appended ops).drop n) ∧
    ∀ e ∈ appended ops, maxTrunc ops < e.seq → e ∈ ((Writer.new id m).run ops).entries :=
  writer_retains ops id m hmono

/-- end to end: after any such history with consecutive sequence numbers, the saved file read with a start marker
that is at least every truncation replays exactly the appended operations after the marker -/
theorem wal_replay (ops : List Op) (id m f after : Nat)
    (hmono : MonoSeqs 0 ops) (hcons : Consecutive f (appended ops)) (hwf : ∀ e ∈ appended ops, e.WF)
    (hT : maxTrunc ops ≤ after) (hlo : f ≤ after + 1) (hhi : after + 1 ≤ f + (appended ops).length)
    (hw : after + 1 < seqMod) :
    readAll ((Writer.new id m).run ops).save after
      = .ok (((appended ops).filter (fun e => decide (after < e.seq))).map Rec.toRead) :=
  replay_after ops id m f after hmono hcons hwf hT hlo hhi hw

/-- a sealed writer is immutable: the writer rotated away after `ops₁` is what those operations built, at the same
position and with the same content after ANY later history `ops₂` of its successors — so the bytes `Save` writes for
it, whenever the asynchronous save runs, depend only on the operations before its `Rotate`.
In the functional model this holds BY CONSTRUCTION (`Log.apply` never touches `sealed`); its weight is what it
asks of the code, which is established elsewhere:
* successors do not share mutable storage with the sealed writer — not provable from source shape; held to the real
  `wal.Writer` by the lockstep ops `wrotl … wsavel` (the successor truncates carried segments, cuts and appends
  before the old writer is saved; seeded change C17-5 is exactly a violation of this);
* no method mutates a writer after `Rotate` sealed it — `wal_lock_shape` (3): every mutating method panics at entry
  on a sealed writer;
* no `Truncate` is in flight between its guard and its lock while `Rotate` runs (the guard precedes the lock in
  `writer.go`) — NOT a fact of `dkv/wal`; in `dkv/db.go` `Rotate` runs inside the `db.mu` section of `DB.Checkpoint`
  and `Truncate` inside the `db.mu` section of the flush commit: C08's hard facts `Facts.c08CaptureUnderLock` and
  `Facts.c08FlushTruncates`. -/
theorem wal_sealed_writer_immutable (id m : Nat) (ops₁ ops₂ : List Op) :
    let l := (Log.new id m).run (ops₁ ++ Op.rotate :: ops₂)
    let k := ((Log.new id m).run ops₁).sealed.length
    l.sealed[k]? = some ((Writer.new id m).run ops₁) ∧
    (l.sealed[k]?).map Writer.save = some (encRecs ((Writer.new id m).run ops₁).entries) := by
  intro l k
  have h := sealed_writer_immutable id m ops₁ ops₂
  exact ⟨h, by show (l.sealed[k]?).map Writer.save = _; rw [h]; rfl⟩

/-- … and a save that runs after any amount of successor activity still replays exactly the operations appended
before the `Rotate` and after the marker -/
theorem wal_late_save_replay (ops₁ ops₂ : List Op) (id m f after : Nat)
    (hmono : MonoSeqs 0 ops₁) (hcons : Consecutive f (appended ops₁)) (hwf : ∀ e ∈ appended ops₁, e.WF)
    (hT : maxTrunc ops₁ ≤ after) (hlo : f ≤ after + 1) (hhi : after + 1 ≤ f + (appended ops₁).length)
    (hw : after + 1 < seqMod) :
    let l := (Log.new id m).run (ops₁ ++ Op.rotate :: ops₂)
    let k := ((Log.new id m).run ops₁).sealed.length
    (l.sealed[k]?).map (fun w => readAll w.save after)
      = some (.ok (((appended ops₁).filter (fun e => decide (after < e.seq))).map Rec.toRead)) := by
  intro l k
  have h := sealed_writer_immutable id m ops₁ ops₂
  show (l.sealed[k]?).map (fun w => readAll w.save after) = _
  rw [h]
  exact congrArg some (replay_after ops₁ id m f after hmono hcons hwf hT hlo hhi hw)

/-! ## regression witness of D27 and non-vacuity -/

/-- with the unrepaired `Rotate` (carried segments lose `latestSeqNum`) a truncation after a rotation drops a
record newer than the truncation: put 1, cut, put 2, cut, rotate, truncate 1 -/
theorem d27_counterexample :
    let w := ((((Writer.new 0 100).put [1] [] 1).cut.put [2] [] 2).cut)
    (w.rotateD27.truncate 1).entries = [] ∧ (w.rotate.truncate 1).entries = [⟨2, [2], false, []⟩] := by
  decide

/-- the hypotheses of the table theorems are satisfiable by a run with a tombstone, an empty key and an empty value -/
example : (∀ e ∈ ([⟨[], 1, false, [7]⟩, ⟨[1], 2, true, []⟩, ⟨[1, 0], 3, false, []⟩] : List Entry), e.WF) ∧
    SortedKeys [⟨[], 1, false, [7]⟩, ⟨[1], 2, true, []⟩, ⟨[1, 0], 3, false, []⟩] := by
  refine ⟨?_, by unfold SortedKeys; decide⟩
  intro e he
  simp only [List.mem_cons, List.not_mem_nil, or_false] at he
  rcases he with rfl | rfl | rfl <;> exact ⟨by decide, by decide, by decide, by decide⟩

/-- `lookup` distinguishes present, tombstoned and absent keys -/
example : lookup [⟨[], 1, false, [7]⟩, ⟨[1], 2, true, []⟩] [1] = some ⟨[1], 2, true, []⟩ ∧
    lookup [⟨[], 1, false, [7]⟩, ⟨[1], 2, true, []⟩] [0] = none := by decide

/-- `WriteRun` really splits: with target 20 two 18-byte entries reach the target, the third is the look-ahead rest -/
example : writeRun 20 [⟨[1], 1, false, []⟩, ⟨[2], 2, false, []⟩, ⟨[3], 3, false, []⟩]
    = [[⟨[1], 1, false, []⟩, ⟨[2], 2, false, []⟩], [⟨[3], 3, false, []⟩]] := by decide

/-- table file names are plain URIs -/
example : PlainUri "memory:///000000.sst".toList := by unfold PlainUri; decide

/-- the hypothesis of `writeRun_level_invariants` is met by numbering the tables in order -/
example (target : Nat) (es : List Entry) :
    ((writeRun target es).map (fun c => (⟨0, toRun c⟩ : Lsm.Tbl))).map (·.run) = (writeRun target es).map toRun := by
  simp [List.map_map, Function.comp_def]

/-- the size bounds are met with equality-free margins by a concrete run: target 20, entries of flush size 18 -/
example : (writeRun 20 [⟨[1], 1, false, []⟩, ⟨[2], 2, false, []⟩, ⟨[3], 3, false, []⟩]).map sumSize = [36, 18] := by decide

/-- a WAL history that satisfies the hypotheses of `wal_replay` with a truncation and a rotation -/
example : MonoSeqs 0 [.put [1] [] 1, .cut, .del [2] 2, .rotate, .truncate 1, .put [3] [9] 3] ∧
    Consecutive 1 (appended [.put [1] [] 1, .cut, .del [2] 2, .rotate, .truncate 1, .put [3] [9] 3]) ∧
    maxTrunc [.put [1] [] 1, .cut, .del [2] 2, .rotate, .truncate 1, .put [3] [9] 3] ≤ 1 ∧
    ((Writer.new 0 64).run [.put [1] [] 1, .cut, .del [2] 2, .rotate, .truncate 1, .put [3] [9] 3]).entries
      = [⟨2, [2], true, []⟩, ⟨3, [3], false, [9]⟩] :=
  ⟨by simp [MonoSeqs], by simp [Consecutive, appended], by simp [maxTrunc], by decide⟩

end Rxn.C17
