import RxnModel.Proofs.JobFsm
import RxnModel.Model.RunnerProc
/-!
# C15 — the job runs only on a full, live assembly and checkpointing resumes

Property theorems only. Model: `Model/JobFsm.lean` (the job's serial task queue, registry, liveness, asynchronous
start, checkpoint ticker, the store's pending snapshot, the operators' in-flight checkpoint record), helper lemmas:
`Proofs/JobFsm.lean`. `ReachableAll s` = `s` is the state after SOME action sequence from some initial configuration:
registrations, deregistrations, heartbeat expiries, deployment results, ticks, savepoint requests, acknowledgements,
publications, barriers and events in any order, stale and duplicate messages included, and with ticker callbacks and
savepoint requests also run in their pieces (`.tickA/.tickB/.tickC`, `.spA`) with tasks in between, as the code allows
(neither is a task of the job's queue: finding D57). Theorems are stated over `ReachableAll` unless their name ends in
`_partial`. `ReachableSerial` = the schedules in which every callback/request runs as ONE step; the statements D57
breaks (`tick_interleaving_counterexample`) are proved for those only and carry `_partial` with that exclusion.

"New checkpoints complete again" is a liveness claim. It is proved as safety (`no_stale_inflight`,
`pending_belongs_to_assembly`, `record_within_sources`: nothing of a previous deployment is left that could block a
checkpoint) plus bounded progress (`checkpoint_progress_partial`; the unrestricted statement is false, D56: from such a state the tick and the acknowledgements of the
current assembly publish a new checkpoint). Fair delivery of those messages is an assumption, not a theorem.
-/
namespace Rxn.C15
open Rxn Rxn.JobFsm

/-! ## only full, live assemblies are deployed -/

/-- Every `Deploy` goes to exactly `WorkerCount` distinct operators and `WorkerCount` distinct source runners, which
are the job's assembly, and each of them is registered with an unexpired heartbeat at the end of the task that
decided the deployment. -/
theorem deploy_only_full_live {s : St} (hr : ReachableAll s) (a : Act) (dep : Dep)
    (hd : (step s a).2.dep? = some dep) :
    dep.ops = (step s a).1.asmOps ∧ dep.srs = (step s a).1.asmSrs ∧
    dep.ops.length = s.w ∧ dep.srs.length = s.w ∧ dep.ops.Nodup ∧ dep.srs.Nodup ∧
    (∀ i ∈ dep.ops, i ∈ (step s a).1.ops ∧ alive (step s a).1 i) ∧
    (∀ i ∈ dep.srs, i ∈ (step s a).1.srs ∧ alive (step s a).1 i) ∧
    (step s a).1.status = .starting :=
  step_dep (reachableAll_inv hr).1 a dep hd

/-- a heartbeat counts as expired exactly when it is more than the deadline old (the comparison is regenerated from
`LivenessTracker.Purge` on every run) -/
theorem heartbeat_expiry_exact (d now hb : Nat) : expired d now hb = true ↔ hb + d < now := by
  simp only [expired, Facts.livenessCond, Facts.livenessMinusDeadline]
  simp only [if_true, decide_eq_true_eq]
  omega

/-! ## an unhealthy assembly pauses the job -/

/-- A Running job always has every member of its assembly registered, and its checkpoint ticker is active exactly
while it is Running. -/
theorem running_is_healthy {s : St} (hr : ReachableAll s) :
    (s.status = .running → healthy s = true) ∧ (s.ticker = true ↔ s.status = .running) :=
  ⟨(reachableAll_inv hr).1.runHealthy, (reachableAll_inv hr).1.tickRun⟩

/-- After any task that changes the registry while the job is Running: either every member of the assembly is still
registered (after purging expired heartbeats) and the job keeps Running, or the job is Paused and the ticker stopped. -/
theorem unhealthy_pauses {s : St} (hr : ReachableAll s) (h : s.status = .running) (a : Act) (hm : a.membership = true) :
    ((step s a).1.status = .running ∧ healthy (step s a).1 = true ∧ (step s a).1.ticker = true) ∨
    ((step s a).1.status = .paused ∧ healthy (step s a).1 = false ∧ (step s a).1.ticker = false) :=
  membership_running (reachableAll_inv hr).1 h a hm

/-! ## redeployment starts from the newest published checkpoint -/

/-- Every `Deploy` carries the store's current (newest published) checkpoint, and that is also what the start
goroutine hands to the source splitter when the deployment succeeds. -/
theorem redeploy_from_latest {s : St} (hr : ReachableAll s) (a : Act) (dep : Dep)
    (hd : (step s a).2.dep? = some dep) :
    dep.ck = s.store.current ∧ dep.ck = (step s a).1.store.current ∧ (step s a).1.startCk = dep.ck :=
  step_dep_ck (reachableAll_inv hr).1 a dep hd

/-- While a deployment is in flight the store has no pending snapshot (`RegisterSourceSplitter` abandoned it and the
ticker is stopped). Excluded (D57): schedules in which a ticker callback or savepoint request that read the previous
assembly creates its snapshot after the new deployment was decided. -/
theorem start_uses_latest_partial {s : St} (hr : ReachableSerial s) (h : s.status = .starting) : s.store.pending = none :=
  (reachable_inv hr).startClean (reachableSerial_ser hr) h

/-- Every member of one deployment restores the SAME checkpoint: the id the deciding task read (`dep.ck`, carried by
every operator's Deploy request) is what the source splitter — and through it every source runner — is started from
when the deployment succeeds, whatever happens in between (acknowledgements, a snapshot file being written and
published, ticks, membership changes that do not decide a new deployment). -/
theorem members_restore_same_checkpoint {s : St} (_hr : ReachableAll s) (a : Act) (dep : Dep)
    (hd : (step s a).2.dep? = some dep) (acts : List Act)
    (hq : ∀ o ∈ (run (step s a).1 acts).2, o.dep? = none)
    (hst : (run (step s a).1 acts).1.status = .starting) :
    ∃ st asg sp sr sb, (step (run (step s a).1 acts).1 .deployOk).2 = .started st dep.ck asg sp sr sb := by
  have h1 : (step s a).1.startCk = dep.ck := (step_dep_ck (reachableAll_inv _hr).1 a dep hd).2.2
  have h2 := run_startCk (step s a).1 acts hq
  generalize (run (step s a).1 acts).1 = t at hst h2
  have h3 : t.startCk = dep.ck := h2.trans h1
  simp only [step, hst, ne_eq, not_true_eq_false, if_false, h3]
  exact ⟨_, _, _, _, _, rfl⟩

/-- A completed snapshot whose file has been written is always published: the guard of the model's `publish` action
(`canPublish`: the id has been reached by the counter and lies below a pending snapshot's id) holds for every snapshot
being written in every reachable state, so it never changes what the action does. -/
theorem publish_always_enabled {s : St} (hr : ReachableAll s) (n : Nat) (hn : n ∈ s.store.writing) :
    (∃ l, (step s (.publish n)).2 = .published n (pubCurrent s.store.current n) l) ∧
    ∃ c, (step s (.publish n)).1.store.current = some c ∧ n ≤ c := by
  have hc := canPublish_of_writeOk (reachableAll_inv hr).2 n hn
  simp only [step, hc, if_true]
  obtain ⟨c, h1, h2, _⟩ := pubCurrent_ge s.store.current n
  exact ⟨⟨_, rfl⟩, c, h1, h2⟩

/-- the current checkpoint id never decreases (only the publication of a written snapshot changes it, and a newer one stays) -/
theorem current_monotone {s : St} (hr : ReachableAll s) (a : Act) (c : Nat) (hc : s.store.current = some c) :
    ∃ c', (step s a).1.store.current = some c' ∧ c ≤ c' :=
  step_current_mono s a c hc

/-- A failed start is retried in the same task, without any delay, whenever the registry still holds enough nodes
with unexpired heartbeats — including nodes that halted without deregistering. (This is why a job can issue a burst
of `Deploy` calls to the reachable members of an assembly that contains a dead node: the burst ends when the dead
node's heartbeat expires. Observed by the C01 cluster as "start attempts failing without an injected fault".) -/
theorem failed_start_retries_immediately {s : St} (_hr : ReachableAll s) (h : s.status = .starting) (k : Nat) :
    (step s (.deployFail k)).1.status =
      if (purge s).srs.length < s.w || (purge s).ops.length < s.w then Status.paused else Status.starting :=
  deployFail_status h k

/-! ## nothing of the previous deployment survives a (re)deploy -/

/-- In every schedule: when a deployment succeeds no operator of the assembly has an in-flight checkpoint record, every
one is deployed and expects barriers from exactly the assembly's source runners, and the store is not touched. -/
theorem no_stale_records_after_deploy {s : St} (_hr : ReachableAll s) (h : s.status = .starting) :
    (step s .deployOk).1.store = s.store ∧
    ∀ i ∈ (step s .deployOk).1.asmOps,
      ((step s .deployOk).1.procs i).inflight = none ∧ ((step s .deployOk).1.procs i).deployed = true ∧
      ((step s .deployOk).1.procs i).srcs = (step s .deployOk).1.asmSrs := by
  obtain ⟨a, b, _⟩ := deployOk_frame h
  exact ⟨a, fun i hi => ⟨(b i hi).1, (b i hi).2.1, (b i hi).2.2.1⟩⟩

/-- When a deployment succeeds the store moreover has no pending snapshot, so the stale report printed by the harness
after each deployment (this statement evaluated on the real Job and Operators) is clean. Excluded (D57): schedules with
a ticker callback or savepoint request run in pieces across the decision of the deployment
(`tick_interleaving_counterexample`: there the pending snapshot of the previous assembly survives). -/
theorem no_stale_inflight_partial {s : St} (hr : ReachableSerial s) (h : s.status = .starting) :
    (step s .deployOk).1.store.pending = none ∧
    (∀ i ∈ (step s .deployOk).1.asmOps,
      ((step s .deployOk).1.procs i).inflight = none ∧ ((step s .deployOk).1.procs i).deployed = true ∧
      ((step s .deployOk).1.procs i).srcs = (step s .deployOk).1.asmSrs) ∧
    ∃ st, (step s .deployOk).2 = .started st s.startCk s.asmSrs false []
      (s.asmOps.filter fun i => !(s.procs i).batch.isEmpty) := by
  obtain ⟨a, b, c⟩ := deployOk_clean (reachable_inv hr) (reachableSerial_ser hr) h
  exact ⟨a, fun i hi => ⟨(b i hi).1, (b i hi).2.1, (b i hi).2.2.1⟩, c⟩

/-
"Redeploys every member from the latest completed checkpoint" needs more than the two facts above: no effect of the
previous deployment may survive in a surviving worker. The full statement

    theorem no_stale_effects (hr : ReachableAll s) (h : s.status = .starting) :
        ∀ i ∈ (step s .deployOk).1.asmOps, ((step s .deployOk).1.procs i).batch = []

is FALSE for the code as it is (finding D45, `stale_batch_counterexample`): `HandleDeploy` does not touch the
operator's event batcher, so keyed events that arrived in the previous deployment and were still queued are handed
to the handler on the state restored from the checkpoint (and the source replays them as well). What is proved is
the statement with the exact excluded condition: an operator whose batcher is empty when it is redeployed.
-/

/-- (Since repair D69 events arriving AFTER the redeploy from a runner that is no longer in the assembly are refused —
`foreign_sender_refused`; what remains of D45 is the batch already queued inside the operator, and events of a
surviving runner id's old loop, D39.) `HandleDeploy` leaves the event batcher exactly as it was; in particular an operator that had nothing queued (every
new worker, and a surviving operator whose batch had been flushed) starts the deployment with nothing queued.
Excluded: a surviving operator with queued events at the moment of the redeploy (D45). -/
theorem no_stale_effects_partial {s : St} (_hr : ReachableAll s) (h : s.status = .starting) :
    ∀ i ∈ (step s .deployOk).1.asmOps,
      ((step s .deployOk).1.procs i).batch = (s.procs i).batch ∧
      ((s.procs i).batch = [] → ((step s .deployOk).1.procs i).batch = []) := by
  intro i hi
  have := ((deployOk_frame h).2.1 i hi).2.2.2
  exact ⟨this, fun he => this.trans he⟩

/-- the history of D45: an event of the first deployment is still queued at operator 0 when source runner 3 is
lost; after the redeploy it is processed together with an event of the new deployment -/
def staleBatchTrace : List Act :=
  [.regO 0, .regO 1, .regS 2, .regS 3, .deployOk, .ev 0 2 7, .deregS 3, .regS 4, .deployOk]

theorem stale_batch_counterexample :
    ReachableSerial (run (init 2 5 0 2) staleBatchTrace).1 ∧
    (run (init 2 5 0 2) staleBatchTrace).1.status = .running ∧
    ((run (init 2 5 0 2) staleBatchTrace).1.procs 0).batch = [(7, 1)] ∧
    ((run (init 2 5 0 2) staleBatchTrace).1.procs 0).epoch = 2 ∧
    (step (run (init 2 5 0 2) staleBatchTrace).1 (.ev 0 2 8)).2 = .processed [(7, 1), (8, 2)] 2 :=
  ⟨⟨2, 5, 0, 2, staleBatchTrace, by decide, rfl⟩, by decide, by decide, by decide, by decide⟩

/-- "Surviving workers keep processing", operator side: right after a successful (re)deploy every operator of the
assembly takes the events of every source runner of the assembly — it is ready, does not refuse the sender and does
not park it (whatever was being aligned before is gone). (Source runners: RunnerProc, D39, D48.) -/
theorem operators_accept_events_after_deploy {s : St} (hr : ReachableAll s) (h : s.status = .starting)
    (i sr tag : Nat) (hi : i ∈ (step s .deployOk).1.asmOps) (hsr : sr ∈ (step s .deployOk).1.asmSrs) :
    (step (step s .deployOk).1 (.ev i sr tag)).2 = .evQueued ∨
    ∃ b e, (step (step s .deployOk).1 (.ev i sr tag)).2 = .processed b e := by
  obtain ⟨hin, hdep, hsrc⟩ := (no_stale_records_after_deploy hr h).2 i hi
  generalize (step s .deployOk).1 = s' at hin hdep hsrc hsr
  show (event s' i sr tag).2 = .evQueued ∨ ∃ b e, (event s' i sr tag).2 = .processed b e
  have hc : (s'.procs i).srcs.contains sr = true := by rw [hsrc]; simpa using hsr
  unfold event
  simp only [hdep, hin, hc, parked, Bool.not_true, Bool.false_eq_true, if_false]
  split
  · exact Or.inr ⟨_, _, rfl⟩
  · exact Or.inl rfl

/-- Events and barriers of a sender that is not a source runner of the operator's current deployment — a runner of a
previous assembly that is still running — are refused and change nothing (repair D69). This narrows D45: of the
previous deployment only what was ALREADY inside a surviving operator at its redeploy (its queued event batch, a call
past alignment) survives; nothing a replaced runner's old process sends afterwards gets in. -/
theorem foreign_sender_refused {s : St} (_hr : ReachableAll s) (i sr x : Nat) (hd : (s.procs i).deployed = true)
    (hsr : sr ∉ (s.procs i).srcs) :
    step s (.ev i sr x) = (s, .barRefused) ∧ step s (.bar i sr x) = (s, .barRefused) := by
  constructor
  · show event s i sr x = _
    unfold event; simp [hd]
    intro hh; exact absurd hh hsr
  · show barrier s i sr x = _
    unfold barrier; simp [hd]
    intro hh; exact absurd hh hsr

/-- A pending snapshot waits for the members of the job's current assembly. Excluded (D57): schedules with a ticker
callback or savepoint request run in pieces (`tick_interleaving_counterexample`: pending for [0,1] on assembly [0,4]).
In every schedule its id is the counter's (`pending_id_is_counter`). -/
theorem pending_belongs_to_assembly_partial {s : St} (hr : ReachableSerial s) (p : Pending)
    (hp : s.store.pending = some p) : p.expOps = s.asmOps ∧ p.expSrs = s.asmSrs :=
  (reachable_inv hr).pendAsm (reachableSerial_ser hr) p hp

theorem pending_id_is_counter {s : St} (hr : ReachableAll s) (p : Pending) (hp : s.store.pending = some p) :
    p.id = s.store.counter ∧ ∀ c, s.store.current = some c → c < p.id :=
  (reachableAll_inv hr).1.pendId p hp

/-- an operator's in-flight record only waits for source runners of its current deployment -/
theorem record_within_sources {s : St} (hr : ReachableAll s) (i rid : Nat) (waiting : List Nat)
    (h : (s.procs i).inflight = some (rid, waiting)) : ∀ x ∈ waiting, x ∈ (s.procs i).srcs :=
  (reachableAll_inv hr).1.recSrc i rid waiting h

/-! ## checkpointing resumes (bounded progress) -/

/-
"After such a recovery new checkpoints complete again" as bounded progress would be

    theorem checkpoint_progress (hr : ReachableAll s) (hrun : s.status = .running) (hp : s.store.pending = none) (hw : 0 < s.w) :
        (run s (progressActs s)).1.store.current = some (s.store.counter + 1)

That is FALSE for the code as it is (finding D56, `checkpoint_progress_counterexample`): `handleCheckpointBarrier`
creates the alignment record from the first barrier it sees, whatever its id, and clears it only after an accepted
acknowledgement. One barrier that is not the job's pending checkpoint (a runner loop of the previous deployment still
running — D39/D48 —, a late delivery) leaves a record that every later barrier mismatches (and behind which its sender
parks); nothing but the next redeploy removes it. `no_stale_records_after_deploy` gives the hypothesis `hrec` below only at the
instant of the deploy; it is NOT stable under the stale messages the schedules allow, and a stale barrier arriving in the middle of the round is not in this theorem's quantifier either (the round is the fixed sequence `progressActs`). What is proved is the statement
with the exact excluded condition: no operator of the assembly holds an alignment record when the round starts.
-/

/-- From any reachable Running state with no pending snapshot and — excluded condition, see above — no in-flight
record at the assembly's operators, one round of the current assembly — the tick, the acknowledgement of every source
runner, every source runner's barrier at every operator — publishes checkpoint `counter + 1`, and the job is again in
such a state. -/
theorem checkpoint_progress_partial {s : St} (hr : ReachableAll s) (hrun : s.status = .running) (hp : s.store.pending = none)
    (hrec : ∀ i ∈ s.asmOps, (s.procs i).inflight = none) (hw : 0 < s.w) :
    (run s (progressActs s)).1.store.current = some (s.store.counter + 1) ∧
    (run s (progressActs s)).1.store.pending = none ∧
    (run s (progressActs s)).1.status = .running ∧ (run s (progressActs s)).1.ticker = true ∧
    (∀ i ∈ s.asmOps, ((run s (progressActs s)).1.procs i).inflight = none) :=
  progress (reachableAll_inv hr).1 hrun hp hrec hw

/-- "After such a recovery new checkpoints complete again", one named statement: from ANY state reached by a schedule
with serial ticker callbacks (whatever failures, stale messages, half-aligned checkpoints and pending snapshots came
before) in which a deployment is in flight, if the deployment succeeds and the job is Running afterwards, the next
round of the new assembly — tick, every runner's acknowledgement, every barrier, the file write — publishes checkpoint
`counter + 1`. Exclusions, exactly: D57 (the callback/savepoint pieces interleaved with the decision of the deployment,
which can leave a pending snapshot: `ReachableSerial`) and D56/D48 (a message that is not the pending checkpoint
arriving DURING the round: the round is the uninterrupted `progressActs`). -/
theorem recovery_then_progress_partial {s : St} (hr : ReachableSerial s) (h : s.status = .starting)
    (hrun : (step s .deployOk).1.status = .running) (hw : 0 < s.w) :
    (run (step s .deployOk).1 (progressActs (step s .deployOk).1)).1.store.current = some ((step s .deployOk).1.store.counter + 1) ∧
    (run (step s .deployOk).1 (progressActs (step s .deployOk).1)).1.store.pending = none ∧
    (run (step s .deployOk).1 (progressActs (step s .deployOk).1)).1.status = .running := by
  obtain ⟨hp, hrec, _⟩ := no_stale_inflight_partial hr h
  have hr' : ReachableAll (step s .deployOk).1 := by
    obtain ⟨w, d, c0, bmax, acts, e⟩ := reachableAll_of_serial hr
    exact ⟨w, d, c0, bmax, acts ++ [.deployOk], by rw [run_fst_append, ← e]; rfl⟩
  have hw' : 0 < (step s .deployOk).1.w := by
    have : (step s .deployOk).1.w = s.w := by
      simp only [step, h, ne_eq, not_true_eq_false, if_false]
      unfold evaluate
      rw [evalStatus_running (s := purge { s with procs := deployProcs s none, status := .running, ticker := true }) rfl]
      split <;> rfl
    omega
  obtain ⟨a, b, c, _, _⟩ := checkpoint_progress_partial hr' hrun hp (fun i hi => (hrec i hi).1) hw'
  exact ⟨a, b, c⟩

/-- the history of D56: right after a deployment one barrier of an older checkpoint (id 7) reaches operator 0 -/
def wedgeTrace : List Act := [.regO 0, .regS 1, .deployOk, .bar 0 1 7]

/-- D56: in a reachable Running state with no pending snapshot a stale barrier has left a completed, refused record
at the assembly's operator; the round of the current assembly publishes nothing, the next tick answers `retry`, and a
second delivery of the whole round changes nothing: checkpointing does not resume. -/
theorem checkpoint_progress_counterexample :
    ReachableSerial (run (init 1 5 0) wedgeTrace).1 ∧
    (run (init 1 5 0) wedgeTrace).1.status = .running ∧ (run (init 1 5 0) wedgeTrace).1.store.pending = none ∧
    ((run (init 1 5 0) wedgeTrace).1.procs 0).inflight = some (7, []) ∧
    (run (run (init 1 5 0) wedgeTrace).1 (progressActs (run (init 1 5 0) wedgeTrace).1)).1.store.current = none ∧
    (run (init 1 5 0) (wedgeTrace ++ [.tick, .ackS 1 1, .bar 0 1 1, .tick, .bar 0 1 1])).2.drop 4 =
      [.ckpt 1 [1], .ack (.ok none), .barMismatch, .retry, .barMismatch] ∧
    ((run (init 1 5 0) (wedgeTrace ++ [.tick, .ackS 1 1, .bar 0 1 1, .tick, .bar 0 1 1])).1.procs 0).inflight = some (7, []) :=
  ⟨⟨1, 5, 0, 3, wedgeTrace, by decide, rfl⟩, by decide, by decide, by decide, by decide, by decide, by decide⟩

/-! ## the ticker callback is not a task (finding D57) -/

/-- `.tick` is the ticker callback run without interruption: its three pieces back to back give the same state (up to
the ghost flag that records that pieces were used) -/
theorem tick_is_uninterrupted_callback (s : St) (h : s.tk = none) :
    { (run s [.tickA, .tickB, .tickC]).1 with ser := s.ser } = (step s .tick).1 :=
  tick_split s h

/-- the history of D57: operator 1 deregisters and operator 4 takes its place while a ticker callback is between
reading `j.assembly` and `CreateCheckpoint` -/
def tickRaceTrace : List Act :=
  [.regO 0, .regO 1, .regS 2, .regS 3, .deployOk, .tickA, .deregO 1, .regO 4, .tickB, .tickC, .deployOk]

/-- D57: the `_partial` theorems about the pending snapshot are about schedules in which a ticker callback runs as one step (`ReachableSerial`). The code
does not enforce that: the callback runs on the clock's goroutine and reads `j.assembly` three times without
synchronisation. If a pause and a new assembly fall inside it, the job ends up Running on assembly {0,4} with a pending
snapshot that waits for operator 1 of the PREVIOUS assembly — created after the new deployment's
`RegisterSourceSplitter` cleared the store — so `pending_belongs_to_assembly_partial`, `start_uses_latest_partial` and the first clause of `no_stale_inflight_partial` fail without the exclusion, every
later tick answers `retry`, and no checkpoint completes until the next redeploy. -/
theorem tick_interleaving_counterexample :
    ReachableAll (run (init 2 5 0) tickRaceTrace).1 ∧
    (run (init 2 5 0) tickRaceTrace).1.status = .running ∧
    (run (init 2 5 0) tickRaceTrace).1.asmOps = [0, 4] ∧
    (run (init 2 5 0) tickRaceTrace).1.store.pending =
      some { id := 1, expOps := [0, 1], expSrs := [2, 3], waitOps := [0, 1], waitSrs := [2, 3] } ∧
    (step (run (init 2 5 0) tickRaceTrace).1 .tick).2 = .retry ∧
    (run (run (init 2 5 0) tickRaceTrace).1
      [.ackS 2 1, .ackS 3 1, .bar 0 2 1, .bar 0 3 1, .bar 4 2 1, .bar 4 3 1, .tick]).1.store.current = none :=
  ⟨⟨2, 5, 0, 3, tickRaceTrace, rfl⟩, by decide, by decide, by decide, by decide, by decide⟩

/-- D57 family: `HandleCreateSavepoint` has the same shape as the ticker callback and runs on an RPC goroutine. Its
status check passes, operator 1 is lost and replaced, then it creates a savepoint snapshot for the previous assembly:
the job runs on {0,4} with a pending snapshot waiting for operator 1 (ticks answer retry), exactly as in
`tick_interleaving_counterexample`. As one step (`.savepoint`, serial schedules) it preserves every invariant
(it is a serial action). -/
theorem savepoint_interleaving_counterexample :
    ReachableAll (run (init 2 5 0) [.regO 0, .regO 1, .regS 2, .regS 3, .deployOk, .spA, .deregO 1, .regO 4, .tickB, .tickC, .deployOk]).1 ∧
    (run (init 2 5 0) [.regO 0, .regO 1, .regS 2, .regS 3, .deployOk, .spA, .deregO 1, .regO 4, .tickB, .tickC, .deployOk]).1.status = .running ∧
    (run (init 2 5 0) [.regO 0, .regO 1, .regS 2, .regS 3, .deployOk, .spA, .deregO 1, .regO 4, .tickB, .tickC, .deployOk]).1.asmOps = [0, 4] ∧
    (run (init 2 5 0) [.regO 0, .regO 1, .regS 2, .regS 3, .deployOk, .spA, .deregO 1, .regO 4, .tickB, .tickC, .deployOk]).1.store.pending =
      some { id := 1, expOps := [0, 1], expSrs := [2, 3], waitOps := [0, 1], waitSrs := [2, 3], sp := true } ∧
    (step (run (init 2 5 0) [.regO 0, .regO 1, .regS 2, .regS 3, .deployOk, .spA, .deregO 1, .regO 4, .tickB, .tickC, .deployOk]).1 .tick).2 = .retry :=
  ⟨⟨2, 5, 0, 3, _, rfl⟩, by decide, by decide, by decide, by decide⟩

/-! ## members that stop answering RPCs (finding D71) -/

/-- All theorems above are about `step`: the job when every RPC to a member returns. `stepQ` adds the one place where
the code lets an unanswered RPC block the job's serial queue. While no member is unresponsive the two coincide. -/
theorem stepQ_is_step (q : QSt) (a : Act) (h1 : q.stuck = false) (h2 : q.hungS = []) (h3 : q.hungO = [])
    (h4 : q.retainStuck = false) :
    (stepQ q a).1.s = (step q.s a).1 ∧ (stepQ q a).2 = (step q.s a).2 ∧ (stepQ q a).1.stuck = false ∧
    (stepQ q a).1.retainStuck = false := by
  cases a <;> simp [stepQ, h1, h2, h3, h4]
  case publish n =>
    generalize step q.s (.publish n) = r
    obtain ⟨s', o⟩ := r
    cases o <;> simp

/-- An operator that stops answering `UpdateRetainedCheckpoints` does not stop the job: the call is made by the
retained-ids goroutine, not by a task. Every membership task is processed exactly as by `step`. -/
theorem unresponsive_operator_does_not_block_membership (q : QSt) (a : Act) (hm : a.membership = true)
    (h1 : q.stuck = false) : (stepQ q a).1.s = (step q.s a).1 ∧ (stepQ q a).2 = (step q.s a).2 := by
  cases a <;> simp_all [stepQ, Act.membership]

/-- D71: source runner 1 stops answering right after its `Deploy` returned. `start()` posts `AssignSplits` as a task of
the serial queue and that task waits for every runner, so the queue never comes back: the deregistration of runner 1
and the heartbeat expiry are not processed, the job neither pauses nor redeploys, its state stays what it was. -/
theorem unresponsive_runner_wedges_queue_counterexample :
    (runQ (hang { s := (run (init 1 5 0) [.regO 0, .regS 1]).1 } false 1) [.deployOk, .deregS 1, .adv 6, .regO 0, .regS 2]).2 =
      [.queueStuck, .queueStuck, .done, .queueStuck, .queueStuck] ∧
    (runQ (hang { s := (run (init 1 5 0) [.regO 0, .regS 1]).1 } false 1) [.deployOk, .deregS 1, .adv 6, .regO 0, .regS 2]).1.s.status = .starting ∧
    (runQ (hang { s := (run (init 1 5 0) [.regO 0, .regS 1]).1 } false 1) [.deployOk, .deregS 1, .adv 6, .regO 0, .regS 2]).1.s.asmSrs = [1] ∧
    (runQ (hang { s := (run (init 1 5 0) [.regO 0, .regS 1]).1 } false 1) [.deployOk, .deregS 1, .adv 6, .regO 0, .regS 2]).1.s.srs = [1] := by
  decide

/-! ## the source runner side (finding D48) -/

/-- D48: the runner's only free loop is inside a slow source read when checkpoint 1 is requested, so the request stays
queued; the job abandons checkpoint 1 and redeploys the runner (its next checkpoint is 2). The loop of the NEW
deployment takes the stale request, the job refuses the acknowledgement, that loop ends, and the runner — deployed,
registered, heartbeating — has no loop left: the request for checkpoint 2 stays queued for ever. -/
theorem runner_dies_on_stale_request_counterexample :
    (RunnerProc.run {} [.deploy, .hold, .pend 1, .start 1, .pend 2, .deploy, .start 2]).2 =
      [.deployed none, .held, .ok, .queued, .ok, .deployed (some (1, false)), .queued] ∧
    (RunnerProc.run {} [.deploy, .hold, .pend 1, .start 1, .pend 2, .deploy, .start 2]).1.free = 0 ∧
    (RunnerProc.run {} [.deploy, .hold, .pend 1, .start 1, .pend 2, .deploy, .start 2]).1.diedStale = true := by
  decide

/-- What holds for the code as it is (excluded: a request queued when `HandleDeploy` arrives): a runner redeployed with
an empty request queue has a free loop and acknowledges the request for the job's pending checkpoint. -/
theorem runner_acks_after_redeploy_partial (s : RunnerProc.St) (hq : s.queue = none) (id : Nat) :
    (RunnerProc.step (RunnerProc.step (RunnerProc.step s .deploy).1 (.pend id)).1 (.start id)).2 = .acked id := by
  simp [RunnerProc.step, RunnerProc.take, hq]

/-- What the job model assumes of a source runner, and what RunnerProc gives. In `progressActs` (and in every serial
history that publishes) the job model needs of each assembly runner exactly one thing per checkpoint: after the tick's
`StartCheckpoint id` it sends `ackS runner id` for the pending `id` (its barriers follow). RunnerProc guarantees it
whenever the runner has a loop able to take the request and nothing is queued (`free > 0`, `queue = none`): the request
for the job's pending id is acknowledged at once, with that id, and the runner is again in such a state — so the
guarantee holds round after round, across redeploys that find the queue empty. The only ways out of that state are a
loop stuck in a source read (`hold`: the runner is slow, not wrong) and D48's situation (a request queued at
`HandleDeploy`), which `runner_dies_on_stale_request_counterexample` shows does break the job model's assumption. The
two models are not composed into one transition system: this lemma is the interface between them. -/
theorem runner_interface (r : RunnerProc.St) (hf : 0 < r.free) (hq : r.queue = none) (id : Nat) :
    (RunnerProc.step (RunnerProc.step r (.pend id)).1 (.start id)).2 = .acked id ∧
    0 < (RunnerProc.step (RunnerProc.step r (.pend id)).1 (.start id)).1.free ∧
    (RunnerProc.step (RunnerProc.step r (.pend id)).1 (.start id)).1.queue = none ∧
    0 < (RunnerProc.step (RunnerProc.step (RunnerProc.step r (.pend id)).1 (.start id)).1 .deploy).1.free ∧
    (RunnerProc.step (RunnerProc.step (RunnerProc.step r (.pend id)).1 (.start id)).1 .deploy).1.queue = none := by
  have hne : r.free ≠ 0 := by omega
  simp [RunnerProc.step, RunnerProc.take, hq, hne]
  omega

/-! ## non-vacuity -/

/-- the D15 history: source runner 3 is lost while checkpoint 1 is pending in the store and half aligned at
operator 0; source runner 4 replaces it -/
def witness : List Act :=
  [.regO 0, .regO 1, .regS 2, .regS 3, .deployOk, .tick, .ackS 2 1, .bar 0 2 1, .deregS 3, .regS 4]

/-- a deployment is decided by the last registration (`deploy_only_full_live`, `redeploy_from_latest` are not vacuous) -/
example : (step (run (init 2 5 0) [.regO 0, .regO 1, .regS 2]).1 (.regS 3)).2.dep? = some ⟨[0, 1], [2, 3], none⟩ := by
  decide

/-- losing a member of the Running assembly pauses the job and stops the ticker (`unhealthy_pauses`) -/
example : (run (init 2 5 0) [.regO 0, .regO 1, .regS 2, .regS 3, .deployOk]).1.status = .running ∧
    (run (init 2 5 0) [.regO 0, .regO 1, .regS 2, .regS 3, .deployOk, .deregS 3]).1.status = .paused ∧
    (run (init 2 5 0) [.regO 0, .regO 1, .regS 2, .regS 3, .deployOk, .deregS 3]).1.ticker = false := by decide

/-- heartbeat expiry does the same at the next registration -/
example : (run (init 1 5 0) [.regO 0, .regS 1, .deployOk, .adv 6, .regO 0]).1.status = .paused := by decide

/-- before the redeploy of the witness succeeds, the operator still holds the record of the abandoned checkpoint:
the hypothesis of `no_stale_inflight` is met in a state where there is something to clear -/
example : (run (init 2 5 0) witness).1.status = .starting ∧
    ((run (init 2 5 0) witness).1.procs 0).inflight = some (1, [3]) := by decide

/-- a redeploy after a published checkpoint carries that checkpoint -/
example : (step (run (init 1 5 0) [.regO 0, .regS 1, .deployOk, .tick, .ackS 1 1, .bar 0 1 1, .publish 1, .deregS 1]).1 (.regS 2)).2.dep?
    = some ⟨[0], [2], some 1⟩ := by decide

/-- a snapshot completed just before the loss of runner 1 is published while the new deployment is in flight: the
deployment was decided with checkpoint `none` and the splitter is started from `none` too (`members_restore_same_checkpoint`
with a non-trivial middle part), although the store's current checkpoint is 1 by then -/
example : (step (run (init 1 5 0) [.regO 0, .regS 1, .deployOk, .tick, .ackS 1 1, .bar 0 1 1, .deregS 1]).1 (.regS 2)).2.dep?
      = some ⟨[0], [2], none⟩ ∧
    (run (init 1 5 0) [.regO 0, .regS 1, .deployOk, .tick, .ackS 1 1, .bar 0 1 1, .deregS 1, .regS 2, .publish 1]).1.store.current
      = some 1 ∧
    (run (init 1 5 0) [.regO 0, .regS 1, .deployOk, .tick, .ackS 1 1, .bar 0 1 1, .deregS 1, .regS 2, .publish 1, .deployOk]).2.getLast?
      = some (.started .running none [2] false [] []) := by decide

/-- the hypotheses of `checkpoint_progress` hold after the recovery of the witness, and the round publishes
checkpoint 2 -/
example : (run (init 2 5 0) (witness ++ [.deployOk])).1.status = .running ∧
    (run (init 2 5 0) (witness ++ [.deployOk])).1.store.pending = none ∧
    (run (init 2 5 0) (witness ++ [.deployOk])).1.asmSrs = [2, 4] ∧
    (run (run (init 2 5 0) (witness ++ [.deployOk])).1
      (progressActs (run (init 2 5 0) (witness ++ [.deployOk])).1)).1.store.current = some 2 := by decide

end Rxn.C15
