import RxnModel.Proofs.TimersRun
import RxnModel.Proofs.TimersOpRefine
import RxnModel.Proofs.TimersCompose
import RxnModel.Proofs.TimersPartial
/-!
# C10 — event-time timers fire exactly once, in order, and survive recovery

Property theorems only. Model: `Model/Timers.lean` — `SortedCache`, `KeyGroupPriorityQueue` (line by line, with the
eviction and reload loops, after the D11 repair), `TimerStore`, `TimerRegistry`, and the set-based specification `Spec`.
The cache size is a free parameter everywhere (`maxCache : Nat`, including 0 and sizes smaller than one timer); the
heap's peeks at arbitrary partitions are the free action `ROp.touch`. The DKV is a sorted set of keys (C07/C08) and
the partition heap is represented by its specification (C19). Timestamps are those an `int64` of nanoseconds since the
epoch can hold (`0 ≤ t < 2^63`: `PutTimeBytes` encodes `uint64(UnixNano)`).
-/
namespace Rxn.C10
open Rxn Rxn.Timers

/-- every operation of a key group's queue keeps "the cache is a prefix of the key group's keys in DB order, all of them
if `allDataInCache`, byte accounting exact" — for every cache size -/
theorem kgpq_inv (q : KGPQ) (db : DB) (k : Bytes) (h : Inv q db) (hdb : Sorted db) :
    Inv (q.load db) db ∧
    (Bytes.hasPrefix k q.pfx = true → Inv (q.push db k).1 (q.push db k).2 ∧ (q.push db k).2 = sinsert k db) ∧
    (Inv (q.delete db k).1 (q.delete db k).2 ∧ (q.delete db k).2 = db.erase k) :=
  ⟨(KGPQ.load_spec q db h hdb).1,
   fun hk => ⟨(KGPQ.push_spec q db k h hdb hk).1, (KGPQ.push_spec q db k h hdb hk).2.1⟩,
   ⟨(KGPQ.delete_spec q db k h hdb).1, (KGPQ.delete_spec q db k h hdb).2.1⟩⟩

/-- `Peek` of a key group's queue is the least timer key of the key group that is in the DB, for every cache size -/
theorem kgpq_peek_min (q : KGPQ) (db : DB) (h : Inv q db) (hdb : Sorted db) :
    q.peekView db = (db.scan q.pfx).head? := KGPQ.peekView_eq q db h hdb

/-- `GetEarliest` is none iff no owned timer is stored; otherwise it is a stored timer with the least timestamp bytes -/
theorem store_earliest_min (s : Store) (hs : SInv s) :
    (s.earliest = none → s.timerKeys = []) ∧
    ∀ k, s.earliest = some k → k ∈ s.timerKeys ∧ ∀ k' ∈ s.timerKeys, leTs k k' := earliest_spec s hs

/-- FULL STATEMENT (false of the code, see `preepoch_counterexample`, finding D51): the same without the `0 ≤ t` part
of `ROp.valid`, i.e. for timers at any timestamp an `int64` of nanoseconds can hold.
PROVED (`_partial`): with `ROp.valid`: subject keys of the store's own key groups; `0 ≤ t` (timers not before 1970: the
exclusion of D51); and `t < 2^63`, an input restriction of Go itself — `time.Time.UnixNano`: "The result is undefined if the
Unix time in nanoseconds cannot be represented by an int64 (a date before the year 1678 or after 2262)" — so timers the
codec cannot represent are outside the property (on the code they wrap around; never generated, never labelled D51);
the registry refines the timer-set specification for every history: for every cache size, every key-group range,
every sequence of registrations (repeated or not), watermark advances from any runners and heap peeks, each advance
fires exactly the timers the specification fires (each once: `Perm` of duplicate-free lists), in non-decreasing timestamp
order; afterwards the stored timers are exactly the specification's pending set -/
theorem registry_refines_spec_partial (kgc start stop maxCache : Nat) (ids : List String) (hss : start ≤ stop)
    (hstop : stop ≤ 65536) (ops : List ROp) (hv : ∀ op ∈ ops, op.valid kgc start stop) :
    OutputsAgree ((Registry.new (Store.new [] kgc start stop maxCache) ids).run ops).2 ((Spec.new ids).run ops).2 ∧
    Rel ((Registry.new (Store.new [] kgc start stop maxCache) ids).run ops).1 ((Spec.new ids).run ops).1 := by
  have h := run_refines ops _ _ kgc start stop (rel_init kgc start stop maxCache ids hss hstop)
    (shape_new [] kgc start stop maxCache hss) hv
  exact ⟨h.2.2, h.1⟩

/-- full for every `int64` timer timestamp (before 1970 too) on histories whose reported watermarks are not before 1970
— so D51 needs a watermark before 1970 (a job working through pre-1970 data): with watermarks ≥ 0 the composite stays at or
after the epoch, `SetTimer` ignores every timer before it exactly as the specification does, and the registry refines the
specification as in `registry_refines_spec_partial` -/
theorem registry_refines_spec_nonneg_watermarks (kgc start stop maxCache : Nat) (ids : List String) (hss : start ≤ stop)
    (hstop : stop ≤ 65536) (ops : List ROp) (hv : ∀ op ∈ ops, op.validNN kgc start stop) :
    OutputsAgree ((Registry.new (Store.new [] kgc start stop maxCache) ids).run ops).2 ((Spec.new ids).run ops).2 ∧
    Rel ((Registry.new (Store.new [] kgc start stop maxCache) ids).run ops).1 ((Spec.new ids).run ops).1 := by
  have h := run_refines_nn ops _ _ kgc start stop (rel_init kgc start stop maxCache ids hss hstop)
    (shape_new [] kgc start stop maxCache hss) (nonNeg_new _ ids) hv
  exact ⟨h.2, h.1⟩

/-- the specification itself: a timer is pending from its registration (if later than the watermark) until the first
advance whose composite watermark reaches it, when it fires — once — and registering it again changes nothing -/
theorem spec_fires_exactly_once (sp : Spec) (key : Bytes) (t : Int) (sender : String) (wm : Int) :
    (sp.setTimer key t).setTimer key t = sp.setTimer key t ∧
    (∀ p, p ∈ (sp.advance sender wm).2 ↔ (p ∈ sp.pending ∧ p.2 ≤ (sp.advance sender wm).1.wm)) ∧
    (∀ p, p ∈ (sp.advance sender wm).1.pending ↔ (p ∈ sp.pending ∧ p.2 > (sp.advance sender wm).1.wm)) := by
  refine ⟨?_, ?_, ?_⟩
  · unfold Spec.setTimer
    by_cases h : t > sp.wm ∧ (key, t) ∉ sp.pending
    · simp [h]
    · simp [h]
  · intro p; simp [Spec.advance, List.mem_filter]
  · intro p; simp [Spec.advance, List.mem_filter]

/-- registering the same timer again does not duplicate it in the implementation either -/
theorem set_idempotent (r : Registry) (sp : Spec) (kgc start stop : Nat) (h : Rel r sp)
    (hsh : Shape r.store kgc start stop) (key : Bytes) (t : Int) (hv : (ROp.set key t).valid kgc start stop) :
    Rel ((r.setTimer key t).setTimer key t) (sp.setTimer key t) := by
  have s1 := step_refines r sp kgc start stop h hsh (.set key t) hv
  have s2 := step_refines _ _ kgc start stop s1.1 s1.2.1 (.set key t) hv
  have := s2.1
  simp only [Registry.step, Spec.step] at this
  rw [(spec_fires_exactly_once sp key t "" 0).1] at this
  exact this

/-- (`_partial`: same exclusion as `registry_refines_spec_partial`, timers not before 1970 — D51.)
recovery: a registry rebuilt with fresh caches of any size over the DB content at a checkpoint (C08: restore gives the
DB at the Checkpoint call) has exactly the timers pending at the checkpoint — a pending timer is still pending, a timer
that fired before the checkpoint (it is deleted from the DB before it is handed out) is not — and from there on it
refines the specification again -/
theorem restore_pending_partial (kgc start stop maxCache maxCache' : Nat) (ids ids' : List String) (hss : start ≤ stop)
    (hstop : stop ≤ 65536) (before after : List ROp)
    (hv1 : ∀ op ∈ before, op.valid kgc start stop) (hv2 : ∀ op ∈ after, op.valid kgc start stop) :
    let atCkpt := ((Registry.new (Store.new [] kgc start stop maxCache) ids).run before).1
    let specCkpt := ((Spec.new ids).run before).1
    let restored := Registry.new (Store.new atCkpt.store.db kgc start stop maxCache') ids'
    let specRestored : Spec := ⟨specCkpt.pending, Wm.Ups.init ids', Wm.regInit⟩
    Rel restored specRestored ∧
    OutputsAgree (restored.run after).2 (specRestored.run after).2 ∧
    Rel (restored.run after).1 (specRestored.run after).1 := by
  intro atCkpt specCkpt restored specRestored
  have h1 := run_refines before _ _ kgc start stop (rel_init kgc start stop maxCache ids hss hstop)
    (shape_new [] kgc start stop maxCache hss) hv1
  have hr : Rel restored specRestored := restore_rel atCkpt specCkpt kgc start stop h1.1 h1.2.1 hstop maxCache' ids'
  have h2 := run_refines after restored specRestored kgc start stop hr
    (shape_new _ kgc start stop maxCache' hss) hv2
  exact ⟨hr, h2.2.2, h2.1⟩

/-- (`_partial`: timers not before 1970 — D51.) recovery into a different key-group range (rescale): a registry rebuilt
with fresh caches of any size over the DB content at a checkpoint, for any sub-range `[start', stop')` of the old range,
has exactly the pending timers whose key group lies in the new range, and refines the specification from there on -/
theorem restore_pending_subrange_partial (kgc start stop start' stop' maxCache maxCache' : Nat) (ids ids' : List String)
    (hk0 : 0 < kgc) (hk1 : kgc ≤ 65536) (hss : start ≤ stop) (hstop : stop ≤ 65536)
    (hs1 : start ≤ start') (hs2 : start' ≤ stop') (hs3 : stop' ≤ stop) (before after : List ROp)
    (hv1 : ∀ op ∈ before, op.valid kgc start stop) (hv2 : ∀ op ∈ after, op.valid kgc start' stop') :
    let atCkpt := ((Registry.new (Store.new [] kgc start stop maxCache) ids).run before).1
    let specCkpt := ((Spec.new ids).run before).1
    let restored := Registry.new (Store.new atCkpt.store.db kgc start' stop' maxCache') ids'
    let specRestored : Spec :=
      ⟨specCkpt.pending.filter (fun p => decide (start' ≤ KeySpace.keyGroup kgc p.1) && decide (KeySpace.keyGroup kgc p.1 < stop')),
       Wm.Ups.init ids', Wm.regInit⟩
    Rel restored specRestored ∧
    OutputsAgree (restored.run after).2 (specRestored.run after).2 ∧
    Rel (restored.run after).1 (specRestored.run after).1 := by
  intro atCkpt specCkpt restored specRestored
  have h1 := run_refines before _ _ kgc start stop (rel_init kgc start stop maxCache ids hss hstop)
    (shape_new [] kgc start stop maxCache hss) hv1
  have hr : Rel restored specRestored :=
    restore_rel_subrange atCkpt specCkpt kgc start stop start' stop' h1.1 h1.2.1 hk0 hk1 hstop hs1 hs2 hs3 maxCache' ids'
  have h2 := run_refines after restored specRestored kgc start' stop' hr
    (shape_new _ kgc start' stop' maxCache' hs2) hv2
  exact ⟨hr, h2.2.2, h2.1⟩

/-- (`_partial`: timers `0 ≤ t` — D51 — of owned keys.) the operator's loop over `AdvanceWatermark` — `handleWatermark`, where
full batches are handed to the handler **between two firings** and the handler's new timers go through `SetTimer` while the
iterator is still being consumed — refines the specification: for every operator state related to a specification state,
every batch size and batch content, every cache size, the `TimerExpired` events the step adds (to the requests it sends and
to the batch it leaves) are exactly the timers pending at or before the new composite watermark, each once (`Perm` of a
duplicate-free list), in non-decreasing timestamp order; a timer the handler registers during the step is judged against
the new composite (at or before it: ignored, as by `SetTimer`; later: pending afterwards, it does not fire in this step);
afterwards nothing at or before the composite is pending and every timer pending before and later than it still is. -/
theorem op_refines_spec_partial (o : Op) (sp : Spec) (kgc start stop : Nat) (h : Rel o.reg sp)
    (hsh : Shape o.reg.store kgc start stop) (hv : ∀ x ∈ o.batch, x.valid kgc start stop) (sender : String) (v : Int) :
    (∃ fired : List (Bytes × Int),
      allEvents (o.watermark sender v).2 (o.watermark sender v).1 = o.batch ++ fired.map (fun p => HEv.expired p.1 p.2) ∧
      fired.Perm (sp.advance sender v).2 ∧ fired.Pairwise (fun a b => a.2 ≤ b.2) ∧ fired.Nodup) ∧
    (∃ sp', Rel (o.watermark sender v).1.reg sp' ∧ sp'.wm = (sp.advance sender v).1.wm ∧
      (∀ p ∈ sp'.pending, p.2 > sp'.wm) ∧ (∀ p ∈ (sp.advance sender v).1.pending, p ∈ sp'.pending)) ∧
    Shape (o.watermark sender v).1.reg.store kgc start stop ∧
    (∀ x ∈ (o.watermark sender v).1.batch, x.valid kgc start stop) := by
  have r := opWatermark_refines o sp kgc start stop h hsh hv sender v
  obtain ⟨fired, f1, f2, f3⟩ := r.out
  obtain ⟨sp', s1, s2, s3, s4⟩ := r.rel
  refine ⟨⟨fired, f1, f2, f3, ?_⟩, ⟨sp', s1, s2, ?_, ?_⟩, r.shape, r.valid⟩
  · exact (f2.nodup_iff).mpr (nodup_filter _ _ h.nodup)
  · intro p hp
    have : p ∉ dueOf sp' (sp.ups.report sender v).2 := by rw [s3]; exact List.not_mem_nil
    rw [s2]
    by_cases hle : p.2 ≤ (sp.ups.report sender v).2
    · exact absurd (List.mem_filter.mpr ⟨hp, by simpa using hle⟩) this
    · omega
  · intro p hp
    have hp' := List.mem_filter.mp hp
    exact s4 p hp'.1 (by simpa using hp'.2)

/-- composition with C07 (the DKV is no longer an assumption): in every state of the LSM reachable by any history of
puts, deletes, memtable rotations, flush begins/commits, compaction commits and reads, the key set `dbOf s` (what the
code's `ScanPrefix` returns for the empty prefix) is a `Timers.DB` — strictly ascending —, the code's `ScanPrefix(p)`
over the tables `AllTablesForPrefix` selects returns exactly `DB.scan (dbOf s) p` (what `loadFromDB` iterates), a `Put`
acts on it as `DB.put`, a `Delete` as `DB.delete`, and every other action leaves it unchanged. So the timer model's
DKV is the image of the proven LSM model under `dbOf`. (Uses `C07.scan_code_returns_live_keys`, `C07.spec_last_write_wins`.) -/
theorem dkv_is_timer_db (as : List Lsm.Act) (s : Lsm.State) (m : Lsm.Spec) (h : Lsm.runBoth {} [] as = some (s, m)) :
    Sorted (dbOf s) ∧
    (∀ p, (Rescale.scanR s p).map (·.key) = DB.scan (dbOf s) p) ∧
    (∀ k v s', Lsm.step s (.put k v) = some s' → dbOf s' = DB.put (dbOf s) k) ∧
    (∀ k s', Lsm.step s (.del k) = some s' → dbOf s' = DB.delete (dbOf s) k) ∧
    (∀ a s', Lsm.specStep m s.seq a = m → Lsm.step s a = some s' → dbOf s' = dbOf s) :=
  ⟨dbOf_sorted as s m h, scan_bridge as s m h, fun k v s' hs => put_bridge as s m h k v s' hs,
   fun k s' hs => delete_bridge as s m h k s' hs, fun a s' hw hs => background_bridge as s m h a hw s' hs⟩

/-! ### D51: timers before 1970 (open finding)

`encodeTimerKey` stores `uint64(t.UnixNano())` big-endian and every order in the timer store is the byte order of the
keys, so a timer with a negative `UnixNano` sorts after all timers from 1970 on. -/

/-- the runner's watermark is before 1970 (it processes older data); a timer 5 ns before the epoch and one in the year
2100 are registered; then the watermark advances to 10 s and beyond 2100 -/
def preEpochOps : List ROp :=
  [.adv "sr0" (-1000000000), .set [0x6b] (-5), .set [0x6b] 4102444800000000000, .adv "sr0" 10000000000,
   .adv "sr0" 4102444800000000001]

/-- the code (model) fires nothing at 10 s although the timer at −5 ns is due, and when the watermark passes the year
2100 it fires 2100 first and −5 ns after it; the specification fires −5 ns at 10 s. So `registry_refines_spec` without
`0 ≤ t` is false: the outputs of the fourth action differ. -/
theorem preepoch_counterexample :
    ((Registry.new (Store.new [] 1 0 1 1048576) ["sr0"]).run preEpochOps).2 =
      [[], [], [], [], [([0x6b], 4102444800000000000), ([0x6b], -5)]] ∧
    ((Spec.new ["sr0"]).run preEpochOps).2.map (·.map (·.2)) = [[], [], [], [-5], [4102444800000000000]] ∧
    ¬ OutputsAgree ((Registry.new (Store.new [] 1 0 1 1048576) ["sr0"]).run preEpochOps).2
        ((Spec.new ["sr0"]).run preEpochOps).2 := by
  have h1 : ((Registry.new (Store.new [] 1 0 1 1048576) ["sr0"]).run preEpochOps).2 =
      [[], [], [], [], [([0x6b], 4102444800000000000), ([0x6b], -5)]] := by decide
  have h2 : ((Spec.new ["sr0"]).run preEpochOps).2 =
      [[], [], [], [([0x6b], -5)], [([0x6b], 4102444800000000000)]] := by decide
  refine ⟨h1, by rw [h2]; rfl, ?_⟩
  rw [h1, h2]
  intro h
  have := h.2.2.2.1.1.length_eq
  simp at this

/-- **A consumer that stops early loses nothing and repeats nothing.** `fireLoop comp k` is the iterator of
`AdvanceWatermark` whose consumer stops after `k` timers (`Operator.handleWatermark` returns from inside the loop when a
batch fails; the code deletes a timer before it yields it). Iterating again for the same composite watermark and draining
ends in the store of, and hands out together with the first `k` exactly the timers of, one drained `AdvanceWatermark` —
in its order, each once — for every `k`, every cache size and every store satisfying the store invariant. (That a repeated
report of the same sender and watermark yields the same composite watermark is `Wm.Ups.report_idem`, used by
`partial_then_drain_registry` below.) -/
theorem partial_then_drain (r : Registry) (sender : String) (wm : Int) (k : Nat) (hs : SInv r.store) :
    let c := (r.ups.report sender wm).2
    let p := fireLoop c k r.store
    let d := fireLoop c (p.1.db.length + 1) p.1
    (r.advance sender wm).1.store = d.1 ∧ (r.advance sender wm).2 = p.2 ++ d.2 := by
  intro c p d
  have h : fireLoop c (r.store.db.length + 1) r.store = (d.1, p.2 ++ d.2) := fireLoop_partial_then_drain c k r.store hs
  simp only [Registry.advance]
  constructor
  · show (fireLoop c (r.store.db.length + 1) r.store).1 = d.1
    rw [h]
  · show (fireLoop c (r.store.db.length + 1) r.store).2 = p.2 ++ d.2
    rw [h]

/-- the same at the level of the registry: after an iteration stopped after `k` timers (store `p.1`, the report recorded),
`AdvanceWatermark` with the same report — the composite watermark is then the same, `Wm.Ups.report_idem` — ends in the
registry of, and completes the timers of, one drained call -/
theorem partial_then_drain_registry (r : Registry) (sender : String) (wm : Int) (k : Nat) (hs : SInv r.store) :
    let u := r.ups.report sender wm
    let p := fireLoop u.2 k r.store
    let r' : Registry := { store := p.1, ups := u.1, wm := u.2 }
    (r'.advance sender wm).1 = (r.advance sender wm).1 ∧ p.2 ++ (r'.advance sender wm).2 = (r.advance sender wm).2 := by
  intro u p r'
  have hi : u.1.report sender wm = u := Wm.Ups.report_idem r.ups sender wm
  have h := fireLoop_partial_then_drain u.2 k r.store hs
  have h' : fireLoop u.2 (r.store.db.length + 1) r.store =
      ((fireLoop u.2 (p.1.db.length + 1) p.1).1, p.2 ++ (fireLoop u.2 (p.1.db.length + 1) p.1).2) := h
  simp only [Registry.advance, r', hi]
  constructor
  · show _ = ({ store := (fireLoop u.2 (r.store.db.length + 1) r.store).1, ups := u.1, wm := u.2 } : Registry)
    rw [h']
  · show _ = (fireLoop u.2 (r.store.db.length + 1) r.store).2
    rw [h']

/-- the two pieces on a concrete store: three pending timers, the consumer takes one, the second iteration the other two -/
example :
    let s := ((Registry.new (Store.new [] 1 0 1 30) ["sr0"]).run [.set [0x6b] 1, .set [0x6b] 2, .set [0x6b] 5]).1.store
    (fireLoop 100 1 s).2 = [([0x6b], 1)] ∧ (fireLoop 100 4 (fireLoop 100 1 s).1).2 = [([0x6b], 2), ([0x6b], 5)] := by
  decide

/-! non-vacuity and the D11 regression witness (2-entry cache: put 1, 2, 5; fire 1; put 9; the rest must fire as 2, 5, 9) -/

def witnessOps : List ROp :=
  [.set [0x6b] 1, .set [0x6b] 2, .set [0x6b] 5, .adv "sr0" 1, .set [0x6b] 9, .touch 0, .adv "sr0" 100]

example : ((Registry.new (Store.new [] 1 0 1 30) ["sr0"]).run witnessOps).2 =
    [[], [], [], [([0x6b], 1)], [], [], [([0x6b], 2), ([0x6b], 5), ([0x6b], 9)]] := by decide

example : ((Spec.new ["sr0"]).run witnessOps).2.map (·.length) = [0, 0, 0, 1, 0, 0, 3] := by decide

example : ∀ op ∈ witnessOps, op.valid 1 0 1 := by
  intro op hop
  simp only [witnessOps, List.mem_cons, List.not_mem_nil, or_false] at hop
  rcases hop with h | h | h | h | h | h | h <;> subst h <;> simp [ROp.valid, KeySpace.keyGroup, Nat.mod_one]

end Rxn.C10
