import RxnModel.Proofs.RescaleAssign
import RxnModel.Proofs.RescaleRestore
import RxnModel.Proofs.RescaleInv
import RxnModel.Proofs.RescaleScan
import RxnModel.Proofs.RescaleBridge
import RxnModel.Proofs.RescaleCode
/-!
# C06 — rescaling redistributes checkpointed state completely and exclusively

Property theorems only. Model: `Model/Rescale.lean` (on top of `Model/KeySpace.lean`, `Model/Lsm.lean`,
`Model/Search.lean`); `Overlaps`/`IncludesKeyGroup`/`RangeKeyCompare` are regenerated from /repo on every run.
The code is modelled after the repairs D7, D8, D6, D36 (see `fixes/`); the unrepaired loops are kept for the
regression witnesses at the end.
-/
namespace Rxn.C06
open Rxn Lsm KeySpace Rescale

/-- `AssignRanges` is exact for every list of recorded checkpoint ranges, in whatever order they were recorded:
new operator `i` is handed recorded position `j` iff their key-group ranges overlap. -/
theorem assign_exact (to frm : List KGRange) (i j : Nat) (t : KGRange) (ht : to[i]? = some t) :
    ∃ l, (assignRanges to frm)[i]? = some l ∧
      (j ∈ l ↔ ∃ f, frm[j]? = some f ∧ t.overlaps f = true) := by
  refine ⟨assignLoop t frm 0, assignRanges_get to frm i t ht, ?_⟩
  rw [mem_assignLoop]
  simp

/-- nothing is lost: for `to = keyGroupRanges kgc n` and `from` ANY permutation of `keyGroupRanges kgc m`, the new
operator that owns key group `g` is handed the checkpoint of the old operator that owned `g`. -/
theorem assign_complete (kgc m n : Nat) (hm : 0 < m) (frm : List KGRange) (hperm : frm.Perm (ranges kgc m))
    (g : Nat) (hg : g < kgc) (i : Nat) (t : KGRange) (ht : (ranges kgc n)[i]? = some t) (hinc : t.includes g = true) :
    ∃ j f l, frm[j]? = some f ∧ f.includes g = true ∧
      (assignRanges (ranges kgc n) frm)[i]? = some l ∧ j ∈ l := by
  obtain ⟨r, hr, hrg⟩ := owner_exists kgc m g hm hg
  have hmem : r ∈ frm := hperm.mem_iff.mpr hr
  obtain ⟨j, hj⟩ := List.getElem?_of_mem hmem
  obtain ⟨l, hl, hiff⟩ := assign_exact (ranges kgc n) frm i j t ht
  exact ⟨j, r, l, hj, hrg, hl, hiff.mpr ⟨r, hj, overlaps_of_includes t r g hinc hrg⟩⟩

/-- the handles `Assembly.Deploy` passes on (`sliceu.Pick` of the assignment) are the recorded checkpoints at the
assigned positions, in recorded order -/
theorem pick_assigned {α : Type} (xs : List α) (idx : List Nat) (x : α) :
    x ∈ Rescale.pick xs idx ↔ ∃ j, j ∈ idx ∧ xs[j]? = some x := by
  simp [Rescale.pick, List.mem_filterMap]

/-! ## Restore of several checkpoints into one owner (`LoadCheckpointList`, `DB.Start` with `DataOwnership`) -/

/-- **merged_levels_valid**: for every handle order the deeper levels of the composite checkpoint are ascending and
pairwise disjoint in key range (what the binary searches of `LevelList` rely on), provided each old instance's
tables only span key groups of its own range and the ranges do not overlap. -/
theorem merged_levels_valid (ps : List (KGRange × Ckpt)) (hok : ∀ p ∈ ps, CkptOk p.1 p.2)
    (hdis : ps.Pairwise (fun a b => a.1.overlaps b.1 = false)) (i : Nat) (hi : 1 ≤ i) (l : List Tbl)
    (hl : (mergeLevels (ps.map (·.2)))[i]? = some l) : LevelValid l :=
  mergeLevels_valid ps hok hdis i hi l hl

/-- **level 0 of the composite** (what `merged_levels_valid` does not cover, because level 0 is not a sorted level):
level 0 of the merged checkpoint is exactly the handles' level-0 lists appended in handle order — never re-ordered —
so every handle's tables stay one contiguous block in their stored order, which is their age order (flushes
append), and the newest-first lookup `l0Get` visits them newest first. -/
theorem merged_level0_keeps_age_order (cs : List Ckpt) (n : Nat) (hn : 1 ≤ n) (hne : cs ≠ [])
    (hnl : ∀ c ∈ cs, c.levels.length = n) :
    (mergeLevels cs)[0]? = some (concatLevel cs 0) ∧
    ∀ (x y : List Ckpt) (c : Ckpt), cs = x ++ c :: y →
      concatLevel cs 0 = concatLevel x 0 ++ (c.levels.getD 0 [] ++ concatLevel y 0) := by
  refine ⟨mergeLevels_level0 cs n hn hne hnl, ?_⟩
  intro x y c h
  rw [h, concatLevel_split]

/-- what level 0 must satisfy for reads: insertion order = age order *per source* is enough, because different
sources hold disjoint key groups — the composite's newest-first level-0 lookup of a key equals the lookup in the
level 0 of the key's old owner alone, wherever the other handles' tables are placed. -/
theorem level0_lookup_per_source (n : Nat) (pre post : List (KGRange × Ckpt)) (rj : KGRange) (cj : Ckpt)
    (hpre : ∀ p ∈ pre, OldOk n p ∧ p.1.overlaps rj = false) (hpost : ∀ p ∈ post, OldOk n p ∧ p.1.overlaps rj = false)
    (k : Bytes) (hlen : 2 ≤ k.length) (hk : rj.includes (kgOf k) = true) :
    l0Get (concatLevel ((pre ++ (rj, cj) :: post).map (·.2)) 0) k = l0Get (cj.levels.getD 0 []) k :=
  restore_level0 n pre post rj cj hpre hpost k hlen hk

/-- **seq_above_loaded**: after `Open`, for any handles and ownership, the instance's sequence number is at least
every sequence number in every loaded table, everything replayed from the WALs is numbered above all of them and
is owned (nothing foreign is replayed), and so is every later write. -/
theorem seq_above_loaded (own : Bytes → Bool) (c : Ckpt) (cs : List Ckpt) :
    let s := openDB own (c :: cs)
    (∀ l ∈ s.levels, ∀ t ∈ l, ∀ e ∈ t.run, e.seq ≤ s.seq) ∧
    (∃ m, s.mems = [m] ∧ ∀ x ∈ m, own x.key = true ∧ x.seq ≤ s.seq ∧
        ∀ l ∈ s.levels, ∀ t ∈ l, ∀ e ∈ t.run, e.seq < x.seq) ∧
    (∀ k d v, (write s k d v).seq = s.seq + 1 ∧ (write s k d v).levels = s.levels) := by
  intro s
  have hinv := openDB_inv own c cs
  have htab : ∀ l ∈ s.levels, ∀ t ∈ l, ∀ e ∈ t.run, e.seq ≤ latestSeq (mergeLevels (c :: cs)) := by
    intro l hl t ht e he
    have hl' : l ∈ mergeLevels (c :: cs) := by rw [← hinv.levels]; exact hl
    exact Nat.le_trans (seq_le_tblEndSeq t e he)
      (tblEndSeq_le_latest _ t (List.mem_flatten.mpr ⟨l, hl', ht⟩))
  obtain ⟨m, hm, hall⟩ := hinv.mems
  refine ⟨fun l hl t ht e he => Nat.le_trans (htab l hl t ht e he) hinv.seq, ⟨m, hm, ?_⟩, ?_⟩
  · intro x hx
    obtain ⟨h1, h2, h3⟩ := hall x hx
    exact ⟨h3, h2, fun l hl t ht e he => Nat.lt_of_le_of_lt (htab l hl t ht e he) h1⟩
  · intro k d v
    rw [write_single s m hm hinv.reading]
    exact ⟨rfl, rfl⟩

/-- Get form of "a write after the restore wins". NOTE: this alone does not need the sequence numbers (`getR` visits
the memtable first; it also holds of the unrepaired `openDBOld`); the statement that does is
`write_after_restore_wins_scan` below, whose D6 witness is `d6_scan_counterexample`. -/
theorem write_after_restore_wins_get (own : Bytes → Bool) (c : Ckpt) (cs : List Ckpt) (k : Bytes) (d : Bool) (v : Bytes) :
    answer (getR (write (openDB own (c :: cs)) k d v) k) = if d then none else some v := by
  have hinv := openDB_inv own c cs
  obtain ⟨m, hm, _⟩ := hinv.mems
  rw [write_single _ m hm hinv.reading]
  simp only [getR, memGet, List.reverse_cons, List.reverse_nil, List.nil_append, firstSome, lookup_insert, wEntry_key,
    if_true]
  cases d <;> simp [answer, wEntry]

/-- **rescale_restore** (partial: see the excluded condition below). Restore ANY list of old checkpoints in ANY
handle order into an instance with ownership test `own`. For every key `k` the instance owns, whose key group belonged
to old instance `(rj, cj)`, `Get k` returns exactly what `cj`'s instance answered at its checkpoint (nothing lost, and
no other instance's data is returned for it).

Excluded condition: `OldOk` requires that every table and WAL record of every old checkpoint only carries key groups
of the range it is listed with, the ranges being pairwise non-overlapping. The ranges are free, so a restore from ONE
handle is always covered (take the ancestor's range), whatever the document carries. What is excluded is a restore that
MERGES ≥ 2 handles of which one carries keys of another one's range — only possible when that source was itself restored
from a handle it partly owned (second rescale). That the exclusion cannot be dropped: `d37_counterexample` (Get and
scan), `d47_counterexample` (Get only; the scan is right there, so for scans the exclusion is wider than necessary).
Full statement (false of the code, witness in `fixes/D37_demo_test.go`): the same without the `tables`/`wal` range
conditions of `OldOk`. -/
theorem rescale_restore_partial (own : Bytes → Bool) (n : Nat) (pre post : List (KGRange × Ckpt))
    (rj : KGRange) (cj : Ckpt)
    (hok : ∀ p ∈ pre ++ (rj, cj) :: post, OldOk n p)
    (hdis : (pre ++ (rj, cj) :: post).Pairwise (fun a b => a.1.overlaps b.1 = false))
    (k : Bytes) (hlen : 2 ≤ k.length) (hk : rj.includes (kgOf k) = true) (hown : own k = true) :
    answer (getR (openDB own ((pre ++ (rj, cj) :: post).map (·.2))) k) = ckptAnswer cj k :=
  restore_get own n pre post rj cj hok hdis k hlen hk hown

/-! ## The restored instance is a C07 instance: scans, and every later history -/

/-- **restored_instance_inv** (partial, same exclusion as `rescale_restore_partial`): the instance produced by
`Open` from ANY non-empty list of old checkpoints in ANY handle order satisfies the DKV invariant `Lsm.Inv` of C07
(runs sorted, newer-above in read order, deeper levels range-unique, sequence bound) for the specification map
`m` = its containers in read order; and for every owned key that map holds exactly what the key's old owner answered
at its checkpoint. `SrcOk` asks of each old `(range, document)`: C07's `sorted`/`newer` and C18's level validity for
that single instance, `n+1` levels, and — the excluded condition of D37/D47 — that its tables and WAL only carry key
groups of its own range. -/
theorem restored_instance_inv_partial (own : Bytes → Bool) (n : Nat) (pre post : List (KGRange × Ckpt))
    (rj : KGRange) (cj : Ckpt)
    (hok : ∀ p ∈ pre ++ (rj, cj) :: post, SrcOk (n + 1) p)
    (hdis : (pre ++ (rj, cj) :: post).Pairwise (fun a b => a.1.overlaps b.1 = false)) :
    let s := openDB own ((pre ++ (rj, cj) :: post).map (·.2))
    let m : Spec := (containers s).flatten
    Inv s m ∧ ReadInv s m ∧
    ∀ k, 2 ≤ k.length → rj.includes (kgOf k) = true → own k = true → answer (Spec.get m k) = ckptAnswer cj k := by
  intro s m
  have hne : pre ++ (rj, cj) :: post ≠ [] := by simp
  have hinv : Inv s m := openDB_lsm_inv own n _ hne hok hdis
  refine ⟨hinv, ?_, ?_⟩
  · intro k r hrd
    have hr : s.reading = none := by
      obtain ⟨c0, rest, hcs⟩ : ∃ c0 rest, (pre ++ (rj, cj) :: post).map (·.2) = c0 :: rest := by
        cases pre with
        | nil => exact ⟨cj, post.map (·.2), by simp⟩
        | cons p ps' => exact ⟨p.2, (ps' ++ (rj, cj) :: post).map (·.2), by simp⟩
      have := (openDB_inv own c0 rest).reading
      rw [← hcs] at this; exact this
    rw [hr] at hrd; cases hrd
  · intro k hlen hk hown
    have h1 : Spec.get m k = Lsm.get s k := by rw [get_eq_firstHit hinv k]; exact (hinv.hit k).symm
    rw [h1, ← getR_eq_get own n _ hok hdis hne k]
    exact restore_get own (n + 1) pre post rj cj (fun p hp => (hok p hp).toOldOk) hdis k hlen hk hown

/-- **rescale_restore_scan** (partial, same exclusion): `ScanPrefix p` on the restored instance — for ANY prefix —
is strictly ascending, and for every key the new instance owns it contains the key with value `v` exactly when the
key's old owner held the live value `v` at its checkpoint and the key has the prefix: nothing checkpointed is missing
(completeness), nothing else appears for an owned key. This is the read path of `KeyedStateStore.GetState` and of
the timer queue's `loadFromDB`. Stated for `Lsm.scan` (merge of all tables); `scanR_eq_scan` below transfers it to
the table selection `AllTablesForPrefix` performs. -/
theorem rescale_restore_scan_partial (own : Bytes → Bool) (n : Nat) (pre post : List (KGRange × Ckpt))
    (rj : KGRange) (cj : Ckpt)
    (hok : ∀ p ∈ pre ++ (rj, cj) :: post, SrcOk (n + 1) p)
    (hdis : (pre ++ (rj, cj) :: post).Pairwise (fun a b => a.1.overlaps b.1 = false)) (p : Bytes) :
    let s := openDB own ((pre ++ (rj, cj) :: post).map (·.2))
    (scan s p).Sorted ∧
    ∀ k v, 2 ≤ k.length → rj.includes (kgOf k) = true → own k = true →
      ((∃ e ∈ scan s p, e.key = k ∧ e.val = v) ↔ (ckptAnswer cj k = some v ∧ Bytes.hasPrefix k p = true)) := by
  intro s
  obtain ⟨hinv, _, hspec⟩ := restored_instance_inv_partial own n pre post rj cj hok hdis
  obtain ⟨hsorted, hmem⟩ := scan_spec hinv p
  refine ⟨hsorted, ?_⟩
  intro k v hlen hk hown
  have hs := hspec k hlen hk hown
  constructor
  · rintro ⟨e, he, rfl, rfl⟩
    obtain ⟨hg, hd, hp⟩ := (hmem e).mp he
    rw [hg] at hs
    simp only [answer, hd] at hs
    exact ⟨by simpa using hs.symm, hp⟩
  · rintro ⟨hc, hp⟩
    rw [hc] at hs
    cases hg : Spec.get ((containers s).flatten) k with
    | none => rw [hg] at hs; simp [answer] at hs
    | some e =>
      rw [hg] at hs
      have hkey : e.key = k := (Run.lookup_some_mem hg).2
      by_cases hd : e.del = true
      · simp [answer, hd] at hs
      · have hd' : e.del = false := by simpa using hd
        simp only [answer, hd', Bool.false_eq_true, if_false, Option.some.injEq] at hs
        exact ⟨e, (hmem e).mpr ⟨by rw [hkey]; exact hg, hd', by rw [hkey]; exact hp⟩, hkey, hs⟩

/-- **later updates take effect as in C03, at scan level and for every later history**: starting from the restored
instance, after ANY sequence of DKV actions (writes, deletes, memtable rotations, flush commits at any point, reads
in two phases; compactions under C18's soundness or none) the instance still satisfies `Lsm.Inv` for the restored map
advanced by the writes — so `ScanPrefix` is exactly the live latest entries (`Lsm.scan_spec`) and `Get` the latest
write (`Lsm.get_eq_firstHit`). -/
theorem restored_history_refines_partial (own : Bytes → Bool) (n : Nat) (pre post : List (KGRange × Ckpt))
    (rj : KGRange) (cj : Ckpt)
    (hok : ∀ p ∈ pre ++ (rj, cj) :: post, SrcOk (n + 1) p)
    (hdis : (pre ++ (rj, cj) :: post).Pairwise (fun a b => a.1.overlaps b.1 = false))
    (as : List Act) (hc : noCompact as = true ∨ CompactionSound) (s' : State) (m' : Spec)
    (hrun : runBoth (openDB own ((pre ++ (rj, cj) :: post).map (·.2)))
      (containers (openDB own ((pre ++ (rj, cj) :: post).map (·.2)))).flatten as = some (s', m')) (p : Bytes) :
    Inv s' m' ∧ (scan s' p).Sorted ∧
    ∀ e, e ∈ scan s' p ↔ (Spec.get m' e.key = some e ∧ e.del = false ∧ Bytes.hasPrefix e.key p = true) := by
  obtain ⟨hinv, hr, _⟩ := restored_instance_inv_partial own n pre post rj cj hok hdis
  obtain ⟨h1, _⟩ := runBoth_inv (fun _ => trivial) as _ _ s' m' hc hinv hr hrun
  exact ⟨h1, scan_spec h1 p⟩

/-- **restored_history_code_reads** (partial, same exclusion): the statement about the CODE's reads after any later
history. Starting from the restored instance, after ANY sequence of DKV actions — writes, deletes, rotations, flush
begin/commit at any point, two-phase reads, and compaction commits of any change set passing the guard (no soundness
hypothesis: `runBoth_inv_ordered`, C07) — the instance still has C07's invariant AND its deeper levels in key order, so
`DB.Get` with the range binary search (`getR`) returns the latest write of the restored map advanced by the writes, and
`DB.ScanPrefix` over the tables `AllTablesForPrefix` selects (`scanR`) is ascending and holds exactly its live latest
entries with the prefix. -/
theorem restored_history_code_reads_partial (own : Bytes → Bool) (n : Nat) (pre post : List (KGRange × Ckpt))
    (rj : KGRange) (cj : Ckpt)
    (hok : ∀ p ∈ pre ++ (rj, cj) :: post, SrcOk (n + 1) p)
    (hdis : (pre ++ (rj, cj) :: post).Pairwise (fun a b => a.1.overlaps b.1 = false))
    (as : List Act) (s' : State) (m' : Spec)
    (hrun : runBoth (openDB own ((pre ++ (rj, cj) :: post).map (·.2)))
      (containers (openDB own ((pre ++ (rj, cj) :: post).map (·.2)))).flatten as = some (s', m')) (p : Bytes) :
    Inv s' m' ∧ DeepOrdered s' ∧ (∀ k, getR s' k = Spec.get m' k) ∧ (scanR s' p).Sorted ∧
    ∀ e, e ∈ scanR s' p ↔ (Spec.get m' e.key = some e ∧ e.del = false ∧ Bytes.hasPrefix e.key p = true) := by
  obtain ⟨hinv, hr, _⟩ := restored_instance_inv_partial own n pre post rj cj hok hdis
  have hord := deepOrdered_openDB own n (pre ++ (rj, cj) :: post) (by simp) hok hdis
  obtain ⟨h1, _, h3⟩ := runBoth_inv_ordered as _ _ s' m' hinv hr hord hrun
  refine ⟨h1, h3, ?_, ?_⟩
  · intro k
    rw [Lsm.getR_eq_get h1 h3 k, get_eq_firstHit h1 k]
    exact h1.hit k
  · have := scan2R_spec h1 h1 h3 (fun r hr => Or.inl hr) p
    exact this

/-- **restored_start_has_c18_invariant** (partial, same exclusion; the instantiation C18 left to C06): the restored
instance satisfies C18's `DInv` with any compactor cursor, so `C18.db_invariant_from_any_state`,
`real_compaction_commit_from` and `pick_is_safe` apply to it — every change set the real picker computes from it, with any
flush commits and writes in between, passes the guard and changes no answer. Beyond `SrcOk` this needs, per source,
level-0 tables that share a key to be age-ordered (`L0KeyAgeOrdered`, C18's invariant of the source), at least two
levels, and `hids`: the loaded tables are distinct objects numbered below `nid`, the number the instance continues its
table files at (`Checkpoint.NextTableID`, repair D28; the model's `openDB` keeps document ids and sets no counter, so
the counter is supplied here). -/
theorem restored_start_has_c18_invariant_partial (own : Bytes → Bool) (n : Nat) (hn : 1 ≤ n)
    (ps : List (KGRange × Ckpt)) (hne : ps ≠ [])
    (hok : ∀ p ∈ ps, SrcOk (n + 1) p) (hdis : ps.Pairwise (fun a b => a.1.overlaps b.1 = false))
    (hage : ∀ p ∈ ps, Compaction.L0KeyAgeOrdered p.2.levels) (nid : Nat)
    (hids : Compaction.IdsFresh (mergeLevels (ps.map (·.2))) nid) (c : Compaction.Compactor) :
    Compaction.DInv { s := { openDB own (ps.map (·.2)) with nextId := nid }, c := c, pending := none }
      (containers (openDB own (ps.map (·.2)))).flatten :=
  restored_dinv own n hn ps hne hok hdis hage nid hids c

/-- **restored_table_ids_fresh**: after a restore from ANY list of handles in ANY order the table writer continues above
every table number of EVERY handle (`Checkpoint.NextTableID` over the composite level list, whatever directory a table
lies in), and replaying the WALs does not move it; so every table a later flush or compaction names (`mkTables s.nextId`)
differs from every loaded table — also when the instance is opened in the directory of one of its sources (an operator that
keeps running across a scale-in), whichever handle was recorded first. The single-handle case is C08's D28. -/
theorem restored_table_ids_fresh (own : Bytes → Bool) (c : Ckpt) (cs : List Ckpt) (n : Nat)
    (hnl : ∀ h ∈ c :: cs, h.levels.length = n) :
    let s := openDB own (c :: cs)
    (∀ h ∈ c :: cs, ∀ t ∈ h.levels.flatten, t.id < s.nextId) ∧
    (∀ t ∈ s.levels.flatten, t.id < s.nextId) ∧
    (∀ (runs : List Run), ∀ t' ∈ mkTables s.nextId runs, ∀ t ∈ s.levels.flatten, t'.id ≠ t.id) := by
  intro s
  have hlev : s.levels = mergeLevels (c :: cs) := (openDB_inv own c cs).levels
  have hn : s.nextId = nextTableId (mergeLevels (c :: cs)) := openDB_nextId own c cs
  have hlt : ∀ t ∈ s.levels.flatten, t.id < s.nextId := by
    intro t ht
    rw [hn]; rw [hlev] at ht
    exact lt_nextTableId _ t ht
  refine ⟨fun h hh t ht => hlt t (by rw [hlev]; exact mem_mergeLevels_of_handle _ n hnl h hh t ht), hlt, ?_⟩
  intro runs t' ht' t ht heq
  have h1 := mkTables_id_ge s.nextId runs t' ht'
  have h2 := hlt t ht
  omega

/-- **write_after_restore_wins_scan**: one write after the restore, observed through `ScanPrefix` (the operator's
read path): the scan holds the key with exactly the new value (or not at all after a delete). This needs the restored
sequence number to be above every loaded version (`seq_above_loaded`, i.e. the repair of D6): see
`d6_scan_counterexample` for the same statement failing on the unrepaired restore. -/
theorem write_after_restore_wins_scan_partial (own : Bytes → Bool) (n : Nat) (pre post : List (KGRange × Ckpt))
    (rj : KGRange) (cj : Ckpt)
    (hok : ∀ p ∈ pre ++ (rj, cj) :: post, SrcOk (n + 1) p)
    (hdis : (pre ++ (rj, cj) :: post).Pairwise (fun a b => a.1.overlaps b.1 = false))
    (k : Bytes) (d : Bool) (v : Bytes) (p : Bytes) (hp : Bytes.hasPrefix k p = true) :
    let s := openDB own ((pre ++ (rj, cj) :: post).map (·.2))
    ∀ e, (e ∈ scan (write s k d v) p ∧ e.key = k) ↔ (d = false ∧ e = ⟨k, s.seq + 1, false, v⟩) := by
  intro s
  obtain ⟨hinv, _, _⟩ := restored_instance_inv_partial own n pre post rj cj hok hdis
  obtain ⟨c0, rest, hcs⟩ : ∃ c0 rest, (pre ++ (rj, cj) :: post).map (·.2) = c0 :: rest := by
    cases pre with
    | nil => exact ⟨cj, post.map (·.2), by simp⟩
    | cons q ps' => exact ⟨q.2, (ps' ++ (rj, cj) :: post).map (·.2), by simp⟩
  have hrep := openDB_inv own c0 rest
  rw [← hcs] at hrep
  obtain ⟨mm, hmm, _⟩ := hrep.mems
  have hw : write s k d v = { s with seq := s.seq + 1, mems := [Run.insert mm (wEntry (s.seq + 1) k d v)] } :=
    write_single s mm hmm hrep.reading k d v
  have hinv' := inv_write hinv (wEntry (s.seq + 1) k d v) (wEntry_seq _ _ _ _) mm [] (by rw [hmm]; rfl)
  have hst : ({ s with seq := s.seq + 1, mems := (Run.insert mm (wEntry (s.seq + 1) k d v) :: []).reverse } : State) =
      write s k d v := by rw [hw]; rfl
  rw [hst] at hinv'
  obtain ⟨_, hmem⟩ := scan_spec hinv' p
  intro e
  have hget : Spec.get (wEntry (s.seq + 1) k d v :: (containers s).flatten) k = some (wEntry (s.seq + 1) k d v) := by
    simp [Spec.get, Run.lookup, wEntry_key]
  constructor
  · rintro ⟨he, hk⟩
    obtain ⟨hg, hd, _⟩ := (hmem e).mp he
    rw [hk, hget] at hg
    cases hg
    cases d with
    | true => simp [wEntry] at hd
    | false => exact ⟨rfl, rfl⟩
  · rintro ⟨rfl, rfl⟩
    have : (⟨k, s.seq + 1, false, v⟩ : Entry) = wEntry (s.seq + 1) k false v := rfl
    refine ⟨(hmem _).mpr ⟨?_, rfl, hp⟩, rfl⟩
    rw [this] at *
    exact hget

/-- a table whose last key carries the smallest sequence number and belongs to another operator after scale-out -/
def exC6 : Ckpt := ⟨[[⟨0, [⟨[0, 1, 97], 4, false, [7]⟩, ⟨[0, 200, 97], 1, false, [8]⟩]⟩]], []⟩

/-- **scanR_eq_scan_restored**: on the restored instance, and after any number of writes/deletes to it, the scan exactly as
`LevelList.AllTablesForPrefix` + `DB.ScanPrefix` perform it (binary search over `RangePrefixCompare`, forward walk while
`RangeContainsPrefix`, merge by sequence number of the selected tables only) equals C07's `Lsm.scan`; so
`rescale_restore_scan_partial` and `write_after_restore_wins_scan_partial` are statements about the code's scan. -/
theorem scanR_eq_scan_restored_partial (own : Bytes → Bool) (n : Nat) (ps : List (KGRange × Ckpt)) (hne : ps ≠ [])
    (hok : ∀ p ∈ ps, SrcOk (n + 1) p) (hdis : ps.Pairwise (fun a b => a.1.overlaps b.1 = false))
    (ws : List (Bytes × Bool × Bytes)) (p : Bytes) :
    let s := ws.foldl (fun s w => write s w.1 w.2.1 w.2.2) (openDB own (ps.map (·.2)))
    scanR s p = scan s p := by
  intro s
  obtain ⟨c0, rest, hcs⟩ : ∃ c0 rest, ps.map (·.2) = c0 :: rest := by
    cases ps with
    | nil => exact absurd rfl hne
    | cons q ps' => exact ⟨q.2, ps'.map (·.2), by simp⟩
  have hrep := openDB_inv own c0 rest
  rw [← hcs] at hrep
  -- writes never touch the level list
  have hlev : ∀ (ws : List (Bytes × Bool × Bytes)) (s0 : State),
      (∃ mm, s0.mems = [mm]) → s0.reading = none →
      (ws.foldl (fun s w => write s w.1 w.2.1 w.2.2) s0).levels = s0.levels := by
    intro ws
    induction ws with
    | nil => intro s0 _ _; rfl
    | cons w ws ih =>
      intro s0 ⟨mm, hmm⟩ hr
      simp only [List.foldl_cons]
      rw [ih _ (by rw [write_single s0 mm hmm hr]; exact ⟨_, rfl⟩) (by rw [write_single s0 mm hmm hr]; exact hr),
        write_single s0 mm hmm hr]
  have hl : s.levels = mergeLevels (ps.map (·.2)) := by
    obtain ⟨mm, hmm, _⟩ := hrep.mems
    exact (hlev ws _ ⟨mm, hmm⟩ hrep.reading).trans hrep.levels
  apply scanR_eq_scan
  · intro t ht
    rw [hl] at ht
    obtain ⟨q, hq, htq⟩ := mem_mergeLevels n ps hok t ht
    exact (hok q hq).sorted t htq
  · intro l hlm
    rw [hl] at hlm
    obtain ⟨i, hi⟩ := List.getElem?_of_mem hlm
    rw [List.getElem?_tail] at hi
    exact mergeLevels_valid ps (fun q hq => (hok q hq).toOldOk.ck) hdis (i + 1) (by omega) l hi

/-! ## Bridge to C08 / C07: where the old instances' documents come from -/

/-- **ckptAnswer_is_state_at_checkpoint**: for every state `s₁` of a DKV instance satisfying C08's invariant (every
reachable state does: `C08.inv_run`), the document a restoring instance reads from the record captured by
`Checkpoint(id)` — its level list and the WAL records after `After` — answers, through `ckptAnswer`, exactly what
the instance itself answered to `Get` at the `Checkpoint` call. So the right-hand sides of `rescale_restore_partial`
and `rescale_restore_scan_partial` are the old operators' states at the checkpoint, not a definition. -/
theorem ckptAnswer_is_state_at_checkpoint (s₁ : Ckpt.State) (hi : Ckpt.Inv s₁) (id : Nat) (k : Bytes) :
    ckptAnswer (ofCapture (Ckpt.capture s₁ id)) k = answer (Lsm.get s₁.db k) :=
  ckptAnswer_capture s₁ hi id k

/-- **source_hypotheses_from_instance**: C07's invariant of the checkpointing instance discharges the `sorted` and
`newer` hypotheses of `SrcOk`. What stays assumed of an old instance, explicitly: its keys lie in its own range
(C05 routing; first generation — the exclusion of D37/D47), its tables are non-empty, its deeper levels are ascending
(C18's layout validity) and it has `n` levels. The driver evaluates all `SrcOk` clauses (keys, non-empty, sorted,
ascending deeper levels, newer-above, six levels) on every first-generation real document (`inFamily` in `Driver/C06.lean`). -/
theorem source_hypotheses_from_instance (r : KGRange) (s : Lsm.State) (m : Spec) (hinv : Lsm.Inv s m)
    (wal : List WalEntry) (n : Nat)
    (hkeys : ∀ t ∈ s.levels.flatten, ∀ e ∈ t.run, 2 ≤ e.key.length ∧ r.includes (kgOf e.key) = true)
    (hne : ∀ t ∈ s.levels.flatten, t.run ≠ [])
    (hdeep : ∀ i l, 1 ≤ i → s.levels[i]? = some l → LevelValid l)
    (hwal : ∀ w ∈ wal, r.includes (kgOf w.key) = true) (hn : s.levels.length = n) :
    SrcOk n (r, ⟨s.levels, wal⟩) :=
  srcOk_of_inv r s m hinv wal n hkeys hne hdeep hwal hn

/-! ## Exclusivity: what the code guarantees -/

/-- **operator_reads_exclusive**: every read the operator performs is a `ScanPrefix` whose prefix starts with the two
key-group bytes of a group it owns (`encodeSubjectKey`, the timer queue's key-group prefix). Such a scan returns only
keys of that owned group, whatever foreign entries the shared tables still hold. -/
theorem operator_reads_exclusive (r : KGRange) (s : State) (m : Spec) (hinv : Inv s m) (p : Bytes)
    (hp : 2 ≤ p.length) (hin : r.includes (kgOf p) = true) :
    ∀ e ∈ scan s p, Keys.ownsKey r e.key = true ∧ kgOf e.key = kgOf p := by
  intro e he
  obtain ⟨_, _, hpre⟩ := ((scan_spec hinv p).2 e).mp he
  obtain ⟨suffix, hs⟩ := Bytes.hasPrefix_iff.mp hpre
  have hk : kgOf e.key = kgOf p := by
    unfold kgOf; rw [hs, List.take_append_of_le_length hp]
  exact ⟨by unfold Keys.ownsKey; rw [show Bytes.beNat (e.key.take 2) = kgOf e.key from rfl, hk]; exact hin, hk⟩

theorem kgOf_u16be (g : Nat) (hg : g < 65536) (rest : Bytes) : kgOf (Bytes.u16be g ++ rest) = g := by
  simp [kgOf, Bytes.u16be, Bytes.beNat]
  omega

/-- the keyed-state read of a subject key only sees keys of the subject's key group: the prefix `encodeSubjectKey k`
starts with `k`'s key group, and the router sends `k` to the one operator whose range includes that group
(`C05.rangeIndex_unique`, which supplies `hroute`). -/
theorem keyed_state_read_exclusive (kgc : Nat) (hk : 0 < kgc) (hk2 : kgc ≤ 65535)
    (k : Bytes) (r : KGRange) (hroute : r.includes (KeySpace.keyGroup kgc k) = true)
    (s : State) (m : Spec) (hinv : Inv s m) :
    ∀ e ∈ scan s (Keys.subjectKey kgc k), Keys.ownsKey r e.key = true := by
  have hg : KeySpace.keyGroup kgc k < 65536 := by
    have := Nat.mod_lt (Murmur.hash k 0).toNat hk; unfold KeySpace.keyGroup; omega
  have hkg : kgOf (Keys.subjectKey kgc k) = KeySpace.keyGroup kgc k := by
    unfold Keys.subjectKey
    simp only [List.append_assoc]
    exact kgOf_u16be _ hg _
  intro e he
  exact (operator_reads_exclusive r s m hinv _ (by simp [Keys.subjectKey, Bytes.u16be]) (by rw [hkg]; exact hroute) e he).1

/-- what is NOT guaranteed (recorded, not a theorem of the property): the restored instance physically keeps the
foreign entries of shared tables, a `DB.Get` of a foreign key answers with them, and they are written into its next
checkpoint — the root of the open findings D37/D47. Only the WAL replay is filtered (`seq_above_loaded`). -/
theorem foreign_table_entry_readable_by_get :
    answer (getR (openDB (Keys.ownsKey ⟨0, 128⟩) [exC6]) [0, 200, 97]) = some [8] ∧
    Keys.ownsKey ⟨0, 128⟩ [0, 200, 97] = false := by decide +kernel

/-! non-vacuity: two old instances (ranges [0,128) and [128,256)), the second one listed first -/

def exC1 : Ckpt := ⟨[[⟨0, [⟨[0, 1, 97], 1, false, [1]⟩]⟩], [⟨1, [⟨[0, 1, 99], 1, false, [3]⟩]⟩]], [⟨[0, 1, 98], false, [2]⟩]⟩
def exC2 : Ckpt := ⟨[[], [⟨0, [⟨[0, 200, 97], 5, false, [9]⟩]⟩]], [⟨[0, 200, 98], true, []⟩]⟩

theorem exC1_ok : OldOk 2 (⟨0, 128⟩, exC1) := by
  refine ⟨⟨?_, ?_⟩, ?_, rfl⟩
  · intro l hl t ht
    simp only [exC1, List.mem_cons, List.not_mem_nil, or_false] at hl
    rcases hl with rfl | rfl <;> (simp only [List.mem_cons, List.not_mem_nil, or_false] at ht; subst ht) <;>
      exact ⟨⟨by decide, by decide, by decide, by decide⟩, by unfold TblOk; decide⟩
  · intro i l hi hl
    match i, hi with
    | 1, _ =>
      simp only [exC1, List.getElem?_cons_succ, List.getElem?_cons_zero, Option.some.injEq] at hl
      subst hl
      exact ⟨by intro t ht; simp only [List.mem_cons, List.not_mem_nil, or_false] at ht; subst ht; unfold TblOk; decide,
        List.pairwise_singleton _ _⟩
    | i + 2, _ => simp [exC1] at hl
  · intro w hw
    simp only [exC1, List.mem_cons, List.not_mem_nil, or_false] at hw
    subst hw; decide

theorem exC2_ok : OldOk 2 (⟨128, 256⟩, exC2) := by
  refine ⟨⟨?_, ?_⟩, ?_, rfl⟩
  · intro l hl t ht
    simp only [exC2, List.mem_cons, List.not_mem_nil, or_false] at hl
    rcases hl with rfl | rfl
    · simp at ht
    · simp only [List.mem_cons, List.not_mem_nil, or_false] at ht; subst ht
      exact ⟨⟨by decide, by decide, by decide, by decide⟩, by unfold TblOk; decide⟩
  · intro i l hi hl
    match i, hi with
    | 1, _ =>
      simp only [exC2, List.getElem?_cons_succ, List.getElem?_cons_zero, Option.some.injEq] at hl
      subst hl
      exact ⟨by intro t ht; simp only [List.mem_cons, List.not_mem_nil, or_false] at ht; subst ht; unfold TblOk; decide,
        List.pairwise_singleton _ _⟩
    | i + 2, _ => simp [exC2] at hl
  · intro w hw
    simp only [exC2, List.mem_cons, List.not_mem_nil, or_false] at hw
    subst hw; decide

theorem exC1_src : SrcOk 2 (⟨0, 128⟩, exC1) := by
  refine ⟨?_, ?_, ?_, exC1_ok.ck.deeper, ?_, exC1_ok.wal, rfl⟩
  · intro t ht e he
    simp only [exC1, List.flatten_cons, List.flatten_nil, List.cons_append, List.nil_append, List.mem_cons,
      List.not_mem_nil, or_false] at ht
    rcases ht with rfl | rfl <;> (simp only [List.mem_cons, List.not_mem_nil, or_false] at he; subst he; decide)
  · intro t ht
    simp only [exC1, List.flatten_cons, List.flatten_nil, List.cons_append, List.nil_append, List.mem_cons,
      List.not_mem_nil, or_false] at ht
    rcases ht with rfl | rfl <;> simp
  · intro t ht
    simp only [exC1, List.flatten_cons, List.flatten_nil, List.cons_append, List.nil_append, List.mem_cons,
      List.not_mem_nil, or_false] at ht
    rcases ht with rfl | rfl <;> simp [Run.Sorted]
  · simp [exC1, readOrder, NewerAbove]

theorem exC2_src : SrcOk 2 (⟨128, 256⟩, exC2) := by
  refine ⟨?_, ?_, ?_, exC2_ok.ck.deeper, ?_, exC2_ok.wal, rfl⟩
  · intro t ht e he
    simp only [exC2, List.flatten_cons, List.flatten_nil, List.cons_append, List.nil_append, List.mem_cons,
      List.not_mem_nil, or_false] at ht
    subst ht; simp only [List.mem_cons, List.not_mem_nil, or_false] at he; subst he; decide
  · intro t ht
    simp only [exC2, List.flatten_cons, List.flatten_nil, List.cons_append, List.nil_append, List.mem_cons,
      List.not_mem_nil, or_false] at ht
    subst ht; simp
  · intro t ht
    simp only [exC2, List.flatten_cons, List.flatten_nil, List.cons_append, List.nil_append, List.mem_cons,
      List.not_mem_nil, or_false] at ht
    subst ht; simp [Run.Sorted]
  · simp [exC2, readOrder, NewerAbove]

/-- the hypotheses of the scan-level theorems are satisfiable (two handles in descending key order), and they then
give: the scan of key group 1 on the merged instance holds the level-0, the deeper-level and the WAL value -/
example :
    let s := openDB (Keys.ownsKey ⟨0, 256⟩) [exC2, exC1]
    (∃ e ∈ scan s [0, 1], e.key = [0, 1, 97] ∧ e.val = [1]) ∧ (∃ e ∈ scan s [0, 1], e.key = [0, 1, 98] ∧ e.val = [2]) ∧
    (∃ e ∈ scan s [0, 1], e.key = [0, 1, 99] ∧ e.val = [3]) ∧ ¬ (∃ e ∈ scan s [0, 1], e.key = [0, 1, 100] ∧ e.val = []) := by
  have hok : ∀ p ∈ [((⟨128, 256⟩ : KGRange), exC2)] ++ ((⟨0, 128⟩ : KGRange), exC1) :: [], SrcOk (1 + 1) p := by
    intro p hp
    simp only [List.cons_append, List.nil_append, List.mem_cons, List.not_mem_nil, or_false] at hp
    rcases hp with rfl | rfl
    · exact exC2_src
    · exact exC1_src
  have hd : ([((⟨128, 256⟩ : KGRange), exC2)] ++ ((⟨0, 128⟩ : KGRange), exC1) :: []).Pairwise
      (fun (a b : KGRange × Ckpt) => a.1.overlaps b.1 = false) := by
    simp only [List.cons_append, List.nil_append, List.pairwise_cons, List.mem_cons, List.not_mem_nil, or_false,
      forall_eq, List.Pairwise.nil, and_true, false_implies, implies_true]
    decide
  have h := (rescale_restore_scan_partial (Keys.ownsKey ⟨0, 256⟩) 1 [(⟨128, 256⟩, exC2)] [] ⟨0, 128⟩ exC1 hok hd [0, 1]).2
  intro s
  refine ⟨(h [0, 1, 97] [1] (by decide) (by decide) (by decide)).mpr (by decide),
    (h [0, 1, 98] [2] (by decide) (by decide) (by decide)).mpr (by decide),
    (h [0, 1, 99] [3] (by decide) (by decide) (by decide)).mpr (by decide), ?_⟩
  intro hex
  have := (h [0, 1, 100] [] (by decide) (by decide) (by decide)).mp hex
  revert this; decide

/-- the hypotheses of `rescale_restore_partial` are satisfiable with two handles listed in descending key order, and
the theorem then gives the restored values (one from a level-0 table, one from a deeper level, one from the WAL) -/
example :
    let s := openDB (Keys.ownsKey ⟨0, 256⟩) [exC2, exC1]
    answer (getR s [0, 1, 97]) = some [1] ∧ answer (getR s [0, 1, 99]) = some [3] ∧
      answer (getR s [0, 1, 98]) = some [2] ∧ answer (getR s [0, 200, 97]) = some [9] ∧
      answer (getR s [0, 200, 98]) = none := by
  have hok1 : ∀ p ∈ [((⟨128, 256⟩ : KGRange), exC2)] ++ ((⟨0, 128⟩ : KGRange), exC1) :: [], OldOk 2 p := by
    intro p hp
    simp only [List.cons_append, List.nil_append, List.mem_cons, List.not_mem_nil, or_false] at hp
    rcases hp with rfl | rfl
    · exact exC2_ok
    · exact exC1_ok
  have hd1 : ([((⟨128, 256⟩ : KGRange), exC2)] ++ ((⟨0, 128⟩ : KGRange), exC1) :: []).Pairwise
      (fun (a b : KGRange × Ckpt) => a.1.overlaps b.1 = false) := by
    simp only [List.cons_append, List.nil_append, List.pairwise_cons, List.mem_cons, List.not_mem_nil, or_false,
      forall_eq, List.Pairwise.nil, and_true, false_implies, implies_true]
    decide
  have hok2 : ∀ p ∈ ([] : List (KGRange × Ckpt)) ++ ((⟨128, 256⟩ : KGRange), exC2) :: [((⟨0, 128⟩ : KGRange), exC1)], OldOk 2 p := by
    intro p hp; exact hok1 p (by simpa using hp)
  have hd2 : (([] : List (KGRange × Ckpt)) ++ ((⟨128, 256⟩ : KGRange), exC2) :: [((⟨0, 128⟩ : KGRange), exC1)]).Pairwise
      (fun (a b : KGRange × Ckpt) => a.1.overlaps b.1 = false) := by simpa using hd1
  have h1 := fun k hl hk ho => rescale_restore_partial (Keys.ownsKey ⟨0, 256⟩) 2 [(⟨128, 256⟩, exC2)] [] ⟨0, 128⟩ exC1 hok1 hd1 k hl hk ho
  have h2 := fun k hl hk ho => rescale_restore_partial (Keys.ownsKey ⟨0, 256⟩) 2 [] [(⟨0, 128⟩, exC1)] ⟨128, 256⟩ exC2 hok2 hd2 k hl hk ho
  intro s
  refine ⟨?_, ?_, ?_, ?_, ?_⟩
  · exact (h1 [0, 1, 97] (by decide) (by decide) (by decide)).trans (by decide)
  · exact (h1 [0, 1, 99] (by decide) (by decide) (by decide)).trans (by decide)
  · exact (h1 [0, 1, 98] (by decide) (by decide) (by decide)).trans (by decide)
  · exact (h2 [0, 200, 97] (by decide) (by decide) (by decide)).trans (by decide)
  · exact (h2 [0, 200, 98] (by decide) (by decide) (by decide)).trans (by decide)

/-- level-0 age order matters: the old instance holds two level-0 tables, the newer one starts at a smaller key and
overwrites `[0,32,109]`; the restore from two handles answers with the newer version (an implementation that sorted
level 0 by start key would visit the older table first) -/
def exL0 : Ckpt := ⟨[[⟨0, [⟨[0, 32, 109], 1, false, [1]⟩, ⟨[0, 112, 122], 2, false, [7]⟩]⟩,
                      ⟨1, [⟨[0, 16, 97], 3, false, [3]⟩, ⟨[0, 32, 109], 4, false, [4]⟩]⟩], []], []⟩
def exL0b : Ckpt := ⟨[[⟨0, [⟨[0, 144, 113], 1, false, [5]⟩]⟩], []], []⟩

example :
    (l0Get (concatLevel [exL0b, exL0] 0) [0, 32, 109]).map (·.val) = some [4] ∧
    (l0Get (concatLevel [exL0, exL0b] 0) [0, 32, 109]).map (·.val) = some [4] ∧
    -- the same three tables in start-key order (newer table first, so visited last): the overwritten version
    (l0Get [⟨1, [⟨[0, 16, 97], 3, false, [3]⟩, ⟨[0, 32, 109], 4, false, [4]⟩]⟩,
            ⟨0, [⟨[0, 32, 109], 1, false, [1]⟩, ⟨[0, 112, 122], 2, false, [7]⟩]⟩,
            ⟨0, [⟨[0, 144, 113], 1, false, [5]⟩]⟩] [0, 32, 109]).map (·.val) = some [1] := by
  decide

/-! ## The exclusion is necessary: D37 and D47 on the model of the repaired code -/

namespace W37
/-- `Y = [86,171)` was itself restored from a handle it only partly owned; its compaction re-wrote the foreign key
`[0,65,97]` (group 65) into its own table `tA`, next to its own key `[0,150,1]`. `X = [0,86)` holds `tB`. -/
def tA : Tbl := ⟨0, [⟨[0, 65, 97], 1, false, [1]⟩, ⟨[0, 150, 1], 2, false, [5]⟩]⟩
def tB : Tbl := ⟨0, [⟨[0, 66, 0], 1, false, [6]⟩, ⟨[0, 70, 0], 2, false, [7]⟩]⟩
def tC : Tbl := ⟨1, [⟨[0, 150, 2], 3, false, [8]⟩]⟩
def cX : Ckpt := ⟨[[], [tB]], []⟩
def cY : Ckpt := ⟨[[], [tA, tC]], []⟩

theorem sorted_level : sortLevel [tB, tA, tC] = [tA, tB, tC] := by
  have h2 : tblLe tB tA = false := by decide
  have h3 : tblLe tB tC = true := by decide
  have h4 : tblLe tA tC = true := by decide
  simp [sortLevel, List.mergeSort, List.MergeSort.Internal.splitInTwo, h2, h3, h4]

theorem merged : mergeLevels [cX, cY] = [[], [tA, tB, tC]] := by
  have : (List.range 2) = [0, 1] := by decide
  simp [mergeLevels, concatLevel, cX, cY, this, sorted_level]
end W37

/-- **D37 on the model** (open finding; why `SrcOk.keys` cannot be dropped). Both documents have valid levels, sorted
tables and newer-above, the source ranges `[0,86)`, `[86,171)` are disjoint — only `cY` carries one key outside its
range. The merged level `[tA, tB, tC]` is sorted by start key but `tA` overlaps `tB`: the range binary search of
`Get` ends on `tB`/`tC` and misses `Y`'s own key `[0,150,1]`, and the lower-bound search of `AllTablesForPrefix`
starts at `tC`, so `ScanPrefix [0,150]` misses it too. -/
theorem d37_counterexample :
    let s := openDB (Keys.ownsKey ⟨0, 256⟩) [W37.cX, W37.cY]
    ckptAnswer W37.cY [0, 150, 1] = some [5] ∧ getR s [0, 150, 1] = none ∧
    (scanR s [0, 150]).map (·.val) = [[8]] ∧
    (⟨0, 86⟩ : KGRange).overlaps ⟨86, 171⟩ = false ∧ Keys.ownsKey ⟨86, 171⟩ [0, 65, 97] = false := by
  intro s
  have hs : s = startState tblEndSeq [[], [W37.tA, W37.tB, W37.tC]] := by
    show openWith mergeLevels tblEndSeq _ _ = _
    unfold openWith
    simp only [W37.merged]
    rfl
  rw [hs]
  decide +kernel

namespace W47
/-- split-then-merge: `A` flushed `k = [0,10,1]` (old) into table `T`; `X = [0,128)` and `Y = [128,256)` both restored
from `A` and reference `T`; `X` overwrote `k` (table `Tx`). -/
def T : Tbl := ⟨0, [⟨[0, 10, 1], 1, false, [1]⟩]⟩
def Tx : Tbl := ⟨1, [⟨[0, 10, 1], 2, false, [2]⟩]⟩
def cX : Ckpt := ⟨[[T, Tx], []], []⟩
def cY : Ckpt := ⟨[[T], []], []⟩

theorem merged_xy : mergeLevels [cX, cY] = [[T, Tx, T], []] := by
  have : (List.range 2) = [0, 1] := by decide
  simp [mergeLevels, concatLevel, cX, cY, this, sortLevel]

theorem merged_yx : mergeLevels [cY, cX] = [[T, T, Tx], []] := by
  have : (List.range 2) = [0, 1] := by decide
  simp [mergeLevels, concatLevel, cX, cY, this, sortLevel]
end W47

/-- **D47 on the model** (open finding). `Y`'s document carries `k` although `Y` does not own it (its copy of the shared
table). Merging `[X, Y]` appends `Y`'s level 0 after `X`'s, so the stale copy is the newest level-0 table and `Get k`
answers the old value; in the order `[Y, X]` it answers the new one. `ScanPrefix` resolves the copies by sequence
number and is right in both orders — D47 is not visible on the operator's read path, only through `DB.Get`. -/
theorem d47_counterexample :
    let k : Bytes := [0, 10, 1]
    let own := Keys.ownsKey ⟨0, 256⟩
    ckptAnswer W47.cX k = some [2] ∧
    answer (getR (openDB own [W47.cX, W47.cY]) k) = some [1] ∧
    answer (getR (openDB own [W47.cY, W47.cX]) k) = some [2] ∧
    (scanR (openDB own [W47.cX, W47.cY]) [0, 10]).map (·.val) = [[2]] ∧
    (scanR (openDB own [W47.cY, W47.cX]) [0, 10]).map (·.val) = [[2]] ∧
    Keys.ownsKey ⟨128, 256⟩ k = false := by
  intro k own
  have h1 : openDB own [W47.cX, W47.cY] =
      startState tblEndSeq [[W47.T, W47.Tx, W47.T], []] := by
    show openWith mergeLevels tblEndSeq _ _ = _
    unfold openWith
    simp only [W47.merged_xy]
    rfl
  have h2 : openDB own [W47.cY, W47.cX] =
      startState tblEndSeq [[W47.T, W47.T, W47.Tx], []] := by
    show openWith mergeLevels tblEndSeq _ _ = _
    unfold openWith
    simp only [W47.merged_yx]
    rfl
  rw [h1, h2]
  decide +kernel

/-- **D72 on the model** (open finding; the D50 family: one directory, one `checkpoints` document). Operator `A` (range
`[0,128)`, key `[0,1,97]`) and operator `B` (`[128,256)`) keep running and are redeployed from job checkpoint 1 at
exchanged positions: `A` restores `B`'s handle into its own directory. The document `A` saves at its next checkpoint holds,
under id 1, the composite it loaded (`compositeDoc [docB]`). A later restore of `A`'s retained handle of checkpoint 1 —
which the restore theorems would answer with `ckptAnswer docA` — then reads that entry and `A`'s key is gone. -/
theorem d72_counterexample :
    let docA : Ckpt := ⟨[[⟨0, [⟨[0, 1, 97], 1, false, [5]⟩]⟩], []], []⟩
    let docB : Ckpt := ⟨[[], []], [⟨[0, 129, 98], false, [6]⟩]⟩
    let rewritten := compositeDoc [docB]
    ckptAnswer docA [0, 1, 97] = some [5] ∧
    answer (getR (openDB (Keys.ownsKey ⟨0, 128⟩) [docA]) [0, 1, 97]) = some [5] ∧
    answer (getR (openDB (Keys.ownsKey ⟨0, 128⟩) [rewritten]) [0, 1, 97]) = none ∧
    (scanR (openDB (Keys.ownsKey ⟨0, 128⟩) [rewritten]) [0, 1]) = [] := by
  decide +kernel

/-- regression witness D8: with the handles in descending key order the unsorted deeper level hid the first table -/
theorem d8_counterexample :
    getR (openDBOld (Keys.ownsKey ⟨0, 256⟩) [exC2, exC1]) [0, 200, 97] = none ∧
    ckptAnswer exC2 [0, 200, 97] = some [9] := by decide +kernel

/-- two handles whose tables carry the numbers {0} and {0, 1} (in their own directories): the restored instance continues
at 2 in either handle order -/
example : (openDB (Keys.ownsKey ⟨0, 256⟩) [exC6]).nextId = 1 ∧ nextTableId [[⟨0, []⟩], [⟨0, []⟩, ⟨1, []⟩]] = 2 := by decide

/-- regression witness D6: the table's last key carries the smallest sequence number; after a filtered replay the
unrepaired restore numbered a new write below the restored version -/
theorem d6_scan_counterexample :
    ((scan (write (openDBOld (Keys.ownsKey ⟨0, 128⟩) [exC6]) [0, 1, 97] false [42]) [0, 1]).map (·.val)) = [[7]] ∧
    ((scan (write (openDB (Keys.ownsKey ⟨0, 128⟩) [exC6]) [0, 1, 97] false [42]) [0, 1]).map (·.val)) = [[42]] ∧
    ((scanR (write (openDBOld (Keys.ownsKey ⟨0, 128⟩) [exC6]) [0, 1, 97] false [42]) [0, 1]).map (·.val)) = [[7]] := by
  decide +kernel

theorem d6_counterexample :
    (write (openDBOld (Keys.ownsKey ⟨0, 128⟩) [exC6]) [0, 1, 97] false [42]).seq = 2 ∧
    (write (openDB (Keys.ownsKey ⟨0, 128⟩) [exC6]) [0, 1, 97] false [42]).seq = 5 := by decide

/-- non-vacuity: scale 3 → 2 over 6 key groups with the checkpoints recorded in the order 2, 0, 1 -/
example : assignRanges (ranges 6 2) [⟨4, 6⟩, ⟨0, 2⟩, ⟨2, 4⟩] = [[1, 2], [0, 2]] := by decide

/-- the acknowledgement order (1, 0) that lost operator 0's state before the repair of D7 -/
example : assignRanges [⟨0, 128⟩, ⟨128, 256⟩] [⟨128, 256⟩, ⟨0, 128⟩] = [[1], [0]] := by decide

/-- regression witness D7: the two-pointer loop gave new operator 0 no checkpoint for that order -/
theorem d7_counterexample :
    assignRangesOld [⟨0, 128⟩, ⟨128, 256⟩] [⟨128, 256⟩, ⟨0, 128⟩] = [[], [0]] := by decide

end Rxn.C06
