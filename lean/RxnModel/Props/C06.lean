import RxnModel.Proofs.RescaleAssign
import RxnModel.Proofs.RescaleRestore
/-!
# C06 — rescaling redistributes checkpointed state completely and exclusively

Property theorems only. Model: `Model/Rescale.lean` (on top of `Model/KeySpace.lean`, `Model/Lsm.lean`,
`Model/Search.lean`); `Overlaps`/`IncludesKeyGroup`/`RangeKeyCompare` are regenerated from /repo on every run.
The code is modelled after the repairs D7, D8, D6, D36 (see `fixes/`); the unrepaired loops are kept for the
regression witnesses at the end.
-/
namespace Rxn.C06
open Rxn Lsm KeySpace Rescale

/-- `AssignRanges` is exact for every list of recorded checkpoint ranges, in whatever order they were recorded:
new operator `i` is handed recorded position `j` iff their key-group ranges overlap. -/
theorem assign_exact (to frm : List KGRange) (i j : Nat) (t : KGRange) (ht : to[i]? = some t) :
    ∃ l, (assignRanges to frm)[i]? = some l ∧
      (j ∈ l ↔ ∃ f, frm[j]? = some f ∧ t.overlaps f = true) := by
  refine ⟨assignLoop t frm 0, assignRanges_get to frm i t ht, ?_⟩
  rw [mem_assignLoop]
  simp

/-- nothing is lost: for `to = keyGroupRanges kgc n` and `from` ANY permutation of `keyGroupRanges kgc m`, the new
operator that owns key group `g` is handed the checkpoint of the old operator that owned `g`. -/
theorem assign_complete (kgc m n : Nat) (hm : 0 < m) (frm : List KGRange) (hperm : frm.Perm (ranges kgc m))
    (g : Nat) (hg : g < kgc) (i : Nat) (t : KGRange) (ht : (ranges kgc n)[i]? = some t) (hinc : t.includes g = true) :
    ∃ j f l, frm[j]? = some f ∧ f.includes g = true ∧
      (assignRanges (ranges kgc n) frm)[i]? = some l ∧ j ∈ l := by
  obtain ⟨r, hr, hrg⟩ := owner_exists kgc m g hm hg
  have hmem : r ∈ frm := hperm.mem_iff.mpr hr
  obtain ⟨j, hj⟩ := List.getElem?_of_mem hmem
  obtain ⟨l, hl, hiff⟩ := assign_exact (ranges kgc n) frm i j t ht
  exact ⟨j, r, l, hj, hrg, hl, hiff.mpr ⟨r, hj, overlaps_of_includes t r g hinc hrg⟩⟩

/-- the handles `Assembly.Deploy` passes on (`sliceu.Pick` of the assignment) are the recorded checkpoints at the
assigned positions, in recorded order -/
theorem pick_assigned {α : Type} (xs : List α) (idx : List Nat) (x : α) :
    x ∈ pick xs idx ↔ ∃ j, j ∈ idx ∧ xs[j]? = some x := by
  simp [pick, List.mem_filterMap]

/-! ## Restore of several checkpoints into one owner (`LoadCheckpointList`, `DB.Start` with `DataOwnership`) -/

/-- **merged_levels_valid**: for every handle order the deeper levels of the composite checkpoint are ascending and
pairwise disjoint in key range (what the binary searches of `LevelList` rely on), provided each old instance's
tables only span key groups of its own range and the ranges do not overlap. -/
theorem merged_levels_valid (ps : List (KGRange × Ckpt)) (hok : ∀ p ∈ ps, CkptOk p.1 p.2)
    (hdis : ps.Pairwise (fun a b => a.1.overlaps b.1 = false)) (i : Nat) (hi : 1 ≤ i) (l : List Tbl)
    (hl : (mergeLevels (ps.map (·.2)))[i]? = some l) : LevelValid l :=
  mergeLevels_valid ps hok hdis i hi l hl

/-- **level 0 of the composite** (what `merged_levels_valid` does not cover, because level 0 is not a sorted level):
level 0 of the merged checkpoint is exactly the handles' level-0 lists appended in handle order — never re-ordered —
so every handle's tables stay one contiguous block in their stored order, which is their age order (flushes
append), and the newest-first lookup `l0Get` visits them newest first. -/
theorem merged_level0_keeps_age_order (cs : List Ckpt) (n : Nat) (hn : 1 ≤ n) (hne : cs ≠ [])
    (hnl : ∀ c ∈ cs, c.levels.length = n) :
    (mergeLevels cs)[0]? = some (concatLevel cs 0) ∧
    ∀ (x y : List Ckpt) (c : Ckpt), cs = x ++ c :: y →
      concatLevel cs 0 = concatLevel x 0 ++ (c.levels.getD 0 [] ++ concatLevel y 0) := by
  refine ⟨mergeLevels_level0 cs n hn hne hnl, ?_⟩
  intro x y c h
  rw [h, concatLevel_split]

/-- what level 0 must satisfy for reads: insertion order = age order *per source* is enough, because different
sources hold disjoint key groups — the composite's newest-first level-0 lookup of a key equals the lookup in the
level 0 of the key's old owner alone, wherever the other handles' tables are placed. -/
theorem level0_lookup_per_source (n : Nat) (pre post : List (KGRange × Ckpt)) (rj : KGRange) (cj : Ckpt)
    (hpre : ∀ p ∈ pre, OldOk n p ∧ p.1.overlaps rj = false) (hpost : ∀ p ∈ post, OldOk n p ∧ p.1.overlaps rj = false)
    (k : Bytes) (hlen : 2 ≤ k.length) (hk : rj.includes (kgOf k) = true) :
    l0Get (concatLevel ((pre ++ (rj, cj) :: post).map (·.2)) 0) k = l0Get (cj.levels.getD 0 []) k :=
  restore_level0 n pre post rj cj hpre hpost k hlen hk

/-- **seq_above_loaded**: after `Open`, for any handles and ownership, the instance's sequence number is at least
every sequence number in every loaded table, everything replayed from the WALs is numbered above all of them and
is owned (nothing foreign is replayed), and so is every later write. -/
theorem seq_above_loaded (own : Bytes → Bool) (c : Ckpt) (cs : List Ckpt) :
    let s := openDB own (c :: cs)
    (∀ l ∈ s.levels, ∀ t ∈ l, ∀ e ∈ t.run, e.seq ≤ s.seq) ∧
    (∃ m, s.mems = [m] ∧ ∀ x ∈ m, own x.key = true ∧ x.seq ≤ s.seq ∧
        ∀ l ∈ s.levels, ∀ t ∈ l, ∀ e ∈ t.run, e.seq < x.seq) ∧
    (∀ k d v, (write s k d v).seq = s.seq + 1 ∧ (write s k d v).levels = s.levels) := by
  intro s
  have hinv := openDB_inv own c cs
  have htab : ∀ l ∈ s.levels, ∀ t ∈ l, ∀ e ∈ t.run, e.seq ≤ latestSeq (mergeLevels (c :: cs)) := by
    intro l hl t ht e he
    have hl' : l ∈ mergeLevels (c :: cs) := by rw [← hinv.levels]; exact hl
    exact Nat.le_trans (seq_le_tblEndSeq t e he)
      (tblEndSeq_le_latest _ t (List.mem_flatten.mpr ⟨l, hl', ht⟩))
  obtain ⟨m, hm, hall⟩ := hinv.mems
  refine ⟨fun l hl t ht e he => Nat.le_trans (htab l hl t ht e he) hinv.seq, ⟨m, hm, ?_⟩, ?_⟩
  · intro x hx
    obtain ⟨h1, h2, h3⟩ := hall x hx
    exact ⟨h3, h2, fun l hl t ht e he => Nat.lt_of_le_of_lt (htab l hl t ht e he) h1⟩
  · intro k d v
    rw [write_single s m hm hinv.reading]
    exact ⟨rfl, rfl⟩

/-- a write after the restore is what the next read of the key returns (C03 behaviour on restored keys) -/
theorem write_after_restore_wins (own : Bytes → Bool) (c : Ckpt) (cs : List Ckpt) (k : Bytes) (d : Bool) (v : Bytes) :
    answer (getR (write (openDB own (c :: cs)) k d v) k) = if d then none else some v := by
  have hinv := openDB_inv own c cs
  obtain ⟨m, hm, _⟩ := hinv.mems
  rw [write_single _ m hm hinv.reading]
  simp only [getR, memGet, List.reverse_cons, List.reverse_nil, List.nil_append, firstSome, lookup_insert, wEntry_key,
    if_true]
  cases d <;> simp [answer, wEntry]

/-- **rescale_restore** (partial: see the excluded condition below). Restore ANY list of old checkpoints in ANY
handle order into an instance with ownership test `own`. For every key `k` the instance owns, whose key group belonged
to old instance `(rj, cj)`, `Get k` returns exactly what `cj`'s instance answered at its checkpoint (nothing lost, and
no other instance's data is returned for it).

Excluded condition (open finding D37): `OldOk` requires that every table and WAL record of every old checkpoint only
carries key groups of that old instance's own range. This holds for instances that were started empty or restored
from handles they fully owned; it fails for an instance that was itself restored from a handle it only partly owned
(a second rescale), whose tables still hold — and after compaction re-write — entries of keys it does not own.
Full statement (false of the code, witness in `fixes/D37_demo_test.go`): the same without the `tables`/`wal` range
conditions of `OldOk`. -/
theorem rescale_restore_partial (own : Bytes → Bool) (n : Nat) (pre post : List (KGRange × Ckpt))
    (rj : KGRange) (cj : Ckpt)
    (hok : ∀ p ∈ pre ++ (rj, cj) :: post, OldOk n p)
    (hdis : (pre ++ (rj, cj) :: post).Pairwise (fun a b => a.1.overlaps b.1 = false))
    (k : Bytes) (hlen : 2 ≤ k.length) (hk : rj.includes (kgOf k) = true) (hown : own k = true) :
    answer (getR (openDB own ((pre ++ (rj, cj) :: post).map (·.2))) k) = ckptAnswer cj k :=
  restore_get own n pre post rj cj hok hdis k hlen hk hown

/-! non-vacuity: two old instances (ranges [0,128) and [128,256)), the second one listed first -/

def exC1 : Ckpt := ⟨[[⟨0, [⟨[0, 1, 97], 1, false, [1]⟩]⟩], [⟨1, [⟨[0, 1, 99], 1, false, [3]⟩]⟩]], [⟨[0, 1, 98], false, [2]⟩]⟩
def exC2 : Ckpt := ⟨[[], [⟨0, [⟨[0, 200, 97], 5, false, [9]⟩]⟩]], [⟨[0, 200, 98], true, []⟩]⟩

theorem exC1_ok : OldOk 2 (⟨0, 128⟩, exC1) := by
  refine ⟨⟨?_, ?_⟩, ?_, rfl⟩
  · intro l hl t ht
    simp only [exC1, List.mem_cons, List.not_mem_nil, or_false] at hl
    rcases hl with rfl | rfl <;> (simp only [List.mem_cons, List.not_mem_nil, or_false] at ht; subst ht) <;>
      exact ⟨⟨by decide, by decide, by decide, by decide⟩, by unfold TblOk; decide⟩
  · intro i l hi hl
    match i, hi with
    | 1, _ =>
      simp only [exC1, List.getElem?_cons_succ, List.getElem?_cons_zero, Option.some.injEq] at hl
      subst hl
      exact ⟨by intro t ht; simp only [List.mem_cons, List.not_mem_nil, or_false] at ht; subst ht; unfold TblOk; decide,
        List.pairwise_singleton _ _⟩
    | i + 2, _ => simp [exC1] at hl
  · intro w hw
    simp only [exC1, List.mem_cons, List.not_mem_nil, or_false] at hw
    subst hw; decide

theorem exC2_ok : OldOk 2 (⟨128, 256⟩, exC2) := by
  refine ⟨⟨?_, ?_⟩, ?_, rfl⟩
  · intro l hl t ht
    simp only [exC2, List.mem_cons, List.not_mem_nil, or_false] at hl
    rcases hl with rfl | rfl
    · simp at ht
    · simp only [List.mem_cons, List.not_mem_nil, or_false] at ht; subst ht
      exact ⟨⟨by decide, by decide, by decide, by decide⟩, by unfold TblOk; decide⟩
  · intro i l hi hl
    match i, hi with
    | 1, _ =>
      simp only [exC2, List.getElem?_cons_succ, List.getElem?_cons_zero, Option.some.injEq] at hl
      subst hl
      exact ⟨by intro t ht; simp only [List.mem_cons, List.not_mem_nil, or_false] at ht; subst ht; unfold TblOk; decide,
        List.pairwise_singleton _ _⟩
    | i + 2, _ => simp [exC2] at hl
  · intro w hw
    simp only [exC2, List.mem_cons, List.not_mem_nil, or_false] at hw
    subst hw; decide

/-- the hypotheses of `rescale_restore_partial` are satisfiable with two handles listed in descending key order, and
the theorem then gives the restored values (one from a level-0 table, one from a deeper level, one from the WAL) -/
example :
    let s := openDB (Keys.ownsKey ⟨0, 256⟩) [exC2, exC1]
    answer (getR s [0, 1, 97]) = some [1] ∧ answer (getR s [0, 1, 99]) = some [3] ∧
      answer (getR s [0, 1, 98]) = some [2] ∧ answer (getR s [0, 200, 97]) = some [9] ∧
      answer (getR s [0, 200, 98]) = none := by
  have hok1 : ∀ p ∈ [((⟨128, 256⟩ : KGRange), exC2)] ++ ((⟨0, 128⟩ : KGRange), exC1) :: [], OldOk 2 p := by
    intro p hp
    simp only [List.cons_append, List.nil_append, List.mem_cons, List.not_mem_nil, or_false] at hp
    rcases hp with rfl | rfl
    · exact exC2_ok
    · exact exC1_ok
  have hd1 : ([((⟨128, 256⟩ : KGRange), exC2)] ++ ((⟨0, 128⟩ : KGRange), exC1) :: []).Pairwise
      (fun (a b : KGRange × Ckpt) => a.1.overlaps b.1 = false) := by
    simp only [List.cons_append, List.nil_append, List.pairwise_cons, List.mem_cons, List.not_mem_nil, or_false,
      forall_eq, List.Pairwise.nil, and_true, false_implies, implies_true]
    decide
  have hok2 : ∀ p ∈ ([] : List (KGRange × Ckpt)) ++ ((⟨128, 256⟩ : KGRange), exC2) :: [((⟨0, 128⟩ : KGRange), exC1)], OldOk 2 p := by
    intro p hp; exact hok1 p (by simpa using hp)
  have hd2 : (([] : List (KGRange × Ckpt)) ++ ((⟨128, 256⟩ : KGRange), exC2) :: [((⟨0, 128⟩ : KGRange), exC1)]).Pairwise
      (fun (a b : KGRange × Ckpt) => a.1.overlaps b.1 = false) := by simpa using hd1
  have h1 := fun k hl hk ho => rescale_restore_partial (Keys.ownsKey ⟨0, 256⟩) 2 [(⟨128, 256⟩, exC2)] [] ⟨0, 128⟩ exC1 hok1 hd1 k hl hk ho
  have h2 := fun k hl hk ho => rescale_restore_partial (Keys.ownsKey ⟨0, 256⟩) 2 [] [(⟨0, 128⟩, exC1)] ⟨128, 256⟩ exC2 hok2 hd2 k hl hk ho
  intro s
  refine ⟨?_, ?_, ?_, ?_, ?_⟩
  · exact (h1 [0, 1, 97] (by decide) (by decide) (by decide)).trans (by decide)
  · exact (h1 [0, 1, 99] (by decide) (by decide) (by decide)).trans (by decide)
  · exact (h1 [0, 1, 98] (by decide) (by decide) (by decide)).trans (by decide)
  · exact (h2 [0, 200, 97] (by decide) (by decide) (by decide)).trans (by decide)
  · exact (h2 [0, 200, 98] (by decide) (by decide) (by decide)).trans (by decide)

/-- level-0 age order matters: the old instance holds two level-0 tables, the newer one starts at a smaller key and
overwrites `[0,32,109]`; the restore from two handles answers with the newer version (an implementation that sorted
level 0 by start key would visit the older table first) -/
def exL0 : Ckpt := ⟨[[⟨0, [⟨[0, 32, 109], 1, false, [1]⟩, ⟨[0, 112, 122], 2, false, [7]⟩]⟩,
                      ⟨1, [⟨[0, 16, 97], 3, false, [3]⟩, ⟨[0, 32, 109], 4, false, [4]⟩]⟩], []], []⟩
def exL0b : Ckpt := ⟨[[⟨0, [⟨[0, 144, 113], 1, false, [5]⟩]⟩], []], []⟩

example :
    (l0Get (concatLevel [exL0b, exL0] 0) [0, 32, 109]).map (·.val) = some [4] ∧
    (l0Get (concatLevel [exL0, exL0b] 0) [0, 32, 109]).map (·.val) = some [4] ∧
    -- the same three tables in start-key order (newer table first, so visited last): the overwritten version
    (l0Get [⟨1, [⟨[0, 16, 97], 3, false, [3]⟩, ⟨[0, 32, 109], 4, false, [4]⟩]⟩,
            ⟨0, [⟨[0, 32, 109], 1, false, [1]⟩, ⟨[0, 112, 122], 2, false, [7]⟩]⟩,
            ⟨0, [⟨[0, 144, 113], 1, false, [5]⟩]⟩] [0, 32, 109]).map (·.val) = some [1] := by
  decide

/-- regression witness D8: with the handles in descending key order the unsorted deeper level hid the first table -/
theorem d8_counterexample :
    getR (openDBOld (Keys.ownsKey ⟨0, 256⟩) [exC2, exC1]) [0, 200, 97] = none ∧
    ckptAnswer exC2 [0, 200, 97] = some [9] := by decide +kernel

/-- regression witness D6: the table's last key carries the smallest sequence number; after a filtered replay the
unrepaired restore numbered a new write below the restored version -/
def exC6 : Ckpt := ⟨[[⟨0, [⟨[0, 1, 97], 4, false, [7]⟩, ⟨[0, 200, 97], 1, false, [8]⟩]⟩]], []⟩

theorem d6_counterexample :
    (write (openDBOld (Keys.ownsKey ⟨0, 128⟩) [exC6]) [0, 1, 97] false [42]).seq = 2 ∧
    (write (openDB (Keys.ownsKey ⟨0, 128⟩) [exC6]) [0, 1, 97] false [42]).seq = 5 := by decide

/-- non-vacuity: scale 3 → 2 over 6 key groups with the checkpoints recorded in the order 2, 0, 1 -/
example : assignRanges (ranges 6 2) [⟨4, 6⟩, ⟨0, 2⟩, ⟨2, 4⟩] = [[1, 2], [0, 2]] := by decide

/-- the acknowledgement order (1, 0) that lost operator 0's state before the repair of D7 -/
example : assignRanges [⟨0, 128⟩, ⟨128, 256⟩] [⟨128, 256⟩, ⟨0, 128⟩] = [[1], [0]] := by decide

/-- regression witness D7: the two-pointer loop gave new operator 0 no checkpoint for that order -/
theorem d7_counterexample :
    assignRangesOld [⟨0, 128⟩, ⟨128, 256⟩] [⟨128, 256⟩, ⟨0, 128⟩] = [[], [0]] := by decide

end Rxn.C06
