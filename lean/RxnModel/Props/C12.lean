import RxnModel.Generated.Facts
import RxnModel.Proofs.Store
import RxnModel.Proofs.Publish
/-!
# C12 — a job checkpoint is all-or-nothing and checkpoint ids only grow

Property theorems only. Model: `Model/Store.lean` (one step per public call of `snapshots.Store`, each of
which is one `stateMu` section, so call lists are all schedules of concurrent callers); the restart part uses
`Model/Publish.lean`. The model describes the code after the D12 repair (a repeated source-runner
acknowledgement is ignored instead of appending its split states again).
-/
namespace Rxn.C12
open Rxn Rxn.Store

/-- All-or-nothing: a snapshot handed to the publisher has, for every expected operator, exactly one entry,
acknowledged with this snapshot's id by a call in the history; no other entries; every expected source runner
acknowledged this id exactly once and the split states are exactly the reported ones, each runner's once. -/
theorem publish_complete (s0 : St) (hb : Booted s0) (calls : List Call) (snap : Snap)
    (h : snap ∈ published s0 calls) :
    (∀ o ∈ snap.expectedOps, ∃ e ∈ snap.opEntries, e.op = o ∧ e.cp = snap.id ∧ Call.opAck o snap.id e.tag ∈ calls) ∧
    (snap.opEntries.map (·.op)).Nodup ∧
    (∀ e ∈ snap.opEntries, e.op ∈ snap.expectedOps ∧ e.cp = snap.id) ∧
    (∀ r ∈ snap.expectedSrs, ∃ a ∈ snap.srAcks, a.1 = r ∧ Call.srAck r snap.id a.2 ∈ calls) ∧
    (snap.srAcks.map (·.1)).Nodup ∧
    (∀ a ∈ snap.srAcks, a.1 ∈ snap.expectedSrs) ∧
    snap.splitStates = snap.srAcks.flatMap (·.2) := by
  have hg := published_good calls [] s0 (inv_booted hb []) snap h
  simp only [List.nil_append] at hg
  obtain ⟨hw, hc, hf⟩ := hg
  simp only [Snap.isComplete, Bool.and_eq_true, all_true_iff] at hc
  refine ⟨?_, hw.opEntNodup, ?_, ?_, hw.srNodup, ?_, hw.splits⟩
  · intro o ho
    obtain ⟨⟨o', b⟩, hm, rfl⟩ := List.mem_map.mp ho
    have hb : b = true := hc.2 _ hm
    subst hb
    obtain ⟨e, he, heq⟩ := List.mem_map.mp ((hw.opDone o').mp hm)
    refine ⟨e, he, heq, hw.opCp e he, ?_⟩
    have := hf.1 e he
    rw [heq] at this; exact this
  · intro e he
    have : (e.op, true) ∈ snap.ops := (hw.opDone e.op).mpr (List.mem_map.mpr ⟨e, he, rfl⟩)
    exact ⟨List.mem_map.mpr ⟨_, this, rfl⟩, hw.opCp e he⟩
  · intro r hr
    obtain ⟨⟨r', b⟩, hm, rfl⟩ := List.mem_map.mp hr
    have hb : b = true := hc.1 _ hm
    subst hb
    obtain ⟨a, ha, heq⟩ := List.mem_map.mp ((hw.srDone r').mp hm)
    refine ⟨a, ha, heq, ?_⟩
    have := hf.2 a ha
    rw [heq] at this; exact this
  · intro a ha
    have : (a.1, true) ∈ snap.srs := (hw.srDone a.1).mpr (List.mem_map.mpr ⟨a, ha, rfl⟩)
    exact List.mem_map.mpr ⟨_, this, rfl⟩

/-- An acknowledgement is *bad* if nothing is pending, it names another id, or its sender is not expected
or has already acknowledged. -/
def badAck (s : St) : Call → Prop
  | .opAck op cp _ => ∀ p, s.pending = some p → p.id ≠ cp ∨ p.ops.lookup op ≠ some false
  | .srAck sr cp _ => ∀ p, s.pending = some p → p.id ≠ cp ∨ p.srs.lookup sr ≠ some false
  | _ => False

/-- Duplicate, late, mismatched or foreign acknowledgements change nothing and publish nothing
(for a checkpoint that expects at least one node). -/
theorem bad_acks_harmless (s : St) (hr : Reachable s) (c : Call) (hb : badAck s c)
    (hne : ∀ p, s.pending = some p → p.ops ≠ [] ∨ p.srs ≠ []) :
    (step s c).1 = s ∧ (step s c).2.2 = none := by
  obtain ⟨hist, hi⟩ := reachable_inv hr
  cases c with
  | create ops srs => exact absurd hb (by simp [badAck])
  | savepoint ops srs => exact absurd hb (by simp [badAck])
  | redeploy => exact absurd hb (by simp [badAck])
  | opAck op cp tag =>
    cases hp : s.pending with
    | none => simp [step, hp]
    | some p =>
      simp only [step, hp]
      by_cases hid : p.id = cp
      · rcases hb p hp with h | h
        · exact absurd hid h
        · rcases addOp_cases p op cp tag with ⟨hl, _⟩ | ⟨_, he⟩
          · exact absurd hl h
          · simp only [ne_eq, hid, not_true_eq_false, if_false, he]
            obtain ⟨_, _, _, h4⟩ := hi p hp
            rcases finishIfComplete_spec s p with ⟨hc, _⟩ | ⟨_, he2⟩
            · have := h4 hc
              rcases hne p hp with h' | h'
              · exact absurd this.1 h'
              · exact absurd this.2 h'
            · rw [he2]
              refine ⟨?_, rfl⟩
              cases s; simp only at hp; simp [hp]
      · simp [hid]
  | srAck sr cp splits =>
    cases hp : s.pending with
    | none => simp [step, hp]
    | some p =>
      simp only [step, hp]
      by_cases hid : p.id = cp
      · rcases hb p hp with h | h
        · exact absurd hid h
        · simp only [ne_eq, hid, not_true_eq_false, if_false]
          rcases addSr_cases p sr splits with ⟨_, he⟩ | ⟨_, he⟩ | ⟨hl, _⟩
          · rw [he]; simp
          · rw [he]
            simp only
            obtain ⟨_, _, _, h4⟩ := hi p hp
            rcases finishIfComplete_spec s p with ⟨hc, _⟩ | ⟨_, he2⟩
            · have := h4 hc
              rcases hne p hp with h' | h'
              · exact absurd this.1 h'
              · exact absurd this.2 h'
            · rw [he2]
              refine ⟨?_, rfl⟩
              cases s; simp only at hp; simp [hp]
          · exact absurd hl h
      · simp [hid]

/-- At most one checkpoint is in progress: while one is pending `CreateCheckpoint` is refused and changes
nothing, and over any call sequence (hence every prefix), redeployments included, every started checkpoint is
finished, abandoned by a redeployment, or the single pending one. -/
theorem one_pending (s0 : St) (hb : Booted s0) (calls : List Call) :
    (createdIds s0 calls).length ≤ (published s0 calls).length + abandoned s0 calls + 1 ∧
    ∀ (s : St) (p : Snap) (ops srs : List Nat), s.pending = some p →
      step s (.create ops srs) = (s, .inProgress, none) := by
  refine ⟨?_, ?_⟩
  · have := created_le_published calls s0
    have hn : s0.pending.isSome = false := by rw [hb]; rfl
    rw [hn] at this
    simpa using this
  · intro s p ops srs hp; simp [step, hp]

/-- A redeployment (`RegisterSourceSplitter`) abandons the pending checkpoint and leaves the id counter alone;
afterwards — and in every reachable state — an acknowledgement naming any id other than the last one handed
out (an abandoned or finished checkpoint, or a future one) changes nothing and publishes nothing. Together
with `ids_strictly_increase` (the next checkpoint gets a larger id than the abandoned one) late
acknowledgements of an abandoned checkpoint can never enter a later checkpoint. -/
theorem stale_acks_rejected (s : St) (hr : Reachable s) :
    step s .redeploy = ({ s with pending := none }, .ok, none) ∧
    ∀ cp, cp ≠ s.cid → ∀ op tag sr splits,
      ((step s (.opAck op cp tag)).1 = s ∧ (step s (.opAck op cp tag)).2.2 = none ∧
        (step s (.opAck op cp tag)).2.1 ≠ .ok) ∧
      ((step s (.srAck sr cp splits)).1 = s ∧ (step s (.srAck sr cp splits)).2.2 = none ∧
        (step s (.srAck sr cp splits)).2.1 ≠ .ok) := by
  obtain ⟨hist, hi⟩ := reachable_inv hr
  refine ⟨rfl, ?_⟩
  intro cp hcp op tag sr splits
  cases hp : s.pending with
  | none => simp [step, hp]
  | some p =>
    have hid : p.id ≠ cp := by
      have := (hi p hp).2.2.1
      omega
    simp [step, hp, hid]

/-- Ids handed out strictly increase, and so do the ids of the published snapshots. -/
theorem ids_strictly_increase (s0 : St) (hb : Booted s0) (calls : List Call) :
    (createdIds s0 calls).Pairwise (· < ·) ∧ ((published s0 calls).map (·.id)).Pairwise (· < ·) ∧
    (∀ n ∈ createdIds s0 calls, s0.cid < n) ∧ (∀ snap ∈ published s0 calls, s0.cid < snap.id) :=
  ⟨created_pairwise calls _, published_pairwise calls [] _ (inv_booted hb []), created_gt calls s0, by
    intro snap hs
    have := published_ge calls [] s0 (inv_booted hb []) snap hs
    have hn : s0.pending.isSome = false := by rw [hb]; rfl
    rw [hn] at this
    simpa using this⟩

/- FULL STATEMENT (false on the code, D55): "ids strictly increase, also across job restarts", i.e. an id handed
out after a restart is greater than every id handed out before it.
What holds (`_partial`): the excluded case is exactly an id that was handed out but whose snapshot file had not
been written when the job process was lost — such an id IS handed out again (`ids_reused_after_crash_counterexample`). -/
/-- …across restarts, PARTIAL: in every reachable state of the whole system (any starting storage, any
interleaving of calls, writes, lock sections, removals, deliveries and crashes) a newly handed out id is
greater than every id that was ever *persisted* and than every id handed out since the last restart. -/
theorem ids_increase_across_restarts_partial (files0 : List Nat) (as : List Publish.Act) (s : Publish.Sys)
    (obs : List Publish.Obs) (h : Publish.run (Publish.init files0) as = some (s, obs)) (c : Call) :
    ∀ n ∈ (step s.store c).2.1.created, (∀ w ∈ s.pub.written, w < n) ∧ s.store.cid < n ∧
      (step s.store c).1.cid = n := by
  have hi := Publish.run_inv as (Publish.inv_init files0) h
  intro n hn
  rcases step_shape s.store c with h' | h' | h' | h' <;> rw [h'.1] at hn <;> simp at hn
  subst hn
  refine ⟨fun w hw => ?_, Nat.lt_succ_self _, h'.2.2.2.1⟩
  have := hi.wrCid w hw
  omega

/-- the ids a trace handed out (`CreateCheckpoint` / `CreateSavepoint(created)` results), in order -/
def handedOut : List Publish.Obs → List Nat
  | [] => []
  | .res r :: rest => r.created ++ handedOut rest
  | _ :: rest => handedOut rest

/-- D55 (open): checkpoint 1 is started, the job process is lost before it is published, the restarted job
hands out id 1 again, and acknowledgements made for the old checkpoint 1 complete the new one: it is handed to
the publisher with the old operator entry and split state. Ids do not strictly increase across restarts. -/
theorem ids_reused_after_crash_counterexample :
    (Publish.run (Publish.init [])
      [.call (.create [1] [1]), .crash, .call (.create [1] [1]), .call (.opAck 1 1 99), .call (.srAck 1 1 [5])]).map
      (fun r => (handedOut r.2, r.1.pub.finished.map (fun sn => (sn.id, sn.opEntries.map (·.tag), sn.splitStates))))
    = some ([1, 1], [(1, [99], [5])]) := by decide

/-- "Persisted, used for recovery, announced only after all acknowledgements": in every reachable state of the
whole system every snapshot file ever written, every file present, every completed (current) checkpoint and every
announced id either was in the storage when the job first started, or is the id of a snapshot that was handed to
the publisher — and each of those is complete: exactly one stored entry per expected operator, carrying that id,
no other entries, every expected source runner recorded exactly once and its split states once. -/
theorem persisted_only_complete (files0 : List Nat) (as : List Publish.Act) (s : Publish.Sys)
    (obs : List Publish.Obs) (h : Publish.run (Publish.init files0) as = some (s, obs)) (n : Nat)
    (hn : n ∈ s.pub.written ∨ n ∈ s.pub.files ∨ n ∈ s.pub.completed ∨ n ∈ s.pub.delivered ∨
      n ∈ s.pub.notifs.flatten) :
    n ∈ files0 ∨ ∃ snap ∈ s.pub.finished, snap.id = n ∧
      (∀ o ∈ snap.expectedOps, ∃ e ∈ snap.opEntries, e.op = o ∧ e.cp = snap.id) ∧
      (snap.opEntries.map (·.op)).Nodup ∧
      (∀ e ∈ snap.opEntries, e.op ∈ snap.expectedOps ∧ e.cp = snap.id) ∧
      (∀ r ∈ snap.expectedSrs, r ∈ snap.srAcks.map (·.1)) ∧
      (snap.srAcks.map (·.1)).Nodup ∧
      (∀ a ∈ snap.srAcks, a.1 ∈ snap.expectedSrs) ∧
      snap.splitStates = snap.srAcks.flatMap (·.2) := by
  have hi := Publish.run_inv as (Publish.inv_init files0) h
  have hinit : s.pub.initial = files0 := Publish.run_initial as h
  have hw : n ∈ s.pub.written := by
    rcases hn with hn | hn | hn | hn | hn
    · exact hn
    · exact hi.fileWr n hn
    · exact hi.compWr n hn
    · exact hi.notifWr n (List.mem_append_left _ hn)
    · exact hi.notifWr n (List.mem_append_right _ hn)
  rcases hi.wrFin n hw with h0 | ⟨snap, hs, hid⟩
  · left; rw [← hinit]; exact h0
  · right
    obtain ⟨hwf, hc⟩ := hi.finGood snap hs
    exact ⟨snap, hs, hid, complete_entries hwf hc⟩

/-- The same two facts for BOTH job configurations (without a savepoint URI, or configured with the savepoint of
checkpoint `k`, re-entering the savepoint path at every crash): every snapshot file ever written or present is an
initial file or a complete snapshot handed to the publisher, and a newly handed out id exceeds every persisted id. -/
theorem persisted_complete_any_config (s0 : Publish.Sys)
    (h0 : (∃ files0, s0 = Publish.init files0) ∨ (∃ k files0, s0 = Publish.initSavepoint k files0))
    (as : List Publish.Act) (s : Publish.Sys) (obs : List Publish.Obs) (h : Publish.run s0 as = some (s, obs)) :
    (∀ n, n ∈ s.pub.written ∨ n ∈ s.pub.files →
      n ∈ s0.pub.initial ∨ ∃ snap ∈ s.pub.finished, snap.id = n ∧ snap.WF ∧ snap.isComplete = true) ∧
    (∀ c, ∀ n ∈ (step s.store c).2.1.created, ∀ w ∈ s.pub.written, w < n) := by
  have hc0 : Publish.InvCore s0 := by
    rcases h0 with ⟨f, rfl⟩ | ⟨k, f, rfl⟩
    · exact (Publish.inv_init f).core
    · exact Publish.core_initSavepoint k f
  have hi := Publish.run_core as hc0 h
  have hinit : s.pub.initial = s0.pub.initial := Publish.run_initial as h
  refine ⟨?_, ?_⟩
  · intro n hn
    have hw : n ∈ s.pub.written := by
      rcases hn with hn | hn
      · exact hn
      · exact hi.fileWr n hn
    rcases hi.wrFin n hw with h1 | ⟨snap, hs, hid⟩
    · left; rw [← hinit]; exact h1
    · right; exact ⟨snap, hs, hid, hi.finGood snap hs⟩
  · intro c n hn w hw
    rcases step_shape s.store c with h' | h' | h' | h' <;> rw [h'.1] at hn <;> simp at hn
    subst hn
    have := hi.wrCid w hw
    omega

/-- Restart from a savepoint (`LoadCheckpoint` with a savepoint URI) on any storage — the job's own, with
whatever snapshot files and history it has (`files`, `written` as in every reachable state: each persisted id is
bounded by a file still present), or a fresh one: every id handed out afterwards, over all call sequences, is
greater than the restored savepoint's id, than every id ever persisted in that storage and than the id of every
savepoint artifact existing there (`spIds`, D66), and ids keep increasing strictly. -/
theorem ids_after_savepoint_restart (id : Nat) (files written delivered spIds : List Nat)
    (hw : ∀ w ∈ written, ∃ f ∈ files, w ≤ f) (calls : List Call) :
    let s0 := (Publish.bootSavepoint id files written delivered [] [] spIds).store
    (∀ n ∈ createdIds s0 calls, id < n ∧ (∀ w ∈ written, w < n) ∧ (∀ f ∈ files, f < n) ∧ (∀ k ∈ spIds, k < n)) ∧
    (createdIds s0 calls).Pairwise (· < ·) ∧
    ((published s0 calls).map (·.id)).Pairwise (· < ·) ∧
    (∀ snap ∈ published s0 calls, id < snap.id ∧ ∀ w ∈ written, w < snap.id) := by
  intro s0
  have hcid : s0.cid = max id (max (Publish.maxL files) (Publish.maxL spIds)) := rfl
  have hpend : s0.pending = none := rfl
  have hi : Inv [] s0 := by intro p hp; rw [hpend] at hp; exact absurd hp (by simp)
  have hwle : ∀ w ∈ written, w ≤ Publish.maxL files := by
    intro w hwm
    obtain ⟨f, hf, hle⟩ := hw w hwm
    exact Nat.le_trans hle (Publish.le_maxL hf)
  refine ⟨?_, created_pairwise calls _, published_pairwise calls [] _ hi, ?_⟩
  · intro n hn
    have := created_gt calls s0 n hn
    rw [hcid] at this
    refine ⟨by omega, fun w hwm => ?_, fun f hf => ?_, fun k hk => ?_⟩
    · have := hwle w hwm; omega
    · have := Publish.le_maxL hf; omega
    · have := Publish.le_maxL hk; omega
  · intro snap hs
    have := published_ge calls [] s0 hi snap hs
    rw [hpend, hcid] at this
    simp at this
    refine ⟨by omega, fun w hwm => ?_⟩
    have := hwle w hwm; omega

/-- The storage of every reachable state satisfies the hypothesis of `ids_after_savepoint_restart`. -/
theorem reachable_storage_bounded (files0 : List Nat) (as : List Publish.Act) (s : Publish.Sys)
    (obs : List Publish.Obs) (h : Publish.run (Publish.init files0) as = some (s, obs)) :
    ∀ w ∈ s.pub.written, ∃ f ∈ s.pub.files, w ≤ f :=
  (Publish.run_inv as (Publish.inv_init files0) h).wrFile

/-- D49 (repaired): the old rule took the counter from the savepoint alone, so after rolling back to savepoint
1 in a storage that holds checkpoint 3 the id 2 was handed out again; the repaired rule continues with 4. -/
theorem oldSavepointCounter_counterexample :
    createdIds (loadFromSavepointOld 1) [.create [] [1]] = [2] ∧
    createdIds (Publish.bootSavepoint 1 [3] [3, 2, 1] []).store [.create [] [1]] = [4] := by decide

/-- The regenerated code shape the sequential model relies on: every public call of the store is one `stateMu`
critical section, `finishSnapshot` keeps that lock across `sourceSplitter.Checkpoint()` (so a finished snapshot
is never visible as pending to another call), and `LoadCheckpoint` sets the id counter to the maximum of the loaded
checkpoint's id and the newest local snapshot file's id. -/
theorem calls_atomic :
    Facts.c12CallsAtomic = 1 ∧ Facts.c12FinishHoldsLock = 1 ∧ Facts.c12LoadCounterMaxLocal = 1 := by decide

/-- A savepoint request while a checkpoint is pending folds into it: same id, nothing new is started,
nothing is published by the request, only the flag changes. -/
theorem savepoint_folds (s : St) (p : Snap) (ops srs : List Nat) (hp : s.pending = some p)
    (hs : p.isSavepoint = false) :
    step s (.savepoint ops srs) = ({ s with pending := some { p with isSavepoint := true } }, .spExisting p.id, none) := by
  simp [step, hp, hs]

/-- D12 (repaired): the old rule appended a runner's split states again on a repeated acknowledgement. -/
theorem oldDuplicateAck_counterexample :
    let p0 : Snap := { (newSnap 1 [1] [1] false) with srs := [(1, true)], srAcks := [(1, [7])], splitStates := [7] }
    (addSrOld p0 1 [7]).map (·.splitStates) = some [7, 7] ∧ (addSr p0 1 [7]).map (·.splitStates) = some [7] := by
  decide

/-! ## non-vacuity -/

def demo : List Call :=
  [.create [1, 2] [1], .srAck 1 1 [4, 5], .srAck 1 1 [4, 5], .opAck 9 1 0, .opAck 1 2 0, .opAck 1 1 7,
   .create [1] [1], .savepoint [1] [1], .opAck 2 1 8, .opAck 2 1 8, .create [1] [1], .srAck 1 2 [], .opAck 1 2 3]

example : (published St.init demo).map (fun s => (s.id, s.opEntries.map (fun e => (e.op, e.tag)), s.splitStates, s.isSavepoint))
    = [(1, [(1, 7), (2, 8)], [4, 5], true), (2, [(1, 3)], [], false)] := by decide

example : createdIds St.init demo = [1, 2] := by decide

/-- a redeployment while checkpoint 1 is pending (op 1 has acknowledged): the next checkpoint is 2, the late
acknowledgement of 1 is refused and 2 is published with the acknowledgements sent for it -/
def demoRedeploy : List Call :=
  [.create [1, 2] [1], .opAck 1 1 5, .redeploy, .create [1, 2] [1], .opAck 2 1 6, .opAck 1 2 7, .opAck 2 2 8,
   .srAck 1 2 [3]]

example : createdIds St.init demoRedeploy = [1, 2] ∧ abandoned St.init demoRedeploy = 1 ∧
    (published St.init demoRedeploy).map (fun s => (s.id, s.opEntries.map (fun e => (e.op, e.tag)), s.splitStates))
      = [(2, [(1, 7), (2, 8)], [3])] := by decide

example : ∃ s c, Reachable s ∧ badAck s c ∧ (∀ p, s.pending = some p → p.ops ≠ [] ∨ p.srs ≠ []) ∧ s.pending.isSome :=
  ⟨finalState St.init [.create [1] [1], .srAck 1 1 [3]], .srAck 1 1 [3], ⟨St.init, _, rfl, rfl⟩,
    by intro p hp; right; simp [finalState, step, St.init, newSnap, mkFlags, dedup, addSr, finishIfComplete, Snap.isComplete, setFlag, List.lookup] at hp; subst hp; simp [List.lookup],
    by intro p hp; left; simp [finalState, step, St.init, newSnap, mkFlags, dedup, addSr, finishIfComplete, Snap.isComplete, setFlag, List.lookup] at hp; subst hp; simp,
    by decide⟩

end Rxn.C12
