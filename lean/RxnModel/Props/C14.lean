import RxnModel.Proofs.Savepoint
import RxnModel.Props.C10
/-!
# C14 — savepoints are self-contained and restore the checkpointed job state

Property theorems about `Model/Savepoint.lean` (the code after the D26 repair: files are listed for the checkpoint
with the operator checkpoint's id, `Lister.byId`). All storages, job snapshots (any number of operators, any
documents, shared files), savepoint ids and working-storage contents at restore time are universally quantified.
There is no side condition on the documents: a creation that *reports success* is complete. The former side
condition (`the document's last checkpoint is the savepoint's`) is what D26 violated; its witness is kept below
for the former lister (`Lister.last`).
-/
namespace Rxn.C14
open Rxn.Savepoint

/-- the files `dkv.Open` needs for operator checkpoint `o` on storage `fs`: its checkpoint entry's files and the
document itself -/
abbrev neededBy (fs : FS) (o : OpCkpt) : Option (List URI) := opFiles .byId fs (.work o.uri) o

/-- **savepoint_nonintrusive**: creating a savepoint artifact (successfully or not) changes no file outside the
savepoint's own directory: no working file (the running job's DKV files, documents, job snapshots) and no other
savepoint. Holds for either lister. -/
theorem savepoint_nonintrusive (L : Lister) (fs : FS) (jobURI : URI) (snap : JobSnap) (p : Path)
    (hp : p.inSp snap.id = false) :
    read (createArtifact L fs jobURI snap).1 p = read fs p := by
  have hfr := createOps_frame L snap.id p hp snap.ops fs
  unfold createArtifact
  cases hc : createOps L snap.id fs snap.ops with
  | mk fs' ok =>
    rw [hc] at hfr
    cases ok with
    | false => exact hfr
    | true =>
      simp only []
      cases hr : read fs' (.work jobURI) with
      | none => exact hfr
      | some c =>
        simp only []
        rw [read_write_ne _ _ (by intro hh; subst hh; simp [Path.inSp] at hp)]
        exact hfr

/-- **artifact_complete**: if `CreateSavepointArtifact` reports success, then for every operator checkpoint of the
job snapshot the artifact holds, under the savepoint's directory and with the content they have in the working
storage, the operator's document and every WAL and table file of the document entry with the operator
checkpoint's id (exactly what `dkv.Open` will look up); and `job.savepoint` is the job snapshot file. -/
theorem artifact_complete (fs fs' : FS) (jobURI : URI) (snap : JobSnap)
    (h : createArtifact .byId fs jobURI snap = (fs', true)) :
    (∀ o ∈ snap.ops, ∃ files, neededBy fs o = some files ∧
        ∀ u ∈ files, ∃ c, read fs (.work u) = some c ∧ read fs' (artPath snap.id u) = some c) ∧
    (∃ c, read fs (.work jobURI) = some c ∧ read fs' (.spJob snap.id) = some c) := by
  unfold createArtifact at h
  cases hc : createOps .byId snap.id fs snap.ops with
  | mk fsA ok =>
    rw [hc] at h
    cases ok with
    | false => simp at h
    | true =>
      simp only [] at h
      cases hr : read fsA (.work jobURI) with
      | none => rw [hr] at h; simp at h
      | some c =>
        rw [hr] at h
        simp only [Prod.mk.injEq, and_true] at h
        subst h
        have hwork : ∀ u, read fsA (.work u) = read fs (.work u) := by
          intro u
          have := createOps_frame .byId snap.id (.work u) (by simp [Path.inSp]) snap.ops fs
          rw [hc] at this; exact this
        constructor
        · intro o ho
          obtain ⟨files, hf, hs⟩ :=
            copyOps_sync .byId .work (artPath snap.id) (fun u v => sp_ne_work _ u v) (spFile_inj _) snap.ops fs fsA hc o ho
          refine ⟨files, hf, ?_⟩
          intro u hu
          obtain ⟨cu, h1, h2⟩ := hs u hu
          refine ⟨cu, ?_, ?_⟩
          · rw [← hwork]; exact h1
          · rw [read_write_ne _ _ (by intro hh; cases hh)]; exact h2
        · exact ⟨c, by rw [← hwork]; exact hr, read_write_eq _ _ _⟩

/-- **savepoint_roundtrip** (self-containedness): let the artifact of job snapshot `snap` be created successfully
from storage `fs` whose job snapshot file holds `snap`. Take ANY storage `w` that agrees with the result on the
directory of THIS savepoint only — the working storage may be wiped, stale or garbage, other savepoints may have
been created or changed. Then starting from the savepoint
URI succeeds, loads exactly `snap` (operator checkpoints and source state), and for every operator checkpoint
`dkv.Open` reads from the restored storage exactly the image (document entry, WAL contents, table contents) that
it reads from the original working storage, and that image exists. -/
theorem savepoint_roundtrip (fs fs1 w : FS) (jobURI : URI) (snap : JobSnap)
    (hc : createArtifact .byId fs jobURI snap = (fs1, true))
    (hj : read fs (.work jobURI) = some (.job snap))
    (hw : ∀ p, p.inSp snap.id = true → read w p = read fs1 p) :
    ∃ w', loadFromSavepoint .byId w snap.id = (w', some snap) ∧
      ∀ o ∈ snap.ops, openDB w' o = openDB fs o ∧ (openDB fs o).isSome := by
  obtain ⟨hops, ⟨cj, hcj1, hcj2⟩⟩ := artifact_complete fs fs1 jobURI snap hc
  rw [hj] at hcj1
  have hcj : cj = .job snap := by injection hcj1 with h; exact h.symm
  subst hcj
  have hin : ∀ u, (artPath snap.id u).inSp snap.id = true := by intro u; simp [artPath, Path.inSp]
  have hjw : read w (.spJob snap.id) = some (.job snap) := by rw [hw _ (by simp [Path.inSp])]; exact hcj2
  -- what the artifact holds, seen from `w`
  have hsp : ∀ o ∈ snap.ops, ∃ files, neededBy fs o = some files ∧
      ∀ u ∈ files, ∃ c, read fs (.work u) = some c ∧ read w (artPath snap.id u) = some c := by
    intro o ho
    obtain ⟨files, hf, hall⟩ := hops o ho
    refine ⟨files, hf, fun u hu => ?_⟩
    obtain ⟨c, h1, h2⟩ := hall u hu
    exact ⟨c, h1, by rw [hw _ (hin u)]; exact h2⟩
  -- the listings computed from the artifact's documents are the original ones
  have hlist : ∀ o ∈ snap.ops, ∃ files, opFiles .byId w (artPath snap.id o.uri) o = some files ∧
      neededBy fs o = some files ∧
      ∀ u ∈ files, ∃ c, read fs (.work u) = some c ∧ read w (artPath snap.id u) = some c := by
    intro o ho
    obtain ⟨files, hf, hall⟩ := hsp o ho
    refine ⟨files, ?_, hf, hall⟩
    rw [← hf]
    apply opFiles_congr
    obtain ⟨c, h1, h2⟩ := hall o.uri (opFiles_mem_uri hf)
    rw [h1, h2]
  have hsucc : (restoreOps .byId snap.id w snap.ops).2 = true := by
    apply copyOps_succeeds _ _ _ (fun u v => work_ne_sp _ u v)
    intro o ho
    obtain ⟨files, h1, _, h3⟩ := hlist o ho
    exact ⟨files, h1, fun u hu => by obtain ⟨c, _, h5⟩ := h3 u hu; simp [h5]⟩
  cases hr : restoreOps .byId snap.id w snap.ops with
  | mk w' ok =>
    rw [hr] at hsucc; simp only at hsucc; subst hsucc
    refine ⟨w', ?_, ?_⟩
    · simp [loadFromSavepoint, hjw, hr]
    · intro o ho
      obtain ⟨files, h1, h2, h3⟩ := hlist o ho
      obtain ⟨files', h1', hsync⟩ :=
        copyOps_sync .byId (artPath snap.id) .work (fun u v => work_ne_sp _ u v) work_inj snap.ops w w' hr o ho
      rw [h1] at h1'; injection h1' with h1'; subst h1'
      -- every listed file is back at its URI with its original content
      have hback : ∀ u ∈ files, read w' (.work u) = read fs (.work u) := by
        intro u hu
        obtain ⟨c, hs1, hs2⟩ := hsync u hu
        obtain ⟨c0, hf1, hf2⟩ := h3 u hu
        have hfr := restoreOps_frame .byId snap.id (artPath snap.id u) rfl snap.ops w
        rw [hr] at hfr; simp only at hfr
        rw [hfr, hf2] at hs1
        rw [hs2, hf1, ← hs1]
      obtain ⟨cks, ck, hd, hck, hfiles⟩ := opFiles_byId_some h2
      subst hfiles
      refine ⟨openDB_congr w' fs o cks ck hd hck hback, openDB_isSome fs o cks ck hd hck ?_⟩
      intro u hu
      obtain ⟨c0, hf1, _⟩ := h3 u (List.mem_append_left _ hu)
      simp [hf1]

/-- the special case named in the property: all working storage deleted, then restart from the savepoint -/
theorem savepoint_roundtrip_wipe (fs fs1 : FS) (jobURI : URI) (snap : JobSnap)
    (hc : createArtifact .byId fs jobURI snap = (fs1, true))
    (hj : read fs (.work jobURI) = some (.job snap)) :
    ∃ w', loadFromSavepoint .byId (wipe fs1) snap.id = (w', some snap) ∧
      ∀ o ∈ snap.ops, openDB w' o = openDB fs o ∧ (openDB fs o).isSome :=
  savepoint_roundtrip fs fs1 (wipe fs1) jobURI snap hc hj
    (fun p hp => read_wipe_sp fs1 p (by cases p <;> simp_all [Path.inSp, Path.isWork]))

/-- after the wipe nothing of the working storage is left (so the round trip above is not vacuous about `wipe`) -/
theorem wipe_removes_working (fs : FS) (o : OpCkpt) : openDB (wipe fs) o = none := by
  simp [openDB, read_wipe_work]

/-- **savepoint_folds**: a savepoint requested while a checkpoint is pending returns that checkpoint's id with
`created = false`, starts nothing (the id counter and the pending snapshot's id, expected acknowledgements and
received acknowledgements are unchanged) and marks the pending snapshot as a savepoint. -/
theorem savepoint_folds (s : Store) (p : Pending) (n : Nat) (hp : s.pending = some p) (hs : p.isSp = false) :
    createSavepoint s n = ({ s with pending := some { p with isSp := true } }, .sp p.id false) := by
  simp [createSavepoint, hp, hs]

/-- at most one snapshot is in progress and ids only grow: neither create call replaces a pending snapshot, and a
new one gets the next id -/
theorem create_keeps_pending (s : Store) (p : Pending) (n : Nat) (hp : s.pending = some p) :
    (createCheckpoint s n).1 = s ∧ (createSavepoint s n).1.ckptId = s.ckptId ∧
      ∃ q, (createSavepoint s n).1.pending = some q ∧ q.id = p.id ∧ q.acks = p.acks ∧ q.nOps = p.nOps ∧ q.src = p.src := by
  refine ⟨by simp [createCheckpoint, hp], ?_, ?_⟩
  · simp only [createSavepoint, hp]; split <;> rfl
  · simp only [createSavepoint, hp]
    split
    · exact ⟨p, hp, rfl, rfl, rfl, rfl⟩
    · exact ⟨_, rfl, rfl, rfl, rfl, rfl⟩

/-- a folded savepoint is honoured: when the pending snapshot that a savepoint request folded into (or started)
completes, it is handed to the publisher flagged as a savepoint with the id the request returned -/
theorem folded_savepoint_published (s : Store) (p : Pending) (hsp : p.isSp = true) (hc : p.complete = true) :
    (finishIfComplete s p).2 = some (⟨p.id, p.acks, p.src.getD ""⟩, true) := by
  simp [finishIfComplete, hc, hsp]

/-- publication of a savepoint = write the job snapshot file, then create the artifact from that storage; so a
successful publication satisfies the hypotheses of `savepoint_roundtrip` -/
theorem publish_savepoint_roundtrip (fs fs1 : FS) (jobURI : URI) (snap : JobSnap)
    (hp : publish .byId fs jobURI (snap, true) = (fs1, true)) :
    ∃ w', loadFromSavepoint .byId (wipe fs1) snap.id = (w', some snap) ∧
      ∀ o ∈ snap.ops, openDB w' o = openDB (write (.work jobURI) (.job snap) fs) o ∧
        (openDB (write (.work jobURI) (.job snap) fs) o).isSome := by
  simp only [publish, if_true] at hp
  exact savepoint_roundtrip_wipe _ fs1 jobURI snap hp (read_write_eq _ _ _)

/-- one step of a job's life leaves every file under `savepoints/` as it is, except inside the directory of a
savepoint that this very step (re)creates -/
theorem jobStep_preserves_savepoints (L : Lister) (fs : FS) (a : JobAct) (p : Path) (hp : p.isWork = false)
    (hid : ∀ id, a.savepointId = some id → p.inSp id = false) :
    read (jobStep L fs a) p = read fs p := by
  cases a with
  | work ops => exact applyWork_frame p hp ops fs
  | startFrom sid => exact load_frame L p hp fs sid
  | wipe => exact read_wipe_sp fs p hp
  | publish pub obsolete =>
    simp only [jobStep]
    rw [cleanup_frame p hp]
    have hw : read (write (.work (jobURI pub.1.id)) (.job pub.1) fs) p = read fs p :=
      read_write_ne _ _ (by intro hh; subst hh; simp [Path.isWork] at hp)
    unfold publish
    by_cases h2 : pub.2 = true
    · simp only [h2, if_true]
      rw [savepoint_nonintrusive L _ _ _ p (hid pub.1.id (by simp [JobAct.savepointId, h2]))]
      exact hw
    · simp only [h2]; exact hw

/-- **savepoint_survives_job_life**: whatever the job does afterwards — operators and store writing and deleting
working files, further publications with removal of the obsolete job snapshots, wiping the working storage,
starting again from any savepoint (restore), in any order and any number of times — no file under `savepoints/`
is removed or changed, except inside the directory of a savepoint id for which an artifact is created again. -/
theorem savepoint_survives_job_life (L : Lister) (acts : List JobAct) (fs : FS) (p : Path) (hp : p.isWork = false)
    (hid : ∀ a ∈ acts, ∀ id, a.savepointId = some id → p.inSp id = false) :
    read (jobRun L fs acts) p = read fs p := by
  induction acts generalizing fs with
  | nil => rfl
  | cons a r ih =>
    simp only [jobRun]
    rw [ih _ (fun b hb => hid b (List.mem_cons_of_mem _ hb))]
    exact jobStep_preserves_savepoints L fs a p hp (hid a (List.mem_cons_self ..))

/-- **savepoint_stays_restorable**: a successfully created savepoint keeps restoring the snapshot and the operator
images it was created from after ANY later life of the job (as above; the job may in particular be rolled back
to an earlier savepoint and publish a checkpoint with the same id again, or be restarted from this savepoint and
clean up the snapshot it loaded), as long as no artifact with the same id is created again. -/
theorem savepoint_stays_restorable (fs fs1 : FS) (jobURI' : URI) (snap : JobSnap) (acts : List JobAct)
    (hc : createArtifact .byId fs jobURI' snap = (fs1, true))
    (hj : read fs (.work jobURI') = some (.job snap))
    (hid : ∀ a ∈ acts, a.savepointId ≠ some snap.id) :
    ∃ w', loadFromSavepoint .byId (jobRun .byId fs1 acts) snap.id = (w', some snap) ∧
      ∀ o ∈ snap.ops, openDB w' o = openDB fs o ∧ (openDB fs o).isSome := by
  apply savepoint_roundtrip fs fs1 _ jobURI' snap hc hj
  intro p hin
  have hp : p.isWork = false := by cases p <;> simp_all [Path.inSp, Path.isWork]
  apply savepoint_survives_job_life .byId acts fs1 p hp
  intro a ha id hid'
  cases hpi : p.inSp id with
  | false => rfl
  | true =>
    exfalso
    have : id = snap.id := by
      cases p with
      | work u => simp [Path.isWork] at hp
      | sp i d b => simp only [Path.inSp, beq_iff_eq] at hin hpi; omega
      | spJob i => simp only [Path.inSp, beq_iff_eq] at hin hpi; omega
    subst this
    exact hid a ha hid'

/-- **artifact_ok_restores** (the restore half on its own): whatever produced it, a savepoint directory that holds
the job snapshot and, for every operator checkpoint, a document with the ORIGINAL entry for the checkpoint id (the
rest of the document may differ: later checkpoints appended, others dropped) and every file of that entry with its
original content, restores the snapshot and the original images. -/
theorem artifact_ok_restores (fs w : FS) (snap : JobSnap)
    (hjob : read w (.spJob snap.id) = some (.job snap))
    (hops : ∀ o ∈ snap.ops, OpArtifactOK fs w snap.id o) :
    ∃ w', loadFromSavepoint .byId w snap.id = (w', some snap) ∧
      ∀ o ∈ snap.ops, openDB w' o = openDB fs o ∧ (openDB fs o).isSome := by
  have hlist : ∀ o ∈ snap.ops, ∃ cks0 cksA ck,
      read fs (.work o.uri) = some (.doc cks0) ∧ findCk cks0 o.ckptId = some ck ∧
      read w (artPath snap.id o.uri) = some (.doc cksA) ∧ findCk cksA o.ckptId = some ck ∧
      (∀ u ∈ ck.files, ∃ c, read fs (.work u) = some c ∧ read w (artPath snap.id u) = some c) ∧
      opFiles .byId w (artPath snap.id o.uri) o = some (ck.files ++ [o.uri]) := by
    intro o ho
    obtain ⟨cks0, cksA, ck, h1, h2, h3, h4, h5⟩ := hops o ho
    exact ⟨cks0, cksA, ck, h1, h2, h3, h4, h5, by simp [opFiles, h3, listFiles, h4]⟩
  have hsucc : (restoreOps .byId snap.id w snap.ops).2 = true := by
    apply copyOps_succeeds _ _ _ (fun u v => work_ne_sp _ u v)
    intro o ho
    obtain ⟨_, cksA, ck, _, _, h3, _, h5, h6⟩ := hlist o ho
    refine ⟨_, h6, fun u hu => ?_⟩
    rcases List.mem_append.mp hu with hu | hu
    · obtain ⟨c, _, hc⟩ := h5 u hu; simp [hc]
    · simp only [List.mem_singleton] at hu; subst hu; simp [h3]
  cases hr : restoreOps .byId snap.id w snap.ops with
  | mk w' ok =>
    rw [hr] at hsucc; simp only at hsucc; subst hsucc
    refine ⟨w', by simp [loadFromSavepoint, hjob, hr], ?_⟩
    intro o ho
    obtain ⟨cks0, cksA, ck, h1, h2, h3, h4, h5, h6⟩ := hlist o ho
    obtain ⟨files', h1', hsync⟩ :=
      copyOps_sync .byId (artPath snap.id) .work (fun u v => work_ne_sp _ u v) work_inj snap.ops w w' hr o ho
    rw [h6] at h1'; injection h1' with h1'; subst h1'
    have hback : ∀ u ∈ ck.files ++ [o.uri], read w' (.work u) = read w (artPath snap.id u) := by
      intro u hu
      obtain ⟨c, hs1, hs2⟩ := hsync u hu
      have hfr := restoreOps_frame .byId snap.id (artPath snap.id u) rfl snap.ops w
      rw [hr] at hfr; simp only at hfr
      rw [hs2, ← hs1, hfr]
    have hdoc : read w' (.work o.uri) = some (.doc cksA) := by rw [hback o.uri (by simp)]; exact h3
    refine ⟨openDB_of_entry w' fs o cksA cks0 ck hdoc h4 h1 h2 ?_, openDB_isSome fs o cks0 ck h1 h2 ?_⟩
    · intro u hu
      obtain ⟨c, hf, hwc⟩ := h5 u hu
      rw [hback u (List.mem_append_left _ hu), hwc, hf]
    · intro u hu
      obtain ⟨c, hf, _⟩ := h5 u hu
      simp [hf]

/-! ## timers across a savepoint restore

The pending timers of an operator live in its DKV (timer keys), so they are part of the operator image that
`savepoint_roundtrip` shows to be restored unchanged. `view` is what a reopened DKV holds of timer keys as a function of
the image it reads (C08: the reopened state is a function of the checkpoint's files — a parameter here, not proved in
C14); `hview` says that for the ORIGINAL image this is the timer DB the operator had at its `Checkpoint` call (C08's
restore statement). The conclusion is C10's `restore_pending_partial` for the registry rebuilt from the RESTORED image:
it has exactly the timers pending at the checkpoint (a pending timer is still pending, a fired one is not) and refines
the timer specification from there on, for every cache size. (`_partial` as in C10: timers not before 1970, D51.) -/
theorem savepoint_restores_pending_timers_partial (fs fs1 w : FS) (jobURI : URI) (snap : JobSnap)
    (hc : createArtifact .byId fs jobURI snap = (fs1, true))
    (hj : read fs (.work jobURI) = some (.job snap))
    (hw : ∀ p, p.inSp snap.id = true → read w p = read fs1 p)
    (o : OpCkpt) (ho : o ∈ snap.ops) (view : Image → Timers.DB)
    (kgc start stop maxCache maxCache' : Nat) (ids ids' : List String) (hss : start ≤ stop) (hstop : stop ≤ 65536)
    (before after : List Timers.ROp)
    (hv1 : ∀ op ∈ before, op.valid kgc start stop) (hv2 : ∀ op ∈ after, op.valid kgc start stop)
    (hview : ∀ img, openDB fs o = some img →
      view img = ((Timers.Registry.new (Timers.Store.new [] kgc start stop maxCache) ids).run before).1.store.db) :
    ∃ w' img', loadFromSavepoint .byId w snap.id = (w', some snap) ∧ openDB w' o = some img' ∧
      let specCkpt := ((Timers.Spec.new ids).run before).1
      let restored := Timers.Registry.new (Timers.Store.new (view img') kgc start stop maxCache') ids'
      let specRestored : Timers.Spec := ⟨specCkpt.pending, Wm.Ups.init ids', Wm.regInit⟩
      Timers.Rel restored specRestored ∧
      Timers.OutputsAgree (restored.run after).2 (specRestored.run after).2 ∧
      Timers.Rel (restored.run after).1 (specRestored.run after).1 := by
  obtain ⟨w', hload, himg⟩ := savepoint_roundtrip fs fs1 w jobURI snap hc hj hw
  obtain ⟨heq, hsome⟩ := himg o ho
  cases hi : openDB fs o with
  | none => rw [hi] at hsome; simp at hsome
  | some img =>
    refine ⟨w', img, hload, by rw [heq, hi], ?_⟩
    rw [hview img hi]
    exact C10.restore_pending_partial kgc start stop maxCache maxCache' ids ids' hss hstop before after hv1 hv2

/-! ## creation is not atomic (D53, repaired by beb71d2)

`artifact_complete` and `savepoint_roundtrip` above are about a creation that sees ONE storage value. The real
creation makes one storage call after the other while the job runs on (`createArtifactS`: a `Sched` of environment
moves between the calls; `DocMode` = how the operator's document reaches the artifact, regenerated from the source
as `docMode`).

* `savepoint_roundtrip_interleaved` — FULL statement for the code as it is (`DocMode.writeRead`): for every schedule in
  the job's discipline `Disc` (documents rewritten keeping or dropping the savepoint's entry, data files and job snapshot
  never rewritten with other content, anything deleted, other files free), success ⇒ the artifact restores the snapshot
  and the original images. Proved through `artifact_ok_restores` (what a savepoint directory must hold) and the
  invariants of `Proofs/Savepoint.lean` (`createOpsS_disc`). `d53_schedule_is_disciplined`: not vacuous.
* for the former code (`DocMode.copyFile`: the document FILE copied last) it is false:
  `artifact_complete_counterexample` (a retention update just before the document copy, within the discipline);
  `d53_repair_witness`: the repaired code on that very schedule.
* `savepoint_roundtrip_interleaved_quiet` / `_current`: either mode, environment leaving the handled files alone (the
  simulation of the non-atomic by the atomic creation).
* success itself is NOT guaranteed (D65, open): `creation_succeeds_partial`, `savepoint_lost_to_cleanup_counterexample`. -/

/-- **savepoint_roundtrip_interleaved** (non-atomic creation, the code as it is: the document content read at the start
is written). The environment is the running job under its discipline (`Disc`): while the creation makes its storage
calls one by one, operators and store may delete anything, may rewrite an operator's `checkpoints` document into any
document that keeps the entry of the savepoint's checkpoint as it is or no longer has it (later checkpoints appended,
non-retained ones dropped), may rewrite a WAL/table file of the savepoint or its job snapshot only with the same
content, and may do anything to other files — at any moment, any number of times. If the creation nevertheless reports
success, then from ANY storage agreeing on the savepoint's directory the load succeeds with exactly the snapshot and
every operator's image equals the one of the original storage and exists. Structural side conditions: an operator's
document is not itself a WAL/table file of the savepoint, and two operator checkpoints with the same document URI have
the same checkpoint id. -/
theorem savepoint_roundtrip_interleaved (fs fs1 w : FS) (jobURI : URI) (snap : JobSnap) (sch : Sched)
    (hdisc : Disc fs jobURI snap sch)
    (hsep : ∀ o ∈ snap.ops, ¬ DataOf fs snap o.uri)
    (hdocs : ∀ o ∈ snap.ops, ∀ o' ∈ snap.ops, o.uri = o'.uri → o.ckptId = o'.ckptId)
    (hc : createArtifactS .byId .writeRead fs jobURI snap sch = (fs1, true))
    (hj : read fs (.work jobURI) = some (.job snap))
    (hw : ∀ p, p.inSp snap.id = true → read w p = read fs1 p) :
    ∃ w', loadFromSavepoint .byId w snap.id = (w', some snap) ∧
      ∀ o ∈ snap.ops, openDB w' o = openDB fs o ∧ (openDB fs o).isSome := by
  unfold createArtifactS at hc
  cases hco : createOpsS .byId .writeRead snap.id fs sch snap.ops with
  | mk a1 rest =>
    obtain ⟨ok, sch1⟩ := rest
    rw [hco] at hc
    cases ok with
    | false => simp at hc
    | true =>
      simp only [] at hc
      have hrun := createOpsS_disc fs jobURI snap snap.id hsep hdocs snap.ops fs sch [] []
        (fun o ho => ho) (fun u hu => by cases hu) (fun o ho => by cases ho) hdisc (WInv_init fs jobURI snap)
        (fun u hu => by cases hu) (fun o ho => by cases ho) (by rw [hco])
      rw [hco] at hrun
      obtain ⟨hd1, hw1, _, _, hdocinv, hfiles⟩ := hrun
      obtain ⟨hw2, _, hfr2⟩ := disc_step fs jobURI snap sch1 hd1 a1 hw1
      cases hr : read (Sched.step a1 sch1).1 (.work jobURI) with
      | none => rw [hr] at hc; simp at hc
      | some c =>
        rw [hr] at hc
        simp only [Prod.mk.injEq, and_true] at hc
        subst hc
        have hcjob : c = .job snap := by
          rcases hw2.1 jobURI (Or.inl rfl) with h | h
          · rw [h, hj] at hr; injection hr with hr; exact hr.symm
          · rw [h] at hr; simp at hr
        subst hcjob
        -- the savepoint directory as `w` sees it is the one the run left
        have hart : ∀ u, read w (artPath snap.id u) = read a1 (artPath snap.id u) := by
          intro u
          rw [hw _ (by simp [artPath, Path.inSp]), read_write_ne _ _ (by intro hh; cases hh),
            hfr2 _ (by simp [artPath, Path.isWork])]
        apply artifact_ok_restores fs w snap
        · rw [hw _ (by simp [Path.inSp])]; exact read_write_eq _ _ _
        · intro o ho
          obtain ⟨ck, cksA, h1, h2, h3⟩ := hdocinv o ho
          obtain ⟨cks0, h4, h5⟩ := origEntry_some h1
          refine ⟨cks0, cksA, ck, h4, h5, by rw [hart]; exact h2, h3, ?_⟩
          intro u hu
          obtain ⟨cu, hc1, hc2⟩ := hfiles o ho ck h1 u hu
          exact ⟨cu, hc1, by rw [hart]; exact hc2⟩

/-- the files `CreateSavepointArtifact` handles when run on `fs` -/
def Handled (fs : FS) (jobURI : URI) (snap : JobSnap) (u : URI) : Prop :=
  u = jobURI ∨ ∃ o ∈ snap.ops, u = o.uri ∨ ∃ files, opFiles .byId fs (.work o.uri) o = some files ∧ u ∈ files

/-- **savepoint_roundtrip_interleaved_quiet** (non-atomic creation, either document mode, environment leaving the files
the creation handles alone): the non-atomic creation is simulated by the atomic one. -/
theorem savepoint_roundtrip_interleaved_quiet (m : DocMode) (fs fs1 w : FS) (jobURI : URI) (snap : JobSnap) (sch : Sched)
    (hquiet : ∀ e ∈ sch, ∀ x ∈ e, ¬ Handled fs jobURI snap x.uri)
    (hc : createArtifactS .byId m fs jobURI snap sch = (fs1, true))
    (hj : read fs (.work jobURI) = some (.job snap))
    (hw : ∀ p, p.inSp snap.id = true → read w p = read fs1 p) :
    ∃ w', loadFromSavepoint .byId w snap.id = (w', some snap) ∧
      ∀ o ∈ snap.ops, openDB w' o = openDB fs o ∧ (openDB fs o).isSome := by
  obtain ⟨hok, hsame⟩ := createArtifactS_sim .byId m (Handled fs jobURI snap) fs jobURI snap sch hquiet
    (Or.inl rfl) (fun o ho => Or.inr ⟨o, ho, Or.inl rfl⟩)
    (fun o ho files hf u hu => Or.inr ⟨o, ho, Or.inr ⟨files, hf, hu⟩⟩)
  rw [hc] at hok hsame
  cases hca : createArtifact .byId fs jobURI snap with
  | mk fsA ok =>
    rw [hca] at hok hsame
    simp only at hok hsame
    subst hok
    apply savepoint_roundtrip fs fsA w jobURI snap hca hj
    intro p hp
    rw [hw p hp]
    exact hsame p (by cases p <;> simp_all [Path.inSp, Path.isWork])

/-- the regenerated source fact says which mode the code is in; the theorem above covers it either way -/
theorem savepoint_roundtrip_interleaved_current (fs fs1 w : FS) (jobURI : URI) (snap : JobSnap) (sch : Sched)
    (hquiet : ∀ e ∈ sch, ∀ x ∈ e, ¬ Handled fs jobURI snap x.uri)
    (hc : createArtifactS .byId docMode fs jobURI snap sch = (fs1, true))
    (hj : read fs (.work jobURI) = some (.job snap))
    (hw : ∀ p, p.inSp snap.id = true → read w p = read fs1 p) :
    ∃ w', loadFromSavepoint .byId w snap.id = (w', some snap) ∧
      ∀ o ∈ snap.ops, openDB w' o = openDB fs o ∧ (openDB fs o).isSome :=
  savepoint_roundtrip_interleaved_quiet docMode fs fs1 w jobURI snap sch hquiet hc hj hw

/-- one operator whose document already holds checkpoint 2; while the artifact of savepoint 1 is copied the operator
applies the retention `[2]` (document rewritten, WAL of checkpoint 1 deleted) just before the document is copied -/
def d53FS : FS :=
  [ (.work ⟨"op0/", "checkpoints"⟩, .doc [⟨1, [⟨"op0/", "0.wal"⟩], [[]]⟩, ⟨2, [⟨"op0/", "1.wal"⟩], [[]]⟩]),
    (.work ⟨"op0/", "0.wal"⟩, .blob "w0"), (.work ⟨"op0/", "1.wal"⟩, .blob "w1"),
    (.work (jobURI 1), .job ⟨1, [⟨"op0", 1, ⟨"op0/", "checkpoints"⟩⟩], "src"⟩) ]
def d53Snap : JobSnap := ⟨1, [⟨"op0", 1, ⟨"op0/", "checkpoints"⟩⟩], "src"⟩
/-- storage calls: read document, copy 0.wal, copy document, copy job snapshot -/
def d53Sched : Sched :=
  [[], [], [.put ⟨"op0/", "checkpoints"⟩ (.doc [⟨2, [⟨"op0/", "1.wal"⟩], [[]]⟩]), .del ⟨"op0/", "0.wal"⟩], []]

/-- non-vacuity of `savepoint_roundtrip_interleaved`: the D53 schedule (a retention update — document rewritten without
the savepoint's entry, its WAL deleted — just before the document reaches the artifact) is within the discipline, the
structural side conditions hold, and the repaired creation succeeds on it -/
theorem d53_schedule_is_disciplined :
    Disc d53FS (jobURI 1) d53Snap d53Sched ∧
    (∀ o ∈ d53Snap.ops, ¬ DataOf d53FS d53Snap o.uri) ∧
    (∀ o ∈ d53Snap.ops, ∀ o' ∈ d53Snap.ops, o.uri = o'.uri → o.ckptId = o'.ckptId) := by
  have horig : origEntry d53FS ⟨"op0", 1, ⟨"op0/", "checkpoints"⟩⟩ = some ⟨1, [⟨"op0/", "0.wal"⟩], [[]]⟩ := by decide
  have hnotdata : ¬ DataOf d53FS d53Snap ⟨"op0/", "checkpoints"⟩ := by
    rintro ⟨o, ho, ck, hck, hu⟩
    simp only [d53Snap, List.mem_singleton] at ho
    subst ho
    rw [horig] at hck; injection hck with hck; subst hck
    revert hu; decide
  refine ⟨?_, ?_, ?_⟩
  · intro e he w hw
    simp only [d53Sched, List.mem_cons, List.mem_nil_iff, or_false] at he
    rcases he with rfl | rfl | rfl | rfl
    · cases hw
    · cases hw
    · simp only [List.mem_cons, List.mem_nil_iff, or_false] at hw
      rcases hw with rfl | rfl
      · refine ⟨?_, ?_⟩
        · rintro (h | h)
          · revert h; decide
          · exact absurd h hnotdata
        · intro o ho _
          simp only [d53Snap, List.mem_singleton] at ho
          subst ho
          exact ⟨_, rfl, Or.inr (by decide)⟩
      · trivial
    · cases hw
  · intro o ho
    simp only [d53Snap, List.mem_singleton] at ho
    subst ho; exact hnotdata
  · intro o ho o' ho' _
    simp only [d53Snap, List.mem_singleton] at ho ho'
    subst ho; subst ho'; rfl

/-- **artifact_complete_counterexample** (D53, the code before beb71d2): the creation reports success, yet the artifact cannot be restored:
its document has no entry for the savepoint's checkpoint. -/
theorem artifact_complete_counterexample :
    (createArtifactS .byId .copyFile d53FS (jobURI 1) d53Snap d53Sched).2 = true ∧
    (loadFromSavepoint .byId (wipe (createArtifactS .byId .copyFile d53FS (jobURI 1) d53Snap d53Sched).1) 1).2 = none ∧
    (openDB d53FS ⟨"op0", 1, ⟨"op0/", "checkpoints"⟩⟩).isSome = true := by decide

/-- with the proposed repair the same schedule yields an artifact that restores the savepoint's checkpoint -/
theorem d53_repair_witness :
    (createArtifactS .byId .writeRead d53FS (jobURI 1) d53Snap d53Sched).2 = true ∧
    (loadFromSavepoint .byId (wipe (createArtifactS .byId .writeRead d53FS (jobURI 1) d53Snap d53Sched).1) 1).2 = some d53Snap ∧
    openDB (loadFromSavepoint .byId (wipe (createArtifactS .byId .writeRead d53FS (jobURI 1) d53Snap d53Sched).1) 1).1
        ⟨"op0", 1, ⟨"op0/", "checkpoints"⟩⟩ = openDB d53FS ⟨"op0", 1, ⟨"op0/", "checkpoints"⟩⟩ := by decide

/-- **creation_succeeds_partial** (D65, open): a requested savepoint comes into existence — the non-atomic creation
reports success whenever the atomic one would — PROVIDED the environment leaves the handled files alone while it runs.
Excluded in particular: the next publication's cleanup removing the job snapshot `job-N.snapshot`, which the creation
copies LAST (`savepoint_lost_to_cleanup_counterexample`). -/
theorem creation_succeeds_partial (m : DocMode) (fs : FS) (jobURI : URI) (snap : JobSnap) (sch : Sched)
    (hquiet : ∀ e ∈ sch, ∀ x ∈ e, ¬ Handled fs jobURI snap x.uri)
    (hat : (createArtifact .byId fs jobURI snap).2 = true) :
    (createArtifactS .byId m fs jobURI snap sch).2 = true := by
  obtain ⟨hok, _⟩ := createArtifactS_sim .byId m (Handled fs jobURI snap) fs jobURI snap sch hquiet
    (Or.inl rfl) (fun o ho => Or.inr ⟨o, ho, Or.inl rfl⟩)
    (fun o ho files hf u hu => Or.inr ⟨o, ho, Or.inr ⟨files, hf, hu⟩⟩)
  rw [hok]; exact hat

/-- storage calls: read document, copy 0.wal, write document, copy job snapshot — the next checkpoint is published
meanwhile and its cleanup removes `job-1.snapshot` just before the last copy -/
def d65Sched : Sched := [[], [], [], [.del (jobURI 1)]]

/-- **savepoint_lost_to_cleanup_counterexample** (D65): everything of savepoint 1 is copied, then the copy of the job
snapshot fails: no savepoint exists although the atomic creation on the same storage succeeds. -/
theorem savepoint_lost_to_cleanup_counterexample :
    (createArtifact .byId d53FS (jobURI 1) d53Snap).2 = true ∧
    (createArtifactS .byId .writeRead d53FS (jobURI 1) d53Snap d65Sched).2 = false ∧
    read (createArtifactS .byId .writeRead d53FS (jobURI 1) d53Snap d65Sched).1 (.spJob 1) = none := by decide

/-- with `job.savepoint` written from memory (fixes/D65.diff) the schedule of the counterexample yields the savepoint -/
theorem d65_repair_witness :
    (createArtifactSJ .byId .writeRead .fromBytes d53FS (jobURI 1) d53Snap d65Sched).2 = true ∧
    read (createArtifactSJ .byId .writeRead .fromBytes d53FS (jobURI 1) d53Snap d65Sched).1 (.spJob 1)
      = some (.job d53Snap) ∧
    read (createArtifactSJ .byId .writeRead .fromBytes d53FS (jobURI 1) d53Snap d65Sched).1 (.work (jobURI 1)) = none ∧
    (createArtifactSJ .byId .writeRead .copyFile d53FS (jobURI 1) d53Snap d65Sched).2 = false := by decide

/-- **restart_ids_fresh** (D49 repaired): a job started from a savepoint never hands out a checkpoint id again that
is the savepoint's or that of a job snapshot file still in its file store (checkpoints written after the savepoint
by the run that is being rolled back). The first id it hands out — for a checkpoint or a savepoint — is above all
of them, so its publication does not rewrite any existing job snapshot file (in particular not the one a later
savepoint's `job.savepoint` was copied from). Whether or not existing savepoints are counted. -/
theorem restart_ids_fresh (cs : Bool) (L : Lister) (fs fs' : FS) (sid : Nat) (s : JobSnap) (st : Store)
    (h : startStoreWith cs L fs sid = (fs', some (s, st))) (n : Nat) :
    ∃ k, (createCheckpoint st n).2 = .ckpt k ∧ (createSavepoint st n).2 = .sp k true ∧ s.id < k ∧
      (∀ id c, read fs' (.work (jobURI id)) = some c → id < k) ∧ read fs' (.work (jobURI k)) = none := by
  unfold startStoreWith at h
  cases hl : loadFromSavepoint L fs sid with
  | mk w r =>
    rw [hl] at h
    cases r with
    | none => simp at h
    | some s' =>
      simp only [Prod.mk.injEq, Option.some.injEq] at h
      obtain ⟨hw, hs, hst⟩ := h
      subst hw hs hst
      have hfresh : ∀ id c, read w (.work (jobURI id)) = some c → id < startCounter cs w s' + 1 := by
        intro id c hc
        have h1 := le_newestLocalId id w c hc
        unfold startCounter
        have h2 := Nat.le_max_right s'.id (max (newestLocalId w) (if cs then newestSavepointId w else 0))
        have h3 := Nat.le_max_left (newestLocalId w) (if cs then newestSavepointId w else 0)
        omega
      refine ⟨startCounter cs w s' + 1, by simp [createCheckpoint], by simp [createSavepoint], ?_, hfresh, ?_⟩
      · unfold startCounter
        have := Nat.le_max_left s'.id (max (newestLocalId w) (if cs then newestSavepointId w else 0)); omega
      · cases hr : read w (.work (jobURI (startCounter cs w s' + 1))) with
        | none => rfl
        | some c => have := hfresh _ c hr; omega

/-- **restart_never_recreates_a_savepoint** (the proposed repair: existing savepoints counted): the first id a job
started from a savepoint hands out is above the id of every savepoint that exists in its file store; no savepoint
directory named by that id exists yet. (FULL statement; for the code as it is — existing savepoints not counted — it is
false: `savepoint_id_reuse_counterexample`.) -/
theorem restart_never_recreates_a_savepoint (L : Lister) (fs fs' : FS) (sid : Nat) (s : JobSnap) (st : Store)
    (h : startStoreWith true L fs sid = (fs', some (s, st))) (n : Nat) :
    ∃ k, (createSavepoint st n).2 = .sp k true ∧
      (∀ id c, read fs' (.spJob id) = some c → id < k) ∧ read fs' (.spJob k) = none := by
  unfold startStoreWith at h
  cases hl : loadFromSavepoint L fs sid with
  | mk w r =>
    rw [hl] at h
    cases r with
    | none => simp at h
    | some s' =>
      simp only [Prod.mk.injEq, Option.some.injEq] at h
      obtain ⟨hw, hs, hst⟩ := h
      subst hw hs hst
      have hfresh : ∀ id c, read w (.spJob id) = some c → id < startCounter true w s' + 1 := by
        intro id c hc
        have h1 := le_newestSavepointId id w c hc
        unfold startCounter
        have h2 := Nat.le_max_right s'.id (max (newestLocalId w) (if true = true then newestSavepointId w else 0))
        have h3 := Nat.le_max_right (newestLocalId w) (if true = true then newestSavepointId w else 0)
        simp only [if_true] at h2 h3 ⊢
        omega
      refine ⟨startCounter true w s' + 1, by simp [createSavepoint], hfresh, ?_⟩
      cases hr : read w (.spJob (startCounter true w s' + 1)) with
      | none => rfl
      | some c => have := hfresh _ c hr; omega

/-- savepoints 1 and 2 of an earlier run exist; all working storage is gone -/
def reuseFS : FS :=
  [ (.spJob 1, .job ⟨1, [], "run-A@1"⟩), (.spJob 2, .job ⟨2, [], "run-A@2"⟩) ]

/-- **savepoint_id_reuse_counterexample** (the code as it is: existing savepoints are not counted): the job rolled
back to savepoint 1 gives its next savepoint the id 2, and publishing it replaces the `job.savepoint` the URI of the
earlier savepoint 2 names: that URI now restores another run's state. With the savepoints counted the id is 3. -/
theorem savepoint_id_reuse_counterexample :
    (∃ st, (startStoreWith false .byId reuseFS 1).2 = some (⟨1, [], "run-A@1"⟩, st) ∧ (createSavepoint st 0).2 = .sp 2 true) ∧
    read (publish .byId reuseFS (jobURI 2) (⟨2, [], "run-B@2"⟩, true)).1 (.spJob 2) = some (.job ⟨2, [], "run-B@2"⟩) ∧
    read reuseFS (.spJob 2) = some (.job ⟨2, [], "run-A@2"⟩) ∧
    (∃ st, (startStoreWith true .byId reuseFS 1).2 = some (⟨1, [], "run-A@1"⟩, st) ∧ (createSavepoint st 0).2 = .sp 3 true) := by
  refine ⟨⟨_, rfl, by decide⟩, by decide, by decide, ⟨_, rfl, by decide⟩⟩

/-- **artPath_injective**: the place of a file inside a savepoint directory is computed from the file's own
directory AND base name, so two different files of the same savepoint never share a place — in particular not two
tables with the same number in two instance directories (an operator redeployed in a new directory keeps
referencing the previous instance's tables while its own numbering restarts). This is the fact `artifact_complete`
and `savepoint_roundtrip` rest on (`spFile_inj`); it is a property of the modelled path computation, not an
assumption. -/
theorem artPath_injective (id : Nat) (u v : URI) (h : artPath id u = artPath id v) : u = v :=
  spFile_inj id u v h

/-- artifact places never collide with working files or with another savepoint's places -/
theorem artPath_separate (id id' : Nat) (u v : URI) :
    artPath id u ≠ .work v ∧ artPath id u ≠ .spJob id' ∧ (artPath id u = artPath id' v → id = id') := by
  refine ⟨?_, ?_, ?_⟩
  · intro h; cases h
  · intro h; cases h
  · intro h; simp only [artPath, Path.sp.injEq] at h; exact h.1

/-! ## non-vacuity: two operators, one shared table, a document that already holds a later checkpoint; operator
`op0` was redeployed in directory `op0b/` and still references table `0.sst` of its previous directory `op0/`
next to its own `0.sst` -/

def demoFS : FS :=
  [ (.work ⟨"op0b/", "checkpoints"⟩, .doc [⟨1, [⟨"op0b/", "1.wal"⟩], [[⟨"op0b/", "0.sst"⟩, ⟨"op0/", "0.sst"⟩], []]⟩,
      ⟨2, [⟨"op0b/", "2.wal"⟩], [[⟨"op0b/", "1.sst"⟩], [⟨"op0/", "0.sst"⟩]]⟩]),
    (.work ⟨"op0b/", "1.wal"⟩, .blob "w1"), (.work ⟨"op0b/", "2.wal"⟩, .blob "w2"),
    (.work ⟨"op0/", "0.sst"⟩, .blob "old-t0"), (.work ⟨"op0b/", "0.sst"⟩, .blob "new-t0"), (.work ⟨"op0b/", "1.sst"⟩, .blob "t1"),
    (.work ⟨"op1/", "checkpoints"⟩, .doc [⟨1, [⟨"op1/", "0.wal"⟩], [[⟨"op0/", "0.sst"⟩]]⟩]),
    (.work ⟨"op1/", "0.wal"⟩, .blob "v0"),
    (.work ⟨"", "job-1"⟩, .job ⟨1, [⟨"op0", 1, ⟨"op0b/", "checkpoints"⟩⟩, ⟨"op1", 1, ⟨"op1/", "checkpoints"⟩⟩], "src@7"⟩) ]

def demoOp0 : OpCkpt := ⟨"op0", 1, ⟨"op0b/", "checkpoints"⟩⟩
def demoSnap : JobSnap := ⟨1, [demoOp0, ⟨"op1", 1, ⟨"op1/", "checkpoints"⟩⟩], "src@7"⟩
def demoJob : URI := ⟨"", "job-1"⟩

example : (createArtifact .byId demoFS demoJob demoSnap).2 = true := by decide
example : (loadFromSavepoint .byId (wipe (createArtifact .byId demoFS demoJob demoSnap).1) 1).2 = some demoSnap := by
  decide
example :
    openDB (loadFromSavepoint .byId (wipe (createArtifact .byId demoFS demoJob demoSnap).1) 1).1 demoOp0
      = some ⟨⟨1, [⟨"op0b/", "1.wal"⟩], [[⟨"op0b/", "0.sst"⟩, ⟨"op0/", "0.sst"⟩], []]⟩, [.blob "w1"],
          [[.blob "new-t0", .blob "old-t0"], []]⟩ := by decide
example : (createSavepoint { pending := some ⟨4, false, 2, [], none⟩, ckptId := 4 } 2).2 = .sp 4 false := by decide
example : (createSavepoint { pending := none, ckptId := 4 } 2).2 = .sp 5 true := by decide

/-! ## D26 (repaired): the former lister takes the document's last entry

With `Lister.last` (the code before the repair) the creation above also reports success, but it copied the files
of checkpoint 2; restoring restores those, and opening the savepoint's checkpoint 1 finds its WAL missing. -/
theorem d26_last_entry_artifact_incomplete :
    (createArtifact .last demoFS demoJob demoSnap).2 = true ∧
    (loadFromSavepoint .last (wipe (createArtifact .last demoFS demoJob demoSnap).1) 1).2 = some demoSnap ∧
    openDB (loadFromSavepoint .last (wipe (createArtifact .last demoFS demoJob demoSnap).1) 1).1 demoOp0 = none ∧
    (openDB demoFS demoOp0).isSome = true := by decide

/-! ## why the place must keep the file's own directory

A layout that puts every file of an operator checkpoint under the directory of the operator's document, by base
name only (`artPathFlat`), is not injective, and the copy loops of creation and restore run over it report success
while the restored storage holds the wrong table: both `0.sst` get the content of the one copied last. -/
theorem flat_layout_not_injective :
    artPathFlat 1 "op0b/" ⟨"op0b/", "0.sst"⟩ = artPathFlat 1 "op0b/" ⟨"op0/", "0.sst"⟩ ∧
    (⟨"op0b/", "0.sst"⟩ : URI) ≠ ⟨"op0/", "0.sst"⟩ := by decide

def demoOp0Files : List URI :=
  [⟨"op0b/", "1.wal"⟩, ⟨"op0b/", "0.sst"⟩, ⟨"op0/", "0.sst"⟩, ⟨"op0b/", "checkpoints"⟩]

theorem flat_layout_restores_wrong_table :
    let created := copyAll .work (artPathFlat 1 "op0b/") demoFS demoOp0Files
    let restored := copyAll (artPathFlat 1 "op0b/") .work (wipe created.1) demoOp0Files
    created.2 = true ∧ restored.2 = true ∧
    (openDB restored.1 demoOp0).map (·.levels) = some [[.blob "old-t0", .blob "old-t0"], []] ∧
    (openDB demoFS demoOp0).map (·.levels) = some [[.blob "new-t0", .blob "old-t0"], []] := by decide

end Rxn.C14
