import RxnModel.Proofs.FilesLineage
import RxnModel.Proofs.FilesMulti
import RxnModel.Proofs.FilesCompose
import RxnModel.Proofs.FilesSteps
/-!
# C09 — files needed by retained checkpoints or live tables are never deleted

Property theorems only. Model: `Model/Files.lean` (dkv instances as sets of Table objects with explicit roots, a
persistent file set, checkpoint lists, the job's retained checkpoint handles as ghost state; the garbage collector is
the action `collect i u`, enabled only for unreachable objects). Helper lemmas: `Proofs/Files.lean`.
The decision rules (`decision`, `needsTable`, which cleanup deletes) are read from the source on every run
(`Generated/Facts.lean`: `c09OwnsErrKeeps`, `c09NeedsChecksLive`, `c09CkptUsesLevels`, `c09LoadedGuarded`,
`c09CreatedDeletes`), so every theorem below is re-checked against the rules the code has now.

PARTIAL, by nature and by finding:
* that Go's collector runs a cleanup only for an unreachable object (and when) is trusted; the harness forces
  collections at the trace's `gc` points and compares which cleanups ran with the model's unreachable set;
* WAL files are files with names (`Wal`: directory, number, version): a checkpoint that seals a WAL under a name that
  is already taken overwrites that file (`clobber`) — an overwrite is a deletion of the older content — and
  `Checkpoint.Destroy` deletes by name (`rmWals`). The global theorems therefore say: no file — table or WAL —
  referenced by a retained checkpoint document is deleted or overwritten.
* the global invariant `Safe` (every needed file exists) is proved for three families of histories:
  - `no_needed_file_deleted_composed_partial`: any number of operators running at the same time, each of which may
    crash and be restarted — any number of times, from any checkpoint handle of its own lineage the job still retains,
    in a directory of its own — while the others keep running (the deployment with restarts, without rescale);
  - `no_needed_file_deleted_concurrent_partial`: its no-restart case, which also lets a crashed instance's leftover
    garbage be collected;
  - `no_needed_file_deleted_lineage_partial`: its one-operator case (`no_needed_file_deleted_partial` is the
    one-generation case of that, again with a crashed instance's leftover garbage).
  In all of them the JOB's retained set changes only by the job's own actions (`ckpt` adds a handle, `jobDrop` and
  `jobAbandon` remove handles); a restart (`openFrom`) removes nothing.
  Not proved: restores that share tables between running operators (rescale), reopening in the directory of an
  earlier instance, and a restart from a retained checkpoint that is not the newest one the job retains of that
  operator (refuted: `d68_counterexample`).
  The full statement
    `∀ as s, run {} as = some s → Safe s`   (any number of instances, crashes, releases, restores, rescales)
  is FALSE of the code as it is: `d25_counterexample` (an instance released inside a living process deletes the files
  of its retained checkpoint), `d34_counterexample` (after a rescale-out a table is deleted although another running
  instance, whose key range does not overlap it, still lists it), `d50_counterexample` (a same-directory reopen drops
  the document entries of older retained checkpoints), `d68_counterexample` (an operator restarted from an older
  retained checkpoint deletes the tables of the newer retained checkpoints of its predecessor), and
  `d63_counterexample` (a table write of an instance dropped inside a living process landing on a file name the
  reopened instance uses: repaired as D63 for tasks in flight — `previous_instance_drained_before_reopen` — but still
  possible for writes the closed instance accepts afterwards, D70, `late_write_window_open`). These are open findings
  (D25, D34, D50, D68, D70).
* for ALL histories (any number of instances, restores, rescales, releases) the theorems
  `table_file_removed_only_by_justified_collect`, `error_means_keep` and
  `wal_file_removed_only_by_retention_or_overwrite` say who can remove a file and why; `wal_gc` is the exact file
  set after a retention update; `two_read_no_is_final` and `restore_numbers_above_loaded` cover the two-read
  `NeedsTable` and the WAL numbering after a restore from several handles.
  One-step unfoldings of the rules are lemmas in `Proofs/FilesSteps.lean`, not property theorems.
-/
namespace Rxn.C09
open Rxn Rxn.Files

/-! ## the global invariant (one instance, opened empty, never reopened) -/

/-- Every history of one dkv instance that was opened empty — flushes and compactions with any change sets,
checkpoints, job retention decisions, `UpdateRetainedCheckpoints` calls that drop only checkpoints the job has
dropped, snapshots held and released by readers, garbage collections of any unreachable table object at any moment
with any neighbour answers, and a final crash — leaves every file referenced by a job-retained checkpoint and every
table of the live level list in the file store.
Excluded (see the counterexamples below): reopening from a checkpoint, in-process release, several instances. -/
theorem no_needed_file_deleted_partial (range : KGRange) (nbrs : List KGRange) (as : List Act) (s : State)
    (h : runIn (init1 range nbrs) as = some s) : ∀ f ∈ needed s, f ∈ s.files := by
  obtain ⟨x, inv⟩ := runIn_inv1 (inv1_init range nbrs) h
  exact inv.safe

/-- …and in those histories every job-retained checkpoint is still in the instance's checkpoint list, i.e. its
document entry is still on disk with the same tables and WALs. -/
theorem retained_checkpoint_listed_partial (range : KGRange) (nbrs : List KGRange) (as : List Act) (s : State)
    (h : runIn (init1 range nbrs) as = some s) :
    ∃ x, s.insts = [x] ∧ ∀ hd ∈ s.retained, ∃ c ∈ x.ckpts, c.id = hd.id ∧ c.tables = hd.tables ∧ c.wals = hd.wals := by
  obtain ⟨x, inv⟩ := runIn_inv1 (inv1_init range nbrs) h
  exact ⟨x, inv.shape, fun hd hh => (inv.own hd hh).2⟩

/-! ## the global invariant across crash + reopen generations (one running instance at a time) -/

/-- Lineage: any number of generations of one operator. An instance runs (flushes, compactions, checkpoints,
retention updates that drop only checkpoints the job has dropped, snapshots, collections of any unreachable table
object — written by the instance or loaded from the document — at any moment with any neighbour answers), its
process dies, and a new instance is opened from ONE checkpoint handle the job still retains — the newest the job
retains (of any earlier instance; to go back further the job first gives up the newer ones, `jobAbandon`) — when no
other instance is running; and so on. The job's retained set changes only by `ckpt`, `jobDrop`, `jobAbandon`. In every state every
file referenced by a job-retained checkpoint of any generation and every table of the running instance's level list
is in the file store.
Scope (`inScopeL`), i.e. exactly what is excluded: a restart from a retained checkpoint while the job retains a newer
one (D68, `d68_counterexample`); an instance released inside a living process (D25: its objects die while a successor
uses the files) and with it a table write of such an instance landing after the directory was reopened (`lateWrite`:
D63 repaired, D70 open); reopening in an earlier instance's directory (D50); several instances alive at once and restores from several handles (rescale;
D34: holders whose key range does not overlap a table are never consulted); cleanups run by a dead process. -/
theorem no_needed_file_deleted_lineage_partial (range : KGRange) (nbrs : List KGRange) (as : List Act) (s : State)
    (h : runL (init1 range nbrs) as = some s) : ∀ f ∈ needed s, f ∈ s.files := by
  obtain ⟨dead, x, inv⟩ := runL_invL (invL_init range nbrs) h
  exact inv.safe

/-- …and every job-retained checkpoint of every generation is still listed, with the same tables and WALs, in the
checkpoint list (= saved document) of the instance that wrote it. -/
theorem retained_checkpoint_listed_lineage_partial (range : KGRange) (nbrs : List KGRange) (as : List Act) (s : State)
    (h : runL (init1 range nbrs) as = some s) :
    ∀ hd ∈ s.retained, ∃ d, s.insts[hd.writer]? = some d ∧
      ∃ c ∈ d.ckpts, c.id = hd.id ∧ c.tables = hd.tables ∧ c.wals = hd.wals := by
  obtain ⟨dead, x, inv⟩ := runL_invL (invL_init range nbrs) h
  intro hd hh
  by_cases hw : hd.writer = dead.length
  · obtain ⟨⟨c, hc, hid⟩, hall⟩ := inv.ownCur hd hh hw
    exact ⟨x, by rw [inv.shape, hw]; exact get_last dead x, c, hc, hid, hall c hc hid⟩
  · obtain ⟨⟨d, hdd, ⟨c, hc, hid⟩, hall⟩, _⟩ := inv.ownOld hd hh hw
    have hlt : hd.writer < dead.length := by have := inv.wlt hd hh; omega
    exact ⟨d, by rw [inv.shape, get_old hlt]; exact hdd, c, hc, hid, hall c hc hid⟩

/-- three generations: the second one compacts the restored table away, drops the restored checkpoint and its
collection deletes the first generation's table file; the third restores from the second -/
def lineageTrace : List Act :=
  [.flush 0 ⟨"a0", 0, 7⟩, .ckpt 0 1 ⟨0, 0, 0⟩, .flush 0 ⟨"a1", 0, 3⟩, .crash 0,
   .openFrom ⟨0, 8⟩ 1 [] [0] 1 1, .flush 1 ⟨"b0", 0, 7⟩, .compact 1 ["a0", "b0"] [⟨"b1", 0, 7⟩], .collect 1 "b0" [],
   .ckpt 1 2 ⟨1, 1, 0⟩, .jobDrop 1, .retain 1 [2], .collect 1 "a0" [], .crash 1,
   .openFrom ⟨0, 8⟩ 2 [] [1] 2 2, .flush 2 ⟨"c0", 4, 5⟩, .ckpt 2 3 ⟨2, 2, 0⟩]

example : (runL (init1 ⟨0, 8⟩ []) lineageTrace).map (fun s => (s.files, needed s)) =
    some ([.wal ⟨2, 2, 0⟩, .sst "c0", .wal ⟨1, 1, 0⟩, .sst "b1", .sst "a1"],
          [.sst "c0", .sst "b1", .sst "c0", .sst "b1", .wal ⟨2, 2, 0⟩, .sst "b1", .wal ⟨1, 1, 0⟩]) := by decide

/-- while the job retains checkpoint 1 the second generation cannot collect the restored table -/
example : runL (init1 ⟨0, 8⟩ []) (lineageTrace.take 9 ++ [.collect 1 "a0" []]) = none := by decide

/-! ## the global invariant for operators running at the same time (no rescale, no restart) -/

/-- Concurrency: any number of operators, each opened empty at any moment in a storage directory of its own, running
at the same time with arbitrarily interleaved flushes, compactions, checkpoints (the same job checkpoint id on several
operators), job drops, retention updates that drop only checkpoints the job has dropped, snapshots, collections of
any unreachable table object of any instance at any moment with any neighbour answers, failed redeploys and crashes
(a crashed operator is not reopened). In every state every file — table or WAL — referenced by a job-retained
checkpoint of any operator and every table of every running operator's level list is in the file store: no
operator's cleanup, retention update or WAL seal touches a file of another operator.
Scope (`inScopeN`), i.e. what remains excluded: restores (`openFrom`: restart and rescale — the one-operator restart
case is `no_needed_file_deleted_lineage_partial`; concurrent operators that restart, and operators that share tables
after a rescale, are covered only by the per-history deletion theorems below and refuted in general by D34) and
in-process release (D25). -/
theorem no_needed_file_deleted_concurrent_partial (as : List Act) (s : State) (h : runN {} as = some s) :
    ∀ f ∈ needed s, f ∈ s.files :=
  (runN_invN invN_init h).safe

/-- …and every job-retained checkpoint of every operator is still listed, with the same tables and WALs, in the
checkpoint list (= saved document) of the operator that wrote it. -/
theorem retained_checkpoint_listed_concurrent_partial (as : List Act) (s : State) (h : runN {} as = some s) :
    ∀ hd ∈ s.retained, ∃ d, s.insts[hd.writer]? = some d ∧
      ∃ c ∈ d.ckpts, c.id = hd.id ∧ c.tables = hd.tables ∧ c.wals = hd.wals :=
  fun hd hh => ((runN_invN invN_init h).own hd hh).2

/-- two operators interleaved: both take job checkpoint 1 and 2, compact, the job drops 1, both apply the retention
update (each deleting its own WAL 0 only) and collect their garbage; operator 0 crashes -/
def concurrentTrace : List Act :=
  [.openFresh ⟨0, 4⟩ 0 [⟨4, 8⟩] 0, .flush 0 ⟨"a0", 0, 3⟩, .openFresh ⟨4, 8⟩ 0 [⟨0, 4⟩] 1, .flush 1 ⟨"b0", 4, 7⟩,
   .ckpt 0 1 ⟨0, 0, 0⟩, .ckpt 1 1 ⟨1, 0, 0⟩, .flush 0 ⟨"a1", 1, 2⟩, .compact 0 ["a0", "a1"] [⟨"a2", 0, 3⟩],
   .flush 1 ⟨"b1", 5, 5⟩, .ckpt 1 2 ⟨1, 1, 0⟩, .ckpt 0 2 ⟨0, 1, 0⟩, .jobDrop 1, .retain 1 [2], .collect 0 "a1" [.no],
   .retain 0 [2], .collect 0 "a0" [.err], .crash 0, .compact 1 ["b0", "b1"] [⟨"b2", 4, 7⟩]]

example : (runN {} concurrentTrace).map (fun s => (s.files, needed s)) =
    some ([.sst "b2", .wal ⟨0, 1, 0⟩, .wal ⟨1, 1, 0⟩, .sst "b1", .sst "a2", .sst "b0"],
          [.sst "b2", .sst "a2", .wal ⟨0, 1, 0⟩, .sst "b1", .sst "b0", .wal ⟨1, 1, 0⟩]) := by decide

/-! ## the composition: operators running at the same time, each crashing and restarting (no rescale) -/

/-- Composition of the two scopes above: any number of operators ("lineages"), each opened empty at any moment in a
storage directory of its own, running at the same time with arbitrarily interleaved flushes, compactions, checkpoints,
job drops, retention updates that drop only checkpoints the job has dropped, snapshots, failed redeploys and
collections of any unreachable table object — written by the instance or loaded from a document — of any running
instance at any moment with any neighbour answers. Any operator's process may die at any time, and the operator is
then restarted, any number of times: a new instance, in a directory of its own, restored from ONE checkpoint handle
the job still retains — the newest the job retains of that operator (`newestOf`; written by any earlier instance of
it; to roll back further the job first gives up the newer checkpoints, `jobAbandon`) — while no instance of that
operator is running; the other operators keep running meanwhile. The job's retained set changes only by the job's
own actions (`ckpt`, `jobDrop`, `jobAbandon`): a restart drops nothing. In every state every file — table or WAL — referenced by a job-retained checkpoint of any instance of any
operator and every table of every running instance's level list is in the file store.
The invariant behind it (`InvC`, `Proofs/FilesCompose.lean`): tables never cross lineages; one running instance per
lineage, and it is the newest; a loaded table is pinned by the restored checkpoint until the job has dropped it, and
then no retained handle of an earlier instance of the lineage is left; WAL names referenced from a later directory
belong to a later instance of the same lineage.
Scope (`inScopeC`), i.e. exactly what is excluded: a restart from a retained checkpoint while the job retains a newer
one of that operator (D68, `d68_counterexample`); restores from several handles or from a handle of a lineage that is
running (rescale, shared tables: D34); reopening in the directory of an earlier instance (D50); an instance released
inside a living process (D25) and with it a table write of such an instance landing later (`lateWrite`: D63 repaired
for tasks in flight, D70 open for writes accepted after `Close`); cleanups run by a dead process. Note that the job as
built reacts to a lost operator by redeploying the whole assembly, and the surviving operators then take the
in-process path (release + same-directory reopen), which is outside this scope and refuted by D25. -/
theorem no_needed_file_deleted_composed_partial (as : List Act) (s : State) (h : runC {} as = some s) :
    ∀ f ∈ needed s, f ∈ s.files :=
  (runC_invC invC_init h).safe

/-- …and every job-retained checkpoint of every instance of every operator is still listed, with the same tables and
WALs, in the checkpoint list (= saved document) of the instance that wrote it. -/
theorem retained_checkpoint_listed_composed_partial (as : List Act) (s : State) (h : runC {} as = some s) :
    ∀ hd ∈ s.retained, ∃ d, s.insts[hd.writer]? = some d ∧
      ∃ c ∈ d.ckpts, c.id = hd.id ∧ c.tables = hd.tables ∧ c.wals = hd.wals := by
  intro hd hh
  obtain ⟨_, d, hd', ⟨c, hc, hid⟩, hall⟩ := (runC_invC invC_init h).own hd hh
  exact ⟨d, hd', c, hc, hid, hall c hc hid⟩

/-- …and at most one instance of an operator runs at a time, the newest of its lineage. -/
theorem one_running_instance_per_operator (as : List Act) (s : State) (h : runC {} as = some s) (i j : Nat)
    (x y : Inst) (hx : s.insts[i]? = some x) (hy : s.insts[j]? = some y) (hl : x.life = .alive) (hlin : y.lin = x.lin) :
    j ≤ i ∧ (y.life = .alive → i = j) :=
  ⟨(runC_invC invC_init h).newest i j x y hx hy hl hlin,
   fun hl' => (runC_invC invC_init h).onealive i j x y hx hy hl hl' hlin.symm⟩

/-- two operators; operator 0 dies and is restarted as instance 2 from its checkpoint 1 while operator 1 keeps
running; instance 2 compacts the restored table away, both take job checkpoint 2, the job drops 1, both apply the
retention update, instance 2's collection deletes the first generation's table file; then operator 1 dies and is
restarted as instance 3 -/
def composedTrace : List Act :=
  [.openFresh ⟨0, 4⟩ 0 [⟨4, 8⟩] 0, .openFresh ⟨4, 8⟩ 0 [⟨0, 4⟩] 1, .flush 0 ⟨"a0", 0, 3⟩, .flush 1 ⟨"b0", 4, 7⟩,
   .ckpt 0 1 ⟨0, 0, 0⟩, .ckpt 1 1 ⟨1, 0, 0⟩, .flush 0 ⟨"a1", 1, 2⟩, .crash 0,
   .openFrom ⟨0, 4⟩ 1 [⟨4, 8⟩] [0] 1 2, .flush 2 ⟨"c0", 0, 3⟩, .flush 1 ⟨"b1", 5, 5⟩,
   .compact 2 ["a0", "c0"] [⟨"c1", 0, 3⟩], .collect 2 "c0" [.no], .ckpt 2 2 ⟨2, 1, 0⟩, .ckpt 1 2 ⟨1, 1, 0⟩,
   .jobDrop 1, .retain 2 [2], .retain 1 [2], .collect 2 "a0" [.no], .crash 1,
   .openFrom ⟨4, 8⟩ 2 [⟨0, 4⟩] [1] 2 3, .flush 3 ⟨"d0", 4, 7⟩]

example : (runC {} composedTrace).map (fun s => (s.files, needed s)) =
    some ([.sst "d0", .wal ⟨1, 1, 0⟩, .wal ⟨2, 1, 0⟩, .sst "c1", .sst "b1", .sst "a1", .sst "b0"],
          [.sst "c1", .sst "d0", .sst "b1", .sst "b0", .sst "b1", .sst "b0", .wal ⟨1, 1, 0⟩, .sst "c1",
           .wal ⟨2, 1, 0⟩]) := by decide

/-- while the job retains checkpoint 1 the restarted instance cannot collect the restored table -/
example : runC {} (composedTrace.take 15 ++ [.collect 2 "a0" [.no]]) = none := by decide

/-- restarting an operator whose instance is still running is outside the scope (and possible in the model) -/
example : runC {} (composedTrace.take 7 ++ [.openFrom ⟨0, 4⟩ 1 [⟨4, 8⟩] [0] 1 2]) = none ∧
    (run {} (composedTrace.take 7 ++ [.openFrom ⟨0, 4⟩ 1 [⟨4, 8⟩] [0] 1 2])).isSome = true := by decide

/-! ## WAL deletion at the save after a retention update -/

/-- `UpdateRetainedCheckpoints(ids)`: afterwards exactly the files that have the NAME of a WAL of a dropped checkpoint
are gone (`Checkpoint.Destroy` deletes by name) — no table file, no WAL of a kept checkpoint unless a dropped
checkpoint references a file of the same name — the checkpoint list
(= the saved document) holds exactly the kept checkpoints, and the job's view is untouched. Any number of instances. -/
theorem wal_gc (s s' : State) (i : Nat) (ids : List Nat) (x : Inst) (hx : s.insts[i]? = some x)
    (h : step s (.retain i ids) = some s') :
    (∀ f, f ∈ s'.files ↔ f ∈ s.files ∧
      ¬ ∃ c ∈ x.ckpts, keeps ids c = false ∧ ∃ w ∈ c.wals, ∃ v, f = .wal v ∧ w.same v = true) ∧
    (∃ x', s'.insts[i]? = some x' ∧ ∀ c, c ∈ x'.ckpts ↔ c ∈ x.ckpts ∧ keeps ids c = true) := by
  obtain ⟨hf, hi, _⟩ := retain_effect hx h
  refine ⟨?_, _, hi, fun c => mem_keptOf⟩
  intro f
  rw [hf, mem_rmWals]
  constructor
  · rintro ⟨h1, h2⟩
    refine ⟨h1, ?_⟩
    rintro ⟨c, hc, hid, w, hw, v, rfl, hsm⟩
    have := h2 w (mem_walsOf.mpr ⟨c, mem_droppedOf.mpr ⟨hc, hid⟩, hw⟩) v rfl
    rw [hsm] at this; cases this
  · rintro ⟨h1, h2⟩
    refine ⟨h1, ?_⟩
    intro w hw v he
    obtain ⟨c, hc, hwc⟩ := mem_walsOf.mp hw
    have hd := mem_droppedOf.mp hc
    cases hsm : w.same v with
    | false => rfl
    | true => exact absurd ⟨c, hd.1, hd.2, w, hwc, v, he, hsm⟩ h2

/-! ## WAL numbering: a restored instance never writes over a WAL of the checkpoint it loaded -/

/-- Restore from any number of checkpoint handles (scale-in included), into any directory — also the directory of
one of the writers: the new instance numbers its WALs above every WAL of the composite checkpoint, so sealing WALs at
later checkpoints can never have the file name of a WAL the loaded checkpoint references. -/
theorem restore_numbers_above_loaded (s s' : State) (r : KGRange) (g : Nat) (n : List KGRange) (ws : List Nat)
    (id dir : Nat) (h : step s (.openFrom r g n ws id dir) = some s') :
    ∃ x, s'.insts = s.insts ++ [x] ∧ x.dir = dir ∧
      ∀ c ∈ x.ckpts, ∀ w ∈ c.wals, ∀ k, x.walNext ≤ k → (⟨x.dir, k, 0⟩ : Wal).same w = false := by
  simp only [step] at h
  split at h
  · simp at h
  · simp at h
  · rename_i ts wl _
    injection h with h; subst h
    refine ⟨_, rfl, rfl, ?_⟩
    intro c hc w hw k hk
    have hc' : c = ⟨id, ts, wl, true⟩ := by simpa using hc
    subst hc'
    have := nextWalId_gt wl w hw
    exact not_same_of_num (by
      show k ≠ w.num
      have hk' : nextWalId wl ≤ k := hk
      omega)

/-! ## who removes a file, in any history of any number of instances -/

/-- In ANY history — any number of instances, restores, rescales, releases, any neighbour answers — a table file
disappears only (a) through a collection of an object for that very table that was unreachable in its instance (in no
level list the instance holds), where either the instance wrote the table itself, or it loaded it and the table's key
groups lie inside its own range, or EVERY neighbour whose range overlaps the table answered a definite "no"; or
(b) because a background write that was still in flight in an instance dropped inside a living process lands under
the same file name (D63: overwrite). -/
theorem table_file_removed_only_by_justified_collect (s0 s : State) (as : List Act) (u : Path)
    (h : run s0 as = some s) (hin : File.sst u ∈ s0.files) (hout : File.sst u ∉ s.files) :
    (∃ pre i answers post sm x, as = pre ++ Act.collect i u answers :: post ∧ run s0 pre = some sm ∧
      sm.insts[i]? = some x ∧ x.unreachable u = true ∧
      (u ∈ x.created ∨ ∃ t ∈ x.loaded, t.uri = u ∧
        (Gen.kgContains x.range t.span = true ∨
          ∀ ra ∈ x.nbrs.zip answers, Gen.kgOverlaps ra.1 t.span = true → ra.2 = .no))) ∨
    (∃ pre i t post, as = pre ++ Act.lateWrite i t :: post ∧ t.uri = u) :=
  run_removes_sst h hin hout

/-- error ⇒ keep, for whole histories (D9, repaired: `c09OwnsErrKeeps`; no deadline, errors never swallowed:
`c09OwnsNoDeadline`, `c09OwnsErrPassed`): if along a history every collection of a loaded object for table `u` whose
key groups are not inside the collecting operator's own range has some overlapping neighbour that could not be asked
(error), did not answer (timeout) or said it needs the table, no instance that wrote `u` itself collects it, and no
late write of a released instance lands on its name (D63), then the file of `u` is never deleted. -/
theorem error_means_keep (s0 s : State) (as : List Act) (u : Path) (h : run s0 as = some s)
    (hin : File.sst u ∈ s0.files)
    (hbad : ∀ pre i answers post sm x, as = pre ++ Act.collect i u answers :: post → run s0 pre = some sm →
      sm.insts[i]? = some x → u ∉ x.created ∧ ∀ t ∈ x.loaded, t.uri = u → Gen.kgContains x.range t.span = false ∧
        ∃ ra ∈ x.nbrs.zip answers, Gen.kgOverlaps ra.1 t.span = true ∧ ra.2 ≠ .no)
    (hnolate : ∀ pre i t post, as = pre ++ Act.lateWrite i t :: post → t.uri ≠ u) :
    File.sst u ∈ s.files := by
  by_cases hout : File.sst u ∈ s.files
  · exact hout
  · rcases run_removes_sst h hin hout with ⟨pre, i, answers, post, sm, x, has, hpre, hx, _, hwhy⟩ | ⟨pre, i, t, post, has, htu⟩
    · obtain ⟨hnc, hl⟩ := hbad pre i answers post sm x has hpre hx
      rcases hwhy with hc | ⟨t, ht, htu, hd⟩
      · exact absurd hc hnc
      · obtain ⟨hcont, ra, hra, ho, hne⟩ := hl t ht htu
        rcases hd with hd | hd
        · rw [hd] at hcont; cases hcont
        · exact absurd (hd ra hra ho) hne
    · exact absurd htu (hnolate pre i t post has)

/-- In ANY history a WAL file disappears only when a checkpoint seals a WAL of the same file name (overwrite) or a
retention update drops a checkpoint that references a WAL of that name — nothing else ever removes a WAL, and a
retention update removes the WALs of exactly the checkpoints it drops (`wal_gc`). -/
theorem wal_file_removed_only_by_retention_or_overwrite (s0 s : State) (as : List Act) (v : Wal)
    (h : run s0 as = some s) (hin : File.wal v ∈ s0.files) (hout : File.wal v ∉ s.files) :
    ∃ pre a post sm, as = pre ++ a :: post ∧ run s0 pre = some sm ∧
      ((∃ i id wal, a = .ckpt i id wal ∧ wal.same v = true) ∨
       (∃ i ids x, a = .retain i ids ∧ sm.insts[i]? = some x ∧
          ∃ c ∈ x.ckpts, keeps ids c = false ∧ ∃ w ∈ c.wals, w.same v = true)) :=
  run_removes_wal h hin hout

/-! ## `NeedsTable` is two reads -/

/-- A "no" is final (D46, repaired: `c09NeedsLiveFirst`). `DB.NeedsTable` reads the live level list in state `s1` and
the checkpoint list in a later state `s2`; any actions of any instance — checkpoints, compaction commits, retention
updates — may happen in between (`as`) and afterwards (`as'`). If the answer is "no" for a table that exists
(`u ∈ s1.used`), then the instance does not need the table at the second read nor at any later moment: it is in no
checkpoint of its list and not in its live level list. -/
theorem two_read_no_is_final (s1 s2 s3 : State) (as as' : List Act) (j : Nat) (u : Path) (x1 x2 x3 : Inst)
    (h12 : run s1 as = some s2) (h23 : run s2 as' = some s3)
    (hx1 : s1.insts[j]? = some x1) (hx2 : s2.insts[j]? = some x2) (hx3 : s3.insts[j]? = some x3)
    (hu : u ∈ s1.used) (hno : needsTable2 x1 x2 u = false) : needsTable x3 u = false := by
  simp only [needsTable2, needsFirst, needsSecond, Facts.c09NeedsLiveFirst, beq_self_eq_true, if_true,
    Bool.or_eq_false_iff] at hno
  obtain ⟨y2, hy2, hu2, hn2⟩ := run_notLive h12 ⟨x1, hx1, hu, readLive_false hno.1⟩
  rw [hx2] at hy2; injection hy2 with hy2; subst hy2
  obtain ⟨y3, hy3, _, hn3, hc3⟩ := run_notNeeded h23 ⟨x2, hx2, hu2, hn2, readCkpts_false hno.2⟩
  rw [hx3] at hy3; injection hy3 with hy3; subst hy3
  exact needsTable_of_notNeeded hn3 hc3

/-- The order matters: reading the checkpoint list first (the code before the repair) can answer "no" for a table
the newest checkpoint references — checkpoint 2 captures `t1`, a compaction drops it, both between the two reads. -/
def d46Before : List Act := [.openFresh ⟨0, 8⟩ 0 [] 0, .flush 0 ⟨"t0", 0, 7⟩, .ckpt 0 1 ⟨0, 0, 0⟩, .flush 0 ⟨"t1", 0, 7⟩]
def d46Between : List Act := [.ckpt 0 2 ⟨0, 1, 0⟩, .compact 0 ["t0", "t1"] [⟨"t2", 0, 7⟩]]

theorem d46_counterexample :
    ((run {} d46Before).bind fun s1 => (run s1 d46Between).bind fun s2 =>
      match s1.insts[0]?, s2.insts[0]? with
      | some x1, some x2 => some (readCkpts x1 "t1" || readLive x2 "t1", needsTable x2 "t1", needsTable2 x1 x2 "t1")
      | _, _ => none) = some (false, true, true) := by decide

/-! ## non-vacuity -/

/-- a history inside the scope of the global theorem with two checkpoints, a compaction, a retention update that
deletes a WAL, a snapshot and collections that delete three table files -/
def sampleTrace : List Act :=
  [.flush 0 ⟨"t0", 0, 3⟩, .flush 0 ⟨"t1", 2, 7⟩, .snap 0, .ckpt 0 1 ⟨0, 0, 0⟩, .compact 0 ["t0", "t1"] [⟨"t2", 0, 7⟩],
   .flush 0 ⟨"t3", 1, 1⟩, .compact 0 ["t3"] [], .collect 0 "t3" [], .ckpt 0 2 ⟨0, 1, 0⟩, .jobDrop 1, .retain 0 [2],
   .unsnap 0 0, .collect 0 "t0" [], .collect 0 "t1" [], .crash 0]

example : (runIn (init1 ⟨0, 8⟩ []) sampleTrace).map (fun s => (s.files, needed s)) =
    some ([.wal ⟨0, 1, 0⟩, .sst "t2"], [.sst "t2", .wal ⟨0, 1, 0⟩]) := by decide

/-- the retention step of that history really deletes the WAL of the dropped checkpoint and nothing else -/
example : (runIn (init1 ⟨0, 8⟩ []) (sampleTrace.take 10)).map (·.files) =
      some [.wal ⟨0, 1, 0⟩, .sst "t2", .wal ⟨0, 0, 0⟩, .sst "t1", .sst "t0"] ∧
    (runIn (init1 ⟨0, 8⟩ []) (sampleTrace.take 11)).map (·.files) =
      some [.wal ⟨0, 1, 0⟩, .sst "t2", .sst "t1", .sst "t0"] := by decide

/-- while the snapshot is held the collector may not touch the tables it pins -/
example : runIn (init1 ⟨0, 8⟩ []) (sampleTrace.take 11 ++ [.collect 0 "t0" []]) = none := by decide

/-- the decision rule has all three outcomes, and an error really flips delete to keep -/
example : decision ⟨0, 4⟩ ⟨"t", 2, 5⟩ [(⟨4, 8⟩, .no)] = .delete ∧
    decision ⟨0, 4⟩ ⟨"t", 2, 5⟩ [(⟨4, 8⟩, .err)] = .keep ∧
    decision ⟨0, 4⟩ ⟨"t", 2, 5⟩ [(⟨4, 6⟩, .hang), (⟨6, 8⟩, .no)] = .block ∧
    decision ⟨0, 4⟩ ⟨"t", 2, 5⟩ [(⟨4, 6⟩, .err), (⟨6, 8⟩, .needs)] = .keep ∧
    decision ⟨0, 4⟩ ⟨"t", 1, 3⟩ [(⟨4, 8⟩, .needs)] = .delete := by decide

/-! ## the unrestricted statement is false of the code as it is (open findings) -/

/-- D63, repaired (f9820ca): `Operator.HandleDeploy` closes the previous database before `dkv.Open`, and `DB.Close`
waits for every flush and compaction the instance had enqueued — read from the source on every run (hard facts
`c09DeployClosesFirst`, `c09CloseWaits`). This rules out a late write of a task that was in flight at the redeploy;
it does NOT rule out `lateWrite` altogether (next theorem). -/
theorem previous_instance_drained_before_reopen : drained = true := by decide

/-- D70 (open): `DB.Close` is one wait on the pending-task counter — it drains, it does not stop intake — and the
operator's event goroutine applies a batch to the old store without the operator's mutex until `dkv.Open` has
returned (`c09WritersFenced` = 0: no closed flag read by `Put`/`rotateMemtable`/`enqueue`, `processEventBatch` not
under `o.mu`). A flush enqueued after `Close` returned writes a table file, under the old instance's numbering, into
the directory the new instance has reopened. So `lateWrite` is still a behaviour of the code, in a narrower window;
every global theorem excludes it. (Breaks, as it should, when the window is closed in the source.) -/
theorem late_write_window_open : quiesced = false := by decide

/-- The late write (D63 for a task in flight — repaired; D70 for a write accepted after `Close` — open): the operator is
redeployed inside a living process. Instance 0 is dropped (`release`); instance 1 is opened from checkpoint 1 in the
same directory and flushes table "t1" — the name instance 0's numbering gives its next table too. When instance 0's
write lands, the live table "t1" of the running instance 1 is lost. -/
def d63Trace : List Act :=
  [.openFresh ⟨0, 8⟩ 0 [] 0, .flush 0 ⟨"t0", 0, 7⟩, .ckpt 0 1 ⟨0, 0, 0⟩, .release 0,
   .openFrom ⟨0, 8⟩ 1 [] [0] 1 0, .flush 1 ⟨"t1", 0, 7⟩, .lateWrite 0 ⟨"t1", 0, 7⟩]

theorem d63_counterexample :
    (run {} d63Trace).map (fun s => (liveTables s, missing s)) = some (["t1", "t0"], [File.sst "t1"]) := by decide

/-- D68 (open): the job retains checkpoints 1 and 2 of operator X (both list table t0). X's process dies and the
operator is restarted as Y, in a directory of its own, from the OLDER retained checkpoint 1. Y knows only the
checkpoint it restored from: it compacts t0 away, takes checkpoint 3, the job drops checkpoint 1 — and only 1 —, Y's
retention update (the job's list: 2 and 3) drops the restored checkpoint, and the collection of Y's loaded t0 object
deletes the file (its key groups lie inside Y's own range, nobody is asked). Checkpoint 2, which the job never dropped
and whose document entry is intact, has lost its table. The same history with the job giving up checkpoint 2 first
(`jobAbandon 2`) is inside the scope of the composed theorem. -/
def d68Trace : List Act :=
  [.openFresh ⟨0, 8⟩ 0 [] 0, .flush 0 ⟨"t0", 0, 7⟩, .ckpt 0 1 ⟨0, 0, 0⟩, .ckpt 0 2 ⟨0, 1, 0⟩, .crash 0,
   .openFrom ⟨0, 8⟩ 1 [] [0] 1 1, .flush 1 ⟨"u0", 0, 7⟩, .compact 1 ["t0", "u0"] [⟨"u1", 0, 7⟩],
   .ckpt 1 3 ⟨1, 1, 0⟩, .jobDrop 1, .retain 1 [2, 3], .collect 1 "t0" []]

theorem d68_counterexample :
    (run {} d68Trace).map (fun s => (s.floor, s.retained.map (fun h => (h.writer, h.id)),
        (docEntry s 0 2).map (fun c => uris c.tables), missing s)) =
      some (1, [(1, 3), (0, 2)], some ["t0"], [File.sst "t0"]) ∧
    runC {} d68Trace = none ∧
    (runC {} (d68Trace.take 5 ++ [.jobAbandon 2] ++ d68Trace.drop 5)).map missing = some [] := by decide

/-- D50: an instance reopened in the directory of the instance it restores from saves a checkpoints document that
starts at the restored checkpoint 2: the directory's document (now instance 1's) has an entry for checkpoint 2 and
none for the older checkpoint 1, which the job still retains (in this trace the files checkpoint 1 references are
still there). -/
def d50Trace : List Act :=
  [.openFresh ⟨0, 8⟩ 0 [] 0, .flush 0 ⟨"t0", 0, 7⟩, .ckpt 0 1 ⟨0, 0, 0⟩, .ckpt 0 2 ⟨0, 1, 0⟩, .crash 0,
   .openFrom ⟨0, 8⟩ 1 [] [0] 2 0, .ckpt 1 3 ⟨0, 2, 0⟩]

theorem d50_counterexample :
    (run {} d50Trace).map (fun s => (s.retained.map (fun h => (h.writer, h.id)), s.docs,
        (docEntry s 1 1).isSome, (docEntry s 1 2).isSome, missing s)) =
      some ([(1, 3), (0, 2), (0, 1)], [1], false, true, []) := by decide


/-- D25: open; write; checkpoint 1; the instance is released inside the living process (operator redeploy); the next
collection deletes the table although checkpoint 1 is retained. -/
def d25Trace : List Act :=
  [.openFresh ⟨0, 8⟩ 0 [] 0, .flush 0 ⟨"t0", 0, 7⟩, .ckpt 0 1 ⟨0, 0, 0⟩, .release 0, .collect 0 "t0" []]

theorem d25_counterexample : (run {} d25Trace).map missing = some [File.sst "t0"] := by decide

/-- D34: X (all key groups) writes a table covering key groups 0..1, checkpoints and dies; Y (0..3) and Z (4..7)
restore from it — both list the table. Y compacts it away, takes checkpoint 2, the job drops checkpoint 1, Y drops it:
Y's collection deletes the table without asking Z (Y's range contains it), while Z is running with the table in its
level list and in its retained checkpoint 2 (so the file is missing twice over). -/
def d34Trace : List Act :=
  [.openFresh ⟨0, 8⟩ 0 [] 0, .flush 0 ⟨"x0", 0, 1⟩, .ckpt 0 1 ⟨0, 0, 0⟩, .crash 0,
   .openFrom ⟨0, 4⟩ 1 [⟨4, 8⟩] [0] 1 1, .openFrom ⟨4, 8⟩ 1 [⟨0, 4⟩] [0] 1 2,
   .flush 1 ⟨"y0", 0, 1⟩, .compact 1 ["x0", "y0"] [⟨"y1", 0, 1⟩], .ckpt 1 2 ⟨1, 1, 0⟩, .ckpt 2 2 ⟨2, 1, 0⟩, .jobDrop 1,
   .retain 1 [2], .collect 1 "x0" [.needs]]

theorem d34_counterexample : (run {} d34Trace).map missing = some [File.sst "x0", File.sst "x0"] := by decide

end Rxn.C09
