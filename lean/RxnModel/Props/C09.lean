import RxnModel.Proofs.Files
/-!
# C09 — files needed by retained checkpoints or live tables are never deleted

Property theorems only. Model: `Model/Files.lean` (dkv instances as sets of Table objects with explicit roots, a
persistent file set, checkpoint lists, the job's retained checkpoint handles as ghost state; the garbage collector is
the action `collect i u`, enabled only for unreachable objects). Helper lemmas: `Proofs/Files.lean`.
The decision rules (`decision`, `needsTable`, which cleanup deletes) are read from the source on every run
(`Generated/Facts.lean`: `c09OwnsErrKeeps`, `c09NeedsChecksLive`, `c09CkptUsesLevels`, `c09LoadedGuarded`,
`c09CreatedDeletes`), so every theorem below is re-checked against the rules the code has now.

PARTIAL, by nature and by finding:
* that Go's collector runs a cleanup only for an unreachable object (and when) is trusted; the harness forces
  collections at the trace's `gc` points and compares which cleanups ran with the model's unreachable set;
* the global theorem is proved for one instance opened empty and never reopened (`no_needed_file_deleted_partial`).
  The full statement
    `∀ as s, run {} as = some s → Safe s`   (any number of instances, crashes, releases, restores, rescales)
  is FALSE of the code as it is: `d25_counterexample` (an instance released inside a living process deletes the files
  of its retained checkpoint) and `d34_counterexample` (after a rescale-out a table is deleted although another
  running instance, whose key range does not overlap it, still lists it). Both are open findings (D25, D34).
  For several instances the per-step theorems (`collect_deletes_only_unreachable`, `shared_table_needs_all_no`,
  `error_means_keep`, `neighbour_no_is_truthful`, `wal_gc`) hold without restriction.
-/
namespace Rxn.C09
open Rxn Rxn.Files

/-! ## the global invariant (one instance, opened empty, never reopened) -/

/-- Every history of one dkv instance that was opened empty — flushes and compactions with any change sets,
checkpoints, job retention decisions, `UpdateRetainedCheckpoints` calls that drop only checkpoints the job has
dropped, snapshots held and released by readers, garbage collections of any unreachable table object at any moment
with any neighbour answers, and a final crash — leaves every file referenced by a job-retained checkpoint and every
table of the live level list in the file store.
Excluded (see the counterexamples below): reopening from a checkpoint, in-process release, several instances. -/
theorem no_needed_file_deleted_partial (range : KGRange) (nbrs : List KGRange) (as : List Act) (s : State)
    (h : runIn (init1 range nbrs) as = some s) : ∀ f ∈ needed s, f ∈ s.files := by
  obtain ⟨x, inv⟩ := runIn_inv1 (inv1_init range nbrs) h
  exact inv.safe

/-- …and in those histories every job-retained checkpoint is still in the instance's checkpoint list, i.e. its
document entry is still on disk with the same tables and WALs. -/
theorem retained_checkpoint_listed_partial (range : KGRange) (nbrs : List KGRange) (as : List Act) (s : State)
    (h : runIn (init1 range nbrs) as = some s) :
    ∃ x, s.insts = [x] ∧ ∀ hd ∈ s.retained, ∃ c ∈ x.ckpts, c.id = hd.id ∧ c.tables = hd.tables ∧ c.wals = hd.wals := by
  obtain ⟨x, inv⟩ := runIn_inv1 (inv1_init range nbrs) h
  exact ⟨x, inv.shape, fun hd hh => (inv.own hd hh).2⟩

/-! ## WAL deletion at the save after a retention update -/

/-- a checkpoint is kept exactly if its id is listed or it is newer than every listed id -/
theorem keeps_iff (ids : List Nat) (c : Ckpt) : keeps ids c = true ↔ c.id ∈ ids ∨ ids.foldl max 0 < c.id := by
  simp [keeps]

/-- `UpdateRetainedCheckpoints(ids)`: afterwards exactly the WAL files of the dropped checkpoints are gone — no
table file, no WAL of a kept checkpoint unless a dropped checkpoint references the same file — the checkpoint list
(= the saved document) holds exactly the kept checkpoints, and the job's view is untouched. Any number of instances. -/
theorem wal_gc (s s' : State) (i : Nat) (ids : List Nat) (x : Inst) (hx : s.insts[i]? = some x)
    (h : step s (.retain i ids) = some s') :
    (∀ f, f ∈ s'.files ↔ f ∈ s.files ∧ ¬ ∃ c ∈ x.ckpts, keeps ids c = false ∧ ∃ w ∈ c.wals, f = .wal w) ∧
    (∃ x', s'.insts[i]? = some x' ∧ ∀ c, c ∈ x'.ckpts ↔ c ∈ x.ckpts ∧ keeps ids c = true) := by
  obtain ⟨hf, hi, _⟩ := retain_effect hx h
  refine ⟨?_, _, hi, fun c => mem_keptOf⟩
  intro f
  rw [hf, mem_rmWals]
  constructor
  · rintro ⟨h1, h2⟩
    refine ⟨h1, ?_⟩
    rintro ⟨c, hc, hid, w, hw, rfl⟩
    exact h2 w (mem_walsOf.mpr ⟨c, mem_droppedOf.mpr ⟨hc, hid⟩, hw⟩) rfl
  · rintro ⟨h1, h2⟩
    refine ⟨h1, ?_⟩
    intro w hw he
    obtain ⟨c, hc, hwc⟩ := mem_walsOf.mp hw
    have hd := mem_droppedOf.mp hc
    exact h2 ⟨c, hd.1, hd.2, w, hwc, he⟩

/-! ## what a collection can delete -/

/-- A cleanup runs only for an unreachable object, can remove only that object's file, and removes it only if the
object was written by the instance itself or the ownership rule said delete. Any number of instances. -/
theorem collect_deletes_only_unreachable (s s' : State) (i : Nat) (u : Path) (answers : List Ans) (x : Inst)
    (hx : s.insts[i]? = some x) (h : step s (.collect i u answers) = some s') :
    x.unreachable u = true ∧ (∀ f ∈ s.files, f ≠ .sst u → f ∈ s'.files) ∧
    (.sst u ∈ s.files → .sst u ∉ s'.files → u ∈ x.created ∨
      ∃ t ∈ x.loaded, t.uri = u ∧ decision x.range t (x.nbrs.zip answers) = .delete) :=
  let ⟨a, b, _, d⟩ := collect_effect hx h
  ⟨a, b, d⟩

/-- For a running instance "unreachable" means: in no level list the instance holds — not the current one, not one
captured by a checkpoint in its list, not a snapshot of a reader or compaction. -/
theorem unreachable_alive (x : Inst) (u : Path) (hl : x.life = .alive) (h : x.unreachable u = true) :
    u ∉ uris x.current ∧ (∀ c ∈ x.ckpts, u ∉ uris c.tables) ∧ ∀ sn ∈ x.snaps, u ∉ uris sn := by
  have hr : x.refs u = false := by simpa [Inst.unreachable, hl] using h
  refine ⟨?_, ?_, ?_⟩
  · intro hu; rw [refs_iff.mpr (Or.inl hu)] at hr; cases hr
  · intro c hc hu; rw [refs_iff.mpr (Or.inr (Or.inl ⟨c, hc, hu⟩))] at hr; cases hr
  · intro sn hsn hu; rw [refs_iff.mpr (Or.inr (Or.inr ⟨sn, hsn, hu⟩))] at hr; cases hr

/-- A table loaded from a checkpoint document whose key-group span is not inside the operator's own range is deleted
only if every neighbour whose range overlaps the table answered a definite "no". -/
theorem shared_table_needs_all_no (own : KGRange) (t : Tbl) (nbrs : List (KGRange × Ans))
    (hnc : Gen.kgContains own t.span = false) (h : decision own t nbrs = .delete) :
    ∀ ra ∈ nbrs, Gen.kgOverlaps ra.1 t.span = true → ra.2 = .no := by
  rcases decision_delete_cases own t nbrs h with hc | hall
  · rw [hc] at hnc; cases hnc
  · exact hall

/-- error ⇒ keep: if a neighbour whose range overlaps a shared table could not be asked (error) or does not answer
(timeout), collecting the table object never deletes the file. (D9, repaired: `c09OwnsErrKeeps`.) -/
theorem error_means_keep (s s' : State) (i : Nat) (u : Path) (answers : List Ans) (x : Inst)
    (hx : s.insts[i]? = some x) (h : step s (.collect i u answers) = some s')
    (hload : u ∉ x.created)
    (hbad : ∀ t ∈ x.loaded, t.uri = u → Gen.kgContains x.range t.span = false ∧
      ∃ ra ∈ x.nbrs.zip answers, Gen.kgOverlaps ra.1 t.span = true ∧ (ra.2 = .err ∨ ra.2 = .hang))
    (hin : .sst u ∈ s.files) : .sst u ∈ s'.files := by
  obtain ⟨_, _, _, hd⟩ := collect_effect hx h
  by_cases hout : File.sst u ∈ s'.files
  · exact hout
  · rcases hd hin hout with hc | ⟨t, ht, hu, hdel⟩
    · exact absurd hc hload
    · obtain ⟨hnc, ra, hra, ho, hans⟩ := hbad t ht hu
      have hans' : ra.2 = .err ∨ ra.2 = .hang ∨ ra.2 = .needs := by
        rcases hans with e | e
        · exact Or.inl e
        · exact Or.inr (Or.inl e)
      exact absurd hdel (decision_ne_delete x.range t _ hnc ⟨ra, hra, ho, hans'⟩)

/-- the pure rule behind it -/
theorem error_means_keep_rule (own : KGRange) (t : Tbl) (nbrs : List (KGRange × Ans))
    (hnc : Gen.kgContains own t.span = false)
    (h : ∃ ra ∈ nbrs, Gen.kgOverlaps ra.1 t.span = true ∧ (ra.2 = .err ∨ ra.2 = .hang)) :
    decision own t nbrs ≠ .delete := by
  obtain ⟨ra, hra, ho, hans⟩ := h
  refine decision_ne_delete own t nbrs hnc ⟨ra, hra, ho, ?_⟩
  rcases hans with e | e
  · exact Or.inl e
  · exact Or.inr (Or.inl e)

/-- A neighbour's "no" (`DB.NeedsTable = false`) means the table is in none of its retained checkpoints — whether
loaded from a document or taken by the instance itself — and not in its live level list. (D24, repaired:
`c09NeedsChecksLive`, `c09CkptUsesLevels`.) -/
theorem neighbour_no_is_truthful (x : Inst) (u : Path) (h : needsTable x u = false) :
    u ∉ uris x.current ∧ ∀ c ∈ x.ckpts, u ∉ uris c.tables :=
  needsTable_false h

/-! ## non-vacuity -/

/-- a history inside the scope of the global theorem with two checkpoints, a compaction, a retention update that
deletes a WAL, a snapshot and collections that delete three table files -/
def sampleTrace : List Act :=
  [.flush 0 ⟨"t0", 0, 3⟩, .flush 0 ⟨"t1", 2, 7⟩, .snap 0, .ckpt 0 1 "w0", .compact 0 ["t0", "t1"] [⟨"t2", 0, 7⟩],
   .flush 0 ⟨"t3", 1, 1⟩, .compact 0 ["t3"] [], .collect 0 "t3" [], .ckpt 0 2 "w1", .jobDrop 1, .retain 0 [2],
   .unsnap 0 0, .collect 0 "t0" [], .collect 0 "t1" [], .crash 0]

example : (runIn (init1 ⟨0, 8⟩ []) sampleTrace).map (fun s => (s.files, needed s)) =
    some ([.wal "w1", .sst "t2"], [.sst "t2", .wal "w1"]) := by decide

/-- the retention step of that history really deletes the WAL of the dropped checkpoint and nothing else -/
example : (runIn (init1 ⟨0, 8⟩ []) (sampleTrace.take 10)).map (·.files) =
      some [.wal "w1", .sst "t2", .wal "w0", .sst "t1", .sst "t0"] ∧
    (runIn (init1 ⟨0, 8⟩ []) (sampleTrace.take 11)).map (·.files) =
      some [.wal "w1", .sst "t2", .sst "t1", .sst "t0"] := by decide

/-- while the snapshot is held the collector may not touch the tables it pins -/
example : runIn (init1 ⟨0, 8⟩ []) (sampleTrace.take 11 ++ [.collect 0 "t0" []]) = none := by decide

/-- the decision rule has all three outcomes, and an error really flips delete to keep -/
example : decision ⟨0, 4⟩ ⟨"t", 2, 5⟩ [(⟨4, 8⟩, .no)] = .delete ∧
    decision ⟨0, 4⟩ ⟨"t", 2, 5⟩ [(⟨4, 8⟩, .err)] = .keep ∧
    decision ⟨0, 4⟩ ⟨"t", 2, 5⟩ [(⟨4, 6⟩, .hang), (⟨6, 8⟩, .no)] = .block ∧
    decision ⟨0, 4⟩ ⟨"t", 2, 5⟩ [(⟨4, 6⟩, .err), (⟨6, 8⟩, .needs)] = .keep ∧
    decision ⟨0, 4⟩ ⟨"t", 1, 3⟩ [(⟨4, 8⟩, .needs)] = .delete := by decide

/-! ## the unrestricted statement is false of the code as it is (open findings) -/

/-- D25: open; write; checkpoint 1; the instance is released inside the living process (operator redeploy); the next
collection deletes the table although checkpoint 1 is retained. -/
def d25Trace : List Act :=
  [.openFresh ⟨0, 8⟩ 0 [], .flush 0 ⟨"t0", 0, 7⟩, .ckpt 0 1 "w0", .release 0, .collect 0 "t0" []]

theorem d25_counterexample : (run {} d25Trace).map missing = some [File.sst "t0"] := by decide

/-- D34: X (all key groups) writes a table covering key groups 0..1, checkpoints and dies; Y (0..3) and Z (4..7)
restore from it — both list the table. Y compacts it away, takes checkpoint 2, the job drops checkpoint 1, Y drops it:
Y's collection deletes the table without asking Z (Y's range contains it), while Z is running with the table in its
level list and in its retained checkpoint 2 (so the file is missing twice over). -/
def d34Trace : List Act :=
  [.openFresh ⟨0, 8⟩ 0 [], .flush 0 ⟨"x0", 0, 1⟩, .ckpt 0 1 "w0", .crash 0,
   .openFrom ⟨0, 4⟩ 1 [⟨4, 8⟩] 0 1, .openFrom ⟨4, 8⟩ 1 [⟨0, 4⟩] 0 1,
   .flush 1 ⟨"y0", 0, 1⟩, .compact 1 ["x0", "y0"] [⟨"y1", 0, 1⟩], .ckpt 1 2 "w1", .ckpt 2 2 "w2", .jobDrop 1,
   .retain 1 [2], .collect 1 "x0" [.needs]]

theorem d34_counterexample : (run {} d34Trace).map missing = some [File.sst "x0", File.sst "x0"] := by decide

end Rxn.C09
