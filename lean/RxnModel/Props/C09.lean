import RxnModel.Proofs.FilesLineage
/-!
# C09 — files needed by retained checkpoints or live tables are never deleted

Property theorems only. Model: `Model/Files.lean` (dkv instances as sets of Table objects with explicit roots, a
persistent file set, checkpoint lists, the job's retained checkpoint handles as ghost state; the garbage collector is
the action `collect i u`, enabled only for unreachable objects). Helper lemmas: `Proofs/Files.lean`.
The decision rules (`decision`, `needsTable`, which cleanup deletes) are read from the source on every run
(`Generated/Facts.lean`: `c09OwnsErrKeeps`, `c09NeedsChecksLive`, `c09CkptUsesLevels`, `c09LoadedGuarded`,
`c09CreatedDeletes`), so every theorem below is re-checked against the rules the code has now.

PARTIAL, by nature and by finding:
* that Go's collector runs a cleanup only for an unreachable object (and when) is trusted; the harness forces
  collections at the trace's `gc` points and compares which cleanups ran with the model's unreachable set;
* WAL files are files with names (`Wal`: directory, number, version): a checkpoint that seals a WAL under a name that
  is already taken overwrites that file (`clobber`) — an overwrite is a deletion of the older content — and
  `Checkpoint.Destroy` deletes by name (`rmWals`). The global theorems therefore say: no file — table or WAL —
  referenced by a retained checkpoint document is deleted or overwritten.
* the global theorem is proved for one operator lineage: one running instance at a time over any number of crash +
  reopen generations (`no_needed_file_deleted_lineage_partial`; `no_needed_file_deleted_partial` is the one-generation
  case, which also lets a crashed instance's leftover garbage be collected).
  The full statement
    `∀ as s, run {} as = some s → Safe s`   (any number of instances, crashes, releases, restores, rescales)
  is FALSE of the code as it is: `d25_counterexample` (an instance released inside a living process deletes the files
  of its retained checkpoint) and `d34_counterexample` (after a rescale-out a table is deleted although another
  running instance, whose key range does not overlap it, still lists it). Both are open findings (D25, D34).
  For several instances the per-step theorems (`collect_deletes_only_unreachable`, `shared_table_needs_all_no`,
  `error_means_keep`, `neighbour_no_is_truthful`, `wal_gc`) hold without restriction.
-/
namespace Rxn.C09
open Rxn Rxn.Files

/-! ## the global invariant (one instance, opened empty, never reopened) -/

/-- Every history of one dkv instance that was opened empty — flushes and compactions with any change sets,
checkpoints, job retention decisions, `UpdateRetainedCheckpoints` calls that drop only checkpoints the job has
dropped, snapshots held and released by readers, garbage collections of any unreachable table object at any moment
with any neighbour answers, and a final crash — leaves every file referenced by a job-retained checkpoint and every
table of the live level list in the file store.
Excluded (see the counterexamples below): reopening from a checkpoint, in-process release, several instances. -/
theorem no_needed_file_deleted_partial (range : KGRange) (nbrs : List KGRange) (as : List Act) (s : State)
    (h : runIn (init1 range nbrs) as = some s) : ∀ f ∈ needed s, f ∈ s.files := by
  obtain ⟨x, inv⟩ := runIn_inv1 (inv1_init range nbrs) h
  exact inv.safe

/-- …and in those histories every job-retained checkpoint is still in the instance's checkpoint list, i.e. its
document entry is still on disk with the same tables and WALs. -/
theorem retained_checkpoint_listed_partial (range : KGRange) (nbrs : List KGRange) (as : List Act) (s : State)
    (h : runIn (init1 range nbrs) as = some s) :
    ∃ x, s.insts = [x] ∧ ∀ hd ∈ s.retained, ∃ c ∈ x.ckpts, c.id = hd.id ∧ c.tables = hd.tables ∧ c.wals = hd.wals := by
  obtain ⟨x, inv⟩ := runIn_inv1 (inv1_init range nbrs) h
  exact ⟨x, inv.shape, fun hd hh => (inv.own hd hh).2⟩

/-! ## the global invariant across crash + reopen generations (one running instance at a time) -/

/-- Lineage: any number of generations of one operator. An instance runs (flushes, compactions, checkpoints,
retention updates that drop only checkpoints the job has dropped, snapshots, collections of any unreachable table
object — written by the instance or loaded from the document — at any moment with any neighbour answers), its
process dies, and a new instance is opened from ONE checkpoint handle the job still retains (any retained handle of
any earlier instance, not necessarily the newest), when no other instance is running; and so on. In every state every
file referenced by a job-retained checkpoint of any generation and every table of the running instance's level list
is in the file store.
Scope (`inScopeL`), i.e. what remains excluded: an instance released inside a living process (D25: its objects die
while a successor uses the files); several instances alive at once and restores from several handles (rescale;
D34: holders whose key range does not overlap a table are never consulted); cleanups run by a dead process. -/
theorem no_needed_file_deleted_lineage_partial (range : KGRange) (nbrs : List KGRange) (as : List Act) (s : State)
    (h : runL (init1 range nbrs) as = some s) : ∀ f ∈ needed s, f ∈ s.files := by
  obtain ⟨dead, x, inv⟩ := runL_invL (invL_init range nbrs) h
  exact inv.safe

/-- …and every job-retained checkpoint of every generation is still listed, with the same tables and WALs, in the
checkpoint list (= saved document) of the instance that wrote it. -/
theorem retained_checkpoint_listed_lineage_partial (range : KGRange) (nbrs : List KGRange) (as : List Act) (s : State)
    (h : runL (init1 range nbrs) as = some s) :
    ∀ hd ∈ s.retained, ∃ d, s.insts[hd.writer]? = some d ∧
      ∃ c ∈ d.ckpts, c.id = hd.id ∧ c.tables = hd.tables ∧ c.wals = hd.wals := by
  obtain ⟨dead, x, inv⟩ := runL_invL (invL_init range nbrs) h
  intro hd hh
  by_cases hw : hd.writer = dead.length
  · obtain ⟨⟨c, hc, hid⟩, hall⟩ := inv.ownCur hd hh hw
    exact ⟨x, by rw [inv.shape, hw]; exact get_last dead x, c, hc, hid, hall c hc hid⟩
  · obtain ⟨⟨d, hdd, ⟨c, hc, hid⟩, hall⟩, _⟩ := inv.ownOld hd hh hw
    have hlt : hd.writer < dead.length := by have := inv.wlt hd hh; omega
    exact ⟨d, by rw [inv.shape, get_old hlt]; exact hdd, c, hc, hid, hall c hc hid⟩

/-- three generations: the second one compacts the restored table away, drops the restored checkpoint and its
collection deletes the first generation's table file; the third restores from the second -/
def lineageTrace : List Act :=
  [.flush 0 ⟨"a0", 0, 7⟩, .ckpt 0 1 ⟨0, 0, 0⟩, .flush 0 ⟨"a1", 0, 3⟩, .crash 0,
   .openFrom ⟨0, 8⟩ 1 [] [0] 1 1, .flush 1 ⟨"b0", 0, 7⟩, .compact 1 ["a0", "b0"] [⟨"b1", 0, 7⟩], .collect 1 "b0" [],
   .ckpt 1 2 ⟨1, 1, 0⟩, .jobDrop 1, .retain 1 [2], .collect 1 "a0" [], .crash 1,
   .openFrom ⟨0, 8⟩ 2 [] [1] 2 2, .flush 2 ⟨"c0", 4, 5⟩, .ckpt 2 3 ⟨2, 2, 0⟩]

example : (runL (init1 ⟨0, 8⟩ []) lineageTrace).map (fun s => (s.files, needed s)) =
    some ([.wal ⟨2, 2, 0⟩, .sst "c0", .wal ⟨1, 1, 0⟩, .sst "b1", .sst "a1"],
          [.sst "c0", .sst "b1", .sst "c0", .sst "b1", .wal ⟨2, 2, 0⟩, .sst "b1", .wal ⟨1, 1, 0⟩]) := by decide

/-- while the job retains checkpoint 1 the second generation cannot collect the restored table -/
example : runL (init1 ⟨0, 8⟩ []) (lineageTrace.take 9 ++ [.collect 1 "a0" []]) = none := by decide

/-! ## WAL deletion at the save after a retention update -/

/-- a checkpoint is kept exactly if its id is listed or it is newer than every listed id -/
theorem keeps_iff (ids : List Nat) (c : Ckpt) : keeps ids c = true ↔ c.id ∈ ids ∨ ids.foldl max 0 < c.id := by
  simp [keeps]

/-- `UpdateRetainedCheckpoints(ids)`: afterwards exactly the files that have the NAME of a WAL of a dropped checkpoint
are gone (`Checkpoint.Destroy` deletes by name) — no table file, no WAL of a kept checkpoint unless a dropped
checkpoint references a file of the same name — the checkpoint list
(= the saved document) holds exactly the kept checkpoints, and the job's view is untouched. Any number of instances. -/
theorem wal_gc (s s' : State) (i : Nat) (ids : List Nat) (x : Inst) (hx : s.insts[i]? = some x)
    (h : step s (.retain i ids) = some s') :
    (∀ f, f ∈ s'.files ↔ f ∈ s.files ∧
      ¬ ∃ c ∈ x.ckpts, keeps ids c = false ∧ ∃ w ∈ c.wals, ∃ v, f = .wal v ∧ w.same v = true) ∧
    (∃ x', s'.insts[i]? = some x' ∧ ∀ c, c ∈ x'.ckpts ↔ c ∈ x.ckpts ∧ keeps ids c = true) := by
  obtain ⟨hf, hi, _⟩ := retain_effect hx h
  refine ⟨?_, _, hi, fun c => mem_keptOf⟩
  intro f
  rw [hf, mem_rmWals]
  constructor
  · rintro ⟨h1, h2⟩
    refine ⟨h1, ?_⟩
    rintro ⟨c, hc, hid, w, hw, v, rfl, hsm⟩
    have := h2 w (mem_walsOf.mpr ⟨c, mem_droppedOf.mpr ⟨hc, hid⟩, hw⟩) v rfl
    rw [hsm] at this; cases this
  · rintro ⟨h1, h2⟩
    refine ⟨h1, ?_⟩
    intro w hw v he
    obtain ⟨c, hc, hwc⟩ := mem_walsOf.mp hw
    have hd := mem_droppedOf.mp hc
    cases hsm : w.same v with
    | false => rfl
    | true => exact absurd ⟨c, hd.1, hd.2, w, hwc, v, he, hsm⟩ h2

/-! ## WAL numbering: a restored instance never writes over a WAL of the checkpoint it loaded -/

/-- `Checkpoint.NextWALID` (`c09NextWalIsMax`): the number of the first WAL a restored instance writes is larger than
the number of EVERY WAL handle of the loaded checkpoint, whatever the order of the handles. -/
theorem next_wal_above_all_handles (ws : List Wal) : ∀ w ∈ ws, w.num < nextWalId ws :=
  nextWalId_gt ws

/-- Restore from any number of checkpoint handles (scale-in included), into any directory — also the directory of
one of the writers: the new instance numbers its WALs above every WAL of the composite checkpoint, so sealing WALs at
later checkpoints can never have the file name of a WAL the loaded checkpoint references. -/
theorem restore_numbers_above_loaded (s s' : State) (r : KGRange) (g : Nat) (n : List KGRange) (ws : List Nat)
    (id dir : Nat) (h : step s (.openFrom r g n ws id dir) = some s') :
    ∃ x, s'.insts = s.insts ++ [x] ∧ x.dir = dir ∧
      ∀ c ∈ x.ckpts, ∀ w ∈ c.wals, ∀ k, x.walNext ≤ k → (⟨x.dir, k, 0⟩ : Wal).same w = false := by
  simp only [step] at h
  split at h
  · simp at h
  · simp at h
  · rename_i ts wl _
    injection h with h; subst h
    refine ⟨_, rfl, rfl, ?_⟩
    intro c hc w hw k hk
    have hc' : c = ⟨id, ts, wl, true⟩ := by simpa using hc
    subst hc'
    have := nextWalId_gt wl w hw
    exact not_same_of_num (by
      show k ≠ w.num
      have hk' : nextWalId wl ≤ k := hk
      omega)

/-- Sealing a WAL at a checkpoint removes no table file and no WAL file with another name. Any number of instances. -/
theorem sealed_wal_overwrites_only_its_name (s s' : State) (i id : Nat) (wal : Wal)
    (h : step s (.ckpt i id wal) = some s') :
    ∀ f ∈ s.files, (∀ v, f = .wal v → wal.same v = false) → f ∈ s'.files := by
  simp only [step] at h
  split at h
  · simp at h
  · split at h
    · injection h with h; subst h
      intro f hf hv
      exact List.mem_cons_of_mem _ (mem_clobber.mpr ⟨hf, hv⟩)
    · simp at h

/-! ## what a collection can delete -/

/-- A cleanup runs only for an unreachable object, can remove only that object's file, and removes it only if the
object was written by the instance itself or the ownership rule said delete. Any number of instances. -/
theorem collect_deletes_only_unreachable (s s' : State) (i : Nat) (u : Path) (answers : List Ans) (x : Inst)
    (hx : s.insts[i]? = some x) (h : step s (.collect i u answers) = some s') :
    x.unreachable u = true ∧ (∀ f ∈ s.files, f ≠ .sst u → f ∈ s'.files) ∧
    (.sst u ∈ s.files → .sst u ∉ s'.files → u ∈ x.created ∨
      ∃ t ∈ x.loaded, t.uri = u ∧ decision x.range t (x.nbrs.zip answers) = .delete) :=
  let ⟨a, b, _, d⟩ := collect_effect hx h
  ⟨a, b, d⟩

/-- For a running instance "unreachable" means: in no level list the instance holds — not the current one, not one
captured by a checkpoint in its list, not a snapshot of a reader or compaction. -/
theorem unreachable_alive (x : Inst) (u : Path) (hl : x.life = .alive) (h : x.unreachable u = true) :
    u ∉ uris x.current ∧ (∀ c ∈ x.ckpts, u ∉ uris c.tables) ∧ ∀ sn ∈ x.snaps, u ∉ uris sn := by
  have hr : x.refs u = false := by simpa [Inst.unreachable, hl] using h
  refine ⟨?_, ?_, ?_⟩
  · intro hu; rw [refs_iff.mpr (Or.inl hu)] at hr; cases hr
  · intro c hc hu; rw [refs_iff.mpr (Or.inr (Or.inl ⟨c, hc, hu⟩))] at hr; cases hr
  · intro sn hsn hu; rw [refs_iff.mpr (Or.inr (Or.inr ⟨sn, hsn, hu⟩))] at hr; cases hr

/-- A table loaded from a checkpoint document whose key-group span is not inside the operator's own range is deleted
only if every neighbour whose range overlaps the table answered a definite "no". -/
theorem shared_table_needs_all_no (own : KGRange) (t : Tbl) (nbrs : List (KGRange × Ans))
    (hnc : Gen.kgContains own t.span = false) (h : decision own t nbrs = .delete) :
    ∀ ra ∈ nbrs, Gen.kgOverlaps ra.1 t.span = true → ra.2 = .no := by
  rcases decision_delete_cases own t nbrs h with hc | hall
  · rw [hc] at hnc; cases hnc
  · exact hall

/-- error ⇒ keep: if a neighbour whose range overlaps a shared table could not be asked (error) or does not answer
(timeout), collecting the table object never deletes the file. (D9, repaired: `c09OwnsErrKeeps`.) -/
theorem error_means_keep (s s' : State) (i : Nat) (u : Path) (answers : List Ans) (x : Inst)
    (hx : s.insts[i]? = some x) (h : step s (.collect i u answers) = some s')
    (hload : u ∉ x.created)
    (hbad : ∀ t ∈ x.loaded, t.uri = u → Gen.kgContains x.range t.span = false ∧
      ∃ ra ∈ x.nbrs.zip answers, Gen.kgOverlaps ra.1 t.span = true ∧ (ra.2 = .err ∨ ra.2 = .hang))
    (hin : .sst u ∈ s.files) : .sst u ∈ s'.files := by
  obtain ⟨_, _, _, hd⟩ := collect_effect hx h
  by_cases hout : File.sst u ∈ s'.files
  · exact hout
  · rcases hd hin hout with hc | ⟨t, ht, hu, hdel⟩
    · exact absurd hc hload
    · obtain ⟨hnc, ra, hra, ho, hans⟩ := hbad t ht hu
      have hans' : ra.2 = .err ∨ ra.2 = .hang ∨ ra.2 = .needs := by
        rcases hans with e | e
        · exact Or.inl e
        · exact Or.inr (Or.inl e)
      exact absurd hdel (decision_ne_delete x.range t _ hnc ⟨ra, hra, ho, hans'⟩)

/-- An operator whose redeploy fails (or is still loading) keeps serving the instance it had: nothing it holds
changes, so its `NeedsTable` answers stay what they were (`HandleDeploy` assigns `o.db` only after `dkv.Open`
returned). The correspondence drives a real `operator.Operator` through a failing `HandleDeploy` and asks it through
`HandleNeedsTable` in that window. -/
theorem failed_redeploy_keeps_serving (s s' : State) (i : Nat) (h : step s (.redeployFailed i) = some s') :
    s' = s ∧ ∃ x, s.insts[i]? = some x ∧ x.life = .alive := by
  simp only [step] at h
  split at h
  · simp at h
  · rename_i x hx
    split at h
    · rename_i hl
      injection h with h
      exact ⟨h.symm, x, hx, hl⟩
    · simp at h

/-- the pure rule behind it -/
theorem error_means_keep_rule (own : KGRange) (t : Tbl) (nbrs : List (KGRange × Ans))
    (hnc : Gen.kgContains own t.span = false)
    (h : ∃ ra ∈ nbrs, Gen.kgOverlaps ra.1 t.span = true ∧ (ra.2 = .err ∨ ra.2 = .hang)) :
    decision own t nbrs ≠ .delete := by
  obtain ⟨ra, hra, ho, hans⟩ := h
  refine decision_ne_delete own t nbrs hnc ⟨ra, hra, ho, ?_⟩
  rcases hans with e | e
  · exact Or.inl e
  · exact Or.inr (Or.inl e)

/-- A neighbour's "no" (`DB.NeedsTable = false`) means the table is in none of its retained checkpoints — whether
loaded from a document or taken by the instance itself — and not in its live level list. (D24, repaired:
`c09NeedsChecksLive`, `c09CkptUsesLevels`.) -/
theorem neighbour_no_is_truthful (x : Inst) (u : Path) (h : needsTable x u = false) :
    u ∉ uris x.current ∧ ∀ c ∈ x.ckpts, u ∉ uris c.tables :=
  needsTable_false h

/-! ## `NeedsTable` is two reads -/

/-- with nothing in between the two reads give the atomic answer -/
theorem needsTable2_same (x : Inst) (u : Path) : needsTable2 x x u = needsTable x u := by
  simp [needsTable2, needsFirst, needsSecond, Facts.c09NeedsLiveFirst, readLive, readCkpts, needsTable, Bool.or_comm]

/-- A "no" is final (D46, repaired: `c09NeedsLiveFirst`). `DB.NeedsTable` reads the live level list in state `s1` and
the checkpoint list in a later state `s2`; any actions of any instance — checkpoints, compaction commits, retention
updates — may happen in between (`as`) and afterwards (`as'`). If the answer is "no" for a table that exists
(`u ∈ s1.used`), then the instance does not need the table at the second read nor at any later moment: it is in no
checkpoint of its list and not in its live level list. -/
theorem two_read_no_is_final (s1 s2 s3 : State) (as as' : List Act) (j : Nat) (u : Path) (x1 x2 x3 : Inst)
    (h12 : run s1 as = some s2) (h23 : run s2 as' = some s3)
    (hx1 : s1.insts[j]? = some x1) (hx2 : s2.insts[j]? = some x2) (hx3 : s3.insts[j]? = some x3)
    (hu : u ∈ s1.used) (hno : needsTable2 x1 x2 u = false) : needsTable x3 u = false := by
  simp only [needsTable2, needsFirst, needsSecond, Facts.c09NeedsLiveFirst, beq_self_eq_true, if_true,
    Bool.or_eq_false_iff] at hno
  obtain ⟨y2, hy2, hu2, hn2⟩ := run_notLive h12 ⟨x1, hx1, hu, readLive_false hno.1⟩
  rw [hx2] at hy2; injection hy2 with hy2; subst hy2
  obtain ⟨y3, hy3, _, hn3, hc3⟩ := run_notNeeded h23 ⟨x2, hx2, hu2, hn2, readCkpts_false hno.2⟩
  rw [hx3] at hy3; injection hy3 with hy3; subst hy3
  exact needsTable_of_notNeeded hn3 hc3

/-- The order matters: reading the checkpoint list first (the code before the repair) can answer "no" for a table
the newest checkpoint references — checkpoint 2 captures `t1`, a compaction drops it, both between the two reads. -/
def d46Before : List Act := [.openFresh ⟨0, 8⟩ 0 [] 0, .flush 0 ⟨"t0", 0, 7⟩, .ckpt 0 1 ⟨0, 0, 0⟩, .flush 0 ⟨"t1", 0, 7⟩]
def d46Between : List Act := [.ckpt 0 2 ⟨0, 1, 0⟩, .compact 0 ["t0", "t1"] [⟨"t2", 0, 7⟩]]

theorem d46_counterexample :
    ((run {} d46Before).bind fun s1 => (run s1 d46Between).bind fun s2 =>
      match s1.insts[0]?, s2.insts[0]? with
      | some x1, some x2 => some (readCkpts x1 "t1" || readLive x2 "t1", needsTable x2 "t1", needsTable2 x1 x2 "t1")
      | _, _ => none) = some (false, true, true) := by decide

/-! ## non-vacuity -/

/-- a history inside the scope of the global theorem with two checkpoints, a compaction, a retention update that
deletes a WAL, a snapshot and collections that delete three table files -/
def sampleTrace : List Act :=
  [.flush 0 ⟨"t0", 0, 3⟩, .flush 0 ⟨"t1", 2, 7⟩, .snap 0, .ckpt 0 1 ⟨0, 0, 0⟩, .compact 0 ["t0", "t1"] [⟨"t2", 0, 7⟩],
   .flush 0 ⟨"t3", 1, 1⟩, .compact 0 ["t3"] [], .collect 0 "t3" [], .ckpt 0 2 ⟨0, 1, 0⟩, .jobDrop 1, .retain 0 [2],
   .unsnap 0 0, .collect 0 "t0" [], .collect 0 "t1" [], .crash 0]

example : (runIn (init1 ⟨0, 8⟩ []) sampleTrace).map (fun s => (s.files, needed s)) =
    some ([.wal ⟨0, 1, 0⟩, .sst "t2"], [.sst "t2", .wal ⟨0, 1, 0⟩]) := by decide

/-- the retention step of that history really deletes the WAL of the dropped checkpoint and nothing else -/
example : (runIn (init1 ⟨0, 8⟩ []) (sampleTrace.take 10)).map (·.files) =
      some [.wal ⟨0, 1, 0⟩, .sst "t2", .wal ⟨0, 0, 0⟩, .sst "t1", .sst "t0"] ∧
    (runIn (init1 ⟨0, 8⟩ []) (sampleTrace.take 11)).map (·.files) =
      some [.wal ⟨0, 1, 0⟩, .sst "t2", .sst "t1", .sst "t0"] := by decide

/-- while the snapshot is held the collector may not touch the tables it pins -/
example : runIn (init1 ⟨0, 8⟩ []) (sampleTrace.take 11 ++ [.collect 0 "t0" []]) = none := by decide

/-- the decision rule has all three outcomes, and an error really flips delete to keep -/
example : decision ⟨0, 4⟩ ⟨"t", 2, 5⟩ [(⟨4, 8⟩, .no)] = .delete ∧
    decision ⟨0, 4⟩ ⟨"t", 2, 5⟩ [(⟨4, 8⟩, .err)] = .keep ∧
    decision ⟨0, 4⟩ ⟨"t", 2, 5⟩ [(⟨4, 6⟩, .hang), (⟨6, 8⟩, .no)] = .block ∧
    decision ⟨0, 4⟩ ⟨"t", 2, 5⟩ [(⟨4, 6⟩, .err), (⟨6, 8⟩, .needs)] = .keep ∧
    decision ⟨0, 4⟩ ⟨"t", 1, 3⟩ [(⟨4, 8⟩, .needs)] = .delete := by decide

/-! ## the unrestricted statement is false of the code as it is (open findings) -/

/-- D25: open; write; checkpoint 1; the instance is released inside the living process (operator redeploy); the next
collection deletes the table although checkpoint 1 is retained. -/
def d25Trace : List Act :=
  [.openFresh ⟨0, 8⟩ 0 [] 0, .flush 0 ⟨"t0", 0, 7⟩, .ckpt 0 1 ⟨0, 0, 0⟩, .release 0, .collect 0 "t0" []]

theorem d25_counterexample : (run {} d25Trace).map missing = some [File.sst "t0"] := by decide

/-- D34: X (all key groups) writes a table covering key groups 0..1, checkpoints and dies; Y (0..3) and Z (4..7)
restore from it — both list the table. Y compacts it away, takes checkpoint 2, the job drops checkpoint 1, Y drops it:
Y's collection deletes the table without asking Z (Y's range contains it), while Z is running with the table in its
level list and in its retained checkpoint 2 (so the file is missing twice over). -/
def d34Trace : List Act :=
  [.openFresh ⟨0, 8⟩ 0 [] 0, .flush 0 ⟨"x0", 0, 1⟩, .ckpt 0 1 ⟨0, 0, 0⟩, .crash 0,
   .openFrom ⟨0, 4⟩ 1 [⟨4, 8⟩] [0] 1 1, .openFrom ⟨4, 8⟩ 1 [⟨0, 4⟩] [0] 1 2,
   .flush 1 ⟨"y0", 0, 1⟩, .compact 1 ["x0", "y0"] [⟨"y1", 0, 1⟩], .ckpt 1 2 ⟨1, 1, 0⟩, .ckpt 2 2 ⟨2, 1, 0⟩, .jobDrop 1,
   .retain 1 [2], .collect 1 "x0" [.needs]]

theorem d34_counterexample : (run {} d34Trace).map missing = some [File.sst "x0", File.sst "x0"] := by decide

end Rxn.C09
