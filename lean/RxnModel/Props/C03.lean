import RxnModel.Proofs.KeyedState
import RxnModel.Proofs.KeyedStateLsm
import RxnModel.Proofs.KeyedStateNorm
import RxnModel.Props.C07
/-!
# C03 — keyed state behaves as a per-key map the handler fully controls

Property theorems only. Model: `Model/KeyedState.lean` (the store and the operator's batch rule over the sorted-map
specification of the DKV; that the real LSM refines that specification under every timing of rotation, flush and
compaction is C07) and the key encoders of `Model/KeySpace.lean` (schema bytes regenerated from the source).

Explicit preconditions (what the encoders can represent): subject keys shorter than 2^32 bytes (`uint32(len)`,
`Act.KeysOK` / `Batch.KeysOK`) and, LOCAL to the key whose state is concluded, namespaces of at most 255 bytes in the
mutations returned for that key (`NsOKFor k`, from `uint8(len(namespace))`): what other keys' mutations use is
irrelevant. `getState_spec_general` needs no namespace precondition at all (it speaks about the normalised mutations);
`namespace_256_aliases` records what happens at 256 bytes (a guard, not a claimed violation). The property quantifies
over subject keys, entry keys and values, not over namespaces.
-/
namespace Rxn.C03
open Rxn Rxn.KeyedState

/-- the scan prefix of one subject key matches exactly the composite keys of that subject key, whatever the key groups
are: the 4-byte length in front of the subject key makes the per-key prefixes prefix-free -/
theorem subject_prefix_free (kgc : Nat) (k₁ k₂ ns d : Bytes)
    (h1 : k₁.length < 2 ^ 32) (h2 : k₂.length < 2 ^ 32) :
    Bytes.hasPrefix (Keys.dbKey kgc k₂ ns d) (Keys.subjectKey kgc k₁) = true ↔ k₁ = k₂ := by
  rw [dbKey_eq]
  exact subject_prefix_free' kgc k₁ k₂ _ h1 h2

/-- distinct (subject key, namespace, entry key) triples never share a composite key -/
theorem dbkey_injective (kgc : Nat) (k k' ns ns' d d' : Bytes)
    (hk : k.length < 2 ^ 32) (hk' : k'.length < 2 ^ 32) (hn : ns.length ≤ 255) (hn' : ns'.length ≤ 255)
    (h : Keys.dbKey kgc k ns d = Keys.dbKey kgc k' ns' d') : k = k' ∧ ns = ns' ∧ d = d' :=
  dbKey_inj hk hk' hn hn' h

/-- a timer key is never inside the state prefix of any subject key (the schema bytes regenerated from the source differ) -/
theorem state_timer_disjoint (kgc : Nat) (k k' : Bytes) (t : Nat) :
    Bytes.hasPrefix (Keys.timerKey kgc k t) (Keys.subjectKey kgc k') = false :=
  timer_not_state kgc k k' t

/-- `decodeKey` recovers namespace and entry key from every composite key the encoder produces -/
theorem decode_encode (kgc : Nat) (k ns d : Bytes) (hk : k.length < 2 ^ 32) (hn : ns.length ≤ 255) :
    decodeKey (Keys.dbKey kgc k ns d) = (ns, d) :=
  decode_dbKey kgc k ns d hk hn

/-- **GetState is the per-key map.** After any sequence of `ApplyMutations` calls and timer writes (any subject keys,
entry keys and values), `GetState k` is exactly the map obtained by replaying, in order, the mutations returned for `k`:
same entries (`content`: nothing of another key, another namespace or a timer appears; an overwritten or deleted entry
does not reappear), every namespace once, no empty namespace, entries in entry-key order. -/
theorem getState_spec (kgc : Nat) (acts : List Act) (hkeys : ∀ a ∈ acts, a.KeysOK) (k : Bytes) (hk : k.length < 2 ^ 32)
    (hns : NsOKFor k (acts.flatMap Act.lwrites)) :
    Matches (getState kgc (run kgc [] acts) k) (specLookup (acts.flatMap Act.lwrites) k) :=
  getState_matches_local kgc acts hkeys k hk hns

/-- **Without any namespace precondition**: a mutation whose namespace is longer than 255 bytes addresses the entry of
its normalised form (`normW`: the first `len % 256` bytes as namespace, the rest in front of the entry key), and
`GetState k` is exactly the per-key map of the normalised mutations. (`normW` is the identity up to 255 bytes.) -/
theorem getState_spec_general (kgc : Nat) (acts : List Act) (hkeys : ∀ a ∈ acts, a.KeysOK) (k : Bytes)
    (hk : k.length < 2 ^ 32) :
    Matches (getState kgc (run kgc [] acts) k) (specLookup ((acts.flatMap Act.lwrites).map normW) k) ∧
    (∀ w : LWrite, w.2.1.length ≤ 255 → normW w = w) :=
  ⟨getState_matches_norm kgc acts hkeys k hk, normW_id⟩

/-- the per-key map is controlled by the mutations naming that key only: mutations for other keys and timer writes do
not change what `GetState k` returns (the specification side of `getState_spec` made explicit) -/
theorem spec_ignores_others (acts : List Act) (k : Bytes) :
    specLookup (acts.flatMap Act.lwrites) k = specLookup ((acts.flatMap Act.lwrites).filter (fun w => w.1 = k)) k := by
  funext ns ek
  simp only [specLookup]
  generalize (none : Option Bytes) = init
  induction acts.flatMap Act.lwrites generalizing init with
  | nil => rfl
  | cons w ws ih =>
    by_cases hw : w.1 = k
    · simp only [List.filter_cons, hw, decide_true, if_true, List.foldl_cons, true_and]; exact ih _
    · simp only [List.filter_cons, hw, decide_false, List.foldl_cons, false_and, if_false]
      exact ih _

/-- **Batch rule.** For every sequence of handler invocations (batches of events with repeated keys, arbitrary responses,
timers set and fired in between; an event is a keyed event or a timer-expired event, both carry a key): invocation `i` receives one key state per distinct event key, and the state for key `k`
is the map obtained by replaying all mutations returned by invocations `< i` for `k`, in invocation and result order —
the mutations of invocation `i` itself are applied only after the handler returned. -/
theorem batch_semantics (kgc : Nat) (bs : List Batch) (hkeys : ∀ b ∈ bs, b.KeysOK) (i : Nat) (b : Batch)
    (hb : bs[i]? = some b) :
    ∃ obs, (runBatches kgc [] bs)[i]? = some obs ∧
      obs.map (·.1) = distinctKeys b.events ∧ (distinctKeys b.events).Nodup ∧
      (∀ k, k ∈ distinctKeys b.events ↔ k ∈ b.events) ∧
      ∀ k st, (k, st) ∈ obs → NsOKFor k (mutsBefore bs i) → Matches st (specLookup (mutsBefore bs i) k) := by
  have h := runBatches_get kgc bs [] i b hb
  simp only [run, List.foldl_nil, List.nil_append] at h
  refine ⟨_, h, ?_, distinctKeys_nodup _, distinctKeys_mem _, ?_⟩
  · simp [List.map_map, Function.comp_def]
  · intro k st hmem hns
    simp only [List.mem_map, Prod.mk.injEq] at hmem
    obtain ⟨k', hk', e1, e2⟩ := hmem
    subst e1
    have hbm : b ∈ bs := List.mem_of_getElem? hb
    have hkl := (hkeys b hbm).1 k' ((distinctKeys_mem _ _).mp hk')
    have := getState_matches_local kgc (histBefore bs i) (histBefore_keysOK bs hkeys i) k' hkl
      (by rw [histBefore_lwrites]; exact hns)
    rw [histBefore_lwrites] at this
    rw [← e2]
    exact this

/-- **Batch rule across checkpoints and restores** ("since job start or since the restored checkpoint"). For every
history of handler invocations (events are keyed events and timer-expired events alike: `fired` are the timers the
watermark popped before the invocation), DKV checkpoints with ids, and redeploys from ANY retained checkpoint id (the
latest one, or an older one — recovery restores the newest checkpoint the job published, which can be older than the
operator's own latest): invocation `i` receives one key state per distinct event key, and the state for `k` is the
replay of the mutations returned by the *effective* earlier invocations — those before the restored checkpoint and
those since the restore; what was returned after the restored checkpoint is gone, nothing else is lost or added. -/
theorem restore_semantics (kgc : Nat) (steps : List OpStep) (hkeys : ∀ b, OpStep.batch b ∈ steps → b.KeysOK)
    (i : Nat) (b : Batch) (hb : steps[i]? = some (.batch b)) :
    ∃ obs, (runOps kgc {} steps)[i]? = some (some obs) ∧
      obs.map (·.1) = distinctKeys b.events ∧
      ∀ k st, (k, st) ∈ obs →
        NsOKFor k ((effective (steps.take i)).1.flatMap (fun b => b.resp.flatMap KeyResult.lwrites)) →
        Matches st (specLookup ((effective (steps.take i)).1.flatMap (fun b => b.resp.flatMap KeyResult.lwrites)) k) := by
  have h := runOps_get kgc steps {} ([], []) (opInv_init kgc) i b hb
  refine ⟨_, h, by simp [List.map_map, Function.comp_def], ?_⟩
  intro k st hmem hns
  simp only [List.mem_map, Prod.mk.injEq] at hmem
  obtain ⟨k', hk', e1, e2⟩ := hmem
  subst e1
  have hbm : OpStep.batch b ∈ steps := List.mem_of_getElem? hb
  have hkl := (hkeys b hbm).1 k' ((distinctKeys_mem _ _).mp hk')
  have heff : ∀ b' ∈ ((steps.take i).foldl effStep ([], [])).1, b'.KeysOK :=
    eff_all Batch.KeysOK (steps.take i) ([], []) (by simp) (by simp)
      (fun b' hb' => hkeys b' (List.mem_of_mem_take hb'))
  have hl : (((steps.take i).foldl effStep ([], [])).1.flatMap Batch.acts ++ b.firedActs).flatMap Act.lwrites =
      ((steps.take i).foldl effStep ([], [])).1.flatMap (fun b => b.resp.flatMap KeyResult.lwrites) := by
    rw [List.flatMap_append, firedActs_lwrites, List.append_nil, batches_lwrites]
  have := getState_matches_local kgc _ (batches_acts_keysOK _ heff b (hkeys b hbm)) k' hkl
    (by rw [hl]; exact hns)
  rw [hl] at this
  rw [← e2]
  exact this

/-! ## "regardless of how the state has been batched, flushed or compacted underneath"

The theorems above read and write the sorted-map specification `KV`. The following ones place the same store on the LSM
transition system of C07 (`Model/Lsm.lean`: memtable queue, level 0..n, rotation, flush begin/commit, compaction commit
with any change set passing `safeCS`, two-phase reads) and use C07's proved scan refinement, so that the timing of
rotation, flush and compaction is universally quantified inside the C03 statement itself. -/

/-- **The LSM's ScanPrefix is the sorted map's scan.** For every LSM history `as` (writes, rotations, flush
begins/commits, compaction commits, point reads, in any order) whose foreground writes are, in order, the writes the
store issued for `acts`, and every prefix: the scan of the reached LSM state is the scan of `run kgc [] acts`. -/
theorem lsm_scan_refines_kv (kgc : Nat) (acts : List Act) (as : List Lsm.Act) (s : Lsm.State) (m : Lsm.Spec)
    (hrun : Lsm.runBoth {} [] as = some (s, m)) (hw : writesOf as = acts.flatMap (Act.rawWrites kgc)) (p : Bytes) :
    kvOfRun (Lsm.scan s p) = (run kgc [] acts).scan p := by
  have hm : ∀ k, Lsm.answer (Lsm.Spec.get m k) = lastW (acts.flatMap (Act.rawWrites kgc)) k none := by
    intro k; rw [← hw]; exact answer_spec k as {} [] s m hrun
  obtain ⟨hs, hr⟩ := C07.scan_returns_live_keys as s m hrun p
  exact run_eq_kv_scan kgc acts m p _ hm hs hr

/-- **GetState over the LSM.** After any sequence of `ApplyMutations` calls and timer writes, executed on the LSM with
memtable rotations, flushes and compactions committing at arbitrary points (also between the single writes of one
call), `GetState k` is exactly the per-key map of the mutations returned for `k`. -/
theorem getState_over_lsm (kgc : Nat) (acts : List Act) (hkeys : ∀ a ∈ acts, a.KeysOK)
    (as : List Lsm.Act) (s : Lsm.State) (m : Lsm.Spec)
    (hrun : Lsm.runBoth {} [] as = some (s, m)) (hw : writesOf as = acts.flatMap (Act.rawWrites kgc))
    (k : Bytes) (hk : k.length < 2 ^ 32) (hns : NsOKFor k (acts.flatMap Act.lwrites)) :
    getStateLsm kgc s k = getState kgc (run kgc [] acts) k ∧
    Matches (getStateLsm kgc s k) (specLookup (acts.flatMap Act.lwrites) k) := by
  have e : getStateLsm kgc s k = getState kgc (run kgc [] acts) k := by
    simp only [getStateLsm, getState, decoded, lsm_scan_refines_kv kgc acts as s m hrun hw]
  exact ⟨e, by rw [e]; exact getState_matches_local kgc acts hkeys k hk hns⟩

/-- the same when the scan runs in two phases (`db.mtables.ScanPrefix` in state `sA`, `db.currentSSTables()` later in
state `sB`) with arbitrary background commits `as₂` in between: no flush or compaction landing inside a `GetState`
changes what it returns -/
theorem getState_over_lsm_two_phase (kgc : Nat) (acts : List Act) (hkeys : ∀ a ∈ acts, a.KeysOK)
    (as₁ as₂ : List Lsm.Act) (sA sB : Lsm.State) (m m' : Lsm.Spec)
    (h1 : Lsm.runBoth {} [] as₁ = some (sA, m)) (hw : writesOf as₁ = acts.flatMap (Act.rawWrites kgc))
    (hnw : Lsm.noWrite as₂ = true) (h2 : Lsm.runBoth sA m as₂ = some (sB, m'))
    (k : Bytes) (hk : k.length < 2 ^ 32) (hns : NsOKFor k (acts.flatMap Act.lwrites)) :
    Matches (group (decodedOf (kvOfRun (Lsm.scan2 sA sB (Keys.subjectKey kgc k)))))
      (specLookup (acts.flatMap Act.lwrites) k) := by
  have hm : ∀ k, Lsm.answer (Lsm.Spec.get m k) = lastW (acts.flatMap (Act.rawWrites kgc)) k none := by
    intro k; rw [← hw]; exact answer_spec k as₁ {} [] sA m h1
  obtain ⟨_, hs, hr⟩ := C07.two_phase_scan as₁ as₂ sA sB m m' h1 hnw h2 (Keys.subjectKey kgc k)
  rw [run_eq_kv_scan kgc acts m _ _ hm hs hr]
  exact getState_matches_local kgc acts hkeys k hk hns

/-- **Batch rule over the LSM.** Whatever rotations, flushes and compactions happened underneath before invocation `i`
fetches its states (LSM history `as` whose foreground writes are those of the earlier invocations' results and of the
timers fired so far): the state fetched for every event key is the replay of the mutations returned by invocations `< i`. -/
theorem batch_semantics_over_lsm (kgc : Nat) (bs : List Batch) (hkeys : ∀ b ∈ bs, b.KeysOK) (i : Nat) (b : Batch)
    (hb : bs[i]? = some b) (as : List Lsm.Act) (s : Lsm.State) (m : Lsm.Spec)
    (hrun : Lsm.runBoth {} [] as = some (s, m))
    (hw : writesOf as = (histBefore bs i).flatMap (Act.rawWrites kgc)) (k : Bytes) (hk : k ∈ b.events)
    (hns : NsOKFor k (mutsBefore bs i)) :
    Matches (getStateLsm kgc s k) (specLookup (mutsBefore bs i) k) := by
  have hbm : b ∈ bs := List.mem_of_getElem? hb
  have := (getState_over_lsm kgc (histBefore bs i) (histBefore_keysOK bs hkeys i) as s m hrun hw k
    ((hkeys b hbm).1 k hk) (by rw [histBefore_lwrites]; exact hns)).2
  rwa [histBefore_lwrites] at this

/-- the length fields of the model's encoders are the ones the source writes (facts regenerated from
`keyed_state_store.go` on every run): width and byte order of the subject-key length, and the width of the length
byte in front of the namespace -/
theorem layout_agrees (k ns : Bytes) :
    (Bytes.u32be k.length).length * 8 = Facts.ksLenBits ∧ Facts.ksLenBigEndian = 1 ∧
    ((nsEnc ns).length - ns.length) * 8 = Facts.ksNsLenBits := by
  refine ⟨?_, rfl, ?_⟩
  · simp [Bytes.u32be, Facts.ksLenBits]
  · simp [nsEnc, Facts.ksNsLenBits]

/-- guard: a namespace of 256 bytes is stored under the composite keys of the empty namespace (`uint8(256) = 0`),
so the 255-byte precondition cannot be dropped -/
theorem namespace_256_aliases (kgc : Nat) (k ns d : Bytes) (h : ns.length = 256) :
    Keys.dbKey kgc k ns d = Keys.dbKey kgc k [] (ns ++ d) :=
  ns256_alias kgc k ns d h

/-! ## non-vacuity -/

/-- two subject keys that are prefixes of one another, in the same key group, with entries that are prefixes of one
another, a delete-then-put, an overwrite, a delete, and a timer of the same key in the same database -/
def demoActs : List Act :=
  [ .apply [0x61] [([0x61], [.put [] [1], .put [0x00] [2], .put [0x00, 0x00] []]), ([], [.put [0xff] [3]])],
    .timerPut [0x61] 5,
    .apply [0x61, 0x01, 0x61] [([], [.put [] [9]])],
    .apply [0x61] [([0x61], [.del [0x00], .put [0x00] [4], .del []]), ([0x61, 0x62], [.put [0x01] []])],
    .timerDel [0x61] 5 ]

example : getState 1 (run 1 [] demoActs) [0x61] =
    [([], [([0xff], [3])]), ([0x61], [([0x00], [4]), ([0x00, 0x00], [])]), ([0x61, 0x62], [([0x01], [])])] := by decide

example : getState 1 (run 1 [] demoActs) [0x61, 0x01, 0x61] = [([], [([], [9])])] := by decide

example : ∀ a ∈ demoActs, a.WF := by
  intro a ha w hw
  simp only [demoActs, List.mem_cons, List.not_mem_nil, or_false] at ha
  rcases ha with rfl | rfl | rfl | rfl | rfl <;>
    simp [Act.lwrites, nsWrites] at hw <;> (try rcases hw with rfl | rfl | rfl | rfl) <;> simp [LWrite.WF]

/-- the batch rule on a concrete run: the second invocation sees what the first returned, once per distinct key -/
def demoBatches : List Batch :=
  [ { fired := [], events := [[0x6b], [0x6c], [0x6b]],
      resp := [{ key := [0x6b], timers := [7], muts := [([0x61], [.put [1] [2]])] }] },
    { fired := [([0x6b], 7)], events := [[0x6b], [0x6b]], resp := [{ key := [0x6b], timers := [], muts := [([0x61], [.del [1]])] }] },
    { fired := [], events := [[0x6b]], resp := [] } ]

set_option synthInstance.maxSize 1024 in
example : (runBatches 2 [] demoBatches)[0]? = some [([0x6b], []), ([0x6c], [])] := by decide
set_option synthInstance.maxSize 1024 in
example : (runBatches 2 [] demoBatches)[1]? = some [([0x6b], [([0x61], [([1], [2])])])] := by decide
set_option synthInstance.maxSize 1024 in
example : (runBatches 2 [] demoBatches)[2]? = some [([0x6b], [])] := by decide

/-- two checkpoints, more mutations, restore of the OLDER checkpoint: the put of the first invocation stays, the
mutations of the second and third invocation are forgotten; the last step's events are timer-expired events of the timer
the first invocation set -/
def demoSteps : List OpStep :=
  [ .batch { fired := [], events := [[0x6b]], resp := [{ key := [0x6b], timers := [7], muts := [([0x61], [.put [1] [2]])] }] },
    .ckpt 1,
    .batch { fired := [], events := [[0x6b]], resp := [{ key := [0x6b], timers := [], muts := [([0x61], [.del [1], .put [3] [4]])] }] },
    .ckpt 2,
    .batch { fired := [], events := [[0x6b]], resp := [{ key := [0x6b], timers := [], muts := [([0x61], [.put [5] [6]])] }] },
    .restore 1,
    .batch { fired := [([0x6b], 7)], events := [[0x6b]], resp := [] } ]

set_option synthInstance.maxSize 1024 in
example : runOps 2 {} demoSteps =
    [some [([0x6b], [])], none, some [([0x6b], [([0x61], [([1], [2])])])], none,
     some [([0x6b], [([0x61], [([3], [4])])])], none, some [([0x6b], [([0x61], [([1], [2])])])]] := by
  decide

example : (effective (demoSteps.take 6)).1.length = 1 ∧ (effective (demoSteps.take 6)).2.length = 1 := by decide

/-- the store on the LSM: a put is flushed to a table, its delete sits in a sealed memtable, a later put in the active
one; the history is accepted by the LSM model, its foreground writes are the store's writes, and `GetState` over the
layered state is the per-key map -/
def demoLsmActs : List Act := [.apply [0x61] [([0x61], [.put [1] [2], .del [1], .put [3] [4]])]]

def demoLsm : List Lsm.Act :=
  [.put (Keys.dbKey 1 [0x61] [0x61] [1]) [2], .rotate, .flushBegin 1, .flushCommit,
   .del (Keys.dbKey 1 [0x61] [0x61] [1]), .rotate, .put (Keys.dbKey 1 [0x61] [0x61] [3]) [4]]

example : writesOf demoLsm = demoLsmActs.flatMap (Act.rawWrites 1) := by decide

example : ((Lsm.run {} demoLsm).map (fun s => (s.mems.length, s.levels.map List.length))) =
    some (2, [1, 0, 0, 0, 0, 0]) ∧ (Lsm.runBoth {} [] demoLsm).isSome = true := by decide

example (s : Lsm.State) (m : Lsm.Spec) (h : Lsm.runBoth {} [] demoLsm = some (s, m)) :
    getStateLsm 1 s [0x61] = [([0x61], [([3], [4])])] := by
  have hwf : ∀ w ∈ demoLsmActs.flatMap Act.lwrites, LWrite.WF w := by
    intro w hw
    simp [demoLsmActs, Act.lwrites, nsWrites] at hw
    rcases hw with rfl | rfl | rfl <;> simp [LWrite.WF]
  have hkeys : ∀ a ∈ demoLsmActs, a.KeysOK := fun a ha w hw => (hwf w (List.mem_flatMap.mpr ⟨a, ha, hw⟩)).1
  rw [(getState_over_lsm 1 demoLsmActs hkeys demoLsm s m h (by decide) [0x61] (by decide)
    (fun w hw _ => (hwf w hw).2)).1]
  decide

/-- the precondition is local: a 300-byte namespace used for ANOTHER key leaves the hypotheses for key `k` intact -/
example (k other : Bytes) (hne : other ≠ k) (ws : List LWrite) (h : NsOKFor k ws) (ek : Bytes) :
    NsOKFor k (ws ++ [(other, List.replicate 300 0x6f, ek, some [1])]) := by
  intro w hw hk
  rcases List.mem_append.mp hw with hw | hw
  · exact h w hw hk
  · simp only [List.mem_singleton] at hw
    subst hw
    exact absurd hk hne

/-- the aliasing guard on concrete data -/
example : Keys.dbKey 1 [] (List.replicate 256 0x6e) [7] = Keys.dbKey 1 [] [] (List.replicate 256 0x6e ++ [7]) :=
  namespace_256_aliases 1 [] _ [7] (List.length_replicate ..)

end Rxn.C03
