import RxnModel.Proofs.Splits
import RxnModel.Generated.Facts
/-!
# C16 — source positions match the barrier cut; every split has exactly one reader

Property theorems only. Model: `Model/Splits.lean`; helper lemmas: `Proofs/Splits.lean`.
-/
namespace Rxn.C16
open Rxn Rxn.Splits

/-- `sliceu.Partition` returns `n` groups whose concatenation is a permutation of the input: every element is in
exactly one group (embedded splitter: every split goes to exactly one runner). -/
theorem partition_exact {α : Type} (xs : List α) (n : Nat) (hn : 0 < n) :
    (partition xs n).length = n ∧ (partition xs n).flatten.Perm xs := by
  obtain ⟨h1, h2⟩ := partLoop_spec n hn xs (List.replicate n []) 0 (by simp) hn
  refine ⟨h1, ?_⟩
  simpa [partition, flatten_replicate_nil] using h2

/-- distinct splits: no split is in two groups (or twice in one) -/
theorem partition_disjoint {α : Type} (xs : List α) (n : Nat) (hn : 0 < n) (hx : xs.Nodup) :
    (partition xs n).flatten.Nodup :=
  (partition_exact xs n hn).2.nodup_iff.mpr hx

/-- **Embedded splitter, end to end**: with `n ≥ 1` runners and `k` splits, runner `r` gets group `r` of `n` groups;
every split `i < k` is in the list of exactly one runner, once, and no runner gets anything else. -/
theorem embedded_every_split_one_runner (k n : Nat) (hn : 0 < n) :
    (embeddedAssign k n).length = n ∧
    (∀ i, i < k → ∃ r g, r < n ∧ (embeddedAssign k n)[r]? = some g ∧ i ∈ g ∧ g.Nodup ∧
      ∀ (r' : Nat) (g' : List Nat), (embeddedAssign k n)[r']? = some g' → i ∈ g' → r' = r) ∧
    (∀ (r : Nat) (g : List Nat), (embeddedAssign k n)[r]? = some g → ∀ j ∈ g, j < k) := by
  obtain ⟨hlen, hperm⟩ := partition_exact (List.range k) n hn
  have hnd : (embeddedAssign k n).flatten.Nodup := partition_disjoint (List.range k) n hn List.nodup_range
  refine ⟨hlen, ?_, ?_⟩
  · intro i hi
    have hm : i ∈ (embeddedAssign k n).flatten := hperm.mem_iff.mpr (List.mem_range.mpr hi)
    obtain ⟨g, hg, hig⟩ := List.mem_flatten.mp hm
    obtain ⟨r, hr⟩ := List.mem_iff_getElem?.mp hg
    refine ⟨r, g, ?_, hr, hig, (List.sublist_flatten_of_mem hg).nodup hnd, ?_⟩
    · have := lt_length_of_getElem? _ _ _ hr
      rw [← hlen]; exact this
    · intro r' g' hr' hig'
      exact flatten_nodup_unique _ hnd i r' r g' g hr' hr hig' hig
  · intro r g hr j hj
    have : j ∈ (embeddedAssign k n).flatten :=
      List.mem_flatten.mpr ⟨g, List.mem_iff_getElem?.mpr ⟨r, hr⟩, hj⟩
    exact List.mem_range.mp (hperm.mem_iff.mp this)

/-- **httpapi splitter**: the single split resumes from the last non-empty split state of the checkpoint (and from
the start when there is none); with the one runner's one state `p` this is `p` (`job_resumes_restored_cut`). -/
theorem httpCursor_spec {α : Type} (pre post : List (List α)) (d : List α) (hd : d ≠ [])
    (hpost : ∀ e ∈ post, e = []) :
    httpCursor (pre ++ [d] ++ post) = d ∧ httpCursor post = [] := by
  refine ⟨?_, ?_⟩
  · rw [httpCursor_append_empties _ _ hpost]; exact httpCursor_append_nonempty pre d hd
  · have := httpCursor_append_empties ([] : List (List α)) post hpost
    simpa [httpCursor] using this

example : httpCursor [[1], [], [2, 3], []] = [2, 3] := by decide

example : partition [10, 11, 12, 13, 14] 2 = [[10, 12, 14], [11, 13]] := by decide
example : embeddedAssign 5 3 = [[0, 3], [1, 4], [2]] := by decide

/-- **The cut** (partial: one deployment of a runner). Full statement: also across `HandleDeploy` on a live runner.
Excluded: a redeployment of a live runner — the old loop and the old consumer of `outputStream` keep running next to
the new ones (D39, open, recorded under C01), so reads and barriers are no longer one sequential history.
For every history of split assignments, reads, dropped splits and checkpoint barriers of the runner loop in one
deployment of a runner, in which no split is
assigned to the reader twice (guaranteed by the splitters: `one_reader`, `partition_disjoint`, and a fresh reader per
deployment): every checkpoint report `rep` sits at the position of its barrier on the output stream and, for every
split `r` it reports: the reported position `r.cur` is the assigned position plus the number of the split's records
ahead of the barrier, every record ahead of the barrier lies before the position and every record behind it at or
after the position. -/
theorem cursor_matches_cut_partial (as : List RAct) (hd : (assignedIds as).Nodup) :
    let st := rrun {} as
    ∀ rep ∈ st.reports,
      st.out[rep.pos]? = some (Ev.barrier rep.id) ∧
      ∀ r ∈ rep.snap,
        r.init + (recIdx r.split (st.out.take rep.pos)).length = r.cur ∧
        (∀ i ∈ recIdx r.split (st.out.take rep.pos), i < r.cur) ∧
        (∀ i ∈ recIdx r.split (st.out.drop rep.pos), r.cur ≤ i) := by
  intro st rep hrep
  exact ((RInv.run as {} RInv.init (by simpa using hd)).reps rep hrep).2.1

example :
    let st := rrun {} [.assign [(0, 0), (1, 5)], .read [0, 1, 0], .barrier 1, .read [1, 1], .barrier 2]
    st.out = [.record 0 0, .record 1 5, .record 0 1, .barrier 1, .record 1 6, .record 1 7, .barrier 2] ∧
    st.reports.map (fun r => (r.id, r.pos, r.snap.map fun x => (x.split, x.cur))) =
      [(1, 3, [(0, 2), (1, 6)]), (2, 6, [(0, 2), (1, 8)])] := by decide

/-- **The cut with the Kinesis reader, also across failed reads, expired iterators and shard ends** (partial: one
deployment, as `cursor_matches_cut_partial`; D39). For every history of records arriving in the
shards, shard assignments, `ReadEvents` calls of the round-robin Kinesis reader under `ReadSourceChannel` and the
runner loop — any of which may fail with a retryable `GetRecords` error — and checkpoint barriers: the positions
reported at a barrier cover exactly the records emitted before it. -/
theorem cursor_matches_cut_kinesis_partial (as : List KAct) (hd : (kAssignedIds as).Nodup) :
    let st := (krun {} as).r
    ∀ rep ∈ st.reports,
      st.out[rep.pos]? = some (Ev.barrier rep.id) ∧
      ∀ r ∈ rep.snap,
        r.init + (recIdx r.split (st.out.take rep.pos)).length = r.cur ∧
        (∀ i ∈ recIdx r.split (st.out.take rep.pos), i < r.cur) ∧
        (∀ i ∈ recIdx r.split (st.out.drop rep.pos), r.cur ≤ i) := by
  intro st rep hrep
  obtain ⟨ras, h, e⟩ := krun_is_rrun as {}
  have := cursor_matches_cut_partial ras (e ▸ hd)
  simp only at this
  have hst : st = rrun {} ras := h
  rw [hst] at hrep ⊢
  exact this rep hrep

/-- the hypothesis of `cursor_matches_cut_partial` is necessary for readers that append: a split assigned twice is read
twice from the same position (what `one_reader` rules out) -/
example :
    (rrun {} [.assign [(0, 0)], .assign [(0, 0)], .read [0]]).splits.map (fun x => (x.split, x.cur)) = [(0, 1), (0, 1)] := by
  decide

/-- a read whose `GetRecords` fails moves no position and emits nothing (what the cut relies on) -/
theorem failed_read_moves_nothing (k : KRd) (sp : RSplit) (hs : (activeOf k.r)[k.idx]? = some sp) (hf : k.failIn = 1) :
    (kstep k .read).1.r = k.r ∧ (kstep k .read).1.idx = k.idx ∧ (kstep k .read).2 = some none := by
  simp [kstep, hs, hf]

example :
    let k := krun { limit := 2 } [.put 0 5, .put 1 3, .assign [(0, 0), (1, 0)], .read, .fail 1, .read, .read, .barrier 1, .read]
    k.r.out = [.record 0 0, .record 0 1, .record 1 0, .record 1 1, .barrier 1, .record 0 2, .record 0 3] ∧
    k.r.reports.map (fun r => r.snap.map fun x => (x.split, x.cur)) = [[(0, 2), (1, 2)]] := by decide

/-- the reader contract is necessary: a read that moves positions and whose records are then dropped (a failing read
that had already polled other shards, its events discarded by the channel) breaks the cut -/
theorem dropped_read_breaks_cut :
    let st := rstep (readDrop (rstep {} (.assign [(0, 0)])) [0, 0]) (.barrier 1)
    st.reports.map (fun r => r.snap.map fun x => (x.split, x.init, x.cur)) = [[(0, 0, 2)]] ∧
    recIdx 0 (st.out.take 0) = [] := by decide

/-- **A split that reached its end.** When the reader drops a split (Kinesis: the shard ended, the job is notified and
the shard leaves `assignedShards`) later checkpoint reports omit it (`rstep … (.barrier _)` reports the splits still
held) and, for every history, no record of it is emitted after that moment: all its records are ahead of every later
barrier, so there is nothing of it left to resume (before that moment it is reported like any other split,
`cursor_matches_cut_partial`). -/
theorem dropped_split_emits_nothing_more (as : List RAct) :
    let st := rrun {} as
    ∀ sp ∈ st.finished, sp.2 ≤ st.out.length ∧ recIdx sp.1 (st.out.drop sp.2) = [] :=
  (FInv.run as {} ⟨by simp⟩).fin

example :
    let k := krun { limit := 2 } [.put 0 3, .put 1 1, .assign [(0, 0), (1, 0)], .close 0, .read, .read, .read, .barrier 1, .read]
    k.r.out = [.record 0 0, .record 0 1, .record 1 0, .record 0 2, .barrier 1] ∧
    k.r.finished = [(0, 4)] ∧ k.r.reports.map (fun r => r.snap.map fun x => (x.split, x.cur)) = [[(1, 1)]] := by decide

/-- **A read is emitted atomically.** One `ReadEvents` of the loop — however many records it returns — appends exactly
its records to the output stream and takes no checkpoint report: no barrier can fall between the first and the last
record of a read, whose positions the reader has already passed (so a checkpoint requested while a read is being
emitted is cut after the whole read; `cursor_matches_cut_partial` then gives its reported positions). -/
theorem read_is_atomic (st : RSt) (batch : List Nat) :
    ∃ recs, (rstep st (.read batch)).out = st.out ++ recs ∧ (∀ e ∈ recs, ∀ n, e ≠ Ev.barrier n) ∧
      (rstep st (.read batch)).reports = st.reports :=
  read_atomic batch st

/-- `uniformlyAssignShard` always names an existing runner -/
theorem uidx_lt (lo hi n : Nat) (hn : 0 < n) : uidx lo hi n < n := by
  unfold uidx; omega

/-! ## The Kinesis splitter: one reader per shard, children after their parents, restore

`run keep s as` runs the splitter together with its stream for an arbitrary list of actions: a splitter (re)starting
from the last checkpoint, discovery ticks, finish notifications for any ids in any order, checkpoints, and
splits / merges of the stream. `run keep readd`: `keep` = the splitter checkpoint also contains the withheld shards
(D16c repair), `readd` = a restart resumes shards with a reported position that were no longer assigned (D52 repair).
The code as it is (HEAD, all of D16a/b/c/d, D52, D61 repaired) is `run true true`; `false` selects the old rules, kept
for the counterexamples. `s.log` lists the shards handed out since the
last (re)start; by `log_records_calls` it is exactly the content of the `AssignSplits` calls. -/

theorem log_records_calls (keep readd : Bool) (s : Sp) (a : Act) :
    (step keep readd s a).1.log = (match a with | .start => [] | _ => s.log) ++ callIds (step keep readd s a).2 :=
  step_log keep readd s a

/-- **One reader.** Between two (re)starts no shard is handed out twice (each `AssignSplits` call names one runner
per shard, `uidx_lt`), for every history, also across restores. -/
theorem one_reader (keep readd : Bool) (shards runners : Nat) (as : List Act) :
    (run keep readd (initSp shards runners) as).log.Nodup :=
  (Inv.run keep readd as _ (Inv.init shards runners)).L1

/-- a shard that is currently assigned has no parent that the tracker still knows (tracker-level form) -/
theorem assigned_has_no_known_parent (keep readd : Bool) (shards runners : Nat) (as : List Act) :
    let s := run keep readd (initSp shards runners) as
    ∀ sh ∈ s.tr.known, sh.id ∈ s.tr.assigned → ∀ p ∈ sh.parents, knownId s.tr.known p = false :=
  (Inv.run keep readd as _ (Inv.init shards runners)).W

/-- **Children withheld** (the code as it is, `keep = true`: D16c repaired in /repo e1d3d29, the splitter checkpoint
persists the shards that are known but withheld): whenever a shard has been handed out, a finish notification for each of
its parents had been processed before — for every split/merge history and every checkpoint/restore placement. -/
theorem children_withheld (readd : Bool) (shards runners : Nat) (as : List Act) :
    let s := run true readd (initSp shards runners) as
    ∀ i ∈ s.log, ∀ sh : Shard, s.stream[i]? = some sh → ∀ p ∈ sh.parents, p ∈ s.done :=
  (Inv.run true readd as _ (Inv.init shards runners)).D
    (Clean.run readd as _ ⟨rfl, fun c hc => by simp [initSp] at hc⟩).t

/-- History (the rule before the D16c repair, `keep = false`: withheld shards were not persisted; witnesses
`children_withheld_counterexample`, `assignable_is_assigned_counterexample`): children were withheld as long as
`tainted = false`: no restore so far used a checkpoint that
was taken while a withheld (known, unassigned) shard had an id below `LastAssignedShardId`
(`Ckpt.good = false`), nor one taken after such a restore. -/
theorem children_withheld_old_rule (readd : Bool) (shards runners : Nat) (as : List Act) :
    let s := run false readd (initSp shards runners) as
    s.tainted = false →
    ∀ i ∈ s.log, ∀ sh : Shard, s.stream[i]? = some sh → ∀ p ∈ sh.parents, p ∈ s.done :=
  (Inv.run false readd as _ (Inv.init shards runners)).D

/-- the excluded condition is exactly how `tainted` arises -/
theorem tainted_only_by_bad_restore (readd : Bool) (s : Sp) (a : Act) (h : s.tainted = false)
    (h' : (step false readd s a).1.tainted = true) :
    a = .start ∧ ∃ c, s.ck = some c ∧ (c.good = false ∨ c.clean = false) := by
  cases a with
  | start =>
    refine ⟨rfl, ?_⟩
    have e : (step false readd s .start).1.tainted = (load false readd s).tainted :=
      (assignAvail_tainted (discover (load false readd s))).1
    rw [e] at h'
    unfold load at h'
    cases hck : s.ck with
    | none => rw [hck] at h'; simp [h] at h'
    | some c =>
      rw [hck] at h'
      refine ⟨c, rfl, ?_⟩
      simp only [h, Bool.false_or, Bool.not_false, Bool.true_and, Bool.or_eq_true, Bool.not_eq_true'] at h'
      rcases h' with h' | h'
      · exact Or.inr h'
      · exact Or.inl h'
  | tick => rw [show (step false readd s .tick).1.tainted = s.tainted from (assignAvail_tainted (discover s)).1, h] at h'; exact Bool.noConfusion h'
  | finish ids => rw [show (step false readd s (.finish ids)).1.tainted = s.tainted from (assignAvail_tainted (remove s ids)).1, h] at h'; exact Bool.noConfusion h'
  | ckpt st => simp [step, checkpoint, h] at h'
  | split i a =>
    simp only [step, envSplit] at h'
    cases hi : s.stream[i]? with
    | none => rw [hi] at h'; simp [h] at h'
    | some sh =>
      rw [hi] at h'
      simp only at h'
      split at h' <;> simp [h] at h'
  | merge i j =>
    simp only [step, envMerge] at h'
    cases hi : s.stream[i]? with
    | none => rw [hi] at h'; simp [h] at h'
    | some a =>
      cases hj : s.stream[j]? with
      | none => rw [hi, hj] at h'; simp [h] at h'
      | some b => rw [hi, hj] at h'; simp [h] at h'

/-- **Restore resumes** (shards still assigned when the splitter's part of the checkpoint was taken). A splitter
restarted from a checkpoint hands out every such shard, with the cursor the runners reported for it, in its first
`AssignSplits` call — unless (ideal splitter only, `readd`) a parent of it is resumed first because its reported
position had been dropped from the tracker (D52); nothing is handed out twice. -/
theorem restore_resumes (keep readd : Bool) (shards runners : Nat) (as : List Act) (c : Ckpt) :
    let s := run keep readd (initSp shards runners) as
    s.ck = some c →
    (∀ sh ∈ c.tr.known, sh.id ∈ c.tr.assigned →
      (∃ call ∈ (restart keep readd s).2, (uidx sh.lo sh.hi s.runners, sh.id, cursorOf c.states sh.id) ∈ call) ∨
      (readd = true ∧ ∃ p ∈ sh.parents, p ∈ (readdList s.stream c).map (·.id))) ∧
    (restart keep readd s).1.log = callIds (restart keep readd s).2 ∧ (restart keep readd s).1.log.Nodup := by
  intro s hck
  have hI : Inv s := Inv.run keep readd as _ (Inv.init shards runners)
  refine ⟨fun sh hs ha => restart_assigns keep readd s hI c hck sh hs ha, ?_, (Inv.restart keep readd s hI).L1⟩
  have := step_log keep readd s .start
  simpa [step] using this

/-- **Every reported position is resumed** (the code as it is, `keep = true`; the D52 repair /repo c7455f1:
`resumeFinishedShards` re-adds shards which have a reported position but were no longer assigned when the splitter's
part of the checkpoint was taken, `readd = true`; also for the ideal splitter that persists withheld shards). For every history: a restart hands out every shard of the stream for which the
checkpoint holds a position, with that position, or the shard waits for a tracked parent. -/
theorem reported_positions_resumed (keep : Bool) (shards runners : Nat) (as : List Act) (c : Ckpt) :
    let s := run keep true (initSp shards runners) as
    s.ck = some c →
    ∀ (i : Nat) (sh : Shard), s.stream[i]? = some sh → i ∈ c.states.map (·.1) →
      (∃ call ∈ (restart keep true s).2, (uidx sh.lo sh.hi s.runners, i, cursorOf c.states i) ∈ call) ∨
      ∃ p ∈ sh.parents, knownId (discover (load keep true s)).tr.known p = true := by
  intro s hck i sh hsh hst
  exact reported_resumed keep true s (Inv.run keep true as _ (Inv.init shards runners)) c hck i sh hsh hst
    (fun _ _ => rfl)

/-- History (the rule before the D52 repair, `readd = false`): positions were resumed only for shards that, when the
splitter's part of the checkpoint was taken (`Store.finishSnapshot`, after the last acknowledgement), were still
tracked and assigned, or not yet passed by discovery; a shard that finished between its runner's barrier and that
moment was in no list of the checkpoint any more (`reported_positions_resumed_counterexample`). -/
theorem reported_positions_resumed_old_rule (shards runners : Nat) (as : List Act) (c : Ckpt) :
    let s := run false false (initSp shards runners) as
    s.ck = some c →
    ∀ (i : Nat) (sh : Shard), s.stream[i]? = some sh → i ∈ c.states.map (·.1) →
      ((knownId c.tr.known i = true ∧ i ∈ c.tr.assigned) ∨ c.tr.next ≤ i) →
      (∃ call ∈ (restart false false s).2, (uidx sh.lo sh.hi s.runners, i, cursorOf c.states i) ∈ call) ∨
      ∃ p ∈ sh.parents, knownId (discover (load false false s)).tr.known p = true := by
  intro s hck i sh hsh hst hx
  apply reported_resumed false false s (Inv.run false false as _ (Inv.init shards runners)) c hck i sh hsh hst
  intro hA hlt
  rcases hx with ⟨a, b⟩ | b
  · exact absurd ⟨a, Or.inl b⟩ hA
  · omega

/-- after every step that ends with an assignment round nothing assignable is left: every tracked shard is assigned
or has a tracked parent -/
theorem assignment_round_leaves_nothing_available (keep readd : Bool) (s : Sp) (a : Act)
    (ha : a = .start ∨ a = .tick ∨ ∃ ids, a = .finish ids) : available (step keep readd s a).1.tr = [] := by
  rcases ha with rfl | rfl | ⟨ids, rfl⟩ <;> exact available_after_assign _

/-- **No shard is left behind**, general form for any `keep` (for `keep = false`, the rule before the D16c repair,
the hypothesis is needed; `none_left_behind` is the statement about the code). After a (re)start or a discovery tick —
both end with an assignment round — every shard of the stream is finished, has been handed out, or waits for a parent
the tracker still tracks. Full statement: without the hypothesis. Excluded condition as in
`children_withheld_old_rule`: the state after the step is untainted. -/
theorem none_left_behind_untainted (keep readd : Bool) (shards runners : Nat) (as : List Act) (a : Act)
    (ha : a = .start ∨ a = .tick) :
    let s' := (step keep readd (run keep readd (initSp shards runners) as) a).1
    s'.tainted = false →
    ∀ (i : Nat) (sh : Shard), s'.stream[i]? = some sh →
      i ∈ s'.done ∨ i ∈ s'.log ∨ ∃ p ∈ sh.parents, knownId s'.tr.known p = true := by
  intro s' ht
  have hI : Inv (run keep readd (initSp shards runners) as) := Inv.run keep readd as _ (Inv.init shards runners)
  rcases ha with rfl | rfl
  · have ht' : (load keep readd (run keep readd (initSp shards runners) as)).tainted = false := by
      have := (assignAvail_tainted (discover (load keep readd (run keep readd (initSp shards runners) as)))).1
      rw [← ht]; exact this.symm
    exact round_complete _ (Inv.load keep readd _ hI) ht'
  · have ht' : (run keep readd (initSp shards runners) as).tainted = false := by
      have := (assignAvail_tainted (discover (run keep readd (initSp shards runners) as))).1
      rw [← ht]; exact this.symm
    exact round_complete _ hI ht'

/-- **No shard is left behind** (the code as it is, `keep = true`): unconditional. -/
theorem none_left_behind (readd : Bool) (shards runners : Nat) (as : List Act) (a : Act) (ha : a = .start ∨ a = .tick) :
    let s' := (step true readd (run true readd (initSp shards runners) as) a).1
    ∀ (i : Nat) (sh : Shard), s'.stream[i]? = some sh →
      i ∈ s'.done ∨ i ∈ s'.log ∨ ∃ p ∈ sh.parents, knownId s'.tr.known p = true := by
  intro s'
  have hc : Clean (run true readd (initSp shards runners) as) := Clean.run readd as _ ⟨rfl, fun c hc => by simp [initSp] at hc⟩
  exact none_left_behind_untainted true readd shards runners as a ha (Clean.step readd _ hc a).t

/-- **Every assignable shard is assigned**, general form for any `keep` (`assignable_is_assigned` is the statement
about the code, `keep = true`, unconditional on taint by `Clean`). As long as finish notifications only name shards that were assigned (`wild = false`: what
readers do), after a (re)start or a discovery tick every shard of the stream whose parents are all finished, and which
is not finished itself, has been handed out. -/
theorem assignable_is_assigned_untainted (keep readd : Bool) (shards runners : Nat) (as : List Act) (a : Act)
    (ha : a = .start ∨ a = .tick) :
    let s' := (step keep readd (run keep readd (initSp shards runners) as) a).1
    s'.tainted = false → s'.wild = false →
    ∀ (i : Nat) (sh : Shard), s'.stream[i]? = some sh → (∀ p ∈ sh.parents, p ∈ s'.done) → i ∉ s'.done → i ∈ s'.log := by
  intro s' ht hw i sh hi hpar hnd
  have hI : Inv (run keep readd (initSp shards runners) as) := Inv.run keep readd as _ (Inv.init shards runners)
  have hT : Tame s' := Tame.step keep readd _ hI (Tame.run keep readd as _ (Inv.init shards runners) (Tame.init shards runners)) a
  rcases none_left_behind_untainted keep readd shards runners as a ha ht i sh hi with h1 | h1 | ⟨p, hp, hk⟩
  · exact absurd h1 hnd
  · exact h1
  · obtain ⟨t, hts, e⟩ := (knownId_iff _ _).mp hk
    exact absurd (e ▸ hpar p hp) (hT.X hw t hts)

theorem assignable_is_assigned (readd : Bool) (shards runners : Nat) (as : List Act) (a : Act) (ha : a = .start ∨ a = .tick) :
    let s' := (step true readd (run true readd (initSp shards runners) as) a).1
    s'.wild = false →
    ∀ (i : Nat) (sh : Shard), s'.stream[i]? = some sh → (∀ p ∈ sh.parents, p ∈ s'.done) → i ∉ s'.done → i ∈ s'.log := by
  intro s'
  have hc : Clean (run true readd (initSp shards runners) as) := Clean.run readd as _ ⟨rfl, fun c hc => by simp [initSp] at hc⟩
  exact assignable_is_assigned_untainted true readd shards runners as a ha (Clean.step readd _ hc a).t

/-- **Recovery resumes the sources from the cut the operators restore.** For every history of completed checkpoints
(snapshot write finished at once or still in flight), late publications and (re)deployments — including a publication
that lands between `assembly.Deploy` and `sourceSplitter.Start` — every (re)start either restores nothing and assigns
no cursor, or deploys the operators with a checkpoint id and assigns the split with the position the runner reported
for exactly that id (ids are unique). -/
theorem job_resumes_restored_cut (as : List JAct) :
    ((jrun {} as).1.reported.map (·.1)).Nodup ∧
    ∀ o ∈ (jrun {} as).2, o = (none, none) ∨ ∃ c ∈ (jrun {} as).1.reported, o = (some c.1, some c.2) :=
  ⟨(jrun_inv as {} ⟨by simp, by simp, by simp, by simp⟩).nodup, jrun_obs as {} ⟨by simp, by simp, by simp, by simp⟩⟩

example : (jrun {} [.start false, .ckpt 10 false, .ckpt 20 true, .start true, .start false]).2 =
    [(none, none), (some 1, some 10), (some 2, some 20)] := by decide

/-- **The splitter's checkpoint is one consistent view** (structural fact, regenerated from the source on every run by
`tools/gofacts/facts_c16.go`): `SourceSplitter.Checkpoint` obtains the assigned shards and `LastAssignedSplitID` from
ONE call of a `SplitTracker` method that holds the tracker's mutex for its whole body, and reads neither of them
anywhere else. This is what makes the model's atomic `checkpoint` step right (D61, repaired in /repo 3c1870d: the
list was read under the mutex and the id afterwards without it, so an assignment in between produced a checkpoint
whose id covered shards missing from its list). -/
theorem checkpoint_is_one_locked_read : Facts.c16CheckpointOneLockedRead = 1 := by decide

/-! ### non-vacuity and the witnesses of the repaired findings -/

/-- a small stream: shard 0 → 2,3; shard 1 → 4,5; later shard 2 → 6,7 -/
def witness : List Act :=
  [.start, .split 0 100, .split 1 (2 ^ 127 + 5), .tick, .finish [1], .ckpt [(0, 7), (4, 9)], .split 2 50, .start]

example : (run true true (initSp 2 2) witness).log = [0, 4, 5] := by decide
example : ((run true true (initSp 2 2) witness).ck.map fun c => (c.tr.assigned, c.tr.next, c.good)) = some ([5, 4, 0], 6, false) := by
  decide
example : (restart true true (run true true (initSp 2 2) (witness.take 7))).2 = [[(0, 0, 7), (1, 4, 9), (1, 5, 0)]] := by decide
example : (restart false true (run false true (initSp 2 2) (witness.take 7))).2 =
    [[(0, 7, 0), (0, 6, 0), (0, 0, 7), (1, 4, 9), (1, 5, 0)]] := by decide

/-- D16c on the model of the code before the repair (`keep = false`): after the restore the grandchildren 6,7 of the unfinished shard 0 are
handed out although their parent 2 was never read (and 2,3 are lost) -/
theorem children_withheld_counterexample :
    let s := run false true (initSp 2 2) witness
    s.tainted = true ∧ 6 ∈ s.log ∧ s.stream[6]?.map (·.parents) = some [2] ∧ 2 ∉ s.done := by decide

/-- D52 on the model of the code before the repair (`readd = false`; the auditor's witness): shard 0 is split, its children are discovered;
the runner reports position 5 of shard 0 at the barrier, shard 0 finishes before the splitter's part of the checkpoint
is taken; the restart hands out only the children — shard 0, which the operators' state covers up to position 5 only,
is never read again -/
def witnessD52 : List Act := [.start, .split 0 100, .tick, .finish [0], .ckpt [(0, 5)]]

theorem reported_positions_resumed_counterexample :
    let s := run false false (initSp 1 1) witnessD52
    (s.ck.map fun c => (c.states, c.tr.assigned, c.tr.next)) = some ([(0, 5)], [2, 1], 3) ∧
    (restart false false s).2 = [[(0, 1, 0), (0, 2, 0)]] ∧ (restart false false s).1.dropped = true ∧
    (restart false false s).1.tainted = false := by decide

/-- the ideal splitter resumes shard 0 from position 5 and withholds the children -/
example : (restart true true (run true true (initSp 1 1) witnessD52)).2 = [[(0, 0, 5)]] := by decide
example : (restart false true (run false true (initSp 1 1) witnessD52)).2 = [[(0, 0, 5)]] := by decide

/-- ... and after shard 0 finishes and a discovery tick its children 2,3 are still not handed out -/
theorem assignable_is_assigned_counterexample :
    let s := run false true (initSp 2 2) (witness ++ [.finish [0], .tick])
    s.wild = false ∧ s.stream[2]?.map (·.parents) = some [0] ∧ 0 ∈ s.done ∧ 2 ∉ s.done ∧ 2 ∉ s.log := by decide

end Rxn.C16
