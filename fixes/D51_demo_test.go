package operator_test

// Copy to /repo/workers/operator/ and run (generated protobuf code comes from the verif overlay):
//   cd /repo && go test -mod=mod -vet=off -count=1 -overlay /verif/.cache/overlay.json -run TestVerifD51 ./workers/operator/

import (
	"testing"
	"time"

	"google.golang.org/protobuf/types/known/timestamppb"
	"reduction.dev/reduction/dkv"
	"reduction.dev/reduction/dkv/storage"
	"reduction.dev/reduction/partitioning"
	"reduction.dev/reduction/proto/workerpb"
	"reduction.dev/reduction/workers/operator"
)

// D51: a timer before 1970 must fire when the watermark passes it, and before any later timer. Timer keys carry
// uint64(t.UnixNano()) big-endian, so a negative UnixNano sorts after every positive one.
func TestVerifD51PreEpochTimerFiresInOrder(t *testing.T) {
	db := dkv.Open(dkv.DBOptions{FileSystem: storage.NewMemoryFilesystem()}, nil)
	ks := partitioning.NewKeySpace(1, 1)
	store := operator.NewTimerStore(db, ks, partitioning.KeyGroupRange{Start: 0, End: 1}, 1<<20)
	reg := operator.NewTimerRegistry(store, []string{"sr0"})

	early := time.Unix(0, -5)                           // 5 ns before the epoch
	late := time.Date(2100, 1, 1, 0, 0, 0, 0, time.UTC) // far in the future
	// the runner works through data from before 1970: its watermark is below the epoch, so the early timer is accepted
	for range reg.AdvanceWatermark("sr0", &workerpb.Watermark{Timestamp: timestamppb.New(time.Unix(-1, 0))}) {
	}
	reg.SetTimer([]byte("k"), early)
	reg.SetTimer([]byte("k"), late)

	var fired []time.Time
	for _, ts := range reg.AdvanceWatermark("sr0", &workerpb.Watermark{Timestamp: timestamppb.New(time.Unix(10, 0))}) {
		fired = append(fired, ts)
	}
	if len(fired) != 1 || !fired[0].Equal(early) {
		t.Fatalf("watermark 10s: fired %v, want exactly the timer at -5ns", fired)
	}
}
