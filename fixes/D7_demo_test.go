package partitioning_test

// D7: AssignRanges walked `from` with two advancing pointers, which is only correct when `from` is sorted by
// Start. The job passes the operator checkpoints of the last job checkpoint in the order the operators
// acknowledged (storage/snapshots addOperatorSnapshot appends), so with two operators acknowledging in the order
// (1, 0) the new operator 0 was given no checkpoint at all and started with empty state.
//
// Run (from /repo, with the generated protobuf overlay of /verif):
//   cp /verif/fixes/D7_demo_test.go partitioning/verif_d7_demo_test.go
//   GOFLAGS=-mod=mod GOPROXY=off go test -overlay /verif/.cache/overlay.json -vet=off -count=1 -run TestVerifD7 ./partitioning/

import (
	"fmt"
	"testing"

	"reduction.dev/reduction/partitioning"
)

func TestVerifD7AssignRangesAnyRecordedOrder(t *testing.T) {
	to := []partitioning.KeyGroupRange{{Start: 0, End: 128}, {Start: 128, End: 256}}
	from := []partitioning.KeyGroupRange{{Start: 128, End: 256}, {Start: 0, End: 128}} // acknowledgement order 1, 0
	got := partitioning.AssignRanges(to, from)
	if fmt.Sprint(got) != "[[1] [0]]" {
		t.Fatalf("AssignRanges(to=%v, from=%v) = %v, want [[1] [0]]", to, from, got)
	}

	// scale 3 -> 2 with the checkpoints recorded in the order 2, 0, 1
	to = []partitioning.KeyGroupRange{{Start: 0, End: 3}, {Start: 3, End: 6}}
	from = []partitioning.KeyGroupRange{{Start: 4, End: 6}, {Start: 0, End: 2}, {Start: 2, End: 4}}
	got = partitioning.AssignRanges(to, from)
	if fmt.Sprint(got) != "[[1 2] [0 2]]" {
		t.Fatalf("AssignRanges(to=%v, from=%v) = %v, want [[1 2] [0 2]]", to, from, got)
	}
}
